(* C14, bigBed writer: the shape of the trace of an accepted input (body, header operation,
   patches), of a refused input, and what the destination holds at every crash point.
   As Proofs/SinkExec.v + SinkPhases.v for the bigWig writer, with the summary slot and the count
   at offsets that depend on the length of the autoSql text ([lay_ok]: the layout facts the
   computation of write_info needs, for any position of the 48 patched bytes behind the blank
   headers). *)
From BT Require Import Base.Util Base.LE Base.Float Generated.Consts Model.RTree Model.BBIFile Model.BigWigWrite Model.BBIRead
  Model.BigBedWrite Model.SinkTrace Model.SinkTraceBed
  Proofs.RTreeCodec Proofs.SinkBytes Proofs.SinkFault Proofs.SinkExec Proofs.SinkPhases.
Local Open Scope N_scope.

(* ---- the layout write_info relies on ---- *)
Record lay_ok (p : parts) : Prop := {
  lk_hdr : Nlen (p_hdr p) = 64;
  lk_zdir : Nlen (p_zdir p) <= 240;
  lk_so : 304 <= p_so p;
  lk_sum : Nlen (p_sum p) = 40;
  lk_fdo : p_fdo p = p_so p + 40;
  lk_cnt : Nlen (p_cnt p) = 8;
  lk_magic : Nlen (p_magic p) = 4;
  lk_body : p_so p + 48 <= Nlen (body p) }.

(* write_info after its first seek: from a state with an empty buffer at position 0 whose
   content is the body *)
Lemma exec_info_tail_lay p s : lay_ok p -> s_buf s = [] -> s_pos s = 0 -> s_file s = body p ->
  exists s', exec None [W (p_hdr p); W (p_zdir p); CSeek (ToStart (p_so p)); W (p_sum p); CSeek (ToStart (p_fdo p));
                        W (p_cnt p); CSeek ToEnd; W (p_magic p); CFlush] s = (Ok tt, s')
    /\ s_buf s' = [] /\ s_ops s' = s_ops s ++ header_op p :: tail_ops p.
Proof.
  intros K Hb Hp Hf. pose proof (lk_body p K) as HL. pose proof (lk_so p K) as Hso. pose proof (lk_fdo p K) as Hfdo.
  change [W (p_hdr p); W (p_zdir p); CSeek (ToStart (p_so p)); W (p_sum p); CSeek (ToStart (p_fdo p));
          W (p_cnt p); CSeek ToEnd; W (p_magic p); CFlush]
    with ([W (p_hdr p)] ++ [W (p_zdir p); CSeek (ToStart (p_so p))] ++ [W (p_sum p); CSeek (ToStart (p_fdo p))]
          ++ [W (p_cnt p); CSeek ToEnd] ++ [W (p_magic p); CFlush]).
  rewrite exec_app. unfold bindM at 1. cbn [exec]. unfold bindM at 1.
  rewrite (W_buffers None (p_hdr p) s) by (rewrite Hb; change (Nlen []) with 0; rewrite (lk_hdr p K); unfold CAP; lia).
  unfold ret. set (s0 := set_buf (s_buf s ++ p_hdr p) s).
  assert (Hb0 : s_buf s0 = p_hdr p) by (unfold s0; cbn [set_buf s_buf]; rewrite Hb; reflexivity).
  rewrite exec_app. unfold bindM at 1.
  destruct (write_then_seek (p_zdir p) (ToStart (p_so p)) s0) as [s1 [E1 [B1 [F1 [P1 O1]]]]].
  { rewrite Hb0, (lk_hdr p K). pose proof (lk_zdir p K). unfold CAP. lia. }
  { rewrite Hb0. intros E. apply app_eq_nil in E as [E _]. revert E. apply (Nlen_nonempty _ 64 (lk_hdr p K)). lia. }
  rewrite E1. rewrite Hb0 in F1, O1. unfold s0 in F1, O1. cbn [set_buf s_pos s_file s_ops] in F1, O1. rewrite Hp in F1, O1.
  (* summary *)
  rewrite exec_app. unfold bindM at 1.
  destruct (write_then_seek (p_sum p) (ToStart (p_fdo p)) s1) as [s2 [E2 [B2 [F2 [P2 O2]]]]].
  { rewrite B1. change (Nlen []) with 0. rewrite (lk_sum p K). unfold CAP. lia. }
  { rewrite B1. cbn [app]. apply (Nlen_nonempty _ 40 (lk_sum p K)). lia. }
  rewrite E2. rewrite B1 in F2, O2. cbn [app] in F2, O2. rewrite P1 in F2, O2.
  (* count *)
  rewrite exec_app. unfold bindM at 1.
  destruct (write_then_seek (p_cnt p) ToEnd s2) as [s3 [E3 [B3 [F3 [P3 O3]]]]].
  { rewrite B2. change (Nlen []) with 0. rewrite (lk_cnt p K). unfold CAP. lia. }
  { rewrite B2. cbn [app]. apply (Nlen_nonempty _ 8 (lk_cnt p K)). lia. }
  rewrite E3. rewrite B2 in F3, O3, P3. cbn [app] in F3, O3, P3. rewrite P2 in F3, O3, P3.
  (* the lengths: all three patches lie inside the body *)
  assert (L1 : Nlen (s_file s1) = Nlen (body p)).
  { rewrite F1, Hf. apply write_at_Nlen_inside. rewrite Nlen_app', (lk_hdr p K). pose proof (lk_zdir p K). lia. }
  assert (L2 : Nlen (s_file s2) = Nlen (body p)).
  { rewrite F2, <- L1. apply write_at_Nlen_inside. rewrite (lk_sum p K), L1. lia. }
  assert (L3 : Nlen (s_file s3) = Nlen (body p)).
  { rewrite F3, <- L2. apply write_at_Nlen_inside. rewrite (lk_cnt p K), L2. lia. }
  rewrite <- F3, L3 in P3.
  (* the closing magic and the flush *)
  cbn [exec]. unfold bindM at 1.
  rewrite (W_buffers None (p_magic p) s3) by (rewrite B3; change (Nlen []) with 0; rewrite (lk_magic p K); unfold CAP; lia).
  unfold bindM at 1.
  assert (Hne : s_buf (set_buf (s_buf s3 ++ p_magic p) s3) <> []).
  { cbn [set_buf s_buf]. rewrite B3. cbn [app]. apply (Nlen_nonempty _ 4 (lk_magic p K)). lia. }
  rewrite (flush_nonempty _ Hne). unfold ret.
  eexists. split; [reflexivity|].
  unfold flushed, emit, bump. cbn [set_buf s_buf s_pos s_file s_ops apply_op kind_of].
  split; [reflexivity|].
  rewrite B3, O3, O2, O1, P3, P2, P1. cbn [app]. unfold header_op, tail_ops.
  rewrite <- !app_assoc. cbn [app]. reflexivity.
Qed.

(* ---- crash points: at and after the header operation everything but the summary slot, the
   count and the closing magic is final ---- *)
Definition complete_at (so : nat) (p : parts) (X : list N) : Prop :=
  (length (body p) <= length X <= length (body p) + 4)%nat
  /\ forall i, (i < length (body p))%nat -> ~ (so <= i < so + 48)%nat -> nth i X 0 = nth i (final_bytes p) 0.

Lemma tail_window_lay p : lay_ok p ->
  Forall (window_op (N.to_nat (p_so p)) (N.to_nat (p_so p) + 48) (length (body p)) 4) (tail_ops p).
Proof.
  intros K. unfold tail_ops.
  pose proof (Nlen_nat _ 40 (lk_sum p K)) as H1. pose proof (Nlen_nat _ 8 (lk_cnt p K)) as H2.
  pose proof (Nlen_nat _ 4 (lk_magic p K)) as H3. pose proof (lk_fdo p K) as Hfdo.
  constructor; [exact I|]. constructor; [cbn [window_op]; left; lia|]. constructor; [exact I|].
  constructor; [cbn [window_op]; left; lia|]. constructor; [exact I|].
  constructor; [cbn [window_op]; right; unfold Nlen; rewrite Nat2N.id; lia|]. constructor; [exact I|constructor].
Qed.

Lemma after_header_length_lay p : lay_ok p -> length (after_header p) = length (body p).
Proof.
  intros K. unfold after_header. rewrite write_at_length, app_length.
  pose proof (Nlen_nat _ 64 (lk_hdr p K)). pose proof (lk_zdir p K). pose proof (lk_body p K). pose proof (lk_so p K).
  unfold Nlen in *. lia.
Qed.

Lemma final_is_replay_lay p : lay_ok p ->
  final_bytes p = fold_left apply_op (tail_ops p) (after_header p).
Proof.
  intros K. unfold tail_ops. cbn [fold_left apply_op]. unfold final_bytes, after_header.
  pose proof (lk_body p K) as HL. pose proof (lk_zdir p K) as HZ. pose proof (lk_so p K) as Hso. pose proof (lk_fdo p K) as Hfdo.
  pose proof (Nlen_nat _ 64 (lk_hdr p K)) as H0. pose proof (Nlen_nat _ 40 (lk_sum p K)) as H1.
  pose proof (Nlen_nat _ 8 (lk_cnt p K)) as H2.
  set (f1 := patch_at (body p) 0 (p_hdr p ++ p_zdir p)).
  assert (E1 : write_at (body p) 0 (p_hdr p ++ p_zdir p) = f1) by (apply write_at_patch; cbn; lia).
  rewrite E1.
  assert (L1 : length f1 = length (body p)).
  { rewrite <- E1, write_at_length, app_length. unfold Nlen in *. lia. }
  set (f2 := patch_at f1 (p_so p) (p_sum p)).
  assert (E2 : write_at f1 (p_so p) (p_sum p) = f2).
  { apply write_at_patch. rewrite L1. unfold Nlen in HL. lia. }
  rewrite E2.
  assert (L2 : length f2 = length (body p)).
  { rewrite <- E2, write_at_length, L1. unfold Nlen in *. lia. }
  set (f3 := patch_at f2 (p_fdo p) (p_cnt p)).
  assert (E3 : write_at f2 (p_fdo p) (p_cnt p) = f3).
  { apply write_at_patch. rewrite L2. unfold Nlen in HL. lia. }
  rewrite E3.
  assert (L3 : length f3 = length (body p)).
  { rewrite <- E3, write_at_length, L2. unfold Nlen in *. lia. }
  replace (Nlen (body p)) with (Nlen f3) by (unfold Nlen; now rewrite L3).
  now rewrite write_at_end.
Qed.

Lemma window_complete_lay p X ops : lay_ok p ->
  Forall (window_op (N.to_nat (p_so p)) (N.to_nat (p_so p) + 48) (length (body p)) 4) ops ->
  X = fold_left apply_op ops (after_header p) -> complete_at (N.to_nat (p_so p)) p X.
Proof.
  intros K Hw ->. pose proof (lk_body p K) as HL.
  assert (Hhi : (N.to_nat (p_so p) + 48 <= length (body p))%nat) by (unfold Nlen in HL; lia).
  assert (Hl0 : (length (body p) <= length (after_header p) <= length (body p) + 4)%nat)
    by (rewrite (after_header_length_lay p K); lia).
  destruct (window_fold _ _ _ 4 ops Hhi Hw _ Hl0) as [Hlen Hnth].
  destruct (window_fold _ _ _ 4 (tail_ops p) Hhi (tail_window_lay p K) _ Hl0) as [_ HnthF].
  split; [exact Hlen|]. intros i Hi Hout. rewrite (final_is_replay_lay p K).
  rewrite Hnth, HnthF by assumption. reflexivity.
Qed.

Lemma final_length_lay p : lay_ok p -> length (final_bytes p) = (length (body p) + 4)%nat.
Proof.
  intros K. rewrite (final_is_replay_lay p K). pose proof (lk_body p K) as HL. pose proof (lk_fdo p K) as Hfdo.
  unfold tail_ops. cbn [fold_left apply_op]. rewrite write_at_length.
  set (f3 := write_at (write_at (after_header p) (p_so p) (p_sum p)) (p_fdo p) (p_cnt p)).
  assert (L3 : length f3 = length (body p)).
  { unfold f3. rewrite !write_at_length, (after_header_length_lay p K).
    pose proof (Nlen_nat _ 40 (lk_sum p K)). pose proof (Nlen_nat _ 8 (lk_cnt p K)). unfold Nlen in HL. lia. }
  rewrite L3. pose proof (Nlen_nat _ 4 (lk_magic p K)) as H4. unfold Nlen. rewrite Nat2N.id. lia.
Qed.

(* ---- write_pre of the bigBed writer, computed up to the first tell ---- *)
Definition ops_blank : list sop := [SSeek 0; SWrite 0 (repeatN 0 304); SSeek 304].
Definition st_blank : st :=
  {| s_buf := []; s_pos := 304; s_file := repeatN 0 304; s_ops := ops_blank;
     s_nseek := 2; s_nwrite := 1; s_nflush := 0 |}.
Lemma exec_blank : exec None (calls_blank ++ [CTell]) st0 = (Ok tt, st_blank).
Proof. vm_compute. reflexivity. Qed.
Lemma st_blank_app : app_mode st_blank.
Proof. split; vm_compute; reflexivity. Qed.
Lemma ops_blank_phase1 : Forall phase1_op ops_blank.
Proof.
  unfold ops_blank. constructor; [exact I|]. constructor; [right; apply all_zero_repeat|]. constructor; [exact I|constructor].
Qed.
Lemma blank_zeros : blank_headers = repeatN 0 304.
Proof. vm_compute. reflexivity. Qed.

(* write_pre after the first tell *)
Definition calls_pre_rest (sql : list N) : list call :=
  [W (sql ++ [0]); CTell; W (repeatN 0 40); CTell; W (u64 0); CTell].
Lemma bb_calls_pre_split sql : bb_calls_pre sql = (calls_blank ++ [CTell]) ++ calls_pre_rest sql.
Proof. reflexivity. Qed.
Lemma pre_rest_append sql : Forall append_call (calls_pre_rest sql).
Proof. repeat constructor. Qed.
Lemma pre_rest_bytes sql : flat_map cbytes (calls_pre_rest sql) = sql ++ [0] ++ repeatN 0 40 ++ u64 0.
Proof. cbn [calls_pre_rest flat_map cbytes W CTell app]. rewrite app_nil_r, <- !app_assoc. reflexivity. Qed.

(* the state when write_info begins *)
Lemma bb_exec_body ck kind sql p : chunker_ok ck -> p_pre p = bb_pre sql ->
  exists s, exec None (bb_calls_body ck kind sql p) st0 = (Ok tt, s)
    /\ app_mode s /\ s_file s ++ s_buf s = body p
    /\ (exists new, s_ops s = ops_blank ++ new /\ Forall (above 304) new) /\ 304 <= s_pos s.
Proof.
  intros Hck Hpre.
  assert (Hsplit : bb_calls_body ck kind sql p
                   = (calls_blank ++ [CTell]) ++ (calls_pre_rest sql ++ calls_after_pre ck kind p)).
  { unfold bb_calls_body, calls_after_pre. rewrite bb_calls_pre_split, <- !app_assoc. reflexivity. }
  rewrite Hsplit, exec_app. unfold bindM. rewrite exec_blank.
  assert (Happ : Forall append_call (calls_pre_rest sql ++ calls_after_pre ck kind p))
    by (apply Forall_app; split; [apply pre_rest_append|apply after_pre_append]).
  destruct (appends_exec _ Happ st_blank st_blank_app) as [s [E [A [F [[new [O P]] L]]]]].
  exists s. split; [exact E|]. split; [exact A|]. split; [|split].
  - rewrite F, flat_map_app', pre_rest_bytes, after_pre_bytes by exact Hck. unfold body. rewrite Hpre. unfold bb_pre.
    rewrite blank_zeros. cbn [st_blank s_file s_buf]. rewrite app_nil_r, <- !app_assoc. reflexivity.
  - exists new. split; [exact O|exact P].
  - exact L.
Qed.

(* ---- the parts of a bigBed as BigBedWrite lays them out ---- *)
Record bparts_ok (sql : list N) (p : parts) : Prop := {
  bk_pre : p_pre p = bb_pre sql;
  bk_hdr : Nlen (p_hdr p) = 64;
  bk_zdir : Nlen (p_zdir p) <= 240;
  bk_so : p_so p = 305 + Nlen sql;
  bk_sum : Nlen (p_sum p) = 40;
  bk_fdo : p_fdo p = 345 + Nlen sql;
  bk_cnt : Nlen (p_cnt p) = 8;
  bk_magic : Nlen (p_magic p) = 4 }.

Lemma bb_pre_Nlen sql : Nlen (bb_pre sql) = 353 + Nlen sql.
Proof.
  unfold bb_pre. rewrite !Nlen_app'. rewrite blank_zeros. unfold Nlen, u64.
  rewrite !repeatN_length, enc_le_length. cbn [length]. lia.
Qed.

Lemma bparts_lay sql p : bparts_ok sql p -> lay_ok p.
Proof.
  intros K. constructor.
  - exact (bk_hdr sql p K).
  - exact (bk_zdir sql p K).
  - rewrite (bk_so sql p K). lia.
  - exact (bk_sum sql p K).
  - rewrite (bk_so sql p K), (bk_fdo sql p K). lia.
  - exact (bk_cnt sql p K).
  - exact (bk_magic sql p K).
  - unfold body. rewrite Nlen_app', (bk_pre sql p K), bb_pre_Nlen, (bk_so sql p K). lia.
Qed.

(* ---- the trace of an accepted input ---- *)
Theorem bb_accept_trace ck kind sql p : chunker_ok ck -> bparts_ok sql p ->
  exists ops1,
    run None (Ok tt) (bb_calls_accept ck kind sql p) = (Ok tt, ops1 ++ header_op p :: tail_ops p)
    /\ Forall phase1_op ops1 /\ replay ops1 = body p /\ length ops1 = bb_header_index ck kind sql p.
Proof.
  intros Hck K. pose proof (bparts_lay sql p K) as KL.
  destruct (bb_exec_body ck kind sql p Hck (bk_pre sql p K)) as [s [E [A [F [[new [O P]] Hpos]]]]].
  destruct (seek_start_from_app s A) as [s1 [E1 [B1 [P1 [F1 [R1 [new1 [O1 Q1]]]]]]]].
  assert (Ebs : exec None (bb_calls_body ck kind sql p ++ [CSeek (ToStart 0)]) st0 = (Ok tt, s1)).
  { rewrite exec_app. unfold bindM. rewrite E. cbn [exec]. unfold bindM. rewrite E1. reflexivity. }
  exists (s_ops s1). split; [|split; [|split]].
  - destruct (exec_info_tail_lay p s1 KL B1 P1 (eq_trans F1 F)) as [s2 [E2 [B2 O2]]].
    assert (Eall : exec None (bb_calls_accept ck kind sql p) st0 = (Ok tt, s2)).
    { unfold bb_calls_accept, calls_info. cbn [app]. rewrite exec_app. unfold bindM. rewrite E.
      cbn [exec]. unfold bindM at 1. rewrite E1. exact E2. }
    rewrite (run_ok_empty _ s2 Eall B2), O2. reflexivity.
  - rewrite O1, O. apply Forall_app. split; [apply Forall_app; split|].
    + exact ops_blank_phase1.
    + apply (Forall_above_phase1 304); [lia|exact P].
    + apply (Forall_above_phase1 (s_pos s)); [lia|exact Q1].
  - rewrite R1, F1. exact F.
  - unfold bb_header_index. rewrite (run_ok_empty _ s1 Ebs B1). reflexivity.
Qed.

Section Crash.
Variables (ck : chunker) (kind : N) (sql : list N) (p : parts).
Hypotheses (Hck : chunker_ok ck) (K : bparts_ok sql p).
Let T := snd (run None (Ok tt) (bb_calls_accept ck kind sql p)).
Let h := bb_header_index ck kind sql p.

(* the header operation is the h-th *)
Lemma bb_header_at : nth_error T h = Some (header_op p).
Proof.
  unfold T, h. destruct (bb_accept_trace ck kind sql p Hck K) as [ops1 [E [_ [_ L]]]]. rewrite E. cbn [snd].
  rewrite <- L. rewrite nth_error_app2 by lia. rewrite Nat.sub_diag. reflexivity.
Qed.

(* every crash point before the header operation (any number of whole operations, any part of
   the next write): the first four bytes are zero, read_info refuses the file *)
Theorem bb_crash_before_rejected n c : (n < h)%nat -> rejected (replay (cut_ops T n c)).
Proof.
  intros Hn. unfold T, h in *. destruct (bb_accept_trace ck kind sql p Hck K) as [ops1 [E [P1 [_ L]]]]. rewrite E. cbn [snd].
  rewrite cut_ops_app_lt by lia. apply zero4_rejected, zero4_replay, phase1_cut. exact P1.
Qed.
Theorem bb_crash_at_header_rejected n : (n <= h)%nat -> rejected (replay (firstn n T)).
Proof.
  intros Hn. unfold T, h in *. destruct (bb_accept_trace ck kind sql p Hck K) as [ops1 [E [P1 [_ L]]]]. rewrite E. cbn [snd].
  rewrite firstn_app. replace (n - length ops1)%nat with 0%nat by lia. cbn [firstn]. rewrite app_nil_r.
  apply zero4_rejected, zero4_replay. apply Forall_forall. intros x Hx. rewrite Forall_forall in P1. apply P1.
  eapply in_firstn; eauto.
Qed.

(* every crash point that includes the header operation *)
Theorem bb_crash_after_complete n c : (h < n)%nat ->
  complete_at (N.to_nat (p_so p)) p (replay (cut_ops T n c)).
Proof.
  intros Hn. unfold T, h in *. destruct (bb_accept_trace ck kind sql p Hck K) as [ops1 [E [_ [R1 L]]]]. rewrite E. cbn [snd].
  replace n with (length ops1 + S (n - S (length ops1)))%nat by lia.
  rewrite cut_ops_app_ge.
  set (m := (n - S (length ops1))%nat).
  assert (Ec : cut_ops (header_op p :: tail_ops p) (S m) c = header_op p :: cut_ops (tail_ops p) m c) by reflexivity.
  rewrite Ec, replay_app. cbn [fold_left]. rewrite R1.
  apply (window_complete_lay p _ (cut_ops (tail_ops p) m c) (bparts_lay sql p K)).
  - apply window_cut. apply tail_window_lay. exact (bparts_lay sql p K).
  - reflexivity.
Qed.

(* the whole trace replays to the finished file *)
Theorem bb_replay_final : replay T = final_bytes p.
Proof.
  unfold T. destruct (bb_accept_trace ck kind sql p Hck K) as [ops1 [E [_ [R1 _]]]]. rewrite E. cbn [snd].
  rewrite replay_app. cbn [fold_left]. rewrite R1. symmetry. apply final_is_replay_lay. exact (bparts_lay sql p K).
Qed.
Theorem bb_accept_returns_ok : fst (run None (Ok tt) (bb_calls_accept ck kind sql p)) = Ok tt.
Proof. destruct (bb_accept_trace ck kind sql p Hck K) as [ops1 [E _]]. rewrite E. reflexivity. Qed.
End Crash.

(* ---- refused inputs ---- *)
(* the autoSql is refused: only the blank headers were handed to the BufWriter *)
Lemma refused_schema_ops status : snd (run None status calls_blank) = [SSeek 0; SWrite 0 (repeatN 0 304)].
Proof. vm_compute. reflexivity. Qed.
Lemma refused_schema_phase1 status : Forall phase1_op (snd (run None status calls_blank)).
Proof.
  rewrite refused_schema_ops. constructor; [exact I|]. constructor; [|constructor]. right. apply all_zero_repeat.
Qed.

(* the input is refused: write_pre and data sections *)
Theorem bb_refused_phase1 ck status sql partial : chunker_ok ck ->
  Forall phase1_op (snd (run None status (bb_calls_refused ck sql partial))).
Proof.
  intros Hck. unfold run, bb_calls_refused. rewrite bb_calls_pre_split, <- app_assoc, exec_app. unfold bindM. rewrite exec_blank.
  assert (Happ : Forall append_call (calls_pre_rest sql ++ region ck R_DATA partial))
    by (apply Forall_app; split; [apply pre_rest_append|apply region_append]).
  destruct (appends_exec _ Happ st_blank st_blank_app) as [s [E [A [F [[new [O P]] L]]]]].
  rewrite E. destruct (appends_flush_buf s A) as [s' [E' [A' [F' [[new' [O' P']] L']]]]]. rewrite E'. cbn [snd].
  rewrite O', O. cbn [st_blank s_ops]. apply Forall_app. split; [apply Forall_app; split|].
  - exact ops_blank_phase1.
  - apply (Forall_above_phase1 304); [lia|exact P].
  - cbn [st_blank s_pos] in L. apply (Forall_above_phase1 (s_pos s)); [lia|exact P'].
Qed.
