(* Lemmas about chunks (itertools' chunks(b)). *)
From BT Require Import Base.Util.

Section ChunksLemmas.
Context {X : Type}.
Implicit Types (l : list X) (b : nat).

Lemma chunks_fuel_concat : forall fuel b l, (0 < b)%nat -> (length l <= fuel)%nat ->
  concat (chunks_fuel fuel b l) = l.
Proof.
  induction fuel as [|f IH]; intros b l Hb Hl.
  - destruct l; cbn [length] in *; [reflexivity|exfalso; lia].
  - destruct l as [|a l']; [reflexivity|].
    cbn [chunks_fuel concat]. rewrite IH; [apply firstn_skipn|assumption|].
    rewrite skipn_length. cbn [length] in *. lia.
Qed.
Lemma chunks_concat b l : (0 < b)%nat -> concat (chunks b l) = l.
Proof. intros. apply chunks_fuel_concat; auto. Qed.

Lemma chunks_fuel_nonempty : forall fuel b l, (0 < b)%nat ->
  Forall (fun c => c <> []) (chunks_fuel fuel b l).
Proof.
  induction fuel as [|f IH]; intros b l Hb; [constructor|].
  destruct l as [|a l']; [constructor|]. cbn [chunks_fuel]. constructor; [|apply IH; exact Hb].
  destruct b; [lia|]. cbn. discriminate.
Qed.
Lemma chunks_nonempty b l : (0 < b)%nat -> Forall (fun c => c <> []) (chunks b l).
Proof. intros. apply chunks_fuel_nonempty; auto. Qed.

Lemma chunks_fuel_len_bound : forall fuel b l, (0 < b)%nat -> (length l <= fuel)%nat ->
  forall c, In c (chunks_fuel fuel b l) -> (length c <= b)%nat.
Proof.
  induction fuel as [|f IH]; intros b l Hb Hl c Hin; [destruct Hin|].
  destruct l as [|a l']; [destruct Hin|]. cbn [chunks_fuel] in Hin. destruct Hin as [<-|Hin].
  - rewrite firstn_length. lia.
  - eapply IH; [exact Hb| |exact Hin]. rewrite skipn_length. cbn [length] in *. lia.
Qed.

(* number of chunks: ceil(n / b); we only need the bounds below *)
Lemma chunks_fuel_length_le : forall fuel b l, (0 < b)%nat -> (length l <= fuel)%nat ->
  (length (chunks_fuel fuel b l) <= length l)%nat.
Proof.
  induction fuel as [|f IH]; intros b l Hb Hl; [cbn; lia|].
  destruct l as [|a l']; [cbn; lia|]. cbn [chunks_fuel length].
  specialize (IH b (skipn b (a :: l')) Hb). rewrite skipn_length in IH. cbn [length] in *.
  assert (length (chunks_fuel f b (skipn b (a :: l'))) <= S (length l') - b)%nat by (apply IH; lia). lia.
Qed.
Lemma chunks_length_le b l : (0 < b)%nat -> (length (chunks b l) <= length l)%nat.
Proof. intros. apply chunks_fuel_length_le; auto. Qed.

Lemma chunks_fuel_length_lt : forall fuel b l, (2 <= b)%nat -> (length l <= fuel)%nat -> (2 <= length l)%nat ->
  (length (chunks_fuel fuel b l) < length l)%nat.
Proof.
  intros fuel b l Hb Hl H2. destruct fuel as [|f]; [lia|].
  destruct l as [|a l']; [cbn in H2; lia|]. cbn [chunks_fuel length].
  assert (Hs : (length (skipn b (a :: l')) <= f)%nat) by (rewrite skipn_length; cbn [length] in *; lia).
  pose proof (chunks_fuel_length_le f b (skipn b (a :: l')) ltac:(lia) Hs) as H.
  rewrite skipn_length in H. cbn [length] in *. lia.
Qed.
Lemma chunks_length_lt b l : (2 <= b)%nat -> (2 <= length l)%nat -> (length (chunks b l) < length l)%nat.
Proof. intros. apply chunks_fuel_length_lt; auto. Qed.

Lemma chunks_nil_iff b l : chunks b l = [] <-> l = [].
Proof.
  unfold chunks. destruct l as [|a l']; cbn; split; intros; try reflexivity; discriminate.
Qed.
End ChunksLemmas.
