(* C09_buf_size: for the compressor-parametric writer model (Model/BigWigWriteZ.v) the header's
   uncompress_buf_size is at least the uncompressed size of every block the file holds (data
   sections and the sections of every zoom level, written or skipped), and it is 0 exactly when
   compression is off.  Also: with compression off the parametric model is Model/BigWigWrite.v. *)
From BT Require Import Base.Util Base.LE Base.Float Generated.Consts Model.RTree Model.BBIFile Model.BigWigWrite Model.BigWigWriteZ
  Proofs.Chunks Proofs.RTreeCodec Proofs.FileRegions Proofs.BigWigFile Proofs.BigWigFileData Proofs.BigWigFileRoundTrip Proofs.BigWigFileThms
  Spec.FormatDecode Proofs.C09Base Proofs.C09Codec Proofs.C09Data Proofs.C09File.
Local Open Scope N_scope.

(* ---------- maxima ---------- *)
Lemma fold_max_ge_init : forall l a, a <= fold_left N.max l a.
Proof. induction l as [|x l IH]; intros a; cbn [fold_left]; [lia|]. specialize (IH (N.max a x)). lia. Qed.
Lemma fold_max_ge_in : forall l a x, In x l -> x <= fold_left N.max l a.
Proof.
  induction l as [|y l IH]; intros a x H; [destruct H|]. cbn [fold_left]. destruct H as [<-|H].
  - pose proof (fold_max_ge_init l (N.max a y)). lia.
  - now apply IH.
Qed.
Lemma max_len_ge secs s : In s secs -> Nlen (sd_bytes s) <= max_len secs.
Proof. intros H. unfold max_len. apply fold_max_ge_in. apply in_map_iff. exists s. split; [reflexivity|exact H]. Qed.
Lemma max_len_app a b : max_len (a ++ b) = N.max (max_len a) (max_len b).
Proof.
  unfold max_len. rewrite map_app, fold_left_app.
  assert (G : forall l x y, fold_left N.max l (N.max x y) = N.max x (fold_left N.max l y)).
  { induction l as [|z l IH]; intros x y; cbn [fold_left]; [reflexivity|]. rewrite <- IH. f_equal. lia. }
  generalize (fold_left N.max (map (fun s => Nlen (sd_bytes s)) a) 0). intros m.
  rewrite <- (N.max_0_r m) at 1. now rewrite G.
Qed.

(* ---------- the header assemble_z writes ---------- *)
Lemma assemble_z_header o magic sizes chroms sum data dub pre fc dfc ao zoom_part dco bs :
  assemble_z o magic sizes chroms sum data dub pre fc dfc ao zoom_part dco = Ok bs ->
  (forall ds zp zb zh zu, zoom_part ds zp = Ok (zb, zh, zu) -> 64 + 24 * Nlen zh + 48 <= Nlen pre) ->
  exists ct ix lv zb zh zu,
    zoom_part (Nlen (data_bytes data)) (Nlen pre + Nlen (data_bytes data) + Nlen ct + Nlen ix) = Ok (zb, zh, zu)
    /\ chrom_tree_bytes sizes chroms = Ok ct
    /\ write_index (o_bs o) (o_ips o) (Nlen pre + Nlen (data_bytes data) + Nlen ct) (place (Nlen pre) data) = Ok (ix, lv)
    /\ has_at bs 0 (header_bytes magic (Nlen zh) (Nlen pre + Nlen (data_bytes data)) (Nlen pre - 8)
                                 (Nlen pre + Nlen (data_bytes data) + Nlen ct) fc dfc ao (Nlen pre - 48) (N.max dub zu)).
Proof.
  intros H Hzb. unfold assemble_z in H. cbv zeta in H.
  destruct (chrom_tree_bytes sizes chroms) as [ct| | |] eqn:Ect; cbn [rbind] in H; try discriminate.
  destruct (write_index (o_bs o) (o_ips o) (Nlen pre + Nlen (data_bytes data) + Nlen ct) (place (Nlen pre) data))
    as [[ix lv]| | |] eqn:Eix; cbn [rbind] in H; try discriminate.
  destruct (zoom_part (Nlen (data_bytes data)) (Nlen pre + Nlen (data_bytes data) + Nlen ct + Nlen ix))
    as [[[zb zh] zu]| | |] eqn:Ez; cbn [rbind] in H; try discriminate.
  specialize (Hzb _ _ _ _ _ Ez). apply Ok_inj in H. rename H into Hbs.
  exists ct, ix, lv, zb, zh, zu. split; [exact Ez|]. split; [reflexivity|]. split; [exact Eix|].
  set (pd := Nlen pre) in *. set (ds := Nlen (data_bytes data)) in *.
  set (hb := header_bytes magic (Nlen zh) (pd + ds) (pd - 8) (pd + ds + Nlen ct) fc dfc ao (pd - 48) (N.max dub zu)) in *.
  set (hdr := hb ++ flat_map zoom_header_bytes zh) in *.
  set (rest := data_bytes data ++ ct ++ ix ++ zb) in *.
  assert (Hhl : Nlen hdr = 64 + 24 * Nlen zh).
  { unfold hdr, hb, Nlen. rewrite app_length, header_bytes_length, zoom_dir_length. lia. }
  assert (Hsl : Nlen (summary_bytes sum) = 40) by (unfold Nlen; now rewrite summary_bytes_length).
  set (p1 := patch_at pre 0 hdr).
  set (p2 := patch_at p1 (pd - 48) (summary_bytes sum)).
  set (cnt := u64 (dco (Nlen (place pd data)))) in *.
  set (p3 := patch_at p2 (pd - 8) cnt).
  assert (Hcl : Nlen cnt = 8) by reflexivity.
  assert (L1 : Nlen p1 = pd) by (unfold p1; apply patch_at_Nlen; fold pd; lia).
  assert (L2 : Nlen p2 = pd) by (unfold p2; rewrite patch_at_Nlen; [exact L1|rewrite L1; lia]).
  assert (E : bs = p3 ++ rest ++ u32 magic).
  { rewrite <- Hbs. replace (pre ++ data_bytes data ++ ct ++ ix ++ zb) with (pre ++ rest) by reflexivity.
    rewrite (patch_at_app pre rest 0 hdr) by (fold pd; lia). fold p1.
    rewrite (patch_at_app p1 rest (pd - 48)) by (rewrite L1; lia). fold p2.
    rewrite (patch_at_app p2 rest (pd - 8)) by (rewrite L2; lia). fold p3. now rewrite <- app_assoc. }
  rewrite E. apply has_at_app_r.
  assert (H3 : has_at p3 0 hdr).
  { unfold p3. apply patch_at_keeps_before; [|lia]. unfold p2. apply patch_at_keeps_before; [|lia].
    unfold p1. apply patch_at_has. fold pd. lia. }
  unfold hdr in H3. now apply has_at_prefix in H3.
Qed.

(* ---------- the two writers ---------- *)
Definition blocks_bound (c : bool) (ubuf : N) (secs : list sdata) : Prop :=
  c = true -> Forall (fun s => Nlen (sd_bytes s) <= ubuf) secs.

Lemma ubuf_of_bound c a b : blocks_bound c (N.max (ubuf_of c a) (ubuf_of c b)) (a ++ b).
Proof.
  intros ->. unfold ubuf_of. apply Forall_forall. intros s Hs. apply in_app_or in Hs as [Hs|Hs].
  - pose proof (max_len_ge a s Hs). lia.
  - pose proof (max_len_ge b s Hs). lia.
Qed.

Lemma data_first_section fp o sizes inp ids outs sum data : bw_collect fp o sizes inp = Ok (ids, outs, sum, data) ->
  opts_ok o -> exists s, In s data /\ 24 <= Nlen (sd_bytes s).
Proof.
  intros Hcol Hopts.
  assert (Hs0 : Nlen (@nil N) < U64) by (unfold Nlen, U64; cbn; lia).
  pose proof (core_data _ _ _ _ _ _ _ _ [] Hcol Hopts Hs0) as Hd.
  assert (Hne : pieces_of (N.to_nat (o_ips o)) outs <> []).
  { destruct (bw_collect_inv _ _ _ _ _ _ _ _ Hcol) as (Hi & _). destruct (core_runs _ _ _ _ _ _ _ _ Hcol) as (_ & HF & _).
    pose proof (runs_nonempty inp) as Hrn.
    assert (Hr : runs inp <> []).
    { destruct inp as [|[c v] r]; [congruence|]. cbn [runs]. clear. generalize [v] as acc. revert c.
      induction r as [|[c' v'] r IH]; intros c acc; cbn [runs_aux]; [discriminate|]. destruct (name_eqb c' c); [apply IH|discriminate]. }
    destruct HF as [|r c rs os Hrc _]; [congruence|]. apply Forall_inv in Hrn. destruct Hrc as (_ & Hv & _). rewrite <- Hv in Hrn.
    unfold pieces_of. rewrite fm_cons. destruct Hopts as (_ & Hip).
    pose proof (chunks_nil_iff (N.to_nat (o_ips o)) (co_vals c)) as Hn.
    destruct (chunks (N.to_nat (o_ips o)) (co_vals c)); [exfalso; apply Hrn; now apply Hn|discriminate]. }
  destruct (pieces_of (N.to_nat (o_ips o)) outs) as [|pc l] eqn:E; [congruence|].
  exists (psec pc). split; [rewrite Hd; now left|].
  assert (Hin : In pc (pieces_of (N.to_nat (o_ips o)) outs)) by (rewrite E; now left).
  unfold pieces_of in Hin. apply in_flat_map in Hin as [c [_ Hin]]. apply in_map_iff in Hin as [ch [<- Hch]].
  destruct Hopts as (_ & Hi).
  pose proof (chunks_nonempty (N.to_nat (o_ips o)) (co_vals c) ltac:(lia)) as Hcn. rewrite Forall_forall in Hcn. specialize (Hcn ch Hch).
  destruct ch as [|f r]; [congruence|]. unfold psec, section_of. cbn [fst snd sd_bytes]. rewrite Nlen_app.
  unfold sec_hdr, Nlen, u8, u16, u32. rewrite !app_length, !enc_le_length. lia.
Qed.

Theorem buf_size_single_c compress c fp o sizes inp bs :
  bw_write_zc compress c fp o sizes inp = Ok bs -> opts_ok o ->
  exists ids outs sum data zooms ubuf nz a1 a2 a3 a4,
    bw_collect fp o sizes inp = Ok (ids, outs, sum, data)
    /\ bw_zoom_levels fp o outs (zoom_sizes_single o) = Ok zooms
    /\ has_at bs 0 (header_bytes BIGWIG_MAGIC nz a1 a2 a3 0 0 0 a4 ubuf)
    /\ blocks_bound c ubuf (data ++ flat_map zl_secs zooms)
    /\ (ubuf = 0 <-> c = false).
Proof.
  intros H Hopts. unfold bw_write_zc in H.
  destruct (bw_collect fp o sizes inp) as [[[[ids outs] sum] data]| | |] eqn:Hcol; cbn [rbind] in H; try discriminate.
  destruct (bw_zoom_levels fp o outs (zoom_sizes_single o)) as [zooms| | |] eqn:Hz; cbn [rbind] in H; try discriminate.
  destruct (assemble_z_header _ _ _ _ _ _ _ _ _ _ _ _ _ _ H) as (ct & ix & lv & zb & zh & zu & Hzp & _ & _ & Hat).
  { intros ds zp zb zh zu E. destruct (write_zooms_loop o ds zp _ None 0) as [[b0 h0]| | |] eqn:Ew; cbn [rbind] in E; try discriminate.
    apply Ok_inj in E. inversion E; subst. apply BigWigFileThms.write_zooms_loop_len in Ew. rewrite map_length in Ew.
    unfold bw_zoom_levels in Hz. apply BigWigFileThms.mapM_length in Hz. pose proof (BigWigFileThms.zoom_sizes_single_len o).
    change (Nlen bw_pre) with 352. unfold Nlen. lia. }
  cbv beta in Hzp. destruct (write_zooms_loop o _ _ _ None 0) as [[b0 h0]| | |]; cbn [rbind] in Hzp; try discriminate.
  apply Ok_inj in Hzp. inversion Hzp; subst zb zh zu; clear Hzp.
  do 5 eexists. exists (N.max (ubuf_of c data) (ubuf_of c (flat_map zl_secs zooms))).
  do 5 eexists. split; [reflexivity|]. split; [exact Hz|]. split; [exact Hat|]. split; [apply ubuf_of_bound|].
  destruct c eqn:Ec; unfold ubuf_of.
  - split; [|discriminate]. intros E0. exfalso.
    destruct (data_first_section fp o sizes inp ids outs sum data Hcol Hopts) as (s & Hs & Hl).
    pose proof (max_len_ge data s Hs). lia.
  - split; [reflexivity|]. intros _. reflexivity.
Qed.

Theorem buf_size_multipass_c compress c fp o sizes inp bs :
  bw_write_multipass_zc compress c fp o sizes inp = Ok bs -> opts_ok o ->
  exists ids outs sum data zooms ubuf nz a1 a2 a3 a4,
    bw_collect fp o sizes inp = Ok (ids, outs, sum, data)
    /\ has_at bs 0 (header_bytes BIGWIG_MAGIC nz a1 a2 a3 0 0 0 a4 ubuf)
    /\ blocks_bound c ubuf (data ++ flat_map zl_secs zooms)   (* zooms: the levels that were written *)
    /\ (ubuf = 0 <-> c = false).
Proof.
  intros H Hopts. unfold bw_write_multipass_zc in H.
  destruct (bw_collect fp o sizes inp) as [[[[ids outs] sum] data]| | |] eqn:Hcol; cbn [rbind] in H; try discriminate.
  destruct (assemble_z_header _ _ _ _ _ _ _ _ _ _ _ _ _ _ H) as (ct & ix & lv & zb & zh & zu & Hzp & _ & _ & Hat).
  { intros ds zp zb zh zu E. cbv beta zeta in E.
    destruct (bw_zoom_levels fp o outs _) as [zooms| | |] eqn:Hz; cbn [rbind] in E; try discriminate.
    destruct (write_zooms_two_pass o zp _) as [[b0 h0]| | |] eqn:Ew; cbn [rbind] in E; try discriminate.
    apply Ok_inj in E. inversion E; subst. apply BigWigFileThms.write_zooms_two_pass_len in Ew. rewrite map_length in Ew.
    unfold bw_zoom_levels in Hz. apply BigWigFileThms.mapM_length in Hz.
    pose proof (BigWigFileThms.zoom_sizes_two_pass_len o sum (total_zoom_counts outs) ds).
    change (Nlen bw_pre) with 352. unfold Nlen. lia. }
  cbv beta zeta in Hzp.
  destruct (bw_zoom_levels fp o outs _) as [zooms| | |] eqn:Hz; cbn [rbind] in Hzp; try discriminate.
  destruct (write_zooms_two_pass o _ _) as [[b0 h0]| | |]; cbn [rbind] in Hzp; try discriminate.
  apply Ok_inj in Hzp. inversion Hzp; subst zb zh zu; clear Hzp.
  do 4 eexists. exists zooms, (N.max (ubuf_of c data) (ubuf_of c (flat_map zl_secs zooms))).
  do 5 eexists. split; [reflexivity|]. split; [exact Hat|]. split; [apply ubuf_of_bound|].
  destruct c eqn:Ec; unfold ubuf_of.
  - split; [|discriminate]. intros E0. exfalso.
    destruct (data_first_section fp o sizes inp ids outs sum data Hcol Hopts) as (s & Hs & Hl).
    pose proof (max_len_ge data s Hs). lia.
  - split; [reflexivity|]. intros _. reflexivity.
Qed.

Theorem buf_size_single compress fp o sizes inp bs :
  bw_write_z compress fp o sizes inp = Ok bs -> opts_ok o ->
  exists ids outs sum data zooms ubuf nz a1 a2 a3 a4,
    bw_collect fp o sizes inp = Ok (ids, outs, sum, data)
    /\ bw_zoom_levels fp o outs (zoom_sizes_single o) = Ok zooms
    /\ has_at bs 0 (header_bytes BIGWIG_MAGIC nz a1 a2 a3 0 0 0 a4 ubuf)
    /\ blocks_bound (o_compress o) ubuf (data ++ flat_map zl_secs zooms)
    /\ (ubuf = 0 <-> o_compress o = false).
Proof. exact (buf_size_single_c compress (o_compress o) fp o sizes inp bs). Qed.

Theorem buf_size_multipass compress fp o sizes inp bs :
  bw_write_multipass_z compress fp o sizes inp = Ok bs -> opts_ok o ->
  exists ids outs sum data zooms ubuf nz a1 a2 a3 a4,
    bw_collect fp o sizes inp = Ok (ids, outs, sum, data)
    /\ has_at bs 0 (header_bytes BIGWIG_MAGIC nz a1 a2 a3 0 0 0 a4 ubuf)
    /\ blocks_bound (o_compress o) ubuf (data ++ flat_map zl_secs zooms)
    /\ (ubuf = 0 <-> o_compress o = false).
Proof. exact (buf_size_multipass_c compress (o_compress o) fp o sizes inp bs). Qed.

(* ---------- with compression off the parametric model is the plain one ---------- *)
Lemma map_id_ext {X} (f : X -> X) l : (forall x, f x = x) -> map f l = l.
Proof. intros H. induction l as [|x l IH]; cbn [map]; [reflexivity|]. now rewrite H, IH. Qed.

Theorem bw_write_zc_false compress fp o sizes inp :
  bw_write_zc compress false fp o sizes inp = bw_write fp o sizes inp
  /\ bw_write_multipass_zc compress false fp o sizes inp = bw_write_multipass fp o sizes inp.
Proof.
  assert (Hz : forall l, map (zsec compress false) l = l) by (intros l; apply map_id_ext; reflexivity).
  assert (Hzl : forall l, map (zlevel compress false) l = l).
  { intros l. apply map_id_ext. intros [r s]. unfold zlevel. cbn [zl_res zl_secs]. now rewrite Hz. }
  split.
  - unfold bw_write_zc, bw_write. destruct (bw_collect fp o sizes inp) as [[[[ids outs] sum] data]| | |]; cbn [rbind]; try reflexivity.
    unfold bw_zoom_levels. destruct (mapM _ (zoom_sizes_single o)) as [zooms| | |]; cbn [rbind]; try reflexivity.
    rewrite Hz, Hzl. unfold assemble_z, assemble, ubuf_of. cbv zeta.
    destruct (chrom_tree_bytes sizes ids); cbn [rbind]; try reflexivity.
    destruct (write_index _ _ _ _) as [[ix lv]| | |]; cbn [rbind]; try reflexivity.
    destruct (write_zooms_loop _ _ _ _ _ _) as [[zb zh]| | |]; cbn [rbind]; reflexivity.
  - unfold bw_write_multipass_zc, bw_write_multipass. destruct (bw_collect fp o sizes inp) as [[[[ids outs] sum] data]| | |]; cbn [rbind]; try reflexivity.
    rewrite Hz. unfold assemble_z, assemble, ubuf_of. cbv zeta.
    destruct (chrom_tree_bytes sizes ids); cbn [rbind]; try reflexivity.
    destruct (write_index _ _ _ _) as [[ix lv]| | |]; cbn [rbind]; try reflexivity.
    unfold bw_zoom_levels. destruct (mapM _ _) as [zooms| | |]; cbn [rbind]; try reflexivity.
    rewrite Hzl. destruct (write_zooms_two_pass _ _ _) as [[zb zh]| | |]; cbn [rbind]; reflexivity.
Qed.

Theorem bw_write_z_uncompressed compress fp o sizes inp : o_compress o = false ->
  bw_write_z compress fp o sizes inp = bw_write fp o sizes inp
  /\ bw_write_multipass_z compress fp o sizes inp = bw_write_multipass fp o sizes inp.
Proof. intros Hc. unfold bw_write_z, bw_write_multipass_z. rewrite Hc. apply bw_write_zc_false. Qed.
