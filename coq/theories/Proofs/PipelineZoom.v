(* The second pass of write_multipass (Model/PipelineZoom.v: write_zoom_vals with its final assembly).
   Every level's splice task, seen alone, runs the single-lane machine of Model/Pipeline.v (projection
   [zproj], simulation with stuttering: its receive guard "chromosome advanced" is stronger than the
   single-lane "chromosome started"), so the single-lane invariant holds per level; the assembly steps
   then build exactly what Model/BigWigWrite.v write_zooms_two_pass builds, level by level. *)
From BT Require Import Base.Util Model.RTree Model.BBIFile Model.BigWigWrite Model.Pipeline Model.PipelineZoom
  Proofs.PipelineInv Proofs.PipelineThms Proofs.PipelineLanes.

(* ---------------------------------------------------------------- well-formed states *)
Record ZW (K : nat) (s : zst) : Prop := {
  zw_lanes : Forall (fun ln => length ln = K) (z_lanes s);
  zw_sp : length (z_sp s) = length (z_lanes s);
  zw_some : (1 <= length (z_lanes s))%nat }.

Lemma zw_lane_len K s l : ZW K s -> (l < length (z_lanes s))%nat -> length (nth l (z_lanes s) []) = K.
Proof.
  intros W Hl. pose proof (zw_lanes _ _ W) as F. rewrite Forall_forall in F. apply F. apply nth_In. exact Hl.
Qed.
Lemma zw_K K s : ZW K s -> z_K s = K.
Proof. intros W. unfold z_K. apply (zw_lane_len K s 0 W). apply (zw_some _ _ W). Qed.

Lemma zstep_lanes_length g o ress t s s' : zstep g o ress t s = Some s' -> length (z_lanes s') = length (z_lanes s).
Proof.
  assert (Hon : forall l k f, zon_chrom l k f s = Some s' -> length (z_lanes s') = length (z_lanes s)).
  { intros l k f. unfold zon_chrom. destruct (k <? z_started s)%nat; [|discriminate].
    destruct (nth_error (z_lanes s) l) as [ln|]; [|discriminate]. destruct (nth_error ln k) as [c|]; [|discriminate].
    destruct (f c); [|discriminate]. intros H; inversion H. cbn. apply set_nth_length. }
  destruct t as [|l k|l k i|l k|l]; cbn [zstep]; try apply Hon.
  - unfold zmain_step. destruct (z_closed s).
    + unfold zasm_step. destruct (nth_error (z_sp s) (z_asm s)) as [sp|]; [|discriminate].
      destruct (nth_error (z_lanes s) (z_asm s)) as [ln|]; [|discriminate]. destruct (is_done (zs_pc sp)); [|discriminate].
      destruct (write_index _ _ _ _) as [[ix lv]| | |]; try discriminate. intros H; inversion H; reflexivity.
    + destruct ((z_started s <? z_K s)%nat && (z_started s - z_advanced s <? g_win g)%nat); [intros H; inversion H; reflexivity|].
      destruct (z_advanced s <? z_started s)%nat.
      * destruct (forallb (todo_done (z_advanced s)) (z_lanes s)); [|discriminate]. intros H; inversion H. cbn. apply map_length.
      * destruct (z_K s <=? z_started s)%nat; [|discriminate]. intros H; inversion H; reflexivity.
  - unfold zsplice_step. destruct (nth_error (z_sp s) l) as [sp|]; [|discriminate].
    destruct (zs_pc sp).
    + destruct (zs_k sp <? z_advanced s)%nat; [intros H; inversion H; reflexivity|].
      destruct (z_closed s); [|discriminate]. intros H; inversion H; reflexivity.
    + destruct (match nth_error (z_lanes s) l with Some ln => nth_error ln (zs_k sp) | None => None end) as [c|]; [|discriminate].
      destruct (c_wdone c); [|discriminate]. intros H; inversion H; reflexivity.
    + destruct (match nth_error (z_lanes s) l with Some ln => nth_error ln (zs_k sp) | None => None end) as [c|]; [|discriminate].
      destruct (c_wdone c); [|discriminate]. intros H; inversion H; reflexivity.
    + discriminate.
Qed.

Lemma zw_step K g o ress t s s' : ZW K s -> zstep g o ress t s = Some s' -> ZW K s'.
Proof.
  intros W Hs. pose proof (zw_lanes _ _ W) as F. pose proof (zw_sp _ _ W) as Hsp. pose proof (zw_some _ _ W) as H1.
  assert (Hon : forall l k f, zon_chrom l k f s = Some s' -> ZW K s').
  { intros l k f. unfold zon_chrom. destruct (k <? z_started s)%nat; [|discriminate].
    destruct (nth_error (z_lanes s) l) as [ln|] eqn:El; [|discriminate].
    destruct (nth_error ln k) as [c|]; [|discriminate]. destruct (f c) as [c'|]; [|discriminate].
    intros H. inversion H; subst s'; clear H. constructor; cbn.
    - apply Forall_set_nth; [exact F|]. rewrite set_nth_length. rewrite Forall_forall in F. apply F.
      eapply nth_error_In; eauto.
    - rewrite set_nth_length. exact Hsp.
    - rewrite set_nth_length. exact H1. }
  destruct t as [|l k|l k i|l k|l]; cbn [zstep] in Hs; try (eapply Hon; exact Hs).
  - unfold zmain_step in Hs. destruct (z_closed s).
    + unfold zasm_step in Hs. destruct (nth_error (z_sp s) (z_asm s)) as [sp|]; [|discriminate].
      destruct (nth_error (z_lanes s) (z_asm s)) as [ln|]; [|discriminate]. destruct (is_done (zs_pc sp)); [|discriminate].
      destruct (write_index _ _ _ _) as [[ix lv]| | |]; try discriminate. inversion Hs; subst s'. constructor; cbn; assumption.
    + destruct ((z_started s <? z_K s)%nat && (z_started s - z_advanced s <? g_win g)%nat).
      * inversion Hs; subst s'. constructor; cbn; assumption.
      * destruct (z_advanced s <? z_started s)%nat.
        -- destruct (forallb (todo_done (z_advanced s)) (z_lanes s)); [|discriminate].
           inversion Hs; subst s'. constructor; cbn.
           ++ rewrite Forall_map. eapply Forall_impl; [|exact F]. cbn. intros ln Hl. rewrite close_at_length. exact Hl.
           ++ rewrite map_length. exact Hsp.
           ++ rewrite map_length. exact H1.
        -- destruct (z_K s <=? z_started s)%nat; [|discriminate]. inversion Hs; subst s'. constructor; cbn; assumption.
  - unfold zsplice_step in Hs. destruct (nth_error (z_sp s) l) as [sp|]; [|discriminate].
    assert (Hset : forall sp', ZW K (mkz (z_lanes s) (z_started s) (z_advanced s) (z_closed s) (set_nth l sp' (z_sp s))
                                         (z_asm s) (z_file s) (z_hdrs s))).
    { intros sp'. constructor; cbn; try assumption. rewrite set_nth_length. exact Hsp. }
    destruct (zs_pc sp).
    + destruct (zs_k sp <? z_advanced s)%nat; [inversion Hs; subst s'; apply Hset|].
      destruct (z_closed s); [|discriminate]. inversion Hs; subst s'; apply Hset.
    + destruct (match nth_error (z_lanes s) l with Some ln => nth_error ln (zs_k sp) | None => None end) as [c|]; [|discriminate].
      destruct (c_wdone c); [|discriminate]. inversion Hs; subst s'; apply Hset.
    + destruct (match nth_error (z_lanes s) l with Some ln => nth_error ln (zs_k sp) | None => None end) as [c|]; [|discriminate].
      destruct (c_wdone c); [|discriminate]. inversion Hs; subst s'; apply Hset.
    + discriminate.
Qed.

Lemma zw_init pre Sss K : (1 <= length Sss)%nat -> Forall (fun Ss => length Ss = K) Sss -> ZW K (zinit pre Sss).
Proof.
  intros H1 F. constructor; cbn.
  - rewrite Forall_map. eapply Forall_impl; [|exact F]. cbn. intros Ss H. rewrite map_length. exact H.
  - rewrite !map_length. reflexivity.
  - rewrite map_length. exact H1.
Qed.

(* ---------------------------------------------------------------- the projection commutes with steps *)
Lemma zproj_sim K g o ress pre Ss s t l : ZW K s -> (l < length (z_lanes s))%nat -> Inv pre Ss (zproj l s) ->
  zproj l (zstep_or_stay g o ress t s) = zproj l s \/
  exists t', step g t' (zproj l s) = Some (zproj l (zstep_or_stay g o ress t s)).
Proof.
  intros W Hl I. unfold zstep_or_stay. destruct (zstep g o ress t s) as [s'|] eqn:Es; [|left; reflexivity].
  pose proof (zw_lane_len K s l W Hl) as HlenK. pose proof (zw_K K s W) as HK. pose proof (zw_sp _ _ W) as Hsp.
  assert (Hon : forall l0 k f t', zon_chrom l0 k f s = Some s' ->
            (forall p, step g t' p = on_chrom k f p) ->
            zproj l s' = zproj l s \/ exists t', step g t' (zproj l s) = Some (zproj l s')).
  { intros l0 k f t' Hs Ht'. unfold zon_chrom in Hs. destruct (k <? z_started s)%nat eqn:Hk; [|discriminate].
    destruct (nth_error (z_lanes s) l0) as [ln|] eqn:El; [|discriminate].
    destruct (nth_error ln k) as [c|] eqn:Ec; [|discriminate]. destruct (f c) as [c'|] eqn:Ef; [|discriminate].
    inversion Hs; subst s'; clear Hs. unfold zproj. cbn [z_lanes z_started z_advanced z_closed z_sp].
    destruct (Nat.eq_dec l l0) as [->|Hne].
    - right. exists t'. rewrite Ht'. unfold on_chrom. cbn [p_started p_chroms]. rewrite Hk.
      rewrite (nth_error_nth_eq _ _ _ [] El), Ec, Ef. cbn [p_advanced p_closed sp_k sp_pc sp_file].
      rewrite nth_set_nth_same by exact Hl. reflexivity.
    - left. rewrite nth_set_nth_other by exact Hne. reflexivity. }
  destruct t as [|l0 k|l0 k i|l0 k|l0]; cbn [zstep] in Es.
  - (* main *)
    unfold zmain_step in Es. destruct (z_closed s) eqn:Hc.
    + (* final assembly: no level's pipeline state changes *)
      left. unfold zasm_step in Es. destruct (nth_error (z_sp s) (z_asm s)) as [sp|]; [|discriminate].
      destruct (nth_error (z_lanes s) (z_asm s)) as [ln|]; [|discriminate]. destruct (is_done (zs_pc sp)); [|discriminate].
      destruct (write_index _ _ _ _) as [[ix lv]| | |]; try discriminate. inversion Es; subst s'. reflexivity.
    + right. exists TMain. cbn [step]. unfold main_step, zproj. cbn [p_chroms p_started p_advanced p_closed sp_k sp_pc sp_file].
      rewrite HlenK, Hc. rewrite HK in Es.
      destruct ((z_started s <? K)%nat && (z_started s - z_advanced s <? g_win g)%nat).
      * inversion Es; subst s'. reflexivity.
      * destruct (z_advanced s <? z_started s)%nat.
        -- destruct (forallb (todo_done (z_advanced s)) (z_lanes s)) eqn:Hall; [|discriminate].
           inversion Es; subst s'. cbn [z_lanes z_started z_advanced z_closed z_sp].
           rewrite forallb_forall in Hall. specialize (Hall (nth l (z_lanes s) []) (nth_In _ _ Hl)).
           unfold todo_done in Hall.
           destruct (nth_error (nth l (z_lanes s) []) (z_advanced s)) as [c|] eqn:Ec; [|discriminate].
           destruct (c_todo c); [|discriminate].
           replace (nth l (map (close_at (z_advanced s)) (z_lanes s)) [])
             with (close_at (z_advanced s) (nth l (z_lanes s) [])).
           2:{ symmetry. apply nth_map_fix. apply close_at_nil. }
           unfold close_at. rewrite Ec. reflexivity.
        -- destruct (K <=? z_started s)%nat; [|discriminate]. inversion Es; subst s'. reflexivity.
  - apply (Hon l0 k _ (TProd k) Es). reflexivity.
  - apply (Hon l0 k _ (TEnc k i) Es). reflexivity.
  - apply (Hon l0 k _ (TWrite k) Es). reflexivity.
  - (* the splice task of level l0 *)
    unfold zsplice_step in Es. destruct (nth_error (z_sp s) l0) as [sp|] eqn:Esp; [|discriminate].
    destruct (Nat.eq_dec l l0) as [<-|Hne].
    2:{ left. assert (Hother : forall sp', zproj l (mkz (z_lanes s) (z_started s) (z_advanced s) (z_closed s) (set_nth l0 sp' (z_sp s))
                                                   (z_asm s) (z_file s) (z_hdrs s)) = zproj l s).
        { intros sp'. unfold zproj. cbn [z_lanes z_started z_advanced z_closed z_sp]. rewrite nth_set_nth_other by exact Hne. reflexivity. }
        destruct (zs_pc sp).
        - destruct (zs_k sp <? z_advanced s)%nat; [inversion Es; apply Hother|].
          destruct (z_closed s); [|discriminate]. inversion Es; apply Hother.
        - destruct (match nth_error (z_lanes s) l0 with Some ln => nth_error ln (zs_k sp) | None => None end) as [c|]; [|discriminate].
          destruct (c_wdone c); [|discriminate]. inversion Es; apply Hother.
        - destruct (match nth_error (z_lanes s) l0 with Some ln => nth_error ln (zs_k sp) | None => None end) as [c|]; [|discriminate].
          destruct (c_wdone c); [|discriminate]. inversion Es; apply Hother.
        - discriminate. }
    right. exists TSplice. cbn [step].
    assert (Hsame : forall sp', zproj l (mkz (z_lanes s) (z_started s) (z_advanced s) (z_closed s) (set_nth l sp' (z_sp s))
                                              (z_asm s) (z_file s) (z_hdrs s))
                     = mkp (nth l (z_lanes s) []) (z_started s) (z_advanced s) (z_closed s) (zs_k sp') (zs_pc sp') (zs_store sp')).
    { intros sp'. unfold zproj. cbn [z_lanes z_started z_advanced z_closed z_sp].
      rewrite nth_set_nth_same by (rewrite Hsp; exact Hl). reflexivity. }
    assert (Hp : zproj l s = mkp (nth l (z_lanes s) []) (z_started s) (z_advanced s) (z_closed s) (zs_k sp) (zs_pc sp) (zs_store sp)).
    { unfold zproj. rewrite (nth_error_nth_eq _ _ _ (mkzs 0 SRecv []) Esp). reflexivity. }
    rewrite (nth_error_nth' (z_lanes s) [] Hl) in Es.
    pose proof (i_adv _ _ _ I) as Hadv. pose proof (i_started _ _ _ I) as Hst. pose proof (i_closed _ _ _ I) as Hcl.
    rewrite Hp in Hadv, Hst, Hcl. cbn [p_advanced p_started p_closed] in Hadv, Hst, Hcl.
    rewrite Hp. unfold splice_step. cbn [sp_pc sp_k p_started p_closed p_chroms p_advanced sp_file].
    destruct (zs_pc sp) eqn:Hpc.
    + destruct (zs_k sp <? z_advanced s)%nat eqn:Hk.
      * inversion Es; subst s'; clear Es. rewrite Hsame. cbn [zs_k zs_pc zs_store].
        apply Nat.ltb_lt in Hk. destruct (Nat.ltb_spec (zs_k sp) (z_started s)); [reflexivity|lia].
      * destruct (z_closed s) eqn:Hc; [|discriminate]. inversion Es; subst s'; clear Es. rewrite Hsame. cbn [zs_k zs_pc zs_store].
        apply Nat.ltb_ge in Hk. specialize (Hcl eq_refl).
        destruct (Nat.ltb_spec (zs_k sp) (z_started s)); [lia|reflexivity].
    + destruct (nth_error (nth l (z_lanes s) []) (zs_k sp)) as [c|]; [|discriminate].
      destruct (c_wdone c); [|discriminate]. inversion Es; subst s'; clear Es. rewrite Hsame. reflexivity.
    + destruct (nth_error (nth l (z_lanes s) []) (zs_k sp)) as [c|]; [|discriminate].
      destruct (c_wdone c); [|discriminate]. inversion Es; subst s'; clear Es. rewrite Hsame. reflexivity.
    + discriminate.
Qed.

Lemma zproj_init l pre Sss : (l < length Sss)%nat -> zproj l (zinit pre Sss) = init [] (nth l Sss []).
Proof.
  intros Hl. unfold zproj, zinit, init. cbn [z_lanes z_started z_advanced z_closed z_sp].
  assert (Hsp : nth l (map (fun _ : list (list sdata) => mkzs 0 SRecv []) Sss) (mkzs 0 SRecv []) = mkzs 0 SRecv []).
  { clear Hl. revert l. induction Sss as [|x r IH]; intros [|l]; cbn; auto. }
  rewrite Hsp. cbn. f_equal. change (@nil chrom) with (map init_chrom []). apply map_nth.
Qed.

(* ---------------------------------------------------------------- the sequential assembly, level by level *)
Lemma Nlen_app {X} (a b : list X) : Nlen (a ++ b) = (Nlen a + Nlen b)%N.
Proof. unfold Nlen. rewrite app_length. lia. Qed.

Lemma two_pass_app o : forall a b pos,
  write_zooms_two_pass o pos (a ++ b) =
  (do (x, hx) <- write_zooms_two_pass o pos a;
   do (y, hy) <- write_zooms_two_pass o (pos + Nlen x) b;
   Ok (x ++ y, hx ++ hy)).
Proof.
  induction a as [|z a IH]; intros b pos.
  - cbn [app write_zooms_two_pass rbind]. replace (pos + Nlen (@nil N))%N with pos by (unfold Nlen; cbn; lia).
    destruct (write_zooms_two_pass o pos b) as [[y hy]| | |]; reflexivity.
  - cbn [app write_zooms_two_pass].
    destruct (write_index (o_bs o) (o_ips o) (pos + Nlen (data_bytes (zl_secs z))) (place pos (zl_secs z))) as [[ix lv]| | |];
      cbn [rbind]; try reflexivity.
    remember (data_bytes (zl_secs z) ++ ix) as here eqn:Ehere. rewrite IH.
    destruct (write_zooms_two_pass o (pos + Nlen here) a) as [[x hx]| | |]; cbn [rbind]; try reflexivity.
    replace (pos + Nlen (here ++ x))%N with (pos + Nlen here + Nlen x)%N by (rewrite Nlen_app; lia).
    destruct (write_zooms_two_pass o (pos + Nlen here + Nlen x) b) as [[y hy]| | |]; cbn [rbind]; try reflexivity.
    rewrite <- app_assoc. reflexivity.
Qed.

Lemma zlevels_nth ress Sss z : length ress = length Sss -> (z < length Sss)%nat ->
  nth_error (zlevels ress Sss) z = Some {| zl_res := nth z ress 0%N; zl_secs := concat (nth z Sss []) |}.
Proof.
  intros Hlen Hz. unfold zlevels. rewrite nth_error_map.
  assert (Hc : nth_error (combine ress Sss) z = Some (nth z ress 0%N, nth z Sss [])).
  { rewrite <- (combine_nth ress Sss z 0%N [] Hlen). apply nth_error_nth'. rewrite combine_length. lia. }
  rewrite Hc. reflexivity.
Qed.

Lemma zlevels_length ress Sss : length ress = length Sss -> length (zlevels ress Sss) = length Sss.
Proof. intros H. unfold zlevels. rewrite map_length, combine_length. lia. Qed.

(* what a level's splice task leaves behind when it has returned *)
Lemma inv_done_out pre Ss p : Inv pre Ss p -> sp_pc p = SDone ->
  map c_out (p_chroms p) = Ss /\ sp_file p = pre ++ data_bytes (concat Ss).
Proof.
  intros I Hpc. destruct (i_done _ _ _ I Hpc) as [Hk _]. split.
  - apply (map_eq_nth c_out []); [apply (i_len _ _ _ I)|].
    intros k c Hn. pose proof (i_good _ _ _ I k c Hn) as G.
    apply (wdone_out _ _ _ _ _ _ G). apply (cg_spliced _ _ _ _ _ _ G).
    rewrite Hk, <- (i_len _ _ _ I). eapply nth_error_lt; eauto.
  - rewrite (i_file _ _ _ I), Hk, firstn_all. reflexivity.
Qed.

(* ---------------------------------------------------------------- the invariant of reachable states *)
Record ZGood (o : opts) (ress : list N) (pre : bytes) (Sss : list (list (list sdata))) (K : nat) (s : zst) : Prop := {
  zg_w : ZW K s;
  zg_L : length (z_lanes s) = length Sss;
  zg_inv : forall l, (l < length Sss)%nat -> Inv [] (nth l Sss []) (zproj l s);
  zg_asm_le : (z_asm s <= length Sss)%nat;
  zg_asm_done : forall l, (l < z_asm s)%nat -> sp_pc (zproj l s) = SDone;
  zg_asm : exists b, write_zooms_two_pass o (Nlen pre) (firstn (z_asm s) (zlevels ress Sss)) = Ok (b, z_hdrs s) /\
                     z_file s = pre ++ b }.

Lemma zgood_init o ress pre Sss K : (1 <= length Sss)%nat -> Forall (fun Ss => length Ss = K) Sss ->
  ZGood o ress pre Sss K (zinit pre Sss).
Proof.
  intros H1 F. constructor.
  - apply zw_init; assumption.
  - cbn. apply map_length.
  - intros l Hl. rewrite zproj_init by exact Hl. apply inv_init.
  - cbn. lia.
  - cbn. intros l Hl. lia.
  - exists []. cbn. rewrite app_nil_r. auto.
Qed.

Lemma zasm_unchanged g o ress t s s' : zstep g o ress t s = Some s' ->
  (z_asm s' = z_asm s /\ z_file s' = z_file s /\ z_hdrs s' = z_hdrs s) \/ (t = ZMain /\ z_closed s = true /\ zasm_step o ress s = Some s').
Proof.
  assert (Hon : forall l k f, zon_chrom l k f s = Some s' -> z_asm s' = z_asm s /\ z_file s' = z_file s /\ z_hdrs s' = z_hdrs s).
  { intros l k f. unfold zon_chrom. destruct (k <? z_started s)%nat; [|discriminate].
    destruct (nth_error (z_lanes s) l) as [ln|]; [|discriminate]. destruct (nth_error ln k) as [c|]; [|discriminate].
    destruct (f c); [|discriminate]. intros H; inversion H. cbn. auto. }
  destruct t as [|l k|l k i|l k|l]; cbn [zstep]; try (intros H; left; eapply Hon; exact H).
  - unfold zmain_step. destruct (z_closed s); [intros H; right; auto|].
    destruct ((z_started s <? z_K s)%nat && (z_started s - z_advanced s <? g_win g)%nat); [intros H; inversion H; cbn; auto|].
    destruct (z_advanced s <? z_started s)%nat.
    + destruct (forallb (todo_done (z_advanced s)) (z_lanes s)); [|discriminate]. intros H; inversion H; cbn; auto.
    + destruct (z_K s <=? z_started s)%nat; [|discriminate]. intros H; inversion H; cbn; auto.
  - unfold zsplice_step. destruct (nth_error (z_sp s) l) as [sp|]; [|discriminate]. left.
    destruct (zs_pc sp).
    + destruct (zs_k sp <? z_advanced s)%nat; [inversion H; cbn; auto|].
      destruct (z_closed s); [|discriminate]. inversion H; cbn; auto.
    + destruct (match nth_error (z_lanes s) l with Some ln => nth_error ln (zs_k sp) | None => None end) as [c|]; [|discriminate].
      destruct (c_wdone c); [|discriminate]. inversion H; cbn; auto.
    + destruct (match nth_error (z_lanes s) l with Some ln => nth_error ln (zs_k sp) | None => None end) as [c|]; [|discriminate].
      destruct (c_wdone c); [|discriminate]. inversion H; cbn; auto.
    + discriminate.
Qed.

(* SDone is final for a level *)
Lemma step_done_stays g t p p' : step g t p = Some p' -> sp_pc p = SDone -> sp_pc p' = SDone.
Proof.
  intros Hs Hd. destruct t as [|k|k i|k|]; cbn [step] in Hs.
  - unfold main_step in Hs. destruct (p_closed p); [discriminate|].
    destruct ((p_started p <? length (p_chroms p))%nat && (p_started p - p_advanced p <? g_win g)%nat); [inversion Hs; exact Hd|].
    destruct (p_advanced p <? p_started p)%nat.
    + destruct (nth_error (p_chroms p) (p_advanced p)) as [c|]; [|discriminate]. destruct (c_todo c); [|discriminate]. inversion Hs; exact Hd.
    + destruct (length (p_chroms p) <=? p_started p)%nat; [|discriminate]. inversion Hs; exact Hd.
  - unfold on_chrom in Hs. destruct (k <? p_started p)%nat; [|discriminate]. destruct (nth_error (p_chroms p) k) as [c|]; [|discriminate].
    destruct (prod_step (g_cap g) c); [|discriminate]. inversion Hs; exact Hd.
  - unfold on_chrom in Hs. destruct (k <? p_started p)%nat; [|discriminate]. destruct (nth_error (p_chroms p) k) as [c|]; [|discriminate].
    destruct (enc_step i c); [|discriminate]. inversion Hs; exact Hd.
  - unfold on_chrom in Hs. destruct (k <? p_started p)%nat; [|discriminate]. destruct (nth_error (p_chroms p) k) as [c|]; [|discriminate].
    destruct (write_step (g_fifo g) c); [|discriminate]. inversion Hs; exact Hd.
  - unfold splice_step in Hs. rewrite Hd in Hs. discriminate.
Qed.

Lemma zgood_step g o ress pre Sss K t s s' : g_fifo g = true -> length ress = length Sss ->
  ZGood o ress pre Sss K s -> zstep g o ress t s = Some s' -> ZGood o ress pre Sss K s'.
Proof.
  intros Hg Hress G Hs. pose proof (zg_w _ _ _ _ _ _ G) as W. pose proof (zg_L _ _ _ _ _ _ G) as HL.
  assert (Hinv' : forall l, (l < length Sss)%nat -> Inv [] (nth l Sss []) (zproj l s') /\
                                                     (sp_pc (zproj l s) = SDone -> sp_pc (zproj l s') = SDone)).
  { intros l Hl. pose proof (zg_inv _ _ _ _ _ _ G l Hl) as I.
    assert (Hl' : (l < length (z_lanes s))%nat) by (rewrite HL; exact Hl).
    destruct (zproj_sim K g o ress [] (nth l Sss []) s t l W Hl' I) as [Heq|[t' Hst]]; unfold zstep_or_stay in *; rewrite Hs in *.
    - rewrite Heq. auto.
    - split; [eapply inv_step; eauto|]. eapply step_done_stays; eauto. }
  destruct (zasm_unchanged g o ress t s s' Hs) as [[Ha [Hf Hh]]|[-> [Hc Hasm]]].
  - constructor.
    + eapply zw_step; eauto.
    + rewrite (zstep_lanes_length _ _ _ _ _ _ Hs). exact HL.
    + intros l Hl. apply (Hinv' l Hl).
    + rewrite Ha. apply (zg_asm_le _ _ _ _ _ _ G).
    + intros l Hl. rewrite Ha in Hl. pose proof (zg_asm_le _ _ _ _ _ _ G).
      apply (Hinv' l ltac:(lia)). apply (zg_asm_done _ _ _ _ _ _ G l Hl).
    + rewrite Ha, Hf, Hh. apply (zg_asm _ _ _ _ _ _ G).
  - (* the assembly of level z_asm *)
    unfold zasm_step in Hasm.
    destruct (nth_error (z_sp s) (z_asm s)) as [sp|] eqn:Esp; [|discriminate].
    destruct (nth_error (z_lanes s) (z_asm s)) as [ln|] eqn:Eln; [|discriminate].
    destruct (is_done (zs_pc sp)) eqn:Hdone; [|discriminate].
    assert (Hz : (z_asm s < length Sss)%nat) by (rewrite <- HL; eapply nth_error_lt; eauto).
    pose proof (zg_inv _ _ _ _ _ _ G _ Hz) as I.
    assert (Hp : zproj (z_asm s) s = mkp ln (z_started s) (z_advanced s) (z_closed s) (zs_k sp) (zs_pc sp) (zs_store sp)).
    { unfold zproj. rewrite (nth_error_nth_eq _ _ _ (mkzs 0 SRecv []) Esp), (nth_error_nth_eq _ _ _ [] Eln). reflexivity. }
    assert (Hpc : sp_pc (zproj (z_asm s) s) = SDone).
    { rewrite Hp. cbn. destruct (zs_pc sp); try discriminate. reflexivity. }
    destruct (inv_done_out _ _ _ I Hpc) as [Hout Hstore]. rewrite Hp in Hout, Hstore. cbn [p_chroms sp_file app] in Hout, Hstore.
    rewrite Hout, Hstore in Hasm.
    destruct (zg_asm _ _ _ _ _ _ G) as [b [Hb Hfile]].
    set (lv := {| zl_res := nth (z_asm s) ress 0%N; zl_secs := concat (nth (z_asm s) Sss []) |}) in *.
    assert (Hfirst : firstn (S (z_asm s)) (zlevels ress Sss) = firstn (z_asm s) (zlevels ress Sss) ++ [lv]).
    { apply firstn_S_nth_error. apply zlevels_nth; assumption. }
    assert (Hpos : Nlen (z_file s) = (Nlen pre + Nlen b)%N) by (rewrite Hfile; apply Nlen_app).
    destruct (write_index (o_bs o) (o_ips o) (Nlen (z_file s) + Nlen (data_bytes (concat (nth (z_asm s) Sss []))))
                (place (Nlen (z_file s)) (concat (nth (z_asm s) Sss [])))) as [[ix lvl]| | |] eqn:Eix; try discriminate.
    inversion Hasm; subst s'; clear Hasm.
    constructor; cbn [z_lanes z_started z_advanced z_closed z_sp z_asm z_file z_hdrs].
    + constructor; [apply (zw_lanes _ _ W)|apply (zw_sp _ _ W)|apply (zw_some _ _ W)].
    + exact HL.
    + intros l Hl. apply (zg_inv _ _ _ _ _ _ G l Hl).
    + lia.
    + intros l Hl. destruct (Nat.eq_dec l (z_asm s)) as [->|Hne]; [exact Hpc|].
      apply (zg_asm_done _ _ _ _ _ _ G l). lia.
    + exists (b ++ data_bytes (concat (nth (z_asm s) Sss [])) ++ ix). split.
      * rewrite Hfirst, two_pass_app, Hb. cbn [rbind write_zooms_two_pass]. unfold lv at 1 2 3. cbn [zl_secs zl_res].
        rewrite <- Hpos, Eix. cbn [rbind]. rewrite app_nil_r. reflexivity.
      * rewrite Hfile, <- app_assoc. reflexivity.
Qed.

Lemma zgood_run g o ress pre Sss K : g_fifo g = true -> length ress = length Sss ->
  forall sched s, ZGood o ress pre Sss K s -> ZGood o ress pre Sss K (zrun g o ress sched s).
Proof.
  intros Hg Hress. induction sched as [|t r IH]; intros s G; cbn [zrun]; [exact G|]. apply IH.
  unfold zstep_or_stay. destruct (zstep g o ress t s) as [s'|] eqn:E; [eapply zgood_step; eauto|exact G].
Qed.

(* ---------------------------------------------------------------- the statements used by Properties/C11.v *)
(* every level's splice task, at every moment of every run: its outer staging writer holds whole
   chromosomes in order; FIFO order in every channel *)
Theorem zoom_levels_splice : forall g o ress pre Sss K sched, g_fifo g = true ->
  length ress = length Sss -> (1 <= length Sss)%nat -> Forall (fun Ss => length Ss = K) Sss ->
  let s := zrun g o ress sched (zinit pre Sss) in
  forall l, (l < length Sss)%nat ->
    (exists sp, nth_error (z_sp s) l = Some sp /\
       zs_store sp = data_bytes (concat (firstn (zs_k sp) (nth l Sss []))) /\
       (zs_pc sp = SDone -> zs_store sp = data_bytes (concat (nth l Sss [])))) /\
    (forall k c, nth_error (nth l (z_lanes s) []) k = Some c ->
       c_out c ++ map fst (c_fifo c) ++ c_todo c = nth k (nth l Sss []) []).
Proof.
  intros g o ress pre Sss K sched Hg Hress H1 F s l Hl.
  assert (G : ZGood o ress pre Sss K s) by (apply zgood_run; auto; apply zgood_init; assumption).
  pose proof (zg_inv _ _ _ _ _ _ G l Hl) as I. pose proof (zg_w _ _ _ _ _ _ G) as W.
  assert (Hlsp : (l < length (z_sp s))%nat) by (rewrite (zw_sp _ _ W), (zg_L _ _ _ _ _ _ G); exact Hl).
  split.
  - exists (nth l (z_sp s) (mkzs 0 SRecv [])). split; [apply nth_error_nth'; exact Hlsp|]. split.
    + pose proof (i_file _ _ _ I) as Hf. unfold zproj in Hf. cbn [sp_file sp_k app] in Hf. exact Hf.
    + intros Hd. assert (Hpc : sp_pc (zproj l s) = SDone) by (unfold zproj; cbn; exact Hd).
      destruct (inv_done_out _ _ _ I Hpc) as [_ Hst]. unfold zproj in Hst. cbn [sp_file app] in Hst. exact Hst.
  - intros k c Hc. apply (cl_order _ _ (cg_local _ _ _ _ _ _ (i_good _ _ _ I k c Hc))).
Qed.

(* the zoom region: at every moment the file is the file on entry followed by what the sequential model
   writes for the levels assembled so far, and the zoom directory entries are its entries; every
   finishing run has written the sequential model's zoom region and directory *)
Theorem zoom_assembly : forall g o ress pre Sss K sched, g_fifo g = true ->
  length ress = length Sss -> (1 <= length Sss)%nat -> Forall (fun Ss => length Ss = K) Sss ->
  let s := zrun g o ress sched (zinit pre Sss) in
  (exists b, write_zooms_two_pass o (Nlen pre) (firstn (z_asm s) (zlevels ress Sss)) = Ok (b, z_hdrs s) /\
             z_file s = pre ++ b) /\
  (zterminal s = true ->
     exists zbytes, write_zooms_two_pass o (Nlen pre) (zlevels ress Sss) = Ok (zbytes, z_hdrs s) /\
                    z_file s = pre ++ zbytes).
Proof.
  intros g o ress pre Sss K sched Hg Hress H1 F s.
  assert (G : ZGood o ress pre Sss K s) by (apply zgood_run; auto; apply zgood_init; assumption).
  split; [apply (zg_asm _ _ _ _ _ _ G)|].
  intros Ht. unfold zterminal in Ht. apply andb_prop in Ht. destruct Ht as [_ Ht]. apply Nat.eqb_eq in Ht.
  destruct (zg_asm _ _ _ _ _ _ G) as [b [Hb Hf]]. exists b. split; [|exact Hf].
  rewrite Ht, (zg_L _ _ _ _ _ _ G), <- (zlevels_length ress Sss Hress), firstn_all in Hb. exact Hb.
Qed.

(* ---------------------------------------------------------------- the sequential bigWig model (two passes)
   Model/BigWigWrite.v bw_write_multipass hands [assemble] the zoom part
     fun data_size zpos => do zooms <- mapM (fun size => do secs <- concat_res (map (zoom_sections .. size ..) outs);
                                                         Ok {| zl_res := size; zl_secs := secs |}) zsizes;
                           write_zooms_two_pass o zpos zooms.
   Whenever that mapM succeeds, the levels are  zlevels zsizes Sss  for the per-level, per-chromosome section
   lists Sss (what the producers of the machine submit), and every finishing run of the machine started on a
   file [pre] has appended exactly the bytes, and collected exactly the directory entries, that
   write_zooms_two_pass computes at position |pre|. *)
Lemma Forall2_len2 {X Y} (P : X -> Y -> Prop) l m : Forall2 P l m -> length l = length m.
Proof. induction 1; cbn; auto. Qed.

Lemma concat_res_map_ok {X Y} (f : X -> res (list Y)) : forall l d, concat_res (map f l) = Ok d ->
  exists Ss, Forall2 (fun x S => f x = Ok S) l Ss /\ d = concat Ss.
Proof.
  induction l as [|x l IH]; intros d; cbn [map concat_res fold_right].
  - intros H. inversion H. exists []. split; [constructor|reflexivity].
  - destruct (f x) as [a| | |] eqn:Ex; cbn [rbind]; try discriminate.
    fold (concat_res (map f l)). destruct (concat_res (map f l)) as [b| | |] eqn:E; cbn [rbind]; try discriminate.
    intros H. inversion H. destruct (IH b eq_refl) as [Ss [HF Hb]]. exists (a :: Ss). split.
    + constructor; [exact Ex|exact HF].
    + cbn [concat]. rewrite Hb. reflexivity.
Qed.

Theorem zoom_assembly_bigwig : forall fp o outs zsizes zooms,
  mapM (fun size => do secs <- concat_res (map (fun c => zoom_sections fp (o_ips o) size (co_id c) (co_vals c)) outs);
                    Ok {| zl_res := size; zl_secs := secs |}) zsizes = Ok zooms ->
  exists Sss,
    Forall2 (fun size Ss => Forall2 (fun c S => zoom_sections fp (o_ips o) size (co_id c) (co_vals c) = Ok S) outs Ss) zsizes Sss /\
    zooms = zlevels zsizes Sss /\
    forall g pre sched, g_fifo g = true -> (1 <= length zsizes)%nat ->
      let s := zrun g o zsizes sched (zinit pre Sss) in
      zterminal s = true ->
      exists zbytes, write_zooms_two_pass o (Nlen pre) zooms = Ok (zbytes, z_hdrs s) /\ z_file s = pre ++ zbytes.
Proof.
  intros fp o outs zsizes zooms Hm.
  assert (Hex : exists Sss,
            Forall2 (fun size Ss => Forall2 (fun c S => zoom_sections fp (o_ips o) size (co_id c) (co_vals c) = Ok S) outs Ss) zsizes Sss /\
            zooms = zlevels zsizes Sss).
  { revert zooms Hm. induction zsizes as [|size r IH]; intros zooms Hm; cbn [mapM] in Hm.
    - inversion Hm. exists []. split; [constructor|reflexivity].
    - destruct (concat_res (map (fun c => zoom_sections fp (o_ips o) size (co_id c) (co_vals c)) outs)) as [secs| | |] eqn:Ec;
        cbn [rbind] in Hm; try discriminate.
      destruct (mapM _ r) as [zs| | |] eqn:Er; cbn [rbind] in Hm; try discriminate.
      inversion Hm; subst zooms; clear Hm.
      destruct (IH zs eq_refl) as [Sss [HF Hz]].
      destruct (concat_res_map_ok _ _ _ Ec) as [Ss [HFs Hs]].
      exists (Ss :: Sss). split; [constructor; assumption|].
      unfold zlevels. cbn [combine map fst snd]. fold (zlevels r Sss). rewrite <- Hz, Hs. reflexivity. }
  destruct Hex as [Sss [HF Hz]]. exists Sss. split; [exact HF|]. split; [exact Hz|].
  intros g pre sched Hg H1 s Ht.
  assert (Hlen : length zsizes = length Sss) by (eapply Forall2_len2; eauto).
  assert (HK : Forall (fun Ss => length Ss = length outs) Sss).
  { clear -HF. induction HF as [|size Ss zsizes Sss H HF IH]; constructor; [|exact IH].
    symmetry. eapply Forall2_len2; eauto. }
  rewrite Hz. apply (zoom_assembly g o zsizes pre Sss (length outs) sched Hg Hlen ltac:(lia) HK). exact Ht.
Qed.

(* ---------------------------------------------------------------- the levels' outer staging buffers
   Model/PipelineZoom.v appends [zs_store] to the file in the assembly step.  That is C12's delivery theorem
   for the two consumer programs write_zoom_vals runs on a level's OUTER buffer, whatever the schedule of the
   buffer's two sides and however the level's bytes arrive as write() calls (directly from the inner write
   tasks, as one migration of staged bytes, or as the copy made by the level's splice task):
     level 0   buf.switch(file) before anything is written; .. ; drop(writer); file = buf.await_real_file()
     level z>0 drop(writer); buf.expect_closed_write(&mut file)
   [d0] = the file at the switch / at expect_closed_write. *)
From BT Require Model.TempBuf Proofs.TempBufInv Proofs.TempBufThms.

Theorem zoom_outer_contract : forall (expect : bool) (d0 : bytes) (ws : list bytes) sched,
  let prog := if expect then [TempBuf.CExpect] else [TempBuf.CSwitch; TempBuf.CAwait] in
  let b := TempBuf.run d0 sched (TempBuf.init (map TempBuf.PWrite ws) prog) in
  TempBuf.panicked b = false /\
  (TempBuf.terminal b = true -> TempBuf.c_dest b = Some (d0 ++ concat ws)).
Proof.
  intros expect d0 ws sched prog b.
  assert (Hl : TempBuf.legal false prog = true) by (destruct expect; reflexivity).
  assert (Hc : TempBuf.consumes prog = true) by (destruct expect; reflexivity).
  split.
  - apply TempBufThms.tempbuf_no_panic. exact Hl.
  - intros Ht. destruct (TempBufThms.tempbuf_delivery d0 (map TempBuf.PWrite ws) prog sched Hl) as [_ H].
    rewrite <- TempBufThms.written_writes. apply (H Hc Ht).
Qed.
