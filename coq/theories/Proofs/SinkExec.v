(* C14: the undisturbed run of the BufWriter model.  While the writer only appends (everything
   before write_info) the destination grows at its end, whatever the chunking; write_info's
   patches are then computed explicitly. *)
From BT Require Import Base.Util Base.LE Generated.Consts Model.BBIFile Model.BigWigWrite Model.SinkTrace
  Proofs.SinkBytes Proofs.SinkFault.
Local Open Scope N_scope.

Lemma Nlen_app' {X} (a b : list X) : Nlen (a ++ b) = Nlen a + Nlen b.
Proof. unfold Nlen. rewrite app_length. lia. Qed.

(* ---- appending ---- *)
(* the sink is positioned at its end and the trace replays to its content *)
Definition app_mode (s : st) : Prop := s_pos s = Nlen (s_file s) /\ replay (s_ops s) = s_file s.
Definition above (q : N) (op : sop) : Prop :=
  match op with SWrite p _ => q <= p | SSeek _ => True | SFlush => False end.
(* [x] has been added at the logical end; the new operations write at or after the old position *)
Definition step (x : list N) (s s' : st) : Prop :=
  app_mode s' /\ s_file s' ++ s_buf s' = (s_file s ++ s_buf s) ++ x
  /\ (exists new, s_ops s' = s_ops s ++ new /\ Forall (above (s_pos s)) new)
  /\ s_pos s <= s_pos s'.

Definition appends (x : list N) (m : M) : Prop :=
  forall s, app_mode s -> exists s', m s = (Ok tt, s') /\ step x s s'.

Lemma above_mono q q' op : q' <= q -> above q op -> above q' op.
Proof. destruct op; cbn; intros; try lia; auto. Qed.

Lemma step_trans x y a b c : step x a b -> step y b c -> step (x ++ y) a c.
Proof.
  intros [A1 [F1 [[n1 [O1 P1]] L1]]] [A2 [F2 [[n2 [O2 P2]] L2]]].
  split; [exact A2|]. split; [rewrite F2, F1, app_assoc; reflexivity|]. split; [|lia].
  exists (n1 ++ n2). split; [rewrite O2, O1, app_assoc; reflexivity|].
  apply Forall_app. split; [exact P1|]. eapply Forall_impl; [|exact P2]. intros op. apply above_mono. exact L1.
Qed.

Lemma appends_bind x y m k : appends x m -> appends y k -> appends (x ++ y) (bindM m k).
Proof.
  intros Hm Hk s Hs. destruct (Hm s Hs) as [s1 [E1 S1]].
  destruct (Hk s1 (proj1 S1)) as [s2 [E2 S2]].
  exists s2. split; [unfold bindM; rewrite E1; exact E2|eapply step_trans; eauto].
Qed.

Lemma appends_ret : appends [] ret.
Proof.
  intros s Hs. exists s. split; [reflexivity|]. split; [exact Hs|]. split; [now rewrite app_nil_r|].
  split; [exists []; split; [now rewrite app_nil_r|constructor]|lia].
Qed.

Lemma appends_buffer b : appends b (buffer b).
Proof.
  intros s Hs. eexists. split; [reflexivity|].
  unfold step, app_mode. cbn [set_buf s_file s_buf s_ops s_pos].
  split; [exact Hs|]. split; [now rewrite app_assoc|].
  split; [exists []; split; [now rewrite app_nil_r|constructor]|lia].
Qed.

(* a write of [b] at the end of the sink, with an empty buffer *)
Lemma sink_write_end b s : app_mode s -> s_buf s = [] ->
  exists s', sink_write None b s = (Ok tt, s') /\ step b s s' /\ s_buf s' = [].
Proof.
  intros [Hp Hr] Hb. unfold sink_write, sink. cbn [hit]. eexists. split; [reflexivity|].
  unfold emit, bump. cbn [kind_of apply_op s_buf s_pos s_file s_ops].
  split; [|exact Hb]. split; [|split; [|split]].
  - split; cbn [s_pos s_file s_ops].
    + rewrite Hp, write_at_end, Nlen_app'. reflexivity.
    + rewrite replay_snoc, Hr. reflexivity.
  - cbn [s_file s_buf]. rewrite Hb, Hp, write_at_end, !app_nil_r. reflexivity.
  - cbn [s_ops s_pos]. exists [SWrite (s_pos s) b]. split; [reflexivity|]. constructor; [cbn; lia|constructor].
  - cbn [s_pos]. lia.
Qed.

Lemma appends_flush_buf : appends [] (flush_buf None).
Proof.
  intros s Hs. unfold flush_buf. destruct (s_buf s) as [|x b] eqn:Eb; [apply (appends_ret s Hs)|].
  destruct Hs as [Hp Hr]. unfold bindM, sink_write, sink. cbn [hit]. unfold upd. eexists. split; [reflexivity|].
  unfold emit, bump, set_buf. cbn [kind_of apply_op s_buf s_pos s_file s_ops].
  split; [|split; [|split]].
  - split; cbn [s_pos s_file s_ops].
    + rewrite Hp, write_at_end, Nlen_app'. reflexivity.
    + rewrite replay_snoc, Hr. reflexivity.
  - cbn [s_file s_buf]. rewrite Eb, Hp, write_at_end, !app_nil_r. reflexivity.
  - cbn [s_ops s_pos]. exists [SWrite (s_pos s) (x :: b)]. split; [reflexivity|]. constructor; [cbn; lia|constructor].
  - cbn [s_pos]. lia.
Qed.
Lemma flush_buf_empties s s' r : flush_buf None s = (r, s') -> s_buf s' = [].
Proof.
  unfold flush_buf. destruct (s_buf s) as [|x b] eqn:Eb; [intros H; inversion H; subst; exact Eb|].
  unfold bindM, sink_write, sink. cbn [hit]. unfold upd. intros H. inversion H. reflexivity.
Qed.

Lemma appends_tell : appends [] (bw_seek None ToCur).
Proof.
  intros s Hs. unfold bw_seek. destruct (appends_flush_buf s Hs) as [s1 [E1 S1]].
  unfold bindM. rewrite E1. unfold sink_seek, sink. cbn [hit]. eexists. split; [reflexivity|].
  destruct S1 as [[Hp Hr] [F1 [[n1 [O1 P1]] L1]]].
  unfold emit, bump, target. cbn [kind_of apply_op s_buf s_pos s_file s_ops].
  split; [|split; [|split]].
  - split; cbn [s_pos s_file s_ops]; [exact Hp|rewrite replay_snoc, Hr; reflexivity].
  - cbn [s_file s_buf]. exact F1.
  - cbn [s_ops s_pos]. exists (n1 ++ [SSeek (s_pos s1)]). split; [rewrite O1, app_assoc; reflexivity|].
    apply Forall_app. split; [exact P1|constructor; [exact I|constructor]].
  - cbn [s_pos]. exact L1.
Qed.

Lemma appends_write_all b : appends b (bw_write_all None b).
Proof.
  intros s Hs. unfold bw_write_all.
  destruct (N.ltb_spec (Nlen b) (CAP - Nlen (s_buf s))) as [H1|H1]; [apply (appends_buffer b s Hs)|].
  destruct (N.ltb_spec (CAP - Nlen (s_buf s)) (Nlen b)) as [H2|H2].
  - (* flush, then bypass or buffer *)
    destruct (appends_flush_buf s Hs) as [s1 [E1 S1]]. unfold bindM. rewrite E1.
    pose proof (flush_buf_empties s s1 _ E1) as Hb1.
    destruct (N.leb_spec CAP (Nlen b)) as [H3|H3].
    + destruct (sink_write_end b s1 (proj1 S1) Hb1) as [s2 [E2 [S2 _]]]. exists s2. split; [exact E2|].
      exact (step_trans [] b s s1 s2 S1 S2).
    + destruct (appends_buffer b s1 (proj1 S1)) as [s2 [E2 S2]]. exists s2. split; [exact E2|].
      exact (step_trans [] b s s1 s2 S1 S2).
  - unfold bindM, ret.
    destruct (N.leb_spec CAP (Nlen b)) as [H3|H3].
    + (* a bypassing write without a flush: the buffer is empty *)
      assert (Hb : s_buf s = []).
      { destruct (s_buf s) as [|x l] eqn:Eb; [reflexivity|]. exfalso. unfold Nlen in *. cbn [length] in *. unfold CAP in *. rewrite Nat2N.inj_succ in *. lia. }
      destruct (sink_write_end b s Hs Hb) as [s2 [E2 [S2 _]]]. exists s2. split; [exact E2|exact S2].
    + apply (appends_buffer b s Hs).
Qed.

Lemma appends_copy_loop : forall fuel b s, app_mode s ->
  (2 * length b + (match s_buf s with [] => 1 | _ => 2 end) <= fuel)%nat ->
  exists s', copy_loop fuel None b s = (Ok tt, s') /\ step b s s'.
Proof.
  induction fuel as [|fu IH]; intros b s Hs Hf; [destruct (s_buf s); lia|].
  cbn [copy_loop].
  destruct (N.leb_spec CAP (CAP - Nlen (s_buf s))) as [H1|H1].
  - assert (Hb : s_buf s = []).
    { destruct (s_buf s) as [|x l] eqn:Eb; [reflexivity|]. exfalso. unfold Nlen in *. cbn [length] in *. unfold CAP in *. rewrite Nat2N.inj_succ in *. lia. }
    destruct b as [|x b']; [apply (appends_ret s Hs)|].
    rewrite Hb in Hf. rewrite Hb. change (Nlen []) with 0. rewrite N.sub_0_r.
    remember (N.to_nat CAP) as n eqn:En.
    assert (Hn : (1 <= n)%nat) by (subst n; unfold CAP; lia). clear En.
    remember (x :: b') as b eqn:Eb.
    assert (Hbl : (1 <= length b)%nat) by (subst b; cbn [length]; lia).
    destruct (appends_buffer (firstn n b) s Hs) as [s1 [E1 S1]].
    unfold bindM. rewrite E1.
    assert (Hlen : (length (skipn n b) < length b)%nat) by (rewrite skipn_length; lia).
    destruct (IH (skipn n b) s1 (proj1 S1)) as [s2 [E2 S2]].
    { unfold buffer, upd in E1. injection E1 as <-. cbn [set_buf s_buf]. destruct (s_buf s ++ firstn n b); lia. }
    exists s2. split; [exact E2|].
    rewrite <- (firstn_skipn n b) at 1. exact (step_trans _ _ s s1 s2 S1 S2).
  - assert (Hb : s_buf s <> []).
    { intros E. rewrite E in H1. change (Nlen []) with 0 in H1. rewrite N.sub_0_r in H1. lia. }
    destruct (appends_flush_buf s Hs) as [s1 [E1 S1]]. unfold bindM. rewrite E1.
    pose proof (flush_buf_empties s s1 _ E1) as Hb1.
    destruct (IH b s1 (proj1 S1)) as [s2 [E2 S2]].
    { rewrite Hb1. destruct (s_buf s); [congruence|lia]. }
    exists s2. split; [exact E2|]. exact (step_trans [] b s s1 s2 S1 S2).
Qed.

Lemma appends_copy b : appends b (bw_copy None b).
Proof.
  intros s Hs. apply appends_copy_loop; [exact Hs|]. unfold copy_fuel. destruct (s_buf s); lia.
Qed.

(* the calls made while the file only grows *)
Definition append_call (c : call) : Prop :=
  match c with CWrite _ _ | CCopy _ _ | CSeek ToCur => True | _ => False end.
Definition cbytes (c : call) : list N :=
  match c with CWrite _ b | CCopy _ b => b | _ => [] end.

Lemma appends_exec1 c : append_call c -> appends (cbytes c) (exec1 None c).
Proof.
  destruct c as [u b|u b|[n| |]|]; cbn [append_call]; intros H; try contradiction; cbn [exec1 cbytes].
  - intros s Hs. destruct (appends_write_all b s Hs) as [s' [E S]]. exists s'. rewrite E. split; [reflexivity|exact S].
  - intros s Hs. destruct (appends_copy b s Hs) as [s' [E S]]. exists s'. rewrite E. split; [reflexivity|exact S].
  - exact appends_tell.
Qed.

Lemma appends_exec cs : Forall append_call cs -> appends (flat_map cbytes cs) (exec None cs).
Proof.
  induction 1 as [|c cs Hc _ IH]; cbn [flat_map exec]; [exact appends_ret|].
  apply appends_bind; [apply appends_exec1; exact Hc|exact IH].
Qed.

(* ---- the calls of the body ---- *)
(* every chunker considered cuts the bytes it is given, no more *)
Definition chunker_ok (ck : chunker) : Prop := forall r b, concat (map (fun pc => snd pc) (ck r b)) = b.

Lemma region_append ck r b : Forall append_call (region ck r b).
Proof. unfold region. apply Forall_forall. intros c Hc. apply in_map_iff in Hc as [[[cp u] x] [<- _]]. cbn. destruct cp; exact I. Qed.
Lemma region_bytes ck r b : chunker_ok ck -> flat_map cbytes (region ck r b) = b.
Proof.
  intros Hck. unfold region. rewrite <- (Hck r b) at 2. induction (ck r b) as [|[[cp u] x] l IH]; [reflexivity|].
  cbn [map flat_map concat snd piece_call]. rewrite IH. destruct cp; reflexivity.
Qed.

Lemma flat_map_app' {X Y} (f : X -> list Y) a b : flat_map f (a ++ b) = flat_map f a ++ flat_map f b.
Proof. induction a as [|x a IH]; cbn; [reflexivity|]. now rewrite IH, app_assoc. Qed.

Lemma index_append ck r ix : Forall append_call (calls_index ck r ix).
Proof. unfold calls_index. apply Forall_app. split; [repeat constructor|apply region_append]. Qed.
Lemma index_bytes ck r ix : chunker_ok ck -> flat_map cbytes (calls_index ck r ix) = ix.
Proof.
  intros Hck. unfold calls_index. rewrite flat_map_app', region_bytes by exact Hck.
  cbn [flat_map cbytes CTell W app]. rewrite app_nil_r. apply firstn_skipn.
Qed.

(* everything after write_pre's first seek *)
Definition calls_after_pre (ck : chunker) (kind : N) (p : parts) : list call :=
  region ck R_DATA (p_data p) ++ calls_mid ck p ++ calls_zooms ck kind p.

Lemma zevent_append ck e : Forall append_call (calls_zevent ck e).
Proof.
  destruct e as [| |d ix]; cbn [calls_zevent]; [constructor|repeat constructor|].
  unfold calls_level. repeat (apply Forall_app; split); try (repeat constructor); try apply region_append; apply index_append.
Qed.
Lemma zevent_bytes ck e : chunker_ok ck -> flat_map cbytes (calls_zevent ck e) = zev_bytes e.
Proof.
  intros Hck. destruct e as [| |d ix]; cbn [calls_zevent zev_bytes]; try reflexivity.
  unfold calls_level. rewrite !flat_map_app', region_bytes, index_bytes by exact Hck. reflexivity.
Qed.
Lemma zooms_append ck kind p : Forall append_call (calls_zooms ck kind p).
Proof.
  assert (H : forall l, Forall append_call (flat_map (calls_zevent ck) l)).
  { induction l as [|e l IH]; cbn [flat_map]; [constructor|apply Forall_app; split; [apply zevent_append|exact IH]]. }
  unfold calls_zooms. destruct (kind =? 0); [apply H|]. destruct (p_zev p) as [|e l]; [repeat constructor|apply H].
Qed.
Lemma zooms_bytes ck kind p : chunker_ok ck -> flat_map cbytes (calls_zooms ck kind p) = flat_map zev_bytes (p_zev p).
Proof.
  intros Hck.
  assert (H : forall l, flat_map cbytes (flat_map (calls_zevent ck) l) = flat_map zev_bytes l).
  { induction l as [|e l IH]; cbn [flat_map]; [reflexivity|]. rewrite flat_map_app', zevent_bytes, IH by exact Hck. reflexivity. }
  unfold calls_zooms. destruct (kind =? 0); [apply H|]. destruct (p_zev p) as [|e l]; [reflexivity|apply H].
Qed.

Lemma after_pre_append ck kind p : Forall append_call (calls_after_pre ck kind p).
Proof.
  unfold calls_after_pre, calls_mid. repeat (apply Forall_app; split); try (repeat constructor);
    try apply region_append; try apply index_append; apply zooms_append.
Qed.
Lemma after_pre_bytes ck kind p : chunker_ok ck ->
  flat_map cbytes (calls_after_pre ck kind p) = p_data p ++ p_ct p ++ p_ix p ++ flat_map zev_bytes (p_zev p).
Proof.
  intros Hck. unfold calls_after_pre, calls_mid.
  rewrite !flat_map_app', !region_bytes, index_bytes, zooms_bytes by exact Hck.
  cbn [flat_map cbytes CTell app]. rewrite <- !app_assoc. reflexivity.
Qed.

(* write_pre, computed *)
Definition ops_pre : list sop :=
  [SSeek 0; SWrite 0 (repeatN 0 304); SSeek 304; SWrite 304 (repeatN 0 40); SSeek 344;
   SWrite 344 (repeatN 0 8); SSeek 352].
Definition st_pre : st :=
  {| s_buf := []; s_pos := 352; s_file := repeatN 0 352; s_ops := ops_pre;
     s_nseek := 4; s_nwrite := 3; s_nflush := 0 |}.
Lemma exec_pre : exec None calls_pre st0 = (Ok tt, st_pre).
Proof. vm_compute. reflexivity. Qed.
Lemma st_pre_app : app_mode st_pre.
Proof. split; vm_compute; reflexivity. Qed.
Lemma ops_pre_phase1 : Forall phase1_op ops_pre.
Proof.
  unfold ops_pre. repeat constructor; cbn [phase1_op]; try exact I; right; apply all_zero_repeat.
Qed.
Lemma bw_pre_zeros : bw_pre = repeatN 0 352.
Proof. vm_compute. reflexivity. Qed.

Lemma above_phase1 q op : 4 <= q -> above q op -> phase1_op op.
Proof. destruct op; cbn; intros; auto. left. lia. Qed.

(* the state when write_info begins: everything of the body has been handed over, the part
   still buffered is at the end *)
Lemma exec_body ck kind p : chunker_ok ck -> p_pre p = bw_pre ->
  exists s, exec None (calls_body ck kind p) st0 = (Ok tt, s)
    /\ app_mode s /\ s_file s ++ s_buf s = body p
    /\ (exists new, s_ops s = ops_pre ++ new /\ Forall (above 352) new) /\ 352 <= s_pos s.
Proof.
  intros Hck Hpre.
  assert (Hsplit : calls_body ck kind p = calls_pre ++ calls_after_pre ck kind p).
  { unfold calls_body, calls_after_pre. reflexivity. }
  rewrite Hsplit, exec_app. unfold bindM. rewrite exec_pre.
  destruct (appends_exec _ (after_pre_append ck kind p) st_pre st_pre_app) as [s [E [A [F [[new [O P]] L]]]]].
  exists s. split; [exact E|]. split; [exact A|]. split; [|split].
  - rewrite F, after_pre_bytes by exact Hck. unfold body. rewrite Hpre, bw_pre_zeros. cbn [st_pre s_file s_buf].
    rewrite app_nil_r. reflexivity.
  - exists new. split; [exact O|exact P].
  - exact L.
Qed.
