(* C14: what a sequence of sink operations leaves in the destination, byte by byte. *)
From BT Require Import Base.Util Base.LE Generated.Consts Model.BBIFile Model.BigWigWrite Model.BBIRead Model.SinkTrace.
Local Open Scope N_scope.

(* ---- lists ---- *)
Lemma repeatN_length {X} (x : X) n : length (repeatN x n) = n.
Proof. induction n; cbn; congruence. Qed.
Lemma nth_repeatN n i : nth i (repeatN 0 n) 0 = 0.
Proof. revert i. induction n as [|n IH]; intros [|i]; cbn; auto. Qed.
Lemma nth_firstn_lt {X} (l : list X) n i d : (i < n)%nat -> nth i (firstn n l) d = nth i l d.
Proof.
  revert n i. induction l as [|x l IH]; intros [|n] [|i] H; cbn; try reflexivity; try lia.
  apply IH. lia.
Qed.
Lemma nth_skipn_add {X} (l : list X) n i d : nth i (skipn n l) d = nth (n + i) l d.
Proof.
  revert n. induction l as [|x l IH]; intros [|n]; cbn; try reflexivity.
  - destruct i; reflexivity.
  - apply IH.
Qed.
Lemma nth_zero_pad (c : list N) k i : nth i (c ++ repeatN 0 k) 0 = nth i c 0.
Proof.
  destruct (Nat.lt_ge_cases i (length c)) as [H|H].
  - now rewrite app_nth1.
  - rewrite app_nth2 by exact H. rewrite nth_repeatN. symmetry. now apply nth_overflow.
Qed.

(* ---- one write ---- *)
Lemma write_at_length c p b :
  length (write_at c p b) = Nat.max (length c) (N.to_nat p + length b).
Proof.
  unfold write_at, patch_at. rewrite !app_length, firstn_length, skipn_length, app_length, repeatN_length. lia.
Qed.

Lemma nth_write_at c p b i :
  nth i (write_at c p b) 0 =
  if (i <? N.to_nat p)%nat then nth i c 0
  else if (i <? N.to_nat p + length b)%nat then nth (i - N.to_nat p) b 0 else nth i c 0.
Proof.
  unfold write_at, patch_at.
  set (c' := c ++ repeatN 0 (N.to_nat p - length c)).
  assert (Hl : (N.to_nat p <= length c')%nat) by (unfold c'; rewrite app_length, repeatN_length; lia).
  assert (Hf : length (firstn (N.to_nat p) c') = N.to_nat p) by (rewrite firstn_length; lia).
  destruct (Nat.ltb_spec i (N.to_nat p)) as [H1|H1].
  - rewrite app_nth1 by lia. rewrite nth_firstn_lt by exact H1. unfold c'. apply nth_zero_pad.
  - rewrite app_nth2 by lia. rewrite Hf.
    destruct (Nat.ltb_spec i (N.to_nat p + length b)) as [H2|H2].
    + rewrite app_nth1 by lia. reflexivity.
    + rewrite app_nth2 by lia. rewrite nth_skipn_add.
      replace (N.to_nat p + length b + (i - N.to_nat p - length b))%nat with i by lia.
      unfold c'. apply nth_zero_pad.
Qed.

(* at the end of the file a write appends *)
Lemma write_at_end c b : write_at c (Nlen c) b = c ++ b.
Proof.
  unfold write_at, patch_at, Nlen. rewrite Nat2N.id, Nat.sub_diag. cbn [repeatN]. rewrite app_nil_r.
  rewrite firstn_all. rewrite skipn_all2 by lia. now rewrite app_nil_r.
Qed.
(* inside the file a write is BBIFile.patch_at *)
Lemma write_at_patch c p b : (N.to_nat p <= length c)%nat -> write_at c p b = patch_at c p b.
Proof.
  intros H. unfold write_at. replace (N.to_nat p - length c)%nat with 0%nat by lia. cbn [repeatN]. now rewrite app_nil_r.
Qed.

(* ---- replay ---- *)
Lemma replay_app a b : replay (a ++ b) = fold_left apply_op b (replay a).
Proof. unfold replay. apply fold_left_app. Qed.
Lemma replay_snoc a op : replay (a ++ [op]) = apply_op (replay a) op.
Proof. rewrite replay_app. reflexivity. Qed.

(* ---- before the header operation: the first four bytes are zero ---- *)
Definition all_zero (b : list N) : Prop := Forall (fun x => x = 0) b.
Definition phase1_op (op : sop) : Prop :=
  match op with SWrite p b => 4 <= p \/ all_zero b | _ => True end.
Definition zero4 (c : list N) : Prop := forall i, (i < 4)%nat -> nth i c 0 = 0.

Lemma all_zero_nth b i : all_zero b -> nth i b 0 = 0.
Proof.
  intros H. revert i. induction H as [|x l Hx _ IH]; intros [|i]; cbn; auto.
Qed.
Lemma all_zero_firstn b n : all_zero b -> all_zero (firstn n b).
Proof.
  intros H. revert n. induction H as [|x l Hx _ IH]; intros [|n]; cbn [firstn]; try constructor; [exact Hx|apply IH].
Qed.
Lemma all_zero_repeat n : all_zero (repeatN 0 n).
Proof. induction n; cbn; constructor; auto. Qed.

Lemma zero4_apply c op : zero4 c -> phase1_op op -> zero4 (apply_op c op).
Proof.
  intros Hz Hp. destruct op as [q|p b|]; cbn [apply_op]; try exact Hz.
  intros i Hi. rewrite nth_write_at. cbn [phase1_op] in Hp.
  destruct (Nat.ltb_spec i (N.to_nat p)); [apply Hz; exact Hi|].
  destruct Hp as [Hp|Hp]; [exfalso; lia|].
  destruct (Nat.ltb_spec i (N.to_nat p + length b)); [apply all_zero_nth; exact Hp|apply Hz; exact Hi].
Qed.
Lemma zero4_fold ops : forall c, zero4 c -> Forall phase1_op ops -> zero4 (fold_left apply_op ops c).
Proof.
  induction ops as [|op ops IH]; intros c Hz Hf; [exact Hz|].
  inversion Hf; subst. cbn [fold_left]. apply IH; [apply zero4_apply; assumption|assumption].
Qed.
Lemma zero4_nil : zero4 [].
Proof. intros [|i] _; reflexivity. Qed.
Lemma zero4_replay ops : Forall phase1_op ops -> zero4 (replay ops).
Proof. intros H. unfold replay. apply zero4_fold; [exact zero4_nil|exact H]. Qed.

Lemma in_firstn {X} (l : list X) n x : In x (firstn n l) -> In x l.
Proof.
  revert n. induction l as [|o l IH]; intros [|n] Hx; cbn in *; try contradiction.
  destruct Hx as [<-|Hx]; [left; reflexivity|right; eapply IH; eauto].
Qed.

Lemma phase1_cut ops n c : Forall phase1_op ops -> Forall phase1_op (cut_ops ops n c).
Proof.
  intros H. unfold cut_ops. apply Forall_app. split.
  - apply Forall_forall. intros x Hx. rewrite Forall_forall in H. apply H. eapply in_firstn; eauto.
  - destruct (nth_error ops n) as [[q|p b|]|] eqn:E; try constructor; [|constructor].
    apply nth_error_In in E. rewrite Forall_forall in H. specialize (H _ E). cbn [phase1_op] in *.
    destruct H as [H|H]; [left; exact H|right; apply all_zero_firstn; exact H].
Qed.

(* a file that begins with four zero bytes (or is shorter than a header) is refused by read_info *)
Definition rejected (bs : list N) : Prop := read_info bs = Err R_IO \/ read_info bs = Err R_MAGIC.

Lemma zero4_rejected bs : zero4 bs -> rejected bs.
Proof.
  intros Hz. unfold rejected, read_info, read_header.
  destruct (slice bs 0 64) as [h|] eqn:Eh; cbn [rdo rbind]; [|left; reflexivity].
  right. unfold detect_magic.
  assert (Hlen : (64 <= length bs)%nat).
  { unfold slice in Eh. cbn [N.to_nat skipn] in Eh.
    destruct (Nat.eqb_spec (length (firstn 64 bs)) 64) as [E|E]; [|discriminate].
    rewrite firstn_length in E. lia. }
  destruct bs as [|a [|b [|c [|d r]]]]; cbn [length] in Hlen; try lia.
  pose proof (Hz 0%nat ltac:(lia)) as H0. pose proof (Hz 1%nat ltac:(lia)) as H1.
  pose proof (Hz 2%nat ltac:(lia)) as H2. pose proof (Hz 3%nat ltac:(lia)) as H3.
  cbn [nth] in H0, H1, H2, H3. subst a b c d.
  unfold slice. cbn [N.to_nat skipn firstn length Nat.eqb rdo rbind].
  vm_compute. reflexivity.
Qed.

(* ---- after the header operation: only a window and the tail still change ---- *)
(* an operation that writes inside [lo,hi) or appends at most [t] bytes from offset L on *)
Definition window_op (lo hi L t : nat) (op : sop) : Prop :=
  match op with
  | SWrite p b => (lo <= N.to_nat p /\ N.to_nat p + length b <= hi)%nat
                  \/ (L <= N.to_nat p /\ N.to_nat p + length b <= L + t)%nat
  | _ => True
  end.

Lemma window_apply lo hi L t c op : window_op lo hi L t op -> (hi <= L)%nat -> (L <= length c <= L + t)%nat ->
  (L <= length (apply_op c op) <= L + t)%nat
  /\ forall i, (i < L)%nat -> ~ (lo <= i < hi)%nat -> nth i (apply_op c op) 0 = nth i c 0.
Proof.
  intros Hw Hhi Hl. destruct op as [q|p b|]; cbn [apply_op]; [split; [exact Hl|reflexivity]| |split; [exact Hl|reflexivity]].
  cbn [window_op] in Hw. split.
  - rewrite write_at_length. lia.
  - intros i Hi Hout. rewrite nth_write_at.
    destruct (Nat.ltb_spec i (N.to_nat p)); [reflexivity|].
    destruct (Nat.ltb_spec i (N.to_nat p + length b)); [exfalso; lia|reflexivity].
Qed.

Lemma window_fold lo hi L t ops : (hi <= L)%nat -> Forall (window_op lo hi L t) ops ->
  forall c, (L <= length c <= L + t)%nat ->
  (L <= length (fold_left apply_op ops c) <= L + t)%nat
  /\ forall i, (i < L)%nat -> ~ (lo <= i < hi)%nat -> nth i (fold_left apply_op ops c) 0 = nth i c 0.
Proof.
  intros Hhi Hf. induction Hf as [|op ops Hop _ IH]; intros c Hl; [split; [exact Hl|reflexivity]|].
  cbn [fold_left]. destruct (window_apply lo hi L t c op Hop Hhi Hl) as [Hl1 Hn1].
  destruct (IH _ Hl1) as [Hl2 Hn2]. split; [exact Hl2|].
  intros i Hi Hout. rewrite Hn2 by assumption. apply Hn1; assumption.
Qed.

Lemma window_firstn lo hi L t ops n : Forall (window_op lo hi L t) ops -> Forall (window_op lo hi L t) (firstn n ops).
Proof.
  intros H. apply Forall_forall. intros x Hx. rewrite Forall_forall in H. apply H. eapply in_firstn; eauto.
Qed.
Lemma window_cut lo hi L t ops n c : Forall (window_op lo hi L t) ops -> Forall (window_op lo hi L t) (cut_ops ops n c).
Proof.
  intros H. unfold cut_ops. apply Forall_app. split; [apply window_firstn; exact H|].
  destruct (nth_error ops n) as [[q|p b|]|] eqn:E; try constructor; [|constructor].
  apply nth_error_In in E. rewrite Forall_forall in H. specialize (H _ E). cbn [window_op] in *.
  rewrite firstn_length. lia.
Qed.
