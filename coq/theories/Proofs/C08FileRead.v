(* C08 at file level, part 5: the bigBed file as the zoom reader sees it.
   For the bytes [bb_write_gen] returns (any summary sweep, any zoom part of at most 10 levels whose
   directory entries fit their fields): the file is  P ++ zoom bytes ++ magic  with the zoom part
   written from position |P|; read_info succeeds, the zoom directory it returns IS the list of
   directory entries the zoom part returned, the file is little-endian and uncompressed, and every
   chromosome that had data is found by name with the id the writer gave it.
   This re-derives the first half of Proofs/BedEndToEnd.v bb_write_read (which does not expose the
   directory) from the same ingredients: assemble_layout, read_header_written, read_info_written;
   the directory itself by Proofs/BigWigFile.v read_zoom_headers_ok.  Entries need no hypothesis here
   beyond being accepted by the writer (so [0,0) entries, which the data reader refuses, are covered). *)
From Coq Require Import Sorting.Sorted.
From BT Require Import Base.Util Base.LE Base.Float Generated.Consts Model.RTree Model.BBIFile Model.BigWigWrite Model.BBIRead
  Model.BigBedWrite Proofs.RTreeCodec Proofs.BedQuery Proofs.BedCodec Proofs.BedAssemble Proofs.BedReadInfo Proofs.BedEndToEnd.
From BT Require Proofs.BigWigFile.
From BT Require Model.AutoSql.
Local Open Scope N_scope.

Definition names_ok (input : list bitem) : Prop :=
  Forall (fun it => no_nul_name (fst it) /\ Nlen (fst it) < U32) input.

Lemma NlenA {X} (a b : list X) : Nlen (a ++ b) = Nlen a + Nlen b.
Proof. unfold Nlen. rewrite app_length. lia. Qed.

Section Read.
Variable sweep : list bchrom -> summary.
Variable zoom_part : list bchrom -> summary -> N -> N -> res (list N * list zoom_header).
Hypothesis zoom_levels_fit : forall outs sum a b zb zh, zoom_part outs sum a b = Ok (zb, zh) -> (length zh <= 10)%nat.

Theorem bb_file_zoom_read o sizes autosql input f :
  bb_write_gen sweep zoom_part o sizes autosql input = Ok f ->
  o_bs o <= 65535 -> Nlen (bruns input) < U16 -> names_ok input ->
  Forall (fun s => snd s < U32) sizes -> Nlen f <= U64 ->
  exists ids outs ds P zbytes zhdrs,
    bb_collect o sizes input = Ok (ids, outs) /\ 2 <= o_bs o /\ 1 <= o_ips o
    /\ zoom_part outs (sweep outs) ds (Nlen P) = Ok (zbytes, zhdrs)
    /\ f = P ++ zbytes ++ u32 BIGBED_MAGIC /\ 1 <= Nlen P
    /\ (Forall Proofs.BigWigFile.zh_ok zhdrs ->
        exists i, read_info f = Ok i /\ i_zooms i = zhdrs /\ h_big (i_hdr i) = false /\ h_ubuf (i_hdr i) = 0
                  /\ forall bc, In bc outs -> chrom_id i (bc_name bc) = Ok (bc_id bc)).
Proof.
  intros Hw Hbs' Hnchr Hin Hsizes Hflen.
  unfold bb_write_gen in Hw.
  destruct ((o_bs o <? 2) || (o_ips o <? 1)) eqn:Eopt; [discriminate|].
  apply orb_false_iff in Eopt as [Eopt Eips]. apply N.ltb_ge in Eopt. apply N.ltb_ge in Eips.
  destruct (bb_schema autosql) as [[sql fc]| | |] eqn:Esch; cbn [rbind] in Hw; try discriminate.
  destruct (bb_collect o sizes input) as [[ids outs]| | |] eqn:Ecol; cbn [rbind] in Hw; try discriminate.
  destruct (bb_data o outs) as [data| | |] eqn:Edata; cbn [rbind] in Hw; try discriminate.
  set (pre := bb_pre sql) in *.
  assert (Hruns : map (fun c => (bc_name c, bc_entries c)) outs = bruns input /\
                  ids = combine (map fst (bruns input)) (seqN 0 (length (bruns input))) /\
                  map bc_id outs = seqN 0 (length (bruns input)) /\ NoDup (map fst (bruns input))).
  { unfold bb_collect in Ecol. destruct input as [|i0 rest]; [discriminate|].
    destruct (process_bruns_outs _ _ _ _ _ _ _ Ecol) as [H1 _].
    destruct (process_bruns_ids o sizes _ None [] ids outs Ecol) as [H2 [H3 [H4 _]]].
    split; [exact H1|]. split; [exact H2|]. split; [exact H3|exact H4]. }
  destruct Hruns as [Hruns [Hids [Hbcids Hnd]]].
  set (n := length (bruns input)) in *.
  destruct (assemble_layout _ _ _ _ _ _ _ _ _ _ _ _ _ Hw) as [ct [ix [lv [zbytes [zhdrs [Hct [Hix [Hz Hlay]]]]]]]].
  assert (Lpre : length pre = (304 + length sql + 1 + 40 + 8)%nat).
  { unfold pre, bb_pre, u64. rewrite !app_length, blank_headers_length, repeatN_length, enc_len. cbn [length]. lia. }
  pose proof (zoom_levels_fit _ _ _ _ _ _ Hz) as Hzl.
  destruct (Hlay ltac:(lia) ltac:(lia)) as [pre' [Lpre' [Hf [Hhdr [_ [_ _]]]]]]. clear Hlay.
  set (dbytes := data_bytes data) in *.
  set (cis := Nlen pre + Nlen dbytes) in *.
  set (ixs := Nlen pre + Nlen dbytes + Nlen ct) in *.
  assert (HNpre' : Nlen pre' = Nlen pre) by (unfold Nlen; now rewrite Lpre').
  exists ids, outs, (Nlen dbytes), (pre' ++ dbytes ++ ct ++ ix), zbytes, zhdrs.
  split; [reflexivity|]. split; [exact Eopt|]. split; [exact Eips|]. split.
  { rewrite !NlenA, HNpre'. replace (Nlen pre + (Nlen dbytes + (Nlen ct + Nlen ix))) with (Nlen pre + Nlen dbytes + Nlen ct + Nlen ix) by lia.
    exact Hz. }
  split; [rewrite Hf; now rewrite <- !app_assoc|]. split; [rewrite NlenA, HNpre'; unfold Nlen; rewrite Lpre; lia|].
  intros Hzok.
  assert (Hfl : Nlen f = Nlen pre + Nlen dbytes + Nlen ct + Nlen ix + Nlen zbytes + 4).
  { rewrite Hf. rewrite !NlenA. rewrite HNpre'. unfold Nlen at 6. unfold u32. rewrite enc_len. lia. }
  assert (Hhdr_f : has_at f 0 (hdr_of BIGBED_MAGIC pre dbytes ct fc fc ASQL_OFFSET zhdrs)).
  { rewrite Hf. apply has_at_app_r. exact Hhdr. }
  unfold hdr_of in Hhdr_f. apply has_at_app in Hhdr_f as [Hh64 Hzdir].
  assert (Hfc16 : fc < U16).
  { unfold bb_schema, AutoSql.write_pre_schema in Esch.
    destruct (match AutoSql.parse _ with Ok _ => _ | Err _ => _ | Panic => _ | Fuel => _ end) as [x| | |]; cbn [rbind] in Esch; try discriminate.
    destruct (existsb _ _); [discriminate|]. apply Ok_inj in Esch. inversion Esch. apply N.mod_lt. discriminate. }
  assert (HNprelen : Nlen pre = 304 + Nlen sql + 1 + 40 + 8) by (unfold Nlen; rewrite Lpre; lia).
  pose proof (read_header_written f (Nlen zhdrs) cis (Nlen pre - 8) ixs fc fc ASQL_OFFSET (Nlen pre - 48) 0 Hh64) as Hrh.
  assert (Hasql : ASQL_OFFSET = 304) by (unfold ASQL_OFFSET, Nlen; now rewrite blank_headers_length).
  specialize (Hrh ltac:(unfold hdr_ok, U16, U32, U64 in *; unfold cis, ixs; rewrite Hasql; unfold Nlen at 1; repeat split; lia)).
  set (h := {| h_big := false; h_bigwig := false; h_version := 4; h_zoom_levels := Nlen zhdrs; h_chrom_tree_off := cis;
               h_full_data_off := Nlen pre - 8; h_full_index_off := ixs; h_field_count := fc; h_defined_fc := fc;
               h_asql_off := ASQL_OFFSET; h_summary_off := Nlen pre - 48; h_ubuf := 0 |}) in *.
  (* the zoom directory *)
  assert (Hzs : read_zoom_headers false f 64 (N.to_nat (h_zoom_levels h)) = Ok zhdrs).
  { cbn [h_zoom_levels h]. unfold Nlen at 1. rewrite Nat2N.id.
    apply Proofs.BigWigFile.read_zoom_headers_ok; [|exact Hzok].
    unfold Nlen in Hzdir. rewrite header_bytes_length in Hzdir. exact Hzdir. }
  (* the chromosome tree *)
  assert (Hct_at : has_at f cis ct).
  { rewrite Hf. unfold cis. rewrite <- HNpre'. apply has_at_shift.
    replace (Nlen dbytes) with (Nlen dbytes + 0) by lia.
    apply has_at_shift. apply has_at_here. }
  assert (Hnames : map fst ids = map fst (bruns input)).
  { rewrite Hids. unfold n. rewrite <- (map_length fst (bruns input)). apply combine_seqN_fst. }
  assert (Hidsnd : map snd ids = seqN 0 n).
  { rewrite Hids. unfold n. rewrite <- (map_length fst (bruns input)). apply combine_seqN_snd. }
  assert (Hlen_ids : length ids = n) by (rewrite <- (map_length fst), Hnames, map_length; reflexivity).
  assert (Hrun_ok : forall c es, In (c, es) (bruns input) -> no_nul_name c /\ Nlen c < U32).
  { intros c es Hce. rewrite <- (bruns_untag input) in Hin. unfold names_ok, untag in Hin.
    rewrite Forall_forall in Hin.
    pose proof (bruns_nonempty _ _ _ Hce) as Hne.
    destruct es as [|x0 es']; [congruence|].
    specialize (Hin (c, x0)). cbn [fst snd] in Hin. apply Hin.
    apply in_flat_map. exists (c, x0 :: es'). split; [exact Hce|]. cbn [fst snd]. unfold tag. apply in_map. now left. }
  assert (Htri : Forall (chrom_ok (max_key ids)) (triples sizes ids)).
  { unfold triples. apply Forall_forall. intros it Hit. apply in_map_iff in Hit as [[k id] [<- Hk]]. cbn [fst snd chrom_ok].
    assert (Hkin : In k (map fst (bruns input))) by (rewrite <- Hnames; change k with (fst (k, id)); apply in_map; exact Hk).
    apply in_map_iff in Hkin as [[k' es] [E Hr]]. cbn [fst] in E. subst k'.
    destruct (Hrun_ok _ _ Hr) as [Hnn Hkl].
    split; [exact (max_key_ge ids (k, id) Hk)|]. split; [exact Hnn|]. split.
    - assert (Hidin : In id (seqN 0 n)) by (rewrite <- Hidsnd; change id with (snd (k, id)); apply in_map; exact Hk).
      apply seqN_bound in Hidin. unfold U16, U32 in *. unfold n in Hidin. unfold Nlen in Hnchr. lia.
    - destruct (lookup k sizes) as [len|] eqn:El; [|unfold U32; lia].
      destruct (lookup_in _ _ _ El) as [k2 Hk2]. rewrite Forall_forall in Hsizes. exact (Hsizes (k2, len) Hk2). }
  assert (Hmaxkey : N.of_nat (max_key ids) < U32).
  { unfold max_key. assert (G : forall (l : idmap) a, N.of_nat a < U32 -> Forall (fun c => Nlen (fst c) < U32) l ->
                               N.of_nat (fold_left (fun a c => Nat.max a (length (fst c))) l a) < U32).
    { induction l as [|c l IH]; intros a Ha Hl; [exact Ha|]. cbn [fold_left]. cbv beta. inversion Hl as [|? ? Hc Hl']; subst.
      apply IH; [|exact Hl']. unfold Nlen in Hc.
      apply (Nat.max_case a (length (fst c)) (fun k => N.of_nat k < U32)); assumption. }
    apply G; [unfold U32; lia|]. apply Forall_forall. intros [k id] Hk. cbn [fst].
    assert (Hkin : In k (map fst (bruns input))) by (rewrite <- Hnames; change k with (fst (k, id)); apply in_map; exact Hk).
    apply in_map_iff in Hkin as [[k' es] [E Hr]]. cbn [fst] in E. subst k'. apply (Hrun_ok _ _ Hr). }
  pose proof (read_info_written f h zhdrs sizes ids ct Hrh eq_refl Hzs Hct Hct_at
                ltac:(unfold Nlen; rewrite Hlen_ids; exact Hnchr) Hmaxkey Htri) as Hri.
  set (i := {| i_hdr := h; i_zooms := zhdrs;
               i_chroms := map (fun it => let '(k, id, len) := it in {| ci_name := k; ci_id := id; ci_len := len |}) (triples sizes ids) |}) in *.
  exists i. split; [exact Hri|]. split; [reflexivity|]. split; [reflexivity|]. split; [reflexivity|].
  intros bc Hbc.
  assert (Hpair : In (bc_name bc, bc_id bc) ids).
  { rewrite Hids. rewrite <- Hbcids. rewrite <- Hruns. rewrite map_map. cbn [fst].
    clear -Hbc. induction outs as [|o1 outs IH]; [destruct Hbc|]. cbn [map combine].
    destruct Hbc as [->|Hbc]; [now left|right; apply IH; exact Hbc]. }
  apply (chrom_id_written i (triples sizes ids) (bc_name bc) (bc_id bc) (match lookup (bc_name bc) sizes with Some l => l | None => 0 end)).
  - reflexivity.
  - unfold triples. rewrite map_map. rewrite <- Hnames in Hnd. erewrite map_ext; [exact Hnd|]. intros [k0 id0]. reflexivity.
  - unfold triples. apply in_map_iff. exists (bc_name bc, bc_id bc). split; [reflexivity|exact Hpair].
Qed.
End Read.

(* facts about the accepted chromosomes *)
Lemma collect_outs o sizes input ids outs : bb_collect o sizes input = Ok (ids, outs) ->
  map (fun c => (bc_name c, bc_entries c)) outs = bruns input
  /\ map bc_id outs = seqN 0 (length (bruns input))
  /\ Forall (fun c => lookup (bc_name c) sizes = Some (bc_len c) /\ check_entries (bc_len c) (bc_entries c) = Ok tt) outs.
Proof.
  intros Ecol. unfold bb_collect in Ecol. destruct input as [|i0 rest]; [discriminate|].
  destruct (process_bruns_outs _ _ _ _ _ _ _ Ecol) as [H1 H1'].
  destruct (process_bruns_ids o sizes _ None [] ids outs Ecol) as [_ [H3 _]]. auto.
Qed.
