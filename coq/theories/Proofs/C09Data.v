(* C09 whole file, part 1: region bookkeeping, placed sections as index leaves, and the data blocks of
   the bigWig writer model decoded by the independent decoder.  Reuses the C01 development
   (Proofs/BigWigFile*.v: the writer's data as "pieces", process_runs, ranges). *)
From BT Require Import Base.Util Base.LE Base.Float Generated.Consts Model.RTree Model.BBIFile Model.BigWigWrite Model.BigWigWriteZ
  Proofs.Chunks Proofs.BigWigQuery Proofs.RTreeAbs Proofs.RTreeBuild Proofs.RTreeCodec Proofs.FileRegions
  Proofs.BigWigFile Proofs.BigWigFileChroms Proofs.BigWigFileData Proofs.BigWigValues
  Spec.FormatDecode Proofs.C09Base Proofs.C09Codec Proofs.C09Chrom Proofs.C09RTree.
Local Open Scope N_scope.

(* ---------- pairwise disjoint regions ---------- *)
Lemma all_disjoint_app a b : all_disjoint (a ++ b) = all_disjoint a && forallb (fun r => forallb (reg_disj r) b) a && all_disjoint b.
Proof.
  induction a as [|r a IH]; cbn [app all_disjoint forallb]; [reflexivity|].
  rewrite forallb_app, IH. destruct (forallb (reg_disj r) a), (forallb (reg_disj r) b), (all_disjoint a); cbn; try reflexivity.
Qed.

(* regions laid out one after the other *)
Fixpoint reg_chain (lo : N) (l : list (N * N)) : Prop :=
  match l with
  | [] => True
  | r :: rest => lo <= fst r /\ fst r <= snd r /\ reg_chain (snd r) rest
  end.
Lemma reg_chain_lower : forall l lo r, reg_chain lo l -> In r l -> lo <= fst r /\ fst r <= snd r.
Proof.
  induction l as [|x l IH]; intros lo r H Hin; [destruct Hin|]. destruct H as (H1 & H2 & H3).
  destruct Hin as [<-|Hin]; [split; assumption|]. destruct (IH _ _ H3 Hin). split; lia.
Qed.
Lemma reg_chain_disjoint : forall l lo, reg_chain lo l -> all_disjoint l = true.
Proof.
  induction l as [|x l IH]; intros lo H; [reflexivity|]. destruct H as (H1 & H2 & H3). cbn [all_disjoint].
  rewrite (IH _ H3), andb_true_r. apply forallb_forall. intros r Hr.
  destruct (reg_chain_lower _ _ _ H3 Hr) as [Ha Hb]. unfold reg_disj.
  replace (snd x <=? fst r) with true; [now rewrite !orb_true_r|]. symmetry. now apply N.leb_le.
Qed.
Fixpoint chain_end (lo : N) (l : list (N * N)) : N :=
  match l with [] => lo | r :: rest => chain_end (snd r) rest end.
Lemma reg_chain_upper : forall l lo r, reg_chain lo l -> In r l -> snd r <= chain_end lo l.
Proof.
  assert (G : forall l lo, reg_chain lo l -> lo <= chain_end lo l).
  { induction l as [|x l IH]; intros lo H; cbn [chain_end]; [lia|]. destruct H as (H1 & H2 & H3). specialize (IH _ H3). lia. }
  induction l as [|x l IH]; intros lo r H Hin; [destruct Hin|]. destruct H as (H1 & H2 & H3). cbn [chain_end].
  destruct Hin as [<-|Hin]; [now apply G|]. now apply IH.
Qed.

(* ---------- placed sections ---------- *)
Lemma place_offs_chain : forall l off, offs_chain (place off l).
Proof.
  induction l as [|a l IH]; intros off; [exact I|]. cbn [place]. destruct l as [|b l]; [exact I|].
  specialize (IH (off + Nlen (sd_bytes a))). cbn [place] in *. cbn [offs_chain s_off s_size]. split; [lia|exact IH].
Qed.

Lemma last_cons {X} : forall (r : list X) x d, last (x :: r) d = last r x.
Proof.
  induction r as [|y r IH]; intros x d; [reflexivity|]. change (last (x :: y :: r) d) with (last (y :: r) d).
  now rewrite (IH y d), (IH y x).
Qed.

Lemma place_last_end : forall l off d, l <> [] ->
  s_off (last (place off l) d) + s_size (last (place off l) d) = off + Nlen (data_bytes l).
Proof.
  induction l as [|a l IH]; intros off d Hne; [congruence|]. rewrite data_bytes_cons, Nlen_app.
  destruct l as [|b l].
  - cbn [place last s_off s_size data_bytes flat_map]. rewrite Nlen_nil. lia.
  - cbn [place]. rewrite last_cons.
    specialize (IH (off + Nlen (sd_bytes a)) {| s_chrom := sd_chrom a; s_start := sd_start a; s_end := sd_end a; s_off := off; s_size := Nlen (sd_bytes a) |} ltac:(discriminate)).
    cbn [place] in IH. rewrite IH. lia.
Qed.

Lemma map_last {X Y} (f : X -> Y) : forall l d, last (map f l) (f d) = f (last l d).
Proof. induction l as [|x l IH]; intros d; [reflexivity|]. cbn [map]. rewrite !last_cons. apply IH. Qed.

(* ---------- chromosome sizes by id ---------- *)
Lemma chrom_size_found sizes : forall (ids : idmap) c id, NoDup (map snd ids) -> In (c, id) ids ->
  chrom_size (map (chrom_view sizes) ids) id = Some (size_of sizes (c, id)).
Proof.
  induction ids as [|[c0 id0] ids IH]; intros c id Hnd Hin; [destruct Hin|].
  cbn [map snd] in Hnd. inversion Hnd as [|? ? Hni Hnd']; subst.
  unfold chrom_size. cbn [map filter chrom_view fc_id snd].
  destruct (id0 =? id) eqn:E.
  - apply N.eqb_eq in E. subst id0. destruct Hin as [Heq|Hin]; [now inversion Heq|].
    exfalso. apply Hni. apply in_map_iff. exists (c, id). split; [reflexivity|exact Hin].
  - destruct Hin as [Heq|Hin]; [inversion Heq; subst; rewrite N.eqb_refl in E; discriminate|].
    apply (IH c id Hnd' Hin).
Qed.

(* ---------- the bytes of a block: raw, or through the inflate oracle ---------- *)
(* [c]: are blocks compressed; the header's buffer size is 0 exactly when they are not *)
Definition blk_mode (c : bool) (ubuf : N) : Prop := (c = false /\ ubuf = 0) \/ (c = true /\ 0 < ubuf).
(* the oracle inverts the compressor on every byte range of the image that holds a compressed block *)
Definition inflate_ok (compress : list N -> list N) (img : list N) (inflate : N -> N -> option (list N)) : Prop :=
  forall off b, has_at img off (compress b) -> inflate off (Nlen (compress b)) = Some b.

Lemma zsec_spans compress c d : sd_chrom (zsec compress c d) = sd_chrom d /\ sd_start (zsec compress c d) = sd_start d
  /\ sd_end (zsec compress c d) = sd_end d.
Proof. destruct c; repeat split; reflexivity. Qed.

Lemma block_bytes_c compress c img n inflate ubuf s d :
  n = Nlen img -> placed img s (zsec compress c d) -> blk_mode c ubuf ->
  (c = true -> inflate_ok compress img inflate /\ Nlen (sd_bytes d) <= ubuf) ->
  block_bytes img n inflate ubuf (lf_of s) = Some (sd_bytes d).
Proof.
  intros Hn (Hat & Hsz & _) Hm Hc. unfold block_bytes. cbn [lf_of fl_off fl_size].
  destruct Hm as [[-> ->]|[-> Hu]].
  - change (0 =? 0) with true. cbv iota. cbn [zsec] in *. exact (bytes_at_has_w img n (s_off s) _ (s_size s) Hat Hn Hsz).
  - destruct (Hc eq_refl) as [Hinf Hle]. replace (ubuf =? 0) with false by (symmetry; apply N.eqb_neq; lia).
    cbn [zsec sd_bytes] in Hat, Hsz. pose proof (has_at_bound img _ _ Hat) as Hb. rewrite <- Hn, <- Hsz in Hb.
    rewrite check_true by (apply N.leb_le; exact Hb).
    rewrite Hsz, (Hinf _ _ Hat). cbn [obind]. rewrite check_true by (apply N.leb_le; exact Hle). reflexivity.
Qed.

(* ---------- one data block ---------- *)
Definition piece_recs (p : piece) : list frec := map (rec_of (fst p)) (snd p).

Lemma data_block_gen img n inflate chroms ubuf ips (p : piece) s len :
  block_bytes img n inflate ubuf (lf_of s) = Some (sd_bytes (psec p)) ->
  s_chrom s = sd_chrom (psec p) -> s_start s = sd_start (psec p) -> s_end s = sd_end (psec p) ->
  piece_ok p -> wf_vals len (snd p) ->
  chrom_size chroms (fst p) = Some len -> Nlen (snd p) <= ips ->
  data_block img n false inflate true chroms ubuf ips (lf_of s) = Some (piece_recs p).
Proof.
  intros Hbytes Hc Hs He (Hne & Hlen & Hid & Hvals) Hwf Hcs Hips.
  destruct p as [id items]. cbn [fst snd] in *. destruct items as [|f r] eqn:Ei; [congruence|]. rewrite <- Ei in *.
  assert (Henc : encode_section id items = Ok (psec (id, items))).
  { unfold psec. cbn [fst snd]. apply encode_section_ok. subst items. discriminate. }
  destruct (parse_wig_section_ok id items _ Henc Hid Hvals Hlen) as (Hparse & Hch & _ & (f' & Hf' & Hst & Hen)).
  assert (f' = f) by (subst items; cbn in Hf'; congruence). subst f'.
  unfold data_block. rewrite Hbytes. cbn [obind].
  cbn [lf_of fl_off fl_size fl_span fsp p_sc p_sb p_eb sect_span sc sb eb].
  rewrite Hc, Hch, Hcs. cbn [obind]. rewrite Hparse. cbn [obind].
  assert (Hbounds : forall v, In v items -> sd_start (psec (id, items)) <= v_start v /\ v_end v <= sd_end (psec (id, items))
                                            /\ v_start v <= v_end v /\ v_end v <= len).
  { intros v Hv. rewrite Hst, Hen. subst items. split; [eapply wf_first_start; eassumption|].
    split; [eapply wf_last_end; eassumption|].
    pose proof (wf_each len _ Hwf) as Hall. rewrite Forall_forall in Hall. exact (Hall v Hv). }
  rewrite check_true.
  2:{ rewrite Hch, N.eqb_refl, Hs, He. rewrite !N.leb_refl. cbn [andb].
      apply forallb_forall. intros x Hx. apply in_map_iff in Hx as [v [<- Hv]]. cbn [rec_of fr_start fr_end].
      destruct (Hbounds v Hv) as (H1 & H2 & _). apply andb_true_iff. split; now apply N.leb_le. }
  cbn [obind].
  rewrite check_true by (subst items; reflexivity).
  rewrite check_true by (apply N.leb_le; unfold Nlen; rewrite map_length; exact Hips).
  rewrite check_true; [reflexivity|].
  apply forallb_forall. intros x Hx. apply in_map_iff in Hx as [v [<- Hv]]. cbn [rec_of fr_chrom fr_start fr_end].
  destruct (Hbounds v Hv) as (H1 & H2 & H3 & H4). rewrite Hs, He, N.eqb_refl. cbn [andb].
  rewrite !andb_true_iff. repeat split; now apply N.leb_le.
Qed.

Lemma data_block_c compress c img n inflate chroms ubuf ips (p : piece) s len :
  n = Nlen img -> placed img s (zsec compress c (psec p)) -> blk_mode c ubuf ->
  (c = true -> inflate_ok compress img inflate /\ Nlen (sd_bytes (psec p)) <= ubuf) ->
  piece_ok p -> wf_vals len (snd p) -> chrom_size chroms (fst p) = Some len -> Nlen (snd p) <= ips ->
  data_block img n false inflate true chroms ubuf ips (lf_of s) = Some (piece_recs p).
Proof.
  intros Hn Hpl Hm Hc Hok Hwf Hcs Hips.
  pose proof (block_bytes_c compress c img n inflate ubuf s (psec p) Hn Hpl Hm Hc) as Hb.
  destruct Hpl as (_ & _ & E1 & E2 & E3). destruct (zsec_spans compress c (psec p)) as (Z1 & Z2 & Z3).
  rewrite Z1 in E1. rewrite Z2 in E2. rewrite Z3 in E3.
  exact (data_block_gen img n inflate chroms ubuf ips p s len Hb E1 E2 E3 Hok Hwf Hcs Hips).
Qed.

Lemma data_block_ok img n inflate chroms ips (p : piece) s len :
  n = Nlen img -> placed img s (psec p) -> piece_ok p -> wf_vals len (snd p) ->
  chrom_size chroms (fst p) = Some len -> Nlen (snd p) <= ips ->
  data_block img n false inflate true chroms 0 ips (lf_of s) = Some (piece_recs p).
Proof.
  intros Hn Hpl. apply (data_block_c (fun b => b) false img n inflate chroms 0 ips p s len Hn Hpl).
  - left. split; reflexivity.
  - discriminate.
Qed.

(* ---------- all records, in file order ---------- *)
From Coq Require Import Sorting.Sorted.
Definition recs_of (outs : list chrom_out) : list frec :=
  flat_map (fun c => map (rec_of (co_id c)) (co_vals c)) outs.

Lemma concat_map_map {X Y} (f : X -> Y) (cs : list (list X)) : concat (map (map f) cs) = map f (concat cs).
Proof. induction cs as [|c cs IH]; cbn [map concat]; [reflexivity|]. now rewrite map_app, IH. Qed.

Lemma fm_cons {X Y} (f : X -> list Y) x l : flat_map f (x :: l) = f x ++ flat_map f l.
Proof. reflexivity. Qed.

Lemma pieces_recs ips outs : (0 < ips)%nat -> concat (map piece_recs (pieces_of ips outs)) = recs_of outs.
Proof.
  intros Hi. unfold pieces_of, recs_of. induction outs as [|c outs IH]; [reflexivity|].
  rewrite !fm_cons. rewrite map_app, concat_app. f_equal; [|exact IH].
  rewrite map_map. unfold piece_recs. cbn [fst snd].
  rewrite <- (chunks_concat ips (co_vals c) Hi) at 2. rewrite <- concat_map_map. reflexivity.
Qed.

Definition rec_lt (a b : frec) : Prop :=
  fr_chrom a < fr_chrom b \/ (fr_chrom a = fr_chrom b /\ fr_end a <= fr_start b).

Lemma sorted_adjacent (p : frec -> frec -> bool) (R : frec -> frec -> Prop) :
  (forall a b, R a b -> p a b = true) -> forall l, StronglySorted R l -> adjacent p l = true.
Proof.
  intros H. induction 1 as [|x l Hs IH Hf]; [reflexivity|]. destruct l as [|y l]; [reflexivity|].
  rewrite adjacent_cons, IH, andb_true_r. apply H. now inversion Hf.
Qed.

Lemma rec_lt_order a b : rec_lt a b -> rec_order true a b = true.
Proof.
  unfold rec_lt, rec_order. intros [H|[H1 H2]].
  - replace (fr_chrom a <? fr_chrom b) with true; [reflexivity|]. symmetry. now apply N.ltb_lt.
  - rewrite H1, N.eqb_refl. replace (fr_end a <=? fr_start b) with true; [now rewrite orb_true_r|]. symmetry. now apply N.leb_le.
Qed.

Lemma recs_sorted : forall outs, StronglySorted N.lt (map co_id outs) ->
  Forall (fun c => exists len, wf_vals len (co_vals c)) outs -> StronglySorted rec_lt (recs_of outs).
Proof.
  induction outs as [|c outs IH]; intros Hs Hwf; [constructor|].
  cbn [map] in Hs. inversion Hs as [|? ? Hs' Hlt]; subst. inversion Hwf as [|? ? [len Hl] Hwf']; subst.
  unfold recs_of. cbn [flat_map]. apply SSorted_app.
  - apply SSorted_map. eapply SSorted_impl; [|exact (wf_sorted len _ Hl)].
    intros a b Hab. right. cbn [rec_of fr_chrom fr_end fr_start]. split; [reflexivity|exact Hab].
  - apply IH; assumption.
  - intros a b Ha Hb. apply in_map_iff in Ha as [va [<- _]]. apply in_flat_map in Hb as [c' [Hc' Hb]].
    apply in_map_iff in Hb as [vb [<- _]]. left. cbn [rec_of fr_chrom].
    rewrite Forall_forall in Hlt. apply Hlt. now apply in_map.
Qed.

(* sections of at least one byte: no more sections than bytes *)
Lemma place_count : forall l off, Forall (fun s => 1 <= s_size s) (place off l) -> Nlen l <= Nlen (data_bytes l).
Proof.
  induction l as [|a l IH]; intros off H; [cbn; lia|]. cbn [place] in H. inversion H as [|? ? H1 H2]; subst.
  cbn [s_size] in H1. rewrite data_bytes_cons, Nlen_app, Nlen_cons. specialize (IH _ H2). lia.
Qed.
