(* Consequences of the pipeline invariant (Proofs/PipelineInv.v): FIFO order, splice order = the
   sequential function, progress, the blocking wait is never entered, and the link to the staging
   buffer's delivery theorem (C12) that justifies the abstraction used in Model/Pipeline.v. *)
From BT Require Import Base.Util Base.LE Base.Float Generated.Consts Model.RTree Model.BBIFile Model.BigWigWrite
  Model.Pipeline Proofs.PipelineInv.
From BT Require Model.TempBuf Proofs.TempBufInv Proofs.TempBufThms.

(* ---------------------------------------------------------------- FIFO order *)
Theorem pipeline_fifo_order : forall g pre Ss sched, g_fifo g = true ->
  let s := run g sched (init pre Ss) in
  length (p_chroms s) = length Ss /\
  forall k c, nth_error (p_chroms s) k = Some c ->
    c_out c ++ map fst (c_fifo c) ++ c_todo c = nth k Ss [] /\
    (c_wdone c = true -> c_out c = nth k Ss []) /\
    (terminal s = true -> c_out c = nth k Ss []).
Proof.
  intros g pre Ss sched Hg s. pose proof (inv_reachable pre Ss g sched Hg) as I. fold s in I.
  split; [apply (i_len _ _ _ I)|].
  intros k c Hn. pose proof (i_good _ _ _ I k c Hn) as G.
  split; [apply (cl_order _ _ (cg_local _ _ _ _ _ _ G))|].
  split; [apply (wdone_out _ _ _ _ _ _ G)|].
  intros Ht. apply (wdone_out _ _ _ _ _ _ G). apply (cg_spliced _ _ _ _ _ _ G).
  unfold terminal in Ht. destruct (sp_pc s) eqn:Hpc; try discriminate.
  destruct (i_done _ _ _ I Hpc) as [Hk _]. rewrite Hk. rewrite <- (i_len _ _ _ I). eapply nth_error_lt; eauto.
Qed.

(* ---------------------------------------------------------------- splice order *)
Lemma map_eq_nth {X Y} (f : X -> Y) (d : Y) : forall (l : list X) (m : list Y),
  length l = length m -> (forall k x, nth_error l k = Some x -> f x = nth k m d) -> map f l = m.
Proof.
  induction l as [|x r IH]; intros [|y m] Hlen H; cbn in Hlen; try discriminate; [reflexivity|].
  cbn [map]. f_equal.
  - apply (H 0%nat x). reflexivity.
  - apply IH; [lia|]. intros k z Hk. apply (H (S k) z). exact Hk.
Qed.

Theorem pipeline_file_prefix : forall g pre Ss sched, g_fifo g = true ->
  let s := run g sched (init pre Ss) in
  sp_file s = pre ++ data_bytes (concat (firstn (sp_k s) Ss)).
Proof. intros g pre Ss sched Hg s. apply (i_file _ _ _ (inv_reachable pre Ss g sched Hg)). Qed.

Theorem pipeline_splice : forall g pre Ss sched, g_fifo g = true ->
  let s := run g sched (init pre Ss) in
  terminal s = true ->
  sp_file s = seq_file pre Ss /\ final_index (Nlen pre) s = seq_index pre Ss.
Proof.
  intros g pre Ss sched Hg s Ht. pose proof (inv_reachable pre Ss g sched Hg) as I. fold s in I.
  unfold terminal in Ht. destruct (sp_pc s) eqn:Hpc; try discriminate.
  destruct (i_done _ _ _ I Hpc) as [Hk _]. split.
  - rewrite (i_file _ _ _ I), Hk, firstn_all. reflexivity.
  - unfold final_index, final_sections, seq_index. f_equal. f_equal.
    apply (map_eq_nth c_out []); [apply (i_len _ _ _ I)|].
    intros k c Hn. pose proof (i_good _ _ _ I k c Hn) as G.
    apply (wdone_out _ _ _ _ _ _ G). apply (cg_spliced _ _ _ _ _ _ G).
    rewrite Hk, <- (i_len _ _ _ I). eapply nth_error_lt; eauto.
Qed.

(* the statement of the property itself: two runs under any two configurations and schedules that
   both finish have written the same bytes and recorded the same index *)
Theorem pipeline_schedule_independent : forall g1 g2 pre Ss sched1 sched2,
  g_fifo g1 = true -> g_fifo g2 = true ->
  let s1 := run g1 sched1 (init pre Ss) in
  let s2 := run g2 sched2 (init pre Ss) in
  terminal s1 = true -> terminal s2 = true ->
  sp_file s1 = sp_file s2 /\ final_index (Nlen pre) s1 = final_index (Nlen pre) s2.
Proof.
  intros g1 g2 pre Ss sched1 sched2 H1 H2 s1 s2 T1 T2.
  destruct (pipeline_splice g1 pre Ss sched1 H1 T1) as [A1 B1].
  destruct (pipeline_splice g2 pre Ss sched2 H2 T2) as [A2 B2].
  fold s1 in A1, B1. fold s2 in A2, B2. split; congruence.
Qed.

(* every index entry addresses exactly its section's bytes in the file *)
Fixpoint slice_ok (file : bytes) (secs : list sect) (l : list sdata) : Prop :=
  match secs, l with
  | [], [] => True
  | s :: sr, d :: lr => firstn (length (sd_bytes d)) (skipn (N.to_nat (s_off s)) file) = sd_bytes d /\
                        s_size s = Nlen (sd_bytes d) /\ slice_ok file sr lr
  | _, _ => False
  end.

Lemma slice_ok_place : forall l (before after : bytes),
  slice_ok (before ++ data_bytes l ++ after) (place (Nlen before) l) l.
Proof.
  induction l as [|d r IH]; intros before after; cbn [place slice_ok]; [exact I|].
  cbn [s_off s_size]. split; [|split; [reflexivity|]].
  - unfold Nlen. rewrite Nat2N.id. rewrite skipn_app, skipn_all, Nat.sub_diag. cbn [skipn app].
    unfold data_bytes. cbn [flat_map]. rewrite <- app_assoc. rewrite firstn_app, firstn_all, Nat.sub_diag.
    cbn [firstn]. apply app_nil_r.
  - specialize (IH (before ++ sd_bytes d) after).
    replace (Nlen (before ++ sd_bytes d)) with (Nlen before + Nlen (sd_bytes d))%N in IH
      by (unfold Nlen; rewrite app_length; lia).
    unfold data_bytes in *. cbn [flat_map]. rewrite <- !app_assoc in *. exact IH.
Qed.

Theorem pipeline_offsets_address_sections : forall g pre Ss sched (rest : bytes), g_fifo g = true ->
  let s := run g sched (init pre Ss) in
  terminal s = true ->
  slice_ok (sp_file s ++ rest) (final_index (Nlen pre) s) (concat Ss).
Proof.
  intros g pre Ss sched rest Hg s Ht. destruct (pipeline_splice g pre Ss sched Hg Ht) as [Hf Hi].
  fold s in Hf, Hi. rewrite Hf, Hi. unfold seq_file, seq_index. rewrite <- app_assoc. apply slice_ok_place.
Qed.

(* ---------------------------------------------------------------- progress *)
Lemma chrom_task_enabled g s k c : g_fifo g = true ->
  (k < p_started s)%nat -> nth_error (p_chroms s) k = Some c -> c_wdone c = false ->
  (c_fifo c <> [] \/ c_open c = false) -> exists t s', step g t s = Some s'.
Proof.
  intros Hg Hk Hn Hw Hor. apply Nat.ltb_lt in Hk.
  destruct (c_fifo c) as [|[x b] q] eqn:Ef.
  - destruct Hor as [H|Ho]; [congruence|].
    exists (TWrite k). cbn [step]. unfold on_chrom. rewrite Hk, Hn, Hg. unfold write_step. rewrite Hw, Ef, Ho.
    eexists; reflexivity.
  - destruct b.
    + exists (TWrite k). cbn [step]. unfold on_chrom. rewrite Hk, Hn, Hg. unfold write_step. rewrite Hw, Ef.
      cbn [take_head]. eexists; reflexivity.
    + exists (TEnc k 0%nat). cbn [step]. unfold on_chrom. rewrite Hk, Hn. unfold enc_step. rewrite Ef.
      cbn [complete_at]. eexists; reflexivity.
Qed.

Lemma inv_progress pre Ss g s : g_fifo g = true -> (1 <= g_cap g)%nat -> (1 <= g_win g)%nat ->
  Inv pre Ss s -> terminal s = false -> exists t s', step g t s = Some s'.
Proof.
  intros Hg Hcap Hwin I Ht.
  pose proof (i_len _ _ _ I) as HL. pose proof (i_adv _ _ _ I) as HA. pose proof (i_started _ _ _ I) as HS.
  destruct (p_closed s) eqn:Hc.
  - (* the main thread is finished: the splice task or the write task it waits for can move *)
    pose proof (i_closed _ _ _ I Hc) as Hall.
    destruct (sp_pc s) eqn:Hpc.
    + exists TSplice. cbn [step]. unfold splice_step. rewrite Hpc, Hc.
      destruct (sp_k s <? p_started s)%nat; eexists; reflexivity.
    + pose proof (i_mid _ _ _ I (or_introl Hpc)) as Hmid.
      destruct (nth_error (p_chroms s) (sp_k s)) as [c|] eqn:En.
      2:{ apply nth_error_None in En. lia. }
      destruct (c_wdone c) eqn:Ew.
      * exists TSplice. cbn [step]. unfold splice_step. rewrite Hpc, En, Ew. eexists; reflexivity.
      * apply (chrom_task_enabled g s (sp_k s) c Hg Hmid En Ew). right.
        apply (cg_adv _ _ _ _ _ _ (i_good _ _ _ I _ c En)). lia.
    + pose proof (i_mid _ _ _ I (or_intror Hpc)) as Hmid.
      destruct (nth_error (p_chroms s) (sp_k s)) as [c|] eqn:En.
      2:{ apply nth_error_None in En. lia. }
      pose proof (i_await _ _ _ I Hpc c En) as Ew.
      exists TSplice. cbn [step]. unfold splice_step. rewrite Hpc, En, Ew. eexists; reflexivity.
    + unfold terminal in Ht. rewrite Hpc in Ht. discriminate.
  - (* the main thread is not finished *)
    destruct ((p_started s <? length (p_chroms s))%nat && (p_started s - p_advanced s <? g_win g)%nat) eqn:Hst.
    + exists TMain. cbn [step]. unfold main_step. rewrite Hc, Hst. eexists; reflexivity.
    + destruct (p_advanced s <? p_started s)%nat eqn:Had.
      * apply Nat.ltb_lt in Had.
        destruct (nth_error (p_chroms s) (p_advanced s)) as [c|] eqn:En.
        2:{ apply nth_error_None in En. lia. }
        destruct (c_todo c) as [|x r] eqn:Et.
        -- exists TMain. cbn [step]. unfold main_step. rewrite Hc, Hst.
           apply Nat.ltb_lt in Had. rewrite Had, En, Et. eexists; reflexivity.
        -- pose proof (i_good _ _ _ I _ c En) as G.
           pose proof (cg_notadv _ _ _ _ _ _ G (Nat.le_refl _)) as Ho.
           destruct (length (c_fifo c) <? g_cap g)%nat eqn:Hroom.
           ++ exists (TProd (p_advanced s)). cbn [step]. unfold on_chrom.
              apply Nat.ltb_lt in Had. rewrite Had, En. unfold prod_step. rewrite Ho, Et, Hroom. eexists; reflexivity.
           ++ apply Nat.ltb_ge in Hroom.
              assert (Hw : c_wdone c = false).
              { destruct (c_wdone c) eqn:E; [|reflexivity].
                destruct (cl_wdone _ _ (cg_local _ _ _ _ _ _ G) E) as [Hf _]. rewrite Hf in Hroom. cbn in Hroom. lia. }
              apply (chrom_task_enabled g s (p_advanced s) c Hg Had En Hw). left.
              intros Hf. rewrite Hf in Hroom. cbn in Hroom. lia.
      * apply Nat.ltb_ge in Had.
        exists TMain. cbn [step]. unfold main_step. rewrite Hc, Hst.
        assert (Had' : (p_advanced s <? p_started s)%nat = false) by (apply Nat.ltb_ge; exact Had).
        rewrite Had'.
        assert (Hall : (length (p_chroms s) <=? p_started s)%nat = true).
        { apply Nat.leb_le. apply andb_false_iff in Hst. destruct Hst as [H|H]; apply Nat.ltb_ge in H; lia. }
        rewrite Hall. eexists; reflexivity.
Qed.

Theorem pipeline_progress : forall g pre Ss sched, g_fifo g = true -> (1 <= g_cap g)%nat -> (1 <= g_win g)%nat ->
  let s := run g sched (init pre Ss) in
  terminal s = false -> exists t s', step g t s = Some s'.
Proof.
  intros g pre Ss sched Hg Hcap Hwin s Ht.
  apply (inv_progress pre Ss g s Hg Hcap Hwin); [apply inv_reachable; exact Hg|exact Ht].
Qed.

(* whenever the splice task reaches await_real_file the staging buffer is already closed: the
   blocking Condvar wait inside it is never entered (on a current-thread runtime it would stop the
   only thread that could close the buffer), and the call is enabled *)
Theorem pipeline_await_never_blocks : forall g pre Ss sched, g_fifo g = true ->
  let s := run g sched (init pre Ss) in
  sp_pc s = SAwaitFile ->
  (exists c, nth_error (p_chroms s) (sp_k s) = Some c /\ c_wdone c = true) /\
  exists s', step g TSplice s = Some s'.
Proof.
  intros g pre Ss sched Hg s Hpc. pose proof (inv_reachable pre Ss g sched Hg) as I. fold s in I.
  pose proof (i_mid _ _ _ I (or_intror Hpc)) as Hmid.
  pose proof (i_len _ _ _ I) as HL. pose proof (i_started _ _ _ I) as HS.
  destruct (nth_error (p_chroms s) (sp_k s)) as [c|] eqn:En.
  2:{ apply nth_error_None in En. lia. }
  pose proof (i_await _ _ _ I Hpc c En) as Ew. split.
  - exists c. auto.
  - cbn [step]. unfold splice_step. rewrite Hpc, En, Ew. eexists; reflexivity.
Qed.

(* ---------------------------------------------------------------- termination measure
   Every enabled transition strictly decreases a natural-number measure, so no run has more than
   [measure (init ..)] effective steps; together with progress: from every reachable state every
   maximal run ends in a terminal state (no livelock, no deadlock). *)
Definition pending (q : list (sdata * bool)) : nat := length (filter (fun x => negb (snd x)) q).
Definition cmeasure (c : chrom) : nat :=
  (4 * length (c_todo c) + 2 * length (c_fifo c) + pending (c_fifo c) + (if c_wdone c then 0 else 1))%nat.
Fixpoint sum_nat (l : list nat) : nat := match l with [] => 0%nat | x :: r => (x + sum_nat r)%nat end.
Definition pc_left (p : spc) : nat := match p with SRecv => 3 | SAwaitTask => 2 | SAwaitFile => 1 | SDone => 0 end%nat.
Definition measure (s : pst) : nat :=
  (sum_nat (map cmeasure (p_chroms s)) + (length (p_chroms s) - p_started s) + (length (p_chroms s) - p_advanced s) +
   (if p_closed s then 0 else 1) + (3 * (length (p_chroms s) - sp_k s) + pc_left (sp_pc s)))%nat.

Lemma sum_nat_set_nth f : forall (l : list chrom) k c c', nth_error l k = Some c ->
  (sum_nat (map f (set_nth k c' l)) + f c = sum_nat (map f l) + f c')%nat.
Proof.
  induction l as [|x r IH]; intros [|k] c c' Hn; cbn [nth_error] in Hn; try discriminate.
  - inversion Hn; subst x. cbn [set_nth map sum_nat]. lia.
  - cbn [set_nth map sum_nat]. specialize (IH k c c' Hn). lia.
Qed.

Lemma complete_at_pending : forall q i q', complete_at i q = Some q' ->
  length q' = length q /\ S (pending q') = pending q.
Proof.
  unfold pending. induction q as [|[s b] r IH]; intros [|i] q'; cbn [complete_at]; try discriminate.
  - destruct b; [discriminate|]. intros H. inversion H. cbn. auto.
  - destruct b; (destruct (complete_at i r) as [r'|] eqn:E; [|discriminate]; intros H; inversion H;
      destruct (IH i r' E) as [Hl Hp]; cbn; rewrite Hl; split; [reflexivity|]; cbn in Hp; lia).
Qed.

Lemma take_head_measure q x q' : take_head q = Some (x, q') -> length q = S (length q') /\ pending q = pending q'.
Proof.
  destruct q as [|[s b] r]; cbn; [discriminate|]. destruct b; [|discriminate]. intros H. inversion H. subst.
  unfold pending. cbn. auto.
Qed.

Lemma on_chrom_measure k f s s' :
  (forall c c', f c = Some c' -> (cmeasure c' < cmeasure c)%nat) ->
  on_chrom k f s = Some s' -> (measure s' < measure s)%nat.
Proof.
  intros Hf. unfold on_chrom. destruct (k <? p_started s)%nat; [|discriminate].
  destruct (nth_error (p_chroms s) k) as [c|] eqn:En; [|discriminate].
  destruct (f c) as [c'|] eqn:Ef; [|discriminate]. intros H. inversion H; subst s'; clear H.
  unfold measure. cbn [p_chroms p_started p_advanced p_closed sp_k sp_pc]. rewrite set_nth_length.
  pose proof (sum_nat_set_nth cmeasure _ k c c' En). pose proof (Hf c c' Ef). lia.
Qed.

Lemma step_measure g t s s' : g_fifo g = true -> step g t s = Some s' -> (measure s' < measure s)%nat.
Proof.
  intros Hg. destruct t as [|k|k i|k|]; cbn [step].
  - unfold main_step. destruct (p_closed s) eqn:Hc; [discriminate|].
    destruct ((p_started s <? length (p_chroms s))%nat && (p_started s - p_advanced s <? g_win g)%nat) eqn:Hst.
    + apply andb_prop in Hst. destruct Hst as [Hlt _]. apply Nat.ltb_lt in Hlt.
      intros H. inversion H; subst s'; clear H. unfold measure. cbn [p_chroms p_started p_advanced p_closed sp_k sp_pc]. rewrite Hc. lia.
    + destruct (p_advanced s <? p_started s)%nat.
      * destruct (nth_error (p_chroms s) (p_advanced s)) as [c|] eqn:En; [|discriminate].
        destruct (c_todo c) eqn:Et; [|discriminate]. intros H. inversion H; subst s'; clear H.
        unfold measure. cbn [p_chroms p_started p_advanced p_closed sp_k sp_pc]. rewrite set_nth_length, Hc.
        assert (Heq : cmeasure (close_sender c) = cmeasure c) by reflexivity.
        pose proof (sum_nat_set_nth cmeasure _ _ c (close_sender c) En). apply nth_error_lt in En. lia.
      * destruct (length (p_chroms s) <=? p_started s)%nat; [|discriminate].
        intros H. inversion H; subst s'; clear H. unfold measure. cbn [p_chroms p_started p_advanced p_closed sp_k sp_pc]. rewrite Hc. lia.
  - apply on_chrom_measure. intros c c'. unfold prod_step. destruct (c_open c); [|discriminate].
    destruct (c_todo c) eqn:Et; [discriminate|]. destruct (length (c_fifo c) <? g_cap g)%nat; [|discriminate].
    intros H. inversion H. unfold cmeasure, pending. cbn [c_todo c_fifo c_wdone]. rewrite Et, filter_app, !app_length. cbn [length filter snd negb]. lia.
  - apply on_chrom_measure. intros c c'. unfold enc_step.
    destruct (complete_at i (c_fifo c)) as [q|] eqn:E; [|discriminate]. intros H. inversion H.
    destruct (complete_at_pending _ _ _ E) as [Hl Hp]. unfold cmeasure. cbn [c_todo c_fifo c_wdone]. lia.
  - rewrite Hg. apply on_chrom_measure. intros c c'. unfold write_step. destruct (c_wdone c) eqn:Ew; [discriminate|].
    destruct (c_fifo c) as [|y q] eqn:Ef.
    + destruct (c_open c); [discriminate|]. intros H. inversion H. unfold cmeasure, pending. cbn [c_todo c_fifo c_wdone]. rewrite Ew, Ef. cbn [length filter]. lia.
    + destruct (take_head (y :: q)) as [[x q']|] eqn:E; [|discriminate]. intros H. inversion H.
      destruct (take_head_measure _ _ _ E) as [Hl Hp]. unfold cmeasure. cbn [c_todo c_fifo c_wdone]. rewrite Ew, Ef, Hl, Hp. lia.
  - unfold splice_step. destruct (sp_pc s) eqn:Hpc.
    + destruct (sp_k s <? p_started s)%nat.
      * intros H. inversion H; subst s'; clear H. unfold measure. cbn [p_chroms p_started p_advanced p_closed sp_k sp_pc]. rewrite Hpc. cbn. lia.
      * destruct (p_closed s); [|discriminate]. intros H. inversion H; subst s'; clear H.
        unfold measure. cbn [p_chroms p_started p_advanced p_closed sp_k sp_pc]. rewrite Hpc. cbn. lia.
    + destruct (nth_error (p_chroms s) (sp_k s)) as [c|]; [|discriminate]. destruct (c_wdone c); [|discriminate].
      intros H. inversion H; subst s'; clear H. unfold measure. cbn [p_chroms p_started p_advanced p_closed sp_k sp_pc]. rewrite Hpc. cbn. lia.
    + destruct (nth_error (p_chroms s) (sp_k s)) as [c|] eqn:En; [|discriminate]. destruct (c_wdone c); [|discriminate].
      intros H. inversion H; subst s'; clear H. unfold measure. cbn [p_chroms p_started p_advanced p_closed sp_k sp_pc]. rewrite Hpc.
      apply nth_error_lt in En. cbn. lia.
    + discriminate.
Qed.

Lemma run_app g a : forall b s, run g (a ++ b) s = run g b (run g a s).
Proof. induction a as [|t r IH]; intros b s; cbn [app run]; [reflexivity|apply IH]. Qed.

Lemma inv_completion pre Ss g : g_fifo g = true -> (1 <= g_cap g)%nat -> (1 <= g_win g)%nat ->
  forall n s, (measure s <= n)%nat -> Inv pre Ss s -> exists more, terminal (run g more s) = true.
Proof.
  intros Hg Hcap Hwin. induction n as [|n IH]; intros s Hm I.
  - destruct (terminal s) eqn:Ht; [exists []; exact Ht|].
    destruct (inv_progress pre Ss g s Hg Hcap Hwin I Ht) as [t [s' Hs]].
    pose proof (step_measure g t s s' Hg Hs). lia.
  - destruct (terminal s) eqn:Ht; [exists []; exact Ht|].
    destruct (inv_progress pre Ss g s Hg Hcap Hwin I Ht) as [t [s' Hs]].
    pose proof (step_measure g t s s' Hg Hs) as Hlt.
    destruct (IH s') as [more Hmore]; [lia|eapply inv_step; eauto|].
    exists (t :: more). cbn [run]. unfold step_or_stay. rewrite Hs. exact Hmore.
Qed.

(* from every reachable state the run can be completed: no schedule prefix leads into a state
   from which the pipeline cannot finish *)
Theorem pipeline_completion : forall g pre Ss sched, g_fifo g = true -> (1 <= g_cap g)%nat -> (1 <= g_win g)%nat ->
  exists more, terminal (run g (sched ++ more) (init pre Ss)) = true.
Proof.
  intros g pre Ss sched Hg Hcap Hwin.
  destruct (inv_completion pre Ss g Hg Hcap Hwin _ (run g sched (init pre Ss)) (Nat.le_refl _)
              (inv_reachable pre Ss g sched Hg)) as [more H].
  exists more. rewrite run_app. exact H.
Qed.

(* ---------------------------------------------------------------- the staging buffer contract
   Model/Pipeline.v lets await_real_file return d0 ++ (bytes of the sections written).  That is the
   delivery theorem of the staging-buffer machine (C12), for the consumer program the splice task
   runs (switch; await_real_file) and the one the converters' main loop runs (switch; any number of
   is_real_file_ready polls; await_real_file), for every schedule of the two threads and for every
   way the BufWriter in between cuts the section bytes into write() calls. *)
Import Model.TempBuf.
Lemma legal_polls n : legal true (repeat CReady n ++ [CAwait]) = true.
Proof. induction n as [|n IH]; cbn; [reflexivity|exact IH]. Qed.
Lemma consumes_polls n : consumes (CSwitch :: repeat CReady n ++ [CAwait]) = true.
Proof. unfold consumes. cbn. induction n as [|n IH]; cbn; [reflexivity|exact IH]. Qed.

Theorem buffer_contract : forall (d0 : bytes) (secs : list sdata) (ws : list bytes) (npolls : nat) sched,
  concat ws = data_bytes secs ->
  let b := TempBuf.run d0 sched (TempBuf.init (map PWrite ws) (CSwitch :: repeat CReady npolls ++ [CAwait])) in
  TempBuf.terminal b = true -> TempBuf.c_dest b = Some (d0 ++ data_bytes secs).
Proof.
  intros d0 secs ws npolls sched Hws b Ht.
  pose proof (TempBufThms.tempbuf_delivery d0 (map PWrite ws) (CSwitch :: repeat CReady npolls ++ [CAwait]) sched) as H.
  cbn [legal negb andb] in H. specialize (H (legal_polls npolls)). destruct H as [_ H].
  specialize (H (consumes_polls npolls) Ht). fold b in H. rewrite H.
  rewrite TempBufThms.written_writes, Hws. reflexivity.
Qed.

(* ---------------------------------------------------------------- the sequential bigWig model *)
Lemma concat_res_ok {X} : forall (l : list (res (list X))) d, concat_res l = Ok d ->
  exists Ss, Forall2 (fun r S => r = Ok S) l Ss /\ d = concat Ss.
Proof.
  induction l as [|r l IH]; intros d; cbn [concat_res fold_right].
  - intros H. inversion H. exists []. split; [constructor|reflexivity].
  - destruct r as [a| | |]; cbn [rbind]; try discriminate.
    fold (concat_res l). destruct (concat_res l) as [b| | |] eqn:E; cbn [rbind]; try discriminate.
    intros H. inversion H. destruct (IH b eq_refl) as [Ss [HF Hb]]. exists (a :: Ss). split.
    + constructor; [reflexivity|exact HF].
    + cbn [concat]. rewrite Hb. reflexivity.
Qed.

Lemma bw_pre_len : Nlen bw_pre = PRE_DATA.
Proof. vm_compute. reflexivity. Qed.

(* the data region and the section list of the sequential writer model (Model/BigWigWrite.v
   bw_collect, used by bw_write and bw_write_multipass: body = bw_pre ++ data_bytes data ++ ..,
   secs = place PRE_DATA data) are what every finishing run of the pipeline produces *)
Theorem pipeline_bw_data : forall fp o sizes input ids outs sum data,
  bw_collect fp o sizes input = Ok (ids, outs, sum, data) ->
  exists Ss,
    Forall2 (fun c S => data_sections (o_ips o) (co_id c) (co_vals c) = Ok S) outs Ss /\
    concat Ss = data /\
    forall g sched, g_fifo g = true ->
      let s := Pipeline.run g sched (Pipeline.init bw_pre Ss) in
      Pipeline.terminal s = true ->
      sp_file s = bw_pre ++ data_bytes data /\ final_index PRE_DATA s = place PRE_DATA data.
Proof.
  intros fp o sizes input ids outs sum data. unfold bw_collect.
  destruct input as [|i0 input]; [discriminate|].
  destruct (process_runs o sizes None [] (runs (i0 :: input))) as [[ids' outs']| | |]; cbn [rbind]; try discriminate.
  destruct (concat_res (map (fun c => data_sections (o_ips o) (co_id c) (co_vals c)) outs')) as [d| | |] eqn:E;
    cbn [rbind]; try discriminate.
  intros H. inversion H; subst ids' outs' d; clear H.
  destruct (concat_res_ok _ _ E) as [Ss [HF Hd]]. exists Ss. split; [|split].
  - clear -HF. remember (map (fun c => data_sections (o_ips o) (co_id c) (co_vals c)) outs) as l eqn:El.
    revert outs El. induction HF as [|r S l Ss Hr HF IH]; intros [|c outs] El; cbn [map] in El; try discriminate.
    + constructor.
    + inversion El. constructor; [congruence|]. apply IH. assumption.
  - symmetry. exact Hd.
  - intros g sched Hg Ht. destruct (pipeline_splice g bw_pre Ss sched Hg Ht) as [Hf Hi].
    rewrite bw_pre_len in Hi. rewrite Hf, Hi. unfold seq_file, seq_index. rewrite bw_pre_len, <- Hd. auto.
Qed.
