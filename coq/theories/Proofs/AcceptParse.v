(* C13, text level: what parse_u32 / parse_bed_line / parse_bedgraph_line accept. *)
From BT Require Import Base.Util Model.BBIFile Model.BigWigWrite Model.Accept.
Local Open Scope N_scope.

(* ---------- decimal u32 ---------- *)
Definition dec_val (acc : N) (l : list N) : N := fold_left (fun a b => a * 10 + (b - 48)) l acc.

Lemma digits_val_spec : forall l acc m,
  digits_val acc l = Some m <-> forallb is_digit l = true /\ m = dec_val acc l.
Proof.
  induction l as [|b r IH]; intros acc m; cbn [digits_val forallb dec_val fold_left].
  - split; [intros H; inversion H; auto|intros [_ ->]; reflexivity].
  - destruct (is_digit b); cbn [andb]; [apply IH|]. split; [discriminate|intros [H _]; discriminate].
Qed.

Lemma parse_u32_bound s n : parse_u32 s = Some n -> n < 2 ^ 32.
Proof.
  unfold parse_u32. destruct (match s with 43 :: r => r | _ => s end) as [|b body]; [discriminate|].
  destruct (digits_val 0 (b :: body)) as [m|]; [|discriminate].
  destruct (m <? 2 ^ 32) eqn:E; [|discriminate]. intros H. inversion H; subst. now apply N.ltb_lt.
Qed.

(* accepted: an optional '+', then a non-empty string of ASCII digits whose value is below 2^32 *)
Theorem parse_u32_spec s n :
  parse_u32 s = Some n <->
  exists body, (s = body \/ s = 43 :: body) /\ body <> [] /\ forallb is_digit body = true
               /\ n = dec_val 0 body /\ n < 2 ^ 32.
Proof.
  unfold parse_u32. split.
  - intros H. exists (match s with 43 :: r => r | _ => s end).
    set (body := match s with 43 :: r => r | _ => s end) in *.
    assert (Hs : s = body \/ s = 43 :: body).
    { subst body. destruct s as [|b r]; [now left|].
      destruct (N.eq_dec b 43) as [->|Hb]; [now right|]. left.
      destruct b as [|p]; [reflexivity|]. repeat (destruct p as [p|p|]; try reflexivity). congruence. }
    split; [exact Hs|]. destruct body as [|b r]; [discriminate|].
    destruct (digits_val 0 (b :: r)) as [m|] eqn:Ed; [|discriminate].
    destruct (m <? 2 ^ 32) eqn:Em; [|discriminate]. inversion H; subst m.
    apply digits_val_spec in Ed as [Hd Hv]. apply N.ltb_lt in Em.
    split; [discriminate|]. split; [exact Hd|]. split; [exact Hv|exact Em].
  - intros [body [Hs [Hne [Hd [Hv Hb]]]]].
    assert (Hbody : match s with 43 :: r => r | _ => s end = body).
    { destruct Hs as [->| ->]; [|reflexivity].
      destruct body as [|b r]; [reflexivity|]. cbn [forallb] in Hd. apply andb_true_iff in Hd as [Hb1 _].
      destruct b as [|p]; [reflexivity|]. repeat (destruct p as [p|p|]; try reflexivity). discriminate. }
    rewrite Hbody. destruct body as [|b r]; [congruence|].
    assert (Ed : digits_val 0 (b :: r) = Some n) by (apply digits_val_spec; split; assumption).
    rewrite Ed. apply N.ltb_lt in Hb. rewrite Hb. reflexivity.
Qed.

(* ---------- lines ---------- *)
(* a BED line is accepted exactly when, after trimming trailing white space, it has at least
   three TAB-separated fields and the second and third are decimal u32; the first is the
   chromosome whatever it contains; anything after the third is kept verbatim *)
Theorem parse_bed_line_spec line s e :
  snd (parse_bed_line line) = POk (s, e) <->
  exists chrom fs fe more, split_on TAB (trim_end line) = (chrom, fs :: fe :: more)
                           /\ parse_u32 fs = Some s /\ parse_u32 fe = Some e.
Proof.
  unfold parse_bed_line. destruct (split_on TAB (trim_end line)) as [chrom fields]. cbn [snd].
  split.
  - destruct fields as [|fs [|fe more]]; try discriminate.
    + destruct (parse_u32 fs); discriminate.
    + destruct (parse_u32 fs) as [s'|] eqn:E1; [|discriminate].
      destruct (parse_u32 fe) as [e'|] eqn:E2; [|discriminate].
      intros H. inversion H; subst. exists chrom, fs, fe, more. auto.
  - intros [chrom' [fs [fe [more [Hsp [H1 H2]]]]]]. inversion Hsp; subst. rewrite H1, H2. reflexivity.
Qed.
Theorem parse_bed_line_chrom line : fst (parse_bed_line line) = fst (split_on TAB (trim_end line)).
Proof. unfold parse_bed_line. destruct (split_on TAB (trim_end line)). reflexivity. Qed.

(* a bedGraph line: at least four fields, second and third decimal u32, the fourth a token the
   f32 parser accepts (parameter [fok]); further fields are ignored *)
Theorem parse_bedgraph_line_spec fok line s e :
  snd (parse_bedgraph_line fok line) = POk (s, e) <->
  exists chrom fs fe fv more, split_on TAB (trim_end line) = (chrom, fs :: fe :: fv :: more)
                              /\ parse_u32 fs = Some s /\ parse_u32 fe = Some e /\ fok fv = true.
Proof.
  unfold parse_bedgraph_line. destruct (split_on TAB (trim_end line)) as [chrom fields]. cbn [snd].
  split.
  - destruct fields as [|fs [|fe [|fv more]]]; try discriminate.
    + destruct (parse_u32 fs); discriminate.
    + destruct (parse_u32 fs); [|discriminate]. destruct (parse_u32 fe); discriminate.
    + destruct (parse_u32 fs) as [s'|] eqn:E1; [|discriminate].
      destruct (parse_u32 fe) as [e'|] eqn:E2; [|discriminate].
      destruct (fok fv) eqn:E3; [|discriminate].
      intros H. inversion H; subst. exists chrom, fs, fe, fv, more. auto.
  - intros [chrom' [fs [fe [fv [more [Hsp [H1 [H2 H3]]]]]]]]. inversion Hsp; subst. rewrite H1, H2, H3. reflexivity.
Qed.
Theorem parse_bedgraph_line_chrom fok line : fst (parse_bedgraph_line fok line) = fst (split_on TAB (trim_end line)).
Proof. unfold parse_bedgraph_line. destruct (split_on TAB (trim_end line)). reflexivity. Qed.

(* ---------- split: the pieces joined by the separator give the string back, and no piece
   contains the separator ---------- *)
Fixpoint join (sep : N) (first : list N) (more : list (list N)) : list N :=
  match more with [] => first | p :: r => first ++ sep :: join sep p r end.
Lemma frev_rev {X} (l : list X) : frev l = rev l.
Proof. unfold frev. symmetry. apply rev_alt. Qed.
Lemma split_aux_spec sep : forall l cur,
  join sep (fst (split_aux sep cur l)) (snd (split_aux sep cur l)) = rev cur ++ l
  /\ (forallb (fun b => negb (b =? sep)) cur = true ->
      Forall (fun p => forallb (fun b => negb (b =? sep)) p = true)
             (fst (split_aux sep cur l) :: snd (split_aux sep cur l))).
Proof.
  induction l as [|b r IH]; intros cur; cbn [split_aux]; rewrite ?frev_rev.
  - cbn [fst snd join]. split; [now rewrite app_nil_r|].
    intros H. constructor; [|constructor]. rewrite forallb_forall in *. intros x Hx. apply H. now apply in_rev.
  - destruct (b =? sep) eqn:E.
    + destruct (IH []) as [IH1 IH2]. destruct (split_aux sep [] r) as [f more]. cbn [fst snd join] in *.
      apply N.eqb_eq in E. subst b. split; [now rewrite IH1|].
      intros H. constructor; [|apply IH2; reflexivity].
      rewrite forallb_forall in *. intros x Hx. apply H. now apply in_rev.
    + destruct (IH (b :: cur)) as [IH1 IH2]. split.
      * rewrite IH1. cbn [rev]. now rewrite <- app_assoc.
      * intros H. apply IH2. cbn [forallb]. now rewrite E, H.
Qed.
Theorem split_on_spec sep l :
  join sep (fst (split_on sep l)) (snd (split_on sep l)) = l
  /\ Forall (fun p => forallb (fun b => negb (b =? sep)) p = true) (fst (split_on sep l) :: snd (split_on sep l)).
Proof. unfold split_on. destruct (split_aux_spec sep l []) as [H1 H2]. split; [exact H1|now apply H2]. Qed.

(* ---------- examples (non-vacuity, and the corner cases of str::parse::<u32>) ---------- *)
Definition bytes_of_digits (l : list N) : list N := map (fun d => d + 48) l.
Example ex_u32_max : parse_u32 (bytes_of_digits [4;2;9;4;9;6;7;2;9;5]) = Some 4294967295. Proof. vm_compute. reflexivity. Qed.
Example ex_u32_over : parse_u32 (bytes_of_digits [4;2;9;4;9;6;7;2;9;6]) = None. Proof. vm_compute. reflexivity. Qed.
Example ex_u32_plus : parse_u32 (43 :: bytes_of_digits [0;5]) = Some 5. Proof. vm_compute. reflexivity. Qed.
Example ex_u32_empty : parse_u32 [] = None. Proof. reflexivity. Qed.
Example ex_u32_plus_only : parse_u32 [43] = None. Proof. reflexivity. Qed.
Example ex_u32_minus : parse_u32 (45 :: bytes_of_digits [0]) = None. Proof. vm_compute. reflexivity. Qed.
Example ex_u32_dot : parse_u32 (bytes_of_digits [1] ++ [46] ++ bytes_of_digits [5]) = None. Proof. vm_compute. reflexivity. Qed.
(* "chr1\t5\t10\tx y\r\n" as BED, and as bedGraph with a value parser that refuses "x y" *)
Definition ex_line : list N := [99;104;114;49; 9; 53; 9; 49;48; 9; 120;32;121; 13; 10].
Example ex_bed_line : parse_bed_line ex_line = ([99;104;114;49], POk (5, 10)). Proof. vm_compute. reflexivity. Qed.
Example ex_bedgraph_line : parse_bedgraph_line (fun _ => false) ex_line = ([99;104;114;49], PErr E_INVALID_VALUE).
Proof. vm_compute. reflexivity. Qed.
Example ex_lines : lines_of [97;10;10;98] = [[97]; []; [98]]. Proof. vm_compute. reflexivity. Qed.
