(* Progress and completion of the second-pass machine (Model/PipelineZoom.v), final assembly included:
   when the sequential model can write the zoom region (write_zooms_two_pass returns Ok: no index
   build error), every reachable state that is not terminal has an enabled step, every step decreases
   a measure, and every schedule prefix can be completed.

   Wait-for chains: the assembly (main thread) waits for the splice task of level z_asm; a splice task at
   its receive waits for the main thread to advance its chromosome (it is handed over at ADVANCE) or to
   close the channel; at `data_write_future.await` it waits for a write task whose chromosome has been
   advanced, so whose sender is closed: the write task or the head encode task can move; the main thread
   waits for producers, a producer for its own lane's write task; write tasks wait for nothing but encode
   tasks (the staging buffer never blocks). *)
From BT Require Import Base.Util Model.RTree Model.BBIFile Model.BigWigWrite Model.Pipeline Model.PipelineZoom
  Proofs.PipelineInv Proofs.PipelineThms Proofs.PipelineLanes Proofs.PipelineLanesProgress Proofs.PipelineZoom.

(* ---------------------------------------------------------------- reading the invariant *)
Record zlane_ok (K : nat) (s : zst) (l : nat) : Prop := {
  zo_len : length (nth l (z_lanes s) []) = K;
  zo_adv : (z_advanced s <= z_started s)%nat;
  zo_started : (z_started s <= K)%nat;
  zo_closed : z_closed s = true -> z_advanced s = K;
  zo_chrom : forall k c, nth_error (nth l (z_lanes s) []) k = Some c ->
     (c_wdone c = true -> c_fifo c = [] /\ c_open c = false) /\
     (c_open c = false -> c_todo c = []) /\
     ((k < z_advanced s)%nat -> c_open c = false) /\
     ((z_advanced s <= k)%nat -> c_open c = true) }.

Lemma zgood_lane o ress pre Sss K s l : ZGood o ress pre Sss K s -> (l < length Sss)%nat -> zlane_ok K s l.
Proof.
  intros G Hl. pose proof (zg_inv _ _ _ _ _ _ G l Hl) as I.
  assert (HK : length (nth l (z_lanes s) []) = K).
  { apply (zw_lane_len K s l (zg_w _ _ _ _ _ _ G)). rewrite (zg_L _ _ _ _ _ _ G). exact Hl. }
  pose proof (i_len _ _ _ I) as HL. unfold zproj in HL. cbn [p_chroms] in HL. rewrite HK in HL.
  constructor.
  - exact HK.
  - apply (i_adv _ _ _ I).
  - rewrite HL. apply (i_started _ _ _ I).
  - rewrite HL. apply (i_closed _ _ _ I).
  - intros k c Hc. pose proof (i_good _ _ _ I k c Hc) as Gc.
    pose proof (cg_local _ _ _ _ _ _ Gc) as Lc.
    split; [apply (cl_wdone _ _ Lc)|]. split; [apply (cl_closed _ _ Lc)|].
    split; [apply (cg_adv _ _ _ _ _ _ Gc)|apply (cg_notadv _ _ _ _ _ _ Gc)].
Qed.

(* ---------------------------------------------------------------- enabled steps *)
Lemma zon_chrom_enabled s l k ln c f c' : (k < z_started s)%nat ->
  nth_error (z_lanes s) l = Some ln -> nth_error ln k = Some c -> f c = Some c' ->
  exists s', zon_chrom l k f s = Some s'.
Proof.
  intros Hk Hl Hc Hf. apply Nat.ltb_lt in Hk. unfold zon_chrom. rewrite Hk, Hl, Hc, Hf. eexists; reflexivity.
Qed.

Lemma zlane_task_enabled g o ress s l k ln c : g_fifo g = true -> (k < z_started s)%nat ->
  nth_error (z_lanes s) l = Some ln -> nth_error ln k = Some c -> c_wdone c = false ->
  (c_fifo c <> [] \/ c_open c = false) ->
  exists t s', zstep g o ress t s = Some s' /\ (t = ZWrite l k \/ t = ZEnc l k 0).
Proof.
  intros Hg Hk Hl Hc Hw Hor.
  destruct (c_fifo c) as [|[x b] q] eqn:Ef.
  - destruct Hor as [H|Ho]; [congruence|].
    destruct (zon_chrom_enabled s l k ln c (write_step (g_fifo g)) (mkc (c_todo c) (c_open c) [] (c_out c) true) Hk Hl Hc) as [s' Hs'].
    { rewrite Hg. unfold write_step. rewrite Hw, Ef, Ho. reflexivity. }
    exists (ZWrite l k), s'. auto.
  - destruct b.
    + destruct (zon_chrom_enabled s l k ln c (write_step (g_fifo g)) (mkc (c_todo c) (c_open c) q (c_out c ++ [x]) false) Hk Hl Hc) as [s' Hs'].
      { rewrite Hg. unfold write_step. rewrite Hw, Ef. reflexivity. }
      exists (ZWrite l k), s'. auto.
    + destruct (zon_chrom_enabled s l k ln c (enc_step 0) (mkc (c_todo c) (c_open c) ((x, true) :: q) (c_out c) (c_wdone c)) Hk Hl Hc) as [s' Hs'].
      { unfold enc_step. rewrite Ef. reflexivity. }
      exists (ZEnc l k 0), s'. auto.
Qed.

Lemma zlane_producer_not_stuck g o ress K s l k c : g_fifo g = true -> (1 <= g_cap g)%nat ->
  zlane_ok K s l -> (l < length (z_lanes s))%nat -> (k < z_started s)%nat ->
  nth_error (nth l (z_lanes s) []) k = Some c -> c_todo c <> [] ->
  (exists s', zstep g o ress (ZProd l k) s = Some s') \/
  (exists t s', zstep g o ress t s = Some s' /\ (t = ZWrite l k \/ t = ZEnc l k 0)).
Proof.
  intros Hg Hcap O Hl Hk Hc Ht.
  assert (Hln : nth_error (z_lanes s) l = Some (nth l (z_lanes s) [])) by (apply nth_error_nth'; exact Hl).
  destruct (zo_chrom _ _ _ O k c Hc) as [Hwd [Hcl _]].
  assert (Ho : c_open c = true). { destruct (c_open c) eqn:E; [reflexivity|]. exfalso. apply Ht. apply Hcl. reflexivity. }
  destruct (c_todo c) as [|x r] eqn:Et; [congruence|].
  destruct (length (c_fifo c) <? g_cap g)%nat eqn:Hroom.
  - left. cbn [zstep]. eapply zon_chrom_enabled; eauto. unfold prod_step. rewrite Ho, Et, Hroom. reflexivity.
  - right. apply Nat.ltb_ge in Hroom.
    assert (Hne : c_fifo c <> []). { intros E. rewrite E in Hroom. cbn in Hroom. lia. }
    assert (Hw : c_wdone c = false). { destruct (c_wdone c) eqn:E; [|reflexivity]. destruct (Hwd eq_refl). congruence. }
    eapply zlane_task_enabled; eauto.
Qed.

(* the sequential model writes every level: so does every prefix, and the index of the next level builds *)
Lemma two_pass_prefix_ok o pos a b zb hs : write_zooms_two_pass o pos (a ++ b) = Ok (zb, hs) ->
  exists x hx, write_zooms_two_pass o pos a = Ok (x, hx).
Proof.
  rewrite two_pass_app. destruct (write_zooms_two_pass o pos a) as [[x hx]| | |]; cbn [rbind]; try discriminate.
  intros _. eauto.
Qed.

Lemma zgood_progress g o ress pre Sss K s zb hs : g_fifo g = true -> (1 <= g_cap g)%nat -> (1 <= g_win g)%nat ->
  length ress = length Sss ->
  write_zooms_two_pass o (Nlen pre) (zlevels ress Sss) = Ok (zb, hs) ->
  ZGood o ress pre Sss K s -> zterminal s = false -> exists t s', zstep g o ress t s = Some s'.
Proof.
  intros Hg Hcap Hwin Hress Hseq G Ht.
  pose proof (zg_w _ _ _ _ _ _ G) as W. pose proof (zg_L _ _ _ _ _ _ G) as HL. pose proof (zw_some _ _ W) as H1.
  pose proof (zw_K K s W) as HK. pose proof (zw_sp _ _ W) as Hsp.
  assert (O : forall l, (l < length (z_lanes s))%nat -> zlane_ok K s l).
  { intros l Hl. apply (zgood_lane o ress pre Sss K s l G). rewrite <- HL. exact Hl. }
  pose proof (O 0%nat H1) as O0.
  assert (Hchrom : forall l k, (l < length (z_lanes s))%nat -> (k < z_started s)%nat ->
            exists c, nth_error (nth l (z_lanes s) []) k = Some c).
  { intros l k Hl Hk. destruct (nth_error (nth l (z_lanes s) []) k) as [c|] eqn:E; [eauto|].
    apply nth_error_None in E. rewrite (zo_len _ _ _ (O l Hl)) in E. pose proof (zo_started _ _ _ (O l Hl)). lia. }
  assert (Hnth : forall l, (l < length (z_lanes s))%nat -> nth_error (z_lanes s) l = Some (nth l (z_lanes s) [])).
  { intros l Hl. apply nth_error_nth'. exact Hl. }
  destruct (z_closed s) eqn:Hc.
  - (* the main thread is in the final assembly *)
    pose proof (zo_closed _ _ _ O0 Hc) as Hall. pose proof (zo_started _ _ _ O0) as Hst. pose proof (zo_adv _ _ _ O0) as Hadv.
    pose proof (zg_asm_le _ _ _ _ _ _ G) as Hle.
    assert (Hz : (z_asm s < length (z_lanes s))%nat).
    { unfold zterminal in Ht. rewrite Hc in Ht. cbn [andb] in Ht. apply Nat.eqb_neq in Ht. lia. }
    set (z := z_asm s) in *.
    assert (Hzs : (z < length Sss)%nat) by lia.
    destruct (nth_error (z_sp s) z) as [sp|] eqn:Esp.
    2:{ apply nth_error_None in Esp. exfalso. lia. }
    pose proof (zg_inv _ _ _ _ _ _ G z Hzs) as I.
    assert (Hp : zproj z s = mkp (nth z (z_lanes s) []) (z_started s) (z_advanced s) (z_closed s) (zs_k sp) (zs_pc sp) (zs_store sp)).
    { unfold zproj. rewrite (nth_error_nth_eq _ _ _ (mkzs 0 SRecv []) Esp). reflexivity. }
    destruct (zs_pc sp) eqn:Hpc.
    + exists (ZSplice z). cbn [zstep]. unfold zsplice_step. rewrite Esp, Hpc, Hc.
      destruct (zs_k sp <? z_advanced s)%nat; eexists; reflexivity.
    + assert (Hmid : (zs_k sp < z_started s)%nat).
      { pose proof (i_mid _ _ _ I) as Hm. rewrite Hp in Hm. cbn [sp_pc sp_k p_started] in Hm. apply Hm. left. reflexivity. }
      destruct (Hchrom z (zs_k sp) Hz Hmid) as [c Hcc].
      destruct (c_wdone c) eqn:Ew.
      * exists (ZSplice z). cbn [zstep]. unfold zsplice_step. rewrite Esp, Hpc, (Hnth z Hz), Hcc, Ew. eexists; reflexivity.
      * destruct (zo_chrom _ _ _ (O z Hz) _ c Hcc) as [_ [_ [Hadvc _]]].
        destruct (zlane_task_enabled g o ress s z (zs_k sp) _ c Hg Hmid (Hnth z Hz) Hcc Ew) as [t [s' [Hs _]]].
        { right. apply Hadvc. lia. }
        exists t, s'. exact Hs.
    + assert (Hmid : (zs_k sp < z_started s)%nat).
      { pose proof (i_mid _ _ _ I) as Hm. rewrite Hp in Hm. cbn [sp_pc sp_k p_started] in Hm. apply Hm. right. reflexivity. }
      destruct (Hchrom z (zs_k sp) Hz Hmid) as [c Hcc].
      assert (Ew : c_wdone c = true).
      { pose proof (i_await _ _ _ I) as Ha. rewrite Hp in Ha. cbn [sp_pc sp_k p_chroms] in Ha. apply (Ha eq_refl c Hcc). }
      exists (ZSplice z). cbn [zstep]. unfold zsplice_step. rewrite Esp, Hpc, (Hnth z Hz), Hcc, Ew. eexists; reflexivity.
    + (* the level's splice task has returned: assemble it *)
      exists ZMain. cbn [zstep]. unfold zmain_step. rewrite Hc. unfold zasm_step. fold z. rewrite Esp, (Hnth z Hz), Hpc. cbn [is_done].
      assert (Hpc' : sp_pc (zproj z s) = SDone) by (rewrite Hp; reflexivity).
      destruct (inv_done_out _ _ _ I Hpc') as [Hout Hstore]. rewrite Hp in Hout, Hstore. cbn [p_chroms sp_file app] in Hout, Hstore.
      rewrite Hout, Hstore.
      destruct (zg_asm _ _ _ _ _ _ G) as [b [Hb Hfile]]. fold z in Hb.
      set (lv := {| zl_res := nth z ress 0%N; zl_secs := concat (nth z Sss []) |}).
      assert (Hfirst : firstn (S z) (zlevels ress Sss) = firstn z (zlevels ress Sss) ++ [lv]).
      { apply firstn_S_nth_error. apply zlevels_nth; assumption. }
      assert (Hpos : Nlen (z_file s) = (Nlen pre + Nlen b)%N) by (rewrite Hfile; apply Nlen_app).
      rewrite <- (firstn_skipn (S z) (zlevels ress Sss)) in Hseq.
      destruct (two_pass_prefix_ok _ _ _ _ _ _ Hseq) as [x [hx Hx]].
      rewrite Hfirst, two_pass_app, Hb in Hx. cbn [rbind write_zooms_two_pass] in Hx. unfold lv in Hx. cbn [zl_secs zl_res] in Hx.
      rewrite <- Hpos in Hx.
      destruct (write_index (o_bs o) (o_ips o) (Nlen (z_file s) + Nlen (data_bytes (concat (nth z Sss []))))
                  (place (Nlen (z_file s)) (concat (nth z Sss [])))) as [[ix lvl]| | |]; cbn [rbind] in Hx; try discriminate.
      eexists; reflexivity.
  - (* the main thread is still in process_to_bbi *)
    pose proof (zo_adv _ _ _ O0) as Hadv. pose proof (zo_started _ _ _ O0) as Hst.
    destruct ((z_started s <? z_K s)%nat && (z_started s - z_advanced s <? g_win g)%nat) eqn:Hstart.
    + exists ZMain. cbn [zstep]. unfold zmain_step. rewrite Hc, Hstart. eexists; reflexivity.
    + destruct (z_advanced s <? z_started s)%nat eqn:Had.
      * destruct (forallb (todo_done (z_advanced s)) (z_lanes s)) eqn:Hall.
        -- exists ZMain. cbn [zstep]. unfold zmain_step. rewrite Hc, Hstart, Had, Hall. eexists; reflexivity.
        -- apply Nat.ltb_lt in Had.
           destruct (forallb_false _ _ Hall) as [ln [Hin Hf]].
           destruct (In_nth _ _ [] Hin) as [l [Hl Hnl]].
           unfold todo_done in Hf. rewrite <- Hnl in Hf.
           destruct (Hchrom l (z_advanced s) Hl Had) as [c Hcc]. rewrite Hcc in Hf.
           destruct (zlane_producer_not_stuck g o ress K s l (z_advanced s) c Hg Hcap (O l Hl) Hl Had Hcc) as [[s' Hs]|[t [s' [Hs _]]]].
           { destruct (c_todo c); [discriminate|discriminate]. }
           ++ exists (ZProd l (z_advanced s)), s'. exact Hs.
           ++ exists t, s'. exact Hs.
      * apply Nat.ltb_ge in Had. exists ZMain. cbn [zstep]. unfold zmain_step. rewrite Hc, Hstart.
        assert (Had' : (z_advanced s <? z_started s)%nat = false) by (apply Nat.ltb_ge; exact Had). rewrite Had'.
        assert (Hallst : (z_K s <=? z_started s)%nat = true).
        { apply Nat.leb_le. apply andb_false_iff in Hstart. destruct Hstart as [H|H]; apply Nat.ltb_ge in H; lia. }
        rewrite Hallst. eexists; reflexivity.
Qed.

(* ---------------------------------------------------------------- termination measure *)
Definition zsp_measure (K : nat) (sp : zsp) : nat := (3 * (K - zs_k sp) + pc_left (zs_pc sp))%nat.
Definition zmeasure (s : zst) : nat :=
  let K := z_K s in
  (lanes_sum (z_lanes s) + (K - z_started s) + (K - z_advanced s) + (if z_closed s then 0 else 1)
   + sum_nat (map (zsp_measure K) (z_sp s)) + (length (z_lanes s) - z_asm s))%nat.

Lemma z_K_set_nth s l k c' ln : nth_error (z_lanes s) l = Some ln ->
  length (nth 0 (set_nth l (set_nth k c' ln) (z_lanes s)) []) = z_K s.
Proof.
  intros Hl. unfold z_K. destruct l as [|l].
  - destruct (z_lanes s) as [|x r]; cbn in *; [discriminate|]. inversion Hl. rewrite set_nth_length. reflexivity.
  - destruct (z_lanes s) as [|x r]; cbn in *; [discriminate|]. reflexivity.
Qed.

Lemma zon_chrom_measure l k f s s' :
  (forall c c', f c = Some c' -> (cmeasure c' < cmeasure c)%nat) ->
  zon_chrom l k f s = Some s' -> (zmeasure s' < zmeasure s)%nat.
Proof.
  intros Hf. unfold zon_chrom. destruct (k <? z_started s)%nat; [|discriminate].
  destruct (nth_error (z_lanes s) l) as [ln|] eqn:El; [|discriminate].
  destruct (nth_error ln k) as [c|] eqn:Ec; [|discriminate].
  destruct (f c) as [c'|] eqn:Ef; [|discriminate]. intros H. inversion H; subst s'; clear H.
  unfold zmeasure. cbn [z_lanes z_started z_advanced z_closed z_sp z_asm]. unfold z_K at 1 2 3 4. cbn [z_lanes].
  rewrite (z_K_set_nth s l k c' ln El), set_nth_length.
  pose proof (sum_nat_set_nth_gen cmeasure ln k c c' Ec) as H1.
  pose proof (sum_nat_set_nth_gen (fun ln => sum_nat (map cmeasure ln)) (z_lanes s) l ln (set_nth k c' ln) El) as H2.
  cbn beta in H2. pose proof (Hf c c' Ef). unfold lanes_sum. fold (z_K s). lia.
Qed.

Lemma zstep_measure g o ress pre Sss K t s s' : g_fifo g = true -> ZGood o ress pre Sss K s ->
  zstep g o ress t s = Some s' -> (zmeasure s' < zmeasure s)%nat.
Proof.
  intros Hg G. pose proof (zg_w _ _ _ _ _ _ G) as W. pose proof (zw_K K s W) as HK. pose proof (zw_some _ _ W) as H1.
  pose proof (zg_L _ _ _ _ _ _ G) as HL.
  pose proof (zgood_lane o ress pre Sss K s 0 G ltac:(lia)) as O0.
  pose proof (zo_started _ _ _ O0) as HsK. pose proof (zo_adv _ _ _ O0) as Has.
  destruct t as [|l k|l k i|l k|l]; cbn [zstep].
  - unfold zmain_step. rewrite HK. destruct (z_closed s) eqn:Hc.
    + unfold zasm_step. destruct (nth_error (z_sp s) (z_asm s)) as [sp|]; [|discriminate].
      destruct (nth_error (z_lanes s) (z_asm s)) as [ln|] eqn:Eln; [|discriminate]. destruct (is_done (zs_pc sp)); [|discriminate].
      destruct (write_index _ _ _ _) as [[ix lv]| | |]; try discriminate.
      intros H. inversion H; subst s'; clear H. apply nth_error_lt in Eln.
      unfold zmeasure, z_K. cbn [z_lanes z_started z_advanced z_closed z_sp z_asm]. lia.
    + destruct ((z_started s <? K)%nat && (z_started s - z_advanced s <? g_win g)%nat) eqn:Hst.
      * apply andb_prop in Hst. destruct Hst as [Hlt _]. apply Nat.ltb_lt in Hlt.
        intros H. inversion H; subst s'; clear H. unfold zmeasure, z_K. cbn [z_lanes z_started z_advanced z_closed z_sp z_asm].
        fold (z_K s). rewrite HK, Hc. lia.
      * destruct (z_advanced s <? z_started s)%nat eqn:Had.
        -- apply Nat.ltb_lt in Had. destruct (forallb (todo_done (z_advanced s)) (z_lanes s)); [|discriminate].
           intros H. inversion H; subst s'; clear H. unfold zmeasure, z_K. cbn [z_lanes z_started z_advanced z_closed z_sp z_asm].
           rewrite lane_K_map_close, map_length, lanes_sum_close. fold (z_K s). rewrite HK, Hc. lia.
        -- destruct (K <=? z_started s)%nat; [|discriminate].
           intros H. inversion H; subst s'; clear H. unfold zmeasure, z_K. cbn [z_lanes z_started z_advanced z_closed z_sp z_asm].
           fold (z_K s). rewrite Hc. lia.
  - apply zon_chrom_measure. intros c c'. unfold prod_step. destruct (c_open c); [|discriminate].
    destruct (c_todo c) eqn:Et; [discriminate|]. destruct (length (c_fifo c) <? g_cap g)%nat; [|discriminate].
    intros H. inversion H. unfold cmeasure, pending. cbn [c_todo c_fifo c_wdone]. rewrite Et, filter_app, !app_length. cbn [length filter snd negb]. lia.
  - apply zon_chrom_measure. intros c c'. unfold enc_step.
    destruct (complete_at i (c_fifo c)) as [q|] eqn:E; [|discriminate]. intros H. inversion H.
    destruct (complete_at_pending _ _ _ E) as [Hl Hp]. unfold cmeasure. cbn [c_todo c_fifo c_wdone]. lia.
  - rewrite Hg. apply zon_chrom_measure. intros c c'. unfold write_step. destruct (c_wdone c) eqn:Ew; [discriminate|].
    destruct (c_fifo c) as [|y q] eqn:Ef.
    + destruct (c_open c); [discriminate|]. intros H. inversion H. unfold cmeasure, pending. cbn [c_todo c_fifo c_wdone]. rewrite Ew, Ef. cbn [length filter]. lia.
    + destruct (take_head (y :: q)) as [[x q']|] eqn:E; [|discriminate]. intros H. inversion H.
      destruct (take_head_measure _ _ _ E) as [Hl Hp]. unfold cmeasure. cbn [c_todo c_fifo c_wdone]. rewrite Ew, Ef, Hl, Hp. lia.
  - unfold zsplice_step. destruct (nth_error (z_sp s) l) as [sp|] eqn:Esp; [|discriminate].
    assert (Hl : (l < length Sss)%nat).
    { rewrite <- HL, <- (zw_sp _ _ W). eapply nth_error_lt; eauto. }
    pose proof (zg_inv _ _ _ _ _ _ G l Hl) as I.
    assert (Hp : zproj l s = mkp (nth l (z_lanes s) []) (z_started s) (z_advanced s) (z_closed s) (zs_k sp) (zs_pc sp) (zs_store sp)).
    { unfold zproj. rewrite (nth_error_nth_eq _ _ _ (mkzs 0 SRecv []) Esp). reflexivity. }
    assert (Hm : forall sp', (zsp_measure K sp' < zsp_measure K sp)%nat ->
              (zmeasure (mkz (z_lanes s) (z_started s) (z_advanced s) (z_closed s) (set_nth l sp' (z_sp s))
                             (z_asm s) (z_file s) (z_hdrs s)) < zmeasure s)%nat).
    { intros sp' Hlt. unfold zmeasure, z_K. cbn [z_lanes z_started z_advanced z_closed z_sp z_asm]. fold (z_K s). rewrite HK.
      pose proof (sum_nat_set_nth_gen (zsp_measure K) (z_sp s) l sp sp' Esp). lia. }
    destruct (zs_pc sp) eqn:Hpc.
    + destruct (zs_k sp <? z_advanced s)%nat.
      * intros H; inversion H; subst s'. apply Hm. unfold zsp_measure. cbn [zs_k zs_pc]. rewrite Hpc. cbn [pc_left]. lia.
      * destruct (z_closed s); [|discriminate]. intros H; inversion H; subst s'. apply Hm.
        unfold zsp_measure. cbn [zs_k zs_pc]. rewrite Hpc. cbn [pc_left]. lia.
    + destruct (match nth_error (z_lanes s) l with Some ln => nth_error ln (zs_k sp) | None => None end) as [c|]; [|discriminate].
      destruct (c_wdone c); [|discriminate]. intros H; inversion H; subst s'. apply Hm.
      unfold zsp_measure. cbn [zs_k zs_pc]. rewrite Hpc. cbn [pc_left]. lia.
    + destruct (match nth_error (z_lanes s) l with Some ln => nth_error ln (zs_k sp) | None => None end) as [c|]; [|discriminate].
      destruct (c_wdone c); [|discriminate]. intros H; inversion H; subst s'. apply Hm.
      assert (Hmid : (zs_k sp < z_started s)%nat).
      { pose proof (i_mid _ _ _ I) as Hmd. rewrite Hp in Hmd. cbn [sp_pc sp_k p_started] in Hmd. apply Hmd. right. reflexivity. }
      unfold zsp_measure. cbn [zs_k zs_pc]. rewrite Hpc. cbn [pc_left]. lia.
    + discriminate.
Qed.

Lemma zrun_app g o ress a : forall b s, zrun g o ress (a ++ b) s = zrun g o ress b (zrun g o ress a s).
Proof. induction a as [|t r IH]; intros b s; cbn [app zrun]; [reflexivity|apply IH]. Qed.

Lemma zgood_completion g o ress pre Sss K zb hs : g_fifo g = true -> (1 <= g_cap g)%nat -> (1 <= g_win g)%nat ->
  length ress = length Sss ->
  write_zooms_two_pass o (Nlen pre) (zlevels ress Sss) = Ok (zb, hs) ->
  forall n s, (zmeasure s <= n)%nat -> ZGood o ress pre Sss K s -> exists more, zterminal (zrun g o ress more s) = true.
Proof.
  intros Hg Hcap Hwin Hress Hseq. induction n as [|n IH]; intros s Hm G.
  - destruct (zterminal s) eqn:Ht; [exists []; exact Ht|].
    destruct (zgood_progress g o ress pre Sss K s zb hs Hg Hcap Hwin Hress Hseq G Ht) as [t [s' Hs]].
    pose proof (zstep_measure g o ress pre Sss K t s s' Hg G Hs). lia.
  - destruct (zterminal s) eqn:Ht; [exists []; exact Ht|].
    destruct (zgood_progress g o ress pre Sss K s zb hs Hg Hcap Hwin Hress Hseq G Ht) as [t [s' Hs]].
    pose proof (zstep_measure g o ress pre Sss K t s s' Hg G Hs) as Hlt.
    destruct (IH s') as [more Hmore]; [lia|eapply zgood_step; eauto|].
    exists (t :: more). cbn [zrun]. unfold zstep_or_stay. rewrite Hs. exact Hmore.
Qed.

(* ---------------------------------------------------------------- the statements used by Properties/C11.v *)
Theorem zoom_progress : forall g o ress pre Sss K sched zb hs, g_fifo g = true -> (1 <= g_cap g)%nat -> (1 <= g_win g)%nat ->
  length ress = length Sss -> (1 <= length Sss)%nat -> Forall (fun Ss => length Ss = K) Sss ->
  write_zooms_two_pass o (Nlen pre) (zlevels ress Sss) = Ok (zb, hs) ->
  let s := zrun g o ress sched (zinit pre Sss) in
  zterminal s = false -> exists t s', zstep g o ress t s = Some s'.
Proof.
  intros g o ress pre Sss K sched zb hs Hg Hcap Hwin Hress H1 F Hseq s Ht.
  apply (zgood_progress g o ress pre Sss K s zb hs Hg Hcap Hwin Hress Hseq); [|exact Ht].
  apply zgood_run; auto. apply zgood_init; assumption.
Qed.

Theorem zoom_completion : forall g o ress pre Sss K sched zb hs, g_fifo g = true -> (1 <= g_cap g)%nat -> (1 <= g_win g)%nat ->
  length ress = length Sss -> (1 <= length Sss)%nat -> Forall (fun Ss => length Ss = K) Sss ->
  write_zooms_two_pass o (Nlen pre) (zlevels ress Sss) = Ok (zb, hs) ->
  exists more, let s := zrun g o ress (sched ++ more) (zinit pre Sss) in
    zterminal s = true /\ z_file s = pre ++ zb /\ z_hdrs s = hs.
Proof.
  intros g o ress pre Sss K sched zb hs Hg Hcap Hwin Hress H1 F Hseq.
  destruct (zgood_completion g o ress pre Sss K zb hs Hg Hcap Hwin Hress Hseq _ (zrun g o ress sched (zinit pre Sss)) (Nat.le_refl _)) as [more H].
  - apply zgood_run; auto. apply zgood_init; assumption.
  - exists more. cbn zeta. rewrite zrun_app. split; [exact H|].
    rewrite <- zrun_app in H.
    destruct (zoom_assembly g o ress pre Sss K (sched ++ more) Hg Hress H1 F) as [_ Hfin].
    destruct (Hfin H) as [zbytes [Hz Hf]]. rewrite <- zrun_app. rewrite Hseq in Hz. inversion Hz. subst. auto.
Qed.
