(* C17 in IEEE arithmetic: the sum stats_for_bed_item accumulates (Proofs/BedStatsThms.v [sum_of]) is, for
   clipped values on a grid 2^G with  sum len*|val| < 2^53  grid units, the rational number
   sum_i len_i * val_i  that C17_sum_exact states for the non-rounding mode. *)
From Coq Require Import QArith Qpower.
From BT Require Import Base.Util Base.Float Model.RTree Model.BBIFile Model.BigWigWrite Model.BBIRead
  Model.BedStats Proofs.BedStatsThms Proofs.BedStatsFloat Proofs.BwSummary Proofs.C06FileFloat Proofs.FloatExact.
Local Open Scope Z_scope.

Lemma same_num_flQ a b : same_num a b -> fl_Q a == fl_Q b.
Proof.
  destruct a as [m1 e1| |s], b as [m2 e2| |t]; cbn [same_num]; try tauto; try reflexivity.
  intros H. cbn [fl_Q]. set (mn := Z.min e1 e2) in *.
  rewrite <- (scale_Q m1 e1 mn) by (unfold mn; lia). rewrite <- (scale_Q m2 e2 mn) by (unfold mn; lia).
  rewrite !Z.shiftl_mul_pow2 by (unfold mn; lia). rewrite H. reflexivity.
Qed.

Lemma sum_of_step fp cl : sum_of fp cl = fold_left (step_sum vlenN v_val fp) cl fzero.
Proof. reflexivity. Qed.

Theorem sum_ieee_on_grid E G cl : grid_ok_sum E G -> Forall (vgrid E G) cl -> gabs E G cl < P53 ->
  is_fin (sum_of ieee cl) = true /\ fl_Q (sum_of ieee cl) == sumQ cl /\
  same_num (sum_of ieee cl) (sum_of exact cl) /\ gval E G (sum_of ieee cl) (gsum E G cl).
Proof.
  intros Hok Hg B. destruct (fold_sum_ieee_exact vlenN v_val E G cl Hok Hg B) as (S1 & S2 & S3).
  rewrite <- !sum_of_step in *.
  assert (Hf : all_finite cl).
  { eapply Forall_impl; [|exact Hg]. intros v (F & _). destruct (v_val v); cbn [fin_ge] in F; try contradiction. reflexivity. }
  destruct (sum_exact cl Hf) as (_ & Q).
  split; [|split; [|split; [exact S3|exact S1]]].
  - destruct (gval_finite _ _ _ _ S1) as (m & e & -> & _). reflexivity.
  - rewrite (same_num_flQ _ _ S3). exact Q.
Qed.

(* clipping to a region keeps the values in the domain *)
Lemma clip_grid E G s e vals : Forall (vgrid E G) vals -> Forall (vgrid E G) (clip_filter s e vals).
Proof.
  intros H. unfold clip_filter. rewrite Forall_forall. intros c Hc. apply in_map_iff in Hc. destruct Hc as (v & <- & Hv).
  apply filter_In in Hv. rewrite Forall_forall in H. exact (H v (proj1 Hv)).
Qed.
Lemma clip_bounds E G s e vals : gabs E G (clip_filter s e vals) <= gabs E G vals.
Proof.
  unfold gabs, kabs, clip_filter. induction vals as [|v r IH]; [cbn [filter map zsum fold_right]; lia|]. cbn [filter].
  assert (Hn : 0 <= Z.of_N (vlenN v) * Z.abs (vk E G v)) by (apply Z.mul_nonneg_nonneg; lia).
  destruct (keep s e v); cbn [map zsum fold_right]; unfold zsum in *; cbn [fold_right]; [|lia].
  assert (Hk : vk E G (clip s e v) = vk E G v) by reflexivity. rewrite Hk.
  assert (Hl : Z.of_N (vlenN (clip s e v)) <= Z.of_N (vlenN v)) by (unfold vlenN, clip; cbn [v_start v_end]; lia).
  pose proof (Z.mul_le_mono_nonneg_r _ _ (Z.abs (vk E G v)) ltac:(lia) Hl). lia.
Qed.

(* the generator domain: for stored values in [in_exact_domain], every region's IEEE sum is the exact sum *)
Theorem sum_ieee_in_domain s e vals : in_exact_domain vals = true ->
  let cl := clip_filter s e vals in
  is_fin (sum_of ieee cl) = true /\ fl_Q (sum_of ieee cl) == sumQ cl /\ same_num (sum_of ieee cl) (sum_of exact cl).
Proof.
  intros H cl. destruct (in_exact_domain_hyps vals H) as (Hok & Hg & B1 & _).
  pose proof (clip_bounds dom_E dom_G s e vals) as Hb.
  destruct (sum_ieee_on_grid dom_E dom_G cl (proj2 (proj2 (grid_ok_modes _ _ Hok))) (clip_grid _ _ s e vals Hg) ltac:(unfold cl; lia))
    as (A & B & C & _).
  split; [exact A|]. split; [exact B|exact C].
Qed.

(* non-vacuity: 1.0 on [2,4) and -1.0 on [6,8) clipped to [3,7): sum 1*1.0 + 1*(-1.0) = 0; 3.25 on [0,5): 16.25 = 130/8 *)
Example sum_on_grid_example :
  let vals := [ {| v_start := 2; v_end := 4; v_bits := 1065353216 |}; {| v_start := 6; v_end := 8; v_bits := 3212836864 |} ]%N in
  in_exact_domain vals = true /\ gsum dom_E dom_G (clip_filter 3 7 vals) = 0 /\
  gk dom_E dom_G (sum_of ieee [ {| v_start := 0; v_end := 5; v_bits := 1078984704 |} ]%N) = 130.
Proof. cbv zeta. split; [vm_compute; reflexivity|]. split; vm_compute; reflexivity. Qed.
