(* BigBedWrite::write_pre: what is stored as the schema and as the header's field count.
   - a supplied schema is stored verbatim whenever anything is stored; the only refusal is a NUL
     byte; the call never panics or hangs (the parser is total);
   - the field count is the number of fields of the LAST declaration the parser returns (as u16),
     3 when the schema does not parse or declares nothing;
   - for the schema the tool generates from a BED line with n extra columns that number is 3 + n,
     for every n with 3 + n < 65536 (the field is a u16). *)
From BT Require Import Base.Util Generated.Consts Model.AutoSql Proofs.AutoSqlLex Proofs.AutoSqlTotal
  Proofs.AutoSqlGen Proofs.AutoSqlParseGen.
Local Open Scope nat_scope.

Definition has_nul (s : list N) : bool := existsb (N.eqb 0) s.

(* the count write_pre derives from a parse result *)
Definition count_of (r : res (list declaration)) : N :=
  match r with
  | Ok ds => match rev ds with d :: _ => N.of_nat (length (d_fields d)) | [] => AUTOSQL_FALLBACK_FIELD_COUNT end
  | _ => AUTOSQL_FALLBACK_FIELD_COUNT
  end.

Lemma parse_returns : forall s, (exists ds, parse s = Ok ds) \/ (exists c, parse s = Err c).
Proof. intro s. apply parser_total. apply Nat.le_refl. Qed.

Theorem write_pre_supplied : forall s,
  (has_nul s = true -> write_pre_schema (Some s) = Err E_NulInSchema) /\
  (has_nul s = false -> write_pre_schema (Some s) = Ok (s, (count_of (parse s) mod 65536)%N)).
Proof.
  intro s. unfold write_pre_schema, has_nul, count_of.
  destruct (parse_returns s) as [[ds E]|[c E]]; rewrite E.
  - destruct (rev ds) as [|d ?]; cbn [rbind]; split; intro H; rewrite H; reflexivity.
  - cbn [rbind]. split; intro H; rewrite H; reflexivity.
Qed.

(* stored verbatim: whatever is stored for a supplied schema is that schema *)
Theorem supplied_schema_verbatim : forall s stored fc,
  write_pre_schema (Some s) = Ok (stored, fc) -> stored = s /\ has_nul s = false /\ (fc < 65536)%N.
Proof.
  intros s stored fc H. destruct (write_pre_supplied s) as [H1 H2].
  destruct (has_nul s) eqn:E.
  - rewrite (H1 eq_refl) in H. discriminate H.
  - rewrite (H2 eq_refl) in H. inversion H; subst. split; [reflexivity|]. split; [reflexivity|].
    apply N.mod_lt. discriminate.
Qed.

(* and write_pre never panics or hangs on any schema *)
Theorem write_pre_total : forall o,
  (exists v, write_pre_schema o = Ok v) \/ write_pre_schema o = Err E_NulInSchema.
Proof.
  intros [s|].
  - destruct (write_pre_supplied s) as [H1 H2]. destruct (has_nul s).
    + right. apply H1. reflexivity.
    + left. eexists. apply H2. reflexivity.
  - left. eexists. vm_compute. reflexivity.
Qed.

(* ---- the generated schema has no NUL ---- *)
Lemma has_nul_app : forall a b, has_nul (a ++ b) = has_nul a || has_nul b.
Proof. intros a b. apply existsb_app. Qed.
Lemma has_nul_concat : forall ls, Forall (fun l => has_nul l = false) ls -> has_nul (concat ls) = false.
Proof.
  induction ls as [|l ls IH]; intro H; [reflexivity|]. inversion H; subst.
  cbn [concat]. rewrite has_nul_app, IH by assumption. rewrite H2. reflexivity.
Qed.
Lemma uint_bytes_no_nul : forall u, has_nul (uint_bytes u) = false.
Proof. induction u; cbn [uint_bytes]; try reflexivity; unfold has_nul in *; cbn [existsb]; rewrite IHu; reflexivity. Qed.
Lemma undoc_no_nul : forall i, has_nul (undoc_line i) = false.
Proof.
  intro i. unfold undoc_line, dec_digits. rewrite !has_nul_app, uint_bytes_no_nul. reflexivity.
Qed.
Lemma fields_no_nul : Forall (fun l => has_nul l = false) AUTOSQL_FIELDS.
Proof. repeat (constructor; [vm_compute; reflexivity|]). constructor. Qed.

Lemma generated_no_nul : forall n, has_nul (bed_autosql_n n) = false.
Proof.
  intro n. unfold bed_autosql_n. cbv zeta. rewrite !has_nul_app.
  rewrite (has_nul_concat (firstn _ _)) by (apply Forall_firstn', fields_no_nul).
  rewrite has_nul_concat
    by (apply Forall_forall; intros l Hl; apply in_map_iff in Hl; destruct Hl as [i [Hi _]]; subst l; apply undoc_no_nul).
  reflexivity.
Qed.

(* ---- the header's field count for the generated schema ---- *)
Theorem header_field_count_generated : forall n, (N.of_nat (3 + n) < 65536)%N ->
  write_pre_schema (Some (bed_autosql_n n)) = Ok (bed_autosql_n n, N.of_nat (3 + n)).
Proof.
  intros n Hn. destruct (write_pre_supplied (bed_autosql_n n)) as [_ H]. rewrite (H (generated_no_nul n)).
  destruct (parse_generated n) as [d [P [L _]]]. rewrite P. cbn [count_of rev app]. rewrite L.
  rewrite N.mod_small by exact Hn. reflexivity.
Qed.

(* the same through the tool: the rest of the first BED line is [cols] joined by tabs *)
Theorem header_field_count_tool : forall cols, Forall no_sep cols -> join_cols cols <> [] ->
  (N.of_nat (3 + length cols) < 65536)%N ->
  write_pre_schema (Some (bed_autosql (join_cols cols)))
  = Ok (bed_autosql (join_cols cols), N.of_nat (3 + length cols))
  /\ declared_fields (bed_autosql (join_cols cols)) = 3 + length cols.
Proof.
  intros cols H Hne Hn. split; [|apply generated_field_count_rest; assumption].
  unfold bed_autosql. rewrite extra_fields_join by assumption. apply header_field_count_generated, Hn.
Qed.

(* the library default *)
Theorem default_schema : write_pre_schema None = Ok (AUTOSQL_BED3, 3%N) /\ declared_fields AUTOSQL_BED3 = 3.
Proof. split; vm_compute; reflexivity. Qed.
