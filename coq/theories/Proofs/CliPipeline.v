(* C16: text in, text out.  Composition of the text-level round trips (CliTextRoundtrip.v) with the
   record-level round trips (CliQuery.v). *)
From BT Require Import Base.Util Generated.Consts Model.BBIFile Model.BigWigWrite Model.BBIRead Model.CliText
  Proofs.CliTextRoundtrip Proofs.CliQuery.
Local Open Scope N_scope.

(* BED -> bigBed -> BED: when the converter accepts a canonical text, the text it prints back is the input text *)
Theorem bed_pipeline_text szs items file ips asql : (0 < ips)%nat ->
  Forall canonical_size szs -> Forall canonical_bed items ->
  bed_to_bigbed asql (format_sizes szs) (format_bed_text items) = Ok file ->
  format_bed_text (bigbed_to_bed ips file None None None) = format_bed_text items.
Proof.
  intros Hi Hs Hb Hw. f_equal.
  eapply bed_roundtrip_records; [exact Hi|apply chrom_sizes_parse; exact Hs|apply bed_text_roundtrip; exact Hb|exact Hw].
Qed.

(* bedGraph: a record with its value text *)
Record bg_rec := { bg_chrom : list N; bg_start : N; bg_end : N; bg_text : list N }.
Definition format_bedgraph_text (l : list bg_rec) : list N :=
  flat_map (fun r => format_bedgraph_line (bg_chrom r) (bg_start r) (bg_end r) (bg_text r) ++ [NL]) l.
Definition canonical_bg (fparse : list N -> option N) (r : bg_rec) : Prop :=
  ~ In TAB (bg_chrom r) /\ ~ In NL (bg_chrom r) /\ bg_start r <= U32_MAX /\ bg_end r <= U32_MAX /\
  bg_text r <> [] /\ ~ In TAB (bg_text r) /\ ~ In NL (bg_text r) /\ trim_end (bg_text r) = bg_text r /\
  fparse (bg_text r) <> None.
Definition bg_value (fparse : list N -> option N) (r : bg_rec) : name * value :=
  (bg_chrom r, {| v_start := bg_start r; v_end := bg_end r;
                  v_bits := match fparse (bg_text r) with Some b => b | None => 0 end |}).

Lemma trim_end_nl' l : trim_end (l ++ [NL]) = trim_end l.
Proof. apply trim_end_nl. Qed.

Theorem bedgraph_text_parse fparse l : Forall (canonical_bg fparse) l ->
  mapM (parse_bedgraph fparse) (lines (format_bedgraph_text l)) = Ok (map (bg_value fparse) l).
Proof.
  induction 1 as [|r rs Hr _ IH]; [reflexivity|].
  destruct Hr as (Ht & Hn & Hs & He & Hne & Hvt & Hvn & Htr & Hf).
  unfold format_bedgraph_text. cbn [flat_map]. fold (format_bedgraph_text rs).
  rewrite <- app_assoc. cbn [app].
  rewrite lines_app_nl.
  2:{ unfold format_bedgraph_line. rewrite !in_app_iff. intros [H|[H|[H|[H|[H|[H|H]]]]]].
      - exact (Hn H).
      - destruct H as [H|[]]; discriminate H.
      - exact (print_dec_no_nl _ H).
      - destruct H as [H|[]]; discriminate H.
      - exact (print_dec_no_nl _ H).
      - destruct H as [H|[]]; discriminate H.
      - exact (Hvn H). }
  cbn [mapM map]. destruct (fparse (bg_text r)) as [bits|] eqn:Ef; [|contradiction].
  rewrite (bedgraph_line_roundtrip fparse (bg_chrom r) (bg_start r) (bg_end r) (bg_text r) bits) by assumption.
  cbn [rbind]. rewrite IH. unfold bg_value at 2. rewrite Ef. reflexivity.
Qed.

(* bedGraph -> bigWig -> bedGraph: when the converter accepts a canonical text without empty values, the records it
   returns are the input records, in order, with the bit patterns the float parser gave *)
Theorem bedgraph_pipeline_records fparse szs recs file ips : (0 < ips)%nat ->
  Forall canonical_size szs -> Forall (canonical_bg fparse) recs -> Forall (fun r => bg_start r < bg_end r) recs ->
  bedgraph_to_bigwig fparse (format_sizes szs) (format_bedgraph_text recs) = Ok file ->
  bigwig_to_bedgraph ips file None None None = map (bg_value fparse) recs.
Proof.
  intros Hi Hs Hb Hpos Hw.
  eapply bedgraph_roundtrip_records; [exact Hi|apply chrom_sizes_parse; exact Hs|apply bedgraph_text_parse; exact Hb|exact Hw|].
  apply Forall_map. eapply Forall_impl; [|exact Hpos]. intros r Hr. exact Hr.
Qed.

(* ---- examples: the hypotheses are satisfiable, on a two-chromosome text with overlapping BED entries ---- *)
Definition ex_sizes : list (name * N) := [([99;104;114;50], 1000); ([99;104;114;49], 4294967295)].   (* chr2 1000, chr1 2^32-1 *)
Definition ex_bed : list (list N * bed_entry) :=
  [ ([99;104;114;49], {| be_start := 0; be_end := 10; be_rest := [110;49;9;48;9;43] |});        (* chr1 0 10 n1 0 + *)
    ([99;104;114;49], {| be_start := 5; be_end := 20; be_rest := [110;50;9;53;9;45] |});
    ([99;104;114;49], {| be_start := 5; be_end := 8; be_rest := [] |});
    ([99;104;114;50], {| be_start := 7; be_end := 7; be_rest := [195;169] |}) ].                 (* chr2 7 7 é *)
Example ex_bed_accepted : exists file,
  bed_to_bigbed false (format_sizes ex_sizes) (format_bed_text ex_bed) = Ok file /\
  bigbed_to_bed 2 file None None None = ex_bed /\
  bigbed_to_bed 2 file (Some [99;104;114;49]) (Some 9) None = firstn 2 ex_bed.
Proof. eexists. split; [vm_compute; reflexivity|]. split; vm_compute; reflexivity. Qed.
Example ex_sizes_canonical : Forall canonical_size ex_sizes.
Proof. repeat constructor; cbn; try discriminate; try lia. Qed.
Example ex_bed_canonical : Forall canonical_bed ex_bed.
Proof.
  repeat (constructor; [unfold canonical_bed; cbn [fst snd be_start be_end be_rest]; repeat split;
                        try (vm_compute; reflexivity); try (unfold U32_MAX; lia);
                        try (intros H; cbn in H; intuition discriminate)|]).
  constructor.
Qed.
