(* C17: the statistics of one region (stats_of) over the values a range query returns. *)
From BT Require Import Base.Util Base.Float Model.RTree Model.BBIFile Model.BigWigWrite Model.BBIRead
  Model.BedStats Proofs.Chunks Proofs.BigWigQuery.
Local Open Scope N_scope.

(* the code's accumulation of sum, as a fold over exactly the given values *)
Definition sum_of (fp : fpmode) (cl : list value) : fl :=
  fold_left (fun a v => fadd64 fp a (fmul64 fp (f_of_N (vlen v)) (v_val v))) cl fzero.
Definition bases_of (cl : list value) : N := sumN (map vlen cl).

Lemma fold_sacc fp cl : forall a,
  let r := fold_left (sacc_step fp) cl a in
  a_bases r = a_bases a + sumN (map vlen cl) /\
  a_sum r = fold_left (fun x v => fadd64 fp x (fmul64 fp (f_of_N (vlen v)) (v_val v))) cl (a_sum a) /\
  a_min r = fold_left fmin (map v_val cl) (a_min a) /\
  a_max r = fold_left fmax (map v_val cl) (a_max a).
Proof.
  induction cl as [|v r IH]; intros a.
  - cbn [fold_left map sumN]. repeat split; lia.
  - cbn [fold_left map sumN]. destruct (IH (sacc_step fp a v)) as (Hb & Hs & Hmn & Hmx).
    cbv zeta. rewrite Hb, Hs, Hmn, Hmx. unfold sacc_step at 1 2 3 4. cbn [a_bases a_sum a_min a_max].
    repeat split; lia.
Qed.

(* what stats_of returns when it does not panic *)
Lemma stats_of_ok fp s e cl : existsb inverted cl = false -> s <= e ->
  exists st, stats_of fp s e cl = Ok st /\
    st_size st = e - s /\ st_bases st = bases_of cl /\ st_sum st = sum_of fp cl /\
    st_mean0 st = fdiv64 fp (sum_of fp cl) (f_of_N (e - s)) /\
    (bases_of cl = 0 -> st_mean st = FNaN /\ st_min st = FNaN /\ st_max st = FNaN) /\
    (bases_of cl <> 0 ->
       st_mean st = fdiv64 fp (sum_of fp cl) (f_of_N (bases_of cl)) /\
       st_min st = fold_left fmin (map v_val cl) f64_max /\
       st_max st = fold_left fmax (map v_val cl) f64_min).
Proof.
  intros Hinv Hse. unfold stats_of. rewrite Hinv.
  destruct (e <? s) eqn:E; [apply N.ltb_lt in E; lia|].
  destruct (fold_sacc fp cl sacc0) as (Hb & Hs & Hmn & Hmx). cbv zeta in Hb, Hs, Hmn, Hmx.
  cbn [sacc0 a_bases a_sum a_min a_max] in Hb, Hs, Hmn, Hmx. rewrite N.add_0_l in Hb.
  fold (bases_of cl) in Hb. fold (sum_of fp cl) in Hs.
  destruct (a_bases (fold_left (sacc_step fp) cl sacc0) =? 0) eqn:Eb.
  - apply N.eqb_eq in Eb. eexists. split; [reflexivity|]. cbn [st_size st_bases st_sum st_mean0 st_mean st_min st_max].
    rewrite Hs. rewrite Hb in Eb. repeat split; try congruence; intros; exfalso; congruence.
  - apply N.eqb_neq in Eb. eexists. split; [reflexivity|]. cbn [st_size st_bases st_sum st_mean0 st_mean st_min st_max].
    rewrite Hs, Hmn, Hmx. rewrite Hb in Eb |- *. repeat split; try congruence; intros; exfalso; congruence.
Qed.

(* the values a range query returns are never inverted *)
Lemma wf_starts_le_ends len vals : wf_vals len vals -> Forall (fun v => v_start v <= v_end v) vals.
Proof.
  induction vals as [|v r IH]; intros H; [constructor|].
  constructor; [exact (proj1 (wf_head _ _ _ H))|]. apply IH. eapply wf_tail; exact H.
Qed.

Lemma clip_not_inverted s e v : s <= e -> v_start v <= v_end v -> keep s e v = true -> inverted (clip s e v) = false.
Proof.
  intros Hse Hv Hk. unfold keep in Hk. apply andb_true_iff in Hk as [H1 H2].
  apply N.ltb_lt in H1, H2. unfold inverted, clip. cbn [v_start v_end]. apply N.ltb_ge. lia.
Qed.

Lemma clip_filter_not_inverted s e vals : s <= e -> Forall (fun v => v_start v <= v_end v) vals ->
  existsb inverted (clip_filter s e vals) = false.
Proof.
  intros Hse H. unfold clip_filter. induction H as [|v r Hv _ IH]; [reflexivity|].
  cbn [filter]. destruct (keep s e v) eqn:Hk; [|exact IH].
  cbn [map existsb]. rewrite (clip_not_inverted s e v Hse Hv Hk). exact IH.
Qed.

(* C17_stats: a file written from [vals] (accepted by the writer) in blocks of any size, queried through
   the index: the statistics are those of the stored values clipped to the region *)
Theorem stats_spec : forall fp len ips s e vals, (0 < ips)%nat -> wf_vals len vals -> s <= e ->
  let cl := clip_filter s e vals in
  exists st,
    stats_of fp s e (flat_map (clip_filter s e) (filter (chunk_hit s e) (chunks ips vals))) = Ok st /\
    st_size st = e - s /\ st_bases st = bases_of cl /\ st_sum st = sum_of fp cl /\
    st_mean0 st = fdiv64 fp (sum_of fp cl) (f_of_N (e - s)) /\
    (bases_of cl = 0 -> st_mean st = FNaN /\ st_min st = FNaN /\ st_max st = FNaN) /\
    (bases_of cl <> 0 ->
       st_mean st = fdiv64 fp (sum_of fp cl) (f_of_N (bases_of cl)) /\
       st_min st = fold_left fmin (map v_val cl) f64_max /\
       st_max st = fold_left fmax (map v_val cl) f64_min).
Proof.
  intros fp len ips s e vals Hi Hwf Hse. cbv zeta.
  rewrite (query_sections len ips s e vals Hi Hwf).
  apply stats_of_ok; [|exact Hse].
  apply clip_filter_not_inverted; [exact Hse|]. eapply wf_starts_le_ends; exact Hwf.
Qed.

(* a region that is not inverted is the only thing needed for the absence of a panic; an inverted one panics *)
Lemma stats_of_inverted_region fp s e cl : e < s -> stats_of fp s e cl = Panic.
Proof.
  intros H. unfold stats_of. destruct (existsb inverted cl); [reflexivity|].
  destruct (e <? s) eqn:E; [reflexivity|]. apply N.ltb_ge in E. lia.
Qed.

Example stats_example :
  let vals := [ {| v_start := 0; v_end := 4; v_bits := 1065353216 |};      (* 1.0 *)
                {| v_start := 6; v_end := 10; v_bits := 1077936128 |} ] in (* 3.0 *)
  wf_vals 20 vals /\
  match stats_of ieee 2 8 (flat_map (clip_filter 2 8) (filter (chunk_hit 2 8) (chunks 1 vals))) with
  | Ok st => (st_size st, st_bases st, bits_of_f64 (st_sum st), bits_of_f64 (st_mean0 st), bits_of_f64 (st_mean st),
              bits_of_f64 (st_min st), bits_of_f64 (st_max st))
             = (6, 4, bits_of_f64 (FFin 8 0), bits_of_f64 (fdiv64 ieee (FFin 8 0) (FFin 6 0)), bits_of_f64 (FFin 2 0),
                bits_of_f64 (FFin 1 0), bits_of_f64 (FFin 3 0))
  | _ => False
  end.
Proof. split; [repeat constructor; cbn; lia|vm_compute; reflexivity]. Qed.
