(* The token-level routines of the autoSql parser model (take_whitespace, peek/eat one, word,
   quoted string) equal fuel-free structural functions as soon as the fuel exceeds the number
   of characters left.  This is the termination argument of the three scanning loops: each
   turn that continues consumes one character of the finite iterator it walks (or moves the
   start cursor one character to the right). *)
From Coq Require Import String Ascii.
From BT Require Import Base.Util Generated.Consts Model.AutoSql.
Local Open Scope nat_scope.

(* ---- the model's keyword constants are what they say ---- *)
Definition bs (s : string) : list N := map N_of_ascii (list_ascii_of_string s).
Lemma keywords_spelled :
  K_lparen = bs "("
  /\ K_rparen = bs ")"
  /\ K_semi = bs ";"
  /\ K_lbrack = bs "["
  /\ K_rbrack = bs "]"
  /\ K_int = bs "int"
  /\ K_set = bs "set"
  /\ K_auto = bs "auto"
  /\ K_byte = bs "byte"
  /\ K_char = bs "char"
  /\ K_enum = bs "enum"
  /\ K_uint = bs "uint"
  /\ K_float = bs "float"
  /\ K_index = bs "index"
  /\ K_short = bs "short"
  /\ K_table = bs "table"
  /\ K_ubyte = bs "ubyte"
  /\ K_bigint = bs "bigint"
  /\ K_double = bs "double"
  /\ K_object = bs "object"
  /\ K_simple = bs "simple"
  /\ K_string = bs "string"
  /\ K_unique = bs "unique"
  /\ K_ushort = bs "ushort"
  /\ K_lstring = bs "lstring"
  /\ K_primary = bs "primary".
Proof. repeat split; reflexivity. Qed.

(* ---- structural descriptions ---- *)
Fixpoint drop_ws (l : list N) : list N :=
  match l with c :: r => if is_ws c then drop_ws r else l | [] => [] end.
Fixpoint span_nondelim (l : list N) : list N :=
  match l with c :: r => if is_word_delimiter c then [] else c :: span_nondelim r | [] => [] end.
(* a word is the first character, whatever it is, and then everything up to the next delimiter *)
Definition word_of (l : list N) : list N :=
  match l with [] => [] | c :: r => c :: span_nondelim r end.
(* after an opening quote: everything up to and including the next quote, or to the end *)
Fixpoint qspan (l : list N) : list N :=
  match l with [] => [] | c :: r => if (c =? 34)%N then [c] else c :: qspan r end.
Definition quoted_of (l : list N) : list N :=
  match l with c :: r => if (c =? 34)%N then c :: qspan r else [] | [] => [] end.

Definition after_ws (p : parser) : parser :=
  match rest p with
  | [] => mkP [] 0
  | c :: _ => if is_ws c then mkP (drop_ws (rest p)) 0 else p
  end.

(* ---- small list facts ---- *)
Lemma drop_ws_length : forall l, length (drop_ws l) <= length l.
Proof.
  induction l as [|c r IH]; cbn [drop_ws length]; [lia|].
  destruct (is_ws c); cbn [length]; lia.
Qed.
Lemma drop_ws_head : forall l, match drop_ws l with [] => True | c :: _ => is_ws c = false end.
Proof.
  induction l as [|c r IH]; cbn [drop_ws]; [exact I|].
  destruct (is_ws c) eqn:E; [exact IH|exact E].
Qed.
Lemma drop_ws_idem : forall l, drop_ws (drop_ws l) = drop_ws l.
Proof.
  intro l. pose proof (drop_ws_head l) as H. destruct (drop_ws l) as [|c r]; [reflexivity|].
  cbn [drop_ws]. rewrite H. reflexivity.
Qed.
Lemma rest_after_ws : forall p, rest (after_ws p) = drop_ws (rest p).
Proof.
  intros [l e]. unfold after_ws. cbn [rest]. destruct l as [|c r]; [reflexivity|].
  cbn [drop_ws]. destruct (is_ws c); reflexivity.
Qed.
Lemma ws_is_delim : forall c, is_ws c = true -> is_word_delimiter c = true.
Proof. intros c H. unfold is_word_delimiter. rewrite H. reflexivity. Qed.
Lemma span_nondelim_prefix : forall l, exists t, l = span_nondelim l ++ t.
Proof.
  induction l as [|c r [t IH]]; [exists []; reflexivity|].
  cbn [span_nondelim]. destruct (is_word_delimiter c).
  - exists (c :: r). reflexivity.
  - exists t. cbn [app]. rewrite <- IH. reflexivity.
Qed.
Lemma word_of_prefix : forall l, exists t, l = word_of l ++ t.
Proof.
  intros [|c r]; [exists []; reflexivity|]. destruct (span_nondelim_prefix r) as [t H].
  exists t. cbn [word_of app]. rewrite <- H. reflexivity.
Qed.
Lemma word_of_length : forall l, length (word_of l) <= length l.
Proof.
  intro l. destruct (word_of_prefix l) as [t H]. rewrite H at 2. rewrite app_length. lia.
Qed.
Lemma word_of_nil : forall l, word_of l = [] -> l = [].
Proof. intros [|c r] H; [reflexivity|discriminate H]. Qed.
Lemma qspan_prefix : forall l, exists t, l = qspan l ++ t.
Proof.
  induction l as [|c r [t IH]]; [exists []; reflexivity|].
  cbn [qspan]. destruct (c =? 34)%N.
  - exists r. reflexivity.
  - exists t. cbn [app]. rewrite <- IH. reflexivity.
Qed.
Lemma quoted_of_prefix : forall l, exists t, l = quoted_of l ++ t.
Proof.
  intros [|c r]; [exists []; reflexivity|]. cbn [quoted_of]. destruct (c =? 34)%N.
  - destruct (qspan_prefix r) as [t H]. exists t. cbn [app]. rewrite <- H. reflexivity.
  - exists (c :: r). reflexivity.
Qed.
Lemma quoted_of_length : forall l, length (quoted_of l) <= length l.
Proof.
  intro l. destruct (quoted_of_prefix l) as [t H]. rewrite H at 2. rewrite app_length. lia.
Qed.
Lemma firstn_app_exact : forall (a b : list N), firstn (length a) (a ++ b) = a.
Proof. intros a b. rewrite firstn_app, Nat.sub_diag, firstn_all. cbn [firstn]. apply app_nil_r. Qed.
Lemma skipn_app_exact : forall (a b : list N), skipn (length a) (a ++ b) = b.
Proof. intros a b. rewrite skipn_app, Nat.sub_diag, skipn_all. reflexivity. Qed.

(* ---- take_whitespace ---- *)
Lemma take_whitespace_spec : forall fuel p, length (rest p) < fuel ->
  take_whitespace fuel p = Ok (after_ws p).
Proof.
  induction fuel as [|f IH]; intros [l e] H; cbn [rest] in H; [exfalso; lia|].
  cbn [take_whitespace rest]. unfold after_ws. cbn [rest].
  destruct l as [|c r]; [reflexivity|].
  destruct (is_ws c) eqn:Ec; cbn [negb]; [|reflexivity].
  cbn [length] in H. cbn [drop_ws]. rewrite Ec.
  destruct r as [|c2 r2].
  - rewrite IH by (cbn [rest length]; lia). reflexivity.
  - rewrite IH by (cbn [rest length] in *; lia).
    unfold after_ws. cbn [rest drop_ws]. destruct (is_ws c2); reflexivity.
Qed.

(* ---- peek_one / eat_one ---- *)
Lemma take_exact : forall (w t : list N), take (mkP (w ++ t) (length w)) = Ok (w, mkP t 0).
Proof.
  intros w t. unfold take. cbn [elen rest].
  assert (Hle : (length w <=? length (w ++ t)) = true) by (apply Nat.leb_le; rewrite app_length; lia).
  rewrite Hle, firstn_app_exact, skipn_app_exact. reflexivity.
Qed.

Lemma peek_one_spec : forall fuel p, length (rest p) < fuel ->
  peek_one fuel p = Ok (firstn 1 (drop_ws (rest p)), mkP (drop_ws (rest p)) (length (firstn 1 (drop_ws (rest p))))).
Proof.
  intros fuel p H. unfold peek_one. rewrite take_whitespace_spec by exact H. cbn [rbind].
  rewrite rest_after_ws. destruct (drop_ws (rest p)) as [|c [|c2 r]]; try reflexivity.
Qed.
Lemma eat_one_spec : forall fuel p, length (rest p) < fuel ->
  eat_one fuel p = Ok (firstn 1 (drop_ws (rest p)), mkP (skipn 1 (drop_ws (rest p))) 0).
Proof.
  intros fuel p H. unfold eat_one. rewrite peek_one_spec by exact H. cbn [rbind].
  destruct (drop_ws (rest p)) as [|c r]; reflexivity.
Qed.

(* ---- peek_word / eat_word ---- *)
Lemma peek_word_loop_spec : forall l f ig pre c,
  is_ws c = false -> length l < f ->
  peek_word_loop f ig (pre ++ c :: l) 0 (length pre) (c :: l)
  = Ok (pre ++ c :: span_nondelim l, mkP (pre ++ c :: l) (length (pre ++ c :: span_nondelim l))).
Proof.
  induction l as [|c2 l2 IH]; intros f ig pre c Hc Hf; (destruct f as [|f]; [exfalso; cbn [length] in Hf; lia|]).
  - cbn [peek_word_loop span_nondelim]. rewrite Hc. cbn [negb].
    simpl (0 <=? _). cbn [andb]. rewrite Nat.leb_refl. rewrite Nat.sub_0_r. cbn [skipn].
    rewrite firstn_all. reflexivity.
  - cbn [peek_word_loop span_nondelim]. rewrite Hc. cbn [negb].
    assert (Hd : delim ig c2 = is_word_delimiter c2) by (unfold delim; destruct ig; reflexivity).
    rewrite Hd. destruct (is_word_delimiter c2) eqn:Ed.
    + simpl (0 <=? _). cbn [andb]. rewrite Nat.sub_0_r. cbn [skipn].
      assert (Hlen : S (length pre) = length (pre ++ [c])) by (rewrite app_length; cbn [length]; lia).
      assert (Hle : (S (length pre) <=? length (pre ++ c :: c2 :: l2)) = true)
        by (apply Nat.leb_le; rewrite app_length; cbn [length]; lia).
      rewrite Hle. rewrite Hlen.
      replace (pre ++ c :: c2 :: l2) with ((pre ++ [c]) ++ c2 :: l2) by (rewrite <- app_assoc; reflexivity).
      rewrite firstn_app_exact. reflexivity.
    + assert (Hw2 : is_ws c2 = false).
      { destruct (is_ws c2) eqn:E; [|reflexivity]. rewrite (ws_is_delim c2 E) in Ed. discriminate Ed. }
      replace (pre ++ c :: c2 :: l2) with ((pre ++ [c]) ++ c2 :: l2) by (rewrite <- app_assoc; reflexivity).
      replace (S (length pre)) with (length (pre ++ [c])) by (rewrite app_length; cbn [length]; lia).
      rewrite IH by (try exact Hw2; cbn [length] in Hf; lia).
      rewrite <- !app_assoc. reflexivity.
Qed.

Lemma peek_word_spec : forall fuel p, length (rest p) < fuel ->
  peek_word fuel p = Ok (word_of (drop_ws (rest p)), mkP (drop_ws (rest p)) (length (word_of (drop_ws (rest p))))).
Proof.
  intros fuel p H. unfold peek_word, peek_word_internal. rewrite take_whitespace_spec by exact H.
  cbn [rbind]. rewrite rest_after_ws.
  pose proof (drop_ws_head (rest p)) as Hh. pose proof (drop_ws_length (rest p)) as Hl.
  destruct (drop_ws (rest p)) as [|c l].
  - destruct fuel as [|f]; [exfalso; lia|]. reflexivity.
  - cbn [word_of]. cbn [length] in Hl.
    exact (peek_word_loop_spec l fuel false [] c Hh ltac:(lia)).
Qed.

Lemma eat_word_spec : forall fuel p, length (rest p) < fuel ->
  eat_word fuel p = Ok (word_of (drop_ws (rest p)),
                        mkP (skipn (length (word_of (drop_ws (rest p)))) (drop_ws (rest p))) 0).
Proof.
  intros fuel p H. unfold eat_word. rewrite peek_word_spec by exact H. cbn [rbind].
  destruct (word_of_prefix (drop_ws (rest p))) as [t Ht].
  remember (drop_ws (rest p)) as r eqn:Hr. remember (word_of r) as w eqn:Hw. clear Hr Hw.
  rewrite Ht, take_exact, skipn_app_exact. reflexivity.
Qed.

(* ---- peek_quoted_string / eat_quoted_string ---- *)
Lemma slice_exact : forall (w t : list N), slice (mkP (w ++ t) (length w)) = Ok w.
Proof.
  intros w t. unfold slice. cbn [elen rest].
  assert (Hle : (length w <=? length (w ++ t)) = true) by (apply Nat.leb_le; rewrite app_length; lia).
  rewrite Hle, firstn_app_exact. reflexivity.
Qed.
Lemma slice_all : forall (l : list N), slice (mkP l (length l)) = Ok l.
Proof. intro l. unfold slice. cbn [elen rest]. rewrite Nat.leb_refl, firstn_all. reflexivity. Qed.
Lemma quoted_loop_spec : forall l f pre,
  length l < f ->
  quoted_loop f (pre ++ l) (length pre) l
  = Ok (pre ++ qspan l, mkP (pre ++ l) (length (pre ++ qspan l))).
Proof.
  induction l as [|c l2 IH]; intros f pre Hf; (destruct f as [|f]; [exfalso; cbn [length] in Hf; lia|]).
  - cbn [quoted_loop qspan]. rewrite slice_all. reflexivity.
  - cbn [quoted_loop qspan]. destruct (c =? 34)%N eqn:Ec; cbn [negb].
    + assert (Hlen : S (length pre) = length (pre ++ [c])) by (rewrite app_length; cbn [length]; lia).
      replace (pre ++ c :: l2) with ((pre ++ [c]) ++ l2) by (rewrite <- app_assoc; reflexivity).
      destruct l2 as [|c3 l3].
      * rewrite slice_all. cbn [rbind]. rewrite app_nil_r. reflexivity.
      * rewrite Hlen, slice_exact. reflexivity.
    + replace (pre ++ c :: l2) with ((pre ++ [c]) ++ l2) by (rewrite <- app_assoc; reflexivity).
      replace (S (length pre)) with (length (pre ++ [c])) by (rewrite app_length; cbn [length]; lia).
      rewrite IH by (cbn [length] in Hf; lia). rewrite <- !app_assoc. reflexivity.
Qed.

Lemma peek_quoted_string_spec : forall fuel p, length (rest p) < fuel ->
  peek_quoted_string fuel p
  = Ok (quoted_of (drop_ws (rest p)), mkP (drop_ws (rest p)) (length (quoted_of (drop_ws (rest p))))).
Proof.
  intros fuel p H. unfold peek_quoted_string. rewrite take_whitespace_spec by exact H.
  cbn [rbind]. rewrite rest_after_ws. pose proof (drop_ws_length (rest p)) as Hl.
  destruct (drop_ws (rest p)) as [|c l]; [reflexivity|].
  cbn [quoted_of]. destruct (c =? 34)%N; [|reflexivity].
  cbn [length] in Hl. exact (quoted_loop_spec l fuel [c] ltac:(lia)).
Qed.

Lemma eat_quoted_string_spec : forall fuel p, length (rest p) < fuel ->
  eat_quoted_string fuel p
  = Ok (quoted_of (drop_ws (rest p)),
        mkP (skipn (length (quoted_of (drop_ws (rest p)))) (drop_ws (rest p))) 0).
Proof.
  intros fuel p H. unfold eat_quoted_string. rewrite peek_quoted_string_spec by exact H. cbn [rbind].
  destruct (quoted_of_prefix (drop_ws (rest p))) as [t Ht].
  remember (drop_ws (rest p)) as r eqn:Hr. remember (quoted_of r) as w eqn:Hw. clear Hr Hw.
  rewrite Ht, take_exact, skipn_app_exact. reflexivity.
Qed.
