(* C05, byte level: the fixed-width codecs round-trip, and read_node on an image that holds a
   node's bytes at some offset returns that node.  Everything here is little-endian
   (big = false), which is what the writer emits. *)
From BT Require Import Base.Util Base.LE Generated.Consts Model.RTree.
Local Open Scope N_scope.

(* ---------- small list facts ---------- *)
Lemma skipn_exact {X} (A r : list X) : skipn (length A) (A ++ r) = r.
Proof. induction A as [|a A IH]; cbn [length skipn app]; auto. Qed.
Lemma firstn_exact {X} (A r : list X) : firstn (length A) (A ++ r) = A.
Proof. induction A as [|a A IH]; cbn [length firstn app]; [reflexivity|]. now rewrite IH. Qed.
Lemma firstn_exact' {X} (A : list X) : firstn (length A) A = A.
Proof. rewrite <- (app_nil_r A) at 2. apply firstn_exact. Qed.

Lemma Nlen_app {X} (a b : list X) : Nlen (a ++ b) = Nlen a + Nlen b.
Proof. unfold Nlen. rewrite app_length. lia. Qed.
Lemma Nlen_cons {X} (a : X) (l : list X) : Nlen (a :: l) = 1 + Nlen l.
Proof. unfold Nlen. cbn [length]. lia. Qed.
Lemma Nlen_nil {X} : Nlen (@nil X) = 0.
Proof. reflexivity. Qed.

(* ---------- enc_le / dec_le ---------- *)
Lemma enc_le_length w : forall x, length (enc_le w x) = w.
Proof. induction w as [|w IH]; intros x; cbn [enc_le length]; [reflexivity|]. now rewrite IH. Qed.

Lemma dec_enc_le_mod w : forall x, dec_le (enc_le w x) = x mod 256 ^ N.of_nat w.
Proof.
  induction w as [|w IH]; intros x.
  - cbn [enc_le dec_le]. change (256 ^ N.of_nat 0) with 1. now rewrite N.mod_1_r.
  - cbn [enc_le dec_le]. rewrite IH. rewrite Nat2N.inj_succ, N.pow_succ_r'.
    rewrite N.mod_mul_r; [reflexivity|lia|]. apply N.pow_nonzero. lia.
Qed.
Lemma dec_enc_le w x : x < 256 ^ N.of_nat w -> dec_le (enc_le w x) = x.
Proof. intros H. rewrite dec_enc_le_mod. now apply N.mod_small. Qed.

(* the unfolded forms that appear after computing firstn/skipn on encoded items *)
Lemma dec_le2 x : x < 65536 -> dec_le [x mod 256; x / 256 mod 256] = x.
Proof. intros H. apply (dec_enc_le 2 x). exact H. Qed.
Lemma dec_le4 x : x < 4294967296 ->
  dec_le [x mod 256; x / 256 mod 256; x / 256 / 256 mod 256; x / 256 / 256 / 256 mod 256] = x.
Proof. intros H. apply (dec_enc_le 4 x). exact H. Qed.
Lemma dec_le8 x : x < 18446744073709551616 ->
  dec_le [x mod 256; x / 256 mod 256; x / 256 / 256 mod 256; x / 256 / 256 / 256 mod 256;
          x / 256 / 256 / 256 / 256 mod 256; x / 256 / 256 / 256 / 256 / 256 mod 256;
          x / 256 / 256 / 256 / 256 / 256 / 256 mod 256;
          x / 256 / 256 / 256 / 256 / 256 / 256 / 256 mod 256] = x.
Proof. intros H. apply (dec_enc_le 8 x). exact H. Qed.

(* ---------- "the image holds x at offset off" ---------- *)
Definition has_at (img : list N) (off : N) (x : list N) : Prop :=
  exists A B, img = A ++ x ++ B /\ length A = N.to_nat off.

Lemma has_at_app img off x y : has_at img off (x ++ y) -> has_at img off x /\ has_at img (off + Nlen x) y.
Proof.
  intros [A [B [E L]]]. split.
  - exists A, (y ++ B). split; [|exact L]. rewrite E. now rewrite <- app_assoc.
  - exists (A ++ x), B. split.
    + rewrite E. now rewrite <- !app_assoc.
    + rewrite app_length, L. unfold Nlen. lia.
Qed.
Lemma has_at_prefix img off x y : has_at img off (x ++ y) -> has_at img off x.
Proof. intros H. now apply has_at_app in H. Qed.

Lemma has_at_slice img off x : has_at img off x -> slice img off (length x) = Some x.
Proof.
  intros [A [B [E L]]]. unfold slice. rewrite E, <- L, skipn_exact, firstn_exact.
  now rewrite Nat.eqb_refl.
Qed.
Lemma has_at_slice_w img off x w : has_at img off x -> w = length x -> slice img off w = Some x.
Proof. intros H ->. now apply has_at_slice. Qed.

Lemma has_at_mid pre x post : has_at (pre ++ x ++ post) (Nlen pre) x.
Proof. exists pre, post. split; [reflexivity|]. unfold Nlen. now rewrite Nat2N.id. Qed.

(* ---------- value ranges ---------- *)
Definition U16 : N := 65536.
Definition U32 : N := 4294967296.
Definition U64 : N := 18446744073709551616.

Definition span_ok (s : span) : Prop := sc s < U32 /\ sb s < U32 /\ ec s < U32 /\ eb s < U32.
Definition sect_ok (s : sect) : Prop :=
  s_chrom s < U32 /\ s_start s < U32 /\ s_end s < U32 /\ s_off s < U64 /\ s_size s < U64.

Definition li_of (s : sect) : leaf_item :=
  {| li_span := sect_span s; li_off := s_off s; li_size := s_size s |}.

(* ---------- node header ---------- *)
Definition node_hdr (isleaf n : N) : list N := [isleaf; 0; n mod 256; n / 256 mod 256].

Lemma leaf_bytes_hdr l : leaf_bytes l = node_hdr 1 (Nlen l) ++ flat_map leaf_item_bytes l.
Proof. reflexivity. Qed.

Definition inner_bytes (items : list (span * N)) : list N :=
  node_hdr 0 (Nlen items) ++ flat_map (fun it => inner_item_bytes (fst it) (snd it)) items.

Lemma leaf_item_length s : length (leaf_item_bytes s) = 32%nat.
Proof. unfold leaf_item_bytes, u32, u64. rewrite !app_length, !enc_le_length. reflexivity. Qed.
Lemma inner_item_length sp o : length (inner_item_bytes sp o) = 24%nat.
Proof. unfold inner_item_bytes, u32, u64. rewrite !app_length, !enc_le_length. reflexivity. Qed.

Lemma flat_map_length_const {X} (f : X -> list N) k l :
  (forall x, length (f x) = k) -> length (flat_map f l) = (length l * k)%nat.
Proof.
  intros H. induction l as [|a l IH]; cbn [flat_map length]; [reflexivity|].
  rewrite app_length, H, IH. lia.
Qed.
Lemma leaf_items_length l : length (flat_map leaf_item_bytes l) = (length l * 32)%nat.
Proof. apply flat_map_length_const. apply leaf_item_length. Qed.
Lemma inner_items_length (items : list (span * N)) :
  length (flat_map (fun it => inner_item_bytes (fst it) (snd it)) items) = (length items * 24)%nat.
Proof. apply flat_map_length_const. intros x. apply inner_item_length. Qed.

Lemma leaf_bytes_Nlen l : Nlen (leaf_bytes l) = 4 + 32 * Nlen l.
Proof. rewrite leaf_bytes_hdr, Nlen_app. unfold Nlen. rewrite leaf_items_length. cbn [node_hdr length]. lia. Qed.
Lemma inner_bytes_Nlen items : Nlen (inner_bytes items) = 4 + 24 * Nlen items.
Proof. unfold inner_bytes. rewrite Nlen_app. unfold Nlen. rewrite inner_items_length. cbn [node_hdr length]. lia. Qed.

(* ---------- parsing items ---------- *)
Lemma parse_leaf_item s rest : sect_ok s ->
  parse_span false (leaf_item_bytes s ++ rest) = sect_span s
  /\ dec false (firstn 8 (skipn 16 (leaf_item_bytes s ++ rest))) = s_off s
  /\ dec false (firstn 8 (skipn 24 (leaf_item_bytes s ++ rest))) = s_size s
  /\ skipn 32 (leaf_item_bytes s ++ rest) = rest.
Proof.
  intros (H1 & H2 & H3 & H4 & H5). unfold U32, U64 in *.
  unfold leaf_item_bytes, parse_span, sect_span, u32, u64.
  cbn [enc_le app firstn skipn dec].
  rewrite !dec_le4, !dec_le8 by assumption. auto.
Qed.

Lemma parse_leaf_items_ok l : Forall sect_ok l ->
  parse_leaf_items false (length l) (flat_map leaf_item_bytes l) = map li_of l.
Proof.
  induction 1 as [|s l Hs _ IH]; [reflexivity|].
  cbn [length flat_map map parse_leaf_items].
  destruct (parse_leaf_item s (flat_map leaf_item_bytes l) Hs) as (E1 & E2 & E3 & E4).
  rewrite E1, E2, E3, E4, IH. reflexivity.
Qed.

Lemma parse_inner_item sp o rest : span_ok sp -> o < U64 ->
  parse_span false (inner_item_bytes sp o ++ rest) = sp
  /\ dec false (firstn 8 (skipn 16 (inner_item_bytes sp o ++ rest))) = o
  /\ skipn 24 (inner_item_bytes sp o ++ rest) = rest.
Proof.
  intros (H1 & H2 & H3 & H4) H5. unfold U32, U64 in *.
  unfold inner_item_bytes, parse_span, u32, u64.
  cbn [enc_le app firstn skipn dec].
  rewrite !dec_le4, !dec_le8 by assumption. destruct sp; auto.
Qed.

Lemma parse_inner_items_ok (items : list (span * N)) :
  Forall (fun it => span_ok (fst it) /\ snd it < U64) items ->
  parse_inner_items false (length items) (flat_map (fun it => inner_item_bytes (fst it) (snd it)) items) = items.
Proof.
  induction 1 as [|it l [Hs Ho] _ IH]; [reflexivity|].
  cbn [length flat_map parse_inner_items].
  destruct (parse_inner_item (fst it) (snd it)
              (flat_map (fun it => inner_item_bytes (fst it) (snd it)) l) Hs Ho) as (E1 & E2 & E3).
  rewrite E1, E2, E3, IH. destruct it; reflexivity.
Qed.

(* ---------- read_node ---------- *)
Lemma read_node_hdr img off k n d : has_at img off (node_hdr k n ++ d) ->
  slice img off 4 = Some (node_hdr k n) /\ slice img (off + 4) (length d) = Some d.
Proof.
  intros H. apply has_at_app in H as [H1 H2]. split.
  - apply (has_at_slice img off (node_hdr k n) H1).
  - apply has_at_slice. exact H2.
Qed.

Theorem read_leaf img off l : has_at img off (leaf_bytes l) -> Nlen l < U16 -> Forall sect_ok l ->
  read_node false img off = Ok (PLeaf (map li_of l)).
Proof.
  intros H Hlen Hok. rewrite leaf_bytes_hdr in H. apply read_node_hdr in H as [H1 H2].
  unfold read_node. rewrite H1. unfold node_hdr. cbn [nth skipn dec].
  change (1 =? 0) with false. change (1 =? 1) with true. cbn [orb negb].
  rewrite dec_le2 by exact Hlen. unfold Nlen. rewrite Nat2N.id.
  rewrite leaf_items_length in H2. rewrite H2. rewrite parse_leaf_items_ok by exact Hok. reflexivity.
Qed.

Theorem read_inner img off items : has_at img off (inner_bytes items) -> Nlen items < U16 ->
  Forall (fun it => span_ok (fst it) /\ snd it < U64) items ->
  read_node false img off = Ok (PInner items).
Proof.
  intros H Hlen Hok. unfold inner_bytes in H. apply read_node_hdr in H as [H1 H2].
  unfold read_node. rewrite H1. unfold node_hdr. cbn [nth skipn dec].
  change (0 =? 0) with true. change (0 =? 1) with false. cbn [orb negb].
  rewrite dec_le2 by exact Hlen. unfold Nlen. rewrite Nat2N.id.
  rewrite inner_items_length in H2. rewrite H2. rewrite parse_inner_items_ok by exact Hok. reflexivity.
Qed.
