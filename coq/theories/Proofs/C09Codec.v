(* C09 component codecs, part 1: what the WRITER model's encoders emit (Model/BBIFile.v,
   Model/BigWigWrite.v) is decoded by the INDEPENDENT decoder (Spec/FormatDecode.v) to the value
   that was encoded: common header, zoom directory, total summary, bigWig section (type 1), zoom
   records.  Floating-point fields are opaque bit patterns: the decoder returns the pattern the
   encoder wrote (mod 2^32 / 2^64, the width of the field). *)
From BT Require Import Base.Util Base.LE Base.Float Generated.Consts Model.RTree Model.BBIFile Model.BigWigWrite
  Proofs.RTreeCodec Proofs.FileRegions Spec.FormatDecode Proofs.C09Base.
Local Open Scope N_scope.

(* ---------- little-endian words without range hypotheses ---------- *)
Lemma dec_le2_mod x : dec_le [x mod 256; x / 256 mod 256] = x mod W16.
Proof. apply (dec_enc_le_mod 2 x). Qed.
Lemma dec_le4_mod x : dec_le [x mod 256; x / 256 mod 256; x / 256 / 256 mod 256; x / 256 / 256 / 256 mod 256] = w32 x.
Proof. apply (dec_enc_le_mod 4 x). Qed.
Lemma dec_le8_mod x :
  dec_le [x mod 256; x / 256 mod 256; x / 256 / 256 mod 256; x / 256 / 256 / 256 mod 256;
          x / 256 / 256 / 256 / 256 mod 256; x / 256 / 256 / 256 / 256 / 256 mod 256;
          x / 256 / 256 / 256 / 256 / 256 / 256 mod 256;
          x / 256 / 256 / 256 / 256 / 256 / 256 / 256 mod 256] = w64 x.
Proof. apply (dec_enc_le_mod 8 x). Qed.

(* ---------- common header ---------- *)
Lemma header_bytes_length magic nz ct dof ix fc dfc asql so ubuf :
  length (header_bytes magic nz ct dof ix fc dfc asql so ubuf) = 64%nat.
Proof. unfold header_bytes, u16, u32, u64. rewrite !app_length, !enc_le_length. reflexivity. Qed.

Theorem parse_header_ok img n magic nz ct dof ix fc dfc asql so ubuf :
  has_at img 0 (header_bytes magic nz ct dof ix fc dfc asql so ubuf) -> n = Nlen img ->
  nz < W16 -> ct < W64 -> dof < W64 -> ix < W64 -> fc < W16 -> dfc < W16 -> asql < W64 -> so < W64 -> ubuf < W32 ->
  parse_header img n false =
    Some {| fh_version := 4; fh_nzoom := nz; fh_ctoff := ct; fh_dataoff := dof; fh_ixoff := ix; fh_fc := fc;
            fh_dfc := dfc; fh_asql := asql; fh_sumoff := so; fh_ubuf := ubuf; fh_ext := 0 |}.
Proof.
  intros H Hn H1 H2 H3 H4 H5 H6 H7 H8 H9. unfold W16, W32, W64 in *.
  unfold parse_header.
  rewrite (bytes_at_has_w img n 0 _ 64 H Hn) by (unfold Nlen; now rewrite header_bytes_length).
  cbn [obind]. unfold header_bytes, fld, u16, u32, u64.
  cbn [enc_le app firstn skipn dec].
  rewrite !dec_le2, !dec_le4, !dec_le8 by (assumption || lia). reflexivity.
Qed.

(* the magic number, as [sniff] reads it *)
Lemma header_magic img magic nz ct dof ix fc dfc asql so ubuf :
  has_at img 0 (header_bytes magic nz ct dof ix fc dfc asql so ubuf) -> magic < W32 ->
  option_map (dec false) (slice img 0 4) = Some magic.
Proof.
  intros H Hm. unfold header_bytes in H. apply has_at_prefix in H.
  rewrite (has_at_slice_w img 0 (u32 magic) 4 H) by (unfold u32; now rewrite enc_le_length).
  cbn [option_map dec]. f_equal. apply (dec_enc_le 4 magic Hm).
Qed.

(* ---------- zoom directory ---------- *)
Definition zh_view (z : zoom_header) : fzoomhdr :=
  {| fz_level := zh_res z; fz_reserved := 0; fz_data := zh_data z; fz_index := zh_index z |}.
Definition zh_ok (z : zoom_header) : Prop := zh_res z < W32 /\ zh_data z < W64 /\ zh_index z < W64.

Lemma zoom_header_length z : length (zoom_header_bytes z) = 24%nat.
Proof. unfold zoom_header_bytes, u32, u64. rewrite !app_length, !enc_le_length. reflexivity. Qed.

Theorem parse_zoomhdr_ok img n i z : has_at img (64 + 24 * i) (zoom_header_bytes z) -> n = Nlen img -> zh_ok z ->
  parse_zoomhdr img n false i = Some (zh_view z).
Proof.
  intros H Hn (H1 & H2 & H3). unfold W32, W64 in *. unfold parse_zoomhdr.
  rewrite (bytes_at_has_w img n _ _ 24 H Hn) by (unfold Nlen; now rewrite zoom_header_length).
  cbn [obind]. unfold zoom_header_bytes, fld, u32, u64, zh_view.
  cbn [enc_le app firstn skipn dec].
  rewrite !dec_le4, !dec_le8 by (assumption || lia). reflexivity.
Qed.

Lemma parse_zoomhdrs_from img n : forall zs i, has_at img (64 + 24 * i) (flat_map zoom_header_bytes zs) -> n = Nlen img ->
  Forall zh_ok zs -> omap (parse_zoomhdr img n false) (seqN i (length zs)) = Some (map zh_view zs).
Proof.
  induction zs as [|z zs IH]; intros i H Hn Hok; [reflexivity|].
  cbn [flat_map] in H. apply has_at_app in H as [H1 H2].
  inversion Hok as [|? ? Hz Hzs]; subst.
  cbn [length seqN omap map]. rewrite (parse_zoomhdr_ok img (Nlen img) i z H1 eq_refl Hz). cbn [obind].
  rewrite IH; [reflexivity| |reflexivity|exact Hzs].
  replace (64 + 24 * (i + 1)) with (64 + 24 * i + Nlen (zoom_header_bytes z)); [exact H2|].
  unfold Nlen. rewrite zoom_header_length. lia.
Qed.

Theorem parse_zoomhdrs_ok img n zs : has_at img 64 (flat_map zoom_header_bytes zs) -> n = Nlen img ->
  Forall zh_ok zs -> parse_zoomhdrs img n false (Nlen zs) = Some (map zh_view zs).
Proof.
  intros H Hn Hok. unfold parse_zoomhdrs. unfold Nlen at 1. rewrite Nat2N.id.
  apply parse_zoomhdrs_from; [|exact Hn|exact Hok]. now rewrite N.mul_0_r, N.add_0_r.
Qed.

(* ---------- total summary ---------- *)
Definition sum_view (s : summary) : fsummary :=
  {| fs_bases := su_bases s; fs_min := w64 (bits_of_f64 (su_min s)); fs_max := w64 (bits_of_f64 (su_max s));
     fs_sum := w64 (bits_of_f64 (su_sum s)); fs_sumsq := w64 (bits_of_f64 (su_sumsq s)) |}.

Lemma summary_bytes_length s : length (summary_bytes s) = 40%nat.
Proof. unfold summary_bytes, f64_bytes, u64. rewrite !app_length, !enc_le_length. reflexivity. Qed.

Definition sum_view_mod (s : summary) : fsummary :=
  {| fs_bases := w64 (su_bases s); fs_min := w64 (bits_of_f64 (su_min s)); fs_max := w64 (bits_of_f64 (su_max s));
     fs_sum := w64 (bits_of_f64 (su_sum s)); fs_sumsq := w64 (bits_of_f64 (su_sumsq s)) |}.

Lemma parse_summary_mod img n off s : has_at img off (summary_bytes s) -> n = Nlen img ->
  parse_summary img n false off = Some (sum_view_mod s).
Proof.
  intros H Hn. unfold parse_summary.
  rewrite (bytes_at_has_w img n _ _ 40 H Hn) by (unfold Nlen; now rewrite summary_bytes_length).
  cbn [obind]. unfold summary_bytes, f64_bytes, fld, u64, sum_view_mod.
  cbn [enc_le app firstn skipn dec]. rewrite !dec_le8_mod. reflexivity.
Qed.

Theorem parse_summary_ok img n off s : has_at img off (summary_bytes s) -> n = Nlen img -> su_bases s < W64 ->
  parse_summary img n false off = Some (sum_view s).
Proof.
  intros H Hn Hb. rewrite (parse_summary_mod img n off s H Hn). unfold sum_view_mod, sum_view.
  now rewrite (w64_small _ Hb).
Qed.

Lemma last_in {X} (l : list X) d : l <> [] -> In (last l d) l.
Proof.
  induction l as [|a l IH]; intros H; [congruence|]. destruct l as [|b l]; [now left|].
  right. apply IH. discriminate.
Qed.

(* ---------- bigWig section, type 1 (bedGraph) ---------- *)
Definition val_ok (v : value) : Prop := v_start v < W32 /\ v_end v < W32 /\ v_bits v < W32.
Definition rec_of (chrom : N) (v : value) : frec :=
  {| fr_chrom := chrom; fr_start := v_start v; fr_end := v_end v; fr_rest := [v_bits v] |}.

Lemma value_bytes_length v : length (value_bytes v) = 12%nat.
Proof. unfold value_bytes, u32. rewrite !app_length, !enc_le_length. reflexivity. Qed.
Lemma values_length l : length (flat_map value_bytes l) = (length l * 12)%nat.
Proof. apply flat_map_length_const. apply value_bytes_length. Qed.

Lemma parse_bedgraph_items_ok chrom : forall items, Forall val_ok items ->
  parse_bedgraph_items false (length items) chrom (flat_map value_bytes items) = map (rec_of chrom) items.
Proof.
  induction 1 as [|v l (H1 & H2 & H3) _ IH]; [reflexivity|]. unfold W32 in *.
  cbn [length flat_map map parse_bedgraph_items].
  rewrite <- IH. unfold value_bytes, fld, u32, rec_of.
  cbn [enc_le app firstn skipn dec]. rewrite !dec_le4 by assumption. reflexivity.
Qed.

Theorem parse_wig_section_ok chrom items sd : encode_section chrom items = Ok sd ->
  chrom < W32 -> Forall val_ok items -> Nlen items < W16 ->
  parse_wig_section false (sd_bytes sd) = Some (sd_chrom sd, sd_start sd, sd_end sd, map (rec_of chrom) items)
  /\ sd_chrom sd = chrom /\ Nlen (sd_bytes sd) = 24 + 12 * Nlen items
  /\ exists f, hd_error items = Some f /\ sd_start sd = v_start f /\ sd_end sd = v_end (last items f).
Proof.
  intros He Hc Hok Hn. unfold encode_section in He. destruct items as [|f r] eqn:Ei; [discriminate|].
  rewrite <- Ei in *. injection He as <-. cbn [sd_bytes sd_chrom sd_start sd_end].
  assert (Hf : val_ok f) by (subst items; now inversion Hok).
  assert (Hl : val_ok (last items f)).
  { rewrite Forall_forall in Hok. apply Hok. apply last_in. subst items. discriminate. }
  destruct Hf as (Hf1 & _ & _). destruct Hl as (_ & Hl2 & _). unfold W16, W32 in *.
  split; [|split; [reflexivity|split]].
  - unfold parse_wig_section.
    set (body := flat_map value_bytes items).
    assert (Hb : Nlen body = 12 * Nlen items) by (unfold Nlen, body; rewrite values_length; lia).
    match goal with |- context [24 <=? Nlen ?x] =>
      assert (Hlen : Nlen x = 24 + 12 * Nlen items) by (rewrite <- Hb; unfold Nlen; cbn [length]; lia) end.
    rewrite Hlen. rewrite check_true by (apply N.leb_le; lia).
    unfold fld, u8, u16, u32. cbn [enc_le app firstn skipn dec].
    rewrite !dec_le4, dec_le2 by (assumption || lia).
    change (dec_le [1 mod 256]) with 1. change (1 =? 1) with true. cbv iota.
    rewrite check_true.
    + unfold Nlen at 1. rewrite Nat2N.id. unfold body. rewrite parse_bedgraph_items_ok by exact Hok. reflexivity.
    + apply N.eqb_eq. unfold Nlen, body. rewrite values_length. lia.
  - unfold Nlen. cbn [length]. try rewrite !app_length. cbn [length]. rewrite values_length. lia.
  - exists f. subst items. repeat split; reflexivity.
Qed.

(* ---------- zoom records ---------- *)
Definition zr_view (fp : fpmode) (z : zrec) : fzrec :=
  let s := z_sum z in
  {| zr_chrom := z_chrom z; zr_start := z_start z; zr_end := z_end z; zr_valid := su_bases s;
     zr_min := w32 (bits_of_f32 (to_f32 fp (su_min s))); zr_max := w32 (bits_of_f32 (to_f32 fp (su_max s)));
     zr_sum := w32 (bits_of_f32 (to_f32 fp (su_sum s))); zr_sumsq := w32 (bits_of_f32 (to_f32 fp (su_sumsq s))) |}.
Definition zrec_ok (z : zrec) : Prop :=
  z_chrom z < W32 /\ z_start z < W32 /\ z_end z < W32 /\ su_bases (z_sum z) < W32.

Lemma zrec_bytes_length fp z : length (zrec_bytes fp z) = 32%nat.
Proof. unfold zrec_bytes, f32_bytes, u32. rewrite !app_length, !enc_le_length. reflexivity. Qed.
Lemma zrecs_length fp l : length (flat_map (zrec_bytes fp) l) = (length l * 32)%nat.
Proof. apply flat_map_length_const. apply zrec_bytes_length. Qed.

(* zoom record codec *)
Theorem parse_zoom_items_ok fp : forall recs, Forall zrec_ok recs ->
  parse_zoom_items false (length recs) (flat_map (zrec_bytes fp) recs) = map (zr_view fp) recs.
Proof.
  induction 1 as [|z l (H1 & H2 & H3 & H4) _ IH]; [reflexivity|]. unfold W32 in *.
  cbn [length flat_map map parse_zoom_items].
  rewrite <- IH. unfold zrec_bytes, f32_bytes, fld, u32, zr_view.
  cbn [enc_le app firstn skipn dec]. rewrite !dec_le4 by assumption. rewrite !dec_le4_mod. reflexivity.
Qed.

(* zoom section codec: the bytes of an encoded zoom section parse back to its records *)
Theorem encode_zoom_section_ok fp recs sd : encode_zoom_section fp recs = Ok sd -> Forall zrec_ok recs ->
  Nlen (sd_bytes sd) = 32 * Nlen recs
  /\ parse_zoom_items false (N.to_nat (Nlen (sd_bytes sd) / 32)) (sd_bytes sd) = map (zr_view fp) recs
  /\ exists f, hd_error recs = Some f /\ sd_chrom sd = z_chrom f /\ sd_start sd = z_start f /\ sd_end sd = z_end (last recs f).
Proof.
  intros He Hok. unfold encode_zoom_section in He. destruct recs as [|f r] eqn:E; [discriminate|].
  rewrite <- E in *. injection He as <-. cbn [sd_bytes sd_chrom sd_start sd_end].
  assert (Hl : Nlen (flat_map (zrec_bytes fp) recs) = 32 * Nlen recs).
  { unfold Nlen. rewrite zrecs_length. lia. }
  split; [exact Hl|]. split.
  - rewrite Hl. rewrite N.mul_comm, N.div_mul by lia. unfold Nlen. rewrite Nat2N.id.
    now apply parse_zoom_items_ok.
  - exists f. subst recs. repeat split; reflexivity.
Qed.
