(* C01, whole file, part 6: reading the hypotheses and conclusions in terms of the input itself.
   - the values of a run (c, vs) of a one-run-per-chromosome input are exactly the input's values
     for c, in input order (run_values);
   - the names of the runs are the chromosomes in first-appearance order (run_names);
   - acceptance itself implies one run per chromosome, for every sort mode (since /repo 4ea85d7 a
     chromosome whose run reappears is refused): BigWigFileThms.write_grouped. *)
From Coq Require Import Sorting.Sorted.
From BT Require Import Base.Util Base.Float Model.RTree Model.BBIFile Model.BigWigWrite
  Proofs.BigWigFile Proofs.BigWigFileChroms Proofs.BigWigFileRoundTrip.
Local Open Scope N_scope.

(* ---------- values of a chromosome ---------- *)
Definition vals_of (inp : list item) (c : name) : list value :=
  map snd (filter (fun it : item => name_eqb (fst it) c) inp).

Lemma runs_aux_vals c : forall l cur acc,
  concat (map snd (filter (fun r : name * list value => name_eqb (fst r) c) (runs_aux cur acc l)))
  = (if name_eqb cur c then rev acc else []) ++ vals_of l c.
Proof.
  induction l as [|[c' v] l IH]; intros cur acc; cbn [runs_aux].
  - cbn [filter fst]. unfold vals_of. cbn [filter map]. destruct (name_eqb cur c); cbn [map snd concat]; now rewrite ?app_nil_r.
  - unfold vals_of. cbn [filter fst]. fold (vals_of l c). destruct (name_eqb c' cur) eqn:E.
    + apply name_eqb_eq in E. subst c'. rewrite IH. destruct (name_eqb cur c); cbn [rev map snd app].
      * now rewrite <- app_assoc.
      * reflexivity.
    + cbn [filter fst]. destruct (name_eqb cur c); cbn [map snd concat]; rewrite (IH c' [v]); cbn [rev app];
        destruct (name_eqb c' c); cbn [map snd app]; reflexivity.
Qed.

Lemma runs_vals inp c :
  concat (map snd (filter (fun r : name * list value => name_eqb (fst r) c) (runs inp))) = vals_of inp c.
Proof.
  destruct inp as [|[c' v] l]; [reflexivity|]. cbn [runs]. rewrite runs_aux_vals. unfold vals_of. cbn [filter fst rev app].
  destruct (name_eqb c' c); reflexivity.
Qed.

Lemma filter_unique (l : list (name * list value)) c vs : NoDup (map fst l) -> In (c, vs) l ->
  filter (fun r : name * list value => name_eqb (fst r) c) l = [(c, vs)].
Proof.
  induction l as [|[k w] l IH]; intros Hnd Hin; [destruct Hin|]. cbn [map fst] in Hnd. inversion Hnd as [|? ? Hk Hnd']; subst.
  cbn [filter fst]. destruct Hin as [E|Hin].
  - inversion E; subst. rewrite name_eqb_refl. f_equal.
    assert (G : forall l' : list (name * list value), ~ In c (map fst l') ->
                filter (fun r : name * list value => name_eqb (fst r) c) l' = []).
    { induction l' as [|[k' w'] l' IH']; intros Hn; [reflexivity|]. cbn [filter fst]. cbn [map fst] in Hn.
      rewrite name_eqb_neq by (intros ->; apply Hn; left; reflexivity). apply IH'. intros H; apply Hn; right; exact H. }
    apply G. exact Hk.
  - rewrite name_eqb_neq; [apply IH; assumption|]. intros ->. apply Hk. apply in_map_iff. exists (c, vs). auto.
Qed.

(* the run of chromosome c holds exactly the input's values for c, in input order *)
Theorem run_values inp c vs : NoDup (map fst (runs inp)) -> In (c, vs) (runs inp) -> vs = vals_of inp c.
Proof.
  intros Hnd Hin. rewrite <- runs_vals, (filter_unique _ c vs Hnd Hin). cbn [map snd concat]. now rewrite app_nil_r.
Qed.

(* ---------- names of the runs = first-appearance order ---------- *)
(* first occurrences, in order *)
Fixpoint first_app (l : list name) : list name :=
  match l with [] => [] | c :: r => c :: filter (fun x => negb (name_eqb x c)) (first_app r) end.

Fixpoint squeeze_aux (cur : name) (l : list name) : list name :=
  match l with [] => [cur] | c :: r => if name_eqb c cur then squeeze_aux cur r else cur :: squeeze_aux c r end.

Lemma runs_aux_names : forall l cur acc, map fst (runs_aux cur acc l) = squeeze_aux cur (map fst l).
Proof.
  induction l as [|[c v] l IH]; intros cur acc; cbn [runs_aux map fst squeeze_aux]; [reflexivity|].
  destruct (name_eqb c cur); cbn [map fst]; now rewrite IH.
Qed.

Lemma filter_filter_same {X} (f : X -> bool) l : filter f (filter f l) = filter f l.
Proof.
  induction l as [|x l IH]; [reflexivity|]. cbn [filter]. destruct (f x) eqn:E; cbn [filter]; rewrite ?E, IH; reflexivity.
Qed.
Lemma filter_all {X} (f : X -> bool) l : (forall x, In x l -> f x = true) -> filter f l = l.
Proof.
  induction l as [|x l IH]; intros H; [reflexivity|]. cbn [filter]. rewrite (H x (or_introl eq_refl)).
  f_equal. apply IH. intros y Hy. apply H. right; exact Hy.
Qed.

Lemma squeeze_first_app : forall l cur, NoDup (squeeze_aux cur l) -> squeeze_aux cur l = first_app (cur :: l).
Proof.
  induction l as [|c r IH]; intros cur Hnd; [reflexivity|]. cbn [squeeze_aux] in *.
  destruct (name_eqb c cur) eqn:E.
  - apply name_eqb_eq in E. subst c. rewrite (IH cur Hnd). cbn [first_app filter].
    rewrite name_eqb_refl. cbn [negb]. now rewrite filter_filter_same.
  - inversion Hnd as [|? ? Hc Hnd']; subst. rewrite (IH c Hnd') in *. change (first_app (cur :: c :: r)) with
      (cur :: filter (fun x => negb (name_eqb x cur)) (first_app (c :: r))).
    f_equal. symmetry. apply filter_all. intros x Hx. destruct (name_eqb x cur) eqn:Ex; [|reflexivity].
    apply name_eqb_eq in Ex. subst x. contradiction.
Qed.

(* one run per chromosome: the runs are the chromosomes in first-appearance order *)
Theorem run_names inp : NoDup (map fst (runs inp)) -> map fst (runs inp) = first_app (map fst inp).
Proof.
  destruct inp as [|[c v] l]; [reflexivity|]. cbn [runs map fst]. rewrite runs_aux_names. apply squeeze_first_app.
Qed.

(* ---------- the round trip stated on the input itself ---------- *)
From BT Require Import Base.LE Model.BBIRead Proofs.BigWigQuery Proofs.RTreeCodec Proofs.BigWigFileThms.

Lemma in_first_app c : forall l, In c l -> In c (first_app l).
Proof.
  induction l as [|x r IH]; intros H; [destruct H|]. cbn [first_app]. destruct (name_eqb c x) eqn:E.
  - apply name_eqb_eq in E. subst. left; reflexivity.
  - right. apply filter_In. split; [|now rewrite E]. apply IH. destruct H as [->|H]; [|exact H].
    rewrite name_eqb_refl in E. discriminate.
Qed.

Lemma chrom_has_run inp c : NoDup (map fst (runs inp)) -> In c (map fst inp) ->
  In (c, vals_of inp c) (runs inp).
Proof.
  intros Hnd Hin. apply in_first_app in Hin. rewrite <- (run_names inp Hnd) in Hin.
  apply in_map_iff in Hin as [[c' vs] [E Hin]]. cbn [fst] in E. subst c'.
  now rewrite <- (run_values inp c vs Hnd Hin).
Qed.

Section OnInput.
Variables (fp : fpmode) (o : opts) (sizes : list (name * N)) (inp : list item) (bs : list N).
Hypothesis Ho : opts_ok o.
Hypothesis Hf : input_ok sizes inp.
Hypothesis Hs : Nlen bs < U64.
Hypothesis Hw : bw_write fp o sizes inp = Ok bs \/ bw_write_multipass fp o sizes inp = Ok bs.

(* one run per chromosome: implied by acceptance (a chromosome whose run reappears is refused) *)
Lemma on_input_grouped : NoDup (map fst (runs inp)).
Proof. exact (write_grouped fp o sizes inp bs Hw). Qed.

Theorem on_input_chroms i : read_info bs = Ok i ->
  i_chroms i = map (ci_of sizes) (number 0 (first_app (map fst inp))).
Proof.
  intros Hri. rewrite <- (run_names inp on_input_grouped).
  exact (roundtrip_chroms sizes inp bs i (write_roundtrip_for fp o sizes inp bs Ho Hf Hs Hw) Hri).
Qed.

Theorem on_input_query i infl c s e : read_info bs = Ok i -> In c (map fst inp) ->
  bw_interval infl bs i c s e = Ok (clip_filter s e (vals_of inp c)).
Proof.
  intros Hri Hin.
  exact (roundtrip_query sizes inp bs i infl c _ s e (write_roundtrip_for fp o sizes inp bs Ho Hf Hs Hw) Hri
           (chrom_has_run inp c on_input_grouped Hin)).
Qed.

Theorem on_input_roundtrip i infl c len : read_info bs = Ok i -> In c (map fst inp) -> lookup c sizes = Some len ->
  bw_interval infl bs i c 0 len = Ok (filter (fun v => negb (boundary_zero len v)) (vals_of inp c)).
Proof.
  intros Hri Hin Hl.
  exact (write_full_span fp o sizes inp bs Ho Hf Hs Hw i infl c _ len Hri (chrom_has_run inp c on_input_grouped Hin) Hl).
Qed.
End OnInput.
