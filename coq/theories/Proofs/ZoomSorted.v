(* C07: the placed sections of a zoom level are sorted by (chromosome, start) — the hypothesis
   `sorted_starts` of C05's search theorem / C07_zoom_query — whenever the level's records are:
   within a chromosome by the tiling invariant, across chromosomes when the ids increase in file order. *)
From BT Require Import Base.Util Base.LE Base.Float Generated.Consts Model.RTree Model.BBIFile Model.BigWigWrite Model.BBIRead
  Proofs.RTreeAbs Proofs.RTreeBuild Proofs.BigWigQuery Proofs.ZoomLoop Proofs.ZoomInv Proofs.ZoomThms.
From Coq Require Import Sorting.Sorted.
Local Open Scope N_scope.

Definition rec_le (a b : zrec) : Prop := ple (z_chrom a) (z_start a) (z_chrom b) (z_start b).
Definition sd_span (sd : sdata) : span := {| sc := sd_chrom sd; sb := sd_start sd; ec := sd_chrom sd; eb := sd_end sd |}.

Lemma place_spans : forall sds pos, map sect_span (place pos sds) = map sd_span sds.
Proof. induction sds as [|sd sds IH]; intros pos; cbn [place map]; [reflexivity|]. now rewrite IH. Qed.

Lemma SS_app_r {X} (R : X -> X -> Prop) : forall a b, StronglySorted R (a ++ b) -> StronglySorted R b.
Proof. induction a as [|x a IH]; intros b H; [exact H|]. inversion H; subst. now apply IH. Qed.
Lemma SS_app_cross {X} (R : X -> X -> Prop) : forall a b x y, StronglySorted R (a ++ b) -> In x a -> In y b -> R x y.
Proof.
  induction a as [|z a IH]; intros b x y H Hx Hy; [destruct Hx|]. inversion H as [|? ? Hs Hf]; subst.
  destruct Hx as [<-|Hx].
  - rewrite Forall_forall in Hf. apply Hf. apply in_or_app. now right.
  - eapply IH; eauto.
Qed.
Lemma SS_app {X} (R : X -> X -> Prop) : forall a b, StronglySorted R a -> StronglySorted R b ->
  (forall x y, In x a -> In y b -> R x y) -> StronglySorted R (a ++ b).
Proof.
  induction a as [|z a IH]; intros b Ha Hb Hc; [exact Hb|]. inversion Ha as [|? ? Hs Hf]; subst. cbn [app].
  constructor.
  - apply IH; [exact Hs|exact Hb|]. intros x y Hx Hy. apply Hc; [now right|exact Hy].
  - apply Forall_app. split; [exact Hf|]. apply Forall_forall. intros y Hy. apply Hc; [now left|exact Hy].
Qed.

(* sections cut from a globally sorted record list are sorted by their first record *)
Theorem sections_sorted fp : forall (rsecs : list (list zrec)) sds pos,
  StronglySorted rec_le (concat rsecs) -> mapM (encode_zoom_section fp) rsecs = Ok sds ->
  sorted_starts (map sect_span (place pos sds)).
Proof.
  intros rsecs sds pos Hs Henc. rewrite place_spans. clear pos. revert sds Hs Henc.
  induction rsecs as [|sec rsecs IH]; intros sds Hs Henc; cbn [mapM] in Henc.
  - injection Henc as <-. constructor.
  - destruct (encode_zoom_section fp sec) as [sd| | |] eqn:E; try discriminate. cbn [rbind] in Henc.
    destruct (mapM (encode_zoom_section fp) rsecs) as [sds'| | |] eqn:E2; try discriminate.
    cbn [rbind] in Henc. injection Henc as <-. cbn [concat] in Hs. cbn [map].
    pose proof (IH sds' (SS_app_r _ _ _ Hs) eq_refl) as Hrest. constructor; [exact Hrest|].
    destruct sec as [|f r]; [discriminate|]. cbn [encode_zoom_section] in E. injection E as <-.
    (* every later section starts at a later record *)
    clear IH Hrest. revert sds' E2. induction rsecs as [|sec' rsecs' IH']; intros sds' E2; cbn [mapM] in E2.
    + injection E2 as <-. constructor.
    + destruct (encode_zoom_section fp sec') as [sd'| | |] eqn:E'; try discriminate. cbn [rbind] in E2.
      destruct (mapM (encode_zoom_section fp) rsecs') as [sds''| | |] eqn:E2'; try discriminate.
      cbn [rbind] in E2. injection E2 as <-. cbn [map]. constructor.
      * destruct sec' as [|f' r']; [discriminate|]. cbn [encode_zoom_section] in E'. injection E' as <-.
        unfold start_le, sd_span. cbn [sc sb sd_chrom sd_start].
        apply (SS_app_cross rec_le (f :: r) (concat ((f' :: r') :: rsecs')) f f' Hs); [now left|].
        cbn [concat]. now left.
      * apply (IH' ); [|reflexivity]. cbn [concat] in Hs |- *.
        (* drop sec' from the sorted list *)
        clear - Hs. rewrite app_assoc in Hs.
        assert (H : forall (a b c : list zrec), StronglySorted rec_le (a ++ b ++ c) -> StronglySorted rec_le (a ++ c)).
        { intros a b c H. apply SS_app.
          - clear - H. induction a as [|x a IHa]; [constructor|]. inversion H as [|? ? Hs Hf]; subst.
            constructor; [apply IHa; exact Hs|]. apply Forall_app in Hf. tauto.
          - apply (SS_app_r _ b). apply (SS_app_r _ a). exact H.
          - intros x y Hx Hy. apply (SS_app_cross rec_le a (b ++ c) x y H Hx). apply in_or_app. now right. }
        rewrite <- app_assoc in Hs. apply (H (f :: r) sec' (concat rsecs') Hs).
Qed.

(* one chromosome: the tiling order gives the record order *)
Lemma ordered_rec_le size chrom : forall R lo, ordered size chrom lo R -> StronglySorted rec_le R.
Proof.
  induction R as [|r R IH]; intros lo H; [constructor|]. destruct H as [_ [[Hg1 [_ Hgc]] Ho]].
  constructor; [eapply IH; exact Ho|]. apply Forall_forall. intros x Hx.
  destruct (ordered_in size chrom _ _ _ Ho Hx) as [[_ [_ Hxc]] [Hs _]].
  unfold rec_le, ple. right. split; [congruence|lia].
Qed.

(* several chromosomes with increasing ids, each with its own ordered record list *)
Lemma chroms_rec_le size : forall (chs : list (N * list zrec)),
  StronglySorted N.lt (map fst chs) -> Forall (fun c => ordered size (fst c) 0 (snd c)) chs ->
  StronglySorted rec_le (flat_map snd chs).
Proof.
  induction chs as [|[c R] chs IH]; intros Hid Ho; [constructor|]. cbn [map fst flat_map snd] in *.
  inversion Hid as [|? ? Hids Hlt]; subst. inversion Ho as [|? ? Hoc Hor]; subst. cbn [fst snd] in Hoc.
  apply SS_app; [eapply ordered_rec_le; exact Hoc|apply IH; assumption|].
  intros x y Hx Hy. apply in_flat_map in Hy. destruct Hy as [[c' R'] [Hc' Hy]]. cbn [snd] in Hy.
  destruct (ordered_in size c _ _ _ Hoc Hx) as [[_ [_ Hxc]] _].
  rewrite Forall_forall in Hor. pose proof (Hor _ Hc') as Hoc'. cbn [fst snd] in Hoc'.
  destruct (ordered_in size c' _ _ _ Hoc' Hy) as [[_ [_ Hyc]] _].
  rewrite Forall_forall in Hlt. assert (Hcc : c < c') by (apply Hlt; apply in_map_iff; exists (c', R'); auto).
  unfold rec_le, ple. left. lia.
Qed.

(* the sections of one chromosome as the writer produces them *)
Theorem zoom_sections_sorted fp ips size chrom len vals sds pos : 1 <= size -> wf_vals len vals ->
  zoom_sections fp ips size chrom vals = Ok sds -> sorted_starts (map sect_span (place pos sds)).
Proof.
  intros Hsz Hwf H. unfold zoom_sections in H.
  destruct (zoom_chrom fp ips size chrom vals zstate0) as [st| | |] eqn:E; try discriminate. cbn [rbind] in H.
  destruct (zoom_chrom_final fp size chrom len ips vals st Hsz Hwf E) as [[Ho _ _ _ _] _].
  eapply sections_sorted; [|exact H]. eapply ordered_rec_le. exact Ho.
Qed.

(* a whole level: the chromosomes' section lists one after the other, ids increasing *)
Lemma concat_flat_map {X Y} (f : X -> list (list Y)) : forall l, concat (flat_map f l) = flat_map (fun x => concat (f x)) l.
Proof. induction l as [|x l IH]; [reflexivity|]. cbn [flat_map]. now rewrite concat_app, IH. Qed.

Theorem level_sections_sorted fp size (chs : list (N * list (list zrec))) sds pos :
  StronglySorted N.lt (map fst chs) ->
  Forall (fun c => ordered size (fst c) 0 (concat (snd c))) chs ->
  mapM (encode_zoom_section fp) (flat_map snd chs) = Ok sds ->
  sorted_starts (map sect_span (place pos sds)).
Proof.
  intros Hid Ho Henc. eapply sections_sorted; [|exact Henc]. rewrite concat_flat_map.
  pose proof (chroms_rec_le size (map (fun c => (fst c, concat (snd c))) chs)) as H.
  rewrite map_map in H. cbn [fst] in H. rewrite flat_map_concat_map, map_map in H. cbn [snd] in H.
  rewrite <- flat_map_concat_map in H. apply H; [exact Hid|].
  apply Forall_map. exact Ho.
Qed.

Theorem zoom_chrom_ordered fp ips size chrom len vals st : 1 <= size -> wf_vals len vals ->
  zoom_chrom fp ips size chrom vals zstate0 = Ok st -> ordered size chrom 0 (concat (zs_out st)).
Proof.
  intros Hsz Hwf E. destruct (zoom_chrom_final fp size chrom len ips vals st Hsz Hwf E) as [[Ho _ _ _ _] _]. exact Ho.
Qed.
