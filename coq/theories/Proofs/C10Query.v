(* C10: list-level facts behind the query answers: collecting the blocks the search returned,
   per-base filling, lookups in the zoom directory. *)
From BT Require Import Base.Util Base.LE Base.Float Generated.Consts Model.RTree Model.BBIFile Model.BigWigWrite
  Model.BBIRead Proofs.RTreeAbs Proofs.C10Search Proofs.C10Sections Proofs.C10EmitBase Spec.FormatEmit Spec.FormatWf Model.ReadBed_C10.
Local Open Scope N_scope.

Definition olist {V} (r : option (list V)) : list V := match r with Some x => x | None => [] end.

(* the blocks returned by the search are decoded one after the other; blocks the search skipped
   are never touched *)
Lemma collect_hits {V} (f : block -> res (option (list V))) q qs qe :
  forall (its : list leaf_item) (rs : list (option (list V))),
  Forall2 (fun it r => overlaps q qs qe (li_span it) = true -> f (li_off it, li_size it) = Ok r) its rs ->
  collect_blocks f (hits q qs qe its)
  = Ok (flat_map (fun ir => if overlaps q qs qe (li_span (fst ir)) then olist (snd ir) else []) (combine its rs)).
Proof.
  induction 1 as [|it r its rs H _ IH]; [reflexivity|].
  unfold hits in *. cbn [filter combine flat_map fst snd]. destruct (overlaps q qs qe (li_span it)) eqn:E.
  - cbn [map collect_blocks]. rewrite (H eq_refl). cbn [rbind]. rewrite IH. cbn [rbind]. destruct r; reflexivity.
  - cbn [app]. exact IH.
Qed.

Lemma Forall2_nth {A B} (P : A -> B -> Prop) (l1 : list A) (l2 : list B) : length l1 = length l2 ->
  (forall i a b, nth_error l1 i = Some a -> nth_error l2 i = Some b -> P a b) -> Forall2 P l1 l2.
Proof.
  revert l2. induction l1 as [|a l1 IH]; intros [|b l2] Hl H; try discriminate; constructor.
  - apply (H 0%nat a b); reflexivity.
  - apply IH; [cbn in Hl; lia|]. intros i x y Hx Hy. apply (H (S i) x y); assumption.
Qed.

Lemma flat_map_ext_in {A B} (f g : A -> list B) l : (forall a, In a l -> f a = g a) -> flat_map f l = flat_map g l.
Proof.
  induction l as [|a l IH]; intros H; [reflexivity|]. cbn [flat_map]. rewrite (H a) by now left.
  rewrite IH; [reflexivity|]. intros x Hx. apply H. now right.
Qed.

Lemma clip_filter_app s e a b : clip_filter s e (a ++ b) = clip_filter s e a ++ clip_filter s e b.
Proof. unfold clip_filter. now rewrite filter_app, map_app. Qed.
Lemma clip_filter_none s e l : Forall (fun v => keep s e v = false) l -> clip_filter s e l = [].
Proof. intros H. unfold clip_filter. now rewrite filter_none. Qed.

(* ---------- per-base filling ---------- *)
Lemma range_In s n p : In p (range s n) -> s <= p < s + N.of_nat n.
Proof.
  revert s. induction n as [|n IH]; intros s H; [destruct H|]. cbn [range] in H. destruct H as [<-|H]; [lia|].
  apply IH in H. lia.
Qed.
Lemma range_length s n : length (range s n) = n.
Proof. revert s. induction n as [|n IH]; intros s; [reflexivity|]. cbn [range length]. now rewrite IH. Qed.

Lemma splice {V} (g : N -> V) (x : V) : forall n s a b, (a <= b)%nat -> (b <= n)%nat ->
  firstn a (map g (range s n)) ++ repeatN x (b - a) ++ skipn b (map g (range s n))
  = map (fun p => if (s + N.of_nat a <=? p) && (p <? s + N.of_nat b) then x else g p) (range s n).
Proof.
  induction n as [|n IH]; intros s a b Hab Hbn.
  - assert (a = 0%nat) by lia. assert (b = 0%nat) by lia. subst. reflexivity.
  - cbn [range map]. destruct b as [|b].
    + assert (a = 0%nat) by lia. subst a. cbn [firstn skipn Nat.sub repeatN app].
      f_equal.
      * destruct (s <? s + N.of_nat 0) eqn:E; [apply N.ltb_lt in E; lia|]. now rewrite andb_false_r.
      * apply map_ext_in. intros p Hp. apply range_In in Hp.
        destruct (p <? s + N.of_nat 0) eqn:E; [apply N.ltb_lt in E; lia|]. now rewrite andb_false_r.
    + destruct a as [|a].
      * cbn [firstn skipn Nat.sub repeatN app]. f_equal.
        -- assert (E1 : (s + N.of_nat 0 <=? s) = true) by (apply N.leb_le; lia).
           assert (E2 : (s <? s + N.of_nat (S b)) = true) by (apply N.ltb_lt; lia). now rewrite E1, E2.
        -- specialize (IH (s + 1) 0%nat b ltac:(lia) ltac:(lia)). cbn [firstn app] in IH. rewrite Nat.sub_0_r in IH.
           rewrite IH. apply map_ext_in. intros p Hp. apply range_In in Hp.
           replace (s + 1 + N.of_nat 0 <=? p) with (s + N.of_nat 0 <=? p).
           ++ replace (s + 1 + N.of_nat b) with (s + N.of_nat (S b)) by lia. reflexivity.
           ++ destruct (s + N.of_nat 0 <=? p) eqn:E1, (s + 1 + N.of_nat 0 <=? p) eqn:E2; try reflexivity;
                [apply N.leb_gt in E2|apply N.leb_gt in E1]; lia.
      * cbn [firstn skipn Nat.sub app]. f_equal.
        -- destruct (s + N.of_nat (S a) <=? s) eqn:E; [apply N.leb_le in E; lia|]. reflexivity.
        -- rewrite (IH (s + 1) a b ltac:(lia) ltac:(lia)). apply map_ext_in. intros p Hp.
           replace (s + 1 + N.of_nat a) with (s + N.of_nat (S a)) by lia.
           replace (s + 1 + N.of_nat b) with (s + N.of_nat (S b)) by lia. reflexivity.
Qed.

Definition base_step (p : N) (acc : option N) (v : value) : option N :=
  if (v_start v <=? p) && (p <? v_end v) then Some (v_bits v) else acc.
Definition fill_step (s : N) (acc : list (option N)) (v : value) : list (option N) :=
  let a := N.to_nat (v_start v - s) in
  let b := N.to_nat (v_end v - s) in
  firstn a acc ++ repeatN (Some (v_bits v)) (b - a) ++ skipn b acc.

Lemma fill_general s e : s <= e -> forall vals, Forall (fun v => v_start v <= v_end v) vals ->
  forall g : N -> option N,
  fold_left (fill_step s) (clip_filter s e vals) (map g (range s (N.to_nat (e - s))))
  = map (fun p => fold_left (base_step p) vals (g p)) (range s (N.to_nat (e - s))).
Proof.
  intros Hse. induction 1 as [|v vals Hv _ IH]; intros g; [reflexivity|].
  change (v :: vals) with ([v] ++ vals). rewrite clip_filter_app. rewrite fold_left_app.
  cbn [app fold_left].
  assert (Hstep : fold_left (fill_step s) (clip_filter s e [v]) (map g (range s (N.to_nat (e - s))))
                  = map (fun p => base_step p (g p) v) (range s (N.to_nat (e - s)))).
  { unfold clip_filter. cbn [filter]. destruct (keep s e v) eqn:K.
    - cbn [map fold_left]. unfold keep in K. apply andb_true_iff in K as [K1 K2]. apply N.ltb_lt in K1, K2.
      unfold fill_step, clip. cbn [v_start v_end v_bits].
      rewrite splice by lia. apply map_ext_in. intros p Hp. apply range_In in Hp. unfold base_step.
      replace (s + N.of_nat (N.to_nat (N.max (v_start v) s - s))) with (N.max (v_start v) s) by lia.
      replace (s + N.of_nat (N.to_nat (N.min (v_end v) e - s))) with (N.min (v_end v) e) by lia.
      destruct (v_start v <=? p) eqn:A1, (N.max (v_start v) s <=? p) eqn:A2;
        try (apply N.leb_le in A1); try (apply N.leb_le in A2); try (apply N.leb_gt in A1); try (apply N.leb_gt in A2);
        try lia; cbn [andb]; [|reflexivity].
      destruct (p <? v_end v) eqn:B1, (p <? N.min (v_end v) e) eqn:B2;
        try (apply N.ltb_lt in B1); try (apply N.ltb_lt in B2); try (apply N.ltb_ge in B1); try (apply N.ltb_ge in B2);
        try lia; reflexivity.
    - cbn [map fold_left]. apply map_ext_in. intros p Hp. apply range_In in Hp. unfold base_step.
      destruct ((v_start v <=? p) && (p <? v_end v)) eqn:C; [|reflexivity].
      apply andb_true_iff in C as [C1 C2]. apply N.leb_le in C1. apply N.ltb_lt in C2.
      unfold keep in K. apply andb_false_iff in K as [K|K]; apply N.ltb_ge in K; lia. }
  rewrite Hstep. apply (IH (fun p => base_step p (g p) v)).
Qed.

Lemma repeatN_map_range {V} (x : V) s n : repeatN x n = map (fun _ => x) (range s n).
Proof. revert s. induction n as [|n IH]; intros s; [reflexivity|]. cbn [repeatN range map]. now rewrite <- IH. Qed.

Theorem fill_values_spec s e vals : s <= e -> Forall (fun v => v_start v <= v_end v) vals ->
  fill_values s e (clip_filter s e vals) = map (base_value vals) (range s (N.to_nat (e - s))).
Proof.
  intros Hse Hv. unfold fill_values. rewrite (repeatN_map_range None s).
  exact (fill_general s e Hse vals Hv (fun _ => None)).
Qed.

(* ---------- lookups ---------- *)
Lemma find_map {A B} (p : B -> bool) (g : A -> B) l : find p (map g l) = option_map g (find (fun a => p (g a)) l).
Proof. induction l as [|a l IH]; [reflexivity|]. cbn [map find]. destruct (p (g a)); [reflexivity|exact IH]. Qed.

Lemma find_indexed {B} (p : B -> bool) : forall (zs : list B) s,
  match find (fun kz => p (snd kz)) (combine (seq s (length zs)) zs) with
  | Some (k, z) => find p zs = Some z /\ nth_error zs (k - s) = Some z /\ (s <= k)%nat
  | None => find p zs = None
  end.
Proof.
  induction zs as [|z zs IH]; intros s; [reflexivity|].
  cbn [length seq combine find snd]. destruct (p z) eqn:E.
  - rewrite Nat.sub_diag. repeat split; lia.
  - specialize (IH (S s)). destruct (find _ (combine (seq (S s) (length zs)) zs)) as [[k z']|].
    + destruct IH as (H1 & H2 & H3). split; [exact H1|]. replace (k - s)%nat with (S (k - S s)) by lia. split; [exact H2|lia].
    + exact IH.
Qed.

Lemma map_snd_combine {A B} (a : list A) (b : list B) : length a = length b -> map snd (combine a b) = b.
Proof.
  revert b. induction a as [|x a IH]; intros [|y b] H; try discriminate; [reflexivity|].
  cbn [combine map snd]. f_equal. apply IH. cbn in H. lia.
Qed.
Lemma filter_all {X} (p : X -> bool) l : forallb p l = true -> filter p l = l.
Proof. induction l as [|a l IH]; intros H; [reflexivity|]. cbn [forallb filter] in *. apply andb_true_iff in H as [H1 H2]. now rewrite H1, IH. Qed.
Lemma filter_concat {X} (p : X -> bool) ls : filter p (concat ls) = flat_map (filter p) ls.
Proof. induction ls as [|l ls IH]; [reflexivity|]. cbn [concat flat_map]. now rewrite filter_app, IH. Qed.
Lemma map_flat_map {X Y Z} (f : Y -> Z) (g : X -> list Y) l : map f (flat_map g l) = flat_map (fun x => map f (g x)) l.
Proof. induction l as [|a l IH]; [reflexivity|]. cbn [flat_map]. now rewrite map_app, IH. Qed.

Lemma in_combine_nth_error {A B} (l1 : list A) (l2 : list B) a b : In (a, b) (combine l1 l2) ->
  exists i, nth_error l1 i = Some a /\ nth_error l2 i = Some b.
Proof.
  revert l2. induction l1 as [|x l1 IH]; intros [|y l2] H; try destruct H.
  - injection H as -> ->. exists 0%nat. split; reflexivity.
  - apply IH in H as [i [H1 H2]]. exists (S i). split; assumption.
Qed.

(* leaf items aligned with groups of content items: every group the search hits decodes to [dec g],
   every group it skips would have contributed nothing *)
Lemma collect_groups {G V} (f : block -> res (option (list V))) (dec : G -> option (list V)) q qs qe
  (its : list leaf_item) (groups : list G) :
  length its = length groups ->
  (forall i it g, nth_error its i = Some it -> nth_error groups i = Some g ->
     (overlaps q qs qe (li_span it) = true -> f (li_off it, li_size it) = Ok (dec g))
     /\ (overlaps q qs qe (li_span it) = false -> olist (dec g) = [])) ->
  collect_blocks f (hits q qs qe its) = Ok (flat_map (fun g => olist (dec g)) groups).
Proof.
  intros Hlen H.
  rewrite (collect_hits f q qs qe its (map dec groups)).
  - f_equal. rewrite (flat_map_ext_in _ (fun ir => olist (snd ir))).
    + rewrite flat_map_snd. rewrite map_snd_combine by (now rewrite map_length). now rewrite flat_map_map.
    + intros [it r] Hin. cbn [fst snd]. destruct (overlaps q qs qe (li_span it)) eqn:E; [reflexivity|].
      apply in_combine_nth_error in Hin as [i [H1 H2]]. rewrite nth_error_map in H2.
      destruct (nth_error groups i) as [g|] eqn:Eg; [|discriminate]. cbn in H2. injection H2 as <-.
      symmetry. now apply (H i it g H1 Eg).
  - apply Forall2_nth; [now rewrite map_length|]. intros i it r H1 H2. rewrite nth_error_map in H2.
    destruct (nth_error groups i) as [g|] eqn:Eg; [|discriminate]. cbn in H2. injection H2 as <-.
    now apply (H i it g H1 Eg).
Qed.

(* an inclusive-overlap test on a single-chromosome span *)
Lemma overlaps_same_chrom q qs qe sp : overlaps q qs qe sp = true -> sc sp = ec sp -> sc sp = q.
Proof.
  unfold overlaps. intros H Hc. apply andb_true_iff in H as [H1 H2].
  apply le_pos_spec in H1. apply ge_pos_spec in H2. unfold ple in *. lia.
Qed.
Lemma overlaps_point q qs qe a b : qs <= b -> a <= qe -> overlaps q qs qe {| sc := q; sb := a; ec := q; eb := b |} = true.
Proof.
  intros H1 H2. unfold overlaps. apply andb_true_iff. split; [apply le_pos_spec|apply ge_pos_spec]; unfold ple; cbn [sc sb ec eb]; lia.
Qed.
