(* Progress and completion of the multi-lane machine (Model/Pipeline.v part 3: the data region and the
   zoom levels share the main thread and the splice loop).

   Invariant [LGood] of a reachable state: the state is well-formed (every lane has the same K
   chromosomes); for EVERY lane l the projection  proj l s  satisfies the single-lane invariant
   (Proofs/PipelineInv.v Inv: this is where "a lane's splice position can only wait for a chromosome
   that has been started" - i_mid -, "at await_real_file the buffer is closed" - i_await - and
   "an advanced chromosome's sender is closed in every lane" - cg_adv - come from); and the phase of
   the shared splice loop is in range: LSwitch j -> 1 <= j < L, LAwaitTask/LAwaitFile j -> j < L, and
   in all three the current chromosome has been started.

   Why there is no deadlock across lanes: the only cross-lane couplings are (1) the main thread,
   which advances chromosome a only when ALL lanes have submitted everything, and (2) the splice loop,
   which waits for the write tasks of chromosome k lane by lane.  A producer (l, a) with something left
   to submit can submit, or its channel is full, hence non-empty, hence the write task (l, a) or the
   encode task at its head can move - the write task writes into the staging buffer, which never
   blocks and in particular never waits for the splice loop.  A write task (j, k) the splice loop
   waits for has a non-empty channel or a closed sender once the main thread is past k; while the
   main thread is not finished it can itself move or waits for such a producer.  So every wait-for
   chain ends in an enabled task. *)
From BT Require Import Base.Util Model.RTree Model.BBIFile Model.Pipeline
  Proofs.PipelineInv Proofs.PipelineThms Proofs.PipelineLanes.

(* ---------------------------------------------------------------- the phase of the shared splice loop *)
Definition PhI (s : lst) : Prop :=
  let L := length (l_lanes s) in
  match l_ph s with
  | LSwitch j => (1 <= j)%nat /\ (j < L)%nat /\ (l_k s < l_started s)%nat
  | LAwaitTask j | LAwaitFile j => (j < L)%nat /\ (l_k s < l_started s)%nat
  | LRecv | LDone => True
  end.

Lemma phi_same s s' : l_ph s' = l_ph s -> l_k s' = l_k s -> (l_started s <= l_started s')%nat ->
  length (l_lanes s') = length (l_lanes s) -> PhI s -> PhI s'.
Proof.
  unfold PhI. intros -> -> Hs ->. destruct (l_ph s); auto; intros H; repeat split; try apply H; lia.
Qed.

Lemma phi_step K g t s s' : LW K s -> lstep g t s = Some s' -> PhI s -> PhI s'.
Proof.
  intros W Hs P. pose proof (lstep_lanes_length _ _ _ _ Hs) as HL. pose proof (lw_some _ _ W) as H1.
  assert (Hon : forall l k f, lon_chrom l k f s = Some s' -> PhI s').
  { intros l k f. unfold lon_chrom. destruct (k <? l_started s)%nat; [|discriminate].
    destruct (nth_error (l_lanes s) l) as [ln|]; [|discriminate].
    destruct (nth_error ln k) as [c|]; [|discriminate]. destruct (f c) as [c'|]; [|discriminate].
    intros H. apply (phi_same s s'); try exact HL; try exact P; inversion H; subst s'; cbn; auto. }
  destruct t as [|l k|l k i|l k|]; cbn [lstep] in Hs; try (eapply Hon; exact Hs).
  - unfold lmain_step in Hs. destruct (l_closed s); [discriminate|].
    destruct ((l_started s <? lane_K s)%nat && (l_started s - l_advanced s <? g_win g)%nat).
    + apply (phi_same s s'); try exact HL; try exact P; inversion Hs; subst s'; cbn; auto.
    + destruct (l_advanced s <? l_started s)%nat.
      * destruct (forallb (todo_done (l_advanced s)) (l_lanes s)); [|discriminate].
        apply (phi_same s s'); try exact HL; try exact P; inversion Hs; subst s'; cbn; auto.
      * destruct (lane_K s <=? l_started s)%nat; [|discriminate].
        apply (phi_same s s'); try exact HL; try exact P; inversion Hs; subst s'; cbn; auto.
  - unfold lsplice_step in Hs. unfold PhI in P |- *. rewrite HL.
    destruct (l_ph s) as [|j|j|j|] eqn:Hph.
    + destruct (l_k s <? l_started s)%nat eqn:Hk.
      * apply Nat.ltb_lt in Hk. inversion Hs; subst s'; cbn. unfold after_switch.
        destruct (Nat.ltb_spec 1 (length (l_lanes s))); repeat split; try lia.
      * destruct (l_closed s); [|discriminate]. inversion Hs; subst s'; cbn. exact I.
    + destruct ((l_k s <? l_started s)%nat && (j <? length (l_lanes s))%nat) eqn:Hg; [|discriminate].
      apply andb_prop in Hg. destruct Hg as [Hk Hj]. apply Nat.ltb_lt in Hk. apply Nat.ltb_lt in Hj.
      inversion Hs; subst s'; cbn. unfold after_switch.
      destruct (Nat.ltb_spec (S j) (length (l_lanes s))); repeat split; try lia.
    + destruct (lane_wdone s j); [|discriminate]. inversion Hs; subst s'; cbn. exact P.
    + destruct (lane_wdone s j); [|discriminate]. destruct P as [Hj Hk].
      destruct (Nat.ltb_spec (S j) (length (l_lanes s))); inversion Hs; subst s'; cbn; [split; lia|exact I].
    + discriminate.
Qed.

(* ---------------------------------------------------------------- the invariant of reachable states *)
Record LGood (Ps : list bytes) (Sss : list (list (list sdata))) (K : nat) (s : lst) : Prop := {
  lg_w : LW K s;
  lg_L : length (l_lanes s) = length Sss;
  lg_inv : forall l, (l < length Sss)%nat -> Inv (nth l Ps []) (nth l Sss []) (proj l s);
  lg_ph : PhI s }.

Lemma lgood_init Ps Sss K : length Ps = length Sss -> (1 <= length Sss)%nat ->
  Forall (fun Ss => length Ss = K) Sss -> LGood Ps Sss K (linit Ps Sss).
Proof.
  intros Hp H1 F. constructor.
  - apply lw_init; assumption.
  - cbn. apply map_length.
  - intros l Hl. rewrite proj_init by exact Hl. apply inv_init.
  - exact I.
Qed.

Lemma lgood_step g Ps Sss K t s s' : g_fifo g = true -> LGood Ps Sss K s -> lstep g t s = Some s' -> LGood Ps Sss K s'.
Proof.
  intros Hg G Hs. pose proof (lg_w _ _ _ _ G) as W. constructor.
  - eapply lw_step; eauto.
  - rewrite (lstep_lanes_length _ _ _ _ Hs). apply (lg_L _ _ _ _ G).
  - intros l Hl. pose proof (lg_inv _ _ _ _ G l Hl) as I.
    assert (Hl' : (l < length (l_lanes s))%nat) by (rewrite (lg_L _ _ _ _ G); exact Hl).
    destruct (proj_sim K g s t l W Hl') as [Heq|[t' Hst]]; unfold lstep_or_stay in *; rewrite Hs in *.
    + rewrite Heq. exact I.
    + eapply inv_step; eauto.
  - eapply phi_step; eauto. apply (lg_ph _ _ _ _ G).
Qed.

Lemma lgood_run g Ps Sss K : g_fifo g = true -> forall sched s, LGood Ps Sss K s -> LGood Ps Sss K (lrun g sched s).
Proof.
  intros Hg. induction sched as [|t r IH]; intros s G; cbn [lrun]; [exact G|]. apply IH.
  unfold lstep_or_stay. destruct (lstep g t s) as [s'|] eqn:E; [eapply lgood_step; eauto|exact G].
Qed.

(* ---------------------------------------------------------------- reading the invariant *)
Lemma proj_fields l s : p_chroms (proj l s) = nth l (l_lanes s) [] /\ p_started (proj l s) = l_started s /\
  p_advanced (proj l s) = l_advanced s /\ p_closed (proj l s) = l_closed s.
Proof. unfold proj. destruct (proj_pos l (l_k s) (l_ph s)). cbn. auto. Qed.

Record lane_ok (K : nat) (s : lst) (l : nat) : Prop := {
  lo_len : length (nth l (l_lanes s) []) = K;
  lo_adv : (l_advanced s <= l_started s)%nat;
  lo_started : (l_started s <= K)%nat;
  lo_closed : l_closed s = true -> l_advanced s = K;
  lo_chrom : forall k c, nth_error (nth l (l_lanes s) []) k = Some c ->
     (c_wdone c = true -> c_fifo c = [] /\ c_open c = false) /\
     (c_open c = false -> c_todo c = []) /\
     ((k < l_advanced s)%nat -> c_open c = false) /\
     ((l_advanced s <= k)%nat -> c_open c = true) }.

Lemma lgood_lane Ps Sss K s l : LGood Ps Sss K s -> (l < length Sss)%nat -> lane_ok K s l.
Proof.
  intros G Hl. pose proof (lg_inv _ _ _ _ G l Hl) as I.
  destruct (proj_fields l s) as [Ec [Es [Ea Ecl]]].
  assert (HK : length (nth l (l_lanes s) []) = K).
  { apply (lw_lane_len K s l (lg_w _ _ _ _ G)). rewrite (lg_L _ _ _ _ G). exact Hl. }
  pose proof (i_len _ _ _ I) as HL. rewrite Ec, HK in HL.
  constructor.
  - exact HK.
  - rewrite <- Ea, <- Es. apply (i_adv _ _ _ I).
  - rewrite <- Es, HL. apply (i_started _ _ _ I).
  - rewrite <- Ecl, <- Ea, HL. apply (i_closed _ _ _ I).
  - intros k c Hc. rewrite <- Ec in Hc. pose proof (i_good _ _ _ I k c Hc) as Gc.
    pose proof (cg_local _ _ _ _ _ _ Gc) as Lc. rewrite Ea in Gc.
    split; [apply (cl_wdone _ _ Lc)|]. split; [apply (cl_closed _ _ Lc)|].
    split; [apply (cg_adv _ _ _ _ _ _ Gc)|apply (cg_notadv _ _ _ _ _ _ Gc)].
Qed.

(* ---------------------------------------------------------------- enabled steps *)
Lemma lon_chrom_enabled s l k ln c f c' : (k < l_started s)%nat ->
  nth_error (l_lanes s) l = Some ln -> nth_error ln k = Some c -> f c = Some c' ->
  exists s', lon_chrom l k f s = Some s'.
Proof.
  intros Hk Hl Hc Hf. apply Nat.ltb_lt in Hk. unfold lon_chrom. rewrite Hk, Hl, Hc, Hf. eexists; reflexivity.
Qed.

(* a started chromosome of a lane whose channel is non-empty, or empty with a closed sender, and whose
   write task has not returned: the write task or the encode task at the head of the channel can move *)
Lemma lane_task_enabled g s l k ln c : g_fifo g = true -> (k < l_started s)%nat ->
  nth_error (l_lanes s) l = Some ln -> nth_error ln k = Some c -> c_wdone c = false ->
  (c_fifo c <> [] \/ c_open c = false) ->
  exists t s', lstep g t s = Some s' /\ (t = LWrite l k \/ t = LEnc l k 0).
Proof.
  intros Hg Hk Hl Hc Hw Hor.
  destruct (c_fifo c) as [|[x b] q] eqn:Ef.
  - destruct Hor as [H|Ho]; [congruence|].
    destruct (lon_chrom_enabled s l k ln c (write_step (g_fifo g)) (mkc (c_todo c) (c_open c) [] (c_out c) true) Hk Hl Hc) as [s' Hs'].
    { rewrite Hg. unfold write_step. rewrite Hw, Ef, Ho. reflexivity. }
    exists (LWrite l k), s'. auto.
  - destruct b.
    + destruct (lon_chrom_enabled s l k ln c (write_step (g_fifo g)) (mkc (c_todo c) (c_open c) q (c_out c ++ [x]) false) Hk Hl Hc) as [s' Hs'].
      { rewrite Hg. unfold write_step. rewrite Hw, Ef. reflexivity. }
      exists (LWrite l k), s'. auto.
    + destruct (lon_chrom_enabled s l k ln c (enc_step 0) (mkc (c_todo c) (c_open c) ((x, true) :: q) (c_out c) (c_wdone c)) Hk Hl Hc) as [s' Hs'].
      { unfold enc_step. rewrite Ef. reflexivity. }
      exists (LEnc l k 0), s'. auto.
Qed.

(* a producer is never stuck for good: with something left to submit it can submit, or its own lane's
   write / encode task can move (the channel is full, hence non-empty) *)
Lemma lane_producer_not_stuck g K s l k c : g_fifo g = true -> (1 <= g_cap g)%nat ->
  lane_ok K s l -> (l < length (l_lanes s))%nat -> (k < l_started s)%nat ->
  nth_error (nth l (l_lanes s) []) k = Some c -> c_todo c <> [] ->
  (exists s', lstep g (LProd l k) s = Some s') \/
  (exists t s', lstep g t s = Some s' /\ (t = LWrite l k \/ t = LEnc l k 0)).
Proof.
  intros Hg Hcap O Hl Hk Hc Ht.
  assert (Hln : nth_error (l_lanes s) l = Some (nth l (l_lanes s) [])) by (apply nth_error_nth'; exact Hl).
  destruct (lo_chrom _ _ _ O k c Hc) as [Hwd [Hcl _]].
  assert (Ho : c_open c = true). { destruct (c_open c) eqn:E; [reflexivity|]. exfalso. apply Ht. apply Hcl. reflexivity. }
  destruct (c_todo c) as [|x r] eqn:Et; [congruence|].
  destruct (length (c_fifo c) <? g_cap g)%nat eqn:Hroom.
  - left. cbn [lstep]. eapply lon_chrom_enabled; eauto. unfold prod_step. rewrite Ho, Et, Hroom. reflexivity.
  - right. apply Nat.ltb_ge in Hroom.
    assert (Hne : c_fifo c <> []). { intros E. rewrite E in Hroom. cbn in Hroom. lia. }
    assert (Hw : c_wdone c = false). { destruct (c_wdone c) eqn:E; [|reflexivity]. destruct (Hwd eq_refl). congruence. }
    eapply lane_task_enabled; eauto.
Qed.

Lemma forallb_false {X} (f : X -> bool) : forall l, forallb f l = false -> exists x, In x l /\ f x = false.
Proof.
  induction l as [|y r IH]; cbn [forallb]; [discriminate|]. destruct (f y) eqn:E; cbn.
  - intros H. destruct (IH H) as [x [Hi Hx]]. exists x. split; [right; exact Hi|exact Hx].
  - intros _. exists y. split; [left; reflexivity|exact E].
Qed.

Definition not_prod (t : ltask) : Prop := match t with LProd _ _ => False | _ => True end.

(* Progress, in the form needed for a producer that serves the lanes one after the other as well: either
   a task other than a producer can move, or the main thread waits for the producers of chromosome
   [l_advanced] and EVERY lane's producer of that chromosome that has something left can submit. *)
Lemma lgood_progress_strong g Ps Sss K s : g_fifo g = true -> (1 <= g_cap g)%nat -> (1 <= g_win g)%nat ->
  LGood Ps Sss K s -> lterminal s = false ->
  (exists t s', lstep g t s = Some s' /\ not_prod t) \/
  (l_closed s = false /\ (l_advanced s < l_started s)%nat /\
   forallb (todo_done (l_advanced s)) (l_lanes s) = false /\
   forall l c, (l < length (l_lanes s))%nat -> nth_error (nth l (l_lanes s) []) (l_advanced s) = Some c ->
     c_todo c <> [] -> exists s', lstep g (LProd l (l_advanced s)) s = Some s').
Proof.
  intros Hg Hcap Hwin G Ht.
  pose proof (lg_w _ _ _ _ G) as W. pose proof (lg_L _ _ _ _ G) as HL. pose proof (lw_some _ _ W) as H1.
  pose proof (lw_K K s W) as HK.
  assert (O : forall l, (l < length (l_lanes s))%nat -> lane_ok K s l).
  { intros l Hl. apply (lgood_lane Ps Sss K s l G). rewrite <- HL. exact Hl. }
  pose proof (O 0%nat H1) as O0.
  assert (Hchrom : forall l k, (l < length (l_lanes s))%nat -> (k < l_started s)%nat ->
            exists c, nth_error (nth l (l_lanes s) []) k = Some c).
  { intros l k Hl Hk. destruct (nth_error (nth l (l_lanes s) []) k) as [c|] eqn:E; [eauto|].
    apply nth_error_None in E. rewrite (lo_len _ _ _ (O l Hl)) in E. pose proof (lo_started _ _ _ (O l Hl)). lia. }
  assert (Hnth : forall l, (l < length (l_lanes s))%nat -> nth_error (l_lanes s) l = Some (nth l (l_lanes s) [])).
  { intros l Hl. apply nth_error_nth'. exact Hl. }
  destruct (l_closed s) eqn:Hc.
  - (* the main thread is finished *)
    left. pose proof (lo_closed _ _ _ O0 Hc) as Hall. pose proof (lo_started _ _ _ O0) as Hst.
    pose proof (lg_ph _ _ _ _ G) as P. unfold PhI in P.
    destruct (l_ph s) as [|j|j|j|] eqn:Hph.
    + exists LSplice. cbn [lstep]. unfold lsplice_step. rewrite Hph, Hc.
      destruct (l_k s <? l_started s)%nat; eexists; (split; [reflexivity|exact I]).
    + destruct P as [_ [Hj Hk]]. exists LSplice. cbn [lstep]. unfold lsplice_step. rewrite Hph.
      apply Nat.ltb_lt in Hj. apply Nat.ltb_lt in Hk. rewrite Hj, Hk. eexists; (split; [reflexivity|exact I]).
    + destruct P as [Hj Hk]. destruct (Hchrom j (l_k s) Hj Hk) as [c Hcc].
      destruct (c_wdone c) eqn:Ew.
      * exists LSplice. cbn [lstep]. unfold lsplice_step, lane_wdone. rewrite Hph, (Hnth j Hj), Hcc, Ew.
        eexists; (split; [reflexivity|exact I]).
      * destruct (lo_chrom _ _ _ (O j Hj) _ c Hcc) as [_ [_ [Hadv _]]].
        destruct (lane_task_enabled g s j (l_k s) _ c Hg Hk (Hnth j Hj) Hcc Ew) as [t [s' [Hs Ht']]].
        { right. apply Hadv. lia. }
        exists t, s'. split; [exact Hs|]. destruct Ht' as [-> | ->]; exact I.
    + destruct P as [Hj Hk]. destruct (Hchrom j (l_k s) Hj Hk) as [c Hcc].
      assert (Hjs : (j < length Sss)%nat) by (rewrite <- HL; exact Hj).
      pose proof (lg_inv _ _ _ _ G j Hjs) as Ij.
      assert (Ew : c_wdone c = true).
      { apply (i_await _ _ _ Ij).
        - unfold proj. rewrite Hph. cbn [proj_pos]. rewrite Nat.ltb_irrefl, Nat.eqb_refl. reflexivity.
        - unfold proj. rewrite Hph. cbn [proj_pos]. rewrite Nat.ltb_irrefl, Nat.eqb_refl. cbn. exact Hcc. }
      exists LSplice. cbn [lstep]. unfold lsplice_step, lane_wdone. rewrite Hph, (Hnth j Hj), Hcc, Ew.
      destruct (S j <? length (l_lanes s))%nat; eexists; (split; [reflexivity|exact I]).
    + unfold lterminal in Ht. rewrite Hph in Ht. discriminate.
  - (* the main thread is not finished *)
    pose proof (lo_adv _ _ _ O0) as Hadv. pose proof (lo_started _ _ _ O0) as Hst.
    destruct ((l_started s <? lane_K s)%nat && (l_started s - l_advanced s <? g_win g)%nat) eqn:Hstart.
    + left. exists LMain. cbn [lstep]. unfold lmain_step. rewrite Hc, Hstart. eexists; (split; [reflexivity|exact I]).
    + destruct (l_advanced s <? l_started s)%nat eqn:Had.
      * destruct (forallb (todo_done (l_advanced s)) (l_lanes s)) eqn:Hall.
        -- left. exists LMain. cbn [lstep]. unfold lmain_step. rewrite Hc, Hstart, Had, Hall.
           eexists; (split; [reflexivity|exact I]).
        -- apply Nat.ltb_lt in Had.
           (* is some lane's channel for chromosome [l_advanced] full? then its write/encode task moves *)
           assert (Hdec : (exists t s', lstep g t s = Some s' /\ not_prod t) \/
                          forall l c, (l < length (l_lanes s))%nat ->
                            nth_error (nth l (l_lanes s) []) (l_advanced s) = Some c -> c_todo c <> [] ->
                            exists s', lstep g (LProd l (l_advanced s)) s = Some s').
           { assert (Hgen : forall n, (n <= length (l_lanes s))%nat ->
                      (exists t s', lstep g t s = Some s' /\ not_prod t) \/
                      forall l c, (l < n)%nat -> nth_error (nth l (l_lanes s) []) (l_advanced s) = Some c ->
                        c_todo c <> [] -> exists s', lstep g (LProd l (l_advanced s)) s = Some s').
             { induction n as [|n IH]; intros Hn.
               - right. intros l c Hl. lia.
               - destruct (IH ltac:(lia)) as [Hl|Hr]; [left; exact Hl|].
                 destruct (Hchrom n (l_advanced s) ltac:(lia) Had) as [c Hcc].
                 destruct (c_todo c) as [|x r] eqn:Etodo.
                 + right. intros l c0 Hl Hc0 Hne. destruct (Nat.eq_dec l n) as [->|Hneq].
                   * rewrite Hcc in Hc0. inversion Hc0; subst c0. congruence.
                   * apply (Hr l c0); [lia|exact Hc0|exact Hne].
                 + destruct (lane_producer_not_stuck g K s n (l_advanced s) c Hg Hcap (O n ltac:(lia)) ltac:(lia) Had Hcc)
                     as [Hp|[t [s' [Hs Ht']]]].
                   { rewrite Etodo. discriminate. }
                   * right. intros l c0 Hl Hc0 Hne. destruct (Nat.eq_dec l n) as [->|Hneq].
                     -- exact Hp.
                     -- apply (Hr l c0); [lia|exact Hc0|exact Hne].
                   * left. exists t, s'. split; [exact Hs|]. destruct Ht' as [-> | ->]; exact I. }
             destruct (Hgen (length (l_lanes s)) (Nat.le_refl _)) as [Hl|Hr]; [left; exact Hl|right].
             intros l c Hl. apply Hr. exact Hl. }
           destruct Hdec as [Hl|Hr]; [left; exact Hl|right]. repeat split; auto.
      * left. apply Nat.ltb_ge in Had. exists LMain. cbn [lstep]. unfold lmain_step. rewrite Hc, Hstart.
        assert (Had' : (l_advanced s <? l_started s)%nat = false) by (apply Nat.ltb_ge; exact Had). rewrite Had'.
        assert (Hallst : (lane_K s <=? l_started s)%nat = true).
        { apply Nat.leb_le. apply andb_false_iff in Hstart. destruct Hstart as [H|H]; apply Nat.ltb_ge in H; lia. }
        rewrite Hallst. eexists; (split; [reflexivity|exact I]).
Qed.

Lemma lgood_progress g Ps Sss K s : g_fifo g = true -> (1 <= g_cap g)%nat -> (1 <= g_win g)%nat ->
  LGood Ps Sss K s -> lterminal s = false -> exists t s', lstep g t s = Some s'.
Proof.
  intros Hg Hcap Hwin G Ht.
  destruct (lgood_progress_strong g Ps Sss K s Hg Hcap Hwin G Ht) as [[t [s' [Hs _]]]|[Hc [Had [Hall Hp]]]].
  - exists t, s'. exact Hs.
  - destruct (forallb_false _ _ Hall) as [ln [Hin Hf]].
    destruct (In_nth _ _ [] Hin) as [l [Hl Hnth]].
    unfold todo_done in Hf. rewrite <- Hnth in Hf.
    destruct (nth_error (nth l (l_lanes s) []) (l_advanced s)) as [c|] eqn:Ec.
    + destruct (c_todo c) eqn:Et; [discriminate|].
      destruct (Hp l c Hl Ec) as [s' Hs]; [rewrite Et; discriminate|]. exists (LProd l (l_advanced s)), s'. exact Hs.
    + exfalso. apply nth_error_None in Ec.
      pose proof (lg_L _ _ _ _ G) as HL.
      pose proof (lgood_lane Ps Sss K s l G ltac:(lia)) as O.
      rewrite (lo_len _ _ _ O) in Ec. pose proof (lo_started _ _ _ O). lia.
Qed.

(* ---------------------------------------------------------------- termination measure *)
Definition lanes_sum (L : list (list chrom)) : nat := sum_nat (map (fun ln => sum_nat (map cmeasure ln)) L).
Definition ph_left (L : nat) (ph : lphase) : nat :=
  match ph with
  | LRecv => 3 * L + 1
  | LSwitch j => 3 * L + 1 - j
  | LAwaitTask j => 2 * (L - j)
  | LAwaitFile j => 2 * (L - j) - 1
  | LDone => 0
  end%nat.
Definition lmeasure (s : lst) : nat :=
  let K := lane_K s in let L := length (l_lanes s) in
  (lanes_sum (l_lanes s) + (K - l_started s) + (K - l_advanced s) + (if l_closed s then 0 else 1)
   + ((3 * L + 1) * (K - l_k s) + ph_left L (l_ph s)))%nat.

Lemma sum_nat_set_nth_gen {X} (f : X -> nat) : forall (l : list X) k x x', nth_error l k = Some x ->
  (sum_nat (map f (set_nth k x' l)) + f x = sum_nat (map f l) + f x')%nat.
Proof.
  induction l as [|y r IH]; intros [|k] x x' Hn; cbn [nth_error] in Hn; try discriminate.
  - inversion Hn; subst y. cbn [set_nth map sum_nat]. lia.
  - cbn [set_nth map sum_nat]. specialize (IH k x x' Hn). lia.
Qed.

Lemma close_at_measure a ln : sum_nat (map cmeasure (close_at a ln)) = sum_nat (map cmeasure ln).
Proof.
  unfold close_at. destruct (nth_error ln a) as [c|] eqn:E; [|reflexivity].
  pose proof (sum_nat_set_nth_gen cmeasure ln a c (close_sender c) E) as H.
  assert (Heq : cmeasure (close_sender c) = cmeasure c) by reflexivity. lia.
Qed.

Lemma lanes_sum_close a : forall L, lanes_sum (map (close_at a) L) = lanes_sum L.
Proof.
  unfold lanes_sum. induction L as [|ln r IH]; cbn [map sum_nat]; [reflexivity|]. rewrite close_at_measure, IH. reflexivity.
Qed.

Lemma lane_K_set_nth s l k c' ln : nth_error (l_lanes s) l = Some ln ->
  length (nth 0 (set_nth l (set_nth k c' ln) (l_lanes s)) []) = lane_K s.
Proof.
  intros Hl. unfold lane_K. destruct l as [|l].
  - destruct (l_lanes s) as [|x r]; cbn in *; [discriminate|]. inversion Hl. rewrite set_nth_length. reflexivity.
  - destruct (l_lanes s) as [|x r]; cbn in *; [discriminate|]. reflexivity.
Qed.

Lemma lon_chrom_measure l k f s s' :
  (forall c c', f c = Some c' -> (cmeasure c' < cmeasure c)%nat) ->
  lon_chrom l k f s = Some s' -> (lmeasure s' < lmeasure s)%nat.
Proof.
  intros Hf. unfold lon_chrom. destruct (k <? l_started s)%nat; [|discriminate].
  destruct (nth_error (l_lanes s) l) as [ln|] eqn:El; [|discriminate].
  destruct (nth_error ln k) as [c|] eqn:Ec; [|discriminate].
  destruct (f c) as [c'|] eqn:Ef; [|discriminate]. intros H. inversion H; subst s'; clear H.
  unfold lmeasure. cbn [l_lanes l_started l_advanced l_closed l_k l_ph]. unfold lane_K at 1 2 3. cbn [l_lanes].
  rewrite (lane_K_set_nth s l k c' ln El), set_nth_length.
  pose proof (sum_nat_set_nth_gen cmeasure ln k c c' Ec) as H1.
  pose proof (sum_nat_set_nth_gen (fun ln => sum_nat (map cmeasure ln)) (l_lanes s) l ln (set_nth k c' ln) El) as H2.
  cbn beta in H2. pose proof (Hf c c' Ef). unfold lanes_sum. fold (lane_K s). lia.
Qed.

Lemma lane_K_map_close a L : length (nth 0 (map (close_at a) L) []) = length (nth 0 L []).
Proof. destruct L as [|x r]; cbn; [reflexivity|]. apply close_at_length. Qed.

Lemma lstep_measure g K t s s' : g_fifo g = true -> LW K s -> PhI s -> (l_started s <= K)%nat -> (l_advanced s <= l_started s)%nat ->
  lstep g t s = Some s' -> (lmeasure s' < lmeasure s)%nat.
Proof.
  intros Hg W P HsK Has. pose proof (lw_K K s W) as HK. pose proof (lw_some _ _ W) as H1.
  destruct t as [|l k|l k i|l k|]; cbn [lstep].
  - unfold lmain_step. rewrite HK. destruct (l_closed s) eqn:Hc; [discriminate|].
    destruct ((l_started s <? K)%nat && (l_started s - l_advanced s <? g_win g)%nat) eqn:Hst.
    + apply andb_prop in Hst. destruct Hst as [Hlt _]. apply Nat.ltb_lt in Hlt.
      intros H. inversion H; subst s'; clear H. unfold lmeasure, lane_K. cbn [l_lanes l_started l_advanced l_closed l_k l_ph].
      fold (lane_K s). rewrite HK, Hc. lia.
    + destruct (l_advanced s <? l_started s)%nat eqn:Had.
      * apply Nat.ltb_lt in Had. destruct (forallb (todo_done (l_advanced s)) (l_lanes s)); [|discriminate].
        intros H. inversion H; subst s'; clear H. unfold lmeasure, lane_K. cbn [l_lanes l_started l_advanced l_closed l_k l_ph].
        rewrite lane_K_map_close, map_length, lanes_sum_close. fold (lane_K s). rewrite HK, Hc. lia.
      * destruct (K <=? l_started s)%nat; [|discriminate].
        intros H. inversion H; subst s'; clear H. unfold lmeasure, lane_K. cbn [l_lanes l_started l_advanced l_closed l_k l_ph].
        fold (lane_K s). rewrite Hc. lia.
  - apply lon_chrom_measure. intros c c'. unfold prod_step. destruct (c_open c); [|discriminate].
    destruct (c_todo c) eqn:Et; [discriminate|]. destruct (length (c_fifo c) <? g_cap g)%nat; [|discriminate].
    intros H. inversion H. unfold cmeasure, pending. cbn [c_todo c_fifo c_wdone]. rewrite Et, filter_app, !app_length. cbn [length filter snd negb]. lia.
  - apply lon_chrom_measure. intros c c'. unfold enc_step.
    destruct (complete_at i (c_fifo c)) as [q|] eqn:E; [|discriminate]. intros H. inversion H.
    destruct (complete_at_pending _ _ _ E) as [Hl Hp]. unfold cmeasure. cbn [c_todo c_fifo c_wdone]. lia.
  - rewrite Hg. apply lon_chrom_measure. intros c c'. unfold write_step. destruct (c_wdone c) eqn:Ew; [discriminate|].
    destruct (c_fifo c) as [|y q] eqn:Ef.
    + destruct (c_open c); [discriminate|]. intros H. inversion H. unfold cmeasure, pending. cbn [c_todo c_fifo c_wdone]. rewrite Ew, Ef. cbn [length filter]. lia.
    + destruct (take_head (y :: q)) as [[x q']|] eqn:E; [|discriminate]. intros H. inversion H.
      destruct (take_head_measure _ _ _ E) as [Hl Hp]. unfold cmeasure. cbn [c_todo c_fifo c_wdone]. rewrite Ew, Ef, Hl, Hp. lia.
  - unfold lsplice_step. unfold PhI in P. intros Hs.
    assert (Hm : forall k' ph', (l_k s < K)%nat \/ (k' = l_k s) ->
              (((3 * length (l_lanes s) + 1) * (K - k') + ph_left (length (l_lanes s)) ph' <
                (3 * length (l_lanes s) + 1) * (K - l_k s) + ph_left (length (l_lanes s)) (l_ph s))%nat) ->
              forall files, s' = mkl (l_lanes s) (l_started s) (l_advanced s) (l_closed s) k' ph' files ->
              (lmeasure s' < lmeasure s)%nat).
    { intros k' ph' _ Hlt files ->. unfold lmeasure, lane_K. cbn [l_lanes l_started l_advanced l_closed l_k l_ph].
      fold (lane_K s). rewrite HK. lia. }
    set (L := length (l_lanes s)) in *.
    destruct (l_ph s) as [|j|j|j|] eqn:Hph.
    + destruct (l_k s <? l_started s)%nat eqn:Hk.
      * inversion Hs; subst s'; clear Hs. eapply Hm; [right; reflexivity| |reflexivity].
        unfold after_switch. fold L. destruct (Nat.ltb_spec 1 L); cbn [ph_left]; lia.
      * destruct (l_closed s); [|discriminate]. inversion Hs; subst s'; clear Hs.
        eapply Hm; [right; reflexivity| |reflexivity]. cbn [ph_left]. lia.
    + destruct ((l_k s <? l_started s)%nat && (j <? L)%nat) eqn:Hgd; [|discriminate].
      apply andb_prop in Hgd. destruct Hgd as [Hk Hj]. apply Nat.ltb_lt in Hj.
      inversion Hs; subst s'; clear Hs. eapply Hm; [right; reflexivity| |reflexivity].
      unfold after_switch. fold L. destruct (Nat.ltb_spec (S j) L); cbn [ph_left]; lia.
    + destruct (lane_wdone s j); [|discriminate]. destruct P as [Hj Hk].
      inversion Hs; subst s'; clear Hs. eapply Hm; [right; reflexivity| |reflexivity]. cbn [ph_left]. lia.
    + destruct (lane_wdone s j); [|discriminate]. destruct P as [Hj Hk].
      destruct (Nat.ltb_spec (S j) L) as [HSj|HSj]; inversion Hs; subst s'; clear Hs.
      * eapply Hm; [right; reflexivity| |reflexivity]. cbn [ph_left]. lia.
      * eapply Hm; [left; lia| |reflexivity]. cbn [ph_left].
        replace (K - l_k s)%nat with (S (K - S (l_k s))) by lia. rewrite Nat.mul_succ_r. lia.
    + discriminate.
Qed.

Lemma lrun_app g a : forall b s, lrun g (a ++ b) s = lrun g b (lrun g a s).
Proof. induction a as [|t r IH]; intros b s; cbn [app lrun]; [reflexivity|apply IH]. Qed.

Lemma lgood_completion g Ps Sss K : g_fifo g = true -> (1 <= g_cap g)%nat -> (1 <= g_win g)%nat ->
  (1 <= length Sss)%nat ->
  forall n s, (lmeasure s <= n)%nat -> LGood Ps Sss K s -> exists more, lterminal (lrun g more s) = true.
Proof.
  intros Hg Hcap Hwin H1. induction n as [|n IH]; intros s Hm G.
  - destruct (lterminal s) eqn:Ht; [exists []; exact Ht|].
    destruct (lgood_progress g Ps Sss K s Hg Hcap Hwin G Ht) as [t [s' Hs]].
    pose proof (lgood_lane Ps Sss K s 0 G H1) as O.
    pose proof (lstep_measure g K t s s' Hg (lg_w _ _ _ _ G) (lg_ph _ _ _ _ G) (lo_started _ _ _ O) (lo_adv _ _ _ O) Hs). lia.
  - destruct (lterminal s) eqn:Ht; [exists []; exact Ht|].
    destruct (lgood_progress g Ps Sss K s Hg Hcap Hwin G Ht) as [t [s' Hs]].
    pose proof (lgood_lane Ps Sss K s 0 G H1) as O.
    pose proof (lstep_measure g K t s s' Hg (lg_w _ _ _ _ G) (lg_ph _ _ _ _ G) (lo_started _ _ _ O) (lo_adv _ _ _ O) Hs) as Hlt.
    destruct (IH s') as [more Hmore]; [lia|eapply lgood_step; eauto|].
    exists (t :: more). cbn [lrun]. unfold lstep_or_stay. rewrite Hs. exact Hmore.
Qed.

(* ---------------------------------------------------------------- the statements used by Properties/C11.v *)
Theorem lanes_progress : forall g Ps Sss K sched, g_fifo g = true -> (1 <= g_cap g)%nat -> (1 <= g_win g)%nat ->
  length Ps = length Sss -> (1 <= length Sss)%nat -> Forall (fun Ss => length Ss = K) Sss ->
  let s := lrun g sched (linit Ps Sss) in
  lterminal s = false -> exists t s', lstep g t s = Some s'.
Proof.
  intros g Ps Sss K sched Hg Hcap Hwin Hp H1 F s Ht.
  apply (lgood_progress g Ps Sss K s Hg Hcap Hwin); [|exact Ht].
  apply lgood_run; [exact Hg|]. apply lgood_init; assumption.
Qed.

Theorem lanes_completion : forall g Ps Sss K sched, g_fifo g = true -> (1 <= g_cap g)%nat -> (1 <= g_win g)%nat ->
  length Ps = length Sss -> (1 <= length Sss)%nat -> Forall (fun Ss => length Ss = K) Sss ->
  exists more, lterminal (lrun g (sched ++ more) (linit Ps Sss)) = true.
Proof.
  intros g Ps Sss K sched Hg Hcap Hwin Hp H1 F.
  destruct (lgood_completion g Ps Sss K Hg Hcap Hwin H1 _ (lrun g sched (linit Ps Sss)) (Nat.le_refl _)) as [more H].
  - apply lgood_run; [exact Hg|]. apply lgood_init; assumption.
  - exists more. rewrite lrun_app. exact H.
Qed.

(* every effective step decreases the measure: no run has more than [lmeasure (linit ..)] effective steps *)
Theorem lanes_measure : forall g Ps Sss K sched t s', g_fifo g = true ->
  length Ps = length Sss -> (1 <= length Sss)%nat -> Forall (fun Ss => length Ss = K) Sss ->
  let s := lrun g sched (linit Ps Sss) in
  lstep g t s = Some s' -> (lmeasure s' < lmeasure s)%nat.
Proof.
  intros g Ps Sss K sched t s' Hg Hp H1 F s Hs.
  assert (G : LGood Ps Sss K s) by (apply lgood_run; [exact Hg|]; apply lgood_init; assumption).
  pose proof (lgood_lane Ps Sss K s 0 G H1) as O.
  apply (lstep_measure g K t s s' Hg (lg_w _ _ _ _ G) (lg_ph _ _ _ _ G) (lo_started _ _ _ O) (lo_adv _ _ _ O) Hs).
Qed.

(* what the shared splice loop and the producers can wait for.
   (1) in the phases after the receive the current chromosome has been started in every lane;
   (2) at await_real_file of lane j the buffer is closed: the blocking Condvar wait is never entered;
   (3) a producer with something left to submit can submit, or the write task / the head encode task of
       ITS OWN lane and chromosome can move (so a producer that serves the lanes one after the other is
       never blocked for good by another lane or by the splice loop). *)
Theorem lanes_waits : forall g Ps Sss K sched, g_fifo g = true -> (1 <= g_cap g)%nat ->
  length Ps = length Sss -> (1 <= length Sss)%nat -> Forall (fun Ss => length Ss = K) Sss ->
  let s := lrun g sched (linit Ps Sss) in
  (l_ph s <> LRecv -> l_ph s <> LDone -> (l_k s < l_started s)%nat /\ (l_started s <= K)%nat) /\
  (forall j, l_ph s = LAwaitFile j -> exists s', lstep g LSplice s = Some s') /\
  (forall l k c, (l < length Sss)%nat -> (k < l_started s)%nat ->
     nth_error (nth l (l_lanes s) []) k = Some c -> c_todo c <> [] ->
     (exists s', lstep g (LProd l k) s = Some s') \/
     (exists t s', lstep g t s = Some s' /\ (t = LWrite l k \/ t = LEnc l k 0))).
Proof.
  intros g Ps Sss K sched Hg Hcap Hp H1 F s.
  assert (G : LGood Ps Sss K s) by (apply lgood_run; [exact Hg|]; apply lgood_init; assumption).
  pose proof (lg_L _ _ _ _ G) as HL. pose proof (lg_ph _ _ _ _ G) as P. unfold PhI in P.
  split; [|split].
  - intros Hr Hd. pose proof (lo_started _ _ _ (lgood_lane Ps Sss K s 0 G H1)) as Hst.
    destruct (l_ph s); try congruence; split; try apply P; exact Hst.
  - intros j Hph. rewrite Hph in P. destruct P as [Hj Hk].
    assert (Hjs : (j < length Sss)%nat) by (rewrite <- HL; exact Hj).
    pose proof (lgood_lane Ps Sss K s j G Hjs) as O. pose proof (lg_inv _ _ _ _ G j Hjs) as Ij.
    destruct (nth_error (nth j (l_lanes s) []) (l_k s)) as [c|] eqn:Hcc.
    2:{ apply nth_error_None in Hcc. rewrite (lo_len _ _ _ O) in Hcc. pose proof (lo_started _ _ _ O). exfalso. lia. }
    assert (Ew : c_wdone c = true).
    { apply (i_await _ _ _ Ij).
      - unfold proj. rewrite Hph. cbn [proj_pos]. rewrite Nat.ltb_irrefl, Nat.eqb_refl. reflexivity.
      - unfold proj. rewrite Hph. cbn [proj_pos]. rewrite Nat.ltb_irrefl, Nat.eqb_refl. cbn. exact Hcc. }
    cbn [lstep]. unfold lsplice_step, lane_wdone. rewrite Hph.
    rewrite (nth_error_nth' (l_lanes s) [] Hj), Hcc, Ew.
    destruct (S j <? length (l_lanes s))%nat; eexists; reflexivity.
  - intros l k c Hl Hk Hc Hne.
    apply (lane_producer_not_stuck g K s l k c Hg Hcap (lgood_lane Ps Sss K s l G Hl)); auto. rewrite HL. exact Hl.
Qed.
