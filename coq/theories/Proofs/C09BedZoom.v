(* C09, bigBed, part 3: the zoom part of a written bigBed as the independent decoder sees it.
   - The decoder's zoom checks for bigBed are those for bigWig minus "record end <= chromosome length"
     (bigBed zoom records may end past the chromosome: the writer only checks entry STARTS).  So a level
     accepted as a bigWig level against a chromosome table with the same ids and sizes 2^32-1 is
     accepted as a bigBed level against the real table ([zoom_level_weaken]); this lets the layout
     induction of Proofs/C09Levels.v (loop_layout, two_pass_layout) be reused unchanged.
   - What the decoder demands of the records is supplied by C08's file-level geometry
     (Proofs/C08FileGeom.zoom_records_fit: sorted, one chromosome, ends <= 2^32-1, covered <= width,
     any arithmetic mode) plus one invariant proved here: every section process_val_zoom sends holds
     between 1 and items_per_slot records ([tile_sections_sized]). *)
From Coq Require Import Sorting.Sorted.
From BT Require Import Base.Util Base.LE Base.Float Generated.Consts Model.RTree Model.BBIFile Model.BigWigWrite Model.BigWigWriteZ
  Model.BigBedWrite Proofs.RTreeCodec Proofs.FileRegions
  Spec.FormatDecode Proofs.C09Base Proofs.C09Codec Proofs.C09Chrom Proofs.C09RTree Proofs.C09Data Proofs.C09Zoom Proofs.C09File Proofs.C09Levels
  Proofs.ZoomBwLevels Proofs.C09BedBlock Proofs.C09BedFile.
From BT Require Model.BedSweep Proofs.BedTile Proofs.BedQuery Proofs.BedEndToEnd Proofs.BedZoomFit Proofs.C08FileGeom Proofs.C08FileQuery
  Proofs.ZoomFile Proofs.C09Whole Proofs.BigWigFileRoundTrip.
Local Open Scope N_scope.
Notation opts_ok := BigWigFileRoundTrip.opts_ok.

(* ---------- bigBed zoom checks are weaker than bigWig zoom checks ---------- *)
Definition big_chrom (c : fchrom) : fchrom := {| fc_name := fc_name c; fc_id := fc_id c; fc_size := 4294967295 |}.

Lemma chrom_size_big chroms id :
  chrom_size (map big_chrom chroms) id = match chrom_size chroms id with Some _ => Some 4294967295 | None => None end.
Proof.
  unfold chrom_size. induction chroms as [|c l IH]; [reflexivity|]. cbn [map filter big_chrom fc_id].
  destruct (fc_id c =? id); [reflexivity|exact IH].
Qed.

Lemma forallb_impl {X} (f g : X -> bool) l : (forall x, f x = true -> g x = true) -> forallb f l = true -> forallb g l = true.
Proof. intros H. rewrite !forallb_forall. intros Hf x Hx. apply H, Hf, Hx. Qed.

Lemma omap_weaken {X Y} (f g : X -> option Y) : (forall x y, f x = Some y -> g x = Some y) ->
  forall l ys, omap f l = Some ys -> omap g l = Some ys.
Proof.
  intros H. induction l as [|x l IH]; intros ys E; cbn [omap] in *; [exact E|].
  destruct (f x) as [y|] eqn:Ef; cbn [obind] in E; [|discriminate]. rewrite (H x y Ef). cbn [obind].
  destruct (omap f l) as [r|] eqn:Er; cbn [obind] in E; [|discriminate]. rewrite (IH r eq_refl). exact E.
Qed.

Lemma zoom_block_weaken img n big inflate chroms ubuf ips l r :
  zoom_block img n big inflate true (map big_chrom chroms) ubuf ips l = Some r ->
  zoom_block img n big inflate false chroms ubuf ips l = Some r.
Proof.
  unfold zoom_block. destruct (block_bytes img n inflate ubuf l) as [d|]; cbn [obind]; [|discriminate].
  rewrite chrom_size_big. destruct (chrom_size chroms (p_sc (fl_span l))) as [cs|]; cbn [obind]; [|discriminate].
  destruct (guard _) as [[]|]; cbn [obind]; [|discriminate].
  match goal with |- obind (guard (forallb ?F ?L)) _ = _ -> obind (guard (forallb ?G ?L)) _ = _ =>
    assert (HH : forallb F L = true -> forallb G L = true) end.
  { apply forallb_impl. intros x Hx. rewrite !andb_true_iff in Hx. rewrite !andb_true_iff. tauto. }
  match goal with |- obind (guard (forallb ?F ?L)) _ = _ -> _ => destruct (forallb F L) eqn:E end; cbn [guard obind]; [|discriminate].
  rewrite (HH eq_refl). cbn [guard obind]. auto.
Qed.

Lemma zoom_level_weaken img n big inflate chroms ubuf z x :
  zoom_level img n big inflate true (map big_chrom chroms) ubuf z = Some x ->
  zoom_level img n big inflate false chroms ubuf z = Some x.
Proof.
  unfold zoom_level. destruct (guard _) as [[]|]; cbn [obind]; [|discriminate].
  destruct (parse_index _ _ _ _ _ _) as [[[h leaves] e]|]; cbn [obind]; [|discriminate].
  destruct (omap (zoom_block img n big inflate true (map big_chrom chroms) ubuf (ih_ips h)) leaves) as [blocks|] eqn:E; cbn [obind]; [|discriminate].
  rewrite (omap_weaken _ _ (zoom_block_weaken img n big inflate chroms ubuf (ih_ips h)) _ _ E). cbn [obind]. auto.
Qed.

(* ---------- every section sent holds 1..items_per_slot records ---------- *)
Definition sized (ips : N) (st : zstate) : Prop :=
  Nlen (zs_records st) < ips /\ Forall (fun rs : list zrec => rs <> [] /\ Nlen rs <= ips) (zs_out st).

Lemma sized_sec ips st : 1 <= ips -> Nlen (zs_records st) <= ips ->
  Forall (fun rs : list zrec => rs <> [] /\ Nlen rs <= ips) (zs_out st) ->
  sized ips (if Nlen (zs_records st) =? ips then BedSweep.send_records st else st).
Proof.
  intros Hi Hl Ho. destruct (Nlen (zs_records st) =? ips) eqn:E.
  - apply N.eqb_eq in E. unfold sized, BedSweep.send_records. cbn [zs_records zs_out]. split; [cbn; lia|].
    apply Forall_app. split; [exact Ho|]. constructor; [|constructor]. split; [|lia].
    intros En. rewrite En in E. cbn in E. lia.
  - apply N.eqb_neq in E. split; [lia|exact Ho].
Qed.

Lemma Nlen_snoc {X} (l : list X) x : Nlen (l ++ [x]) = Nlen l + 1.
Proof. rewrite Nlen_app. reflexivity. Qed.

Lemma sized_iter fp ips size chrom rs re val a st : 1 <= ips -> sized ips st ->
  sized ips (snd (BedTile.tile_iter fp ips size chrom rs re val a st)).
Proof.
  intros Hi [H1 H2]. unfold BedTile.tile_iter. cbv zeta. cbn [snd].
  match goal with |- sized ips (if Nlen (zs_records ?s) =? ips then _ else _) => set (st1 := s) end.
  apply sized_sec; [exact Hi| |]; unfold st1; destruct (_ =? _); unfold BedSweep.push_live; cbn [zs_records zs_out];
    rewrite ?Nlen_snoc; try assumption; lia.
Qed.

Lemma sized_exit ips hn st : 1 <= ips -> sized ips st -> sized ips (BedTile.tile_exit hn st).
Proof.
  intros Hi [H1 H2]. unfold BedTile.tile_exit. destruct hn; [split; assumption|].
  set (st1 := match zs_live st with Some z => BedSweep.push_live st z | None => st end).
  assert (Hs1 : Nlen (zs_records st1) <= ips /\ zs_out st1 = zs_out st).
  { unfold st1. destruct (zs_live st); unfold BedSweep.push_live; cbn [zs_records zs_out]; rewrite ?Nlen_snoc; split; try reflexivity; lia. }
  destruct Hs1 as [Hl Ho]. destruct (zs_records st1) as [|r0 rr] eqn:Er.
  - split; [rewrite Er; cbn; lia|rewrite Ho; exact H2].
  - unfold sized, BedSweep.send_records. cbn [zs_records zs_out]. split; [cbn; lia|].
    apply Forall_app. split; [rewrite Ho; exact H2|]. constructor; [|constructor]. rewrite Er. split; [discriminate|exact Hl].
Qed.

Lemma sized_loop fp ips size chrom rs re val hn : 1 <= ips -> forall fuel a st st',
  sized ips st -> BedSweep.tile_loop fuel fp ips size chrom rs re val hn a st = Ok st' -> sized ips st'.
Proof.
  intros Hi. induction fuel as [|f IH]; intros a st st' Hs H; [discriminate|].
  rewrite BedTile.tile_loop_S in H. destruct (re <=? a).
  - apply Ok_inj in H. subst st'. now apply sized_exit.
  - pose proof (sized_iter fp ips size chrom rs re val a st Hi Hs) as Hn.
    destruct (BedTile.tile_iter fp ips size chrom rs re val a st) as [a1 s1]. cbn [snd] in Hn. exact (IH _ _ _ Hn H).
Qed.

Lemma sized_segs fp ips size chrom hn : 1 <= ips -> forall em st st',
  sized ips st -> BedSweep.tile_segs fp ips size chrom hn em st = Ok st' -> sized ips st'.
Proof.
  intros Hi. induction em as [|g r IH]; intros st st' Hs H; cbn [BedSweep.tile_segs] in H.
  - apply Ok_inj in H. now subst.
  - destruct (BedSweep.tile_loop _ fp ips size chrom _ _ _ hn _ st) as [s1| | |] eqn:E; cbn [rbind] in H; try discriminate.
    exact (IH _ _ (sized_loop fp ips size chrom _ _ _ hn Hi _ _ _ _ Hs E) H).
Qed.

Lemma sized_chrom fp ips size chrom : 1 <= ips -> forall es l st st',
  sized ips st -> BedSweep.bb_zoom_chrom fp ips size chrom l es st = Ok st' -> sized ips st'.
Proof.
  intros Hi. induction es as [|e r IH]; intros l st st' Hs H; cbn [BedSweep.bb_zoom_chrom] in H.
  - apply Ok_inj in H. now subst.
  - destruct (BedSweep.sweep_step l e (hd_error r)) as [em l'].
    destruct (BedSweep.tile_segs fp ips size chrom _ em st) as [s1| | |] eqn:E; cbn [rbind] in H; try discriminate.
    exact (IH _ _ _ (sized_segs fp ips size chrom _ Hi _ _ _ Hs E) H).
Qed.

Theorem tile_sections_sized fp ips size chrom es secs : 1 <= ips ->
  BedSweep.bb_zoom_records fp ips size chrom es = Ok secs -> Forall (fun rs : list zrec => rs <> [] /\ Nlen rs <= ips) secs.
Proof.
  intros Hi H. unfold BedSweep.bb_zoom_records in H.
  destruct (BedSweep.bb_zoom_chrom fp ips size chrom [] es zstate0) as [st| | |] eqn:E; cbn [rbind] in H; try discriminate.
  apply Ok_inj in H. subst secs.
  assert (H0 : sized ips zstate0) by (split; [cbn; lia|constructor]).
  exact (proj2 (sized_chrom fp ips size chrom Hi _ _ _ _ H0 E)).
Qed.

(* ---------- the record lists of a level ---------- *)
Definition chrom_rsecs (fp : fpmode) (ips size : N) (c : bchrom) : list (list zrec) :=
  match BedSweep.bb_zoom_records fp ips size (bc_id c) (sw_entries c) with Ok r => r | _ => [] end.
Definition bb_rsecs (fp : fpmode) (o : opts) (outs : list bchrom) (size : N) : list (list zrec) :=
  flat_map (chrom_rsecs fp (o_ips o) size) outs.

Lemma sorted_zrec_lt q : forall R lo, BedTile.recs_sorted lo R -> Forall (fun z => z_chrom z = q) R -> StronglySorted zrec_lt R.
Proof.
  induction R as [|r R IH]; intros lo Hs Hc; [constructor|]. pose proof (Forall_inv Hc) as Hr. pose proof (Forall_inv_tail Hc) as Hc'. cbn beta in Hr.
  cbn [BedTile.recs_sorted] in Hs. destruct Hs as (A & B & C). constructor; [eapply IH; eassumption|].
  apply Forall_forall. intros x Hx. destruct (C08FileGeom.recs_sorted_in _ _ _ C Hx) as (D & _).
  rewrite Forall_forall in Hc'. right. split; [rewrite (Hc' x Hx); exact Hr|lia].
Qed.

Section BedLevels.
Variables (fp : fpmode) (o : opts) (sizes : list (name * N)) (input : list bitem) (ids : idmap) (outs : list bchrom).
Hypothesis Hcol : bb_collect o sizes input = Ok (ids, outs).
Hypothesis Hopts : opts_ok o.
Hypothesis Hinp : bed_input_ok input.
Hypothesis Hnchr : Nlen (bruns input) < W16.
Hypothesis Hsizes : Forall (fun s : name * N => snd s < W32) sizes.
Let chromsB := map big_chrom (map (chrom_view sizes) ids).
Let ips := o_ips o.

Lemma bl_ips : 1 <= ips <= 65535.
Proof. destruct Hopts as (_ & H). exact H. Qed.

Lemma bl_valid c : In c outs -> BedTile.valid_zoom_chrom BedSweep.U32_MAX (sw_entries c).
Proof.
  intros Hc. destruct (collect_out_facts _ _ _ _ _ Hcol Hinp Hnchr c Hc) as (Hwf & _ & _ & Hok & Hl).
  unfold sw_entries. apply (C08FileQuery.check_entries_valid (bc_len c)).
  - apply BedQuery.wf_check_entries. exact Hwf.
  - destruct (BedEndToEnd.lookup_in _ _ _ Hl) as [k Hk]. rewrite Forall_forall in Hsizes. specialize (Hsizes _ Hk). cbn [snd] in Hsizes.
    unfold BedSweep.U32_MAX, W32 in *. lia.
  - eapply Forall_impl; [|exact Hok]. intros x (_ & H & _). unfold BedSweep.U32_MAX, W32 in *. lia.
Qed.

(* one chromosome *)
Lemma bl_chrom size c : 1 <= size -> In c outs ->
  Forall (zsec_good ips) (chrom_rsecs fp ips size c)
  /\ Forall (fun r => zrec_good chromsB r /\ z_chrom r = bc_id c) (concat (chrom_rsecs fp ips size c))
  /\ StronglySorted zrec_lt (concat (chrom_rsecs fp ips size c)).
Proof.
  intros Hs Hc. unfold chrom_rsecs.
  destruct (BedSweep.bb_zoom_records fp ips size (bc_id c) (sw_entries c)) as [secs| | |] eqn:Er;
    try (split; [constructor|split; constructor]).
  destruct (C08FileGeom.zoom_records_fit fp BedSweep.U32_MAX ips size (bc_id c) (sw_entries c) secs Hs (bl_valid c Hc) Er) as [Hso Hfit].
  pose proof (tile_sections_sized fp ips size (bc_id c) (sw_entries c) secs ltac:(apply bl_ips) Er) as Hsz.
  destruct (collect_out_facts _ _ _ _ _ Hcol Hinp Hnchr c Hc) as (_ & Hcs & Hid & _).
  assert (Hch : Forall (fun z => z_chrom z = bc_id c) (concat secs)).
  { eapply Forall_impl; [|exact Hfit]. now intros z (A & _). }
  split; [|split].
  - apply Forall_forall. intros rs Hrs. rewrite Forall_forall in Hsz. destruct (Hsz rs Hrs) as [Hne Hl].
    split; [exact Hne|]. split; [exact Hl|]. intros f r Hr Hf. rewrite Forall_forall in Hch.
    assert (In1 : In r (concat secs)) by (apply in_concat; exists rs; split; assumption).
    assert (In2 : In f (concat secs)).
    { apply in_concat. exists rs. split; [exact Hrs|]. destruct rs; [discriminate|]. cbn in Hf. injection Hf as ->. now left. }
    now rewrite (Hch r In1), (Hch f In2).
  - apply Forall_forall. intros z Hz. rewrite Forall_forall in Hfit. destruct (Hfit z Hz) as (A & B & C).
    destruct (C08FileGeom.recs_sorted_in _ _ _ Hso Hz) as (_ & D & _).
    split; [|exact A]. unfold zrec_good, zrec_ok. rewrite A. unfold BedSweep.U32_MAX, W16, W32 in *.
    split; [repeat split; lia|]. split; [exact D|]. split; [exact C|]. exists 4294967295. split; [|lia].
    unfold chromsB. rewrite chrom_size_big, Hcs. reflexivity.
  - eapply sorted_zrec_lt; eassumption.
Qed.

(* a whole level *)
Lemma bed_level_good size : 1 <= size ->
  Forall (zsec_good ips) (bb_rsecs fp o outs size) /\ Forall (zrec_good chromsB) (concat (bb_rsecs fp o outs size))
  /\ StronglySorted zrec_lt (concat (bb_rsecs fp o outs size)).
Proof.
  intros Hs. unfold bb_rsecs. fold ips. split; [|split].
  - apply Forall_forall. intros rs Hrs. apply in_flat_map in Hrs as [c [Hc Hrs]].
    destruct (bl_chrom size c Hs Hc) as (H & _). rewrite Forall_forall in H. exact (H rs Hrs).
  - rewrite concat_flat_map. apply Forall_forall. intros r Hr. apply in_flat_map in Hr as [c [Hc Hr]].
    destruct (bl_chrom size c Hs Hc) as (_ & H & _). rewrite Forall_forall in H. now destruct (H r Hr).
  - rewrite concat_flat_map.
    destruct (collect_facts _ _ _ _ _ Hcol) as (_ & _ & Hbcids & _).
    assert (Hids : StronglySorted N.lt (map bc_id outs)) by (rewrite Hbcids; apply seqN_sorted).
    assert (G : forall l, (forall c, In c l -> In c outs) -> StronglySorted N.lt (map bc_id l) ->
                StronglySorted zrec_lt (flat_map (fun c => concat (chrom_rsecs fp ips size c)) l)).
    { induction l as [|c l IH]; intros Hsub Hso; [constructor|]. rewrite fm_cons. cbn [map] in Hso. inversion Hso as [|? ? Hso' Hlt]; subst.
      destruct (bl_chrom size c Hs (Hsub c (or_introl eq_refl))) as (_ & Hall & Hsc).
      apply BedEndToEnd.SSorted_app; [exact Hsc|apply IH; [intros x Hx; apply Hsub; now right|exact Hso']|].
      intros a b' Ha Hb'. apply in_flat_map in Hb' as [c' [Hc' Hb']].
      destruct (bl_chrom size c' Hs (Hsub c' (or_intror Hc'))) as (_ & Hall' & _).
      rewrite Forall_forall in Hall, Hall', Hlt. destruct (Hall a Ha) as [_ Ea]. destruct (Hall' b' Hb') as [_ Eb].
      left. rewrite Ea, Eb. apply Hlt. now apply in_map. }
    apply G; [auto|exact Hids].
Qed.

(* bb_zoom_level gives the encodings of those record lists *)
Lemma mapM_encode_zp : forall recs a, mapM (encode_zoom_section fp) recs = Ok a -> a = map (zpsec fp) recs.
Proof.
  induction recs as [|rs recs IH]; intros a H; cbn [mapM] in H; [apply Ok_inj in H; now subst|].
  destruct (encode_zoom_section fp rs) as [sd| | |] eqn:E; cbn [rbind] in H; try discriminate.
  destruct (mapM (encode_zoom_section fp) recs) as [more| | |] eqn:Em; cbn [rbind] in H; try discriminate.
  apply Ok_inj in H. subst a. cbn [map]. f_equal; [|now apply IH].
  destruct rs as [|f r]; [discriminate|]. rewrite encode_zpsec in E by discriminate. now apply Ok_inj in E.
Qed.

Lemma level_secs size : forall l secs,
  concat_res (map (fun c => do recs <- BedSweep.bb_zoom_records fp (o_ips o) size (bc_id c) (sw_entries c);
                            mapM (encode_zoom_section fp) recs) l) = Ok secs ->
  secs = zsecs fp (flat_map (chrom_rsecs fp (o_ips o) size) l)
  /\ Forall (fun c => exists recs, BedSweep.bb_zoom_records fp (o_ips o) size (bc_id c) (sw_entries c) = Ok recs) l.
Proof.
  induction l as [|c l IH]; intros secs H; cbn [map concat_res fold_right] in H.
  - apply Ok_inj in H. subst. split; [reflexivity|constructor].
  - fold (concat_res (map (fun c => do recs <- BedSweep.bb_zoom_records fp (o_ips o) size (bc_id c) (sw_entries c);
                                    mapM (encode_zoom_section fp) recs) l)) in H.
    destruct (BedSweep.bb_zoom_records fp (o_ips o) size (bc_id c) (sw_entries c)) as [recs| | |] eqn:Er; cbn [rbind] in H; try discriminate.
    destruct (mapM (encode_zoom_section fp) recs) as [a| | |] eqn:Ea; cbn [rbind] in H; try discriminate.
    destruct (concat_res _) as [b| | |] eqn:Eb; cbn [rbind] in H; try discriminate. apply Ok_inj in H. subst secs.
    destruct (IH b eq_refl) as [E1 E2]. split.
    + rewrite fm_cons. unfold zsecs. rewrite map_app. unfold chrom_rsecs at 1. rewrite Er.
      rewrite (mapM_encode_zp _ _ Ea). f_equal. exact E1.
    + constructor; [exists recs; exact Er|exact E2].
Qed.

Definition bzl (size : N) : BBIFile.zoom_level := {| zl_res := size; zl_secs := zsecs fp (bb_rsecs fp o outs size) |}.
Definition level_runs (size : N) : Prop :=
  Forall (fun c => exists recs, BedSweep.bb_zoom_records fp (o_ips o) size (bc_id c) (sw_entries c) = Ok recs) outs.

Lemma bed_levels_built : forall zsizes zooms, mapM (bb_zoom_level fp o outs) zsizes = Ok zooms ->
  zooms = map bzl zsizes /\ Forall level_runs zsizes.
Proof.
  induction zsizes as [|z zs IH]; intros zooms H; cbn [mapM] in H.
  - apply Ok_inj in H. subst. split; [reflexivity|constructor].
  - destruct (bb_zoom_level fp o outs z) as [zl| | |] eqn:E; cbn [rbind] in H; try discriminate.
    destruct (mapM (bb_zoom_level fp o outs) zs) as [more| | |] eqn:Em; cbn [rbind] in H; try discriminate.
    apply Ok_inj in H. subst zooms. destruct (IH more eq_refl) as [E1 E2].
    unfold bb_zoom_level in E. destruct (concat_res _) as [secs| | |] eqn:Es; cbn [rbind] in E; try discriminate.
    apply Ok_inj in E. subst zl. destruct (level_secs z outs secs Es) as [-> Hr].
    split; [cbn [map]; f_equal; exact E1|constructor; [exact Hr|exact E2]].
Qed.
End BedLevels.

(* ---------- both zoom writers: the kept levels, as the bigBed decoder sees them ---------- *)
Definition bb_level_content (fp : fpmode) (o : opts) (outs : list bchrom) (size : N) : N * list fzrec :=
  (size, map (zr_view fp) (concat (bb_rsecs fp o outs size))).

Lemma lv_uncompressed fp compress rsecs size :
  lv fp compress false rsecs size = {| zl_res := size; zl_secs := zsecs fp (rsecs size) |}.
Proof.
  unfold lv, zlevel. cbn [zl_res zl_secs]. f_equal. rewrite <- (map_id (zsecs fp (rsecs size))) at 2. apply map_ext. reflexivity.
Qed.

Section BedZoomLaid.
Variables (fp : fpmode) (o : opts) (sizes : list (name * N)) (input : list bitem) (ids : idmap) (outs : list bchrom).
Variables (bs : list N) (inflate : N -> N -> option (list N)).
Hypothesis Hcol : bb_collect o sizes input = Ok (ids, outs).
Hypothesis Hopts : opts_ok o.
Hypothesis Hinp : bed_input_ok input.
Hypothesis Hnchr : Nlen (bruns input) < W16.
Hypothesis Hsizes : Forall (fun s : name * N => snd s < W32) sizes.
Hypothesis Hsize : Nlen bs < W64.
Let chroms := map (chrom_view sizes) ids.

Lemma laid_weaken pos bytes hdrs :
  laid_out fp (map big_chrom chroms) bs (Nlen bs) inflate 0 (bb_rsecs fp o outs) pos bytes hdrs ->
  exists zl, omap (zoom_level bs (Nlen bs) false inflate false chroms 0) (map zh_view hdrs) = Some zl
    /\ Forall zh_ok hdrs
    /\ reg_chain pos (zoom_regions zl) /\ chain_end pos (zoom_regions zl) <= pos + Nlen bytes
    /\ zoom_content zl = map (fun h => bb_level_content fp o outs (zh_res h)) hdrs.
Proof.
  intros (zl & Hom & Hok & Hch & Hend & Hcont). exists zl. split; [|auto].
  eapply omap_weaken; [|exact Hom]. intros z x. apply zoom_level_weaken.
Qed.

Theorem bed_zoom_laid two_pass sum ds zpos zbytes zhdrs :
  C08FileQuery.zoom_res_u32 two_pass o ->
  (if two_pass then bb_zoom_two_pass fp o outs sum ds zpos else bb_zoom_single fp o outs sum ds zpos) = Ok (zbytes, zhdrs) ->
  has_at bs zpos zbytes ->
  exists zl, omap (zoom_level bs (Nlen bs) false inflate false chroms 0) (map zh_view zhdrs) = Some zl
    /\ Forall zh_ok zhdrs /\ Nlen zhdrs <= 10 /\ inc_from 0 (map zh_res zhdrs)
    /\ reg_chain zpos (zoom_regions zl) /\ chain_end zpos (zoom_regions zl) <= zpos + Nlen zbytes
    /\ zoom_content zl = map (fun h => bb_level_content fp o outs (zh_res h)) zhdrs
    /\ Forall (fun h => level_runs fp o outs (zh_res h)) zhdrs
    /\ (two_pass = false -> incl (map zh_res zhdrs) (zoom_sizes_single o)).
Proof.
  intros Hu H Hat.
  destruct (C08FileQuery.zoom_part_spec two_pass fp o outs sum ds zpos zbytes zhdrs Hu H) as (_ & _ & _ & _ & Hinc & Hcap & _).
  pose proof (bed_level_good fp o sizes input ids outs Hcol Hopts Hinp Hnchr Hsizes) as Hgood.
  assert (Hmode : blk_mode false 0) by (left; split; reflexivity).
  assert (Hcne : forall b, C09Whole.pad1 b <> []) by discriminate.
  assert (Hcap10 : Nlen zhdrs <= 10) by exact Hcap.
  destruct two_pass.
  - unfold bb_zoom_two_pass in H. cbv zeta in H.
    set (zsizes := zoom_sizes_two_pass o sum (total_zoom_counts (map chrom_out_of outs)) ds) in *.
    destruct (mapM (bb_zoom_level fp o outs) zsizes) as [zooms| | |] eqn:E; cbn [rbind] in H; try discriminate.
    destruct (bed_levels_built fp o outs zsizes zooms E) as [Ez Hruns].
    pose proof (write_zooms_two_pass_res _ _ _ _ _ H) as Hres. rewrite Ez, map_map in Hres. cbn [bzl zl_res] in Hres. rewrite map_id in Hres.
    assert (Ew : write_zooms_two_pass o zpos (map (lv fp C09Whole.pad1 false (bb_rsecs fp o outs)) zsizes) = Ok (zbytes, zhdrs)).
    { rewrite <- H, Ez. f_equal. apply map_ext. intros z. now rewrite lv_uncompressed. }
    assert (Hsok : Forall (size_ok false 0 (bb_rsecs fp o outs)) zsizes).
    { pose proof (ZoomFile.two_pass_sizes_u32 o sum (total_zoom_counts (map chrom_out_of outs)) ds Hu) as Hall. fold zsizes in Hall.
      pose proof (C08FileQuery.inc_from_all _ _ (zoom_sizes_two_pass_inc o sum (map chrom_out_of outs) ds)) as Hpos. fold zsizes in Hpos.
      apply Forall_forall. intros z Hz. rewrite Forall_forall in Hall, Hpos. specialize (Hall z Hz). specialize (Hpos z Hz). cbn beta in Hpos.
      split; [unfold U32, W32 in *; lia|discriminate]. }
    destruct (laid_weaken zpos zbytes zhdrs
                (two_pass_layout fp o _ bs (Nlen bs) inflate C09Whole.pad1 false 0 eq_refl Hsize Hopts Hcne Hmode ltac:(discriminate)
                   (bb_rsecs fp o outs) Hgood zsizes zpos zbytes zhdrs Hsok Ew Hat)) as (zl & A & B & C & D & F).
    exists zl. split; [exact A|]. split; [exact B|]. split; [exact Hcap10|]. split; [exact Hinc|]. split; [exact C|]. split; [exact D|].
    split; [exact F|]. split; [|discriminate].
    rewrite Forall_forall in Hruns. apply Forall_forall. intros h Hh. apply Hruns. rewrite <- Hres. now apply in_map.
  - unfold bb_zoom_single in H.
    destruct (mapM (bb_zoom_level fp o outs) (zoom_sizes_single o)) as [zooms| | |] eqn:E; cbn [rbind] in H; try discriminate.
    destruct (bed_levels_built fp o outs _ zooms E) as [Ez Hruns].
    pose proof (C09Whole.write_zooms_loop_incl _ _ _ _ _ _ _ _ H) as Hincl. rewrite Ez, map_map in Hincl. cbn [bzl zl_res] in Hincl. rewrite map_id in Hincl.
    assert (Ew : write_zooms_loop o ds zpos (map (lv fp C09Whole.pad1 false (bb_rsecs fp o outs)) (zoom_sizes_single o)) None 0 = Ok (zbytes, zhdrs)).
    { rewrite <- H, Ez. f_equal. apply map_ext. intros z. now rewrite lv_uncompressed. }
    assert (Hsok : Forall (size_ok false 0 (bb_rsecs fp o outs)) (zoom_sizes_single o)).
    { pose proof (C08FileQuery.inc_from_all _ _ (zoom_sizes_single_inc o)) as Hpos.
      apply Forall_forall. intros z Hz. unfold C08FileQuery.zoom_res_u32 in Hu. rewrite Forall_forall in Hu, Hpos.
      specialize (Hu z Hz). specialize (Hpos z Hz). cbn beta in Hpos.
      split; [unfold U32, W32 in *; lia|discriminate]. }
    destruct (laid_weaken zpos zbytes zhdrs
                (loop_layout fp o _ bs (Nlen bs) inflate C09Whole.pad1 false 0 eq_refl Hsize Hopts Hcne Hmode ltac:(discriminate)
                   (bb_rsecs fp o outs) Hgood (zoom_sizes_single o) ds zpos None 0 zbytes zhdrs Hsok Ew Hat)) as (zl & A & B & C & D & F).
    exists zl. split; [exact A|]. split; [exact B|]. split; [exact Hcap10|]. split; [exact Hinc|]. split; [exact C|]. split; [exact D|].
    split; [exact F|]. split; [|intros _; exact Hincl].
    rewrite Forall_forall in Hruns. apply Forall_forall. intros h Hh. apply Hruns. apply Hincl. now apply in_map.
Qed.
End BedZoomLaid.
