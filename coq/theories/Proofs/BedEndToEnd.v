(* C02 / C04 end to end on the bytes of the written file: for every file the bigBed writer model
   produces (whatever the summary sweep and the zoom part are), read_info succeeds and the reader's
   interval query returns exactly the filter of the chromosome's entries, the item count is the
   number of entries, the autoSql comes back verbatim and the chromosome table is the table of the
   chromosomes that had data.  Put together from: BedAssemble (layout of the file), BedReadInfo
   (header, chromosome tree), BedImage (index + blocks), BedCodec, BedQuery. *)
From Coq Require Import Sorting.Sorted.
From BT Require Import Base.Util Base.LE Base.Float Generated.Consts Model.RTree Model.BBIFile Model.BigWigWrite Model.BBIRead
  Model.BigBedWrite Model.BBIReadBed Proofs.Chunks Proofs.RTreeAbs Proofs.RTreeBuild Proofs.RTreeCodec
  Proofs.BedQuery Proofs.BedCodec Proofs.BedImage Proofs.BedAssemble Proofs.BedReadInfo.
From BT Require Model.AutoSql.
Local Open Scope N_scope.

(* ---- ids: with one run per chromosome the ids are 0,1,2,... in file order ---- *)
Fixpoint seqN (start : N) (n : nat) : list N := match n with O => [] | S k => start :: seqN (start + 1) k end.

Lemma name_eqb_false a b : a <> b -> name_eqb a b = false.
Proof. intros H. destruct (name_eqb a b) eqn:E; [apply name_eqb_true in E; contradiction|reflexivity]. Qed.
Lemma lookup_app_none {V} k (l1 l2 : list (name * V)) : lookup k l1 = None -> lookup k (l1 ++ l2) = lookup k l2.
Proof.
  induction l1 as [|[k' v] l1 IH]; intros H; [reflexivity|]. cbn [lookup app] in *.
  destruct (name_eqb k k'); [discriminate|]. apply IH. exact H.
Qed.

Lemma lookup_app {V} k (l1 l2 : list (name * V)) :
  lookup k (l1 ++ l2) = match lookup k l1 with Some v => Some v | None => lookup k l2 end.
Proof.
  induction l1 as [|[k' v] l1 IH]; [reflexivity|]. cbn [lookup app].
  destruct (name_eqb k k'); [reflexivity|exact IH].
Qed.

(* accepted runs: distinct names (a chromosome that comes back is refused), ids 0,1,2,... *)
Lemma process_bruns_ids o sizes : forall rs prev ids ids' outs,
  process_bruns o sizes prev ids rs = Ok (ids', outs) ->
  ids' = ids ++ combine (map fst rs) (seqN (Nlen ids) (length rs))
  /\ map bc_id outs = seqN (Nlen ids) (length rs)
  /\ NoDup (map fst rs) /\ (forall c, In c (map fst rs) -> lookup c ids = None).
Proof.
  induction rs as [|[c es] rest IH]; intros prev ids ids' outs H; cbn [process_bruns] in H.
  - apply Ok_inj in H. inversion H; subst. split; [now rewrite app_nil_r|]. split; [reflexivity|].
    split; [constructor|intros c []].
  - destruct (negb _); [discriminate|].
    destruct (lookup c sizes) as [len|]; [|discriminate].
    destruct (lookup c ids) as [?|] eqn:Eseen; [discriminate|].
    unfold get_id in H. rewrite Eseen in H.
    destruct (check_entries len es) as [[]| | |]; cbn [rbind] in H; try discriminate.
    destruct (process_bruns o sizes (Some c) (ids ++ [(c, Nlen ids)]) rest) as [[ids2 outs2]| | |] eqn:Er; cbn [rbind] in H; try discriminate.
    apply Ok_inj in H. inversion H; subst. clear H.
    destruct (IH _ _ _ _ Er) as [E1 [E2 [Hnd Hfresh]]].
    assert (HN : Nlen (ids ++ [(c, Nlen ids)]) = Nlen ids + 1) by (unfold Nlen; rewrite app_length; cbn [length]; lia).
    rewrite HN in E1, E2.
    assert (Hrest : forall c', In c' (map fst rest) -> lookup c' ids = None /\ c' <> c).
    { intros c' Hc'. specialize (Hfresh c' Hc'). rewrite lookup_app in Hfresh.
      destruct (lookup c' ids) eqn:E; [discriminate|]. split; [reflexivity|].
      intros ->. cbn [lookup] in Hfresh. rewrite name_eqb_refl in Hfresh. discriminate. }
    split; [rewrite E1; cbn [map fst length seqN combine]; now rewrite <- app_assoc|].
    split; [cbn [map bc_id length seqN]; now rewrite E2|]. split.
    + cbn [map fst]. constructor; [|exact Hnd]. intros Hin. destruct (Hrest c Hin) as [_ Hne]. congruence.
    + intros c' [<-|Hc']; [exact Eseen|]. apply (Hrest c' Hc').
Qed.

Lemma seqN_lt_sorted start n : StronglySorted N.lt (seqN start n).
Proof.
  revert start. induction n as [|n IH]; intros start; [constructor|]. cbn [seqN]. constructor; [apply IH|].
  assert (H : forall m s, start < s -> Forall (N.lt start) (seqN s m)).
  { induction m as [|m IHm]; intros s Hs; [constructor|]. cbn [seqN]. constructor; [exact Hs|apply IHm; lia]. }
  apply H. lia.
Qed.
Lemma seqN_bound start n x : In x (seqN start n) -> x < start + N.of_nat n.
Proof.
  revert start. induction n as [|n IH]; intros start Hin; [destruct Hin|].
  cbn [seqN] in Hin. destruct Hin as [<-|Hin]; [lia|]. apply IH in Hin. lia.
Qed.

Lemma combine_seqN_fst {X} (l : list X) : forall st, map fst (combine l (seqN st (length l))) = l.
Proof. induction l as [|x l IH]; intros st; [reflexivity|]. cbn [length seqN combine map fst]. now rewrite IH. Qed.
Lemma combine_seqN_snd {X} (l : list X) : forall st, map snd (combine l (seqN st (length l))) = seqN st (length l).
Proof. induction l as [|x l IH]; intros st; [reflexivity|]. cbn [length seqN combine map snd]. now rewrite IH. Qed.

(* ---- the data sections the writer produces ---- *)
Definition groups_of (outs : list bchrom) : list (N * list entry) := map (fun c => (bc_id c, bc_entries c)) outs.

Lemma mapM_encode chrom : forall cs, Forall (fun c => c <> []) cs ->
  mapM (encode_bed_section chrom) cs = Ok (map (fun c => sd_of (chrom, c)) cs).
Proof.
  induction 1 as [|c cs Hc _ IH]; [reflexivity|]. cbn [mapM map]. rewrite encode_sd by exact Hc. cbn [rbind].
  rewrite IH. reflexivity.
Qed.
Lemma bb_data_sections o outs : bb_data o outs = Ok (map sd_of (gsecs (o_ips o) (groups_of outs))).
Proof.
  unfold bb_data, groups_of. induction outs as [|c outs IH]; [reflexivity|].
  cbn [map concat_res fold_right]. unfold concat_res in IH. rewrite IH. cbn [rbind].
  unfold bed_sections. rewrite mapM_encode.
  - cbn [rbind]. unfold gsecs. cbn [flat_map fst snd]. rewrite map_app, map_map. reflexivity.
  - rewrite sections_are_chunks. apply chunks_nonempty. unfold slot. lia.
Qed.

(* ---- spans of the placed sections ---- *)
Definition gspan (g : N * list entry) : span :=
  {| sc := sd_chrom (sd_of g); sb := sd_start (sd_of g); ec := sd_chrom (sd_of g); eb := sd_end (sd_of g) |}.
Lemma place_spans : forall gs off, map sect_span (place off (map sd_of gs)) = map gspan gs.
Proof. induction gs as [|g gs IH]; intros off; [reflexivity|]. cbn [map place]. now rewrite IH. Qed.

Lemma SSorted_app {X} (R : X -> X -> Prop) l1 l2 : StronglySorted R l1 -> StronglySorted R l2 ->
  (forall a b, In a l1 -> In b l2 -> R a b) -> StronglySorted R (l1 ++ l2).
Proof.
  induction 1 as [|x l1 Hs IH Hall]; intros H2 Hc; [exact H2|]. cbn [app]. constructor.
  - apply IH; [exact H2|]. intros a b Ha Hb. apply Hc; [right; exact Ha|exact Hb].
  - apply Forall_app. split; [exact Hall|]. apply Forall_forall. intros b Hb. apply Hc; [left; reflexivity|exact Hb].
Qed.
Lemma SSorted_map {X Y} (R : X -> X -> Prop) (R' : Y -> Y -> Prop) (f : X -> Y) l :
  (forall a b, R a b -> R' (f a) (f b)) -> StronglySorted R l -> StronglySorted R' (map f l).
Proof.
  intros Hf. induction 1 as [|x l Hs IH Hall]; [constructor|]. cbn [map]. constructor; [exact IH|].
  apply Forall_forall. intros y Hy. apply in_map_iff in Hy as [a [<- Ha]]. apply Hf. rewrite Forall_forall in Hall. auto.
Qed.

Definition first_start (c : list entry) : N := match c with f :: _ => e_start f | [] => 0 end.

(* the chunks of a start-sorted list start in non-decreasing order *)
Lemma chunk_firsts_sorted : forall cs : list (list entry), Forall (fun c => c <> []) cs -> starts_sorted (concat cs) ->
  StronglySorted (fun a b => first_start a <= first_start b) cs.
Proof.
  induction cs as [|c cs IH]; intros Hne Hs; [constructor|].
  inversion Hne as [|? ? Hc Hne']; subst. cbn [concat] in Hs. constructor.
  - apply IH; [exact Hne'|eapply sorted_app_r; exact Hs].
  - apply Forall_forall. intros d Hd.
    destruct c as [|f c']; [congruence|]. cbn [first_start].
    rewrite Forall_forall in Hne'. specialize (Hne' d Hd). destruct d as [|g d']; [congruence|]. cbn [first_start].
    cbn [app] in Hs. inversion Hs as [|? ? _ Hall]; subst. rewrite Forall_forall in Hall. apply Hall.
    apply in_or_app. right. apply in_concat. exists (g :: d'). split; [exact Hd|left; reflexivity].
Qed.

Lemma gsecs_in ips groups a : In a (gsecs ips groups) -> exists g, In g groups /\ fst a = fst g /\ snd a <> [].
Proof.
  unfold gsecs. intros H. apply in_flat_map in H as [g [Hg Ha]]. apply in_map_iff in Ha as [c [<- Hc]].
  exists g. split; [exact Hg|]. split; [reflexivity|]. cbn [snd].
  rewrite sections_are_chunks in Hc. pose proof (chunks_nonempty (slot ips) (snd g) ltac:(unfold slot; lia)) as Hn.
  rewrite Forall_forall in Hn. apply Hn. exact Hc.
Qed.

Lemma gsecs_sorted ips : forall groups, StronglySorted N.lt (map fst groups) ->
  Forall (fun g => starts_sorted (snd g)) groups ->
  sorted_starts (map gspan (gsecs ips groups)).
Proof.
  intros groups Hid Hs. unfold sorted_starts.
  apply (SSorted_map (fun a b => ple (fst a) (first_start (snd a)) (fst b) (first_start (snd b)))).
  { intros a b H. unfold start_le, gspan. cbn [sc sb]. rewrite !sd_of_chrom.
    unfold sd_of. destruct (snd a) as [|fa ra]; destruct (snd b) as [|fb rb]; cbn [sd_start first_start] in *; exact H. }
  induction groups as [|g groups IH]; [constructor|].
  cbn [map] in Hid. inversion Hid as [|? ? Hid' Hlt]; subst. inversion Hs as [|? ? Hsg Hs']; subst.
  unfold gsecs. cbn [flat_map]. fold (gsecs ips groups). apply SSorted_app.
  - (* within one chromosome *)
    apply (SSorted_map (fun a b => first_start a <= first_start b)).
    + intros a b H. cbn [fst snd]. right. split; [reflexivity|exact H].
    + rewrite sections_are_chunks. assert (Hb : (0 < slot ips)%nat) by (unfold slot; lia).
      apply chunk_firsts_sorted; [apply chunks_nonempty; exact Hb|rewrite chunks_concat by exact Hb; exact Hsg].
  - apply IH; assumption.
  - intros a b Ha Hb. apply in_map_iff in Ha as [c [<- _]]. cbn [fst snd].
    destruct (gsecs_in _ _ _ Hb) as [g' [Hg' [E _]]]. rewrite E. left.
    rewrite Forall_forall in Hlt. apply Hlt. apply in_map. exact Hg'.
Qed.

(* ---- offsets of placed sections ---- *)
Lemma place_bounds : forall data off s, In s (place off data) ->
  off <= s_off s /\ s_off s + s_size s <= off + Nlen (data_bytes data).
Proof.
  induction data as [|d data IH]; intros off s Hin; [destruct Hin|].
  cbn [place] in Hin. unfold data_bytes. cbn [flat_map]. fold (data_bytes data). rewrite Nlen_app.
  destruct Hin as [<-|Hin]; cbn [s_off s_size]; [lia|]. apply IH in Hin. lia.
Qed.
Lemma place_fields : forall gs off s, In s (place off (map sd_of gs)) ->
  exists g, In g gs /\ s_chrom s = fst g /\ s_start s = sd_start (sd_of g) /\ s_end s = sd_end (sd_of g).
Proof.
  induction gs as [|g gs IH]; intros off s Hin; [destruct Hin|].
  cbn [map place] in Hin. destruct Hin as [<-|Hin].
  - exists g. cbn [s_chrom s_start s_end]. rewrite sd_of_chrom. auto with datatypes.
  - destruct (IH _ _ Hin) as [g' [Hg' H]]. exists g'. split; [right; exact Hg'|exact H].
Qed.

Lemma sd_of_ok g : snd g <> [] -> Forall entry_ok (snd g) -> sd_start (sd_of g) < U32 /\ sd_end (sd_of g) < U32.
Proof.
  intros Hne Hok. unfold sd_of. destruct (snd g) as [|f r] eqn:E; [congruence|]. cbn [sd_start sd_end].
  rewrite Forall_forall in Hok. split.
  - destruct (Hok f (or_introl eq_refl)) as [H _]. exact H.
  - destruct (max_end_in f r) as [x [Hx ->]]. destruct (Hok x Hx) as [_ [H _]]. exact H.
Qed.

(* ---- find on groups with distinct ids ---- *)
Lemma find_group (groups : list (N * list entry)) q es : NoDup (map fst groups) -> In (q, es) groups ->
  find (fun g => fst g =? q) groups = Some (q, es).
Proof.
  induction groups as [|g groups IH]; intros Hnd Hin; [destruct Hin|].
  cbn [find]. inversion Hnd as [|? ? Hnotin Hnd']; subst. destruct Hin as [->|Hin].
  - cbn [fst]. now rewrite N.eqb_refl.
  - destruct (fst g =? q) eqn:E.
    + apply N.eqb_eq in E. exfalso. apply Hnotin. rewrite E. change q with (fst (q, es)). apply in_map. exact Hin.
    + apply IH; assumption.
Qed.

Lemma SSorted_lt_NoDup l : StronglySorted N.lt l -> NoDup l.
Proof.
  induction 1 as [|x l _ IH Hall]; [constructor|]. constructor; [|exact IH].
  intros Hin. rewrite Forall_forall in Hall. specialize (Hall x Hin). lia.
Qed.

Lemma lookup_in {V} k (l : list (name * V)) v : lookup k l = Some v -> exists k', In (k', v) l.
Proof.
  induction l as [|[k' v'] l IH]; intros H; [discriminate|]. cbn [lookup] in H.
  destruct (name_eqb k k'); [inversion H; subst; exists k'; left; reflexivity|].
  destruct (IH H) as [k2 H2]. exists k2. right. exact H2.
Qed.

(* a run is never empty *)
Lemma bruns_aux_nonempty : forall l cur acc c es, acc <> [] -> In (c, es) (bruns_aux cur acc l) -> es <> [].
Proof.
  induction l as [|[c1 v1] l IH]; intros cur acc c' es' Hacc H; cbn [bruns_aux] in H.
  - destruct H as [H|[]]. inversion H; subst. intros E. apply Hacc. apply (f_equal (@rev entry)) in E. now rewrite rev_involutive in E.
  - destruct (name_eqb c1 cur).
    + eapply IH; [|exact H]. discriminate.
    + destruct H as [H|H].
      * inversion H; subst. intros E. apply Hacc. apply (f_equal (@rev entry)) in E. now rewrite rev_involutive in E.
      * eapply IH; [|exact H]. discriminate.
Qed.
Lemma bruns_nonempty input c es : In (c, es) (bruns input) -> es <> [].
Proof.
  unfold bruns. destruct input as [|[c0 v0] rest]; [intros []|]. apply bruns_aux_nonempty. discriminate.
Qed.

(* a chromosome with an entry contributes a section *)
Lemma gsecs_nonempty ips groups q es : In (q, es) groups -> es <> [] -> gsecs ips groups <> [].
Proof.
  intros Hin Hne E. destruct es as [|x es']; [congruence|].
  assert (Hch : chunks (slot ips) (x :: es') <> []) by (intros E3; apply chunks_nil_iff in E3; discriminate).
  destruct (chunks (slot ips) (x :: es')) as [|c1 cs1] eqn:Ech; [congruence|].
  assert (Ha : In (q, c1) (gsecs ips groups)).
  { unfold gsecs. apply in_flat_map. exists (q, x :: es'). split; [exact Hin|]. cbn [fst snd]. rewrite sections_are_chunks, Ech. left. reflexivity. }
  rewrite E in Ha. destruct Ha.
Qed.

(* ---- the theorem ---- *)
Definition input_ok (input : list bitem) : Prop :=
  Forall (fun it => no_nul_name (fst it) /\ Nlen (fst it) < U32 /\ entry_ok (snd it)) input.

Section EndToEnd.
Variable sweep : list bchrom -> summary.
Variable zoom_part : list bchrom -> summary -> N -> N -> res (list N * list zoom_header).
(* at most MAX_ZOOM_LEVELS = 10 zoom levels fit the directory between the header and the autoSql *)
Hypothesis zoom_levels_fit : forall outs sum a b zb zh, zoom_part outs sum a b = Ok (zb, zh) -> (length zh <= 10)%nat.

Theorem bb_write_read o sizes autosql input f :
  bb_write_gen sweep zoom_part o sizes autosql input = Ok f ->
  o_bs o <= 65535 ->
  Nlen (bruns input) < U16 ->
  input_ok input ->
  Forall (fun s => snd s < U32) sizes ->
  Nlen f <= U64 ->
  exists i sql fc,
    read_info f = Ok i /\ bb_schema autosql = Ok (sql, fc)
    /\ (forall infl c es s e, In (c, es) (bruns input) ->
          bb_interval infl f i c s e = Ok (filter (bkeep s e) es))
    /\ (Nlen input < U64 -> bb_item_count f i = Ok (Nlen input))
    /\ bb_autosql f i = Ok (Some sql)
    /\ h_field_count (i_hdr i) = fc /\ h_defined_fc (i_hdr i) = fc
    /\ map (fun c => (ci_name c, ci_id c)) (i_chroms i) = combine (map fst (bruns input)) (seqN 0 (length (bruns input)))
    /\ Forall (fun c => lookup (ci_name c) sizes = Some (ci_len c)) (i_chroms i).
Proof.
  intros Hw Hbs' Hnchr Hin Hsizes Hflen.
  unfold bb_write_gen in Hw.
  destruct ((o_bs o <? 2) || (o_ips o <? 1)) eqn:Eopt; [discriminate|].
  apply orb_false_iff in Eopt as [Eopt _]. apply N.ltb_ge in Eopt.
  assert (Hbs : 2 <= o_bs o <= 65535) by (split; assumption).
  destruct (bb_schema autosql) as [[sql fc]| | |] eqn:Esch; cbn [rbind] in Hw; try discriminate.
  destruct (bb_collect o sizes input) as [[ids outs]| | |] eqn:Ecol; cbn [rbind] in Hw; try discriminate.
  rewrite bb_data_sections in Hw. cbn [rbind] in Hw.
  set (gs := gsecs (o_ips o) (groups_of outs)) in *.
  set (pre := bb_pre sql) in *.
  destruct (bb_schema_verbatim _ _ _ Esch) as [_ Hsqlnn].
  (* facts about the accepted input *)
  destruct (collect_partition _ _ _ _ _ Ecol) as [Hpart [Houts Hcount]].
  assert (Hruns : map (fun c => (bc_name c, bc_entries c)) outs = bruns input /\
                  ids = combine (map fst (bruns input)) (seqN 0 (length (bruns input))) /\
                  map bc_id outs = seqN 0 (length (bruns input)) /\ NoDup (map fst (bruns input))).
  { unfold bb_collect in Ecol. destruct input as [|i0 rest]; [discriminate|].
    destruct (process_bruns_outs _ _ _ _ _ _ _ Ecol) as [H1 _].
    destruct (process_bruns_ids o sizes _ None [] ids outs Ecol) as [H2 [H3 [H4 _]]].
    split; [exact H1|]. split; [exact H2|]. split; [exact H3|exact H4]. }
  destruct Hruns as [Hruns [Hids [Hbcids Hnd]]].
  set (n := length (bruns input)) in *.
  assert (Hlen_outs : length outs = n) by (unfold n; rewrite <- Hruns; now rewrite map_length).
  (* layout of the file *)
  destruct (assemble_layout _ _ _ _ _ _ _ _ _ _ _ _ _ Hw) as [ct [ix [lv [zbytes [zhdrs [Hct [Hix [Hz Hlay]]]]]]]].
  assert (Lpre : length pre = (304 + length sql + 1 + 40 + 8)%nat).
  { unfold pre, bb_pre, u64. rewrite !app_length, blank_headers_length, repeatN_length, enc_len. cbn [length]. lia. }
  pose proof (zoom_levels_fit _ _ _ _ _ _ Hz) as Hzl.
  destruct (Hlay ltac:(lia) ltac:(lia)) as [pre' [Lpre' [Hf [Hhdr [Hsum [Hcnt Hkeep]]]]]]. clear Hlay.
  set (dbytes := data_bytes (map sd_of gs)) in *.
  set (cis := Nlen pre + Nlen dbytes) in *.
  set (ixs := Nlen pre + Nlen dbytes + Nlen ct) in *.
  assert (HNpre' : Nlen pre' = Nlen pre) by (unfold Nlen; now rewrite Lpre').
  (* sizes *)
  assert (Hfl : Nlen f = Nlen pre + Nlen dbytes + Nlen ct + Nlen ix + Nlen zbytes + 4).
  { rewrite Hf. rewrite !Nlen_app. rewrite HNpre'. unfold Nlen at 6. unfold u32. rewrite enc_len. lia. }
  (* the header *)
  assert (Hhdr_f : has_at f 0 (hdr_of BIGBED_MAGIC pre dbytes ct fc fc ASQL_OFFSET zhdrs)).
  { rewrite Hf. apply has_at_app_r. exact Hhdr. }
  unfold hdr_of in Hhdr_f. apply has_at_app in Hhdr_f as [Hh64 Hzdir].
  assert (Hfc16 : fc < U16).
  { unfold bb_schema, AutoSql.write_pre_schema in Esch.
    destruct (match AutoSql.parse _ with Ok _ => _ | Err _ => _ | Panic => _ | Fuel => _ end) as [x| | |]; cbn [rbind] in Esch; try discriminate.
    destruct (existsb _ _); [discriminate|]. apply Ok_inj in Esch. inversion Esch. apply N.mod_lt. discriminate. }
  assert (HNprelen : Nlen pre = 304 + Nlen sql + 1 + 40 + 8) by (unfold Nlen; rewrite Lpre; lia).
  pose proof (read_header_written f (Nlen zhdrs) cis (Nlen pre - 8) ixs fc fc ASQL_OFFSET (Nlen pre - 48) 0 Hh64) as Hrh.
  assert (Hasql : ASQL_OFFSET = 304) by (unfold ASQL_OFFSET, Nlen; now rewrite blank_headers_length).
  specialize (Hrh ltac:(unfold hdr_ok, U16, U32, U64 in *; unfold cis, ixs; rewrite Hasql; unfold Nlen at 1; repeat split; lia)).
  set (h := {| h_big := false; h_bigwig := false; h_version := 4; h_zoom_levels := Nlen zhdrs; h_chrom_tree_off := cis;
               h_full_data_off := Nlen pre - 8; h_full_index_off := ixs; h_field_count := fc; h_defined_fc := fc;
               h_asql_off := ASQL_OFFSET; h_summary_off := Nlen pre - 48; h_ubuf := 0 |}) in *.
  destruct (read_zoom_headers_total false f (N.to_nat (h_zoom_levels h)) 64) as [zs Hzs].
  { cbn [h_zoom_levels h]. unfold Nlen at 1. rewrite Nat2N.id.
    assert (length f >= length pre)%nat by (rewrite Hf, app_length; lia). lia. }
  (* the chromosome tree *)
  assert (Hct_at : has_at f cis ct).
  { rewrite Hf. unfold cis. rewrite <- HNpre'. apply has_at_shift.
    unfold dbytes. replace (Nlen (data_bytes (map sd_of gs))) with (Nlen (data_bytes (map sd_of gs)) + 0) by lia.
    apply has_at_shift. apply has_at_here. }
  assert (Hnames : map fst ids = map fst (bruns input)).
  { rewrite Hids. unfold n. rewrite <- (map_length fst (bruns input)). apply combine_seqN_fst. }
  assert (Hidsnd : map snd ids = seqN 0 n).
  { rewrite Hids. unfold n. rewrite <- (map_length fst (bruns input)). apply combine_seqN_snd. }
  assert (Hlen_ids : length ids = n) by (rewrite <- (map_length fst), Hnames, map_length; reflexivity).
  (* every run's name and entries are fine *)
  assert (Hrun_ok : forall c es, In (c, es) (bruns input) -> no_nul_name c /\ Nlen c < U32 /\ Forall entry_ok es).
  { intros c es Hce. rewrite <- (bruns_untag input) in Hin. unfold input_ok, untag in Hin.
    rewrite Forall_forall in Hin.
    assert (Hall : forall x, In x es -> no_nul_name c /\ Nlen c < U32 /\ entry_ok x).
    { intros x Hx. specialize (Hin (c, x)). cbn [fst snd] in Hin. apply Hin.
      apply in_flat_map. exists (c, es). split; [exact Hce|]. cbn [fst snd]. unfold tag. apply in_map. exact Hx. }
    pose proof (bruns_nonempty _ _ _ Hce) as Hne.
    destruct es as [|x0 es']; [congruence|].
    destruct (Hall x0 (or_introl eq_refl)) as [A [B _]]. split; [exact A|]. split; [exact B|].
    apply Forall_forall. intros x Hx. apply (Hall x Hx). }
  assert (Htri : Forall (chrom_ok (max_key ids)) (triples sizes ids)).
  { unfold triples. apply Forall_forall. intros it Hit. apply in_map_iff in Hit as [[k id] [<- Hk]]. cbn [fst snd chrom_ok].
    assert (Hkin : In k (map fst (bruns input))) by (rewrite <- Hnames; change k with (fst (k, id)); apply in_map; exact Hk).
    apply in_map_iff in Hkin as [[k' es] [E Hr]]. cbn [fst] in E. subst k'.
    destruct (Hrun_ok _ _ Hr) as [Hnn [Hkl _]].
    split; [exact (max_key_ge ids (k, id) Hk)|]. split; [exact Hnn|]. split.
    - assert (Hidin : In id (seqN 0 n)) by (rewrite <- Hidsnd; change id with (snd (k, id)); apply in_map; exact Hk).
      apply seqN_bound in Hidin. unfold U16, U32 in *. unfold n in Hidin. unfold Nlen in Hnchr. lia.
    - destruct (lookup k sizes) as [len|] eqn:El; [|unfold U32; lia].
      destruct (lookup_in _ _ _ El) as [k2 Hk2]. rewrite Forall_forall in Hsizes. exact (Hsizes (k2, len) Hk2). }
  assert (Hmaxkey : N.of_nat (max_key ids) < U32).
  { unfold max_key. assert (G : forall (l : idmap) a, N.of_nat a < U32 -> Forall (fun c => Nlen (fst c) < U32) l ->
                               N.of_nat (fold_left (fun a c => Nat.max a (length (fst c))) l a) < U32).
    { induction l as [|c l IH]; intros a Ha Hl; [exact Ha|]. cbn [fold_left]. cbv beta. inversion Hl as [|? ? Hc Hl']; subst.
      apply IH; [|exact Hl']. unfold Nlen in Hc.
      apply (Nat.max_case a (length (fst c)) (fun k => N.of_nat k < U32)); assumption. }
    apply G; [unfold U32; lia|]. apply Forall_forall. intros [k id] Hk. cbn [fst].
    assert (Hkin : In k (map fst (bruns input))) by (rewrite <- Hnames; change k with (fst (k, id)); apply in_map; exact Hk).
    apply in_map_iff in Hkin as [[k' es] [E Hr]]. cbn [fst] in E. subst k'. apply (Hrun_ok _ _ Hr). }
  pose proof (read_info_written f h zs sizes ids ct Hrh eq_refl Hzs Hct Hct_at
                ltac:(unfold Nlen; rewrite Hlen_ids; exact Hnchr) Hmaxkey Htri) as Hri.
  set (i := {| i_hdr := h; i_zooms := zs;
               i_chroms := map (fun it => let '(k, id, len) := it in {| ci_name := k; ci_id := id; ci_len := len |}) (triples sizes ids) |}) in *.
  exists i, sql, fc. split; [exact Hri|]. split; [reflexivity|].
  (* groups *)
  assert (Hgid : map fst (groups_of outs) = seqN 0 n) by (unfold groups_of; rewrite map_map; exact Hbcids).
  assert (Hgsorted : StronglySorted N.lt (map fst (groups_of outs))) by (rewrite Hgid; apply seqN_lt_sorted).
  assert (Hgss : Forall (fun g => starts_sorted (snd g)) (groups_of outs)).
  { unfold groups_of. apply Forall_forall. intros g Hg. apply in_map_iff in Hg as [c [<- Hc]]. cbn [snd].
    rewrite Forall_forall in Houts. destruct (Houts c Hc) as [_ Hwf]. eapply wfe_sorted. exact Hwf. }
  assert (Hgs_ok : Forall (fun g => snd g <> [] /\ Forall entry_ok (snd g)) gs).
  { apply Forall_forall. intros a Ha. destruct (gsecs_in _ _ _ Ha) as [g [Hg [_ Hne]]]. split; [exact Hne|].
    (* entries of a section are entries of its chromosome *)
    unfold gs, gsecs in Ha. apply in_flat_map in Ha as [g2 [Hg2 Ha]]. apply in_map_iff in Ha as [c [<- Hc]]. cbn [snd].
    unfold groups_of in Hg2. apply in_map_iff in Hg2 as [bc [<- Hbc]]. cbn [snd fst] in *.
    assert (Hr : In (bc_name bc, bc_entries bc) (bruns input)).
    { rewrite <- Hruns. apply (in_map (fun c => (bc_name c, bc_entries c))). exact Hbc. }
    destruct (Hrun_ok _ _ Hr) as [_ [_ Hall]].
    rewrite sections_are_chunks in Hc.
    apply Forall_forall. intros x Hx. rewrite Forall_forall in Hall. apply Hall.
    rewrite <- (chunks_concat (slot (o_ips o)) (bc_entries bc)) by (unfold slot; lia).
    apply in_concat. exists c. split; assumption. }
  split.
  { (* interval queries *)
    intros infl c es s e Hce.
    assert (Hbc : exists bc, In bc outs /\ bc_name bc = c /\ bc_entries bc = es).
    { rewrite <- Hruns in Hce. apply in_map_iff in Hce as [bc [E Hbc]]. inversion E; subst. exists bc. auto. }
    destruct Hbc as [bc [Hbc [Hbn Hbe]]].
    assert (Hq : bc_id bc < U32).
    { assert (In (bc_id bc) (seqN 0 n)) by (rewrite <- Hbcids; apply in_map; exact Hbc).
      apply seqN_bound in H. unfold U16, U32, n, Nlen in *. lia. }
    (* the chromosome's id in the table *)
    assert (Hcid : chrom_id i c = Ok (bc_id bc)).
    { assert (Hpair : In (c, bc_id bc) ids).
      { rewrite Hids. rewrite <- Hbcids. rewrite <- Hruns. rewrite map_map. cbn [fst].
        clear -Hbc Hbn. induction outs as [|o1 outs IH]; [destruct Hbc|]. cbn [map combine].
        destruct Hbc as [->|Hbc]; [left; now rewrite Hbn|right; apply IH; exact Hbc]. }
      apply (chrom_id_written i (triples sizes ids) c (bc_id bc) (match lookup c sizes with Some l => l | None => 0 end)).
      - reflexivity.
      - unfold triples. rewrite map_map. rewrite <- Hnames in Hnd. erewrite map_ext; [exact Hnd|]. intros [k0 id0]. reflexivity.
      - unfold triples. apply in_map_iff. exists (c, bc_id bc). split; [reflexivity|exact Hpair]. }
    assert (Hix_at : exists preI postI, f = preI ++ ix ++ postI /\ Nlen preI = ixs).
    { exists (pre' ++ dbytes ++ ct), (zbytes ++ u32 BIGBED_MAGIC). split.
      - rewrite Hf. now rewrite <- !app_assoc.
      - rewrite !Nlen_app. rewrite HNpre'. unfold ixs. lia. }
    destruct Hix_at as [preI [postI [HfI HpreI]]].
    assert (Hdata_at : has_at f (Nlen pre) dbytes).
    { rewrite Hf. rewrite <- HNpre'. replace (Nlen pre') with (Nlen pre' + 0) by lia. apply has_at_shift. apply has_at_here. }
    rewrite (interval_on_image infl i eq_refl eq_refl f gs (Nlen pre) ixs (o_bs o) (o_ips o) ix lv preI postI c (bc_id bc) s e
               eq_refl Hcid Hq Hbs).
    - (* sections of the whole file -> this chromosome *)
      unfold gs. rewrite sections_to_chrom; [|apply SSorted_lt_NoDup; exact Hgsorted|exact Hgss].
      rewrite (find_group (groups_of outs) (bc_id bc) es); [reflexivity|apply SSorted_lt_NoDup; exact Hgsorted|].
      unfold groups_of. apply in_map_iff. exists bc. split; [now rewrite Hbe|exact Hbc].
    - unfold gs. apply (gsecs_nonempty (o_ips o) (groups_of outs) (bc_id bc) es); [|exact (bruns_nonempty _ _ _ Hce)].
      unfold groups_of. apply in_map_iff. exists bc. split; [now rewrite Hbe|exact Hbc].
    - exact Hgs_ok.
    - rewrite place_spans. unfold gs. apply gsecs_sorted; assumption.
    - (* fields in range *)
      apply Forall_forall. intros sct Hs. destruct (place_bounds _ _ _ Hs) as [B1 B2]. fold dbytes in B2.
      destruct (place_fields _ _ _ Hs) as [g [Hg [F1 [F2 F3]]]].
      rewrite Forall_forall in Hgs_ok. destruct (Hgs_ok g Hg) as [Hne Hok].
      destruct (sd_of_ok g Hne Hok) as [S1 S2].
      destruct (gsecs_in _ _ _ Hg) as [g' [Hg' [Efst _]]].
      assert (Hidb : fst g' < U32).
      { assert (In (fst g') (seqN 0 n)) by (rewrite <- Hgid; apply in_map; exact Hg').
        apply seqN_bound in H. unfold U16, U32, n, Nlen in *. lia. }
      unfold sect_ok. rewrite F1, F2, F3, Efst. unfold U64 in *. repeat split; try assumption; lia.
    - exact Hix.
    - exact HfI.
    - exact HpreI.
    - unfold ixs. unfold U64 in *. lia.
    - exact Hdata_at. }
  split.
  { (* item count *)
    intros Hn64. unfold bb_item_count. cbn [i_hdr i h_full_data_off h h_big].
    assert (Hc_at : has_at f (Nlen pre - 8) (u64 (bb_total_items outs))).
    { rewrite Hf. apply has_at_app_r. exact Hcnt. }
    rewrite (has_at_slice_w f _ _ 8 Hc_at) by (unfold u64; now rewrite enc_len). cbn [rdo rbind].
    unfold dec, u64. rewrite dec_enc_le by (rewrite pow64, Hcount; exact Hn64). now rewrite Hcount. }
  split.
  { (* autoSql *)
    unfold bb_autosql. cbn [i_hdr i h_asql_off h]. rewrite Hasql. replace (304 =? 0) with false by reflexivity.
    assert (Hsql_pre : has_at pre 304 (sql ++ [0])).
    { unfold pre, bb_pre. exists blank_headers, (repeatN 0 40 ++ u64 0). split; [now rewrite <- !app_assoc|].
      now rewrite blank_headers_length. }
    assert (Hsql_f : has_at f 304 (sql ++ [0])).
    { rewrite Hf. apply has_at_app_r. apply Hkeep; [exact Hsql_pre| |].
      - change (N.to_nat 304) with 304%nat. lia.
      - change (N.to_nat 304) with 304%nat. rewrite app_length. cbn [length]. lia. }
    destruct Hsql_f as [A [B [E L]]]. rewrite E. change (N.to_nat 304) with 304%nat in *. rewrite <- L.
    rewrite skipn_exact. rewrite <- app_assoc. cbn [app]. rewrite autosql_slot by exact Hsqlnn. reflexivity. }
  split; [reflexivity|]. split; [reflexivity|]. split.
  { (* chromosome table *)
    cbn [i_chroms i]. fold n. rewrite <- Hids. unfold triples. rewrite !map_map.
    transitivity (map (fun x : name * N => x) ids); [apply map_ext; intros [k id]; reflexivity|apply map_id]. }
  { cbn [i_chroms i]. apply Forall_forall. intros ci Hci. apply in_map_iff in Hci as [[[k id] len] [<- Hk]]. cbn [ci_name ci_len].
    unfold triples in Hk. apply in_map_iff in Hk as [[k2 id2] [E Hk2]]. cbn [fst snd] in E. inversion E; subst.
    destruct (chrom_tree_bytes_inv _ _ _ Hct) as [Hall _]. rewrite Forall_forall in Hall.
    destruct (Hall (k, id) Hk2) as [len El]. cbn [fst] in El. rewrite El. reflexivity. }
Qed.
End EndToEnd.

(* ---- corollaries in the form the properties are stated ---- *)
Lemma accepted_runs_wf o sizes input ids outs : bb_collect o sizes input = Ok (ids, outs) ->
  forall c es, In (c, es) (bruns input) -> exists len, lookup c sizes = Some len /\ wf_entries len es.
Proof.
  intros H c es Hin. unfold bb_collect in H. destruct input as [|i0 rest]; [destruct Hin|].
  destruct (process_bruns_outs _ _ _ _ _ _ _ H) as [H1 H2]. rewrite <- H1 in Hin.
  apply in_map_iff in Hin as [bc [E Hbc]]. inversion E; subst. rewrite Forall_forall in H2.
  destruct (H2 bc Hbc) as [Hl Hc]. exists (bc_len bc). split; [exact Hl|apply check_entries_wf; exact Hc].
Qed.

Section Corollaries.
Variable sweep : list bchrom -> summary.
Variable zoom_part : list bchrom -> summary -> N -> N -> res (list N * list zoom_header).
Hypothesis zoom_levels_fit : forall outs sum a b zb zh, zoom_part outs sum a b = Ok (zb, zh) -> (length zh <= 10)%nat.

Definition file_hyps (o : opts) (sizes : list (name * N)) (input : list bitem) (f : list N) : Prop :=
  o_bs o <= 65535 /\ Nlen (bruns input) < U16 /\ input_ok input
  /\ Forall (fun s => snd s < U32) sizes /\ Nlen f <= U64.

(* C04 on the file: every range query on every chromosome that had data *)
Theorem file_query o sizes autosql input f : bb_write_gen sweep zoom_part o sizes autosql input = Ok f ->
  file_hyps o sizes input f ->
  exists i, read_info f = Ok i /\ forall infl c es s e, In (c, es) (bruns input) ->
    bb_interval infl f i c s e = Ok (filter (bkeep s e) es).
Proof.
  intros Hw [H1 [H3 [H4 [H5 H6]]]].
  destruct (bb_write_read sweep zoom_part zoom_levels_fit o sizes autosql input f Hw H1 H3 H4 H5 H6)
    as [i [sql [fc [Hri [_ [Hq _]]]]]].
  exists i. split; [exact Hri|exact Hq].
Qed.

(* C02 on the file *)
Theorem file_roundtrip o sizes autosql input f : bb_write_gen sweep zoom_part o sizes autosql input = Ok f ->
  file_hyps o sizes input f ->
  exists i, read_info f = Ok i
    /\ (forall infl c es, In (c, es) (bruns input) ->
          exists len, lookup c sizes = Some len /\ bb_interval infl f i c 0 len = Ok es)
    /\ (Nlen input < U64 -> bb_item_count f i = Ok (Nlen input))
    /\ bb_autosql f i = Ok (Some (match autosql with Some s => s | None => AUTOSQL_BED3 end))
    /\ map (fun c => (ci_name c, ci_id c)) (i_chroms i) = combine (map fst (bruns input)) (seqN 0 (length (bruns input)))
    /\ Forall (fun c => lookup (ci_name c) sizes = Some (ci_len c)) (i_chroms i).
Proof.
  intros Hw [H1 [H3 [H4 [H5 H6]]]].
  destruct (bb_write_read sweep zoom_part zoom_levels_fit o sizes autosql input f Hw H1 H3 H4 H5 H6)
    as [i [sql [fc [Hri [Hsch [Hq [Hcnt [Hsql [_ [_ [Hct Hlen]]]]]]]]]]].
  exists i. split; [exact Hri|]. split; [|split; [exact Hcnt|split; [|split; [exact Hct|exact Hlen]]]].
  - intros infl c es Hin.
    assert (Hcol : exists ids outs, bb_collect o sizes input = Ok (ids, outs)).
    { unfold bb_write_gen in Hw. destruct ((o_bs o <? 2) || (o_ips o <? 1)); [discriminate|].
      rewrite Hsch in Hw. cbn [rbind] in Hw.
      destruct (bb_collect o sizes input) as [[ids outs]| | |]; try discriminate. eauto. }
    destruct Hcol as [ids [outs Hcol]].
    destruct (accepted_runs_wf _ _ _ _ _ Hcol c es Hin) as [len [Hl Hwf]].
    exists len. split; [exact Hl|]. rewrite (Hq infl c es 0 len Hin). now rewrite bfull_span.
  - destruct (bb_schema_verbatim _ _ _ Hsch) as [E _]. rewrite E in Hsql. exact Hsql.
Qed.
End Corollaries.

(* the property's own wording on the file: nothing overlapping is missed, nothing disjoint is
   returned, stored order, each once (the answer is a filter of the stored list) *)
Theorem file_no_miss_no_disjoint (sweep : list bchrom -> summary)
    (zoom_part : list bchrom -> summary -> N -> N -> res (list N * list zoom_header)) :
  (forall outs sum a b zb zh, zoom_part outs sum a b = Ok (zb, zh) -> (length zh <= 10)%nat) ->
  forall o sizes autosql input f, bb_write_gen sweep zoom_part o sizes autosql input = Ok f ->
  file_hyps o sizes input f ->
  exists i, read_info f = Ok i /\ forall infl c es s e, In (c, es) (bruns input) ->
    exists ans, bb_interval infl f i c s e = Ok ans
      /\ (forall x, In x es -> e_start x < e -> s < e_end x -> In x ans)
      /\ (forall x, In x ans -> In x es /\ s <= e_end x /\ e_start x <= e)
      /\ ans = filter (bkeep s e) es.
Proof.
  intros Hz o sizes autosql input f Hw Hh.
  destruct (file_query sweep zoom_part Hz o sizes autosql input f Hw Hh) as [i [Hri Hq]].
  exists i. split; [exact Hri|]. intros infl c es s e Hin. exists (filter (bkeep s e) es).
  split; [apply Hq; exact Hin|]. split; [|split; [|reflexivity]].
  - intros x Hx H1 H2. apply In_filter_iff. repeat split; [exact Hx|lia|lia].
  - intros x Hx. apply In_filter_iff. exact Hx.
Qed.
