(* C06, last link, part 4: in the IEEE-754 instance of the writer model (the one compared bit for bit
   with the implementation) every statistic of the folded bigWig summary is the result of a binary64
   rounding, a stored binary32, +-f64::MAX or zero -- a binary64 number, NaN or an infinity -- so the
   field codec loses nothing: the summary the reader reports on the written bytes denotes, field by
   field, the summary that was handed to the writer.  No hypothesis on the values. *)
From BT Require Import Base.Util Base.LE Base.Float Generated.Consts Model.RTree Model.BBIFile Model.BigWigWrite Model.BBIRead
  Proofs.RTreeCodec Proofs.BigWigFile Proofs.BigWigFileRoundTrip Proofs.BwSummary Proofs.C06FileFloat Proofs.C06FileRead.
Local Open Scope Z_scope.

(* every result of a binary64 rounding is a binary64 number (or an infinity) *)
Lemma rep64_round m e : rep64 (round_dy 53 (-1074) 1024 m e).
Proof.
  pose proof (round_out m e) as H. destruct (round_dy 53 (-1074) 1024 m e) as [m2 e2| |s]; [|exact I|exact I].
  destruct H as [->|(C1 & C2 & C3)].
  - exists 0, 0. split; [vm_compute; repeat split; discriminate|]. cbn [same_num]. lia.
  - destruct (Z.eq_dec (Z.abs m2) (2 ^ 53)) as [E|E].
    + assert (Hm : m2 = 9007199254740992 \/ m2 = - 9007199254740992) by (change (2 ^ 53) with 9007199254740992 in E; lia).
      destruct Hm as [-> | ->].
      * change (bitlen 9007199254740992) with 54 in C3.
        exists 4503599627370496, (e2 + 1). split.
        -- split; [vm_compute; reflexivity|]. split; [lia|]. change (bitlen 4503599627370496) with 53. lia.
        -- apply (same_num_at e2); [lia|lia|]. rewrite Z.sub_diag. replace (e2 + 1 - e2) with 1 by lia. reflexivity.
      * change (bitlen (- 9007199254740992)) with 54 in C3.
        exists (- 4503599627370496), (e2 + 1). split.
        -- split; [vm_compute; reflexivity|]. split; [lia|]. change (bitlen (- 4503599627370496)) with 53. lia.
        -- apply (same_num_at e2); [lia|lia|]. rewrite Z.sub_diag. replace (e2 + 1 - e2) with 1 by lia. reflexivity.
    + exists m2, e2. split; [|apply same_num_refl]. split; [lia|]. split; assumption.
Qed.

Lemma rep64_fadd a b : rep64 (fadd64 ieee a b).
Proof.
  destruct a as [m1 e1| |s1], b as [m2 e2| |s2]; unfold fadd64, fadd_with; try exact I.
  - unfold align. cbn [r64 ieee]. apply rep64_round.
  - destruct (Bool.eqb s1 s2); exact I.
Qed.
Lemma rep64_fmul a b : rep64 (fmul64 ieee a b).
Proof.
  destruct a as [m1 e1| |s1], b as [m2 e2| |s2]; unfold fmul64, fmul_with; try exact I.
  - cbn [r64 ieee]. apply rep64_round.
  - destruct (m1 =? 0); exact I.
  - destruct (m2 =? 0); exact I.
Qed.
Lemma rep64_fmin a b : rep64 a -> rep64 b -> rep64 (fmin a b).
Proof. intros Ha Hb. unfold fmin. destruct (fcmp a b) as [[| |]|]; try assumption. destruct a; assumption. Qed.
Lemma rep64_fmax a b : rep64 a -> rep64 b -> rep64 (fmax a b).
Proof. intros Ha Hb. unfold fmax. destruct (fcmp a b) as [[| |]|]; try assumption. destruct a; assumption. Qed.
Lemma rep64_v_val v : rep64 (v_val v).
Proof. unfold v_val. pose proof (rep64_f32 (v_bits v)) as H. destruct (f32_of_bits (v_bits v)); [exact H|exact I|exact I]. Qed.
Lemma rep64_fzero : rep64 fzero.
Proof. exact rep64_zero. Qed.

(* all four statistics of a summary are binary64 values *)
Definition sum_rep (s : summary) : Prop := rep64 (su_min s) /\ rep64 (su_max s) /\ rep64 (su_sum s) /\ rep64 (su_sumsq s).

Lemma add_rep s v : sum_rep s -> sum_rep (summary_add ieee s v).
Proof.
  intros (A & B & _ & _). unfold sum_rep, summary_add. cbn [su_min su_max su_sum su_sumsq].
  split; [apply rep64_fmin; [exact A|apply rep64_v_val]|]. split; [apply rep64_fmax; [exact B|apply rep64_v_val]|].
  split; apply rep64_fadd.
Qed.
Lemma fold_add_rep : forall vs s, sum_rep s -> sum_rep (fold_left (summary_add ieee) vs s).
Proof. induction vs as [|v r IH]; intros s H; cbn [fold_left]; [exact H|]. apply IH, add_rep, H. Qed.
Lemma chrom_rep vs : sum_rep (chrom_summary ieee vs).
Proof.
  unfold chrom_summary. cbv zeta.
  assert (H : sum_rep (fold_left (summary_add ieee) vs summary_init)).
  { apply fold_add_rep. unfold sum_rep, summary_init. cbn [su_min su_max su_sum su_sumsq].
    split; [exact rep64_f64_max|]. split; [exact rep64_f64_min|]. split; exact rep64_fzero. }
  destruct (_ =? _)%N; [|exact H]. destruct H as (_ & _ & C & D). unfold sum_rep. cbn [su_min su_max su_sum su_sumsq].
  split; [exact rep64_fzero|]. split; [exact rep64_fzero|]. split; assumption.
Qed.
Lemma merge_rep : forall l acc, match acc with Some a => sum_rep a | None => True end -> Forall sum_rep l ->
  sum_rep (match fold_left (summary_merge ieee) l acc with Some s => s | None => summary_zero end).
Proof.
  induction l as [|c l IH]; intros acc Ha Hl; cbn [fold_left].
  - destruct acc; [exact Ha|]. unfold sum_rep, summary_zero. cbn [su_min su_max su_sum su_sumsq]. repeat split; exact rep64_fzero.
  - inversion Hl as [|? ? Hc Hl']; subst. apply IH; [|exact Hl'].
    destruct acc as [a|]; cbn [summary_merge]; [|exact Hc].
    destruct Ha as (A & B & _ & _). destruct Hc as (A' & B' & _ & _). unfold sum_rep. cbn [su_min su_max su_sum su_sumsq].
    split; [apply rep64_fmin; assumption|]. split; [apply rep64_fmax; assumption|]. split; apply rep64_fadd.
Qed.

Lemma collect_rep o sizes inp ids outs sum data : bw_collect ieee o sizes inp = Ok (ids, outs, sum, data) -> sum_rep sum.
Proof.
  intros H. unfold bw_collect in H. destruct inp as [|it inp']; [discriminate|].
  destruct (process_runs _ _ _ _ _) as [[ids' outs']| | |]; cbn [rbind] in H; try discriminate.
  destruct (concat_res _) as [d| | |]; cbn [rbind] in H; try discriminate.
  apply Ok_inj in H. inversion H; subst. apply merge_rep; [exact I|].
  apply Forall_forall. intros s Hs. apply in_map_iff in Hs as (c & <- & _). apply chrom_rep.
Qed.

(* the reader's summary, field by field, is the writer's *)
Definition same_summary (s w : summary) (items : N) : Prop :=
  su_items s = items /\ su_bases s = su_bases w /\ same_num (su_min s) (su_min w) /\ same_num (su_max s) (su_max w)
  /\ same_num (su_sum s) (su_sum w) /\ same_num (su_sumsq s) (su_sumsq w).

Theorem bw_file_summary_ieee o sizes inp bs :
  opts_ok o -> input_ok sizes inp -> (Nlen bs < U64)%N ->
  bw_write ieee o sizes inp = Ok bs \/ bw_write_multipass ieee o sizes inp = Ok bs ->
  exists ids outs sum data i s,
    bw_collect ieee o sizes inp = Ok (ids, outs, sum, data) /\ read_info bs = Ok i /\ read_summary bs i = Ok s
    /\ same_summary s sum (bw_section_count o inp).
Proof.
  intros Ho Hi Hs Hw.
  destruct (bw_file_stored ieee o sizes inp bs Ho Hi Hs Hw) as (ids & outs & sum & data & i & Hcol & Hri & Hrs).
  exists ids, outs, sum, data, i, (stored (bw_section_count o inp) sum).
  split; [exact Hcol|]. split; [exact Hri|]. split; [exact Hrs|].
  destruct (collect_rep _ _ _ _ _ _ _ Hcol) as (A & B & C & D).
  unfold same_summary, stored. cbn [su_items su_bases su_min su_max su_sum su_sumsq].
  split; [reflexivity|]. split; [reflexivity|].
  split; [exact (proj1 (f64_roundtrip _ A))|]. split; [exact (proj1 (f64_roundtrip _ B))|].
  split; [exact (proj1 (f64_roundtrip _ C))|exact (proj1 (f64_roundtrip _ D))].
Qed.
