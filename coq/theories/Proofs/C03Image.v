(* C03 (own file; was briefly misplaced under a name owned by C01), from the byte image to the list-level answer.

   An image that holds, anywhere, (1) the data sections the bigWig writer emits for a list of
   chromosomes (each chromosome's values cut into chunks of items_per_slot, each chunk encoded by
   encode_section and passed through the block store = identity or a compressor), laid out one
   after the other, and (2) the R-tree index bytes write_index produces for exactly those sections,
   is answered by the reader model bw_interval with clip_filter s e (values of the chromosome):
     index bytes --C05 search_bytes_eq_scan--> the sections whose span meets [s,e] inclusively
     block bytes --section_roundtrip--> the chunk's items, filtered and clipped
     chunks hit by the index --query_sections--> the whole chromosome filtered and clipped. *)
From BT Require Import Base.Util Base.LE Base.Float Generated.Consts Model.RTree Model.BBIFile Model.BigWigWrite
  Model.BBIRead Model.CachedRead Proofs.Chunks Proofs.BigWigQuery Proofs.RTreeCodec Proofs.RTreeAbs Proofs.RTreeBuild
  Proofs.RTreeLayout Proofs.BigWigSection.
From Coq Require Import Sorting.Sorted.
Local Open Scope N_scope.

(* ---------- the sections of a file, abstractly: (chromosome id, items) in file order ---------- *)
Definition ablock := (N * list value)%type.
Definition ab_start (a : ablock) : N := match snd a with [] => 0 | f :: _ => v_start f end.
Definition ab_end (a : ablock) : N := match snd a with [] => 0 | f :: _ => v_end (last (snd a) f) end.
Definition ab_plain (a : ablock) : list N :=
  section_header (fst a) (ab_start a) (ab_end a) (Nlen (snd a)) ++ flat_map value_bytes (snd a).

Definition chrom_ablocks (ips : nat) (cid : N) (vals : list value) : list ablock :=
  map (fun ch => (cid, ch)) (chunks ips vals).
Definition file_ablocks (ips : nat) (outs : list chrom_out) : list ablock :=
  flat_map (fun c => chrom_ablocks ips (co_id c) (co_vals c)) outs.

Definition ab_ok (a : ablock) : Prop :=
  snd a <> [] /\ fst a < U32 /\ Nlen (snd a) < U16 /\ Forall value_ok (snd a).

(* ---------- generic list facts ---------- *)
Lemma sorted_app {X} (R : X -> X -> Prop) l1 l2 :
  StronglySorted R l1 -> StronglySorted R l2 -> (forall x y, In x l1 -> In y l2 -> R x y) ->
  StronglySorted R (l1 ++ l2).
Proof.
  intros H1 H2 Hc. induction H1 as [|a l1 Hs IH Ha]; [exact H2|].
  cbn [app]. constructor.
  - apply IH. intros x y Hx Hy. apply Hc; [right; exact Hx|exact Hy].
  - apply Forall_app. split; [exact Ha|]. apply Forall_forall. intros y Hy. apply Hc; [left; reflexivity|exact Hy].
Qed.
Lemma sorted_map {X Y} (R : Y -> Y -> Prop) (f : X -> Y) l :
  StronglySorted (fun a b => R (f a) (f b)) l -> StronglySorted R (map f l).
Proof.
  induction 1 as [|a l Hs IH Ha]; [constructor|]. cbn [map]. constructor; [exact IH|].
  apply Forall_forall. intros y Hy. apply in_map_iff in Hy as [x [<- Hx]].
  rewrite Forall_forall in Ha. apply Ha. exact Hx.
Qed.
Lemma sorted_split {X} (R : X -> X -> Prop) l1 l2 :
  StronglySorted R (l1 ++ l2) ->
  StronglySorted R l1 /\ StronglySorted R l2 /\ (forall x y, In x l1 -> In y l2 -> R x y).
Proof.
  induction l1 as [|a l1 IH]; intros H.
  - split; [constructor|]. split; [exact H|]. intros x y [].
  - cbn [app] in H. inversion H as [|? ? Hs Ha]; subst. destruct (IH Hs) as (H1 & H2 & H3).
    rewrite Forall_app in Ha. destruct Ha as [Ha1 Ha2]. split; [constructor; assumption|]. split; [exact H2|].
    intros x y [<-|Hx] Hy; [rewrite Forall_forall in Ha2; apply Ha2; exact Hy|apply H3; assumption].
Qed.

(* ---------- what the writer's checks give ---------- *)
Definition start_sorted (l : list value) : Prop := StronglySorted (fun x y => v_start x <= v_start y) l.
Lemma wf_start_sorted len vals : wf_vals len vals -> start_sorted vals.
Proof.
  induction vals as [|v r IH]; intros H; [constructor|].
  constructor; [apply IH; eapply wf_tail; exact H|].
  pose proof (wf_after_head _ _ _ H) as Ha. destruct (wf_head _ _ _ H) as [Hs _].
  eapply Forall_impl; [|exact Ha]. cbv beta. intros w Hw. lia.
Qed.
Lemma wf_ends_le len vals : wf_vals len vals -> Forall (fun v => v_start v <= v_end v /\ v_end v <= len) vals.
Proof.
  induction vals as [|v r IH]; intros H; [constructor|].
  constructor; [exact (wf_head _ _ _ H)|apply IH; eapply wf_tail; exact H].
Qed.

(* the heads of the chunks of a start-sorted list are start-sorted *)
Lemma heads_sorted (cs : list (list value)) : Forall (fun c => c <> []) cs -> start_sorted (concat cs) ->
  StronglySorted (fun a b => ab_start a <= ab_start b) (map (fun ch => (0, ch)) cs).
Proof.
  induction 1 as [|c cs Hc Hcs IH]; intros Hs; [constructor|].
  cbn [concat] in Hs. apply sorted_split in Hs as (H1 & H2 & H3).
  cbn [map]. constructor; [apply IH; exact H2|].
  apply Forall_forall. intros y Hy. apply in_map_iff in Hy as [c' [<- Hc']].
  unfold ab_start. cbn [snd]. destruct c as [|f r]; [congruence|].
  rewrite Forall_forall in Hcs. specialize (Hcs c' Hc'). destruct c' as [|f' r']; [congruence|].
  apply H3; [left; reflexivity|]. apply in_concat. exists (f' :: r'). split; [exact Hc'|left; reflexivity].
Qed.

(* ---------- overlap of a one-chromosome span ---------- *)
Lemma overlaps_one_chrom q qs qe c a b :
  overlaps q qs qe {| sc := c; sb := a; ec := c; eb := b |} = (c =? q) && (qs <=? b) && (a <=? qe).
Proof.
  unfold overlaps, le_pos, ge_pos, cmp_pos. cbn [sc sb ec eb].
  destruct (N.compare_spec q c) as [E|E|E].
  - subst. rewrite N.eqb_refl. cbn [andb].
    destruct (N.compare_spec qs b); destruct (N.compare_spec qe a);
      repeat match goal with |- context [?x <=? ?y] => destruct (N.leb_spec x y) end; try reflexivity; exfalso; lia.
  - replace (c =? q) with false by (symmetry; apply N.eqb_neq; lia). reflexivity.
  - replace (c =? q) with false by (symmetry; apply N.eqb_neq; lia). cbn [andb].
    destruct (N.compare_spec q c); try reflexivity; exfalso; lia.
Qed.

Section Store.
(* the block store: identity for uncompressed files, a compressor otherwise *)
Variable infl : list N -> list N.
Variable store : list N -> list N.
Variable bs : list N.
Variable i : info.
Hypothesis Hbig : h_big (i_hdr i) = false.
Hypothesis Hstore : forall x, (if 0 <? h_ubuf (i_hdr i) then infl (store x) else store x) = x.

Definition ab_sdata (a : ablock) : sdata :=
  {| sd_chrom := fst a; sd_start := ab_start a; sd_end := ab_end a; sd_bytes := store (ab_plain a) |}.

(* section [sec] of the index describes abstract block [a] stored in the image *)
Definition ab_at (sec : sect) (a : ablock) : Prop :=
  has_at bs (s_off sec) (store (ab_plain a)) /\ s_size sec = Nlen (store (ab_plain a))
  /\ s_chrom sec = fst a /\ s_start sec = ab_start a /\ s_end sec = ab_end a.

Lemma block_of_ab sec a chrom s e : ab_at sec a -> ab_ok a ->
  block_values infl i bs (s_off sec, s_size sec) chrom s e
  = Ok (if fst a =? chrom then Some (clip_filter s e (snd a)) else None).
Proof.
  intros (Hat & Hsz & _ & _ & _) (Hne & Hc & Hn & Hv).
  unfold block_values, block_data. cbn [fst snd]. rewrite Hsz. unfold Nlen. rewrite Nat2N.id.
  rewrite (has_at_slice _ _ _ Hat). cbn [rdo rbind]. rewrite Hstore.
  change (rbind (Ok (ab_plain a)) ?f) with (f (ab_plain a)).
  pose proof (section_roundtrip i (fst a) (ab_start a) (ab_end a) (snd a) chrom s e Hbig Hc) as R.
  unfold block_values_of in R. unfold ab_plain. apply R; try assumption.
  unfold ab_start. destruct (snd a) as [|f r]; [congruence|]. inversion Hv; subst.
  match goal with H : value_ok f |- _ => destruct H as (H1 & _) end. exact H1.
Qed.

(* reading the blocks the scan selects = the hit chunks of the queried chromosome, in order *)
Definition hit_part (chrom s e : N) (a : ablock) : list value :=
  if (fst a =? chrom) && chunk_hit s e (snd a) then clip_filter s e (snd a) else [].

Lemma sect_hit sec a chrom s e : ab_at sec a -> snd a <> [] ->
  overlaps chrom s e (sect_span sec) = (fst a =? chrom) && chunk_hit s e (snd a).
Proof.
  intros (_ & _ & Hc & Hs & He) Hne. unfold sect_span. rewrite Hc, Hs, He, overlaps_one_chrom.
  unfold chunk_hit, ab_start, ab_end. destruct (snd a) as [|f r]; [congruence|]. now rewrite andb_assoc.
Qed.

Lemma collect_scan chrom s e : forall secs abs, Forall2 ab_at secs abs -> Forall ab_ok abs ->
  collect_blocks (fun b => block_values infl i bs b chrom s e) (scan secs chrom s e)
  = Ok (flat_map (hit_part chrom s e) abs).
Proof.
  induction 1 as [|sec a secs abs Hat _ IH]; intros Hok; [reflexivity|].
  inversion Hok as [|? ? Hoka Hokr]; subst. specialize (IH Hokr).
  unfold scan in *. cbn [filter flat_map]. unfold hit_part at 1.
  destruct Hoka as (Hne & Hoka). rewrite (sect_hit sec a chrom s e Hat Hne).
  destruct ((fst a =? chrom) && chunk_hit s e (snd a)) eqn:Hh.
  - cbn [map collect_blocks]. rewrite (block_of_ab sec a chrom s e Hat (conj Hne Hoka)).
    apply andb_true_iff in Hh as [Hc _]. rewrite Hc. cbn [rbind]. rewrite IH. reflexivity.
  - cbn [app]. exact IH.
Qed.
End Store.

(* ---------- laying the sections out ---------- *)
Section Place.
Variable store : list N -> list N.

Lemma place_at : forall abs pre post,
  Forall2 (ab_at store (pre ++ data_bytes (map (ab_sdata store) abs) ++ post))
          (place (Nlen pre) (map (ab_sdata store) abs)) abs.
Proof.
  induction abs as [|a abs IH]; intros pre post; [constructor|].
  cbn [map place data_bytes flat_map]. cbn [sd_bytes ab_sdata sd_chrom sd_start sd_end].
  constructor.
  - unfold ab_at. cbn [s_off s_size s_chrom s_start s_end]. repeat split.
    rewrite <- app_assoc. apply has_at_mid.
  - specialize (IH (pre ++ store (ab_plain a)) post). rewrite Nlen_app in IH.
    rewrite <- !app_assoc in IH. rewrite <- !app_assoc. exact IH.
Qed.

Lemma has_at_bound img off x : has_at img off x -> off + Nlen x <= Nlen img.
Proof.
  intros [A [B [E L]]]. subst img. unfold Nlen. rewrite !app_length. lia.
Qed.
End Place.

(* ---------- the chunks of one chromosome among all the blocks ---------- *)
Lemma hit_other_chrom ips chrom s e cid vals : cid <> chrom ->
  flat_map (hit_part chrom s e) (chrom_ablocks ips cid vals) = [].
Proof.
  intros Hne. unfold chrom_ablocks. induction (chunks ips vals) as [|c cs IH]; [reflexivity|].
  cbn [map flat_map]. unfold hit_part at 1. cbn [fst snd].
  replace (cid =? chrom) with false by (symmetry; apply N.eqb_neq; exact Hne). cbn [andb app]. exact IH.
Qed.
Lemma hit_same_chrom ips len chrom s e vals : (0 < ips)%nat -> wf_vals len vals ->
  flat_map (hit_part chrom s e) (chrom_ablocks ips chrom vals) = clip_filter s e vals.
Proof.
  intros Hi Hwf. rewrite <- (query_sections len ips s e vals Hi Hwf). unfold chrom_ablocks.
  induction (chunks ips vals) as [|c cs IH]; [reflexivity|].
  cbn [map flat_map filter]. unfold hit_part at 1. cbn [fst snd]. rewrite N.eqb_refl. cbn [andb].
  destruct (chunk_hit s e c); cbn [flat_map app]; now rewrite IH.
Qed.

Definition ids_increasing (outs : list chrom_out) : Prop := StronglySorted (fun a b => co_id a < co_id b) outs.

Lemma select_chrom ips len s e : (0 < ips)%nat -> forall outs c, ids_increasing outs -> In c outs ->
  wf_vals len (co_vals c) ->
  flat_map (hit_part (co_id c) s e) (file_ablocks ips outs) = clip_filter s e (co_vals c).
Proof.
  intros Hi. induction outs as [|c' outs IH]; intros c Hinc Hin Hwf; [destruct Hin|].
  inversion Hinc as [|? ? Hs Hall]; subst. unfold file_ablocks. cbn [flat_map]. rewrite flat_map_app.
  fold (file_ablocks ips outs). destruct Hin as [<-|Hin].
  - rewrite (hit_same_chrom ips len _ s e _ Hi Hwf).
    assert (Hrest : flat_map (hit_part (co_id c') s e) (file_ablocks ips outs) = []).
    { clear IH Hs Hinc. unfold file_ablocks. induction outs as [|d outs IH2]; [reflexivity|].
      inversion Hall as [|? ? Hd Hr]; subst. cbn [flat_map]. rewrite flat_map_app, IH2 by exact Hr.
      rewrite hit_other_chrom by lia. reflexivity. }
    rewrite Hrest. apply app_nil_r.
  - rewrite Forall_forall in Hall. specialize (Hall c Hin).
    rewrite hit_other_chrom by lia. cbn [app]. apply IH; assumption.
Qed.

(* ---------- the section list meets C05's hypotheses ---------- *)
Definition ab_span (a : ablock) : span := {| sc := fst a; sb := ab_start a; ec := fst a; eb := ab_end a |}.

Lemma chrom_ablocks_sorted ips len cid vals : (0 < ips)%nat -> wf_vals len vals ->
  StronglySorted (fun a b => start_le (ab_span a) (ab_span b)) (chrom_ablocks ips cid vals).
Proof.
  intros Hi Hwf. pose proof (heads_sorted (chunks ips vals) (chunks_nonempty ips vals Hi)) as H.
  rewrite chunks_concat in H by exact Hi. specialize (H (wf_start_sorted len vals Hwf)).
  unfold chrom_ablocks. revert H. generalize (chunks ips vals). intros cs H.
  remember (map (fun ch : list value => (0, ch)) cs) as l eqn:El. revert cs El.
  induction H as [|a l Hs IH Ha]; intros cs El.
  - destruct cs; [constructor|discriminate].
  - destruct cs as [|c cs]; [discriminate|]. cbn [map] in El. injection El as -> ->.
    cbn [map]. constructor; [apply IH; reflexivity|].
    apply Forall_forall. intros y Hy. apply in_map_iff in Hy as [c' [<- Hc']].
    rewrite Forall_forall in Ha. specialize (Ha (0, c') ltac:(apply in_map_iff; exists c'; auto)).
    unfold start_le, ple, ab_span, ab_start in *. cbn [sc sb fst snd] in *. right. split; [reflexivity|exact Ha].
Qed.

Lemma file_ablocks_sorted ips : (0 < ips)%nat -> forall outs, ids_increasing outs ->
  Forall (fun c => exists len, wf_vals len (co_vals c)) outs ->
  StronglySorted (fun a b => start_le (ab_span a) (ab_span b)) (file_ablocks ips outs).
Proof.
  intros Hi. induction outs as [|c outs IH]; intros Hinc Hwf; [constructor|].
  inversion Hinc as [|? ? Hs Hall]; subst. inversion Hwf as [|? ? [len Hc] Hr]; subst.
  unfold file_ablocks. cbn [flat_map]. fold (file_ablocks ips outs). apply sorted_app.
  - exact (chrom_ablocks_sorted ips len (co_id c) (co_vals c) Hi Hc).
  - apply IH; assumption.
  - intros x y Hx Hy. unfold chrom_ablocks in Hx. apply in_map_iff in Hx as [ch [<- _]].
    unfold file_ablocks in Hy. apply in_flat_map in Hy as [d [Hd Hy]].
    unfold chrom_ablocks in Hy. apply in_map_iff in Hy as [ch' [<- _]].
    rewrite Forall_forall in Hall. specialize (Hall d Hd).
    unfold start_le, ple, ab_span. cbn [sc sb fst]. left. exact Hall.
Qed.

Lemma spans_of_placed store bs : forall secs abs, Forall2 (ab_at store bs) secs abs ->
  map sect_span secs = map ab_span abs.
Proof.
  induction 1 as [|sec a secs abs (_ & _ & Hc & Hs & He) _ IH]; [reflexivity|].
  cbn [map]. rewrite IH. unfold sect_span, ab_span. now rewrite Hc, Hs, He.
Qed.

Lemma last_in {X} (l : list X) d : l <> [] -> In (last l d) l.
Proof.
  induction l as [|a l IH]; intros H; [congruence|]. destruct l as [|b l]; [left; reflexivity|].
  right. apply IH. discriminate.
Qed.

Lemma placed_sect_ok store bs : Nlen bs < U64 -> forall secs abs, Forall2 (ab_at store bs) secs abs ->
  Forall ab_ok abs -> Forall sect_ok secs.
Proof.
  intros Hlen. induction 1 as [|sec a secs abs (Hat & Hsz & Hc & Hs & He) _ IH]; intros Hok; [constructor|].
  inversion Hok as [|? ? (Hne & Hcid & Hn & Hv) Hr]; subst. constructor; [|apply IH; exact Hr].
  pose proof (has_at_bound _ _ _ Hat) as Hb. rewrite Forall_forall in Hv.
  unfold sect_ok. rewrite Hc, Hs, He, Hsz. unfold ab_start, ab_end.
  destruct (snd a) as [|f r] eqn:E; [congruence|].
  destruct (Hv f ltac:(left; reflexivity)) as (H1 & _).
  destruct (Hv (last (f :: r) f) ltac:(apply last_in; discriminate)) as (_ & H2 & _).
  repeat split; try assumption; lia.
Qed.

(* ---------- ranges: what the writer's types and checks bound ---------- *)
Definition out_ok (ips : N) (c : chrom_out) : Prop :=
  co_id c < U32 /\ co_len c < U32 /\ wf_vals (co_len c) (co_vals c) /\ Forall (fun v => v_bits v < U32) (co_vals c).

Lemma out_values_ok ips c : out_ok ips c -> Forall value_ok (co_vals c).
Proof.
  intros (_ & Hl & Hwf & Hb). pose proof (wf_ends_le _ _ Hwf) as He.
  rewrite Forall_forall in *. intros v Hv. destruct (He v Hv). specialize (Hb v Hv). unfold value_ok. lia.
Qed.

Lemma file_ablocks_ok ips outs : 0 < ips < U16 -> Forall (out_ok ips) outs ->
  Forall ab_ok (file_ablocks (N.to_nat ips) outs).
Proof.
  intros Hi Hall. unfold file_ablocks. apply Forall_forall. intros a Ha.
  apply in_flat_map in Ha as [c [Hc Ha]]. rewrite Forall_forall in Hall. specialize (Hall c Hc).
  unfold chrom_ablocks in Ha. apply in_map_iff in Ha as [ch [<- Hch]]. unfold ab_ok. cbn [fst snd].
  pose proof (chunks_nonempty (N.to_nat ips) (co_vals c) ltac:(lia)) as Hne. rewrite Forall_forall in Hne.
  split; [apply Hne; exact Hch|]. split; [apply Hall|]. split.
  - pose proof (chunks_fuel_len_bound (length (co_vals c)) (N.to_nat ips) (co_vals c) ltac:(lia) (le_n _) ch Hch).
    unfold Nlen, U16 in *. lia.
  - pose proof (out_values_ok ips c Hall) as Hv. rewrite Forall_forall in *. intros v Hin. apply Hv.
    rewrite <- (chunks_concat (N.to_nat ips) (co_vals c)) by lia. apply in_concat. exists ch. auto.
Qed.

Lemma file_ablocks_nonempty ips outs c : In c outs -> co_vals c <> [] -> file_ablocks ips outs <> [].
Proof.
  intros Hin Hne E. destruct (chunks ips (co_vals c)) as [|ch l] eqn:Ec; [apply chunks_nil_iff in Ec; contradiction|].
  assert (H : In (co_id c, ch) (file_ablocks ips outs)).
  { apply in_flat_map. exists c. split; [exact Hin|]. unfold chrom_ablocks. rewrite Ec. left. reflexivity. }
  rewrite E in H. destruct H.
Qed.

(* ---------- the index header ---------- *)
Lemma write_index_header b ips pos secs ix lv : write_index b ips pos secs = Ok (ix, lv) ->
  exists sp body, ix = index_header b ips (Nlen secs) sp pos ++ body.
Proof.
  unfold write_index. destruct (build (N.to_nat b) secs) as [[t l]| | |]; cbn [rbind]; try discriminate.
  unfold rtree_bytes. destruct (write_levels b t l l (pos + 48)) as [body| | |]; cbn [rbind]; try discriminate.
  intros H. injection H as <- _. do 2 eexists. reflexivity.
Qed.

Lemma magic_lt : CIR_TREE_MAGIC < 4294967296.
Proof. reflexivity. Qed.

Lemma cir_root_ok img pos b ips n sp body post pre : Nlen pre = pos ->
  img = pre ++ (index_header b ips n sp pos ++ body) ++ post ->
  cir_tree_root false img pos = Ok (pos + 48).
Proof.
  intros Hpre ->. unfold cir_tree_root.
  assert (Hat : has_at (pre ++ (index_header b ips n sp pos ++ body) ++ post) pos (index_header b ips n sp pos)).
  { exists pre, (body ++ post). split; [now rewrite <- app_assoc|]. unfold Nlen in Hpre. lia. }
  rewrite (has_at_slice_w _ _ _ 48 Hat) by (now rewrite index_header_length). cbn [rdo rbind].
  unfold index_header, u32. cbn [enc_le app firstn dec]. rewrite dec_le4 by exact magic_lt.
  rewrite N.eqb_refl. reflexivity.
Qed.

(* ---------- the theorem ---------- *)
Section Image.
Variable infl : list N -> list N.
Variable store : list N -> list N.

Theorem interval_on_image (b ips : N) (outs : list chrom_out) (pre mid post ix : list N) (lv : nat)
        (i : info) (c : chrom_out) (cn : name) (s e : N) :
  let abs := file_ablocks (N.to_nat ips) outs in
  let data := map (ab_sdata store) abs in
  let ixpos := Nlen (pre ++ data_bytes data ++ mid) in
  let bs := pre ++ data_bytes data ++ mid ++ ix ++ post in
  (* what the image holds *)
  write_index b ips ixpos (place (Nlen pre) data) = Ok (ix, lv) ->
  Nlen bs < U64 ->
  (* what the header says *)
  h_big (i_hdr i) = false ->
  (forall x, (if 0 <? h_ubuf (i_hdr i) then infl (store x) else store x) = x) ->
  h_full_index_off (i_hdr i) = ixpos ->
  chrom_id i cn = Ok (co_id c) ->
  (* options and input as the writer accepts them *)
  2 <= b <= 65535 -> 0 < ips < U16 ->
  ids_increasing outs -> Forall (out_ok ips) outs ->
  In c outs -> co_vals c <> [] ->
  bw_interval infl bs i cn s e = Ok (clip_filter s e (co_vals c)).
Proof.
  intros abs data ixpos bs Hix Hlen Hbig Hstore Hoff Hcid Hb Hips Hinc Hok Hin Hne.
  set (secs := place (Nlen pre) data) in *.
  assert (Hat : Forall2 (ab_at store bs) secs abs).
  { unfold secs, data, bs. exact (place_at store abs pre (mid ++ ix ++ post)). }
  assert (Habok : Forall ab_ok abs) by (apply file_ablocks_ok; assumption).
  assert (Hsecok : Forall sect_ok secs) by (eapply placed_sect_ok; eassumption).
  assert (Hwfall : Forall (fun c => exists len, wf_vals len (co_vals c)) outs).
  { eapply Forall_impl; [|exact Hok]. intros d (_ & _ & Hw & _). eauto. }
  assert (Hsorted : sorted_starts (map sect_span secs)).
  { rewrite (spans_of_placed store bs secs abs Hat). apply sorted_map.
    apply file_ablocks_sorted; [lia|assumption|assumption]. }
  assert (Hsecne : secs <> []).
  { intros E. rewrite E in Hat. inversion Hat as [Hl Habs|].
    exact (file_ablocks_nonempty (N.to_nat ips) outs c Hin Hne (eq_sym Habs)). }
  destruct (search_bytes_eq_scan b ips ixpos secs Hb Hsecne Hsorted Hsecok) as [ix' [lv' [Hix' Hsearch]]].
  rewrite Hix in Hix'. injection Hix' as <- <-.
  destruct (write_index_header _ _ _ _ _ _ Hix) as [sp [body Hixeq]].
  assert (Himg : bs = (pre ++ data_bytes data ++ mid) ++ ix ++ post) by (unfold bs; now rewrite <- !app_assoc).
  assert (Hend : ixpos + Nlen ix <= U64).
  { rewrite Himg in Hlen. rewrite !Nlen_app in Hlen. fold ixpos in Hlen. unfold ixpos. rewrite !Nlen_app. lia. }
  unfold bw_interval. rewrite Hcid. cbn [rbind]. rewrite Hbig, Hoff.
  rewrite (cir_root_ok bs ixpos b ips (Nlen secs) sp body post (pre ++ data_bytes data ++ mid) eq_refl)
    by (rewrite Himg, Hixeq; reflexivity).
  cbn [rbind]. unfold search_blocks. rewrite Hbig.
  rewrite Himg at 2. rewrite (Hsearch Hend (pre ++ data_bytes data ++ mid) post (co_id c) s e (S (length bs)) eq_refl).
  2:{ rewrite Himg, !app_length. lia. }
  cbn [rbind].
  rewrite (collect_scan infl store bs i Hbig Hstore (co_id c) s e secs abs Hat Habok).
  f_equal. unfold abs. rewrite Forall_forall in Hok. destruct (Hok c Hin) as (_ & _ & Hwf & _).
  apply (select_chrom (N.to_nat ips) (co_len c)); [lia|assumption|assumption|assumption].
Qed.
End Image.
