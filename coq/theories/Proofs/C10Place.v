(* C10: placement.  A file body is a list of pieces in file order, each with a gap in front of it;
   the offset table assigns to every piece the position at which [lay] puts its bytes. *)
From BT Require Import Base.Util Base.LE Proofs.RTreeCodec Proofs.C10Codec Spec.FormatEmit.
Local Open Scope N_scope.

Lemma pid_eqb_eq a b : pid_eqb a b = true -> a = b.
Proof.
  destruct a, b; cbn [pid_eqb]; intros H; try discriminate; try reflexivity;
    try (apply Nat.eqb_eq in H; now subst);
    apply andb_true_iff in H as [H1 H2]; apply Nat.eqb_eq in H1, H2; now subst.
Qed.
Lemma pid_eqb_refl a : pid_eqb a a = true.
Proof. destruct a; cbn [pid_eqb]; rewrite ?Nat.eqb_refl; reflexivity. Qed.

Section Place.
Variable size : pid -> N.
Variable bytes : pid -> list N.
Variable fill : N.
Hypothesis Hsize : forall j, Nlen (bytes j) = size j.

Theorem placed : forall ps pos k o, plookup k (off_table size ps pos) = Some o ->
  forall pre post, Nlen pre = pos -> has_at (pre ++ lay fill bytes ps ++ post) o (bytes k).
Proof.
  induction ps as [|[j g] ps IH]; intros pos k o H pre post Hpre; [discriminate|].
  cbn [off_table plookup] in H. unfold lay. cbn [flat_map fst snd]. fold (lay fill bytes ps).
  destruct (pid_eqb j k) eqn:E.
  - apply pid_eqb_eq in E. subst j. injection H as <-.
    exists (pre ++ repeatN fill (N.to_nat g)), (lay fill bytes ps ++ post). split.
    + now rewrite <- !app_assoc.
    + rewrite app_length, repeatN_length. unfold Nlen in Hpre. lia.
  - specialize (IH _ _ _ H (pre ++ repeatN fill (N.to_nat g) ++ bytes j) post).
    rewrite <- !app_assoc in *. apply IH.
    rewrite !Nlen_app, Hsize. unfold Nlen at 2. rewrite repeatN_length. lia.
Qed.

(* every piece satisfying P and holding at least m bytes contributes at least m bytes to the body *)
Lemma lay_length_ge (P : pid -> bool) (m : nat) : (forall j, P j = true -> (m <= length (bytes j))%nat) ->
  forall ps, (m * length (filter (fun jg => P (fst jg)) ps) <= length (lay fill bytes ps))%nat.
Proof.
  intros HP. induction ps as [|[j g] ps IH]; [cbn; lia|].
  unfold lay. cbn [flat_map filter fst snd]. fold (lay fill bytes ps). rewrite !app_length.
  destruct (P j) eqn:E; cbn [length]; [specialize (HP j E)|]; lia.
Qed.
End Place.

Lemma off_table_ge size ps : forall pos k o, plookup k (off_table size ps pos) = Some o -> pos <= o.
Proof.
  induction ps as [|[j g] ps IH]; intros pos k o H; [discriminate|]. cbn [off_table plookup] in H.
  destruct (pid_eqb j k); [injection H as <-; lia|]. apply IH in H. lia.
Qed.

(* lookup in the table is total on the pieces that occur in the order *)
Lemma plookup_in size ps pos k : In k (map fst ps) -> exists o, plookup k (off_table size ps pos) = Some o.
Proof.
  revert pos. induction ps as [|[j g] ps IH]; intros pos H; [destruct H|].
  cbn [off_table plookup]. destruct (pid_eqb j k) eqn:E; [eauto|].
  destruct H as [H|H]; [cbn in H; subst; rewrite pid_eqb_refl in E; discriminate|]. now apply IH.
Qed.
