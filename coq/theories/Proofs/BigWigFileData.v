(* C01, whole file, part 3: the data sections.
   - encode_section's bytes, read back by get_block_values (block_values), give the section's items
     (bit-identical) or None for a block of another chromosome;
   - the writer's data is a list of "pieces" (chromosome id, chunk of values); the index test
     [overlaps] on a piece's span is [same chromosome && chunk_hit];
   - reading the blocks that the linear scan over the placed sections selects (= what the index
     search returns, C05) gives, piece by piece, the clipped values of the hit chunks of the queried
     chromosome (collect_pieces), which is clip_filter over the chromosome's whole value list;
   - the placed sections are sorted by (chromosome id, start) and their fields are in range, which is
     what C05's theorem asks of its input. *)
From Coq Require Import Sorting.Sorted.
From BT Require Import Base.Util Base.LE Base.Float Generated.Consts Model.RTree Model.BBIFile
  Model.BigWigWrite Model.BBIRead Proofs.Chunks Proofs.BigWigQuery Proofs.RTreeAbs Proofs.RTreeBuild
  Proofs.RTreeCodec Proofs.RTreeShape Proofs.FileRegions Proofs.BigWigFile.
Local Open Scope N_scope.

(* ---------- the section codec ---------- *)
Definition value_ok (v : value) : Prop := v_start v < U32 /\ v_end v < U32 /\ v_bits v < U32.

Definition sec_hdr (id st en n : N) : list N :=
  u32 id ++ u32 st ++ u32 en ++ u32 0 ++ u32 0 ++ u8 1 ++ u8 0 ++ u16 n.

Definition section_of (id : N) (items : list value) : sdata :=
  match items with
  | [] => {| sd_chrom := id; sd_start := 0; sd_end := 0; sd_bytes := [] |}
  | f :: _ => {| sd_chrom := id; sd_start := v_start f; sd_end := v_end (last items f);
                 sd_bytes := sec_hdr id (v_start f) (v_end (last items f)) (Nlen items) ++ flat_map value_bytes items |}
  end.

Lemma encode_section_ok id items : items <> [] -> encode_section id items = Ok (section_of id items).
Proof.
  destruct items as [|f r]; [congruence|]. intros _. unfold encode_section, section_of, sec_hdr.
  now rewrite <- !app_assoc.
Qed.

Lemma value_bytes_length v : length (value_bytes v) = 12%nat.
Proof. reflexivity. Qed.
Lemma values_length items : length (flat_map value_bytes items) = (length items * 12)%nat.
Proof. apply flat_map_length_const. apply value_bytes_length. Qed.

Lemma parse_value v rest : value_ok v ->
  dec false (firstn 4 (value_bytes v ++ rest)) = v_start v
  /\ dec false (firstn 4 (skipn 4 (value_bytes v ++ rest))) = v_end v
  /\ dec false (firstn 4 (skipn 8 (value_bytes v ++ rest))) = v_bits v
  /\ skipn 12 (value_bytes v ++ rest) = rest.
Proof.
  intros (H1 & H2 & H3). unfold U32 in *. unfold value_bytes, u32.
  cbn [enc_le app firstn skipn dec]. rewrite !dec_le4 by assumption. auto.
Qed.
Lemma parse_type1_ok items : Forall value_ok items ->
  parse_type1 false (length items) (flat_map value_bytes items) = items.
Proof.
  induction 1 as [|v items Hv _ IH]; [reflexivity|]. cbn [length flat_map parse_type1].
  destruct (parse_value v (flat_map value_bytes items) Hv) as (E1 & E2 & E3 & E4).
  rewrite E1, E2, E3, E4, IH. destruct v; reflexivity.
Qed.

Lemma section_fields id st en n body : id < U32 -> n < U16 ->
  let d := sec_hdr id st en n ++ body in
  dec false (firstn 4 d) = id /\ nth 20 d 0 = 1 /\ dec false (firstn 2 (skipn 22 d)) = n
  /\ skipn 24 d = body /\ length d = (24 + length body)%nat.
Proof.
  intros Hid Hn d. unfold d, sec_hdr, u32, u16, u8. unfold U32, U16 in *.
  cbn [enc_le app firstn skipn nth dec length]. rewrite dec_le4, dec_le2 by assumption.
  repeat split; reflexivity.
Qed.

Section Reader.
Variable infl : list N -> list N.
Variables (i : info) (bs : list N).
Hypothesis Hbig : h_big (i_hdr i) = false.
Hypothesis Hubuf : h_ubuf (i_hdr i) = 0.

Lemma block_data_plain b d : slice bs (fst b) (N.to_nat (snd b)) = Some d -> block_data infl i bs b = Ok d.
Proof. intros H. unfold block_data. rewrite H. cbn [rdo rbind]. rewrite Hubuf. reflexivity. Qed.

(* get_block_values on an uncompressed type-1 section *)
Lemma block_values_section b id items q s e :
  slice bs (fst b) (N.to_nat (snd b)) = Some (sd_bytes (section_of id items)) ->
  items <> [] -> Nlen items < U16 -> id < U32 -> Forall value_ok items ->
  block_values infl i bs b q s e = Ok (if id =? q then Some (clip_filter s e items) else None).
Proof.
  intros Hs Hne Hn Hid Hok. unfold block_values. rewrite (block_data_plain b _ Hs). cbn [rbind]. cbv zeta.
  rewrite Hbig. destruct items as [|f r]; [congruence|]. cbn [section_of sd_bytes].
  set (items := f :: r) in *. set (body := flat_map value_bytes items).
  destruct (section_fields id (v_start f) (v_end (last items f)) (Nlen items) body Hid Hn)
    as (E1 & E2 & E3 & E4 & E5).
  rewrite E5. replace (24 + length body <? 24)%nat with false by (symmetry; apply Nat.ltb_ge; lia).
  rewrite E1. destruct (id =? q); cbn [negb]; [|reflexivity].
  rewrite E2. change (1 =? 1) with true. cbv iota. rewrite E3, E4.
  rewrite Nlen_to_nat. unfold body. rewrite values_length, Nat.ltb_irrefl.
  now rewrite parse_type1_ok.
Qed.
End Reader.

(* ---------- pieces ---------- *)
Definition piece := (N * list value)%type.
Definition psec (p : piece) : sdata := section_of (fst p) (snd p).
Definition piece_ok (p : piece) : Prop :=
  snd p <> [] /\ Nlen (snd p) < U16 /\ fst p < U32 /\ Forall value_ok (snd p).

Lemma overlaps_span q qs qe id st en :
  overlaps q qs qe {| sc := id; sb := st; ec := id; eb := en |} = (id =? q) && ((qs <=? en) && (st <=? qe)).
Proof.
  unfold overlaps, le_pos, ge_pos, cmp_pos. cbn [sc sb ec eb].
  destruct (N.compare_spec q id) as [E|E|E].
  - subst. rewrite N.eqb_refl. cbn [andb]. unfold N.leb. rewrite (N.compare_antisym qe st).
    destruct (qs ?= en); destruct (qe ?= st); reflexivity.
  - replace (id =? q) with false by (symmetry; apply N.eqb_neq; lia). reflexivity.
  - replace (id =? q) with false by (symmetry; apply N.eqb_neq; lia). reflexivity.
Qed.

Lemma overlaps_piece q qs qe sec p : snd p <> [] ->
  s_chrom sec = sd_chrom (psec p) -> s_start sec = sd_start (psec p) -> s_end sec = sd_end (psec p) ->
  overlaps q qs qe (sect_span sec) = (fst p =? q) && chunk_hit qs qe (snd p).
Proof.
  intros Hne H1 H2 H3. unfold sect_span. rewrite H1, H2, H3. destruct p as [id [|f r]]; [cbn in Hne; congruence|].
  cbn [psec section_of fst snd sd_chrom sd_start sd_end chunk_hit]. apply overlaps_span.
Qed.

Section Collect.
Variable infl : list N -> list N.
Variables (i : info) (bs : list N).
Hypothesis Hbig : h_big (i_hdr i) = false.
Hypothesis Hubuf : h_ubuf (i_hdr i) = 0.

(* reading the blocks the scan selects, in order *)
Lemma collect_pieces q s e : forall pieces secs,
  Forall2 (placed bs) secs (map psec pieces) -> Forall piece_ok pieces ->
  collect_blocks (fun b => block_values infl i bs b q s e) (scan secs q s e)
  = Ok (flat_map (fun p => if (fst p =? q) && chunk_hit s e (snd p) then clip_filter s e (snd p) else []) pieces).
Proof.
  induction pieces as [|p pieces IH]; intros secs HP Hok.
  - inversion HP; subst. reflexivity.
  - cbn [map] in HP. inversion HP as [|sec ? secs' ? Hp HP']; subst.
    inversion Hok as [|? ? Hpk Hok']; subst.
    specialize (IH secs' HP' Hok'). unfold scan in *. cbn [filter flat_map].
    destruct Hpk as (Hne & Hn & Hid & Hv).
    pose proof Hp as (Hat & Hsz & Hc & Hst & Hen).
    rewrite (overlaps_piece q s e sec p Hne Hc Hst Hen).
    destruct ((fst p =? q) && chunk_hit s e (snd p)) eqn:Eh.
    + cbn [map collect_blocks].
      rewrite (block_values_section infl i bs Hbig Hubuf (s_off sec, s_size sec) (fst p) (snd p) q s e);
        [|exact (placed_slice bs sec (psec p) Hp)|exact Hne|exact Hn|exact Hid|exact Hv].
      apply andb_true_iff in Eh as [Eq _]. rewrite Eq. cbn [rbind]. rewrite IH. cbn [rbind]. reflexivity.
    + cbn [app]. exact IH.
Qed.
End Collect.

(* ---------- the writer's data as pieces ---------- *)
Definition pieces_of (ips : nat) (outs : list chrom_out) : list piece :=
  flat_map (fun c => map (pair (co_id c)) (chunks ips (co_vals c))) outs.

Lemma mapM_ok {X Y} (f : X -> res Y) (g : X -> Y) l : (forall x, In x l -> f x = Ok (g x)) -> mapM f l = Ok (map g l).
Proof.
  induction l as [|x l IH]; intros H; [reflexivity|]. cbn [mapM map].
  rewrite (H x (or_introl eq_refl)). cbn [rbind]. rewrite IH by (intros y Hy; apply H; right; exact Hy). reflexivity.
Qed.

Lemma data_sections_ok ips id vals : 0 < ips ->
  data_sections ips id vals = Ok (map (fun ch => psec (id, ch)) (chunks (N.to_nat ips) vals)).
Proof.
  intros Hi. unfold data_sections. apply mapM_ok. intros ch Hin. unfold psec. cbn [fst snd].
  apply encode_section_ok. pose proof (chunks_nonempty (N.to_nat ips) vals ltac:(lia)) as Hne.
  rewrite Forall_forall in Hne. apply Hne. exact Hin.
Qed.

Lemma collect_data ips outs data : 0 < ips ->
  concat_res (map (fun c => data_sections ips (co_id c) (co_vals c)) outs) = Ok data ->
  data = map psec (pieces_of (N.to_nat ips) outs).
Proof.
  intros Hi. revert data. induction outs as [|c outs IH]; intros data H.
  - cbn in H. apply Ok_inj in H. subst. reflexivity.
  - cbn [map concat_res fold_right] in H. rewrite (data_sections_ok ips (co_id c) (co_vals c) Hi) in H.
    cbn [rbind] in H. fold (concat_res (map (fun c => data_sections ips (co_id c) (co_vals c)) outs)) in H.
    destruct (concat_res (map (fun c => data_sections ips (co_id c) (co_vals c)) outs)) as [d| | |];
      cbn [rbind] in H; try discriminate.
    apply Ok_inj in H. subst data. rewrite (IH d eq_refl).
    unfold pieces_of. cbn [flat_map]. rewrite map_app, map_map. reflexivity.
Qed.

(* ---------- answering from the pieces = answering from the chromosome's value list ---------- *)
Lemma flat_map_ext_in {X Y} (f g : X -> list Y) l : (forall x, In x l -> f x = g x) -> flat_map f l = flat_map g l.
Proof.
  induction l as [|x l IH]; intros H; [reflexivity|]. cbn [flat_map].
  rewrite (H x (or_introl eq_refl)), IH by (intros y Hy; apply H; right; exact Hy). reflexivity.
Qed.
Lemma flat_map_nil {X Y} (f : X -> list Y) l : (forall x, In x l -> f x = []) -> flat_map f l = [].
Proof.
  induction l as [|x l IH]; intros H; [reflexivity|]. cbn [flat_map]. rewrite (H x (or_introl eq_refl)). cbn [app].
  apply IH. intros y Hy. apply H. right; exact Hy.
Qed.

Lemma pieces_chrom q s e len ips (c : chrom_out) : (0 < ips)%nat -> wf_vals len (co_vals c) ->
  flat_map (fun p : piece => if (fst p =? q) && chunk_hit s e (snd p) then clip_filter s e (snd p) else [])
           (map (pair (co_id c)) (chunks ips (co_vals c)))
  = if co_id c =? q then clip_filter s e (co_vals c) else [].
Proof.
  intros Hi Hwf. destruct (co_id c =? q) eqn:E.
  - rewrite <- (query_sections len ips s e (co_vals c) Hi Hwf).
    induction (chunks ips (co_vals c)) as [|ch chs IH]; [reflexivity|].
    cbn [map flat_map filter fst snd]. rewrite E. cbn [andb].
    destruct (chunk_hit s e ch); cbn [flat_map]; now rewrite IH.
  - apply flat_map_nil. intros p Hp. apply in_map_iff in Hp as [ch [<- _]]. cbn [fst]. now rewrite E.
Qed.

Lemma pieces_answer q s e ips outs : (0 < ips)%nat ->
  Forall (fun c => exists len, wf_vals len (co_vals c)) outs ->
  flat_map (fun p : piece => if (fst p =? q) && chunk_hit s e (snd p) then clip_filter s e (snd p) else [])
           (pieces_of ips outs)
  = flat_map (fun c => if co_id c =? q then clip_filter s e (co_vals c) else []) outs.
Proof.
  intros Hi Hwf. unfold pieces_of. rewrite flat_map_flat_map. apply flat_map_ext_in. intros c Hc.
  rewrite Forall_forall in Hwf. destruct (Hwf c Hc) as [len Hl]. now apply (pieces_chrom q s e len).
Qed.

Lemma flat_map_single {Y} (g : chrom_out -> list Y) outs c0 : NoDup (map co_id outs) -> In c0 outs ->
  flat_map (fun c => if co_id c =? co_id c0 then g c else []) outs = g c0.
Proof.
  induction outs as [|c outs IH]; intros Hnd Hin; [destruct Hin|]. cbn [map] in Hnd.
  inversion Hnd as [|? ? Hc Hnd']; subst. cbn [flat_map]. destruct Hin as [->|Hin].
  - rewrite N.eqb_refl. rewrite flat_map_nil; [apply app_nil_r|].
    intros x Hx. destruct (co_id x =? co_id c0) eqn:E; [|reflexivity]. apply N.eqb_eq in E.
    exfalso. apply Hc. rewrite <- E. apply in_map. exact Hx.
  - destruct (co_id c =? co_id c0) eqn:E.
    + apply N.eqb_eq in E. exfalso. apply Hc. rewrite E. apply in_map. exact Hin.
    + cbn [app]. apply IH; assumption.
Qed.

(* ---------- sortedness of the placed sections ---------- *)
Lemma SSorted_app {X} (R : X -> X -> Prop) l1 l2 : StronglySorted R l1 -> StronglySorted R l2 ->
  (forall a b, In a l1 -> In b l2 -> R a b) -> StronglySorted R (l1 ++ l2).
Proof.
  induction l1 as [|x l1 IH]; intros H1 H2 Hc; [exact H2|]. cbn [app]. inversion H1 as [|? ? Hs Hf]; subst.
  constructor.
  - apply IH; [exact Hs|exact H2|]. intros a b Ha Hb. apply Hc; [right; exact Ha|exact Hb].
  - apply Forall_app. split; [exact Hf|]. apply Forall_forall. intros b Hb. apply Hc; [left; reflexivity|exact Hb].
Qed.
Lemma SSorted_app_r {X} (R : X -> X -> Prop) l1 l2 : StronglySorted R (l1 ++ l2) -> StronglySorted R l2.
Proof. induction l1 as [|x l1 IH]; intros H; [exact H|]. cbn [app] in H. inversion H; subst. auto. Qed.
Lemma SSorted_map {X Y} (f : X -> Y) (R : Y -> Y -> Prop) l :
  StronglySorted (fun a b => R (f a) (f b)) l -> StronglySorted R (map f l).
Proof.
  induction 1 as [|x l Hs IH Hf]; [constructor|]. cbn [map]. constructor; [exact IH|]. now rewrite Forall_map.
Qed.
Lemma SSorted_impl {X} (R S : X -> X -> Prop) l : (forall a b, R a b -> S a b) ->
  StronglySorted R l -> StronglySorted S l.
Proof.
  intros H. induction 1 as [|x l Hs IH Hf]; constructor; [exact IH|]. eapply Forall_impl; [|exact Hf]. apply H.
Qed.
Lemma SSorted_lt_NoDup l : StronglySorted N.lt l -> NoDup l.
Proof.
  induction 1 as [|x l Hs IH Hf]; [constructor|]. constructor; [|exact IH].
  intros Hin. rewrite Forall_forall in Hf. specialize (Hf x Hin). lia.
Qed.

Definition vle (a b : value) : Prop := v_start a <= v_start b.
Lemma wf_sorted len vals : wf_vals len vals -> StronglySorted vle vals.
Proof.
  induction vals as [|v r IH]; intros H; [constructor|]. constructor; [apply IH; eapply wf_tail; exact H|].
  pose proof (wf_after_head _ _ _ H) as Ha. destruct (wf_head _ _ _ H) as [Hs _].
  eapply Forall_impl; [|exact Ha]. intros w Hw. unfold vle. cbv beta in Hw. lia.
Qed.

Definition hd_start (ch : list value) : N := match ch with [] => 0 | f :: _ => v_start f end.
Lemma chunk_heads_sorted : forall cs, Forall (fun c : list value => c <> []) cs -> StronglySorted vle (concat cs) ->
  StronglySorted (fun c1 c2 => hd_start c1 <= hd_start c2) cs.
Proof.
  induction cs as [|c cs IH]; intros Hne Hs; [constructor|].
  inversion Hne as [|? ? Hc Hne']; subst. cbn [concat] in Hs. constructor.
  - apply IH; [exact Hne'|]. eapply SSorted_app_r; exact Hs.
  - destruct c as [|f r]; [congruence|]. cbn [app] in Hs. inversion Hs as [|? ? _ Hf]; subst.
    apply Forall_forall. intros c2 Hc2. rewrite Forall_forall in Hne'. specialize (Hne' c2 Hc2).
    destruct c2 as [|f2 r2]; [congruence|]. cbn [hd_start]. rewrite Forall_forall in Hf. apply (Hf f2).
    apply in_or_app. right. apply in_concat. exists (f2 :: r2). split; [exact Hc2|left; reflexivity].
Qed.

Definition pspan (p : piece) : span :=
  {| sc := sd_chrom (psec p); sb := sd_start (psec p); ec := sd_chrom (psec p); eb := sd_end (psec p) |}.
Lemma pspan_sc p : sc (pspan p) = fst p.
Proof. destruct p as [id [|f r]]; reflexivity. Qed.
Lemma pspan_sb p : sb (pspan p) = hd_start (snd p).
Proof. destruct p as [id [|f r]]; reflexivity. Qed.

Lemma place_pieces_spans off pieces : map sect_span (place off (map psec pieces)) = map pspan pieces.
Proof. rewrite place_spans, map_map. reflexivity. Qed.

Lemma pieces_sorted ips : (0 < ips)%nat -> forall outs,
  StronglySorted N.lt (map co_id outs) -> Forall (fun c => exists len, wf_vals len (co_vals c)) outs ->
  sorted_starts (map pspan (pieces_of ips outs)).
Proof.
  intros Hi. unfold sorted_starts. induction outs as [|c outs IH]; intros Hs Hwf; [constructor|].
  cbn [map] in Hs. inversion Hs as [|? ? Hs' Hlt]; subst. inversion Hwf as [|? ? [len Hl] Hwf']; subst.
  unfold pieces_of. cbn [flat_map]. fold (pieces_of ips outs). rewrite map_app. apply SSorted_app.
  - rewrite map_map. apply SSorted_map.
    pose proof (chunk_heads_sorted (chunks ips (co_vals c)) (chunks_nonempty ips (co_vals c) Hi)) as Hh.
    rewrite chunks_concat in Hh by exact Hi. specialize (Hh (wf_sorted len _ Hl)).
    eapply SSorted_impl; [|exact Hh]. intros a b Hab. unfold start_le, ple.
    rewrite !pspan_sc, !pspan_sb. cbn [fst snd]. right. split; [reflexivity|exact Hab].
  - apply IH; assumption.
  - intros a b Ha Hb. apply in_map_iff in Ha as [pa [<- Ha]]. apply in_map_iff in Hb as [pb [<- Hb]].
    apply in_map_iff in Ha as [ch [<- _]]. unfold pieces_of in Hb. apply in_flat_map in Hb as [c' [Hc' Hb]].
    apply in_map_iff in Hb as [ch' [<- _]]. unfold start_le, ple. rewrite !pspan_sc. cbn [fst]. left.
    rewrite Forall_forall in Hlt. apply Hlt. apply in_map. exact Hc'.
Qed.

(* ---------- ranges ---------- *)
Lemma wf_values_ok len vals : wf_vals len vals -> len < U32 -> Forall (fun v => v_bits v < U32) vals ->
  Forall value_ok vals.
Proof.
  intros Hwf Hl Hb. induction vals as [|v r IH]; [constructor|].
  inversion Hb as [|? ? Hbv Hbr]; subst. destruct (wf_head _ _ _ Hwf) as [Hw1 Hw2]. constructor.
  - unfold value_ok. repeat split; [lia|lia|assumption].
  - apply IH; [eapply wf_tail; exact Hwf|assumption].
Qed.

Lemma pieces_ok ips outs : (0 < ips)%nat -> N.of_nat ips < U16 ->
  Forall (fun c => co_id c < U32 /\ Forall value_ok (co_vals c)) outs ->
  Forall piece_ok (pieces_of ips outs).
Proof.
  intros Hi Hu Hc. unfold pieces_of. apply Forall_forall. intros p Hp.
  apply in_flat_map in Hp as [c [Hc' Hp]]. apply in_map_iff in Hp as [ch [<- Hch]].
  rewrite Forall_forall in Hc. destruct (Hc c Hc') as [Hid Hv]. unfold piece_ok. cbn [fst snd].
  pose proof (chunks_nonempty ips (co_vals c) Hi) as Hne. rewrite Forall_forall in Hne.
  split; [apply Hne; exact Hch|]. split.
  - pose proof (chunks_len_bound ips (co_vals c) ch Hi Hch). unfold Nlen. lia.
  - split; [exact Hid|]. pose proof (chunks_concat ips (co_vals c) Hi) as Hcat.
    rewrite <- Hcat in Hv. apply Forall_concat in Hv. rewrite Forall_forall in Hv. apply Hv. exact Hch.
Qed.

Lemma psec_fields_ok p : piece_ok p -> sd_chrom (psec p) < U32 /\ sd_start (psec p) < U32 /\ sd_end (psec p) < U32.
Proof.
  intros (Hne & _ & Hid & Hv). destruct p as [id [|f r]]; [cbn in Hne; congruence|].
  cbn [psec section_of fst snd sd_chrom sd_start sd_end] in *. split; [exact Hid|].
  rewrite Forall_forall in Hv. split.
  - apply (Hv f). left; reflexivity.
  - assert (Hin : In (last (f :: r) f) (f :: r)).
    { clear. generalize f at 1 3. induction r as [|x r IH]; intros d; [left; reflexivity|].
      change (last (d :: x :: r) f) with (last (x :: r) f). right. apply (IH x). }
    apply (Hv _ Hin).
Qed.

(* the placed records of in-range pieces inside a file shorter than 2^64 are in range *)
Lemma placed_sect_ok limit : limit < U64 -> forall pieces off, Forall piece_ok pieces ->
  off + Nlen (data_bytes (map psec pieces)) <= limit ->
  Forall sect_ok (place off (map psec pieces)).
Proof.
  intros Hlim. induction pieces as [|p pieces IH]; intros off Hok Hend; [constructor|].
  inversion Hok as [|? ? Hpk Hok']; subst. cbn [map] in *. rewrite data_bytes_cons, Nlen_app in Hend.
  cbn [place]. constructor.
  - destruct (psec_fields_ok p Hpk) as (H1 & H2 & H3). unfold sect_ok. cbn [s_chrom s_start s_end s_off s_size].
    repeat split; try assumption; lia.
  - apply IH; [exact Hok'|lia].
Qed.
