(* C14: the shape of the trace of an accepted input (body, header operation, patches), of a
   refused input, and what the destination holds at every crash point. *)
From BT Require Import Base.Util Base.LE Base.Float Generated.Consts Model.RTree Model.BBIFile Model.BigWigWrite Model.BBIRead
  Model.SinkTrace Proofs.RTreeCodec Proofs.SinkBytes Proofs.SinkFault Proofs.SinkExec.
Local Open Scope N_scope.

(* ---- small writes, seeks and the final flush on an explicit state ---- *)
Lemma W_buffers f b s : Nlen b < CAP - Nlen (s_buf s) ->
  exec1 f (W b) s = (Ok tt, set_buf (s_buf s ++ b) s).
Proof.
  intros H. cbn [exec1 W]. unfold bw_write_all. destruct (N.ltb_spec (Nlen b) (CAP - Nlen (s_buf s))); [reflexivity|lia].
Qed.

(* the state after the buffer [b] has been written at the sink's position *)
Definition flushed (b : list N) (s : st) : st := set_buf [] (emit (SWrite (s_pos s) b) (bump 1 s)).

Lemma flush_buf_nonempty s : s_buf s <> [] -> flush_buf None s = (Ok tt, flushed (s_buf s) s).
Proof.
  intros H. unfold flush_buf. destruct (s_buf s) as [|x b] eqn:E; [congruence|].
  unfold bindM, sink_write, sink. cbn [hit]. unfold upd, flushed. reflexivity.
Qed.

Lemma seek_nonempty t s : s_buf s <> [] ->
  exec1 None (CSeek t) s =
  (Ok tt, emit (SSeek (target t (flushed (s_buf s) s))) (bump 0 (flushed (s_buf s) s))).
Proof.
  intros H. cbn [exec1]. unfold bw_seek, bindM. rewrite (flush_buf_nonempty s H).
  unfold sink_seek, sink. cbn [hit]. reflexivity.
Qed.
Lemma seek_empty t s : s_buf s = [] ->
  exec1 None (CSeek t) s = (Ok tt, emit (SSeek (target t s)) (bump 0 s)).
Proof.
  intros H. cbn [exec1]. unfold bw_seek, bindM, flush_buf. rewrite H. unfold ret, sink_seek, sink. cbn [hit]. reflexivity.
Qed.
Lemma flush_nonempty s : s_buf s <> [] ->
  exec1 None CFlush s = (Ok tt, emit SFlush (bump 2 (flushed (s_buf s) s))).
Proof.
  intros H. cbn [exec1]. unfold bw_flush, bindM. rewrite (flush_buf_nonempty s H).
  unfold sink_flush, sink. cbn [hit]. reflexivity.
Qed.

(* write [b] (small) into the buffer holding [b0], then seek: one write of b0 ++ b, one seek *)
Lemma write_then_seek b t s : Nlen b < CAP - Nlen (s_buf s) -> s_buf s ++ b <> [] ->
  exists s', exec None [W b; CSeek t] s = (Ok tt, s')
    /\ s_buf s' = []
    /\ s_file s' = write_at (s_file s) (s_pos s) (s_buf s ++ b)
    /\ s_pos s' = match t with
                  | ToStart n => n
                  | ToCur => s_pos s + Nlen (s_buf s ++ b)
                  | ToEnd => Nlen (write_at (s_file s) (s_pos s) (s_buf s ++ b))
                  end
    /\ s_ops s' = s_ops s ++ [SWrite (s_pos s) (s_buf s ++ b); SSeek (s_pos s')].
Proof.
  intros Hl Hne. cbn [exec]. unfold bindM at 1. rewrite (W_buffers None b s Hl).
  unfold bindM. rewrite seek_nonempty by (cbn [set_buf s_buf]; exact Hne).
  eexists. split; [reflexivity|].
  unfold flushed, emit, bump, target. cbn [set_buf s_buf s_pos s_file s_ops apply_op kind_of].
  split; [reflexivity|]. split; [reflexivity|]. split; [destruct t; reflexivity|].
  rewrite <- app_assoc. cbn [app]. destruct t; reflexivity.
Qed.

(* ---- the parts of a bigWig as BigWigWrite lays them out ---- *)
Record parts_ok (p : parts) : Prop := {
  pk_pre : p_pre p = bw_pre;
  pk_hdr : Nlen (p_hdr p) = 64;
  pk_zdir : Nlen (p_zdir p) <= 240;
  pk_so : p_so p = 304;
  pk_sum : Nlen (p_sum p) = 40;
  pk_fdo : p_fdo p = 344;
  pk_cnt : Nlen (p_cnt p) = 8;
  pk_magic : Nlen (p_magic p) = 4 }.

Definition header_op (p : parts) : sop := SWrite 0 (p_hdr p ++ p_zdir p).
(* what follows the header operation *)
Definition tail_ops (p : parts) : list sop :=
  [SSeek (p_so p); SWrite (p_so p) (p_sum p); SSeek (p_fdo p); SWrite (p_fdo p) (p_cnt p);
   SSeek (Nlen (body p)); SWrite (Nlen (body p)) (p_magic p); SFlush].

Lemma Nlen_nonempty {X} (l : list X) n : Nlen l = n -> 0 < n -> l <> [].
Proof. intros H Hn E. subst l. cbn in H. lia. Qed.

Lemma body_length p : parts_ok p -> 352 <= Nlen (body p).
Proof.
  intros K. unfold body. rewrite Nlen_app', (pk_pre p K). replace (Nlen bw_pre) with 352 by (vm_compute; reflexivity). lia.
Qed.

Lemma write_at_Nlen_inside c q b : q + Nlen b <= Nlen c -> Nlen (write_at c q b) = Nlen c.
Proof. intros H. unfold Nlen in *. rewrite write_at_length. lia. Qed.

(* write_info after its first seek: from a state with an empty buffer at position 0 whose
   content is the body *)
Lemma exec_info_tail p s : parts_ok p -> s_buf s = [] -> s_pos s = 0 -> s_file s = body p ->
  exists s', exec None [W (p_hdr p); W (p_zdir p); CSeek (ToStart (p_so p)); W (p_sum p); CSeek (ToStart (p_fdo p));
                        W (p_cnt p); CSeek ToEnd; W (p_magic p); CFlush] s = (Ok tt, s')
    /\ s_buf s' = [] /\ s_ops s' = s_ops s ++ header_op p :: tail_ops p.
Proof.
  intros K Hb Hp Hf. pose proof (body_length p K) as HL.
  (* header: two small writes and the seek to the summary slot *)
  change [W (p_hdr p); W (p_zdir p); CSeek (ToStart (p_so p)); W (p_sum p); CSeek (ToStart (p_fdo p));
          W (p_cnt p); CSeek ToEnd; W (p_magic p); CFlush]
    with ([W (p_hdr p)] ++ [W (p_zdir p); CSeek (ToStart (p_so p))] ++ [W (p_sum p); CSeek (ToStart (p_fdo p))]
          ++ [W (p_cnt p); CSeek ToEnd] ++ [W (p_magic p); CFlush]).
  rewrite exec_app. unfold bindM at 1. cbn [exec]. unfold bindM at 1.
  rewrite (W_buffers None (p_hdr p) s) by (rewrite Hb; change (Nlen []) with 0; rewrite (pk_hdr p K); unfold CAP; lia).
  unfold ret. set (s0 := set_buf (s_buf s ++ p_hdr p) s).
  assert (Hb0 : s_buf s0 = p_hdr p) by (unfold s0; cbn [set_buf s_buf]; rewrite Hb; reflexivity).
  rewrite exec_app. unfold bindM at 1.
  destruct (write_then_seek (p_zdir p) (ToStart (p_so p)) s0) as [s1 [E1 [B1 [F1 [P1 O1]]]]].
  { rewrite Hb0, (pk_hdr p K). pose proof (pk_zdir p K). unfold CAP. lia. }
  { rewrite Hb0. intros E. apply app_eq_nil in E as [E _]. revert E. apply (Nlen_nonempty _ 64 (pk_hdr p K)). lia. }
  rewrite E1. rewrite Hb0 in F1, O1. unfold s0 in F1, O1. cbn [set_buf s_pos s_file s_ops] in F1, O1. rewrite Hp in F1, O1.
  (* summary *)
  rewrite exec_app. unfold bindM at 1.
  destruct (write_then_seek (p_sum p) (ToStart (p_fdo p)) s1) as [s2 [E2 [B2 [F2 [P2 O2]]]]].
  { rewrite B1. change (Nlen []) with 0. rewrite (pk_sum p K). unfold CAP. lia. }
  { rewrite B1. cbn [app]. apply (Nlen_nonempty _ 40 (pk_sum p K)). lia. }
  rewrite E2. rewrite B1 in F2, O2. cbn [app] in F2, O2. rewrite P1 in F2, O2.
  (* count *)
  rewrite exec_app. unfold bindM at 1.
  destruct (write_then_seek (p_cnt p) ToEnd s2) as [s3 [E3 [B3 [F3 [P3 O3]]]]].
  { rewrite B2. change (Nlen []) with 0. rewrite (pk_cnt p K). unfold CAP. lia. }
  { rewrite B2. cbn [app]. apply (Nlen_nonempty _ 8 (pk_cnt p K)). lia. }
  rewrite E3. rewrite B2 in F3, O3, P3. cbn [app] in F3, O3, P3. rewrite P2 in F3, O3, P3.
  (* the lengths: all three patches lie inside the body *)
  assert (L1 : Nlen (s_file s1) = Nlen (body p)).
  { rewrite F1, Hf. apply write_at_Nlen_inside. rewrite Nlen_app', (pk_hdr p K). pose proof (pk_zdir p K). lia. }
  assert (L2 : Nlen (s_file s2) = Nlen (body p)).
  { rewrite F2, <- L1. apply write_at_Nlen_inside. rewrite (pk_so p K), (pk_sum p K), L1. lia. }
  assert (L3 : Nlen (s_file s3) = Nlen (body p)).
  { rewrite F3, <- L2. apply write_at_Nlen_inside. rewrite (pk_fdo p K), (pk_cnt p K), L2. lia. }
  rewrite <- F3, L3 in P3.
  (* the closing magic and the flush *)
  cbn [exec]. unfold bindM at 1.
  rewrite (W_buffers None (p_magic p) s3) by (rewrite B3; change (Nlen []) with 0; rewrite (pk_magic p K); unfold CAP; lia).
  unfold bindM at 1.
  assert (Hne : s_buf (set_buf (s_buf s3 ++ p_magic p) s3) <> []).
  { cbn [set_buf s_buf]. rewrite B3. cbn [app]. apply (Nlen_nonempty _ 4 (pk_magic p K)). lia. }
  rewrite (flush_nonempty _ Hne). unfold ret.
  eexists. split; [reflexivity|].
  unfold flushed, emit, bump. cbn [set_buf s_buf s_pos s_file s_ops apply_op kind_of].
  split; [reflexivity|].
  rewrite B3, O3, O2, O1, P3, P2, P1. cbn [app]. unfold header_op, tail_ops.
  rewrite <- !app_assoc. cbn [app]. reflexivity.
Qed.

(* write_info's first seek, at the end of the body *)
Lemma seek_start_from_app s : app_mode s ->
  exists s', exec1 None (CSeek (ToStart 0)) s = (Ok tt, s')
    /\ s_buf s' = [] /\ s_pos s' = 0 /\ s_file s' = s_file s ++ s_buf s /\ replay (s_ops s') = s_file s'
    /\ exists new, s_ops s' = s_ops s ++ new /\ Forall (above (s_pos s)) new.
Proof.
  intros [Hp Hr]. destruct (s_buf s) as [|x b] eqn:Eb.
  - rewrite (seek_empty _ s Eb). eexists. split; [reflexivity|].
    unfold emit, bump, target. cbn [s_buf s_pos s_file s_ops apply_op].
    rewrite app_nil_r. repeat split; auto.
    + rewrite replay_snoc. exact Hr.
    + exists [SSeek 0]. split; [reflexivity|repeat constructor].
  - assert (Hne : s_buf s <> []) by (rewrite Eb; discriminate).
    rewrite (seek_nonempty _ s Hne). eexists. split; [reflexivity|].
    unfold flushed, emit, bump, target. cbn [set_buf s_buf s_pos s_file s_ops apply_op].
    rewrite Eb. repeat split; auto.
    + rewrite Hp. apply write_at_end.
    + rewrite !replay_snoc. cbn [apply_op]. rewrite Hr, Hp. reflexivity.
    + exists [SWrite (s_pos s) (x :: b); SSeek 0]. split; [rewrite <- app_assoc; reflexivity|].
      repeat constructor. cbn. lia.
Qed.

(* ---- the trace of an accepted input ---- *)
Lemma Forall_above_phase1 q l : 4 <= q -> Forall (above q) l -> Forall phase1_op l.
Proof. intros Hq H. eapply Forall_impl; [|exact H]. intros op. apply above_phase1. exact Hq. Qed.

Lemma run_ok_empty cs s : exec None cs st0 = (Ok tt, s) -> s_buf s = [] -> run None (Ok tt) cs = (Ok tt, s_ops s).
Proof. intros E Hb. unfold run. rewrite E. unfold flush_buf. rewrite Hb. reflexivity. Qed.

Theorem accept_trace ck kind p : chunker_ok ck -> parts_ok p ->
  exists ops1,
    run None (Ok tt) (calls_accept ck false true kind p) = (Ok tt, ops1 ++ header_op p :: tail_ops p)
    /\ Forall phase1_op ops1 /\ replay ops1 = body p /\ length ops1 = header_index ck kind p.
Proof.
  intros Hck K.
  destruct (exec_body ck kind p Hck (pk_pre p K)) as [s [E [A [F [[new [O P]] Hpos]]]]].
  destruct (seek_start_from_app s A) as [s1 [E1 [B1 [P1 [F1 [R1 [new1 [O1 Q1]]]]]]]].
  assert (Ebs : exec None (calls_body ck kind p ++ [CSeek (ToStart 0)]) st0 = (Ok tt, s1)).
  { rewrite exec_app. unfold bindM. rewrite E. cbn [exec]. unfold bindM. rewrite E1. reflexivity. }
  exists (s_ops s1). split; [|split; [|split]].
  - destruct (exec_info_tail p s1 K B1 P1 (eq_trans F1 F)) as [s2 [E2 [B2 O2]]].
    assert (Eall : exec None (calls_accept ck false true kind p) st0 = (Ok tt, s2)).
    { unfold calls_accept, calls_info. cbn [app]. rewrite exec_app. unfold bindM. rewrite E.
      cbn [exec]. unfold bindM at 1. rewrite E1. exact E2. }
    rewrite (run_ok_empty _ s2 Eall B2), O2. reflexivity.
  - rewrite O1, O. apply Forall_app. split; [apply Forall_app; split|].
    + exact ops_pre_phase1.
    + apply (Forall_above_phase1 352); [lia|exact P].
    + apply (Forall_above_phase1 (s_pos s)); [lia|exact Q1].
  - rewrite R1, F1. exact F.
  - unfold header_index. rewrite (run_ok_empty _ s1 Ebs B1). reflexivity.
Qed.

(* ---- crash points ---- *)
Lemma cut_ops_app_lt a b n c : (n < length a)%nat -> cut_ops (a ++ b) n c = cut_ops a n c.
Proof.
  intros H. unfold cut_ops. rewrite firstn_app. replace (n - length a)%nat with 0%nat by lia. cbn [firstn].
  rewrite app_nil_r. rewrite nth_error_app1 by exact H. reflexivity.
Qed.
Lemma cut_ops_app_ge a b m c : cut_ops (a ++ b) (length a + m) c = a ++ cut_ops b m c.
Proof.
  unfold cut_ops. rewrite firstn_app. replace (length a + m - length a)%nat with m by lia.
  rewrite firstn_all2 by lia. rewrite nth_error_app2 by lia. replace (length a + m - length a)%nat with m by lia.
  now rewrite app_assoc.
Qed.

(* at and after the header operation: everything but the summary slot, the count and the closing
   magic is final *)
Definition complete_state (p : parts) (X : list N) : Prop :=
  (length (body p) <= length X <= length (body p) + 4)%nat
  /\ forall i, (i < length (body p))%nat -> ~ (304 <= i < 352)%nat -> nth i X 0 = nth i (final_bytes p) 0.

Lemma Nlen_nat {X} (l : list X) n : Nlen l = N.of_nat n -> length l = n.
Proof. unfold Nlen. lia. Qed.

Lemma tail_window p : parts_ok p -> Forall (window_op 304 352 (length (body p)) 4) (tail_ops p).
Proof.
  intros K. unfold tail_ops.
  pose proof (Nlen_nat _ 40 (pk_sum p K)) as H1. pose proof (Nlen_nat _ 8 (pk_cnt p K)) as H2.
  pose proof (Nlen_nat _ 4 (pk_magic p K)) as H3.
  rewrite (pk_so p K), (pk_fdo p K).
  constructor; [exact I|]. constructor; [cbn [window_op]; left; lia|]. constructor; [exact I|].
  constructor; [cbn [window_op]; left; lia|]. constructor; [exact I|].
  constructor; [cbn [window_op]; right; unfold Nlen; rewrite Nat2N.id; lia|]. constructor; [exact I|constructor].
Qed.

Definition after_header (p : parts) : list N := write_at (body p) 0 (p_hdr p ++ p_zdir p).
Lemma after_header_length p : parts_ok p -> length (after_header p) = length (body p).
Proof.
  intros K. unfold after_header. rewrite write_at_length, app_length.
  pose proof (Nlen_nat _ 64 (pk_hdr p K)). pose proof (pk_zdir p K). pose proof (body_length p K).
  unfold Nlen in *. lia.
Qed.

(* the finished file is the replay of the whole trace *)
Lemma final_is_replay p : parts_ok p ->
  final_bytes p = fold_left apply_op (tail_ops p) (after_header p).
Proof.
  intros K. unfold tail_ops. cbn [fold_left apply_op]. unfold final_bytes, after_header.
  pose proof (body_length p K) as HL. pose proof (pk_zdir p K) as HZ.
  pose proof (Nlen_nat _ 64 (pk_hdr p K)) as H0. pose proof (Nlen_nat _ 40 (pk_sum p K)) as H1.
  pose proof (Nlen_nat _ 8 (pk_cnt p K)) as H2.
  set (f1 := patch_at (body p) 0 (p_hdr p ++ p_zdir p)).
  assert (E1 : write_at (body p) 0 (p_hdr p ++ p_zdir p) = f1) by (apply write_at_patch; cbn; lia).
  rewrite E1.
  assert (L1 : length f1 = length (body p)).
  { rewrite <- E1, write_at_length, app_length. unfold Nlen in *. lia. }
  set (f2 := patch_at f1 (p_so p) (p_sum p)).
  assert (E2 : write_at f1 (p_so p) (p_sum p) = f2).
  { apply write_at_patch. rewrite (pk_so p K), L1. unfold Nlen in HL. lia. }
  rewrite E2.
  assert (L2 : length f2 = length (body p)).
  { rewrite <- E2, write_at_length, (pk_so p K), L1. unfold Nlen in *. lia. }
  set (f3 := patch_at f2 (p_fdo p) (p_cnt p)).
  assert (E3 : write_at f2 (p_fdo p) (p_cnt p) = f3).
  { apply write_at_patch. rewrite (pk_fdo p K), L2. unfold Nlen in HL. lia. }
  rewrite E3.
  assert (L3 : length f3 = length (body p)).
  { rewrite <- E3, write_at_length, (pk_fdo p K), L2. unfold Nlen in *. lia. }
  replace (Nlen (body p)) with (Nlen f3) by (unfold Nlen; now rewrite L3).
  now rewrite write_at_end.
Qed.

Lemma window_complete p X ops : parts_ok p -> Forall (window_op 304 352 (length (body p)) 4) ops ->
  X = fold_left apply_op ops (after_header p) -> complete_state p X.
Proof.
  intros K Hw ->. pose proof (body_length p K) as HL.
  assert (Hhi : (352 <= length (body p))%nat) by (unfold Nlen in HL; lia).
  assert (Hl0 : (length (body p) <= length (after_header p) <= length (body p) + 4)%nat)
    by (rewrite (after_header_length p K); lia).
  destruct (window_fold 304 352 _ 4 ops Hhi Hw _ Hl0) as [Hlen Hnth].
  destruct (window_fold 304 352 _ 4 (tail_ops p) Hhi (tail_window p K) _ Hl0) as [_ HnthF].
  split; [exact Hlen|]. intros i Hi Hout. rewrite (final_is_replay p K).
  rewrite Hnth, HnthF by assumption. reflexivity.
Qed.

Section Crash.
Variables (ck : chunker) (kind : N) (p : parts).
Hypotheses (Hck : chunker_ok ck) (K : parts_ok p).
Let T := snd (run None (Ok tt) (calls_accept ck false true kind p)).
Let h := header_index ck kind p.

(* the header operation is the h-th *)
Lemma header_at : nth_error T h = Some (header_op p).
Proof.
  unfold T, h. destruct (accept_trace ck kind p Hck K) as [ops1 [E [_ [_ L]]]]. rewrite E. cbn [snd].
  rewrite <- L. rewrite nth_error_app2 by lia. rewrite Nat.sub_diag. reflexivity.
Qed.

(* every crash point before the header operation (any number of whole operations, any part of
   the next write): the first four bytes are zero, read_info refuses the file *)
Theorem crash_before_rejected n c : (n < h)%nat -> rejected (replay (cut_ops T n c)).
Proof.
  intros Hn. unfold T, h in *. destruct (accept_trace ck kind p Hck K) as [ops1 [E [P1 [_ L]]]]. rewrite E. cbn [snd].
  rewrite cut_ops_app_lt by lia. apply zero4_rejected, zero4_replay, phase1_cut. exact P1.
Qed.
Theorem crash_at_header_rejected n : (n <= h)%nat -> rejected (replay (firstn n T)).
Proof.
  intros Hn. unfold T, h in *. destruct (accept_trace ck kind p Hck K) as [ops1 [E [P1 [_ L]]]]. rewrite E. cbn [snd].
  rewrite firstn_app. replace (n - length ops1)%nat with 0%nat by lia. cbn [firstn]. rewrite app_nil_r.
  apply zero4_rejected, zero4_replay. apply Forall_forall. intros x Hx. rewrite Forall_forall in P1. apply P1.
  eapply in_firstn; eauto.
Qed.

(* every crash point that includes the header operation *)
Theorem crash_after_complete n c : (h < n)%nat -> complete_state p (replay (cut_ops T n c)).
Proof.
  intros Hn. unfold T, h in *. destruct (accept_trace ck kind p Hck K) as [ops1 [E [_ [R1 L]]]]. rewrite E. cbn [snd].
  replace n with (length ops1 + S (n - S (length ops1)))%nat by lia.
  rewrite cut_ops_app_ge.
  set (m := (n - S (length ops1))%nat).
  assert (Ec : cut_ops (header_op p :: tail_ops p) (S m) c = header_op p :: cut_ops (tail_ops p) m c) by reflexivity.
  rewrite Ec, replay_app. cbn [fold_left]. rewrite R1.
  apply (window_complete p _ (cut_ops (tail_ops p) m c) K).
  - apply window_cut. apply tail_window. exact K.
  - reflexivity.
Qed.

(* the whole trace replays to the finished file *)
Theorem replay_final : replay T = final_bytes p.
Proof.
  unfold T. destruct (accept_trace ck kind p Hck K) as [ops1 [E [_ [R1 _]]]]. rewrite E. cbn [snd].
  rewrite replay_app. cbn [fold_left]. rewrite R1. symmetry. apply final_is_replay. exact K.
Qed.
Theorem accept_returns_ok : fst (run None (Ok tt) (calls_accept ck false true kind p)) = Ok tt.
Proof. destruct (accept_trace ck kind p Hck K) as [ops1 [E _]]. rewrite E. reflexivity. Qed.
End Crash.

(* ---- a refused input: only the blank headers and data sections reach the destination ---- *)
Theorem refused_phase1 ck status partial : chunker_ok ck ->
  Forall phase1_op (snd (run None status (calls_refused ck partial))).
Proof.
  intros Hck. unfold run, calls_refused. rewrite exec_app. unfold bindM. rewrite exec_pre.
  destruct (appends_exec _ (region_append ck R_DATA partial) st_pre st_pre_app) as [s [E [A [F [[new [O P]] L]]]]].
  rewrite E. destruct (appends_flush_buf s A) as [s' [E' [A' [F' [[new' [O' P']] L']]]]]. rewrite E'. cbn [snd].
  rewrite O', O. cbn [st_pre s_ops]. apply Forall_app. split; [apply Forall_app; split|].
  - exact ops_pre_phase1.
  - apply (Forall_above_phase1 352); [lia|exact P].
  - cbn [st_pre s_pos] in L. apply (Forall_above_phase1 (s_pos s)); [lia|exact P'].
Qed.
Theorem refused_rejected ck status partial n c : chunker_ok ck ->
  rejected (replay (cut_ops (snd (run None status (calls_refused ck partial))) n c)).
Proof. intros Hck. apply zero4_rejected, zero4_replay, phase1_cut, refused_phase1. exact Hck. Qed.
Lemma refused_status ck status partial : status <> Ok tt -> fst (run None status (calls_refused ck partial)) <> Ok tt.
Proof.
  intros Hs. unfold run. destruct (exec None (calls_refused ck partial) st0) as [r s].
  destruct (flush_buf None s) as [r2 s2]. cbn [fst]. destruct r as [[]| | |]; [exact Hs| | |]; discriminate.
Qed.
