(* C02: the bigBed section codec.  Decoding the bytes encode_section writes for a list of entries
   returns that list, provided no rest field contains a NUL byte, no entry is [0,0) (the reader
   takes such a record for padding and rejects the block: known finding K2) and the fields fit
   their 32-bit slots. *)
From BT Require Import Base.Util Base.LE Model.RTree Model.BBIFile Model.BigWigWrite Model.BBIRead
  Model.BigBedWrite Model.BBIReadBed Proofs.RTreeCodec.
Local Open Scope N_scope.

Definition no_nul (l : list N) : Prop := Forall (fun b => b <> 0) l.
Definition entry_ok (x : entry) : Prop :=
  e_start x < U32 /\ e_end x < U32 /\ no_nul (e_rest x) /\ ~ (e_start x = 0 /\ e_end x = 0).

Lemma split_nul_app rest tail : no_nul rest -> split_nul (rest ++ 0 :: tail) = Some (rest, tail).
Proof.
  induction 1 as [|b r Hb _ IH]; cbn [app split_nul].
  - rewrite N.eqb_refl. reflexivity.
  - destruct (b =? 0) eqn:E; [apply N.eqb_eq in E; contradiction|]. rewrite IH. reflexivity.
Qed.

Lemma skipn_skipn {X} (x y : nat) (l : list X) : skipn x (skipn y l) = skipn (y + x) l.
Proof.
  revert l. induction y as [|y IH]; intros l; [reflexivity|].
  destruct l as [|a l]; [cbn [plus skipn]; now rewrite skipn_nil|]. cbn [plus skipn]. apply IH.
Qed.

Lemma u32_length x : length (u32 x) = 4%nat.
Proof. apply enc_le_length. Qed.
Lemma dec_u32 x : x < U32 -> dec false (u32 x) = x.
Proof. intros H. unfold dec, u32. apply dec_enc_le. exact H. Qed.

Lemma entry_bytes_shape chrom x tail :
  entry_bytes chrom x ++ tail = u32 chrom ++ u32 (e_start x) ++ u32 (e_end x) ++ (e_rest x ++ 0 :: tail).
Proof. unfold entry_bytes. repeat rewrite <- app_assoc. reflexivity. Qed.

Lemma firstn4_u32 x r : firstn 4 (u32 x ++ r) = u32 x.
Proof. rewrite <- (u32_length x). apply firstn_exact. Qed.
Lemma skipn4_u32 x r : skipn 4 (u32 x ++ r) = r.
Proof. rewrite <- (u32_length x). apply skipn_exact. Qed.

(* one read_entry step on the bytes of one record followed by anything *)
Lemma parse_entries_step f chrom x tail : chrom < U32 -> entry_ok x ->
  parse_entries (S f) false chrom (entry_bytes chrom x ++ tail) =
  (do more <- parse_entries f false chrom tail; Ok (x :: more)).
Proof.
  intros Hc [Hs [He [Hn H00]]]. rewrite entry_bytes_shape. cbn [parse_entries].
  set (d := u32 chrom ++ u32 (e_start x) ++ u32 (e_end x) ++ e_rest x ++ 0 :: tail).
  assert (Hlen : (length d <? 12)%nat = false).
  { apply Nat.ltb_ge. unfold d. repeat rewrite app_length. repeat rewrite u32_length. lia. }
  rewrite Hlen.
  assert (H1 : firstn 4 d = u32 chrom) by (unfold d; apply firstn4_u32).
  assert (H2 : firstn 4 (skipn 4 d) = u32 (e_start x)) by (unfold d; rewrite skipn4_u32; apply firstn4_u32).
  assert (H3 : firstn 4 (skipn 8 d) = u32 (e_end x)).
  { unfold d. change 8%nat with (4 + 4)%nat. rewrite <- skipn_skipn. rewrite skipn4_u32, skipn4_u32. apply firstn4_u32. }
  assert (H4 : skipn 12 d = e_rest x ++ 0 :: tail).
  { unfold d. change 12%nat with (4 + (4 + 4))%nat. repeat rewrite <- skipn_skipn. now rewrite !skipn4_u32. }
  rewrite H1, H2, H3, H4. rewrite !dec_u32 by assumption.
  replace ((e_start x =? 0) && (e_end x =? 0)) with false.
  2:{ symmetry. apply andb_false_iff. destruct (e_start x =? 0) eqn:E1; [|left; reflexivity].
      right. apply N.eqb_neq. intros E2. apply N.eqb_eq in E1. tauto. }
  rewrite N.eqb_refl. cbn [negb]. rewrite split_nul_app by exact Hn.
  destruct x as [xs xe xr]. reflexivity.
Qed.

Lemma parse_entries_nil f : parse_entries (S f) false 0 [] = Ok [] /\ forall c, parse_entries (S f) false c [] = Ok [].
Proof. split; [reflexivity|intros c; reflexivity]. Qed.

Lemma entry_bytes_len chrom x : (12 < length (entry_bytes chrom x))%nat.
Proof. unfold entry_bytes. repeat rewrite app_length. repeat rewrite u32_length. cbn [length]. lia. Qed.

(* decode (encode items) = items, for every fuel above the byte count *)
Theorem section_roundtrip chrom : chrom < U32 -> forall items fuel, Forall entry_ok items ->
  (length (flat_map (entry_bytes chrom) items) < fuel)%nat ->
  parse_entries fuel false chrom (flat_map (entry_bytes chrom) items) = Ok items.
Proof.
  intros Hc. induction items as [|x r IH]; intros fuel Hok Hf.
  - destruct fuel; [cbn [flat_map length] in Hf; exfalso; lia|]. reflexivity.
  - cbn [flat_map] in *. destruct fuel as [|f]; [exfalso; lia|].
    inversion Hok as [|? ? Hx Hr]; subst.
    rewrite parse_entries_step by assumption.
    rewrite IH; [reflexivity|exact Hr|].
    rewrite app_length in Hf. pose proof (entry_bytes_len chrom x). lia.
Qed.

(* the reader's per-block routine on a section the writer encoded *)
Corollary block_entries_of_encoded i chrom items s e : h_big (i_hdr i) = false -> chrom < U32 ->
  Forall entry_ok items ->
  block_entries_of i (flat_map (entry_bytes chrom) items) chrom s e = Ok (filter (bkeep s e) items).
Proof.
  intros Hb Hc Hok. unfold block_entries_of. rewrite Hb.
  rewrite section_roundtrip; [reflexivity|exact Hc|exact Hok|lia].
Qed.

(* a [0,0) record anywhere in a block makes the whole block unreadable (K2) *)
Lemma zero_zero_rejected f chrom rest tail :
  parse_entries (S f) false chrom (entry_bytes chrom {| e_start := 0; e_end := 0; e_rest := rest |} ++ tail) = Err R_INVALID.
Proof.
  rewrite entry_bytes_shape. cbn [parse_entries e_start e_end e_rest].
  set (d := u32 chrom ++ u32 0 ++ u32 0 ++ rest ++ 0 :: tail).
  assert (Hlen : (length d <? 12)%nat = false).
  { apply Nat.ltb_ge. unfold d. repeat rewrite app_length. repeat rewrite u32_length. lia. }
  rewrite Hlen.
  assert (H2 : firstn 4 (skipn 4 d) = u32 0) by (unfold d; rewrite skipn4_u32; apply firstn4_u32).
  assert (H3 : firstn 4 (skipn 8 d) = u32 0).
  { unfold d. change 8%nat with (4 + 4)%nat. rewrite <- skipn_skipn. rewrite skipn4_u32, skipn4_u32. apply firstn4_u32. }
  rewrite H2, H3. reflexivity.
Qed.

(* ---- the autoSql slot: NUL-terminated text read back up to the NUL ---- *)
Lemma through_nul_app sql tail : no_nul sql -> through_nul (sql ++ 0 :: tail) = sql ++ [0].
Proof.
  induction 1 as [|b r Hb _ IH]; cbn [app through_nul].
  - rewrite N.eqb_refl. reflexivity.
  - destruct (b =? 0) eqn:E; [apply N.eqb_eq in E; contradiction|]. now rewrite IH.
Qed.
Lemma autosql_slot sql tail : no_nul sql -> removelast (through_nul (sql ++ 0 :: tail)) = sql.
Proof. intros H. rewrite through_nul_app by exact H. apply removelast_last. Qed.

Lemma existsb_nul_false sql : existsb (N.eqb 0) sql = false <-> no_nul sql.
Proof.
  unfold no_nul. induction sql as [|b r IH]; cbn [existsb]; [split; [constructor|reflexivity]|].
  rewrite orb_false_iff, IH. split.
  - intros [Hb Hr]. constructor; [apply N.eqb_neq in Hb; congruence|exact Hr].
  - intros H. inversion H; subst. split; [apply N.eqb_neq; congruence|assumption].
Qed.

(* write_pre stores exactly the supplied text (or the library's BED3 text), and refuses a NUL *)
Lemma bb_schema_verbatim autosql sql fc : bb_schema autosql = Ok (sql, fc) ->
  sql = match autosql with Some s => s | None => Generated.Consts.AUTOSQL_LIBRARY_DEFAULT end /\ no_nul sql.
Proof.
  unfold bb_schema, AutoSql.write_pre_schema. intros H.
  set (s0 := match autosql with Some s => s | None => Generated.Consts.AUTOSQL_LIBRARY_DEFAULT end) in *.
  destruct (match AutoSql.parse s0 with
            | Ok declarations => match rev declarations with
                                 | d :: _ => Ok (N.of_nat (length (AutoSql.d_fields d)))
                                 | [] => Ok Generated.Consts.AUTOSQL_FALLBACK_FIELD_COUNT end
            | Err _ => Ok Generated.Consts.AUTOSQL_FALLBACK_FIELD_COUNT
            | Panic => Panic | Fuel => Fuel end) as [n| | |]; cbn [rbind] in H; try discriminate.
  destruct (existsb (N.eqb 0) s0) eqn:E; [discriminate|]. inversion H; subst.
  split; [reflexivity|apply existsb_nul_false; exact E].
Qed.
Lemma bb_schema_nul_refused s : ~ no_nul s -> forall r, bb_schema (Some s) <> Ok r.
Proof.
  intros Hn r H. destruct r as [sql fc]. destruct (bb_schema_verbatim _ _ _ H) as [-> Hok]. contradiction.
Qed.
