(* C20: the wrappers intervals_to_array / entries_to_array from the fetch clamp on (values_wig,
   values_bed of Model/PyArrays.v): out-of-bounds fill, and the documented answer cell by cell. *)
From BT Require Import Base.Util Model.PyArrays Proofs.PyArraysGeom Proofs.PyArraysEngine Proofs.PyArraysCover
  Proofs.PyArraysWig Proofs.PyArraysBed.
Local Open Scope Z_scope.

(* ---- the documented answers *)
Definition bases_answer (sig : Z -> option Z) (len : Z) (missing oob : fl) (s e : Z) : list out :=
  map (base_cell sig len missing oob) (seqZ s (Z.to_nat (e - s))).
Definition bins_answer (sig : Z -> option Z) (len : Z) (st : stat) (missing oob : fl) (s e bins : Z) : list out :=
  map (fun k => bin_cell sig len st missing oob (s + bin_edge k (e - s) bins) (s + bin_edge (k + 1) (e - s) bins))
      (seqZ 0 (Z.to_nat bins)).

Lemma bin_edge_id : forall k span, 0 <= k -> 0 < span -> bin_edge k span span = k.
Proof. intros. rewrite bin_edge_div by lia. apply Z.div_mul. lia. Qed.

(* ---- out-of-bounds fill *)
Lemma upd_range_spec : forall {X} (f : X -> X) (d : X) a b l, 0 <= a -> b <= Z.of_nat (length l) ->
  exists l', upd_range f a b l = Ok l' /\ length l' = length l
    /\ forall j, (j < length l)%nat ->
         nth j l' d = if (a <=? Z.of_nat j) && (Z.of_nat j <? b) then f (nth j l d) else nth j l d.
Proof.
  intros X f d a b l Ha Hb. unfold upd_range. destruct (Z.leb_spec b a) as [Hle|Hlt].
  - exists l. repeat split. intros j Hj.
    destruct (Z.leb_spec a (Z.of_nat j)), (Z.ltb_spec (Z.of_nat j) b); cbn [andb]; try reflexivity; exfalso; lia.
  - destruct (Z.ltb_spec (Z.of_nat (length l)) b) as [Hc|_]; [exfalso; lia|].
    eexists. split; [reflexivity|]. split; [apply map_range_length|]. intros j Hj.
    rewrite map_range_nth by exact Hj.
    destruct (Nat.leb_spec (Z.to_nat a) j), (Z.leb_spec a (Z.of_nat j)); try (exfalso; lia); cbn [andb]; [|reflexivity].
    destruct (Nat.ltb_spec j (Z.to_nat a + Z.to_nat (b - a))), (Z.ltb_spec (Z.of_nat j) b);
      try reflexivity; exfalso; lia.
Qed.

Section Oob.
Variables (s e len nbins : Z) (oob : fl).
Hypothesis Hse : s < e.
Hypothesis Hnb : 0 < nbins <= e - s.
Let Eb := fun k => bin_edge k (e - s) nbins.

Lemma Eb_facts : forall k, 0 <= k < nbins -> 0 <= Eb k /\ Eb k < Eb (k + 1) /\ Eb (k + 1) <= e - s.
Proof.
  intros k Hk. unfold Eb. split; [apply bin_edge_nonneg; lia|]. split; [apply bin_edge_strict; lia|].
  apply bin_edge_le_span; lia.
Qed.

Lemma oob_fill_spec : forall arr, length arr = Z.to_nat nbins ->
  exists arr', oob_fill s e len nbins oob arr = Ok arr' /\ length arr' = length arr
    /\ forall k, 0 <= k < nbins ->
         nth (Z.to_nat k) arr' ONaN
         = if (s + Eb k <? 0) || (len <? s + Eb (k + 1)) then out_of_fl oob else nth (Z.to_nat k) arr ONaN.
Proof.
  intros arr Hl. unfold oob_fill, fill_range.
  (* first fill: bins up to the one holding base -1 (or the last base of the range) *)
  assert (H1 : exists a1, (if s <? 0
                 then upd_range (fun _ => out_of_fl oob) 0 (bin_index (Z.min 0 e - s - 1) (e - s) nbins + 1) arr
                 else Ok arr) = Ok a1 /\ length a1 = length arr
            /\ forall k, 0 <= k < nbins ->
                 nth (Z.to_nat k) a1 ONaN = if s + Eb k <? 0 then out_of_fl oob else nth (Z.to_nat k) arr ONaN).
  { destruct (Z.ltb_spec s 0) as [Hs|Hs].
    - destruct (bin_index_spec (Z.min 0 e - s - 1) (e - s) nbins ltac:(lia) ltac:(lia)) as [[Hq0 Hq1] _].
      destruct (upd_range_spec (fun _ : out => out_of_fl oob) ONaN 0 (bin_index (Z.min 0 e - s - 1) (e - s) nbins + 1) arr
                  ltac:(lia) ltac:(lia)) as [a1 [Hu [Hl1 Hn1]]].
      exists a1. split; [exact Hu|]. split; [exact Hl1|]. intros k Hk. rewrite Hn1 by lia. rewrite Z2Nat.id by lia.
      destruct (Eb_facts k Hk) as [He0 [He1 He2]].
      pose proof (bin_le_index_iff k (Z.min 0 e - s - 1) (e - s) nbins ltac:(lia) ltac:(lia) ltac:(lia)) as Hiff.
      fold (Eb k) in Hiff.
      destruct (Z.leb_spec 0 k), (Z.ltb_spec k (bin_index (Z.min 0 e - s - 1) (e - s) nbins + 1)), (Z.ltb_spec (s + Eb k) 0);
        cbn [andb]; try reflexivity; exfalso; lia.
    - exists arr. split; [reflexivity|]. split; [reflexivity|]. intros k Hk.
      destruct (Eb_facts k Hk) as [He0 _]. destruct (Z.ltb_spec (s + Eb k) 0); [exfalso; lia|reflexivity]. }
  destruct H1 as [a1 [Hf1 [Hl1 Hn1]]].
  change (Z.min 0 e - s - 1) with (Z.min 0 e - s - 1) in Hf1. rewrite Hf1. cbn [rbind].
  destruct (Z.ltb_spec len e) as [He|He].
  - destruct (bin_index_spec (Z.max (len - s) 0) (e - s) nbins ltac:(lia) ltac:(lia)) as [[Hq0 Hq1] _].
    destruct (upd_range_spec (fun _ : out => out_of_fl oob) ONaN (bin_index (Z.max (len - s) 0) (e - s) nbins)
                (Z.of_nat (length a1)) a1 ltac:(lia) ltac:(lia)) as [a2 [Hu [Hl2 Hn2]]].
    exists a2. split; [exact Hu|]. split; [lia|]. intros k Hk. rewrite Hn2 by lia. rewrite Z2Nat.id by lia.
    rewrite Hn1 by exact Hk.
    destruct (Eb_facts k Hk) as [He0 [He1 He2]].
    pose proof (bin_le_index_iff (k + 1) (Z.max (len - s) 0) (e - s) nbins ltac:(lia) ltac:(lia) ltac:(lia)) as Hiff.
    fold (Eb (k + 1)) in Hiff.
    destruct (Z.leb_spec (bin_index (Z.max (len - s) 0) (e - s) nbins) k), (Z.ltb_spec k (Z.of_nat (length a1))),
      (Z.ltb_spec len (s + Eb (k + 1))), (Z.ltb_spec (s + Eb k) 0); cbn [andb orb]; try reflexivity; exfalso; lia.
  - exists a1. split; [reflexivity|]. split; [exact Hl1|]. intros k Hk. rewrite Hn1 by exact Hk.
    destruct (Eb_facts k Hk) as [He0 [He1 He2]].
    destruct (Z.ltb_spec len (s + Eb (k + 1))); [exfalso; lia|]. rewrite orb_false_r. reflexivity.
Qed.

(* cells of bins inside the chromosome keep their value, every other bin holds the out-of-bounds value *)
Lemma oob_fill_answer : forall arr (inner : Z -> out), length arr = Z.to_nat nbins ->
  (forall k, 0 <= k < nbins -> 0 <= s + Eb k -> s + Eb (k + 1) <= len -> nth (Z.to_nat k) arr ONaN = inner k) ->
  oob_fill s e len nbins oob arr
  = Ok (map (fun k => if (s + Eb k <? 0) || (len <? s + Eb (k + 1)) then out_of_fl oob else inner k)
            (seqZ 0 (Z.to_nat nbins))).
Proof.
  intros arr inner Hl Hin. destruct (oob_fill_spec arr Hl) as [arr' [Hf [Hl' Hn]]]. rewrite Hf. f_equal.
  apply (list_ext ONaN).
  - rewrite map_length, seqZ_length. lia.
  - intros j Hj.
    set (cellf := fun k => if (s + Eb k <? 0) || (len <? s + Eb (k + 1)) then out_of_fl oob else inner k).
    rewrite (nth_indep (map cellf _) ONaN (cellf 0)) by (rewrite map_length, seqZ_length; lia).
    rewrite map_nth, seqZ_nth by lia. cbn [Z.add].
    pose proof (Hn (Z.of_nat j) ltac:(lia)) as Hk. rewrite Nat2Z.id in Hk. rewrite Hk. unfold cellf.
    destruct (Z.ltb_spec (s + Eb (Z.of_nat j)) 0), (Z.ltb_spec len (s + Eb (Z.of_nat j + 1))); cbn [orb]; try reflexivity.
    pose proof (Hin (Z.of_nat j) ltac:(lia) ltac:(lia) ltac:(lia)) as Hi. rewrite Nat2Z.id in Hi. exact Hi.
Qed.
End Oob.

(* per base = one bin per base *)
Lemma bases_as_bins : forall sig len missing oob s e, s < e ->
  map (fun k => if (s + bin_edge k (e - s) (e - s) <? 0) || (len <? s + bin_edge (k + 1) (e - s) (e - s))
                then out_of_fl oob
                else match sig (s + k) with Some z => OQ z 1 | None => out_of_fl missing end)
      (seqZ 0 (Z.to_nat (e - s)))
  = bases_answer sig len missing oob s e.
Proof.
  intros sig len missing oob s e Hse. unfold bases_answer.
  pose proof (seqZ_map_shift (Z.to_nat (e - s)) 0 s) as Hs. change (0 + s) with s in Hs. rewrite Hs.
  rewrite map_map. apply map_ext_in. intros k Hk.
  apply seqZ_In in Hk. rewrite !bin_edge_id by lia. unfold base_cell.
  replace (s + k) with (k + s) by lia.
  destruct (Z.ltb_spec (k + s) 0), (Z.ltb_spec len (s + (k + 1))), (Z.leb_spec len (k + s)); cbn [orb]; try reflexivity;
    exfalso; lia.
Qed.

Lemma nth_map_seqZ : forall (f : Z -> out) a n k, 0 <= k < Z.of_nat n -> nth (Z.to_nat k) (map f (seqZ a n)) ONaN = f (a + k).
Proof.
  intros f a n k Hk. rewrite (nth_indep (map f _) ONaN (f 0)) by (rewrite map_length, seqZ_length; lia).
  rewrite map_nth, seqZ_nth by lia. f_equal. lia.
Qed.

(* ---- bigWig *)
Theorem values_wig_per_base : forall len vals s e st missing oob, wig_ok 0 len vals -> s < e ->
  values_wig len vals s e None st missing oob = Ok (bases_answer (wig_at vals) len missing oob s e).
Proof.
  intros len vals s e st missing oob Hok Hse. unfold values_wig.
  destruct (Z.leb_spec e s); [exfalso; lia|]. rewrite to_usize_nonneg by lia. unfold clamp.
  destruct (wig_ok_bounds _ _ _ Hok) as [Hlen _].
  rewrite (to_array_spec vals 0 len s e (Z.max s 0) (Z.max (Z.min e len) 0) missing Hok Hse) by lia.
  cbn [rbind]. rewrite <- (bases_as_bins _ len missing oob s e Hse).
  apply (oob_fill_answer s e len (e - s) oob Hse ltac:(lia)).
  - rewrite map_length, seqZ_length. reflexivity.
  - intros k Hk. rewrite !bin_edge_id by lia. intros H0 H1. rewrite nth_map_seqZ by lia.
    destruct (Z.leb_spec (Z.max s 0) (s + k)), (Z.ltb_spec (s + k) (Z.max (Z.min e len) 0)); cbn [andb];
      try reflexivity; exfalso; lia.
Qed.

Theorem values_wig_bins : forall len vals s e bins st missing oob, wig_ok 0 len vals -> s < e -> 0 < bins <= e - s ->
  values_wig len vals s e (Some bins) st missing oob = Ok (bins_answer (wig_at vals) len st missing oob s e bins).
Proof.
  intros len vals s e bins st missing oob Hok Hse Hb. unfold values_wig.
  destruct (Z.leb_spec e s); [exfalso; lia|]. unfold clamp.
  destruct (wig_ok_bounds _ _ _ Hok) as [Hlen _].
  destruct (to_array_bins_spec s e (Z.max s 0) (Z.max (Z.min e len) 0) bins st missing Hse Hb vals 0 len Hok)
    as [cells [Hc [Hl Hn]]].
  rewrite Hc. cbn [rbind]. unfold bins_answer, bin_cell.
  apply (oob_fill_answer s e len bins oob Hse Hb cells
           (fun k => stat_of st missing (covered_vals (wig_at vals) (s + bin_edge k (e - s) bins) (s + bin_edge (k + 1) (e - s) bins)))
           Hl).
  intros k Hk H0 H1. destruct (Eb_facts s e bins Hse Hb k Hk) as [He0 [He1 He2]]. apply Hn; [exact Hk|lia|lia].
Qed.

(* ---- bigBed *)
Lemma fetch_bed_ends : forall touch ents fs fe s, s <= fs -> Forall (fun en => s <= b_end en) (fetch_bed touch ents fs fe).
Proof.
  intros touch ents fs fe s Hs. unfold fetch_bed. apply Forall_forall. intros en Hen. apply filter_In in Hen.
  destruct Hen as [_ Hk]. unfold keep in Hk. destruct touch; b2p; lia.
Qed.

Theorem values_bed_per_base : forall touch len ents s e st missing oob, bed_ok 0 len ents -> s < e ->
  values_bed touch len ents s e None st missing oob = Ok (bases_answer (bed_at ents) len missing oob s e).
Proof.
  intros touch len ents s e st missing oob Hok Hse. unfold values_bed.
  destruct (Z.leb_spec e s); [exfalso; lia|]. rewrite to_usize_nonneg by lia. unfold clamp.
  rewrite (to_entry_array_spec _ s e missing Hse) by (apply fetch_bed_ends; lia).
  cbn [rbind]. rewrite <- (bases_as_bins _ len missing oob s e Hse).
  apply (oob_fill_answer s e len (e - s) oob Hse ltac:(lia)).
  - rewrite map_length, seqZ_length. reflexivity.
  - intros k Hk. rewrite !bin_edge_id by lia. intros H0 H1. rewrite nth_map_seqZ by lia.
    unfold bed_at. rewrite depth_fetch by lia. reflexivity.
Qed.

Theorem values_bed_bins : forall touch len ents s e bins st missing oob, bed_ok 0 len ents -> s < e ->
  0 < bins <= e - s ->
  values_bed touch len ents s e (Some bins) st missing oob = Ok (bins_answer (bed_at ents) len st missing oob s e bins).
Proof.
  intros touch len ents s e bins st missing oob Hok Hse Hb. unfold values_bed.
  destruct (Z.leb_spec e s); [exfalso; lia|]. unfold clamp.
  destruct (to_entry_array_bins_spec s e (Z.max s 0) (Z.max (Z.min e len) 0) bins st missing Hse Hb touch ents 0 len Hok)
    as [cells [Hc [Hl Hn]]].
  rewrite Hc. cbn [rbind]. unfold bins_answer, bin_cell.
  apply (oob_fill_answer s e len bins oob Hse Hb cells
           (fun k => stat_of st missing (covered_vals (bed_at ents) (s + bin_edge k (e - s) bins) (s + bin_edge (k + 1) (e - s) bins)))
           Hl).
  intros k Hk H0 H1. destruct (Eb_facts s e bins Hse Hb k Hk) as [He0 [He1 He2]]. apply Hn; [exact Hk|lia|lia].
Qed.

(* ---- consequences *)
Definition finite_out (o : out) : Prop := exists n d, o = OQ n d /\ 0 < d.

Lemma stat_of_finite : forall st m l, finite_out (stat_of st (FV m) l).
Proof.
  intros st m l. unfold stat_of. destruct l as [|x r]; [exists m, 1; split; [reflexivity|lia]|].
  destruct st; eexists _, _; (split; [reflexivity|]); cbn [length]; lia.
Qed.

Lemma bin_cell_finite : forall sig len st m o lo hi, finite_out (bin_cell sig len st (FV m) (FV o) lo hi).
Proof.
  intros. unfold bin_cell. destruct ((lo <? 0) || (len <? hi)); [exists o, 1; split; [reflexivity|lia]|apply stat_of_finite].
Qed.

Lemma base_cell_finite : forall sig len m o p, finite_out (base_cell sig len (FV m) (FV o) p).
Proof.
  intros. unfold base_cell. destruct ((p <? 0) || (len <=? p)); [exists o, 1; split; [reflexivity|lia]|].
  destruct (sig p) as [z|]; [exists z, 1|exists m, 1]; (split; [reflexivity|lia]).
Qed.

Lemma bins_answer_finite : forall sig len st m o s e bins, Forall finite_out (bins_answer sig len st (FV m) (FV o) s e bins).
Proof. intros. unfold bins_answer. apply Forall_forall. intros x Hx. apply in_map_iff in Hx. destruct Hx as [k [Hx _]]. subst x. apply bin_cell_finite. Qed.

Lemma bases_answer_finite : forall sig len m o s e, Forall finite_out (bases_answer sig len (FV m) (FV o) s e).
Proof. intros. unfold bases_answer. apply Forall_forall. intros x Hx. apply in_map_iff in Hx. destruct Hx as [k [Hx _]]. subst x. apply base_cell_finite. Qed.

Lemma bases_answer_oob : forall sig len missing oob s e p, s <= p < e -> p < 0 \/ len <= p ->
  nth (Z.to_nat (p - s)) (bases_answer sig len missing oob s e) ONaN = out_of_fl oob.
Proof.
  intros sig len missing oob s e p Hp Hout. unfold bases_answer. rewrite nth_map_seqZ by lia.
  replace (s + (p - s)) with p by lia. unfold base_cell.
  destruct (Z.ltb_spec p 0), (Z.leb_spec len p); cbn [orb]; try reflexivity; exfalso; lia.
Qed.

Lemma bins_answer_oob : forall sig len st missing oob s e bins k, 0 <= k < bins ->
  s + bin_edge k (e - s) bins < 0 \/ len < s + bin_edge (k + 1) (e - s) bins ->
  nth (Z.to_nat k) (bins_answer sig len st missing oob s e bins) ONaN = out_of_fl oob.
Proof.
  intros sig len st missing oob s e bins k Hk Hout. unfold bins_answer. rewrite nth_map_seqZ by lia.
  cbn [Z.add]. unfold bin_cell.
  destruct (Z.ltb_spec (s + bin_edge k (e - s) bins) 0), (Z.ltb_spec len (s + bin_edge (k + 1) (e - s) bins));
    cbn [orb]; try reflexivity; exfalso; lia.
Qed.

(* ---- the statements of Properties/C20.v *)
Theorem per_base_thm : forall touch len vals ents s e st missing oob, wig_ok 0 len vals -> bed_ok 0 len ents -> s < e ->
  values_wig len vals s e None st missing oob = Ok (bases_answer (wig_at vals) len missing oob s e)
  /\ values_bed touch len ents s e None st missing oob = Ok (bases_answer (bed_at ents) len missing oob s e).
Proof. intros. split; [apply values_wig_per_base|apply values_bed_per_base]; assumption. Qed.

Theorem bins_thm : forall touch len vals ents s e bins st missing oob, wig_ok 0 len vals -> bed_ok 0 len ents -> s < e ->
  0 < bins <= e - s ->
  values_wig len vals s e (Some bins) st missing oob = Ok (bins_answer (wig_at vals) len st missing oob s e bins)
  /\ values_bed touch len ents s e (Some bins) st missing oob = Ok (bins_answer (bed_at ents) len st missing oob s e bins).
Proof. intros. split; [apply values_wig_bins|apply values_bed_bins]; assumption. Qed.

(* every cell is a number (never NaN, never an infinity) when missing and oob are numbers: data in the
   model is finite by construction *)
Theorem nan_free_thm : forall touch len vals ents s e obins st m o, wig_ok 0 len vals -> bed_ok 0 len ents -> s < e ->
  match obins with Some bins => 0 < bins <= e - s | None => True end ->
  exists cw cb, values_wig len vals s e obins st (FV m) (FV o) = Ok cw
             /\ values_bed touch len ents s e obins st (FV m) (FV o) = Ok cb
             /\ Forall finite_out cw /\ Forall finite_out cb.
Proof.
  intros touch len vals ents s e obins st m o Hw Hb Hse Hbins. destruct obins as [bins|].
  - destruct (bins_thm touch len vals ents s e bins st (FV m) (FV o) Hw Hb Hse Hbins) as [H1 H2].
    eexists _, _. split; [exact H1|]. split; [exact H2|]. split; apply bins_answer_finite.
  - destruct (per_base_thm touch len vals ents s e st (FV m) (FV o) Hw Hb Hse) as [H1 H2].
    eexists _, _. split; [exact H1|]. split; [exact H2|]. split; apply bases_answer_finite.
Qed.

Theorem oob_thm : forall touch len vals ents s e st missing oob, wig_ok 0 len vals -> bed_ok 0 len ents -> s < e ->
  (exists cw cb, values_wig len vals s e None st missing oob = Ok cw
              /\ values_bed touch len ents s e None st missing oob = Ok cb
              /\ forall p, s <= p < e -> p < 0 \/ len <= p ->
                   nth (Z.to_nat (p - s)) cw ONaN = out_of_fl oob /\ nth (Z.to_nat (p - s)) cb ONaN = out_of_fl oob)
  /\ forall bins, 0 < bins <= e - s ->
     exists cw cb, values_wig len vals s e (Some bins) st missing oob = Ok cw
                /\ values_bed touch len ents s e (Some bins) st missing oob = Ok cb
                /\ forall k, 0 <= k < bins ->
                     s + bin_edge k (e - s) bins < 0 \/ len < s + bin_edge (k + 1) (e - s) bins ->
                     nth (Z.to_nat k) cw ONaN = out_of_fl oob /\ nth (Z.to_nat k) cb ONaN = out_of_fl oob.
Proof.
  intros touch len vals ents s e st missing oob Hw Hb Hse. split.
  - destruct (per_base_thm touch len vals ents s e st missing oob Hw Hb Hse) as [H1 H2].
    eexists _, _. split; [exact H1|]. split; [exact H2|]. intros p Hp Hout. split; apply bases_answer_oob; assumption.
  - intros bins Hbins. destruct (bins_thm touch len vals ents s e bins st missing oob Hw Hb Hse Hbins) as [H1 H2].
    eexists _, _. split; [exact H1|]. split; [exact H2|]. intros k Hk Hout. split; apply bins_answer_oob; assumption.
Qed.
