(* C09 component codec: the chromosome B+ tree.  The bytes write_chrom_tree emits (Model/BBIFile.v
   chrom_tree_bytes: one leaf block, keys NUL-padded to the longest name) are decoded by the
   independent decoder's parse_chrom_tree to the chromosome table (name, id, size), provided the
   names are non-empty and free of NUL bytes, the ids are 0..n-1 in order, everything fits its field,
   and — for the strict decoder — consecutive names are in increasing byte order. *)
From BT Require Import Base.Util Base.LE Generated.Consts Model.RTree Model.BBIFile
  Proofs.RTreeCodec Proofs.FileRegions Spec.FormatDecode Proofs.C09Base Proofs.C09Codec.
Local Open Scope N_scope.

(* ---------- keys ---------- *)
Lemma repeatN_app {X} (x : X) a b : repeatN x (a + b) = repeatN x a ++ repeatN x b.
Proof. induction a as [|a IH]; cbn [repeatN app Nat.add]; [reflexivity|]. now rewrite IH. Qed.
Lemma rev_repeatN {X} (x : X) k : rev (repeatN x k) = repeatN x k.
Proof.
  induction k as [|k IH]; [reflexivity|]. cbn [repeatN rev]. rewrite IH.
  change [x] with (repeatN x 1). rewrite <- repeatN_app. now rewrite Nat.add_1_r.
Qed.
Lemma strip_zeros k l : match l with 0 :: _ => False | _ => True end -> strip_zeros_rev (repeatN 0 k ++ l) = l.
Proof.
  intros H. induction k as [|k IH]; cbn [repeatN app].
  - destruct l as [|x l]; [reflexivity|]. destruct x; [contradiction|reflexivity].
  - cbn [strip_zeros_rev]. exact IH.
Qed.

Definition name_ok (k : list N) : Prop := k <> [] /\ Forall (fun x => 0 < x) k.

Lemma pad_key_length w k : (length k <= w)%nat -> length (pad_key w k) = w.
Proof. intros H. unfold pad_key. rewrite app_length, repeatN_length. lia. Qed.

Lemma unpad_pad w k : name_ok k -> unpad (pad_key w k) = k.
Proof.
  intros [Hne Hnz]. unfold unpad, pad_key. rewrite rev_app_distr, rev_repeatN.
  rewrite strip_zeros; [apply rev_involutive|].
  destruct (rev k) as [|x r] eqn:E; [exact I|].
  assert (Hin : In x k) by (apply in_rev; rewrite E; now left).
  rewrite Forall_forall in Hnz. specialize (Hnz x Hin). destruct x; [lia|exact I].
Qed.

Lemma bytes_lt_pad : forall a b w, Forall (fun x => 0 < x) a -> Forall (fun x => 0 < x) b ->
  (length a <= w)%nat -> (length b <= w)%nat -> name_cmp a b = Lt ->
  bytes_lt (pad_key w a) (pad_key w b) = true.
Proof.
  induction a as [|x r IH]; intros b w Ha Hb La Lb Hc.
  - destruct b as [|y s]; [discriminate|]. unfold pad_key. cbn [app length Nat.sub].
    cbn [length] in Lb. destruct w as [|w]; [lia|]. cbn [Nat.sub repeatN app bytes_lt].
    inversion Hb as [|? ? Hy _]; subst. replace (0 <? y) with true; [reflexivity|]. symmetry. apply N.ltb_lt. lia.
  - destruct b as [|y s]; [discriminate|]. cbn [name_cmp] in Hc. cbn [length] in La, Lb.
    destruct w as [|w]; [lia|]. unfold pad_key. cbn [app length Nat.sub bytes_lt].
    inversion Ha as [|? ? _ Ha']; inversion Hb as [|? ? _ Hb']; subst.
    destruct (x ?= y) eqn:E.
    + apply N.compare_eq in E. subst y. rewrite N.ltb_irrefl, N.eqb_refl. cbn [orb andb].
      apply (IH s w Ha' Hb'); [lia|lia|exact Hc].
    + apply N.compare_lt_iff in E. replace (x <? y) with true; [reflexivity|]. symmetry. now apply N.ltb_lt.
    + discriminate.
Qed.

(* ---------- the leaf block ---------- *)
Definition ct_item (w : nat) (c : name * N) (len : N) : list N := pad_key w (fst c) ++ u32 (snd c) ++ u32 len.
Definition size_of (sizes : list (name * N)) (c : name * N) : N :=
  match lookup (fst c) sizes with Some l => l | None => 0 end.
Definition chrom_view (sizes : list (name * N)) (c : name * N) : fchrom :=
  {| fc_name := fst c; fc_id := snd c; fc_size := size_of sizes c |}.

Lemma ct_item_length w c len : (length (fst c) <= w)%nat -> length (ct_item w c len) = (w + 8)%nat.
Proof. intros H. unfold ct_item, u32. rewrite !app_length, !enc_le_length, pad_key_length by exact H. lia. Qed.

Lemma item_fields (k : list N) idv len rest w : length k = w -> idv < W32 -> len < W32 ->
  firstn w (k ++ u32 idv ++ u32 len ++ rest) = k
  /\ fld false (k ++ u32 idv ++ u32 len ++ rest) w 4 = idv
  /\ fld false (k ++ u32 idv ++ u32 len ++ rest) (w + 4) 4 = len
  /\ skipn (w + 8) (k ++ u32 idv ++ u32 len ++ rest) = rest.
Proof.
  intros <- Hi Hl. split; [apply firstn_exact|]. split; [|split].
  - rewrite (fld_skip' false k _ (length k) 0 4) by lia. unfold u32. now apply fld_enc.
  - rewrite (fld_skip' false k _ (length k + 4) 4 4) by lia. unfold u32.
    rewrite (fld_skip_enc' false 4 idv _ 4 0 4) by reflexivity. now apply fld_enc.
  - rewrite skipn_app. rewrite skipn_all2 by lia. cbn [app].
    replace (length k + 8 - length k)%nat with 8%nat by lia. unfold u32. cbn [enc_le app skipn]. reflexivity.
Qed.

Lemma parse_bpt_leaf_ok w sizes : forall (chroms : list (name * N)),
  Forall (fun c => (length (fst c) <= w)%nat /\ snd c < W32 /\ size_of sizes c < W32) chroms ->
  parse_bpt_leaf false (length chroms) w (flat_map (fun c => ct_item w c (size_of sizes c)) chroms)
  = map (fun c => (pad_key w (fst c), snd c, size_of sizes c)) chroms.
Proof.
  induction 1 as [|c l (Hl & Hi & Hs) _ IH]; [reflexivity|].
  cbn [length flat_map map parse_bpt_leaf].
  pose proof (item_fields (pad_key w (fst c)) (snd c) (size_of sizes c)
              (flat_map (fun c => ct_item w c (size_of sizes c)) l) w (pad_key_length w (fst c) Hl) Hi Hs)
    as (E1 & E2 & E3 & E4).
  assert (Eq : ct_item w c (size_of sizes c) ++ flat_map (fun c => ct_item w c (size_of sizes c)) l
               = pad_key w (fst c) ++ u32 (snd c) ++ u32 (size_of sizes c) ++ flat_map (fun c => ct_item w c (size_of sizes c)) l).
  { unfold ct_item at 1. now rewrite <- !app_assoc. }
  rewrite Eq, E1, E2, E3, E4, IH. reflexivity.
Qed.

Lemma fold_max_init : forall (l : list (name * N)) a, (a <= fold_left (fun a c => Nat.max a (length (fst c))) l a)%nat.
Proof. induction l as [|x l IH]; intros a; cbn [fold_left]; [lia|]. etransitivity; [apply (Nat.le_max_l a (length (fst x)))|apply IH]. Qed.
Lemma fold_max_ge : forall (l : list (name * N)) a c, In c l -> (length (fst c) <= fold_left (fun a c => Nat.max a (length (fst c))) l a)%nat.
Proof.
  induction l as [|x l IH]; intros a c H; [destruct H|]. cbn [fold_left]. destruct H as [<-|H].
  - etransitivity; [apply (Nat.le_max_r a (length (fst x)))|apply fold_max_init].
  - apply IH. exact H.
Qed.
Lemma fold_max_bound (P : nat -> Prop) : forall (l : list (name * N)) a, P a -> Forall (fun c => P (length (fst c))) l ->
  P (fold_left (fun a c => Nat.max a (length (fst c))) l a).
Proof.
  induction l as [|x l IH]; intros a Ha H; cbn [fold_left]; [exact Ha|]. inversion H; subst. apply IH; [|assumption].
  cbv beta. apply Nat.max_case; assumption.
Qed.

Lemma body_length w sizes (chroms : list (name * N)) : (forall c, In c chroms -> (length (fst c) <= w)%nat) ->
  length (flat_map (fun c => ct_item w c (size_of sizes c)) chroms) = (length chroms * (w + 8))%nat.
Proof.
  induction chroms as [|c l IH]; intros Hw; [reflexivity|]. cbn [flat_map length].
  rewrite app_length, ct_item_length by (apply Hw; now left). rewrite IH; [lia|]. intros x Hx. apply Hw. now right.
Qed.

Lemma chrom_magic : CHROM_TREE_MAGIC = FD_BPT_MAGIC.
Proof. reflexivity. Qed.

(* consecutive names in increasing byte order (Rust's String order) *)
Fixpoint names_increasing (l : list name) : Prop :=
  match l with
  | [] => True
  | a :: r => match r with [] => True | b :: _ => name_cmp a b = Lt /\ names_increasing r end
  end.

Lemma adjacent_keys w : forall (chroms : list (name * N)) (sz : name * N -> N),
  Forall (fun c => (length (fst c) <= w)%nat /\ Forall (fun x => 0 < x) (fst c)) chroms ->
  names_increasing (map fst chroms) ->
  adjacent (fun a b : list N * N * N => bytes_lt (fst (fst a)) (fst (fst b)))
           (map (fun c => (pad_key w (fst c), snd c, sz c)) chroms) = true.
Proof.
  induction chroms as [|a l IH]; intros sz Hok Hs; [reflexivity|].
  destruct l as [|b l]; [reflexivity|].
  cbn [map] in *. rewrite adjacent_cons. cbn [fst]. destruct Hs as [Hab Hs].
  inversion Hok as [|? ? (La & Na) Hok']; subst. inversion Hok' as [|? ? (Lb & Nb) _]; subst.
  rewrite (bytes_lt_pad (fst a) (fst b) w Na Nb La Lb Hab). cbn [andb]. apply (IH sz Hok' Hs).
Qed.

Lemma bpt_walk_leaf_ok img n f block ks off (cnt : N) body :
  has_at img off (u8 1 ++ u8 0 ++ u16 cnt) -> has_at img (off + 4) body -> n = Nlen img ->
  cnt < 65536 -> cnt <= block -> Nlen body = cnt * (ks + 8) ->
  bpt_walk img n false (S f) block ks off
  = Some (parse_bpt_leaf false (N.to_nat cnt) (N.to_nat ks) body, off + 4 + cnt * (ks + 8)).
Proof.
  intros Hnode Hb Hn Hc Hbl Hlen. cbn [bpt_walk].
  rewrite (bytes_at_has_w img n off (u8 1 ++ u8 0 ++ u16 cnt) 4 Hnode Hn) by reflexivity. cbn [obind].
  unfold u8, u16. cbn [enc_le app nth skipn dec]. rewrite dec_le2 by exact Hc.
  rewrite check_true by (apply N.leb_le; lia).
  rewrite (bytes_at_has_w img n _ body (cnt * (ks + 8)) Hb Hn (eq_sym Hlen)). cbn [obind].
  change (1 mod 256 =? 1) with true. cbv iota. reflexivity.
Qed.

Theorem parse_chrom_tree_ok img n off sizes (chroms : idmap) ct (strict : bool) :
  chrom_tree_bytes sizes chroms = Ok ct -> has_at img off ct -> n = Nlen img ->
  chroms <> [] -> Nlen chroms < W16 ->
  Forall (fun c => name_ok (fst c) /\ Nlen (fst c) < W32 /\ size_of sizes c < W32) chroms ->
  map snd chroms = seqN 0 (length chroms) ->
  (strict = true -> names_increasing (map fst chroms)) ->
  parse_chrom_tree img n false strict off = Some (map (chrom_view sizes) chroms, off + Nlen ct)
  /\ Nlen ct = 36 + Nlen chroms * (N.of_nat (fold_left (fun a c => Nat.max a (length (fst c))) chroms 0%nat) + 8).
Proof.
  intros Hct Hat Hn Hne Hcnt Hok Hids Hsorted.
  unfold chrom_tree_bytes in Hct.
  set (w := fold_left (fun a c => Nat.max a (length (fst c))) chroms 0%nat) in *.
  destruct (forallb _ _) eqn:Hall in Hct; [|discriminate]. apply Ok_inj in Hct.
  (* every lookup succeeds: the items are the ct_items *)
  assert (Hitems : flat_map (fun i : option (list N) => match i with Some b => b | None => [] end)
            (map (fun c : name * N => match lookup (fst c) sizes with
                                      | Some len => Some (pad_key w (fst c) ++ u32 (snd c) ++ u32 len)
                                      | None => None end) chroms)
          = flat_map (fun c => ct_item w c (size_of sizes c)) chroms).
  { clear Hct Hat Hsorted Hids Hcnt Hne Hok. revert Hall. generalize w. intros w0.
    induction chroms as [|c l IH]; intros Hall; [reflexivity|]. cbn [map forallb flat_map] in *.
    apply andb_true_iff in Hall as [Hc Hl]. rewrite (IH Hl). f_equal.
    unfold ct_item, size_of. destruct (lookup (fst c) sizes); [reflexivity|discriminate]. }
  rewrite Hitems in Hct. clear Hitems Hall.
  assert (Hw : forall c, In c chroms -> (length (fst c) <= w)%nat) by (intros c Hc; now apply fold_max_ge).
  assert (Hw32 : N.of_nat w < W32).
  { unfold w. apply (fold_max_bound (fun k => N.of_nat k < W32)); [unfold W32; cbn; lia|].
    eapply Forall_impl; [|exact Hok]. intros c (_ & H & _). exact H. }
  assert (Hw1 : (1 <= w)%nat).
  { assert (Hex : exists c, In c chroms) by (destruct chroms as [|c l]; [exfalso; now apply Hne|exists c; now left]).
    destruct Hex as [c Hin]. rewrite Forall_forall in Hok. destruct (Hok c Hin) as ((Hc & _) & _).
    specialize (Hw c Hin). destruct (fst c) as [|x r] eqn:E; [exfalso; apply Hc; exact E|]. cbn [length] in Hw. lia. }
  assert (Hdummy : True).
  { exact I. }
  assert (Hdummy2 : True).
  { assert (Hx : True) by exact I.
    exact I. }
  set (body := flat_map (fun c => ct_item w c (size_of sizes c)) chroms) in *.
  assert (Hbody : length body = (length chroms * (w + 8))%nat).
  { unfold body. now apply body_length. }
  set (cnt := Nlen chroms) in *.
  set (hdr := u32 CHROM_TREE_MAGIC ++ u32 (N.max 256 cnt) ++ u32 (N.of_nat w) ++ u32 8 ++ u64 cnt ++ u64 0).
  assert (Ect : ct = hdr ++ (u8 1 ++ u8 0 ++ u16 cnt) ++ body).
  { subst ct. unfold hdr. now rewrite <- !app_assoc. }
  assert (Hhl : Nlen hdr = 32) by (unfold hdr, Nlen, u32, u64; rewrite !app_length, !enc_le_length; reflexivity).
  assert (Hlen : Nlen ct = 36 + cnt * (N.of_nat w + 8)).
  { rewrite Ect, !Nlen_app, Hhl. unfold Nlen at 1 2 3 4. unfold u8, u16. rewrite !enc_le_length, Hbody. unfold cnt, Nlen. lia. }
  split; [|exact Hlen].
  rewrite Ect in Hat. apply has_at_app in Hat as [Hh Hrest]. apply has_at_app in Hrest as [Hnode Hb].
  rewrite Hhl in Hnode, Hb.
  replace (off + 32 + Nlen (u8 1 ++ u8 0 ++ u16 cnt)) with (off + 32 + 4) in Hb by reflexivity.
  pose proof (has_at_bound img _ _ Hb) as Hbound. rewrite <- Hn in Hbound.
  assert (Hcnt16 : cnt < 65536) by exact Hcnt.
  unfold parse_chrom_tree.
  rewrite (bytes_at_has_w img n off hdr 32 Hh Hn (eq_sym Hhl)). cbn [obind].
  (* header fields *)
  assert (F0 : fld false hdr 0 4 = FD_BPT_MAGIC).
  { unfold hdr, u32. rewrite fld_enc; [apply chrom_magic|]. rewrite chrom_magic. unfold FD_BPT_MAGIC. cbn. lia. }
  assert (F1 : fld false hdr 4 4 = N.max 256 cnt).
  { unfold hdr, u32. rewrite (fld_skip_enc' false 4 _ _ 4 0 4) by reflexivity. rewrite fld_enc; [reflexivity|]. cbn. lia. }
  assert (F2 : fld false hdr 8 4 = N.of_nat w).
  { unfold hdr, u32. rewrite (fld_skip_enc' false 4 _ _ 8 4 4), (fld_skip_enc' false 4 _ _ 4 0 4) by reflexivity.
    rewrite fld_enc; [reflexivity|exact Hw32]. }
  assert (F3 : fld false hdr 12 4 = 8).
  { unfold hdr, u32. rewrite (fld_skip_enc' false 4 _ _ 12 8 4), (fld_skip_enc' false 4 _ _ 8 4 4), (fld_skip_enc' false 4 _ _ 4 0 4) by reflexivity.
    rewrite fld_enc; [reflexivity|cbn; lia]. }
  assert (F4 : fld false hdr 16 8 = cnt).
  { unfold hdr, u32, u64. rewrite (fld_skip_enc' false 4 _ _ 16 12 8), (fld_skip_enc' false 4 _ _ 12 8 8), (fld_skip_enc' false 4 _ _ 8 4 8), (fld_skip_enc' false 4 _ _ 4 0 8) by reflexivity.
    rewrite fld_enc; [reflexivity|unfold cnt; cbn; unfold W16 in *; lia]. }
  rewrite F0, F1, F2, F3, F4.
  rewrite check_true by apply N.eqb_refl.
  assert (Hbn : Nlen body = cnt * (N.of_nat w + 8)) by (unfold Nlen; rewrite Hbody; unfold cnt, Nlen; lia).
  assert (Hc1 : 1 <= cnt).
  { unfold cnt, Nlen. destruct chroms; [congruence|]. cbn [length]. lia. }
  rewrite check_true.
  2:{ rewrite !andb_true_iff. repeat split; try apply N.leb_le; try apply N.eqb_eq; try lia.
      rewrite Hbn in Hbound. nia. }
  (* the single leaf node *)
  change 64%nat with (S 63).
  rewrite (bpt_walk_leaf_ok img n 63 (N.max 256 cnt) (N.of_nat w) (off + 32) cnt body Hnode Hb Hn Hcnt16 ltac:(lia) Hbn).
  cbn [obind]. assert (Ecnt : N.to_nat cnt = length chroms) by (unfold cnt, Nlen; apply Nat2N.id).
  rewrite Ecnt, Nat2N.id. unfold body. rewrite (parse_bpt_leaf_ok w sizes chroms).
  2:{ apply Forall_forall. intros c Hc. rewrite Forall_forall in Hok. destruct (Hok c Hc) as (_ & _ & Hs).
      split; [now apply Hw|]. split; [|exact Hs].
      assert (Hin : In (snd c) (map snd chroms)) by now apply in_map.
      rewrite Hids in Hin. apply seqN_In in Hin. unfold cnt, Nlen, W16, W32 in *. lia. }
  cbn [obind].
  rewrite check_true by (unfold Nlen; rewrite map_length; apply N.eqb_refl).
  rewrite check_true.
  2:{ destruct strict; [|reflexivity]. cbn [negb orb]. apply adjacent_keys; [|now apply Hsorted].
      apply Forall_forall. intros c Hc. rewrite Forall_forall in Hok. destruct (Hok c Hc) as ((_ & Hz) & _).
      split; [now apply Hw|exact Hz]. }
  rewrite map_map. cbn [fst snd].
  assert (Hview : map (fun x : name * N => {| fc_name := unpad (pad_key w (fst x)); fc_id := snd x; fc_size := size_of sizes x |}) chroms
                  = map (chrom_view sizes) chroms).
  { apply map_ext_in. intros c Hc. unfold chrom_view. rewrite unpad_pad; [reflexivity|].
    rewrite Forall_forall in Hok. now destruct (Hok c Hc) as (H & _). }
  rewrite Hview.
  rewrite check_true.
  2:{ apply forallb_forall. intros fc Hfc. apply in_map_iff in Hfc as [c [<- Hc]]. cbn [chrom_view fc_name].
      rewrite Forall_forall in Hok. destruct (Hok c Hc) as ((Hne' & Hz) & _).
      apply andb_true_iff. split; [destruct (fst c) eqn:E; [exfalso; apply Hne'; exact E|reflexivity]|].
      apply forallb_forall. intros x Hx. rewrite Forall_forall in Hz. specialize (Hz x Hx).
      apply negb_true_iff. apply N.eqb_neq. lia. }
  rewrite check_true.
  2:{ apply forallb_forall. intros i Hi. rewrite map_length in Hi. rewrite <- Hids in Hi.
      apply in_map_iff in Hi as [c [<- Hc]]. apply existsb_exists. exists (chrom_view sizes c).
      split; [now apply in_map|]. apply N.eqb_refl. }
  f_equal. f_equal. rewrite Hlen. unfold cnt.
  lia.
Qed.
