(* C14, bigBed: ZOOM queries on the destination at a crash point that includes the header operation.
   C08's file theorem (Proofs/C08FileQuery.v zoom_query_on_file) is about the finished file
   F = P ++ zoom bytes ++ magic; its last step (C08FileLevel.zoom_level_on_image) only needs an
   image of the shape  A ++ section bytes of the level ++ index of the level ++ B  with |A| the
   level's data offset, an info with the level in its directory, and the chromosome id.  A
   crash-point image X after the header operation agrees with F outside [so, so+48) (total summary,
   item count; so = 305 + |autoSql|) and the closing magic (Proofs/SinkBedRead.v agrees_at), reads
   the same info (SinkBedRead.agreeing_images_serve), and every level lies behind the index, beyond
   so+48: X holds each level's bytes at the same place.  So the argument of zoom_query_on_file is
   redone once and its last step applied to both images. *)
From Coq Require Import Sorting.Sorted.
From BT Require Import Base.Util Base.LE Base.Float Generated.Consts Model.RTree Model.BBIFile Model.BigWigWrite Model.BBIRead
  Model.BigBedWrite Model.SinkTrace Model.SinkTraceBed
  Proofs.RTreeCodec Proofs.BedQuery Proofs.BedImage Proofs.BedAssemble Proofs.BedReadInfo Proofs.BedEndToEnd Proofs.BedZoomFit
  Proofs.ZoomQuery Proofs.ZoomSorted Proofs.ZoomBwLevels
  Proofs.C08FileGeom Proofs.C08FileCodec Proofs.C08FileLayout Proofs.C08FileLevel Proofs.C08FileRead Proofs.C08FileQuery
  Proofs.SinkBytes Proofs.SinkExec Proofs.SinkPhases Proofs.SinkBedPhases Proofs.SinkBedRefine Proofs.SinkBedRead Proofs.SinkBedServe.
From BT Require Model.BedSweep Proofs.SweepRLE Proofs.BedTile Proofs.BigWigFile Proofs.ZoomFile Proofs.FileRegions.
Local Open Scope N_scope.

(* what the zoom reader answers on a crash-point image X of the file F *)
Definition bb_serves_zoom (fp : fpmode) (o : opts) (input : list bitem) (F X : list N) : Prop :=
  exists i, read_info F = Ok i /\ read_info X = Ok i /\
    forall r, In r (map zh_res (i_zooms i)) -> 1 <= r /\
      forall infl c es s e, In (c, es) (bruns input) ->
        exists q secs, chrom_id i c = Ok q
          /\ BedSweep.bb_zoom_records fp (o_ips o) r q (map to_sw es) = Ok secs
          /\ zoom_interval infl X i c s e r
             = Ok (map (zrec_read fp) (filter (fun z => (s <=? z_end z) && (z_start z <=? e)) (concat secs)))
          /\ zoom_interval infl F i c s e r
             = Ok (map (zrec_read fp) (filter (fun z => (s <=? z_end z) && (z_start z <=? e)) (concat secs))).

(* directory entries of a placed zoom part fit their fields *)
Lemma placed_zh_ok o P zbytes zooms zhdrs f :
  Forall (placed_in o (Nlen P) zbytes zooms) zhdrs -> Forall (fun h => zh_res h < U32) zhdrs ->
  f = P ++ zbytes ++ u32 BIGBED_MAGIC -> Nlen f <= U64 -> Forall Proofs.BigWigFile.zh_ok zhdrs.
Proof.
  intros Hplaced Hres32 Hf Hflen.
  assert (Hflen' : Nlen f = Nlen P + Nlen zbytes + 4).
  { rewrite Hf, !NlenA. unfold Nlen at 3. unfold u32. rewrite enc_len. lia. }
  apply Forall_forall. intros h Hh. rewrite Forall_forall in Hplaced, Hres32.
  destruct (Hplaced h Hh) as (z & _ & _ & Hidx & ix & lv & a & b & _ & Ez & Hd).
  assert (Nlen zbytes = Nlen a + Nlen (data_bytes (zl_secs z)) + Nlen ix + Nlen b) by (rewrite Ez, !NlenA; lia).
  unfold Proofs.BigWigFile.zh_ok. split; [apply Hres32; exact Hh|]. unfold U64 in *. lia.
Qed.

Theorem zoom_query_on_images two_pass fp o sizes autosql input sql fc F X :
  bb_write_either two_pass fp o sizes autosql input = Ok F ->
  file_hyps o sizes input F -> zoom_res_u32 two_pass o ->
  bb_schema autosql = Ok (sql, fc) -> agrees_at (305 + length sql) X F ->
  bb_serves_zoom fp o input F X.
Proof.
  intros Hw Hfh Hu Esch HX.
  pose proof (file_hyps_zoom o sizes input F Hfh) as (Hbs' & Hnchr & Hin & Hsizes & Hflen).
  destruct Hfh as (_ & _ & Hinok & _ & _).
  set (zp := if two_pass then bb_zoom_two_pass fp o else bb_zoom_single fp o).
  assert (Hw' : bb_write_gen (bb_sweep fp) zp o sizes autosql input = Ok F).
  { unfold zp. destruct two_pass; exact Hw. }
  assert (Hfit : forall outs sum a b zb zh, zp outs sum a b = Ok (zb, zh) -> (length zh <= 10)%nat).
  { unfold zp. destruct two_pass; intros outs sum a b zb zh; [apply two_pass_fits|apply single_fits]. }
  assert (Hnames : names_ok input).
  { eapply Forall_impl; [|exact Hin]. intros it (H1 & H2 & _). split; assumption. }
  (* (1) the info of the finished file, as C08 has it *)
  destruct (bb_file_zoom_read (bb_sweep fp) zp Hfit o sizes autosql input F Hw' Hbs' Hnchr Hnames Hsizes Hflen)
    as (ids & outs & ds' & P' & zbytes' & zhdrs' & Hcol & Hbs2 & Hips & Hzp0 & Hf0 & _ & Hread).
  assert (Hzp0' : (if two_pass then bb_zoom_two_pass fp o outs (bb_sweep fp outs) ds' (Nlen P')
                   else bb_zoom_single fp o outs (bb_sweep fp outs) ds' (Nlen P')) = Ok (zbytes', zhdrs')).
  { unfold zp in Hzp0. destruct two_pass; exact Hzp0. }
  destruct (zoom_part_spec two_pass fp o outs _ ds' (Nlen P') zbytes' zhdrs' Hu Hzp0')
    as (zooms0 & _ & _ & Hplaced0 & _ & _ & Hres0).
  destruct (Hread (placed_zh_ok o P' zbytes' zooms0 zhdrs' F Hplaced0 Hres0 Hf0 Hflen))
    as (i & Hri & _ & Hbig & Hubuf & Hcid).
  clear Hread Hplaced0 Hres0 Hzp0' Hzp0 Hf0 zooms0 zbytes' P' ds'.
  (* (2) the layout of the finished file with the position of the zoom part, and the crash-point image *)
  pose proof Hw' as Hasm. unfold bb_write_gen in Hasm.
  destruct ((o_bs o <? 2) || (o_ips o <? 1)) eqn:Eopt; [discriminate|].
  rewrite Esch in Hasm. cbn [rbind] in Hasm. rewrite Hcol in Hasm. cbn [rbind] in Hasm.
  rewrite bb_data_sections in Hasm. cbn [rbind] in Hasm.
  destruct (assemble_layout _ _ _ _ _ _ _ _ _ _ _ _ _ Hasm) as [ct [ix [lv [zbytes [zhdrs [Hct [Hix [Hz _]]]]]]]].
  pose proof (Hfit _ _ _ _ _ _ Hz) as Hzl.
  destruct (agreeing_images_serve o sizes autosql input sql fc ids outs ct ix lv zhdrs (conj Hbs2 Hbs') Esch Hcol Hnchr Hinok Hsizes
              Hct Hix Hzl (bb_sweep fp outs) (zp outs (bb_sweep fp outs)) (fun _ => bb_total_items outs) zbytes F Hasm Hz Hflen X HX)
    as (RF & RX & _).
  destruct (F_shape o sizes input sql fc ids outs ct ix lv zhdrs (conj Hbs2 Hbs') Hnchr Hct Hix Hzl
              (bb_sweep fp outs) (zp outs (bb_sweep fp outs)) (fun _ => bb_total_items outs) zbytes F Hasm Hz Hflen)
    as (pre' & Lpre' & Hf & _ & _).
  pose proof (HNprelen o input sql outs ct zhdrs (conj Hbs2 Hbs') Hnchr Hzl) as HNp.
  set (dbytes := data_bytes (map sd_of (gsecs (o_ips o) (groups_of outs)))) in *.
  set (P := pre' ++ dbytes ++ ct ++ ix).
  assert (HNP : Nlen P = Nlen (bb_pre sql) + Nlen dbytes + Nlen ct + Nlen ix).
  { unfold P. rewrite !NlenA. replace (Nlen pre') with (Nlen (bb_pre sql)) by (unfold Nlen; now rewrite Lpre'). lia. }
  assert (HfP : F = P ++ zbytes ++ u32 BIGBED_MAGIC) by (unfold P; rewrite Hf; now rewrite <- !app_assoc).
  assert (Hzp' : (if two_pass then bb_zoom_two_pass fp o outs (bb_sweep fp outs) (Nlen dbytes) (Nlen P)
                  else bb_zoom_single fp o outs (bb_sweep fp outs) (Nlen dbytes) (Nlen P)) = Ok (zbytes, zhdrs)).
  { rewrite HNP. unfold zp in Hz. destruct two_pass; exact Hz. }
  destruct (zoom_part_spec two_pass fp o outs _ (Nlen dbytes) (Nlen P) zbytes zhdrs Hu Hzp')
    as (zooms & Hrecs & Hpos & Hplaced & Hinc & Hcap & Hres32).
  pose proof (placed_zh_ok o P zbytes zooms zhdrs F Hplaced Hres32 HfP Hflen) as Hzok.
  assert (Hflen' : Nlen F = Nlen P + Nlen zbytes + 4).
  { rewrite HfP, !NlenA. unfold Nlen at 3. unfold u32. rewrite enc_len. lia. }
  (* the directory of the info is the list of entries the zoom part returned *)
  assert (Hiz : i_zooms i = zhdrs).
  { rewrite Hri in RF. apply Ok_inj in RF. rewrite RF. cbn [i_zooms].
    rewrite (Proofs.BigWigFile.read_zoom_headers_ok (flat_map zoom_header_bytes zhdrs) zhdrs 0 (Proofs.FileRegions.has_at_whole _) Hzok).
    reflexivity. }
  assert (RXi : read_info X = Ok i) by (rewrite RX, <- RF; exact Hri).
  assert (HlenX : Nlen X <= U64).
  { destruct HX as [[_ Hl] _]. unfold Nlen in *. unfold U64 in *. lia. }
  exists i. split; [exact Hri|]. split; [exact RXi|]. rewrite Hiz.
  (* (3) C08's argument *)
  intros r Hr. apply in_map_iff in Hr as [h [<- Hh]].
  rewrite Forall_forall in Hplaced. destruct (Hplaced h Hh) as (z & Hz0 & Hzres & Hidx & ix0 & lv0 & a & b & Hwi & Ez & Hd).
  rewrite Forall_forall in Hpos, Hrecs. pose proof (Hpos z Hz0) as Hsz. rewrite Hzres in Hsz. split; [exact Hsz|].
  intros infl c es s e Hce.
  destruct (collect_outs _ _ _ _ _ Hcol) as (Hruns & Hbcids & Hchk).
  assert (Hbc : exists bc, In bc outs /\ bc_name bc = c /\ bc_entries bc = es).
  { rewrite <- Hruns in Hce. apply in_map_iff in Hce as [bc [E Hbc]]. inversion E; subst. exists bc. auto. }
  destruct Hbc as (bc & Hbc & Hbn & Hbe).
  destruct (Hrecs z Hz0) as (per & Hper & Henc). rewrite Hzres in Hper.
  assert (Hids16 : forall c', In c' outs -> bc_id c' < U16).
  { intros c' Hc'. assert (In (bc_id c') (seqN 0 (length (bruns input)))) by (rewrite <- Hbcids; apply in_map; exact Hc').
    apply seqN_bound in H. unfold Nlen in Hnchr. lia. }
  assert (Hends : forall c', In c' outs -> Forall (fun x => e_end x <= BedSweep.U32_MAX) (bc_entries c')).
  { intros c' Hc'. apply Forall_forall. intros x Hx. rewrite <- (bruns_untag input) in Hin. rewrite Forall_forall in Hin.
    assert (Hi : In (bc_name c', x) (untag (bruns input))).
    { unfold untag. apply in_flat_map. exists (bc_name c', bc_entries c'). split.
      - rewrite <- Hruns. apply (in_map (fun c => (bc_name c, bc_entries c))). exact Hc'.
      - cbn [fst snd]. unfold tag. apply in_map. exact Hx. }
    destruct (Hin _ Hi) as (_ & _ & H3). cbn [snd] in H3. unfold BedSweep.U32_MAX, U32 in *. lia. }
  assert (Hfits : Forall2 (fun c' rs => BedTile.recs_sorted 0 (concat rs) /\ Forall (rec_fits (bc_id c')) (concat rs)) outs per).
  { clear - Hper Hchk Hends Hsizes Hsz. induction Hper as [|c' rs outs per Hr _ IH]; [constructor|].
    inversion Hchk as [|? ? [Hl Hc] Hchk']; subst. constructor.
    - eapply (zoom_records_fit fp BedSweep.U32_MAX); [exact Hsz| |exact Hr].
      apply (check_entries_valid (bc_len c')); [exact Hc| |apply Hends; now left].
      destruct (lookup_in _ _ _ Hl) as [k Hk]. rewrite Forall_forall in Hsizes. specialize (Hsizes _ Hk). cbn [snd] in Hsizes.
      unfold BedSweep.U32_MAX, U32 in *. lia.
    - apply IH; [exact Hchk'|]. intros c'' Hc''. apply Hends. now right. }
  assert (Hchroms : Forall2 (fun c' rs => Forall (fun z => z_chrom z = bc_id c') (concat rs)) outs per).
  { clear - Hfits. induction Hfits as [|c' rs outs per [_ Hf'] _ IH]; [constructor|]. constructor; [|exact IH].
    eapply Forall_impl; [|exact Hf']. intros z0 (A & _). exact A. }
  assert (Hsecok : Forall sec_ok (concat per)).
  { clear - Hfits. induction Hfits as [|c' rs outs per [Hs Hf'] _ IH]; [constructor|]. cbn [concat]. apply Forall_app. split; [|exact IH].
    eapply (sorted_concat_sec_ok (bc_id c')); [exact Hs|]. eapply Forall_impl; [|exact Hf']. intros z0 (A & _). exact A. }
  assert (Hsorted : StronglySorted rec_le (concat (concat per))).
  { rewrite concat_concat.
    assert (E : map (@concat zrec) per = map snd (map (fun p => (bc_id (fst p), concat (snd p))) (combine outs per))).
    { rewrite map_map. cbn [snd]. clear - Hfits. induction Hfits as [|c' rs outs per _ _ IH]; [reflexivity|]. cbn [combine map]. now rewrite IH. }
    rewrite E. rewrite <- flat_map_concat_map. apply chroms_sorted_rec_le.
    - rewrite map_map. cbn [fst].
      assert (E2 : map (fun p : bchrom * list (list zrec) => bc_id (fst p)) (combine outs per) = map bc_id outs).
      { clear - Hfits. induction Hfits as [|c' rs outs per _ _ IH]; [reflexivity|]. cbn [combine map fst]. now rewrite IH. }
      rewrite E2, Hbcids. apply seqN_lt_sorted.
    - clear - Hfits. induction Hfits as [|c' rs outs per [Hs Hf'] _ IH]; [constructor|]. cbn [combine map]. constructor; [|exact IH].
      cbn [fst snd]. split; [exact Hs|]. eapply Forall_impl; [|exact Hf']. intros z0 (A & _). exact A. }
  assert (Hu32 : Forall rec_u32 (concat (concat per))).
  { rewrite concat_concat. apply Forall_forall. intros z0 Hz0'. apply in_concat in Hz0' as [R [HR Hz0']].
    apply in_map_iff in HR as [rs [<- Hrs]].
    assert (Hex : exists c', In c' outs /\ BedTile.recs_sorted 0 (concat rs) /\ Forall (rec_fits (bc_id c')) (concat rs)).
    { clear - Hfits Hrs. induction Hfits as [|c' rs' outs per Hh' _ IH]; [destruct Hrs|]. destruct Hrs as [->|Hrs].
      - exists c'. split; [now left|exact Hh'].
      - destruct (IH Hrs) as [c'' [H1 H2]]. exists c''. split; [now right|exact H2]. }
    destruct Hex as (c' & Hc' & Hs' & Hf').
    rewrite Forall_forall in Hf'. destruct (Hf' z0 Hz0') as (A & B & C).
    destruct (recs_sorted_in _ _ _ Hs' Hz0') as (_ & D & _).
    pose proof (Hids16 c' Hc') as Hid. unfold rec_u32, BedSweep.U32_MAX, U16, U32 in *. rewrite A. repeat split; lia. }
  assert (Hpair : exists recs, In (bc, recs) (combine outs per)
                               /\ BedSweep.bb_zoom_records fp (o_ips o) (zh_res h) (bc_id bc) (sw_entries bc) = Ok recs).
  { clear - Hper Hbc. induction Hper as [|c' rs outs per Hr _ IH]; [destruct Hbc|]. destruct Hbc as [->|Hbc].
    - exists rs. split; [now left|exact Hr].
    - destruct (IH Hbc) as [recs [H1 H2]]. exists recs. split; [now right|exact H2]. }
  destruct Hpair as (recs & Hpair & Hrecs_bc).
  exists (bc_id bc), recs. split; [rewrite <- Hbn; apply Hcid; exact Hbc|]. split.
  { unfold sw_entries in Hrecs_bc. rewrite Hbe in Hrecs_bc. exact Hrecs_bc. }
  assert (Hnd : NoDup (map bc_id outs)).
  { rewrite Hbcids. apply SSorted_lt_NoDup. apply seqN_lt_sorted. }
  rewrite <- (level_filter_chrom (bc_id bc) s e outs per bc recs Hchroms Hnd Hpair eq_refl).
  assert (Hcid' : chrom_id i c = Ok (bc_id bc)) by (rewrite <- Hbn; apply Hcid; exact Hbc).
  assert (Hfind : find (fun z0 => zh_res z0 =? zh_res h) (i_zooms i) = Some h).
  { rewrite Hiz. eapply find_inc; [exact Hinc|exact Hh]. }
  (* (4) the level's bytes: in F by the layout, in X because X agrees with F there *)
  assert (HFdec : F = (P ++ a) ++ data_bytes (zl_secs z) ++ ix0 ++ (b ++ u32 BIGBED_MAGIC)).
  { rewrite HfP, Ez. now rewrite <- !app_assoc. }
  assert (HNPa : Nlen (P ++ a) = zh_data h) by (rewrite NlenA; lia).
  split.
  - assert (HatF : has_at F (zh_data h) (data_bytes (zl_secs z) ++ ix0)).
    { rewrite HFdec, <- HNPa. rewrite (app_assoc (data_bytes (zl_secs z))). apply has_at_mid. }
    assert (HatX : has_at X (zh_data h) (data_bytes (zl_secs z) ++ ix0)).
    { apply (agrees_at_transfer (305 + length sql) X F _ _ HX HatF).
      - right. assert (HlF : Nlen F = Nlen P + Nlen a + Nlen (data_bytes (zl_secs z) ++ ix0) + Nlen b + 4).
        { rewrite Hflen', Ez, (app_assoc (data_bytes (zl_secs z))), !NlenA. lia. }
        rewrite NlenA in HNPa. unfold Nlen in *. lia.
      - unfold Nlen in *. lia. }
    destruct HatX as (A' & B' & EX & LA').
    apply (zoom_level_on_image infl i Hbig Hubuf fp X (o_bs o) (o_ips o) (concat per) (zl_secs z) h ix0 lv0
             A' B' c (bc_id bc) s e (zh_res h) Hfind Hcid' (conj Hbs2 Hbs') Henc Hsecok Hsorted Hu32 Hidx Hwi).
    + rewrite EX. now rewrite <- app_assoc.
    + unfold Nlen. rewrite LA'. apply N2Nat.id.
    + exact HlenX.
  - apply (zoom_level_on_image infl i Hbig Hubuf fp F (o_bs o) (o_ips o) (concat per) (zl_secs z) h ix0 lv0
             (P ++ a) (b ++ u32 BIGBED_MAGIC) c (bc_id bc) s e (zh_res h) Hfind Hcid' (conj Hbs2 Hbs') Henc Hsecok Hsorted Hu32 Hidx Hwi).
    + exact HFdec.
    + exact HNPa.
    + exact Hflen.
Qed.

(* every crash point that includes the header operation answers every zoom query as the finished
   file does; [kind] 0 = BigBedWrite::write, otherwise write_multipass *)
Theorem bb_crash_after_serves_zoom ck fp kind o sizes autosql input sql p n c :
  chunker_ok ck -> bb_parts fp kind o sizes autosql input = Ok (sql, p) ->
  file_hyps o sizes input (final_bytes p) ->
  zoom_res_u32 (negb (kind =? 0)) o ->
  (bb_header_index ck kind sql p < n)%nat ->
  let T := snd (bb_sink_run None ck fp kind o sizes autosql input) in
  bb_serves_zoom fp o input (replay T) (replay (cut_ops T n c)).
Proof.
  intros Hck Hp Hh Hu Hn T.
  destruct (bb_parts_ok fp kind o sizes autosql input sql p Hp) as [K _].
  pose proof (bparts_lay sql p K) as KL.
  destruct (bb_parts_inv _ _ _ _ _ _ _ _ Hp) as [_ [fc [Esch _]]].
  assert (ET : T = snd (run None (Ok tt) (bb_calls_accept ck kind sql p))).
  { unfold T. rewrite (bb_sink_run_accepted None ck fp kind o sizes autosql input sql p Hp). reflexivity. }
  assert (EF : replay T = final_bytes p) by (rewrite ET; exact (bb_replay_final ck kind sql p Hck K)).
  rewrite EF. apply (zoom_query_on_images (negb (kind =? 0)) fp o sizes autosql input sql fc).
  - pose proof (bb_write_gen_refines fp kind o sizes autosql input) as Hg. rewrite Hp in Hg. cbn [rbind snd] in Hg.
    unfold bb_write_either, bb_write, bb_write_multipass. destruct (kind =? 0); exact Hg.
  - exact Hh.
  - exact Hu.
  - exact Esch.
  - replace (305 + length sql)%nat with (N.to_nat (p_so p)) by (rewrite (bk_so sql p K); unfold Nlen; lia).
    apply (complete_agrees_at p _ KL). rewrite ET. exact (bb_crash_after_complete ck kind sql p Hck K n c Hn).
Qed.
