(* The evaluation glue of Entry_C15 shares the chromosome table and the merged rows between the output names of a
   case; this is the same as running the tool model once per output name. *)
From BT Require Import Base.Util Model.Merge Model.MergeTool Model.Entry_C15.

Lemma tool_run_shared_eq W maxfds files thr adj clip ty name :
  tool_run_shared (chrom_table (all_names files) files [])
                  (shared_rows W maxfds (chrom_table (all_names files) files []) thr adj clip) ty name
  = tool_run W maxfds files thr adj clip ty name.
Proof.
  unfold tool_run_shared, shared_rows, tool_run.
  destruct (chrom_table (all_names files) files []) as [table|c| |]; reflexivity.
Qed.
