(* C06 for bigWig, file level: the summary bw_collect hands to the writer is the statistics of the input
   value stream itself (runs of equal chromosome names are non-empty and concatenate to the input). *)
From BT Require Import Base.Util Base.Float Model.RTree Model.BBIFile Model.BigWigWrite Proofs.BwSummary.
Local Open Scope N_scope.

Lemma runs_aux_concat : forall l cur acc, concat (map snd (runs_aux cur acc l)) = rev acc ++ map snd l.
Proof.
  induction l as [|[c v] r IH]; intros cur acc; cbn [runs_aux map concat snd].
  - now rewrite app_nil_r.
  - destruct (name_eqb c cur); cbn [map concat snd]; rewrite IH; cbn [rev app]; now rewrite <- ?app_assoc.
Qed.
Lemma runs_concat : forall l, concat (map snd (runs l)) = map snd l.
Proof. intros [|[c v] r]; [reflexivity|]. unfold runs. rewrite runs_aux_concat. reflexivity. Qed.

Lemma runs_aux_nonempty : forall l cur acc, acc <> [] -> Forall (fun r => snd r <> []) (runs_aux cur acc l).
Proof.
  induction l as [|[c v] r IH]; intros cur acc Hacc; cbn [runs_aux].
  - constructor; [|constructor]. cbn [snd]. intro C. apply (f_equal (@rev value)) in C. rewrite rev_involutive in C. now apply Hacc.
  - destruct (name_eqb c cur).
    + apply IH. discriminate.
    + constructor.
      * cbn [snd]. intro C. apply (f_equal (@rev value)) in C. rewrite rev_involutive in C. now apply Hacc.
      * apply IH. discriminate.
Qed.
Lemma runs_nonempty : forall l, Forall (fun r => snd r <> []) (runs l).
Proof. intros [|[c v] r]; [constructor|]. unfold runs. apply runs_aux_nonempty. discriminate. Qed.
Lemma runs_aux_not_nil : forall l cur acc, runs_aux cur acc l <> [].
Proof.
  induction l as [|[a b] l IH]; intros cur acc; cbn [runs_aux]; [discriminate|].
  destruct (name_eqb a cur); [apply IH | discriminate].
Qed.
Lemma runs_not_nil : forall l, l <> [] -> runs l <> [].
Proof. intros [|[c v] r] H; [congruence|]. unfold runs. apply runs_aux_not_nil. Qed.

Lemma process_runs_vals : forall o sizes rs prev ids ids' outs,
  process_runs o sizes prev ids rs = Ok (ids', outs) -> map co_vals outs = map snd rs.
Proof.
  intros o sizes. induction rs as [|[c vals] rest IH]; intros prev ids ids' outs H; cbn [process_runs] in H.
  - inversion H; subst. reflexivity.
  - destruct (negb _); [discriminate|].
    destruct (lookup c sizes) as [len|]; [|discriminate].
    destruct (lookup c ids); [discriminate|].
    destruct (get_id ids c) as [ids1 id].
    destruct (check_chrom len vals); cbn [rbind] in H; try discriminate.
    destruct (process_runs o sizes (Some c) ids1 rest) as [[ids2 outs2]| | |] eqn:Er; cbn [rbind] in H; try discriminate.
    inversion H; subst. cbn [map co_vals snd]. f_equal. eapply IH. eassumption.
Qed.

Theorem bw_collect_summary : forall E o sizes input ids outs sum data,
  (E <= 0)%Z -> Forall (fun it => vfin E (snd it)) input ->
  bw_collect exact o sizes input = Ok (ids, outs, sum, data) ->
  let all := map snd input in
  wform E sum (Nlen all) (w_bases all) (w_sum E all) (w_sumsq E all)
        (w_min E all (fval E f64_max)) (w_max E all (fval E f64_min)).
Proof.
  intros E o sizes input ids outs sum data HE Hfin H. cbn zeta.
  unfold bw_collect in H. destruct input as [|it input']; [discriminate|].
  set (input := it :: input') in *.
  destruct (process_runs o sizes None [] (runs input)) as [[ids1 outs1]| | |] eqn:Ep; cbn [rbind] in H; try discriminate.
  destruct (concat_res _) as [d| | |]; cbn [rbind] in H; try discriminate.
  inversion H; subst ids1 outs1 sum d. clear H.
  pose proof (process_runs_vals _ _ _ _ _ _ _ Ep) as Hv.
  rewrite <- (map_map co_vals (chrom_summary exact)), Hv.
  assert (Hne : map snd (runs input) <> []).
  { intro C. apply map_eq_nil in C. revert C. apply runs_not_nil. discriminate. }
  assert (Hok : Forall (chrom_ok E) (map snd (runs input))).
  { rewrite Forall_forall. intros vs Hin. split.
    - pose proof (runs_nonempty input) as Hn. rewrite Forall_forall in Hn.
      apply in_map_iff in Hin. destruct Hin as (r & Er & Hr). subst vs. now apply Hn.
    - rewrite Forall_forall. intros v Hvin.
      assert (Hall : In v (concat (map snd (runs input)))) by (apply in_concat; eexists; split; eassumption).
      rewrite runs_concat in Hall. apply in_map_iff in Hall. destruct Hall as (it0 & E0 & Hit). subst v.
      rewrite Forall_forall in Hfin. now apply Hfin. }
  destruct (map snd (runs input)) as [|c chroms] eqn:Em; [congruence|].
  pose proof (bw_total_spec E HE c chroms Hok) as T. cbn zeta in T.
  unfold bw_total in T. rewrite <- Em in T at 2 3 4 5 6 7. rewrite runs_concat in T. exact T.
Qed.
