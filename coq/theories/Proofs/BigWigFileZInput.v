(* C01 on compressed files, the statements on the input itself (first-appearance order, vals_of), for
   the bytes of the compressor-parametric writer model with any round-tripping compressor/decompressor. *)
From BT Require Import Base.Util Base.LE Base.Float Generated.Consts Model.RTree Model.BBIFile Model.BigWigWrite
  Model.BigWigWriteZ Model.BBIRead Proofs.BigWigQuery Proofs.RTreeCodec
  Proofs.BigWigFile Proofs.BigWigFileChroms Proofs.BigWigFileRoundTrip Proofs.BigWigFileThms Proofs.BigWigFileInput
  Proofs.BigWigFileZ.
Local Open Scope N_scope.

Section OnInputZ.
Variables (cmp infl : list N -> list N) (fp : fpmode) (o : opts) (sizes : list (name * N)) (inp : list item) (bs : list N).
Hypothesis Hrt : o_compress o = true -> forall b, infl (cmp b) = b.
Hypothesis Ho : opts_ok o.
Hypothesis Hi : input_ok sizes inp.
Hypothesis Hs : Nlen bs < U64.
Hypothesis Hw : written_z cmp fp o sizes inp bs.

Theorem z_on_input_chroms i : read_info bs = Ok i ->
  i_chroms i = map (ci_of sizes) (number 0 (first_app (map fst inp))).
Proof.
  intros Hri. rewrite <- (run_names inp (z_grouped cmp fp o sizes inp bs Ho Hi Hs Hw)).
  exact (z_chroms cmp fp o sizes inp bs Ho Hi Hs Hw i Hri).
Qed.

Theorem z_on_input_query i c s e : read_info bs = Ok i -> In c (map fst inp) ->
  bw_interval infl bs i c s e = Ok (clip_filter s e (vals_of inp c)).
Proof.
  intros Hri Hin.
  exact (z_query cmp fp o sizes inp bs Ho Hi Hs Hw infl Hrt i c _ s e Hri
           (chrom_has_run inp c (z_grouped cmp fp o sizes inp bs Ho Hi Hs Hw) Hin)).
Qed.

Theorem z_on_input_roundtrip i c len : read_info bs = Ok i -> In c (map fst inp) -> lookup c sizes = Some len ->
  bw_interval infl bs i c 0 len = Ok (filter (fun v => negb (boundary_zero len v)) (vals_of inp c)).
Proof.
  intros Hri Hin Hl.
  exact (z_full_span cmp fp o sizes inp bs Ho Hi Hs Hw infl Hrt i c _ len Hri
           (chrom_has_run inp c (z_grouped cmp fp o sizes inp bs Ho Hi Hs Hw) Hin) Hl).
Qed.

End OnInputZ.
