(* C10: the block decoders of the readers return what the encoded blocks say, in either byte order:
   bigWig sections of type 1 (bedGraph), 2 (variable step), 3 (fixed step: start + i*step, span),
   zoom record blocks, bigBed entry blocks. *)
From BT Require Import Base.Util Base.LE Base.Float Generated.Consts Model.RTree Model.BBIFile Model.BigWigWrite
  Model.BBIRead Proofs.RTreeCodec Proofs.C10Codec Spec.FormatEmit Spec.FormatWf Model.ReadBed_C10.
Local Open Scope N_scope.

(* rewrite one field access on an encoded record; side goals: the field table lookup (by computation)
   and the range of the value *)
Ltac fld_at_term t lem tac :=
  let x := fresh "fx" in
  set (x := t);
  let H := fresh "Hfx" in
  eassert (H : x = _); [subst x; lem; [reflexivity|tac] | rewrite H; clear H x].
Ltac fld_step tac :=
  match goal with
  | |- context [dec ?b (firstn ?w (skipn ?o (enc_flds ?b ?fs ++ ?r)))] =>
      fld_at_term (dec b (firstn w (skipn o (enc_flds b fs ++ r)))) ltac:(eapply dec_fld) tac
  | |- context [dec ?b (firstn ?w (enc_flds ?b ?fs ++ ?r))] =>
      fld_at_term (dec b (firstn w (enc_flds b fs ++ r))) ltac:(eapply dec_fld0) tac
  end.
Ltac flds tac := repeat (fld_step tac).

Lemma flat_map_snd {X Y Z} (g : Y -> list Z) (l : list (X * Y)) :
  flat_map (fun cv => g (snd cv)) l = flat_map g (map snd l).
Proof. induction l as [|a l IH]; [reflexivity|]. cbn [flat_map map]. now rewrite IH. Qed.

(* ---------- the body of get_block_values, as a function of the (inflated) block bytes ---------- *)
Definition section_values (big : bool) (d : list N) (chrom s e : N) : res (option (list value)) :=
  if (length d <? 24)%nat then Panic else
  let cid := dec big (firstn 4 d) in
  let cstart := dec big (firstn 4 (skipn 4 d)) in
  let step := dec big (firstn 4 (skipn 12 d)) in
  let span := dec big (firstn 4 (skipn 16 d)) in
  let ty := nth 20 d 0 in
  let count := N.to_nat (dec big (firstn 2 (skipn 22 d))) in
  let body := skipn 24 d in
  if negb (cid =? chrom) then Ok None else
  if ty =? 1 then
    if (length body <? count * 12)%nat then Panic else Ok (Some (clip_filter s e (parse_type1 big count body)))
  else if ty =? 2 then
    if (length body <? count * 8)%nat then Panic else Ok (Some (clip_filter s e (parse_type2 big span count body)))
  else if ty =? 3 then
    if (length body <? count * 4)%nat then Panic else Ok (Some (clip_filter s e (parse_type3 big step span cstart count body)))
  else Err R_INVALID.
Lemma block_values_eq infl i bs b chrom s e :
  block_values infl i bs b chrom s e
  = (do d <- block_data infl i bs b; section_values (h_big (i_hdr i)) d chrom s e).
Proof. reflexivity. Qed.

Definition bits_ok (v : value) : Prop := v_start v < W32 /\ v_end v < W32 /\ v_bits v < W32.

Lemma vitem1 L v : vitem_bytes L 1 v = enc_flds (l_big L) [(4%nat, v_start v); (4%nat, v_end v); (4%nat, v_bits v)].
Proof. reflexivity. Qed.
Lemma vitem2 L v : vitem_bytes L 2 v = enc_flds (l_big L) [(4%nat, v_start v); (4%nat, v_bits v)].
Proof. reflexivity. Qed.
Lemma vitem3 L v : vitem_bytes L 3 v = enc_flds (l_big L) [(4%nat, v_bits v)].
Proof. reflexivity. Qed.

Lemma vitems_length L ty vs k : (ty = 1 /\ k = 12%nat) \/ (ty = 2 /\ k = 8%nat) \/ (ty = 3 /\ k = 4%nat) ->
  length (flat_map (vitem_bytes L ty) vs) = (length vs * k)%nat.
Proof.
  intros H. apply flat_map_length_const. intros v.
  destruct H as [[-> ->]|[[-> ->]|[-> ->]]]; [rewrite vitem1|rewrite vitem2|rewrite vitem3]; now rewrite enc_flds_length.
Qed.

(* type 1: the items as listed *)
Lemma parse_type1_ok L vs rest : Forall bits_ok vs ->
  parse_type1 (l_big L) (length vs) (flat_map (vitem_bytes L 1) vs ++ rest) = vs.
Proof.
  induction 1 as [|v vs (H1 & H2 & H3) _ IH]; [reflexivity|].
  cbn [length flat_map parse_type1]. rewrite vitem1, <- app_assoc.
  unfold W32 in *. flds ltac:(apply fits4; lia).
  rewrite skipn_flds by reflexivity. rewrite IH. destruct v; reflexivity.
Qed.

(* type 2: listed start, start + the section's span *)
Lemma parse_type2_ok L span vs rest : Forall bits_ok vs ->
  parse_type2 (l_big L) span (length vs) (flat_map (vitem_bytes L 2) vs ++ rest)
  = map (fun v => {| v_start := v_start v; v_end := v_start v + span; v_bits := v_bits v |}) vs.
Proof.
  induction 1 as [|v vs (H1 & H2 & H3) _ IH]; [reflexivity|].
  cbn [length flat_map parse_type2 map]. rewrite vitem2, <- app_assoc.
  unfold W32 in *. flds ltac:(apply fits4; lia).
  rewrite skipn_flds by reflexivity. rewrite IH. reflexivity.
Qed.

(* type 3: item i is [cur + i*step, cur + i*step + span) *)
Fixpoint fixed_items (cur step span : N) (bits : list N) : list value :=
  match bits with
  | [] => []
  | b :: r => {| v_start := cur; v_end := cur + span; v_bits := b |} :: fixed_items (cur + step) step span r
  end.
Lemma parse_type3_ok L step span vs rest : Forall bits_ok vs -> forall cur,
  parse_type3 (l_big L) step span cur (length vs) (flat_map (vitem_bytes L 3) vs ++ rest)
  = fixed_items cur step span (map v_bits vs).
Proof.
  induction 1 as [|v vs (H1 & H2 & H3) _ IH]; intros cur; [reflexivity|].
  cbn [length flat_map parse_type3 map fixed_items]. rewrite vitem3, <- app_assoc.
  unfold W32 in *. flds ltac:(apply fits4; lia).
  rewrite skipn_flds by reflexivity. rewrite IH. reflexivity.
Qed.
Lemma fixed_items_nth cur step span bits i b : nth_error bits i = Some b ->
  nth_error (fixed_items cur step span bits) i
  = Some {| v_start := cur + N.of_nat i * step; v_end := cur + N.of_nat i * step + span; v_bits := b |}.
Proof.
  revert cur i. induction bits as [|b0 bits IH]; intros cur i H; [destruct i; discriminate|].
  destruct i as [|i]; cbn [nth_error fixed_items] in *.
  - injection H as ->. f_equal. f_equal; lia.
  - rewrite (IH _ _ H). f_equal. f_equal; lia.
Qed.
Lemma fixed_step_items cur step span vs : fixed_step cur step span vs = true ->
  fixed_items cur step span (map v_bits vs) = vs.
Proof.
  revert cur. induction vs as [|v vs IH]; intros cur H; [reflexivity|].
  cbn [fixed_step] in H. apply andb_true_iff in H as [H Hr]. apply andb_true_iff in H as [Hs He].
  apply N.eqb_eq in Hs, He. cbn [map fixed_items]. rewrite (IH _ Hr). destruct v; cbn in *; subst; reflexivity.
Qed.
Lemma common_span_items span (vs : list value) :
  forallb (fun v => v_end v =? v_start v + span) vs = true ->
  map (fun v => {| v_start := v_start v; v_end := v_start v + span; v_bits := v_bits v |}) vs = vs.
Proof.
  induction vs as [|v vs IH]; intros H; [reflexivity|]. cbn [forallb] in H. apply andb_true_iff in H as [He Hr].
  apply N.eqb_eq in He. cbn [map]. rewrite (IH Hr). destruct v; cbn in *; subst; reflexivity.
Qed.

Lemma parse_type1_ok' L vs n : n = length vs -> Forall bits_ok vs ->
  parse_type1 (l_big L) n (flat_map (vitem_bytes L 1) vs) = vs.
Proof. intros -> H. rewrite <- (app_nil_r (flat_map _ vs)). now apply parse_type1_ok. Qed.
Lemma parse_type2_ok' L span vs n : n = length vs -> Forall bits_ok vs ->
  parse_type2 (l_big L) span n (flat_map (vitem_bytes L 2) vs)
  = map (fun v => {| v_start := v_start v; v_end := v_start v + span; v_bits := v_bits v |}) vs.
Proof. intros -> H. rewrite <- (app_nil_r (flat_map _ vs)). now apply parse_type2_ok. Qed.
Lemma parse_type3_ok' L step span vs n cur : n = length vs -> Forall bits_ok vs ->
  parse_type3 (l_big L) step span cur n (flat_map (vitem_bytes L 3) vs) = fixed_items cur step span (map v_bits vs).
Proof. intros -> H. rewrite <- (app_nil_r (flat_map _ vs)). now apply parse_type3_ok. Qed.

Lemma common_span_items_snd {X} span (l : list (X * value)) :
  forallb (fun cv => v_end (snd cv) =? v_start (snd cv) + span) l = true ->
  map (fun v => {| v_start := v_start v; v_end := v_start v + span; v_bits := v_bits v |}) (map snd l) = map snd l.
Proof.
  intros H. apply common_span_items. induction l as [|a l IH]; [reflexivity|].
  cbn [forallb map] in *. apply andb_true_iff in H as [Ha Hr]. now rewrite Ha, IH.
Qed.

(* ---------- a whole section ---------- *)
Lemma val_ok_bits cv : val_ok cv = true -> fst cv < W32 /\ v_start (snd cv) <= v_end (snd cv) /\ bits_ok (snd cv).
Proof.
  unfold val_ok, bits_ok. intros H. repeat (apply andb_true_iff in H as [H ?]).
  apply N.ltb_lt in H. apply N.leb_le in H2. apply N.ltb_lt in H1, H0. repeat split; try assumption. lia.
Qed.

Lemma forallb_snd {X Y} (p : Y -> bool) (l : list (X * Y)) :
  forallb (fun cv => p (snd cv)) l = forallb p (map snd l).
Proof. induction l as [|a l IH]; [reflexivity|]. cbn [forallb map]. now rewrite IH. Qed.

Lemma cover_eb_lt (l : list span) : Forall (fun s => eb s < W32) l -> eb (cover l) < W32.
Proof.
  destruct l as [|f r]; intros H; [cbn; unfold W32; lia|].
  inversion H as [|? ? Hf Hr]; subst. cbn [cover eb].
  assert (G : forall (l : list (N * N)) p, snd p < W32 -> Forall (fun x => snd x < W32) l -> snd (fold_left pmax l p) < W32).
  { induction l as [|x l IH]; intros p Hp Hl; [exact Hp|]. inversion Hl; subst. cbn [fold_left]. apply IH; [|assumption].
    unfold pmax. destruct (le_pos _ _ _ _); assumption. }
  apply G; [exact Hf|]. rewrite Forall_map. exact Hr.
Qed.

Lemma sec_payload_cons L ty c v0 rest :
  sec_payload L ty ((c, v0) :: rest)
  = enc_flds (l_big L) [(4%nat, c); (4%nat, v_start v0); (4%nat, eb (cover (map vspan ((c, v0) :: rest))));
                        (4%nat, if ty =? 3 then sec_step ((c, v0) :: rest) else 0);
                        (4%nat, if ty =? 1 then 0 else v_end v0 - v_start v0);
                        (1%nat, ty); (1%nat, 0); (2%nat, Nlen ((c, v0) :: rest))]
    ++ flat_map (vitem_bytes L ty) (map snd ((c, v0) :: rest)).
Proof. unfold sec_payload. now rewrite flat_map_snd. Qed.

Theorem section_decode L ty c v0 rest chrom s e :
  sec_ok ty ((c, v0) :: rest) = true ->
  section_values (l_big L) (sec_payload L ty ((c, v0) :: rest)) chrom s e
  = Ok (if c =? chrom then Some (clip_filter s e (map snd ((c, v0) :: rest))) else None).
Proof.
  rewrite sec_payload_cons. intros Hok. unfold sec_ok in Hok. set (items := (c, v0) :: rest) in *.
  apply andb_true_iff in Hok as [Hok Hty]. apply andb_true_iff in Hok as [Hok Hvals].
  apply andb_true_iff in Hok as [Hn Hchrom]. apply N.ltb_lt in Hn.
  assert (Hall : Forall (fun cv => fst cv < W32 /\ v_start (snd cv) <= v_end (snd cv) /\ bits_ok (snd cv)) items).
  { rewrite forallb_forall in Hvals. apply Forall_forall. intros cv Hin. apply val_ok_bits, Hvals, Hin. }
  assert (Hbits : Forall bits_ok (map snd items)).
  { rewrite Forall_map. eapply Forall_impl; [|exact Hall]. intros cv (_ & _ & H). exact H. }
  assert (H0 : c < W32 /\ v_start v0 <= v_end v0 /\ bits_ok v0).
  { inversion Hall as [|? ? Hh _]; subst. exact Hh. }
  destruct H0 as (Hc & Hse & (Hs0 & He0 & Hb0)).
  assert (Heb : eb (cover (map vspan items)) < W32).
  { apply cover_eb_lt. rewrite Forall_map. eapply Forall_impl; [|exact Hall]. intros cv (_ & _ & (_ & H & _)). exact H. }
  assert (Hstep : sec_step items < W32).
  { unfold items, sec_step. destruct rest as [|[c1 v1] r]; [unfold W32; lia|].
    inversion Hall as [|? ? _ Hr]; subst. inversion Hr as [|? ? (_ & _ & (H1 & _ & _)) _]; subst. cbn [snd] in H1. lia. }
  unfold W16, W32 in *.
  assert (Hty' : ty = 1 \/ ty = 2 \/ ty = 3).
  { apply orb_true_iff in Hty as [Hty|Hty]; [apply orb_true_iff in Hty as [Hty|Hty]|].
    - left. now apply N.eqb_eq.
    - right; left. apply andb_true_iff in Hty as [Hty _]. now apply N.eqb_eq.
    - right; right. apply andb_true_iff in Hty as [Hty _]. now apply N.eqb_eq. }
  set (hdr := [(4%nat, c); (4%nat, v_start v0); (4%nat, eb (cover (map vspan items)));
               (4%nat, if ty =? 3 then sec_step items else 0); (4%nat, if ty =? 1 then 0 else v_end v0 - v_start v0);
               (1%nat, ty); (1%nat, 0); (2%nat, Nlen items)]).
  assert (Hlen : forall k, (ty = 1 /\ k = 12%nat) \/ (ty = 2 /\ k = 8%nat) \/ (ty = 3 /\ k = 4%nat) ->
            length (flat_map (vitem_bytes L ty) (map snd items)) = (length items * k)%nat).
  { intros k Hk. rewrite (vitems_length L ty _ k Hk). now rewrite map_length. }
  unfold section_values.
  assert (Hd : (length (enc_flds (l_big L) hdr ++ flat_map (vitem_bytes L ty) (map snd items)) <? 24)%nat = false).
  { apply Nat.ltb_ge. rewrite app_length, enc_flds_length. cbn. lia. }
  rewrite Hd.
  rewrite (nth_fld (l_big L) hdr 20 ty) by (reflexivity || (destruct Hty' as [->|[->| ->]]; lia)).
  rewrite (skipn_flds (l_big L) hdr _ 24 eq_refl).
  assert (Hsp : (if ty =? 1 then 0 else v_end v0 - v_start v0) < 4294967296) by (destruct (ty =? 1); lia).
  assert (Hst : (if ty =? 3 then sec_step items else 0) < 4294967296) by (destruct (ty =? 3); lia).
  flds ltac:(first [apply fits4; lia | apply fits2; lia]).
  unfold Nlen. rewrite Nat2N.id.
  destruct (c =? chrom); cbn [negb]; [|reflexivity].
  assert (Hml : length items = length (map snd items)) by now rewrite map_length.
  destruct Hty' as [->|[->| ->]].
  - change (1 =? 1) with true. cbv iota.
    rewrite (Hlen 12%nat) by auto. rewrite Nat.ltb_irrefl.
    rewrite (parse_type1_ok' L (map snd items) _ Hml Hbits). reflexivity.
  - change (2 =? 1) with false. change (2 =? 2) with true. change (2 =? 3) with false. cbv iota.
    rewrite (Hlen 8%nat) by auto. rewrite Nat.ltb_irrefl.
    rewrite (parse_type2_ok' L _ (map snd items) _ Hml Hbits).
    apply orb_true_iff in Hty as [Hty|Hty]; [apply orb_true_iff in Hty as [Hty|Hty]|].
    + discriminate.
    + apply andb_true_iff in Hty as [_ Hty]. rewrite (common_span_items_snd _ _ Hty). reflexivity.
    + apply andb_true_iff in Hty as [Hty _]. discriminate.
  - change (3 =? 1) with false. change (3 =? 2) with false. change (3 =? 3) with true. cbv iota.
    rewrite (Hlen 4%nat) by auto. rewrite Nat.ltb_irrefl.
    rewrite (parse_type3_ok' L _ _ (map snd items) _ _ Hml Hbits).
    apply orb_true_iff in Hty as [Hty|Hty]; [apply orb_true_iff in Hty as [Hty|Hty]|].
    + discriminate.
    + apply andb_true_iff in Hty as [Hty _]. discriminate.
    + apply andb_true_iff in Hty as [_ Hty]. rewrite fixed_step_items by exact Hty. reflexivity.
Qed.

(* ---------- zoom record blocks ---------- *)
Definition zoom_values (big : bool) (d : list N) (chrom s e : N) : res (option (list zrec)) :=
  if negb (Nat.eqb (length d mod 32) 0) then Panic else
  Ok (Some (filter (fun z => (z_chrom z =? chrom) && (s <=? z_end z) && (z_start z <=? e))
                   (parse_zrecs big (length d / 32) d))).
Lemma zoom_block_values_eq infl i bs b chrom s e :
  zoom_block_values infl i bs b chrom s e
  = (do d <- block_data infl i bs b; zoom_values (h_big (i_hdr i)) d chrom s e).
Proof. reflexivity. Qed.

Lemma zraw_ok_fits z : zraw_ok z = true ->
  zr_chrom z < 4294967296 /\ zr_start z < 4294967296 /\ zr_end z < 4294967296 /\ zr_valid z < 4294967296 /\
  zr_min z < 4294967296 /\ zr_max z < 4294967296 /\ zr_sum z < 4294967296 /\ zr_sumsq z < 4294967296.
Proof.
  unfold zraw_ok, W32. intros H. repeat (apply andb_true_iff in H as [H ?]).
  repeat match goal with H : (_ <? _) = true |- _ => apply N.ltb_lt in H end. repeat split; assumption.
Qed.

Lemma zraw_bytes_length L z : length (zraw_bytes L z) = 32%nat.
Proof. unfold zraw_bytes. now rewrite enc_flds_length. Qed.

Lemma zraw_cons L z recs rest :
  flat_map (zraw_bytes L) (z :: recs) ++ rest
  = enc_flds (l_big L) [(4%nat, zr_chrom z); (4%nat, zr_start z); (4%nat, zr_end z); (4%nat, zr_valid z);
                        (4%nat, zr_min z); (4%nat, zr_max z); (4%nat, zr_sum z); (4%nat, zr_sumsq z)]
    ++ (flat_map (zraw_bytes L) recs ++ rest).
Proof. cbn [flat_map]. unfold zraw_bytes at 1. now rewrite <- app_assoc. Qed.

Lemma parse_zrecs_ok L recs rest : Forall (fun z => zraw_ok z = true) recs ->
  parse_zrecs (l_big L) (length recs) (flat_map (zraw_bytes L) recs ++ rest) = map zrec_of recs.
Proof.
  induction 1 as [|z recs Hz _ IH]; [reflexivity|].
  apply zraw_ok_fits in Hz as (H1 & H2 & H3 & H4 & H5 & H6 & H7 & H8).
  cbn [length map]. rewrite zraw_cons. cbn [parse_zrecs].
  flds ltac:(apply fits4; lia).
  rewrite skipn_flds by reflexivity. rewrite IH. reflexivity.
Qed.

Lemma filter_map {X Y} (p : Y -> bool) (f : X -> Y) l : filter p (map f l) = map f (filter (fun x => p (f x)) l).
Proof. induction l as [|a l IH]; [reflexivity|]. cbn [map filter]. destruct (p (f a)); cbn [map]; now rewrite IH. Qed.

Theorem zoom_decode L recs chrom s e : Forall (fun z => zraw_ok z = true) recs ->
  zoom_values (l_big L) (flat_map (zraw_bytes L) recs) chrom s e
  = Ok (Some (map zrec_of (filter (fun z => (zr_chrom z =? chrom) && (s <=? zr_end z) && (zr_start z <=? e)) recs))).
Proof.
  intros H. unfold zoom_values.
  rewrite (flat_map_length_const (zraw_bytes L) 32 recs (zraw_bytes_length L)).
  rewrite Nat.mod_mul by lia. rewrite Nat.div_mul by lia. cbn [Nat.eqb negb].
  rewrite <- (app_nil_r (flat_map _ recs)). rewrite parse_zrecs_ok by exact H.
  rewrite filter_map. reflexivity.
Qed.

(* ---------- bigBed entry blocks ---------- *)
Lemma find_nul_text (t more : list N) : forallb (fun x => (0 <? x) && (x <? 128)) t = true ->
  find_nul (t ++ 0 :: more) = Some (length t).
Proof.
  induction t as [|x t IH]; intros H; [reflexivity|]. cbn [forallb] in H.
  apply andb_true_iff in H as [Hx Ht]. apply andb_true_iff in Hx as [Hx _]. apply N.ltb_lt in Hx.
  cbn [app find_nul length]. destruct x as [|p]; [lia|]. now rewrite IH.
Qed.
Lemma text_ascii (t : list N) : forallb (fun x => (0 <? x) && (x <? 128)) t = true ->
  existsb (fun b => 128 <=? b) t = false.
Proof.
  induction t as [|x t IH]; intros H; [reflexivity|]. cbn [forallb existsb] in *.
  apply andb_true_iff in H as [Hx Ht]. apply andb_true_iff in Hx as [_ Hx]. apply N.ltb_lt in Hx.
  rewrite IH by exact Ht. destruct (128 <=? x) eqn:E; [apply N.leb_le in E; lia|reflexivity].
Qed.

Lemma bed_bytes_eq L cb : bed_bytes L cb
  = enc_flds (l_big L) [(4%nat, fst cb); (4%nat, b_start (snd cb)); (4%nat, b_end (snd cb))] ++ b_rest (snd cb) ++ [0].
Proof. reflexivity. Qed.

Theorem bed_decode L c items : forallb (fun cb => fst cb =? c) items = true -> forallb bed_ok items = true ->
  forall fuel more, (length items < fuel)%nat -> (length more < 12)%nat ->
  bed_entries fuel (l_big L) c (flat_map (bed_bytes L) items ++ more) = Ok (map snd items).
Proof.
  induction items as [|cb items IH]; intros Hc Hok fuel more Hf Hm.
  - destruct fuel as [|fuel]; [exfalso; cbn in Hf; lia|]. cbn [flat_map app bed_entries map].
    apply Nat.ltb_lt in Hm. now rewrite Hm.
  - cbn [forallb] in Hc, Hok. apply andb_true_iff in Hc as [Hc1 Hc]. apply andb_true_iff in Hok as [Hb Hok].
    apply N.eqb_eq in Hc1. destruct fuel as [|fuel]; [exfalso; cbn in Hf; lia|]. cbn [length] in Hf.
    unfold bed_ok in Hb. repeat (apply andb_true_iff in Hb as [Hb ?]).
    unfold W32 in *. apply N.ltb_lt in Hb. repeat match goal with H : (_ <? _) = true |- _ => apply N.ltb_lt in H end.
    cbn [flat_map map bed_entries]. rewrite bed_bytes_eq, <- !app_assoc.
    match goal with |- context [(length ?d <? 12)%nat] =>
      assert (Hl : (length d <? 12)%nat = false) by (apply Nat.ltb_ge; rewrite app_length, enc_flds_length; cbn; lia) end.
    rewrite Hl.
    flds ltac:(apply fits4; lia).
    rewrite skipn_flds by reflexivity.
    match goal with H : negb _ = true |- _ => apply negb_true_iff in H; rewrite H end.
    rewrite Hc1, N.eqb_refl. cbn [negb]. cbn [app].
    match goal with H : forallb _ (b_rest _) = true |- _ => rewrite (find_nul_text _ _ H); rewrite firstn_app_exact by reflexivity;
       rewrite (text_ascii _ H) end.
    replace (S (length (b_rest (snd cb)))) with (length (b_rest (snd cb) ++ [0])) by (rewrite app_length; cbn; lia).
    replace (b_rest (snd cb) ++ 0 :: flat_map (bed_bytes L) items ++ more)
      with ((b_rest (snd cb) ++ [0]) ++ flat_map (bed_bytes L) items ++ more) by now rewrite <- app_assoc.
    rewrite skipn_exact. rewrite IH by (assumption || lia). cbn [rbind]. destruct cb as [c0 [bs be br]]; reflexivity.
Qed.
