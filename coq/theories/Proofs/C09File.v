(* C09 whole file, part 2: the file [assemble] lays out, for what bw_collect returned, is accepted by
   the independent decoder, which returns the chromosome table, exactly the input records, the total
   summary that was folded, and the zoom levels.  The zoom part enters through four hypotheses
   (directory entries in range, at most 10 strictly increasing levels, every level decodes, the
   levels' regions follow the main index in order), discharged for the two writers in part 3. *)
From BT Require Import Base.Util Base.LE Base.Float Generated.Consts Model.RTree Model.BBIFile Model.BigWigWrite Model.BigWigWriteZ
  Proofs.Chunks Proofs.BigWigQuery Proofs.RTreeAbs Proofs.RTreeBuild Proofs.RTreeCodec Proofs.FileRegions
  Proofs.BigWigFile Proofs.BigWigFileChroms Proofs.BigWigFileData Proofs.BigWigValues Proofs.BigWigFileRoundTrip
  Proofs.ZoomBwLevels Proofs.RTreeShape
  Spec.FormatDecode Proofs.C09Base Proofs.C09Codec Proofs.C09Chrom Proofs.C09RTree Proofs.C09Data.
From Coq Require Import Sorting.Sorted.
Local Open Scope N_scope.

Lemma bw_magic : BIGWIG_MAGIC = FD_BIGWIG_MAGIC.
Proof. reflexivity. Qed.

Lemma number_snd : forall l base, map snd (number base l) = seqN base (length l).
Proof. induction l as [|c l IH]; intros base; cbn [number map snd length seqN]; [reflexivity|]. now rewrite IH. Qed.

Lemma inc_from_adjacent : forall (zs : list zoom_header) lo, inc_from lo (map zh_res zs) ->
  adjacent (fun a b => fz_level a <? fz_level b) (map zh_view zs) = true
  /\ forallb (fun z => lo + 1 <=? fz_level z) (map zh_view zs) = true.
Proof.
  induction zs as [|z zs IH]; intros lo H; [split; reflexivity|]. cbn [map inc_from] in H. destruct H as [H1 H2].
  destruct (IH _ H2) as [Ha Hf]. split.
  - cbn [map]. destruct zs as [|y zs]; [reflexivity|]. cbn [map] in *. rewrite adjacent_cons, Ha, andb_true_r.
    cbn [zh_view fz_level]. destruct H2 as [H2 _]. now apply N.ltb_lt.
  - cbn [map forallb zh_view fz_level]. apply andb_true_iff. split; [apply N.leb_le; lia|].
    apply forallb_forall. intros x Hx. rewrite forallb_forall in Hf. specialize (Hf x Hx).
    apply N.leb_le in Hf. apply N.leb_le. lia.
Qed.

Definition zoom_entry := (N * list fzrec * (N * N) * (N * N))%type.
Definition zoom_regions (zl : list zoom_entry) : list (N * N) := flat_map (fun z => [snd (fst z); snd z]) zl.
Definition zoom_content (zl : list zoom_entry) : list (N * list fzrec) :=
  map (fun z => (fst (fst (fst z)), snd (fst (fst z)))) zl.


(* ---------- the written file, described by its parts (blocks possibly compressed) ---------- *)
(* [wdata]: the data sections as written; [ubuf]: the header's uncompress_buf_size.  This is C01's
   [assembled] without the zoom writer, with the buffer size as a parameter. *)
Definition zassembled (o : opts) (sizes : list (name * N)) (chroms : idmap) (sum : summary) (wdata : list sdata) (ubuf : N)
           (bs : list N) (p : file_parts) : Prop :=
  let ds := Nlen (data_bytes wdata) in
  chrom_tree_bytes sizes chroms = Ok (fp_ct p)
  /\ write_index (o_bs o) (o_ips o) (352 + ds + Nlen (fp_ct p)) (place 352 wdata) = Ok (fp_ix p, fp_levels p)
  /\ bs = fp_pre p ++ data_bytes wdata ++ fp_ct p ++ fp_ix p ++ fp_zbytes p ++ u32 BIGWIG_MAGIC
  /\ Nlen (fp_pre p) = 352
  /\ has_at (fp_pre p) 0
       (header_bytes BIGWIG_MAGIC (Nlen (fp_zhdrs p)) (352 + ds) 344 (352 + ds + Nlen (fp_ct p)) 0 0 0 304 ubuf
        ++ flat_map zoom_header_bytes (fp_zhdrs p))
  /\ has_at (fp_pre p) 304 (summary_bytes sum)
  /\ has_at (fp_pre p) 344 (u64 (Nlen wdata)).

Lemma assembled_zassembled o sizes chroms sum data zoom_part bs p :
  assembled o BIGWIG_MAGIC sizes chroms sum data bw_pre 0 0 0 zoom_part (fun k => k) bs p ->
  zassembled o sizes chroms sum data 0 bs p.
Proof.
  intros (H1 & H2 & _ & H4 & H5 & H6 & H7 & H8). change (Nlen bw_pre) with 352 in *.
  change (352 - 8) with 344 in *. change (352 - 48) with 304 in *. cbv beta in H8.
  unfold zassembled. cbv zeta. repeat split; try assumption.
  apply Nlen_eq_length in H5. rewrite H5. reflexivity.
Qed.

Section ZParts.
Variables (o : opts) (sizes : list (name * N)) (chroms : idmap) (sum : summary) (wdata : list sdata) (ubuf : N)
          (bs : list N) (p : file_parts).
Hypothesis HZ : zassembled o sizes chroms sum wdata ubuf bs p.
Let ds := Nlen (data_bytes wdata).

Lemma zasm_in_pre off x : has_at (fp_pre p) off x -> has_at bs off x.
Proof.
  intros H. destruct HZ as (_ & _ & -> & _).
  pose proof (has_at_inside (fp_pre p ++ data_bytes wdata ++ fp_ct p ++ fp_ix p ++ fp_zbytes p ++ u32 BIGWIG_MAGIC) 0 (fp_pre p) off x
                (has_at_head _ _) H) as E. now rewrite N.add_0_l in E.
Qed.
Lemma zasm_data : has_at bs 352 (data_bytes wdata).
Proof. destruct HZ as (_ & _ & -> & L & _). apply has_at_intro; exact L. Qed.
Lemma zasm_ct : has_at bs (352 + ds) (fp_ct p).
Proof.
  destruct HZ as (_ & _ & -> & L & _). rewrite (app_assoc (fp_pre p)). apply has_at_intro. rewrite Nlen_app, L. reflexivity.
Qed.
Lemma zasm_ix : has_at bs (352 + ds + Nlen (fp_ct p)) (fp_ix p).
Proof.
  destruct HZ as (_ & _ & -> & L & _). rewrite (app_assoc (fp_pre p)), (app_assoc (fp_pre p ++ data_bytes wdata)).
  apply has_at_intro. rewrite !Nlen_app, L. reflexivity.
Qed.
Lemma zasm_zooms : has_at bs (352 + ds + Nlen (fp_ct p) + Nlen (fp_ix p)) (fp_zbytes p).
Proof.
  destruct HZ as (_ & _ & -> & L & _).
  rewrite (app_assoc (fp_pre p)), (app_assoc (fp_pre p ++ data_bytes wdata)), (app_assoc ((fp_pre p ++ data_bytes wdata) ++ fp_ct p)).
  apply has_at_intro. rewrite !Nlen_app, L. reflexivity.
Qed.
Lemma zasm_Nlen : Nlen bs = 352 + ds + Nlen (fp_ct p) + Nlen (fp_ix p) + Nlen (fp_zbytes p) + 4.
Proof. destruct HZ as (_ & _ & -> & L & _). rewrite !Nlen_app, L. fold ds. change (Nlen (u32 BIGWIG_MAGIC)) with 4. lia. Qed.
Lemma zasm_placed : Forall2 (placed bs) (place 352 wdata) wdata.
Proof. apply place_placed. exact zasm_data. Qed.
End ZParts.


(* assemble_z inverted into [zassembled] (cf. C01's assemble_inv) *)
Lemma assemble_z_inv o sizes chroms sum wdata dub zoom_part bs :
  assemble_z o BIGWIG_MAGIC sizes chroms sum wdata dub bw_pre 0 0 0 zoom_part (fun k => k) = Ok bs ->
  (forall ds zp zb zh zu, zoom_part ds zp = Ok (zb, zh, zu) -> Nlen zh <= 10) ->
  exists p zu,
    zoom_part (Nlen (data_bytes wdata)) (352 + Nlen (data_bytes wdata) + Nlen (fp_ct p) + Nlen (fp_ix p)) = Ok (fp_zbytes p, fp_zhdrs p, zu)
    /\ zassembled o sizes chroms sum wdata (N.max dub zu) bs p.
Proof.
  intros H Hzb. unfold assemble_z in H. cbv zeta in H. change (Nlen bw_pre) with 352 in H.
  change (352 - 8) with 344 in H. change (352 - 48) with 304 in H.
  destruct (chrom_tree_bytes sizes chroms) as [ct| | |] eqn:Ect; cbn [rbind] in H; try discriminate.
  destruct (write_index (o_bs o) (o_ips o) (352 + Nlen (data_bytes wdata) + Nlen ct) (place 352 wdata))
    as [[ix lv]| | |] eqn:Eix; cbn [rbind] in H; try discriminate.
  destruct (zoom_part (Nlen (data_bytes wdata)) (352 + Nlen (data_bytes wdata) + Nlen ct + Nlen ix))
    as [[[zb zh] zu]| | |] eqn:Ez; cbn [rbind] in H; try discriminate.
  specialize (Hzb _ _ _ _ _ Ez). apply Ok_inj in H. rename H into Hbs.
  set (ds := Nlen (data_bytes wdata)) in *.
  set (hdr := header_bytes BIGWIG_MAGIC (Nlen zh) (352 + ds) 344 (352 + ds + Nlen ct) 0 0 0 304 (N.max dub zu)
              ++ flat_map zoom_header_bytes zh) in *.
  set (rest := data_bytes wdata ++ ct ++ ix ++ zb).
  assert (Hhl : Nlen hdr = 64 + 24 * Nlen zh).
  { unfold hdr, Nlen. rewrite app_length, header_bytes_length, zoom_dir_length. lia. }
  assert (Hsl : Nlen (summary_bytes sum) = 40) by (unfold Nlen; now rewrite summary_bytes_length).
  set (cnt := u64 (Nlen (place 352 wdata))) in *.
  assert (Hcl : Nlen cnt = 8) by reflexivity.
  assert (Hpl : Nlen bw_pre = 352) by reflexivity.
  set (p1 := patch_at bw_pre 0 hdr).
  set (p2 := patch_at p1 304 (summary_bytes sum)).
  set (p3 := patch_at p2 344 cnt).
  assert (L1 : Nlen p1 = 352) by (unfold p1; rewrite patch_at_Nlen; [exact Hpl|rewrite Hpl; lia]).
  assert (L2 : Nlen p2 = 352) by (unfold p2; rewrite patch_at_Nlen; [exact L1|rewrite L1; lia]).
  assert (L3 : Nlen p3 = 352) by (unfold p3; rewrite patch_at_Nlen; [exact L2|rewrite L2; lia]).
  exists {| fp_pre := p3; fp_ct := ct; fp_ix := ix; fp_levels := lv; fp_zbytes := zb; fp_zhdrs := zh |}, zu.
  cbn [fp_pre fp_ct fp_ix fp_levels fp_zbytes fp_zhdrs]. split; [exact Ez|].
  unfold zassembled. cbv zeta. cbn [fp_pre fp_ct fp_ix fp_levels fp_zbytes fp_zhdrs]. fold ds hdr.
  split; [exact Ect|]. split; [exact Eix|]. split; [|split; [exact L3|split; [|split]]].
  - rewrite <- Hbs. replace (bw_pre ++ data_bytes wdata ++ ct ++ ix ++ zb) with (bw_pre ++ rest) by reflexivity.
    rewrite (patch_at_app bw_pre rest 0 hdr) by (rewrite Hpl; lia). fold p1.
    rewrite (patch_at_app p1 rest 304) by (rewrite L1; lia). fold p2.
    rewrite (patch_at_app p2 rest 344) by (rewrite L2; lia). fold p3.
    unfold rest. now rewrite <- !app_assoc.
  - unfold p3. apply patch_at_keeps_before; [|lia]. unfold p2. apply patch_at_keeps_before; [|lia].
    unfold p1. apply patch_at_has. rewrite Hpl. lia.
  - unfold p3. apply patch_at_keeps_before; [|lia]. unfold p2. apply patch_at_has. rewrite L1. lia.
  - rewrite <- (place_Nlen 352 wdata). fold cnt. unfold p3. apply patch_at_has. rewrite L2, Hcl. lia.
Qed.

Section WholeFile.
Variables (fp : fpmode) (o : opts) (sizes : list (name * N)) (inp : list item).
Variables (ids : idmap) (outs : list chrom_out) (sum : summary) (data : list sdata).
Variables (bs : list N) (p : file_parts).
Variables (strict : bool) (inflate : N -> N -> option (list N)).
(* blocks: compressed with [compress] when [cz]; [ubuf] is the advertised buffer size *)
Variables (compress : list N -> list N) (cz : bool) (ubuf : N).
Hypothesis Hcol : bw_collect fp o sizes inp = Ok (ids, outs, sum, data).
Hypothesis HA : zassembled o sizes ids sum (map (zsec compress cz) data) ubuf bs p.
Hypothesis Hmode : blk_mode cz ubuf.
Hypothesis Hubuf : ubuf < W32.
Hypothesis Hcne : forall b, compress b <> [].
Hypothesis Hinf : cz = true -> inflate_ok compress bs inflate /\ Forall (fun d => Nlen (sd_bytes d) <= ubuf) data.
Hypothesis Hopts : opts_ok o.
Hypothesis Hinp : input_ok sizes inp.
Hypothesis Hsize : Nlen bs < U64.
Hypothesis Hnames : Forall (fun c : name => c <> []) (map fst (runs inp)).
Hypothesis Hstrict : strict = true -> names_increasing (map fst (runs inp)).

Let names := map fst (runs inp).
Let n := Nlen bs.
Let wdata := map (zsec compress cz) data.
Let ds := Nlen (data_bytes wdata).
Let ctl := Nlen (fp_ct p).
Let ixl := Nlen (fp_ix p).
Let zpos := 352 + ds + ctl + ixl.
Let chroms := map (chrom_view sizes) ids.
Let ips := N.to_nat (o_ips o).
Let pieces := pieces_of ips outs.

(* the zoom part as the decoder sees it *)
Variable zl : list zoom_entry.
Hypothesis Hz_hdrs : Forall zh_ok (fp_zhdrs p).
Hypothesis Hz_count : Nlen (fp_zhdrs p) <= 10.
Hypothesis Hz_levels : inc_from 0 (map zh_res (fp_zhdrs p)).
Hypothesis Hz_decode : omap (zoom_level bs n false inflate true chroms ubuf) (map zh_view (fp_zhdrs p)) = Some zl.
Hypothesis Hz_regions : reg_chain zpos (zoom_regions zl) /\ chain_end zpos (zoom_regions zl) <= n - 4.

Lemma wf_pd : Nlen bw_pre = 352.
Proof. reflexivity. Qed.

Lemma wf_len : n = 352 + ds + ctl + ixl + Nlen (fp_zbytes p) + 4.
Proof. exact (zasm_Nlen _ _ _ _ _ _ _ _ HA). Qed.

Lemma wf_ids : ids = number 0 names.
Proof. now destruct (core_runs _ _ _ _ _ _ _ _ Hcol) as (E & _). Qed.

Lemma wf_data : data = map psec pieces.
Proof. exact (core_data _ _ _ _ _ _ _ _ bs Hcol Hopts Hsize). Qed.

Lemma wf_ips : (0 < ips)%nat /\ N.of_nat ips = o_ips o.
Proof. destruct Hopts as (_ & H). unfold ips. split; [lia|apply N2Nat.id]. Qed.

Lemma wf_inp_ne : names <> [].
Proof.
  destruct (bw_collect_inv _ _ _ _ _ _ _ _ Hcol) as (Hne & _). unfold names.
  destruct inp as [|[c v] r]; [congruence|]. cbn [runs]. destruct (runs_aux c [v] r) eqn:E; [|discriminate].
  exfalso. clear - E. revert E. generalize [v] as acc. revert c. induction r as [|[c' v'] r IH]; intros c acc E; cbn [runs_aux] in E; [discriminate|].
  destruct (name_eqb c' c); [eapply IH; exact E|discriminate].
Qed.

(* ---------- skeleton ---------- *)
Lemma wf_header_at : has_at bs 0 (header_bytes BIGWIG_MAGIC (Nlen (fp_zhdrs p)) (352 + ds) 344 (352 + ds + ctl) 0 0 0 304 ubuf)
  /\ has_at bs 64 (flat_map zoom_header_bytes (fp_zhdrs p)).
Proof.
  pose proof HA as (_ & _ & _ & _ & H & _). apply (zasm_in_pre _ _ _ _ _ _ _ _ HA) in H. fold wdata ds ctl in H.
  apply has_at_app in H as [H1 H2]. split; [exact H1|].
  replace 64 with (0 + Nlen (header_bytes BIGWIG_MAGIC (Nlen (fp_zhdrs p)) (352 + ds) 344 (352 + ds + ctl) 0 0 0 304 ubuf)); [exact H2|].
  unfold Nlen. now rewrite header_bytes_length.
Qed.

Lemma wf_sniff : sniff bs = Some (false, true).
Proof.
  destruct wf_header_at as [H _]. pose proof (header_magic bs _ _ _ _ _ _ _ _ _ _ H ltac:(unfold W32, BIGWIG_MAGIC; lia)) as Hm.
  unfold sniff. destruct (slice bs 0 4) as [m|]; [|discriminate]. cbn [option_map] in Hm. injection Hm as Hm.
  change (dec false m) with (dec_le m). rewrite Hm, bw_magic, N.eqb_refl. reflexivity.
Qed.

Lemma wf_parse_header : parse_header bs n false =
  Some {| fh_version := 4; fh_nzoom := Nlen (fp_zhdrs p); fh_ctoff := 352 + ds; fh_dataoff := 344; fh_ixoff := 352 + ds + ctl;
          fh_fc := 0; fh_dfc := 0; fh_asql := 0; fh_sumoff := 304; fh_ubuf := ubuf; fh_ext := 0 |}.
Proof.
  destruct wf_header_at as [H _]. pose proof wf_len as L. unfold U64 in Hsize. fold n in Hsize.
  apply (parse_header_ok bs n _ _ _ _ _ _ _ _ _ _ H eq_refl); unfold W16, W32, W64 in *; lia.
Qed.

Lemma wf_names_ok : Forall (fun c : name * N => name_ok (fst c) /\ Nlen (fst c) < W32 /\ size_of sizes c < W32) ids.
Proof.
  rewrite wf_ids. destruct Hinp as (Hnm & _ & Hsz & _). apply Forall_forall. intros [c id] Hin. cbn [fst].
  apply number_in_name in Hin. rewrite Forall_forall in Hnm, Hnames. destruct (Hnm c Hin) as [Hz Hl]. split; [|split].
  - split; [exact (Hnames c Hin)|]. unfold no_zero in Hz. eapply Forall_impl; [|exact Hz]. intros x Hx. cbv beta in Hx. lia.
  - exact Hl.
  - unfold size_of. cbn [fst]. exact (len_of_range sizes c Hsz).
Qed.

Lemma wf_chrom_tree : parse_chrom_tree bs n false strict (352 + ds) = Some (chroms, 352 + ds + ctl).
Proof.
  destruct HA as (Hct & _). pose proof (zasm_ct _ _ _ _ _ _ _ _ HA) as Hat. fold wdata ds in Hat.
  destruct Hinp as (_ & Hcnt & _).
  destruct (parse_chrom_tree_ok bs n (352 + ds) sizes ids (fp_ct p) strict Hct Hat eq_refl) as [H _].
  - rewrite wf_ids. pose proof wf_inp_ne. destruct names; [congruence|discriminate].
  - rewrite wf_ids. unfold Nlen. rewrite number_length. unfold names. rewrite map_length. exact Hcnt.
  - exact wf_names_ok.
  - rewrite wf_ids, number_snd, number_length. reflexivity.
  - intros Hs. rewrite wf_ids, number_names. exact (Hstrict Hs).
  - exact H.
Qed.

(* the sections of the main index *)
Let secs := place 352 wdata.

Lemma wf_pieces_ok : Forall piece_ok pieces.
Proof. exact (core_pieces_ok _ _ _ _ _ _ _ _ bs Hcol Hopts Hinp Hsize). Qed.

Lemma wf_pieces_ne : pieces <> [].
Proof.
  unfold pieces, pieces_of. destruct (core_runs _ _ _ _ _ _ _ _ Hcol) as (_ & HF & _).
  pose proof wf_inp_ne as Hne. unfold names in Hne. destruct (runs inp) as [|r rs] eqn:Er; [exfalso; apply Hne; reflexivity|].
  inversion HF as [|? c ? outs' Hrc _]; subst. cbn [flat_map].
  destruct Hrc as (_ & Hv & _). pose proof (runs_nonempty inp) as Hrn. rewrite Er in Hrn. apply Forall_inv in Hrn.
  rewrite <- Hv in Hrn. destruct wf_ips as [Hi _].
  pose proof (chunks_nil_iff ips (co_vals c)) as Hn. destruct (chunks ips (co_vals c)); [exfalso; apply Hrn; now apply Hn|discriminate].
Qed.

Lemma wf_wdata_spans : map sect_span secs = map pspan pieces.
Proof.
  unfold secs, wdata. rewrite place_spans, wf_data, !map_map. apply map_ext. intros pc.
  destruct (zsec_spans compress cz (psec pc)) as (-> & -> & ->). reflexivity.
Qed.

Lemma wf_secs_sorted : sorted_starts (map sect_span secs).
Proof.
  rewrite wf_wdata_spans. destruct wf_ips as [Hi _].
  exact (pieces_sorted ips Hi outs (core_ids_sorted _ _ _ _ _ _ _ _ Hcol) (core_wf _ _ _ _ _ _ _ _ Hcol)).
Qed.

Lemma wf_placed : Forall2 (placed bs) secs wdata.
Proof. exact (zasm_placed _ _ _ _ _ _ _ _ HA). Qed.

(* the placed sections with the pieces they hold *)
Lemma wf_placed_pieces : Forall2 (fun s pc => placed bs s (zsec compress cz (psec pc))) secs pieces.
Proof.
  pose proof wf_placed as H. unfold wdata in H. rewrite wf_data, map_map in H.
  clear - H. revert H. generalize secs. induction pieces as [|pc l IH]; intros ss H; inversion H; subst; constructor; auto.
Qed.

Lemma wf_secs_ok : Forall sect_ok secs.
Proof.
  pose proof (place_bounds wdata 352) as Hb. fold secs ds in Hb. pose proof wf_len as L.
  pose proof wf_placed_pieces as Hpl. pose proof wf_pieces_ok as Hok.
  apply Forall_forall. intros s Hs. rewrite Forall_forall in Hb. destruct (Hb s Hs) as [B1 B2].
  destruct (Forall2_in_l _ _ _ _ Hpl Hs) as [pc [Hpc (_ & _ & Hc & Hst & Hen)]].
  destruct (zsec_spans compress cz (psec pc)) as (Z1 & Z2 & Z3). rewrite Z1 in Hc. rewrite Z2 in Hst. rewrite Z3 in Hen.
  rewrite Forall_forall in Hok. destruct (psec_fields_ok pc (Hok pc Hpc)) as (F1 & F2 & F3).
  unfold sect_ok. rewrite Hc, Hst, Hen. unfold U64 in *. fold n in Hsize. repeat split; try assumption; lia.
Qed.

(* each chromosome the writer processed: its values are well formed for its length, and the decoder's
   chromosome table gives that length for its id *)
Lemma wf_out_facts c : In c outs ->
  wf_vals (co_len c) (co_vals c) /\ chrom_size chroms (co_id c) = Some (co_len c) /\ co_id c < U32 /\ co_len c < U32.
Proof.
  intros Hc. destruct (core_runs _ _ _ _ _ _ _ _ Hcol) as (_ & HF & Hnum).
  assert (Hrun : exists r, In r (runs inp) /\ run_out sizes r c).
  { clear - HF Hc. induction HF as [|r c' rs outs' Hrc _ IH]; [destruct Hc|].
    destruct Hc as [<-|Hc]; [exists r; split; [now left|exact Hrc]|]. destruct (IH Hc) as [r' [H1 H2]]. exists r'. split; [now right|exact H2]. }
  destruct Hrun as [r [Hr (Hn & Hv & Hl & Hk)]].
  assert (Hin : In (co_name c, co_id c) ids).
  { rewrite wf_ids. unfold names. rewrite <- Hnum. apply in_map_iff. exists c. split; [reflexivity|exact Hc]. }
  split; [|split; [|split]].
  - apply check_chrom_wf in Hk. now rewrite <- Hv in Hk.
  - unfold chroms. rewrite (chrom_size_found sizes ids (co_name c) (co_id c)); [|
      rewrite wf_ids; apply SSorted_lt_NoDup; apply number_sorted|exact Hin].
    unfold size_of. cbn [fst]. rewrite Hn, Hl. reflexivity.
  - pose proof (core_outs_ok _ _ _ _ _ _ _ _ bs Hcol Hinp Hsize) as Hok. rewrite Forall_forall in Hok. now destruct (Hok c Hc).
  - destruct Hinp as (_ & _ & Hsz & _). pose proof (len_of_range sizes (fst r) Hsz) as H. unfold len_of in H. now rewrite Hl in H.
Qed.

(* each piece with its chromosome *)
Lemma wf_piece_chrom pc : In pc pieces -> exists len, wf_vals len (snd pc) /\ chrom_size chroms (fst pc) = Some len
  /\ Nlen (snd pc) <= o_ips o.
Proof.
  intros Hin. unfold pieces, pieces_of in Hin. apply in_flat_map in Hin as [c [Hc Hin]].
  apply in_map_iff in Hin as [ch [<- Hch]]. cbn [fst snd].
  destruct (wf_out_facts c Hc) as (Hk & Hcs & _). destruct wf_ips as [Hi Hie].
  exists (co_len c). split; [|split].
  - pose proof (chunks_concat ips (co_vals c) Hi) as Hcat. rewrite <- Hcat in Hk.
    clear - Hk Hch. revert Hk Hch. generalize (chunks ips (co_vals c)). intros cs. induction cs as [|x cs IH]; intros Hk Hch; [destruct Hch|].
    cbn [concat] in Hk. destruct Hch as [<-|Hch]; [eapply wf_app_l; exact Hk|]. apply IH; [eapply wf_app_r; exact Hk|exact Hch].
  - exact Hcs.
  - pose proof (chunks_len_bound ips (co_vals c) ch Hi Hch). unfold Nlen. lia.
Qed.

Lemma wf_wdata_ne : wdata <> [].
Proof. unfold wdata. rewrite wf_data. intros E. apply map_eq_nil in E. apply map_eq_nil in E. exact (wf_pieces_ne E). Qed.

Lemma wf_secs_range : Forall (fun s => 352 <= s_off s /\ s_off s + s_size s <= 352 + ds + ctl /\ 1 <= s_size s /\ s_start s <= s_end s) secs.
Proof.
  pose proof (place_bounds wdata 352) as Hb. fold secs ds in Hb.
  pose proof wf_placed_pieces as Hpl.
  apply Forall_forall. intros s Hs. rewrite Forall_forall in Hb. destruct (Hb s Hs) as [B1 B2].
  destruct (Forall2_in_l _ _ _ _ Hpl Hs) as [pc [Hpc (Hat & Hsz & Hc & Hst & Hen)]].
  destruct (zsec_spans compress cz (psec pc)) as (Z1 & Z2 & Z3). rewrite Z2 in Hst. rewrite Z3 in Hen.
  pose proof wf_pieces_ok as Hok. rewrite Forall_forall in Hok. destruct (Hok pc Hpc) as (Hne & Hl16 & Hid & Hvok).
  destruct (wf_piece_chrom pc Hpc) as (len & Hwf & _ & _).
  destruct pc as [id items]. cbn [fst snd] in *. destruct items as [|f r]; [congruence|].
  repeat split; try lia.
  - rewrite Hsz. destruct cz; cbn [zsec sd_bytes].
    + specialize (Hcne (sd_bytes (psec (id, f :: r)))). destruct (compress _); [congruence|]. rewrite Nlen_cons. lia.
    + unfold psec, section_of. cbn [fst snd sd_bytes]. rewrite Nlen_app. unfold sec_hdr, Nlen, u8, u16, u32.
      rewrite !app_length, !enc_le_length. lia.
  - rewrite Hst, Hen. unfold psec, section_of. cbn [fst snd sd_start sd_end].
    pose proof (wf_last_end len f r f Hwf (or_introl eq_refl)). destruct (wf_head _ _ _ Hwf). lia.
Qed.

Lemma wf_index : exists h e, parse_index bs n false (352 + ds + ctl) 352 (352 + ds + ctl) = Some (h, map lf_of secs, e)
  /\ ih_block h = o_bs o /\ ih_ips h = o_ips o /\ ih_count h = Nlen secs /\ 352 + ds + ctl + 48 <= e <= 352 + ds + ctl + ixl.
Proof.
  pose proof HA as (_ & Hix & _). fold wdata ds ctl secs in Hix.
  pose proof (zasm_ix _ _ _ _ _ _ _ _ HA) as Hat. fold wdata ds ctl in Hat.
  destruct Hopts as (Hb & Hi).
  apply (parse_index_ok bs n _ 352 _ (o_bs o) (o_ips o) secs (fp_ix p) (fp_levels p) Hix Hat eq_refl Hsize Hb).
  - unfold W32. lia.
  - unfold secs. intros E. apply place_nil_iff in E. exact (wf_wdata_ne E).
  - exact wf_secs_sorted.
  - exact wf_secs_ok.
  - unfold secs. rewrite place_Nlen. pose proof wf_len as L.
    assert (Nlen wdata <= ds); [|lia]. apply (place_count wdata 352). fold secs.
    eapply Forall_impl; [|exact wf_secs_range]. intros s (_ & _ & H & _). exact H.
  - eapply Forall_impl; [|exact wf_secs_range]. intros s (H1 & H2 & H3 & H4). repeat split; assumption.
  - apply place_offs_chain.
Qed.

Lemma wf_magic_at : has_at bs (n - 4) (u32 BIGWIG_MAGIC).
Proof.
  destruct HA as (_ & _ & E & _). fold wdata in E.
  exists (fp_pre p ++ data_bytes wdata ++ fp_ct p ++ fp_ix p ++ fp_zbytes p), []. split.
  - rewrite app_nil_r, E, <- !app_assoc. reflexivity.
  - unfold n. rewrite E. rewrite !app_length. unfold Nlen. rewrite !app_length. cbn [u32 enc_le length]. lia.
Qed.

Lemma wf_data_end : match map lf_of secs with
                    | [] => 344 + 8
                    | l :: r => let z := last r l in fl_off z + fl_size z
                    end = 352 + ds.
Proof.
  pose proof wf_wdata_ne as Hne.
  pose proof (place_last_end wdata 352 {| s_chrom := 0; s_start := 0; s_end := 0; s_off := 0; s_size := 0 |} Hne) as H.
  fold secs ds in H. destruct secs as [|s r] eqn:Es.
  - exfalso. apply place_nil_iff in Es. exact (Hne Es).
  - cbn [map]. cbv zeta. rewrite last_cons in H.
    rewrite (map_last lf_of r s). cbn [lf_of fl_off fl_size]. exact H.
Qed.

Definition the_header : fheader :=
  {| fh_version := 4; fh_nzoom := Nlen (fp_zhdrs p); fh_ctoff := 352 + ds; fh_dataoff := 344; fh_ixoff := 352 + ds + ctl;
     fh_fc := 0; fh_dfc := 0; fh_asql := 0; fh_sumoff := 304; fh_ubuf := ubuf; fh_ext := 0 |}.

Theorem wf_skeleton : exists ih e,
  parse_skeleton bs n false strict true =
    Some {| sk_bigwig := true; sk_hdr := the_header; sk_zhdrs := map zh_view (fp_zhdrs p); sk_autosql := [];
            sk_summary := sum_view_mod sum; sk_chroms := chroms; sk_index := ih; sk_leaves := map lf_of secs;
            sk_data_count := Nlen data;
            sk_regions := [(0, 64 + 24 * Nlen (fp_zhdrs p)); (0, 0); (304, 304 + 40); (352 + ds, 352 + ds + ctl);
                           (344, 352 + ds); (352 + ds + ctl, e); (n - 4, n)] |}
  /\ ih_block ih = o_bs o /\ ih_ips ih = o_ips o /\ 352 + ds + ctl + 48 <= e <= zpos.
Proof.
  destruct wf_index as (ih & e & Hix & Hb & Hi & _ & He). exists ih, e. split; [|repeat split; try assumption; unfold zpos; lia].
  destruct wf_header_at as [_ Hzh].
  pose proof wf_len as L. unfold U64 in Hsize. fold n in Hsize.
  unfold parse_skeleton. rewrite wf_parse_header. cbn [obind fh_version fh_nzoom fh_asql fh_fc fh_dfc fh_sumoff fh_ctoff fh_dataoff fh_ixoff].
  rewrite check_true by (change (4 =? FD_VERSION) with true; cbn [andb]; apply N.leb_le; exact Hz_count).
  rewrite (parse_zoomhdrs_ok bs n (fp_zhdrs p) Hzh eq_refl Hz_hdrs). cbn [obind].
  rewrite check_true by reflexivity.
  change (read_autosql bs n 0 304) with (Some (@nil N, 0)). cbn [obind].
  pose proof HA as (_ & _ & _ & _ & _ & Hsum & Hcnt). apply (zasm_in_pre _ _ _ _ _ _ _ _ HA) in Hsum. apply (zasm_in_pre _ _ _ _ _ _ _ _ HA) in Hcnt.
  fold wdata in Hcnt. assert (Ewd : Nlen wdata = Nlen data) by (unfold wdata, Nlen; now rewrite map_length). rewrite Ewd in Hcnt.
  rewrite (parse_summary_mod bs n 304 sum Hsum eq_refl). cbn [obind].
  rewrite wf_chrom_tree. cbn [obind].
  rewrite (bytes_at_has_w bs n 344 (u64 (Nlen data)) 8 Hcnt eq_refl eq_refl). cbn [obind].
  assert (Hcv : fld false (u64 (Nlen data)) 0 8 = Nlen data).
  { rewrite <- (app_nil_r (u64 (Nlen data))). unfold u64. apply fld_enc.
    assert (Nlen data <= ds); [|cbn; lia]. rewrite <- Ewd. apply (place_count wdata 352). fold secs.
    eapply Forall_impl; [|exact wf_secs_range]. intros s (_ & _ & H & _). exact H. }
  rewrite Hcv.
  rewrite check_true by (apply N.leb_le; lia).
  change (344 + 8) with 352. rewrite Hix. cbn [obind].
  destruct (inc_from_adjacent (fp_zhdrs p) 0 Hz_levels) as [Hadj Hlv].
  rewrite check_true by exact Hadj.
  rewrite check_true by exact Hlv.
  rewrite check_true by (apply N.leb_le; lia).
  rewrite (bytes_at_has_w bs n (n - 4) (u32 BIGWIG_MAGIC) 4 wf_magic_at eq_refl eq_refl). cbn [obind].
  rewrite check_true.
  2:{ cbn [dec]. unfold u32. rewrite (dec_enc_le 4 BIGWIG_MAGIC) by (unfold BIGWIG_MAGIC; cbn; lia). rewrite bw_magic. apply N.eqb_refl. }
  pose proof wf_data_end as Hde. change (344 + 8) with 352 in Hde. cbv zeta in Hde. rewrite Hde. reflexivity.
Qed.

(* ---------- blocks ---------- *)
Lemma wf_blocks : omap (data_block bs n false inflate true chroms ubuf (o_ips o)) (map lf_of secs) = Some (map piece_recs pieces).
Proof.
  pose proof wf_placed_pieces as Hpl.
  assert (G : forall ss pcs, Forall2 (fun s pc => placed bs s (zsec compress cz (psec pc))) ss pcs -> (forall pc, In pc pcs -> In pc pieces) ->
              omap (data_block bs n false inflate true chroms ubuf (o_ips o)) (map lf_of ss) = Some (map piece_recs pcs)).
  { intros ss pcs. revert ss. induction pcs as [|pc pcs IH]; intros ss HF Hsub; inversion HF as [|s d ss' ds' Hsd HF']; subst; [reflexivity|].
    cbn [map omap].
    destruct (wf_piece_chrom pc (Hsub pc (or_introl eq_refl))) as (len & Hwf & Hcs & Hl).
    pose proof wf_pieces_ok as Hok. rewrite Forall_forall in Hok.
    rewrite (data_block_c compress cz bs n inflate chroms ubuf (o_ips o) pc s len eq_refl Hsd Hmode).
    - cbn [obind]. rewrite (IH ss' HF') by (intros x Hx; apply Hsub; now right). reflexivity.
    - intros Ec. destruct (Hinf Ec) as [Hi Hu]. split; [exact Hi|]. rewrite Forall_forall in Hu. apply Hu.
      rewrite wf_data. apply in_map. apply Hsub. now left.
    - exact (Hok pc (Hsub pc (or_introl eq_refl))).
    - exact Hwf.
    - exact Hcs.
    - exact Hl. }
  apply G; [exact Hpl|auto].
Qed.

Definition the_content (ih : findexhdr) : content :=
  {| c_bigwig := true; c_bigendian := false; c_field_count := 0; c_defined_fc := 0; c_autosql := [];
     c_ubuf := ubuf; c_block_size := o_bs o; c_ips := o_ips o; c_chroms := chroms; c_records := recs_of outs;
     c_blocks := map (fun pc : piece => Nlen (snd pc)) pieces; c_data_count := Nlen data;
     c_summary := sum_view_mod sum; c_zooms := zoom_content zl |}.

Lemma wf_regions e : 352 + ds + ctl + 48 <= e <= zpos ->
  all_disjoint ([(0, 64 + 24 * Nlen (fp_zhdrs p)); (0, 0); (304, 304 + 40); (352 + ds, 352 + ds + ctl);
                 (344, 352 + ds); (352 + ds + ctl, e); (n - 4, n)] ++ zoom_regions zl) = true.
Proof.
  intros He. pose proof wf_len as L. destruct Hz_regions as [Hch Hend].
  assert (Hzp : zpos <= n - 4) by (unfold zpos; lia).
  rewrite all_disjoint_app. rewrite !andb_true_iff. split; [split|].
  - cbn [all_disjoint forallb]. unfold reg_disj. cbn [fst snd].
    repeat (apply andb_true_iff; split); try reflexivity;
      rewrite ?orb_true_iff, ?N.eqb_eq, ?N.leb_le; unfold zpos in *; lia.
  - assert (Hz : forall r, In r (zoom_regions zl) -> zpos <= fst r /\ fst r <= snd r /\ snd r <= n - 4).
    { intros r Hr. destruct (reg_chain_lower _ _ _ Hch Hr). pose proof (reg_chain_upper _ _ _ Hch Hr). repeat split; lia. }
    cbn [forallb]. rewrite !andb_true_iff. repeat split; try reflexivity;
      apply forallb_forall; intros r Hr; destruct (Hz r Hr) as (Z1 & Z2 & Z3); unfold reg_disj; cbn [fst snd];
      rewrite !orb_true_iff, !N.eqb_eq, !N.leb_le; unfold zpos in *; lia.
  - exact (reg_chain_disjoint _ _ Hch).
Qed.

Theorem wf_decode : exists ih, decode_gen strict bs inflate = Some (the_content ih)
  /\ ih_block ih = o_bs o /\ ih_ips ih = o_ips o.
Proof.
  destruct wf_skeleton as (ih & e & Hsk & Hb & Hi & He). exists ih. split; [|split; assumption].
  unfold decode_gen, skeleton_of. rewrite wf_sniff. cbn [obind]. fold n. rewrite Hsk. cbn [obind].
  unfold decode_with. cbn [sk_bigwig sk_hdr sk_index sk_chroms sk_leaves sk_data_count sk_zhdrs sk_regions sk_autosql sk_summary
                           the_header fh_ubuf fh_fc fh_dfc].
  rewrite Hi, wf_blocks. cbn [obind].
  destruct wf_ips as [Hips _].
  unfold pieces. rewrite (pieces_recs ips outs Hips).
  rewrite check_true.
  2:{ apply (sorted_adjacent (rec_order true) rec_lt rec_lt_order).
      exact (recs_sorted outs (core_ids_sorted _ _ _ _ _ _ _ _ Hcol) (core_wf _ _ _ _ _ _ _ _ Hcol)). }
  rewrite check_true.
  2:{ apply N.eqb_eq. unfold Nlen. rewrite map_length. rewrite wf_data at 1. unfold pieces. now rewrite map_length. }
  rewrite Hz_decode. cbn [obind].
  rewrite check_true by (apply wf_regions; exact He).
  unfold the_content, pieces. rewrite Hb. f_equal. f_equal.
  rewrite map_map. apply map_ext. intros pc. unfold piece_recs. unfold Nlen. now rewrite map_length.
Qed.
End WholeFile.
