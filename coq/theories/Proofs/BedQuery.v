(* C02 / C04, list level: what the bigBed writer's input checks guarantee, that its sectioning loop
   cuts a chromosome into chunks of items_per_slot, and why reading only the blocks whose span
   [first start, LARGEST end] meets the query loses nothing (this is what D2 broke: with the span end
   taken from the last entry a skipped block can hold an overlapping entry). *)
From BT Require Import Base.Util Base.Float Model.RTree Model.BBIFile Model.BigWigWrite Model.BBIRead
  Model.BigBedWrite Model.BBIReadBed Proofs.Chunks.
From Coq Require Import Sorting.Sorted.
Local Open Scope N_scope.

(* ---- the entries of one chromosome as the writer accepts them ---- *)
Inductive wf_entries (len : N) : list entry -> Prop :=
| wfe_nil : wf_entries len []
| wfe_one : forall x, e_start x <= e_end x -> e_start x < len -> wf_entries len [x]
| wfe_cons : forall x y r, e_start x <= e_end x -> e_start x < len -> e_start x <= e_start y ->
             wf_entries len (y :: r) -> wf_entries len (x :: y :: r).

Lemma check_entries_wf len es : check_entries len es = Ok tt -> wf_entries len es.
Proof.
  induction es as [|x r IH]; intros H; [constructor|].
  cbn [check_entries] in H. unfold check_entry in H.
  destruct (e_end x <? e_start x) eqn:E1; [discriminate|].
  destruct (len <=? e_start x) eqn:E2; [discriminate|].
  apply N.ltb_ge in E1. apply N.leb_gt in E2.
  destruct r as [|y r'].
  - constructor; assumption.
  - cbn [hd_error] in H. destruct (e_start y <? e_start x) eqn:E3; [discriminate|].
    apply N.ltb_ge in E3. cbn [rbind] in H. constructor; auto.
Qed.
Lemma wf_check_entries len es : wf_entries len es -> check_entries len es = Ok tt.
Proof.
  induction 1 as [|x Hs Hl|x y r Hs Hl Hn Hw IH]; [reflexivity| |].
  - cbn [check_entries]. unfold check_entry. cbn [hd_error].
    destruct (e_end x <? e_start x) eqn:E1; [apply N.ltb_lt in E1; exfalso; lia|].
    destruct (len <=? e_start x) eqn:E2; [apply N.leb_le in E2; exfalso; lia|]. reflexivity.
  - cbn [check_entries]. unfold check_entry. cbn [hd_error].
    destruct (e_end x <? e_start x) eqn:E1; [apply N.ltb_lt in E1; exfalso; lia|].
    destruct (len <=? e_start x) eqn:E2; [apply N.leb_le in E2; exfalso; lia|].
    destruct (e_start y <? e_start x) eqn:E3; [apply N.ltb_lt in E3; exfalso; lia|]. cbn [rbind]. exact IH.
Qed.

Lemma wfe_tail len x r : wf_entries len (x :: r) -> wf_entries len r.
Proof. inversion 1; subst; [constructor|assumption]. Qed.
Lemma wfe_head len x r : wf_entries len (x :: r) -> e_start x <= e_end x /\ e_start x < len.
Proof. inversion 1; subst; auto. Qed.

(* the only part of well-formedness the query argument needs: starts do not decrease *)
Definition starts_sorted (es : list entry) : Prop := StronglySorted (fun a b => e_start a <= e_start b) es.

Lemma wfe_sorted len es : wf_entries len es -> starts_sorted es.
Proof.
  induction 1 as [|x Hs Hl|x y r Hs Hl Hn Hw IH]; [constructor|constructor; constructor|].
  constructor; [exact IH|]. inversion IH as [|? ? _ Hall]; subst.
  constructor; [exact Hn|]. eapply Forall_impl; [|exact Hall]. cbv beta. intros z Hz. lia.
Qed.

Lemma sorted_app_l a b : starts_sorted (a ++ b) -> starts_sorted a.
Proof.
  induction a as [|x a IH]; intros H; [constructor|]. cbn [app] in H. inversion H as [|? ? Hs Hall]; subst.
  constructor; [apply IH; exact Hs|]. apply Forall_app in Hall. tauto.
Qed.
Lemma sorted_app_r a b : starts_sorted (a ++ b) -> starts_sorted b.
Proof. induction a as [|x a IH]; intros H; [exact H|]. inversion H; subst. auto. Qed.

(* ---- sectioning: the push/flush loop of process_val yields itertools-style chunks ---- *)
Definition slot (ips : N) : nat := N.to_nat (N.max 1 ips).

Lemma chunks_cons {X} b (x : X) l : (0 < b)%nat ->
  chunks b (x :: l) = firstn b (x :: l) :: chunks b (skipn b (x :: l)).
Proof.
  intros Hb. unfold chunks. cbn [length chunks_fuel]. f_equal.
  (* chunks_fuel with more fuel than needed *)
  assert (Hgen : forall fuel1 fuel2 (m : list X), (length m <= fuel1)%nat -> (length m <= fuel2)%nat ->
                 chunks_fuel fuel1 b m = chunks_fuel fuel2 b m).
  { induction fuel1 as [|f1 IH]; intros fuel2 m H1 H2.
    - destruct m; [|cbn [length] in H1; exfalso; lia]. destruct fuel2; reflexivity.
    - destruct m as [|y m]; [destruct fuel2; reflexivity|].
      destruct fuel2 as [|f2]; [cbn [length] in H2; exfalso; lia|].
      cbn [chunks_fuel]. f_equal. apply IH; rewrite skipn_length; cbn [length] in *; lia. }
  apply Hgen; [|lia]. rewrite skipn_length. cbn [length]. lia.
Qed.
Lemma chunks_nil {X} b : chunks b (@nil X) = [].
Proof. reflexivity. Qed.

Lemma Nlen_lt_nat {X} (l : list X) (n : N) : (n <=? Nlen l) = false -> (length l < N.to_nat n)%nat.
Proof. intros H. apply N.leb_gt in H. unfold Nlen in H. lia. Qed.
Lemma Nlen_ge_nat {X} (l : list X) (n : N) : (n <=? Nlen l) = true -> (N.to_nat n <= length l)%nat.
Proof. intros H. apply N.leb_le in H. unfold Nlen in H. lia. Qed.

Lemma chunks_short {X} b (l : list X) : (0 < b)%nat -> l <> [] -> (length l <= b)%nat -> chunks b l = [l].
Proof.
  intros Hb Hne Hl. destruct l as [|a m]; [congruence|]. rewrite chunks_cons by exact Hb.
  rewrite firstn_all2 by exact Hl. rewrite skipn_all2 by exact Hl. reflexivity.
Qed.
Lemma chunks_app_full {X} b (a r : list X) : (0 < b)%nat -> length a = b -> chunks b (a ++ r) = a :: chunks b r.
Proof.
  intros Hb Hl. destruct a as [|x a']; [cbn [length] in Hl; exfalso; lia|].
  cbn [app]. rewrite chunks_cons by exact Hb. change (x :: a' ++ r) with ((x :: a') ++ r).
  rewrite <- Hl. rewrite firstn_app, Nat.sub_diag, firstn_all. cbn [firstn]. rewrite app_nil_r.
  rewrite skipn_app, Nat.sub_diag, skipn_all. reflexivity.
Qed.

Lemma sections_loop_chunks ips : forall l acc, (length acc < slot ips)%nat -> l <> [] ->
  sections_loop ips acc l = chunks (slot ips) (acc ++ l).
Proof.
  assert (Hb : (0 < slot ips)%nat) by (unfold slot; lia).
  induction l as [|x r IH]; intros acc Hacc Hne; [congruence|].
  cbn [sections_loop].
  assert (Hlen : length (acc ++ [x]) = S (length acc)) by (rewrite app_length; cbn [length]; lia).
  assert (Hnn : acc ++ [x] <> []) by (destruct acc; discriminate).
  replace (acc ++ x :: r) with ((acc ++ [x]) ++ r) by (rewrite <- app_assoc; reflexivity).
  destruct r as [|y r'].
  - cbn [orb]. rewrite app_nil_r. rewrite chunks_short; [reflexivity|exact Hb|exact Hnn|lia].
  - cbn [orb]. destruct (ips <=? Nlen (acc ++ [x])) eqn:Ef.
    + (* the buffer is full: length (acc ++ [x]) = slot *)
      apply Nlen_ge_nat in Ef.
      assert (Hfull : length (acc ++ [x]) = slot ips) by (unfold slot in *; lia).
      rewrite (IH [] ltac:(cbn [length]; lia) ltac:(discriminate)). cbn [app].
      rewrite chunks_app_full by assumption. reflexivity.
    + apply Nlen_lt_nat in Ef.
      apply IH; [|discriminate]. unfold slot. lia.
Qed.

Theorem sections_are_chunks ips l : sections_loop ips [] l = chunks (slot ips) l.
Proof.
  destruct l as [|x r]; [reflexivity|].
  apply (sections_loop_chunks ips (x :: r) []); [unfold slot; cbn [length]; lia|discriminate].
Qed.

(* ---- the block span: first start, largest end ---- *)
Lemma fold_max_ge_init (r : list entry) m : m <= fold_left (fun m x => N.max m (e_end x)) r m.
Proof.
  revert m. induction r as [|y r IH]; intros m; cbn [fold_left]; [lia|].
  specialize (IH (N.max m (e_end y))). lia.
Qed.
Lemma fold_max_ge_in (r : list entry) m x : In x r -> e_end x <= fold_left (fun m x => N.max m (e_end x)) r m.
Proof.
  revert m. induction r as [|y r IH]; intros m Hin; [destruct Hin|].
  cbn [fold_left]. destruct Hin as [<-|Hin].
  - pose proof (fold_max_ge_init r (N.max m (e_end y))). lia.
  - apply IH. exact Hin.
Qed.
Lemma max_end_ge f r x : In x (f :: r) -> e_end x <= max_end f r.
Proof.
  unfold max_end. intros [<-|Hin]; [apply fold_max_ge_init|apply fold_max_ge_in; exact Hin].
Qed.
(* the largest end is the end of one of the entries (the span is not wider than its contents) *)
Lemma fold_max_in (r : list entry) m :
  fold_left (fun m x => N.max m (e_end x)) r m = m \/ exists x, In x r /\ fold_left (fun m x => N.max m (e_end x)) r m = e_end x.
Proof.
  revert m. induction r as [|y r IH]; intros m; cbn [fold_left]; [left; reflexivity|].
  destruct (IH (N.max m (e_end y))) as [H|[x [Hin H]]].
  - rewrite H. destruct (N.max_spec m (e_end y)) as [[_ ->]|[_ ->]]; [right; exists y; split; [left; reflexivity|reflexivity]|left; reflexivity].
  - right. exists x. split; [right; exact Hin|exact H].
Qed.
Lemma max_end_in f r : exists x, In x (f :: r) /\ max_end f r = e_end x.
Proof.
  unfold max_end. destruct (fold_max_in r (e_end f)) as [H|[x [Hin H]]].
  - exists f. split; [left; reflexivity|exact H].
  - exists x. split; [right; exact Hin|exact H].
Qed.

Lemma sorted_first_start f r x : starts_sorted (f :: r) -> In x (f :: r) -> e_start f <= e_start x.
Proof.
  intros H [<-|Hin]; [lia|]. inversion H as [|? ? _ Hall]; subst. rewrite Forall_forall in Hall. auto.
Qed.

(* ---- reading only the blocks the index returns ---- *)
(* the index test for a block with span [first start, largest end] against the query [s,e]: the
   inclusive comparison of bbiread.rs overlaps() restricted to one chromosome *)
Definition bchunk_hit (s e : N) (c : list entry) : bool :=
  match c with
  | [] => false
  | f :: r => (s <=? max_end f r) && (e_start f <=? e)
  end.

Lemma bfilter_concat s e cs : filter (bkeep s e) (concat cs) = flat_map (filter (bkeep s e)) cs.
Proof. induction cs as [|c cs IH]; [reflexivity|]. cbn [concat flat_map]. now rewrite filter_app, IH. Qed.

Lemma filter_none_bed (p : entry -> bool) l : Forall (fun a => p a = false) l -> filter p l = [].
Proof. induction 1 as [|x l Hx _ IH]; [reflexivity|]. cbn [filter]. now rewrite Hx. Qed.

(* KEY LEMMA: a block the index test skips holds no entry the reader's filter would keep *)
Lemma bmiss_empty s e c : starts_sorted c -> bchunk_hit s e c = false -> filter (bkeep s e) c = [].
Proof.
  intros Hs Hh. destruct c as [|f r]; [reflexivity|].
  apply filter_none_bed. apply Forall_forall. intros x Hx. unfold bkeep. unfold bchunk_hit in Hh.
  apply andb_false_iff in Hh as [Hh|Hh]; apply N.leb_gt in Hh.
  - pose proof (max_end_ge f r x Hx). apply andb_false_iff. left. apply N.leb_gt. lia.
  - pose proof (sorted_first_start f r x Hs Hx). apply andb_false_iff. right. apply N.leb_gt. lia.
Qed.

(* any split of a start-sorted entry list into consecutive blocks: answering from the hit blocks
   only is answering from the whole list, in stored order *)
Theorem bquery_blocks s e (cs : list (list entry)) : starts_sorted (concat cs) ->
  flat_map (filter (bkeep s e)) (filter (bchunk_hit s e) cs) = filter (bkeep s e) (concat cs).
Proof.
  intros Hs. rewrite bfilter_concat.
  induction cs as [|c cs IH]; [reflexivity|].
  cbn [concat] in Hs. cbn [filter flat_map].
  destruct (bchunk_hit s e c) eqn:Hh; cbn [flat_map].
  - rewrite IH; [reflexivity|]. eapply sorted_app_r; exact Hs.
  - rewrite (bmiss_empty s e c); [|eapply sorted_app_l; exact Hs|exact Hh]. cbn [app].
    apply IH. eapply sorted_app_r; exact Hs.
Qed.

(* the writer's blocks *)
Corollary bquery_sections ips s e es : starts_sorted es ->
  flat_map (filter (bkeep s e)) (filter (bchunk_hit s e) (sections_loop ips [] es)) = filter (bkeep s e) es.
Proof.
  intros Hs. rewrite sections_are_chunks.
  assert (Hb : (0 < slot ips)%nat) by (unfold slot; lia).
  rewrite <- (chunks_concat (slot ips) es Hb) at 2. apply bquery_blocks.
  rewrite chunks_concat by exact Hb. exact Hs.
Qed.

(* ---- what the filter means ---- *)
Lemma In_filter_iff s e x es : In x (filter (bkeep s e) es) <-> In x es /\ s <= e_end x /\ e_start x <= e.
Proof.
  rewrite filter_In. unfold bkeep. rewrite andb_true_iff, N.leb_le, N.leb_le. tauto.
Qed.

(* no miss: every stored entry that overlaps [s,e) is in the answer *)
Corollary bquery_no_miss ips s e es x : starts_sorted es -> In x es -> e_start x < e -> s < e_end x ->
  In x (flat_map (filter (bkeep s e)) (filter (bchunk_hit s e) (sections_loop ips [] es))).
Proof.
  intros Hs Hin H1 H2. rewrite bquery_sections by exact Hs. apply In_filter_iff. repeat split; [exact Hin|lia|lia].
Qed.
(* no disjoint: everything in the answer is stored and meets [s,e] *)
Corollary bquery_no_disjoint ips s e es x : starts_sorted es ->
  In x (flat_map (filter (bkeep s e)) (filter (bchunk_hit s e) (sections_loop ips [] es))) ->
  In x es /\ s <= e_end x /\ e_start x <= e.
Proof. intros Hs Hin. rewrite bquery_sections in Hin by exact Hs. apply In_filter_iff. exact Hin. Qed.

(* full-span read: every accepted entry comes back (start < length is what the writer checked) *)
Theorem bfull_span len es : wf_entries len es -> filter (bkeep 0 len) es = es.
Proof.
  induction es as [|x r IH]; intros Hwf; [reflexivity|].
  destruct (wfe_head _ _ _ Hwf) as [Hs Hl]. cbn [filter]. unfold bkeep at 1.
  replace (0 <=? e_end x) with true by (symmetry; apply N.leb_le; lia).
  replace (e_start x <=? len) with true by (symmetry; apply N.leb_le; lia).
  cbn [andb]. f_equal. apply IH. eapply wfe_tail; exact Hwf.
Qed.

(* ---- with the span end taken from the LAST entry (the unrepaired code) the key lemma is false ---- *)
Definition bchunk_hit_last (s e : N) (c : list entry) : bool :=
  match c with
  | [] => false
  | f :: _ => (s <=? e_end (last c f)) && (e_start f <=? e)
  end.
Lemma last_end_refuted :
  exists c s e, starts_sorted c /\ bchunk_hit_last s e c = false /\ filter (bkeep s e) c <> [].
Proof.
  exists [ {| e_start := 0; e_end := 1000; e_rest := [] |}; {| e_start := 10; e_end := 20; e_rest := [] |} ], 500, 600.
  split; [|split; [vm_compute; reflexivity|vm_compute; discriminate]].
  repeat constructor; cbn; lia.
Qed.

(* ---- the serial source: the runs partition the input in order, nothing is lost or reordered ---- *)
Definition tag (c : name) (es : list entry) : list bitem := map (fun x => (c, x)) es.
Definition untag (rs : list (name * list entry)) : list bitem := flat_map (fun r => tag (fst r) (snd r)) rs.

Lemma name_eqb_eq a b : name_eqb a b = true -> a = b.
Proof.
  unfold name_eqb. revert b. induction a as [|x a IH]; intros [|y b] H; cbn [name_cmp] in H; try discriminate; [reflexivity|].
  destruct (x ?= y) eqn:E; try discriminate. apply N.compare_eq in E. subst. f_equal. apply IH. exact H.
Qed.

Lemma bruns_aux_untag : forall l cur acc, untag (bruns_aux cur acc l) = tag cur (rev acc) ++ l.
Proof.
  induction l as [|[c v] r IH]; intros cur acc; cbn [bruns_aux].
  - unfold untag. cbn [flat_map fst snd]. reflexivity.
  - destruct (name_eqb c cur) eqn:E.
    + apply name_eqb_eq in E. subst c. rewrite IH. cbn [rev]. unfold tag. rewrite map_app, <- app_assoc. reflexivity.
    + unfold untag at 1. cbn [flat_map fst snd]. fold (untag (bruns_aux c [v] r)). rewrite IH. reflexivity.
Qed.
Lemma bruns_untag l : untag (bruns l) = l.
Proof. destruct l as [|[c v] r]; [reflexivity|]. unfold bruns. rewrite bruns_aux_untag. reflexivity. Qed.

Lemma process_bruns_outs o sizes : forall rs prev ids ids' outs,
  process_bruns o sizes prev ids rs = Ok (ids', outs) ->
  map (fun c => (bc_name c, bc_entries c)) outs = rs
  /\ Forall (fun c => lookup (bc_name c) sizes = Some (bc_len c) /\ check_entries (bc_len c) (bc_entries c) = Ok tt) outs.
Proof.
  induction rs as [|[c es] rest IH]; intros prev ids ids' outs H; cbn [process_bruns] in H.
  - inversion H; subst. split; [reflexivity|constructor].
  - destruct (negb _); [discriminate|].
    destruct (lookup c sizes) as [len|] eqn:El; [|discriminate].
    destruct (lookup c ids) as [?|] eqn:Eseen; [discriminate|].
    destruct (get_id ids c) as [ids1 id].
    destruct (check_entries len es) as [[]| | |] eqn:Ec; cbn [rbind] in H; try discriminate.
    destruct (process_bruns o sizes (Some c) ids1 rest) as [[ids2 outs2]| | |] eqn:Er; cbn [rbind] in H; try discriminate.
    inversion H; subst. destruct (IH _ _ _ _ Er) as [IH1 IH2]. split.
    + cbn [map bc_name bc_entries]. now rewrite IH1.
    + constructor; [cbn [bc_name bc_len bc_entries]; split; assumption|exact IH2].
Qed.

Lemma sumN_app_bed a b : sumN (a ++ b) = sumN a + sumN b.
Proof. induction a as [|x a IH]; cbn [app sumN]; [lia|rewrite IH; lia]. Qed.
Lemma Nlen_untag rs : Nlen (untag rs) = sumN (map (fun r => Nlen (snd r)) rs).
Proof.
  induction rs as [|[c es] rs IH]; [reflexivity|].
  unfold untag. cbn [flat_map map sumN fst snd]. fold (untag rs).
  unfold Nlen in *. rewrite app_length. unfold tag. rewrite map_length. lia.
Qed.

(* accepted input: the per-chromosome entry lists, re-tagged and concatenated in file order, are the
   input; every chromosome's list passed the checks; the item count is the input's length *)
Theorem collect_partition o sizes input ids outs : bb_collect o sizes input = Ok (ids, outs) ->
  untag (map (fun c => (bc_name c, bc_entries c)) outs) = input
  /\ Forall (fun c => lookup (bc_name c) sizes = Some (bc_len c) /\ wf_entries (bc_len c) (bc_entries c)) outs
  /\ bb_total_items outs = Nlen input.
Proof.
  intros H. unfold bb_collect in H. destruct input as [|i0 rest]; [discriminate|].
  destruct (process_bruns_outs _ _ _ _ _ _ _ H) as [H1 H2].
  split; [rewrite H1; apply bruns_untag|]. split.
  - eapply Forall_impl; [|exact H2]. cbv beta. intros c [Ha Hb]. split; [exact Ha|apply check_entries_wf; exact Hb].
  - rewrite <- (bruns_untag (i0 :: rest)). rewrite <- H1. rewrite Nlen_untag. unfold bb_total_items.
    rewrite map_map. reflexivity.
Qed.
