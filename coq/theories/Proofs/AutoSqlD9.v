(* D9, for the record: the value loop of enum( / set( as it stood BEFORE the repair (commit 034426d
   in /repo) has no measure at the end of input: eat_word and eat_one both return the empty string
   without moving, neither is ")", and the loop pushes an empty value and goes round again.  In the
   model that is [Fuel] for every budget, i.e. the call does not return (and [values] grows by one
   per turn).  The repaired loop (Model/AutoSql.v [values_loop]) leaves with an error on an empty
   value; AutoSqlTotal.v proves it total. *)
From Coq Require Import String.
From BT Require Import Base.Util Generated.Consts Model.AutoSql Proofs.AutoSqlLex.
Local Open Scope nat_scope.

Fixpoint values_loop_unrepaired (lf fuel : nat) (p : parser) (values : list (list N))
  : res (list (list N) * parser) :=
  match lf with
  | O => Fuel
  | S f =>
    do (value, p1) <- eat_word fuel p;
    if beq value K_rparen then Ok (values, p1)
    else
      let values' := values ++ [value] in
      do (close, p2) <- eat_one fuel p1;
      if beq close K_rparen then Ok (values', p2)
      else values_loop_unrepaired f fuel p2 values'
  end.

(* at the end of input the unrepaired loop never returns, whatever the budget *)
Theorem unrepaired_loop_at_end : forall lf fuel vs, 0 < fuel ->
  values_loop_unrepaired lf fuel (mkP [] 0) vs = Fuel.
Proof.
  induction lf as [|f IH]; intros fuel vs H; [reflexivity|].
  cbn [values_loop_unrepaired].
  rewrite eat_word_spec by (cbn [rest length]; exact H). cbn [rbind rest drop_ws word_of length skipn beq].
  rewrite eat_one_spec by (cbn [rest length]; exact H). cbn [rbind rest drop_ws firstn skipn beq].
  apply IH, H.
Qed.

(* the witness of the finding: the text after `enum(` in  table t "c" ( enum(a, b  *)
Theorem unrepaired_loop_witness : forall lf fuel, 4 < fuel ->
  values_loop_unrepaired lf fuel (mkP (bs "a, b") 0) [] = Fuel.
Proof.
  intros lf fuel H.
  destruct lf as [|lf]; [reflexivity|]. cbn [values_loop_unrepaired].
  rewrite eat_word_spec by (vm_compute; lia).
  change (word_of (drop_ws (rest (mkP (bs "a, b") 0)))) with [97%N]. cbn [rbind length]. 
  change (beq [97%N] K_rparen) with false. cbv iota.
  rewrite eat_one_spec by (vm_compute; lia).
  change (firstn 1 (drop_ws (rest (mkP (skipn 1 (drop_ws (rest (mkP (bs "a, b") 0)))) 0)))) with [44%N].
  cbn [rbind]. change (beq [44%N] K_rparen) with false. cbv iota.
  change (skipn 1 (drop_ws (rest (mkP (skipn 1 (drop_ws (rest (mkP (bs "a, b") 0)))) 0)))) with [32%N; 98%N].
  destruct lf as [|lf]; [reflexivity|]. cbn [values_loop_unrepaired].
  rewrite eat_word_spec by (vm_compute; lia).
  change (word_of (drop_ws (rest (mkP [32%N; 98%N] 0)))) with [98%N]. cbn [rbind length].
  change (beq [98%N] K_rparen) with false. cbv iota.
  change (skipn 1 (drop_ws (rest (mkP [32%N; 98%N] 0)))) with (@nil N).
  rewrite eat_one_spec by (vm_compute; lia).
  cbn [rbind rest drop_ws firstn skipn beq].
  apply unrepaired_loop_at_end. lia.
Qed.
