(* C15, the merge tool on FILES.
   Model/MergeTool.v takes its inputs as what a reader answers (per chromosome: name, length, values) and
   Properties/C15.v (C15_tool_run) states the per-base result over those value lists.  Here the inputs are byte
   images: [file_view] is the file-reading front of the tool - read_info, then for every chromosome of the table,
   in table order, the full-span query from position 0 ([bw_interval infl bs i c 0 len], as get_merged_vals asks it
   since /repo f3fc1e3) - and [tool_run_files] is the tool model behind that front.
   When every input is the byte image written by [bw_write] / [bw_write_multipass] from an accepted input, C01's
   whole-file theorem identifies the front's output with the ORIGINAL data: per chromosome, in first-appearance
   order, the input's values minus zero-length values at position 0 / at the chromosome end (K1, the reader never
   returns those).  So C15_tool_run's conclusion holds with the per-base sum of the original inputs.
   The number a value's bit pattern stands for is a parameter [num : N -> Z] (the merge model computes with exact
   numbers; f32 rounding is outside it, notes/C15.md); every statement holds for every [num]. *)
From BT Require Import Base.Util Base.LE Base.Float Model.RTree Model.BBIFile Model.BigWigWrite Model.BBIRead.
From BT Require Import Proofs.Chunks Proofs.BigWigQuery Proofs.RTreeCodec Proofs.FileRegions Proofs.BigWigFile Proofs.BigWigFileChroms
  Proofs.BigWigFileData Proofs.BigWigFileRoundTrip Proofs.BigWigFileThms Proofs.BigWigFileInput.
From BT Require Import Model.Merge Model.MergeTool Proofs.MergeSig Proofs.FillOk Proofs.MergeToolOk Proofs.MergeToolRun.
Local Open Scope N_scope.

(* after the imports above [value], [item], [v_start], [v_end] are Model/Merge.v's; the file side is qualified *)
Notation wvalue := BigWigWrite.value (only parsing).
Notation witem := BigWigWrite.item (only parsing).
Notation ws := BigWigWrite.v_start (only parsing).
Notation we := BigWigWrite.v_end (only parsing).

(* ------------------------------------------------------------------ the file-reading front *)
Definition conv (num : N -> Z) (v : wvalue) : value := mkV (ws v) (we v) (num (BigWigWrite.v_bits v)).

Definition file_chrom (num : N -> Z) (infl : list N -> list N) (bs : list N) (i : info) (ci : chrom_info) : res bwchrom :=
  do vs <- bw_interval infl bs i (ci_name ci) 0 (ci_len ci);
  Ok (ci_name ci, ci_len ci, map (conv num) vs).
(* one input as the tool sees it: the chromosome table, and per chromosome the full-span answer from position 0 *)
Definition file_view (num : N -> Z) (infl : list N -> list N) (bs : list N) : res bwfile :=
  do i <- read_info bs; mapM (file_chrom num infl bs i) (i_chroms i).
Definition tool_inputs_of_files (num : N -> Z) (infl : list N -> list N) (bss : list (list N)) : res (list bwfile) :=
  mapM (file_view num infl) bss.
Definition tool_run_files (W : N) (maxfds : nat) (num : N -> Z) (infl : list N -> list N) (bss : list (list N))
           (thr : Z) (adj clip : option Z) (ty : option (list N)) (name : list N) : res (option (otype * list row)) :=
  do files <- tool_inputs_of_files num infl bss; tool_run W maxfds files thr adj clip ty name.

(* ------------------------------------------------------------------ the data behind a written file *)
(* K1: not a zero-length value at position 0 or at the chromosome end *)
Definition not_k1 (len : N) (v : wvalue) : bool := negb (boundary_zero len v).
(* what was written for chromosome c, as a tool input *)
Definition orig_chrom (num : N -> Z) (sizes : list (name * N)) (inp : list witem) (c : name) : bwchrom :=
  (c, len_of sizes c, map (conv num) (vals_of inp c)).
(* what the reader returns for the full span of c *)
Definition read_chrom (num : N -> Z) (sizes : list (name * N)) (inp : list witem) (c : name) : bwchrom :=
  (c, len_of sizes c, map (conv num) (filter (not_k1 (len_of sizes c)) (vals_of inp c))).
Definition orig_file num sizes inp : bwfile := map (orig_chrom num sizes inp) (first_app (map fst inp)).
Definition read_file num sizes inp : bwfile := map (read_chrom num sizes inp) (first_app (map fst inp)).

(* every zero-length value of the input sits at position 0 or at the end of its chromosome (those are not read back;
   a zero-length value elsewhere IS read back and is outside C15's hypotheses: its streams hold non-empty values) *)
Definition zero_only_at_boundary (sizes : list (name * N)) (inp : list witem) : Prop :=
  forall c, In c (map fst inp) ->
    Forall (fun v : wvalue => ws v = we v -> boundary_zero (len_of sizes c) v = true) (vals_of inp c).

(* ------------------------------------------------------------------ list facts *)
Lemma first_app_in c : forall l, In c (first_app l) -> In c l.
Proof.
  induction l as [|x r IH]; intros H; [destruct H|]. cbn [first_app] in H. destruct H as [->|H]; [now left|].
  apply filter_In in H as [H _]. right. exact (IH H).
Qed.

Lemma mapM_map_ok {X X' Y} (f : X' -> res Y) (h : X -> X') (g : X -> Y) : forall l,
  (forall x, In x l -> f (h x) = Ok (g x)) -> mapM f (map h l) = Ok (map g l).
Proof.
  induction l as [|x l IH]; intros H; [reflexivity|]. cbn [mapM map]. rewrite (H x (or_introl eq_refl)). cbn [rbind].
  rewrite IH by (intros y Hy; apply H; now right). reflexivity.
Qed.

Lemma mapM_Forall2_ok {X Y} (f : X -> res Y) : forall l r, Forall2 (fun x y => f x = Ok y) l r -> mapM f l = Ok r.
Proof. induction 1 as [|x y l r Hx _ IH]; [reflexivity|]. cbn [mapM]. rewrite Hx. cbn [rbind]. rewrite IH. reflexivity. Qed.

(* ------------------------------------------------------------------ shape of the values read back *)
Lemma wf_starts_le_ends_in len vs : wf_vals len vs -> forall v : wvalue, In v vs -> ws v <= we v.
Proof.
  induction vs as [|w r IH]; intros Hwf v Hin; [destruct Hin|]. destruct Hin as [<-|Hin].
  - exact (proj1 (wf_head _ _ _ Hwf)).
  - exact (IH (wf_tail _ _ _ Hwf) v Hin).
Qed.

Lemma wf_kept_sorted num len (p : wvalue -> bool) : forall vs lo, wf_vals len vs ->
  (forall v, In v vs -> lo <= ws v) ->
  (forall v, In v vs -> p v = true -> ws v < we v) ->
  sorted_from lo (map (conv num) (filter p vs)) /\ end_from lo (map (conv num) (filter p vs)) <= N.max lo len.
Proof.
  induction vs as [|v r IH]; intros lo Hwf Hlo Hne; [cbn [filter map sorted_from end_from]; split; [exact I|lia]|].
  pose proof (wf_head _ _ _ Hwf) as [Hse Hel]. pose proof (wf_after_head _ _ _ Hwf) as Haft.
  rewrite Forall_forall in Haft.
  cbn [filter]. destruct (p v) eqn:Ep.
  - cbn [map sorted_from end_from]. unfold conv at 1 2 4. cbn [v_start v_end].
    pose proof (Hne v (or_introl eq_refl) Ep) as Hlt. pose proof (Hlo v (or_introl eq_refl)) as Hl.
    destruct (IH (we v) (wf_tail _ _ _ Hwf)) as [S E].
    { intros w Hw. exact (Haft w Hw). }
    { intros w Hw. apply Hne. now right. }
    split; [split; [exact Hl|split; [exact Hlt|exact S]]|].
    change (end_from lo (conv num v :: map (conv num) (filter p r))) with (end_from (v_end (conv num v)) (map (conv num) (filter p r))).
    unfold conv at 1. cbn [v_end]. lia.
  - destruct (IH lo (wf_tail _ _ _ Hwf)) as [S E].
    { intros w Hw. apply Hlo. now right. }
    { intros w Hw. apply Hne. now right. }
    split; [exact S|exact E].
Qed.

Lemma not_k1_nonempty len v : ws v <= we v -> (ws v = we v -> boundary_zero len v = true) -> not_k1 len v = true -> ws v < we v.
Proof.
  intros Hle Hz Hk. unfold not_k1 in Hk. destruct (N.eq_dec (ws v) (we v)) as [E|E]; [|lia].
  rewrite (Hz E) in Hk. discriminate Hk.
Qed.

(* zero-length values contain no base: dropping them changes no per-base value *)
Lemma sig_drop_empty num (p : wvalue -> bool) x : forall vs, (forall v, In v vs -> p v = false -> ws v = we v) ->
  sig (map (conv num) (filter p vs)) x = sig (map (conv num) vs) x.
Proof.
  induction vs as [|v r IH]; intros H; [reflexivity|]. cbn [filter]. destruct (p v) eqn:Ep.
  - cbn [map sig]. rewrite IH by (intros w Hw; apply H; now right). reflexivity.
  - cbn [map sig]. rewrite IH by (intros w Hw; apply H; now right).
    pose proof (H v (or_introl eq_refl) Ep) as E. unfold inb, conv. cbn [v_start v_end]. rewrite E.
    destruct (we v <=? x) eqn:A; [apply N.leb_le in A; assert (B : (x <? we v) = false) by (apply N.ltb_ge; lia); rewrite B|]; reflexivity.
Qed.

Lemma k1_is_empty len v : not_k1 len v = false -> ws v = we v.
Proof.
  unfold not_k1, boundary_zero. intros H. apply negb_false_iff in H. apply andb_true_iff in H as [H _]. now apply N.eqb_eq in H.
Qed.

(* ------------------------------------------------------------------ one written file through the front *)
Section OneFile.
Variables (fp : fpmode) (o : opts) (sizes : list (name * N)) (inp : list witem) (bs : list N).
Hypothesis Ho : opts_ok o.
Hypothesis Hi : input_ok sizes inp.
Hypothesis Hs : Nlen bs < U64.
Hypothesis Hw : bw_write fp o sizes inp = Ok bs \/ bw_write_multipass fp o sizes inp = Ok bs.

Lemma chrom_accepted c : In c (map fst inp) ->
  lookup c sizes = Some (len_of sizes c) /\ wf_vals (len_of sizes c) (vals_of inp c) /\ vals_of inp c <> [].
Proof.
  intros Hin.
  destruct (write_accepted fp o sizes inp bs Hw c _ (chrom_has_run inp c (write_grouped fp o sizes inp bs Hw) Hin))
    as (len & Hl & Hwf & Hne).
  unfold len_of. rewrite Hl. auto.
Qed.

(* the front's output on the written bytes IS the written data: chromosomes in first-appearance order with the supplied
   lengths, each with its values in input order, positions and bit patterns unchanged, minus K1 values *)
Theorem file_view_written num infl : file_view num infl bs = Ok (read_file num sizes inp).
Proof.
  destruct (roundtrip_read_info sizes inp bs (write_roundtrip_for fp o sizes inp bs Ho Hi Hs Hw)) as (i & Hri & _).
  unfold file_view. rewrite Hri. cbn [rbind].
  rewrite (on_input_chroms fp o sizes inp bs Ho Hi Hs Hw i Hri).
  unfold read_file. rewrite <- (number_names 0 (first_app (map fst inp))) at 2. rewrite (map_map fst).
  apply mapM_map_ok. intros [c id] Hin. cbn [fst].
  assert (Hc : In c (map fst inp)).
  { apply first_app_in. rewrite <- (number_names 0 (first_app (map fst inp))). apply in_map_iff. exists (c, id). auto. }
  destruct (chrom_accepted c Hc) as (Hl & _ & _).
  unfold file_chrom, ci_of. cbn [ci_name ci_len fst].
  rewrite (on_input_roundtrip fp o sizes inp bs Ho Hi Hs Hw i infl c _ Hri Hc Hl). reflexivity.
Qed.

(* under [zero_only_at_boundary] the streams are sorted, disjoint, non-empty values inside [0, length): C15's [chrom_ok] *)
Lemma read_file_ok num : zero_only_at_boundary sizes inp -> Forall chrom_ok (read_file num sizes inp).
Proof.
  intros Hz. unfold read_file. apply Forall_forall. intros ch Hin. apply in_map_iff in Hin as [c [<- Hc]].
  apply first_app_in in Hc. destruct (chrom_accepted c Hc) as (_ & Hwf & _).
  pose proof (Hz c Hc) as Hzc. rewrite Forall_forall in Hzc.
  destruct (wf_kept_sorted num (len_of sizes c) (not_k1 (len_of sizes c)) (vals_of inp c) 0 Hwf) as [S E].
  - intros v _. apply N.le_0_l.
  - intros v Hv Hk. pose proof (wf_starts_le_ends_in _ _ Hwf v Hv) as Hle.
    exact (not_k1_nonempty _ v Hle (Hzc v Hv) Hk).
  - unfold chrom_ok, read_chrom. cbn [fst snd]. split; [exact S|]. rewrite N.max_r in E by apply N.le_0_l. exact E.
Qed.
End OneFile.

(* ------------------------------------------------------------------ several written files *)
(* one input of the tool: how it was written *)
Record winput := { wi_fp : fpmode; wi_opts : opts; wi_sizes : list (name * N); wi_inp : list witem }.
(* [bs] is the byte image either writer returned for it, under C01's hypotheses *)
Definition written (w : winput) (bs : list N) : Prop :=
  opts_ok (wi_opts w) /\ input_ok (wi_sizes w) (wi_inp w) /\ Nlen bs < U64 /\
  (bw_write (wi_fp w) (wi_opts w) (wi_sizes w) (wi_inp w) = Ok bs \/
   bw_write_multipass (wi_fp w) (wi_opts w) (wi_sizes w) (wi_inp w) = Ok bs).
Definition orig_files (num : N -> Z) (wl : list winput) : list bwfile :=
  map (fun w => orig_file num (wi_sizes w) (wi_inp w)) wl.
Definition read_files (num : N -> Z) (wl : list winput) : list bwfile :=
  map (fun w => read_file num (wi_sizes w) (wi_inp w)) wl.
(* inputs that share a chromosome were written with the same length for it (in particular: one chrom.sizes for all) *)
Definition sizes_agree (wl : list winput) : Prop :=
  forall w1 w2 c, In w1 wl -> In w2 wl -> In c (map fst (wi_inp w1)) -> In c (map fst (wi_inp w2)) ->
    len_of (wi_sizes w1) c = len_of (wi_sizes w2) c.

Theorem tool_inputs_written num infl wl bss : Forall2 written wl bss ->
  tool_inputs_of_files num infl bss = Ok (read_files num wl).
Proof.
  intros H. unfold tool_inputs_of_files, read_files. apply mapM_Forall2_ok.
  induction H as [|w bs wl bss (Ho & Hi & Hs & Hw) _ IH]; [constructor|]. cbn [map]. constructor; [|exact IH].
  exact (file_view_written (wi_fp w) (wi_opts w) (wi_sizes w) (wi_inp w) bs Ho Hi Hs Hw num infl).
Qed.

Lemma read_files_ok num wl bss : Forall2 written wl bss ->
  Forall (fun w => zero_only_at_boundary (wi_sizes w) (wi_inp w)) wl -> files_ok (read_files num wl).
Proof.
  intros H. unfold files_ok, read_files. induction H as [|w bs wl bss (Ho & Hi & Hs & Hw) _ IH]; intros Hz; [constructor|].
  inversion Hz as [|? ? Hz1 Hz2]; subst. cbn [map]. constructor; [|exact (IH Hz2)].
  exact (read_file_ok (wi_fp w) (wi_opts w) (wi_sizes w) (wi_inp w) bs Hw num Hz1).
Qed.

(* ---- names ---- *)
Lemma bytes_eqb_eq : forall a b, bytes_eqb a b = true -> a = b.
Proof.
  induction a as [|x a IH]; intros [|y b] H; cbn [bytes_eqb] in H; try discriminate H; [reflexivity|].
  apply andb_true_iff in H as [H1 H2]. apply N.eqb_eq in H1. subst y. now rewrite (IH b H2).
Qed.

Lemma find_chrom_map nm (g : name -> bwchrom) : (forall c, fst (fst (g c)) = c) -> forall l,
  find_chrom nm (map g l) = option_map g (find (fun c => bytes_eqb c nm) l).
Proof.
  intros Hg. unfold find_chrom. induction l as [|c l IH]; [reflexivity|]. cbn [map find]. rewrite Hg.
  destruct (bytes_eqb c nm); [reflexivity|exact IH].
Qed.

Lemma find_name_eq nm l c : find (fun c : name => bytes_eqb c nm) l = Some c -> c = nm /\ In c l.
Proof. intros H. apply find_some in H as [H1 H2]. split; [exact (bytes_eqb_eq _ _ H2)|exact H1]. Qed.

(* ---- the per-base sum of what is read = the per-base sum of what was written ---- *)
Lemma ssum_ext x : forall A B, Forall2 (fun a b => sig a x = sig b x) A B -> ssum A x = ssum B x.
Proof. induction 1 as [|a b A B H _ IH]; [reflexivity|]. cbn [ssum]. now rewrite H, IH. Qed.

Lemma chrom_inputs_cons nm f files :
  chrom_inputs nm (f :: files) = (match find_chrom nm f with Some c => [snd c] | None => [] end) ++ chrom_inputs nm files.
Proof. reflexivity. Qed.

Lemma chrom_inputs_read_orig num nm x : forall wl,
  Forall2 (fun a b => sig a x = sig b x) (chrom_inputs nm (read_files num wl)) (chrom_inputs nm (orig_files num wl)).
Proof.
  induction wl as [|w wl IH]; [constructor|]. unfold read_files, orig_files in *. cbn [map].
  rewrite !chrom_inputs_cons. unfold read_file, orig_file.
  rewrite (find_chrom_map nm (read_chrom num (wi_sizes w) (wi_inp w)) (fun c => eq_refl)).
  rewrite (find_chrom_map nm (orig_chrom num (wi_sizes w) (wi_inp w)) (fun c => eq_refl)).
  match goal with |- context [find ?f ?l] => destruct (find f l) as [c|] end; cbn [option_map app]; [|exact IH].
  constructor; [|exact IH]. unfold read_chrom, orig_chrom. cbn [snd].
  apply sig_drop_empty. intros v _ Hk. exact (k1_is_empty _ v Hk).
Qed.

Lemma expected_read_orig num wl nm thr adj clip x :
  tool_expected (chrom_inputs nm (read_files num wl)) thr adj clip x =
  tool_expected (chrom_inputs nm (orig_files num wl)) thr adj clip x.
Proof. unfold tool_expected. now rewrite (ssum_ext x _ _ (chrom_inputs_read_orig num nm x wl)). Qed.

(* ---- no size mismatch when the lengths agree ---- *)
Definition lens_agree (nm : list N) (files : list bwfile) : Prop :=
  forall f1 f2 c1 c2, In f1 files -> In f2 files -> find_chrom nm f1 = Some c1 -> find_chrom nm f2 = Some c2 ->
    snd (fst c1) = snd (fst c2).

Lemma chrom_files_no_err nm : forall files size acc, lens_agree nm files ->
  (forall all f c, size = Some all -> In f files -> find_chrom nm f = Some c -> all = snd (fst c)) ->
  forall e, chrom_files nm files size acc <> Err e.
Proof.
  induction files as [|f more IH]; intros size acc Ha Hsz e; cbn [chrom_files]; [discriminate|].
  assert (Ha' : lens_agree nm more).
  { intros f1 f2 c1 c2 H1 H2. apply Ha; now right. }
  destruct (find_chrom nm f) as [[[n len] vs]|] eqn:Ef.
  - destruct size as [all|].
    + pose proof (Hsz all f _ eq_refl (or_introl eq_refl) Ef) as Eall. cbn [fst snd] in Eall. subst len.
      rewrite N.eqb_refl. cbn [negb].
      apply IH; [exact Ha'|]. intros a f' c' E Hf' Hc'. apply (Hsz a f' c' E); [now right|exact Hc'].
    + apply IH; [exact Ha'|]. intros a f' c' E Hf' Hc'. inversion E; subst a.
      exact (Ha f f' _ c' (or_introl eq_refl) (or_intror Hf') Ef Hc').
  - apply IH; [exact Ha'|]. intros a f' c' E Hf' Hc'. apply (Hsz a f' c' E); [now right|exact Hc'].
Qed.

Lemma chrom_table_no_err files : (forall nm, lens_agree nm files) -> forall names m e, chrom_table names files m <> Err e.
Proof.
  intros Ha. induction names as [|nm more IH]; intros m e; cbn [chrom_table]; [discriminate|].
  destruct (bt_has nm m); [apply IH|].
  assert (Hn : forall e', chrom_files nm files None [] <> Err e').
  { apply chrom_files_no_err; [exact (Ha nm)|]. intros a f c E. discriminate E. }
  destruct (chrom_files nm files None []) as [[[size|] bws]|c| |]; try discriminate; [apply IH|].
  exfalso. exact (Hn c eq_refl).
Qed.

Lemma find_chrom_read num sizes inp nm c : find_chrom nm (read_file num sizes inp) = Some c ->
  c = read_chrom num sizes inp nm /\ In nm (map fst inp).
Proof.
  unfold read_file. rewrite (find_chrom_map nm (read_chrom num sizes inp) (fun c => eq_refl)).
  match goal with |- context [find ?f ?l] => destruct (find f l) as [a|] eqn:F end; cbn [option_map]; [|discriminate].
  intros E. inversion E; subst c. destruct (find_name_eq _ _ _ F) as [-> I]. split; [reflexivity|exact (first_app_in _ _ I)].
Qed.

Lemma read_files_lens_agree num wl : sizes_agree wl -> forall nm, lens_agree nm (read_files num wl).
Proof.
  intros Hag nm f1 f2 c1 c2 H1 H2 E1 E2. unfold read_files in H1, H2.
  apply in_map_iff in H1 as [w1 [<- Hw1]]. apply in_map_iff in H2 as [w2 [<- Hw2]].
  apply find_chrom_read in E1 as [-> I1]. apply find_chrom_read in E2 as [-> I2].
  unfold read_chrom. cbn [fst snd]. apply Hag; assumption.
Qed.

(* ------------------------------------------------------------------ the whole tool on written files *)
(* what the output must carry at base x of chromosome [nm]: C15's [tool_expected] of the ORIGINAL data *)
Definition expected_of_inputs (num : N -> Z) (wl : list winput) (nm : list N) (thr : Z) (adj clip : option Z) (x : N) : option Z :=
  tool_expected (chrom_inputs nm (orig_files num wl)) thr adj clip x.
Definition out_ok_orig num wl thr adj clip (e : chrom_entry) (out : list value) : Prop :=
  sorted_from 0 out /\ forall x, sig out x = expected_of_inputs num wl (fst (fst e)) thr adj clip x.

Theorem tool_files W maxfds num infl wl bss thr adj clip ty name :
  0 < W -> (2 <= maxfds)%nat -> Forall2 written wl bss ->
  Forall (fun w => zero_only_at_boundary (wi_sizes w) (wi_inp w)) wl ->
  let files := read_files num wl in
  tool_inputs_of_files num infl bss = Ok files /\
  (forall f c, In f files -> In c f -> query (snd c) 0 (snd (fst c)) = snd c) /\
  ((exists table,
      chrom_table (all_names files) files [] = Ok table /\
      Forall (fun e => snd e = chrom_inputs (fst (fst e)) files) table /\
      (forall w c, In w wl -> In c (map fst (wi_inp w)) -> bt_has c table = true) /\
      match detect_output ty name with
      | None => tool_run_files W maxfds num infl bss thr adj clip ty name = Ok None
      | Some t => exists outs,
          tool_run_files W maxfds num infl bss thr adj clip ty name = Ok (Some (t, rows_spec table outs)) /\
          Forall2 (out_ok_orig num wl thr adj clip) table outs
      end)
   \/ (chrom_table (all_names files) files [] = Err 1 /\
       tool_run_files W maxfds num infl bss thr adj clip ty name = Err 1 /\ ~ sizes_agree wl)).
Proof.
  intros HW Hk Hwr Hz files.
  pose proof (tool_inputs_written num infl wl bss Hwr) as Hin. fold files in Hin.
  pose proof (read_files_ok num wl bss Hwr Hz) as Hok. fold files in Hok.
  split; [exact Hin|]. split.
  { intros f c Hf Hc. unfold files_ok in Hok. rewrite Forall_forall in Hok. pose proof (Hok f Hf) as Hfo.
    rewrite Forall_forall in Hfo. destruct (Hfo c Hc) as [S E]. exact (query_all _ _ 0 S E). }
  assert (Erun : tool_run_files W maxfds num infl bss thr adj clip ty name = tool_run W maxfds files thr adj clip ty name).
  { unfold tool_run_files. rewrite Hin. reflexivity. }
  rewrite Erun.
  destruct (tool_run_ok W maxfds files thr adj clip ty name HW Hk Hok) as [(table & Ht & Hent & Hhas & Hrun)|[Ht Hrun]].
  - left. exists table. split; [exact Ht|]. split.
    { eapply Forall_impl; [|exact Hent]. intros e He. exact (proj1 He). }
    split.
    { intros w c Hw Hc. apply (Hhas (read_file num (wi_sizes w) (wi_inp w)) (read_chrom num (wi_sizes w) (wi_inp w) c)).
      - unfold files, read_files. apply in_map_iff. exists w. auto.
      - unfold read_file. apply in_map_iff. exists c. split; [reflexivity|]. exact (in_first_app c _ Hc). }
    destruct (detect_output ty name) as [t|]; [|exact Hrun].
    destruct Hrun as (outs & Hr & Hall). exists outs. split; [exact Hr|].
    clear Hr Ht Hhas. induction Hall as [|e out table outs [So Go] _ IH]; [constructor|].
    inversion Hent as [|? ? [He _] Hent']; subst. constructor; [|exact (IH Hent')].
    split; [exact So|]. intros x. rewrite (Go x), He. unfold expected_of_inputs, files. apply expected_read_orig.
  - right. split; [exact Ht|]. split; [exact Hrun|]. intros Hag.
    exact (chrom_table_no_err files (read_files_lens_agree num wl Hag) _ _ 1 Ht).
Qed.

(* with agreeing lengths (e.g. all inputs written against the same chrom.sizes) there is no error case *)
Corollary tool_files_sizes_agree W maxfds num infl wl bss thr adj clip ty name :
  0 < W -> (2 <= maxfds)%nat -> Forall2 written wl bss ->
  Forall (fun w => zero_only_at_boundary (wi_sizes w) (wi_inp w)) wl -> sizes_agree wl ->
  exists table,
    chrom_table (all_names (read_files num wl)) (read_files num wl) [] = Ok table /\
    (forall w c, In w wl -> In c (map fst (wi_inp w)) -> bt_has c table = true) /\
    match detect_output ty name with
    | None => tool_run_files W maxfds num infl bss thr adj clip ty name = Ok None
    | Some t => exists outs,
        tool_run_files W maxfds num infl bss thr adj clip ty name = Ok (Some (t, rows_spec table outs)) /\
        Forall2 (out_ok_orig num wl thr adj clip) table outs
    end.
Proof.
  intros HW Hk Hwr Hz Hag.
  destruct (tool_files W maxfds num infl wl bss thr adj clip ty name HW Hk Hwr Hz) as (_ & _ & [(table & Ht & _ & Hhas & Hrun)|(_ & _ & Hn)]).
  - exists table. auto.
  - exfalso. exact (Hn Hag).
Qed.

Lemma same_sizes_agree sizes wl : Forall (fun w => wi_sizes w = sizes) wl -> sizes_agree wl.
Proof.
  intros H w1 w2 c H1 H2 _ _. rewrite Forall_forall in H. now rewrite (H w1 H1), (H w2 H2).
Qed.

(* ------------------------------------------------------------------ a computed instance
   Two inputs written against the same chrom.sizes (a: 20, b: 9), one by each writer, items_per_slot = 2.
   Input 1: a [0,10) = 1.5, a [20,20) = 1.0 (zero length at the chromosome end: K1, written, never read), b [1,3) = 1.0;
   input 2: a [0,0) = 1.0 (K1), a [5,12) = -1.5; chromosome b is missing from it.
   Everything below is evaluated: writer models -> bytes -> read_info -> chromosome table -> index search -> blocks ->
   merge tool (W = 4, descriptor budget 2, threshold 0, name "out.bedGraph").  On "a" the sum is 1.5 on [0,5) (split at
   the window boundary 4), 0 on [5,10) (absent) and -1.5 on [10,12) (not above the threshold). *)
From BT Require Model.Entry_C15.
Definition mf_num (b : N) : Z := match Entry_C15.eighths_of_bits b with Some z => z | None => 0%Z end.
Definition mf_opts : opts :=
  {| o_compress := false; o_ips := 2; o_bs := 2; o_izoom := 10; o_maxzooms := 2; o_manual := None; o_sort_all := true |}.
Definition mf_sizes : list (name * N) := [([97], 20); ([98], 9)].
Definition mf_v (a b bits : N) : wvalue := {| BigWigWrite.v_start := a; BigWigWrite.v_end := b; BigWigWrite.v_bits := bits |}.
Definition mf_in1 : list witem := [([97], mf_v 0 10 1069547520); ([97], mf_v 20 20 1065353216); ([98], mf_v 1 3 1065353216)].
Definition mf_in2 : list witem := [([97], mf_v 0 0 1065353216); ([97], mf_v 5 12 3217031168)].
Definition mf_w1 : winput := {| wi_fp := ieee; wi_opts := mf_opts; wi_sizes := mf_sizes; wi_inp := mf_in1 |}.
Definition mf_w2 : winput := {| wi_fp := ieee; wi_opts := mf_opts; wi_sizes := mf_sizes; wi_inp := mf_in2 |}.
Definition mf_bs1 : list N := match bw_write ieee mf_opts mf_sizes mf_in1 with Ok b => b | _ => [] end.
Definition mf_bs2 : list N := match bw_write_multipass ieee mf_opts mf_sizes mf_in2 with Ok b => b | _ => [] end.
Definition mf_out_name : list N := [111; 117; 116; 46; 98; 101; 100; 71; 114; 97; 112; 104].

Example tool_files_example :
  Forall2 written [mf_w1; mf_w2] [mf_bs1; mf_bs2] /\
  Forall (fun w => zero_only_at_boundary (wi_sizes w) (wi_inp w)) [mf_w1; mf_w2] /\
  sizes_agree [mf_w1; mf_w2] /\
  tool_inputs_of_files mf_num (fun x => x) [mf_bs1; mf_bs2] =
    Ok [[([97], 20, [mkV 0 10 12%Z]); ([98], 9, [mkV 1 3 8%Z])]; [([97], 20, [mkV 5 12 (-12)%Z])]] /\
  orig_files mf_num [mf_w1; mf_w2] =
    [[([97], 20, [mkV 0 10 12%Z; mkV 20 20 8%Z]); ([98], 9, [mkV 1 3 8%Z])]; [([97], 20, [mkV 0 0 8%Z; mkV 5 12 (-12)%Z])]] /\
  tool_run_files 4 2 mf_num (fun x => x) [mf_bs1; mf_bs2] 0 None None None mf_out_name =
    Ok (Some (OBedGraph, [([97], mkV 0 4 12%Z); ([97], mkV 4 5 12%Z); ([98], mkV 1 3 8%Z)])).
Proof.
  assert (W1 : written mf_w1 mf_bs1).
  { unfold written, mf_w1, mf_w2. cbn [wi_fp wi_opts wi_sizes wi_inp].
    split; [unfold opts_ok; cbn; lia|]. split.
    - unfold input_ok. assert (Hr : BigWigWrite.runs mf_in1 = [([97], [mf_v 0 10 1069547520; mf_v 20 20 1065353216]); ([98], [mf_v 1 3 1065353216])]) by reflexivity.
      rewrite Hr. cbn [map fst].
      repeat match goal with |- _ /\ _ => split end;
        first [ reflexivity
              | unfold mf_sizes, mf_in1, mf_v; cbn [map app]; repeat constructor; try discriminate; reflexivity ].
    - split; [vm_compute; reflexivity|left; vm_compute; reflexivity]. }
  assert (W2 : written mf_w2 mf_bs2).
  { unfold written, mf_w1, mf_w2. cbn [wi_fp wi_opts wi_sizes wi_inp].
    split; [unfold opts_ok; cbn; lia|]. split.
    - unfold input_ok. assert (Hr : BigWigWrite.runs mf_in2 = [([97], [mf_v 0 0 1065353216; mf_v 5 12 3217031168])]) by reflexivity.
      rewrite Hr. cbn [map fst].
      repeat match goal with |- _ /\ _ => split end;
        first [ reflexivity
              | unfold mf_sizes, mf_in2, mf_v; cbn [map app]; repeat constructor; try discriminate; reflexivity ].
    - split; [vm_compute; reflexivity|right; vm_compute; reflexivity]. }
  split; [constructor; [exact W1|constructor; [exact W2|constructor]]|]. split.
  { repeat constructor; unfold mf_w1, mf_w2; cbn [wi_sizes wi_inp]; intros c Hc; cbn in Hc;
      repeat match goal with H : _ \/ _ |- _ => destruct H as [<-|H] end; try contradiction;
      match goal with |- Forall _ ?l => let l' := eval vm_compute in l in change l with l' end;
      repeat constructor; intros E; first [discriminate E|vm_compute; reflexivity]. }
  split; [apply (same_sizes_agree mf_sizes); repeat constructor|].
  split; [vm_compute; reflexivity|]. split; vm_compute; reflexivity.
Qed.
