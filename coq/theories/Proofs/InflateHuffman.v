(* Spec/Inflate.v: the decoding tree built from a list of code lengths decodes exactly the canonical code of
   RFC 1951 3.2.2 (shorter codes first, symbols of one length in increasing order taking consecutive values);
   consequently that code is prefix free. *)
From BT Require Import Base.Util Base.LE Spec.Inflate Proofs.InflateFuel.
Local Open Scope N_scope.

(* ---------- inserting a code word ---------- *)
Lemma get_bit_cons b bits rest : get_bit (b :: bits, rest) = Ok (b, (bits, rest)).
Proof. reflexivity. Qed.

Lemma hinsert_decodes bits : forall sym t u r rest,
  hinsert bits sym t = Some u -> hwalk u (bits ++ r, rest) = Ok (sym, (r, rest)).
Proof.
  induction bits as [|b bits IH]; intros sym t u r rest H; cbn [hinsert] in H.
  - destruct t; try discriminate. inversion H; subst. reflexivity.
  - destruct t as [|x|z o]; try discriminate.
    + destruct (hinsert bits sym HEmpty) as [v|] eqn:E; [|discriminate]. inversion H; subst.
      destruct b; cbn [hwalk app]; rewrite get_bit_cons; cbn [rbind]; eapply IH; eassumption.
    + destruct b.
      * destruct (hinsert bits sym o) as [v|] eqn:E; [|discriminate]. inversion H; subst.
        cbn [hwalk app]. rewrite get_bit_cons. cbn [rbind]. eapply IH; eassumption.
      * destruct (hinsert bits sym z) as [v|] eqn:E; [|discriminate]. inversion H; subst.
        cbn [hwalk app]. rewrite get_bit_cons. cbn [rbind]. eapply IH; eassumption.
Qed.

(* what the tree decoded before, it still decodes *)
Lemma hinsert_extends bits : forall sym t u, hinsert bits sym t = Some u ->
  forall s x, hwalk t s = Ok x -> hwalk u s = Ok x.
Proof.
  induction bits as [|b bits IH]; intros sym t u H s x Hw; cbn [hinsert] in H.
  - destruct t; discriminate.
  - destruct t as [|y|z o]; try discriminate.
    cbn [hwalk] in Hw. apply rbind_ok in Hw as ([c s1] & H1 & Hw).
    destruct b.
    + destruct (hinsert bits sym o) as [v|] eqn:E; [|discriminate]. inversion H; subst.
      cbn [hwalk]. rewrite H1. cbn [rbind]. destruct c; [eapply IH; eassumption|exact Hw].
    + destruct (hinsert bits sym z) as [v|] eqn:E; [|discriminate]. inversion H; subst.
      cbn [hwalk]. rewrite H1. cbn [rbind]. destruct c; [exact Hw|eapply IH; eassumption].
Qed.

(* ---------- counting lengths ---------- *)
Lemma count_len_acc lens l : forall c, fold_left (fun c x => if x =? l then c + 1 else c) lens c = c + count_len lens l.
Proof.
  unfold count_len. induction lens as [|x r IH]; intros c; cbn [fold_left]; [lia|].
  rewrite IH. rewrite (IH (if x =? l then 0 + 1 else 0)). destruct (x =? l); lia.
Qed.
Lemma count_len_cons x r l : count_len (x :: r) l = (if x =? l then 1 else 0) + count_len r l.
Proof. unfold count_len at 1. cbn [fold_left]. rewrite count_len_acc. destruct (x =? l); lia. Qed.

(* ---------- the table of next codes ---------- *)
Lemma nth_error_upd_same l : forall i v x, nth_error l i = Some x -> nth_error (upd l i v) i = Some v.
Proof.
  induction l as [|y r IH]; intros i v x H; destruct i; cbn [nth_error upd] in *; try discriminate; [reflexivity|].
  eapply IH; eassumption.
Qed.
Lemma nth_error_upd_other l : forall i j v, i <> j -> nth_error (upd l i v) j = nth_error l j.
Proof.
  induction l as [|y r IH]; intros i j v H; destruct i, j; cbn [nth_error upd]; try reflexivity; try congruence.
  apply IH. congruence.
Qed.

(* ---------- the assignment loop ---------- *)
(* the symbol at position j of [lens] (symbol number sym + j) of non-zero length l is decoded from the l-bit code
   next[l-1] + (number of earlier positions with the same length) *)
Lemma assign_decodes lens : forall sym next t u, assign lens sym next t = Some u ->
  (forall s x, hwalk t s = Ok x -> hwalk u s = Ok x)
  /\ forall j l, nth_error lens j = Some l -> l <> 0 ->
     exists code, nth_error next (N.to_nat (l - 1)) = Some code
       /\ forall r rest, hwalk u (code_bits (N.to_nat l) (code + count_len (firstn j lens) l) ++ r, rest)
                         = Ok (sym + N.of_nat j, (r, rest)).
Proof.
  induction lens as [|l0 lens IH]; intros sym next t u H; cbn [assign] in H.
  - inversion H; subst. split; [auto|]. intros j l Hj. destruct j; discriminate.
  - destruct (N.eqb_spec l0 0) as [E0|E0].
    + destruct (IH _ _ _ _ H) as [Hext Hdec]. split; [exact Hext|].
      intros j l Hj Hl. destruct j as [|j]; cbn [nth_error] in Hj; [inversion Hj; subst; contradiction|].
      destruct (Hdec j l Hj Hl) as (code & Hc & Hw). exists code. split; [exact Hc|]. intros r rest.
      cbn [firstn]. rewrite count_len_cons. destruct (N.eqb_spec l0 l) as [E|E]; [subst; contradiction|].
      rewrite N.add_0_l, Hw. f_equal. f_equal. lia.
    + destruct (nth_error next (N.to_nat (l0 - 1))) as [code0|] eqn:En; [|discriminate].
      destruct (hinsert (code_bits (N.to_nat l0) code0) sym t) as [t1|] eqn:Ei; [|discriminate].
      destruct (IH _ _ _ _ H) as [Hext Hdec]. split.
      { intros s x Hs. apply Hext. eapply hinsert_extends; eassumption. }
      intros j l Hj Hl. destruct j as [|j]; cbn [nth_error] in Hj.
      * inversion Hj; subst l. exists code0. split; [exact En|]. intros r rest.
        cbn [firstn]. change (count_len [] l0) with 0. rewrite !N.add_0_r.
        apply Hext. eapply hinsert_decodes; eassumption.
      * destruct (Hdec j l Hj Hl) as (code & Hc & Hw).
        destruct (N.eqb_spec l0 l) as [E|E].
        -- subst l. rewrite (nth_error_upd_same _ _ _ _ En) in Hc. inversion Hc; subst code.
           exists code0. split; [exact En|]. intros r rest. cbn [firstn]. rewrite count_len_cons, N.eqb_refl.
           replace (code0 + (1 + count_len (firstn j lens) l0)) with (code0 + 1 + count_len (firstn j lens) l0) by lia.
           rewrite Hw. f_equal. f_equal. lia.
        -- rewrite nth_error_upd_other in Hc by lia. exists code. split; [exact Hc|]. intros r rest.
           cbn [firstn]. rewrite count_len_cons. destruct (N.eqb_spec l0 l) as [E'|_]; [contradiction|].
           rewrite N.add_0_l, Hw. f_equal. f_equal. lia.
Qed.

(* ---------- the canonical code of RFC 1951 3.2.2 ---------- *)
(* next_code[l] as computed in step 2, plus the number of smaller symbols of the same length (step 3) *)
Definition canonical_code (lens : list N) (sym : nat) : N :=
  let l := nth sym lens 0 in
  nth (N.to_nat (l - 1)) (first_codes all_lengths lens 0 0) 0 + count_len (firstn sym lens) l.

Theorem build_decodes_canonical kind bad lens t : build kind bad lens = Ok t ->
  forall sym l, nth_error lens sym = Some l -> l <> 0 ->
  forall r rest, hwalk t (code_bits (N.to_nat l) (canonical_code lens sym) ++ r, rest) = Ok (N.of_nat sym, (r, rest)).
Proof.
  unfold build. intros H sym l Hs Hl r rest.
  destruct (fold_left N.max lens 0 =? 0) eqn:Emax.
  { (* all lengths are zero: no symbol has a code *)
    exfalso. apply N.eqb_eq in Emax.
    assert (G : forall (ls : list N) a, In l ls -> l <= fold_left N.max ls a).
    { induction ls as [|y ys IH]; intros a Hin; [destruct Hin|]. cbn [fold_left]. destruct Hin as [->|Hin].
      - clear IH. assert (M : forall (zs : list N) b, b <= fold_left N.max zs b).
        { induction zs as [|z zs IHz]; intros b; cbn [fold_left]; [lia|]. specialize (IHz (N.max b z)). lia. }
        specialize (M ys (N.max a l)). lia.
      - apply IH. exact Hin. }
    specialize (G lens 0 (nth_error_In _ _ Hs)). lia. }
  destruct (kraft_left all_lengths lens 1) as [lft|]; [|discriminate].
  destruct ((0 <? lft) && _); [discriminate|].
  destruct (assign lens 0 (first_codes all_lengths lens 0 0) HEmpty) as [u|] eqn:Ea; [|discriminate].
  inversion H; subst u.
  destruct (assign_decodes _ _ _ _ _ Ea) as [_ Hdec].
  destruct (Hdec sym l Hs Hl) as (code & Hc & Hw).
  unfold canonical_code. rewrite (nth_error_nth _ _ 0 Hs). rewrite (nth_error_nth _ _ 0 Hc).
  rewrite Hw. rewrite N.add_0_l. reflexivity.
Qed.

(* the canonical code is prefix free: no code word is the beginning of another symbol's code word *)
Theorem canonical_prefix_free kind bad lens t : build kind bad lens = Ok t ->
  forall s1 s2 l1 l2 tail, nth_error lens s1 = Some l1 -> nth_error lens s2 = Some l2 -> l1 <> 0 -> l2 <> 0 ->
  code_bits (N.to_nat l1) (canonical_code lens s1) ++ tail = code_bits (N.to_nat l2) (canonical_code lens s2) ->
  s1 = s2.
Proof.
  intros H s1 s2 l1 l2 tail H1 H2 L1 L2 E.
  pose proof (build_decodes_canonical kind bad lens t H s1 l1 H1 L1 tail []) as D1.
  pose proof (build_decodes_canonical kind bad lens t H s2 l2 H2 L2 [] []) as D2.
  rewrite app_nil_r in D2. rewrite E, D2 in D1. inversion D1. lia.
Qed.

(* decoding is a function of the stream: whatever symbol a tree yields, it yields no other (trivial for a tree,
   stated for the record), and it never reads past the code word *)
Theorem decode_sym_consumes t s sym s1 : decode_sym t s = Ok (sym, s1) -> (blen s1 < blen s)%nat.
Proof. exact (decode_sym_len t s sym s1). Qed.

(* the first code of each length, as the RFC computes it *)
Example first_codes_rfc_example :
  (* RFC 1951 3.2.2: lengths (3,3,3,3,3,2,4,4) give next_code 2 -> 0, 3 -> 2, 4 -> 14 and codes 010..110,00,1110,1111 *)
  let lens := [3; 3; 3; 3; 3; 2; 4; 4] in
  firstn 4 (first_codes all_lengths lens 0 0) = [0; 0; 2; 14]
  /\ map (canonical_code lens) (seq 0 8) = [2; 3; 4; 5; 6; 0; 14; 15].
Proof. vm_compute. split; reflexivity. Qed.
