(* C13, composition of the PARALLEL source built from the real slicing with the FILE models.

   Ingredients:
   - C18's [parallel_source_eq_serial] (Proofs/SliceStreamsAccept.v): for a non-empty grouped text
     whose lines the indexer's parse_line accepts, [index_chroms] answers [Ok (Some ix)], the
     readers [par_streams] opened on the FileViews of the index entries (window [off_i, off_{i+1}),
     the last to u64::MAX) return [Ok] of the raw lines of run i, and the tasks (chromosome of
     entry i, parsed lines of reader i) are exactly [line_runs (bw_lines fok text)] resp.
     [line_runs (bb_lines text)], i.e. what C13's [parallel] model of
     BedParserParallelStreamingIterator consumes; it returns Ok iff the serial source does.
   - C13's text theorem ([serial_parsed]): when every line parses, the serial source's verdict is
     the rule verdict of the parsed items.
   - C13's file theorems: [bw_write_verdict] / [bw_write_multipass_verdict] + [collect_verdict]
     (bigWig, inside the option guards) and [bb_accept_iff_file] (bigBed, no hypothesis).

   Result: the verdict of the writer fed by the parallel source over index + views
     - is Ok exactly when the byte-exact file model [bw_write] / [bw_write_multipass]
       (resp. [bb_write] / [bb_write_multipass]) on the parsed items returns a file,
     - is an error value (never Panic, never Fuel) whenever the file model's verdict, or the
       serial source's verdict on the text, is an error.
   The error CLASS is not claimed to be equal: the parallel source runs the order / size-table /
   split checks of up to five runs ahead when it queues them, before it collects any task's
   result, so it may report the class of a later item ([parallel_class_may_differ] below).

   The writer "fed by the parallel source": for bigWig inside the option guards nothing in front
   of or behind the source can fail (Proofs/WriterTotal.v), so its verdict is the source's; for
   bigBed the option guard (class 80) and the NUL test on the autoSql text (class 43) come first:
   [bb_front o autosql (parallel ..)], the same front [bb_file_rule] has. *)
From BT Require Import Base.Util Base.Float Model.RTree Model.BBIFile Model.BigWigWrite Model.Accept
  Model.AcceptBed Proofs.AcceptRules Proofs.AcceptParallel Proofs.WriterTotal Proofs.WriterTotalBed.
From BT Require Model.BigBedWrite.
From BT Require Import Model.FileView Model.Chunker Model.Indexer.
From BT Require Import Proofs.SliceStreams Proofs.SliceStreamsIndex Proofs.SliceStreamsAccept.
Local Open Scope N_scope.

(* verdict of the bigBed writer fed by a source whose verdict is [r] *)
Definition bb_fed (o : opts) (autosql : option (list N)) (r : res unit) : res unit := bb_front o autosql r.

(* ------------------------------------------------------------------ small facts *)
Lemma plain_not_ok (r : res unit) : plain r -> r <> Ok tt -> exists k, r = Err k.
Proof. intros [H|H] Hn; [contradiction|exact H]. Qed.

Lemma bw_parallel_plain fok o sizes text : plain (bw_text_parallel fok o sizes text).
Proof.
  unfold bw_text_parallel.
  rewrite (parallel_ext check_val (chk_of bw_val_class) check_val_class). apply parallel_plain.
Qed.
Lemma bb_parallel_plain o sizes text : plain (bb_text_parallel o sizes text).
Proof.
  unfold bb_text_parallel.
  rewrite (parallel_ext bb_check_val (chk_of bb_val_class) bb_check_val_class). apply parallel_plain.
Qed.

Lemma bb_front_plain o autosql r : plain r -> plain (bb_front o autosql r).
Proof.
  intros Hr. unfold bb_front. destruct (negb (opts_ok o)); [right; eexists; reflexivity|].
  destruct (has_nul (schema_text autosql)); [right; eexists; reflexivity|exact Hr].
Qed.
Lemma bb_front_ok_iff o autosql r r' : (r = Ok tt <-> r' = Ok tt) ->
  (bb_front o autosql r = Ok tt <-> bb_front o autosql r' = Ok tt).
Proof.
  intros H. unfold bb_front. destruct (negb (opts_ok o)); [tauto|].
  destruct (has_nul (schema_text autosql)); [tauto|exact H].
Qed.

(* the bigWig file model's verdict on parsed items = the serial source's verdict on the text *)
Lemma bw_file_verdict_text fp fok o sizes text items : opts_ok o = true ->
  all_ok (bw_lines fok text) = Some items ->
  verdict (bw_write fp o sizes items) = bw_text_serial fok o sizes text /\
  verdict (bw_write_multipass fp o sizes items) = bw_text_serial fok o sizes text /\
  bw_text_serial fok o sizes text = rule_verdict bw_val_class (o_sort_all o) sizes items.
Proof.
  intros Ho Hp.
  assert (Hi : 0 < o_ips o) by (apply opts_ok_spec in Ho; lia).
  assert (Hs : bw_text_serial fok o sizes text = rule_verdict bw_val_class (o_sort_all o) sizes items).
  { unfold bw_text_serial. rewrite (serial_ext check_val (chk_of bw_val_class) check_val_class).
    apply serial_parsed. exact Hp. }
  assert (Hc : verdict (bw_collect fp o sizes items) = rule_verdict bw_val_class (o_sort_all o) sizes items).
  { rewrite (collect_verdict fp o sizes items Hi).
    rewrite (serial_ext check_val (chk_of bw_val_class) check_val_class). apply serial_rule. }
  rewrite (bw_write_verdict fp o sizes items Ho), (bw_write_multipass_verdict fp o sizes items Ho), Hc, Hs.
  repeat split; reflexivity.
Qed.

(* the bigBed file model's verdict on entries whose (chromosome, start, end) are the parsed lines *)
Lemma bb_file_verdict_text fp o sizes autosql text input :
  all_ok (bb_lines text) = Some (bb_items input) ->
  verdict (BigBedWrite.bb_write fp o sizes autosql input) = bb_front o autosql (bb_text_serial o sizes text) /\
  verdict (BigBedWrite.bb_write_multipass fp o sizes autosql input) = bb_front o autosql (bb_text_serial o sizes text) /\
  bb_front o autosql (bb_text_serial o sizes text) = bb_file_rule o sizes autosql (bb_items input).
Proof.
  intros Hp.
  assert (Hs : bb_text_serial o sizes text = rule_verdict bb_val_class (o_sort_all o) sizes (bb_items input)).
  { unfold bb_text_serial. rewrite (serial_ext bb_check_val (chk_of bb_val_class) bb_check_val_class).
    apply serial_parsed. exact Hp. }
  destruct (bb_accept_iff_file fp o sizes autosql input) as (H1 & H2 & _).
  rewrite H1, H2, Hs. unfold bb_file_rule. repeat split; reflexivity.
Qed.

(* every BED line the indexer's parse_line accepts parses: the items exist, and entries with those
   coordinates exist (any rest fields) *)
Lemma bed_key_parsed cid l : bed_key cid l <> 0 -> exists se, snd (parse_bed_line l) = POk se.
Proof. unfold bed_key. destruct (snd (parse_bed_line l)) as [e|se]; [congruence|eauto]. Qed.

Lemma all_ok_map_parsed cid : forall ls, (forall l, In l ls -> bed_key cid l <> 0) ->
  exists items, all_ok (map bb_parse ls) = Some items.
Proof.
  induction ls as [|x r IH]; intros Hk; [exists []; reflexivity|].
  destruct IH as [t Ht]; [intros l Hl; apply Hk; right; exact Hl|].
  destruct (bed_key_parsed cid x (Hk x (or_introl eq_refl))) as [se Hse].
  exists ((chrom_of x, mk_entry se) :: t). cbn [map all_ok].
  unfold bb_parse at 1, map_pline. rewrite Hse. fold (chrom_of x). rewrite Ht. reflexivity.
Qed.

Definition with_rest (it : name * Accept.entry) : BigBedWrite.bitem :=
  (fst it, {| BigBedWrite.e_start := Accept.e_start (snd it); BigBedWrite.e_end := Accept.e_end (snd it);
              BigBedWrite.e_rest := [] |}).
Lemma bb_items_with_rest items : bb_items (map with_rest items) = items.
Proof.
  unfold bb_items. rewrite map_map. rewrite <- (map_id items) at 2. apply map_ext.
  intros [c [s e]]. reflexivity.
Qed.

(* ------------------------------------------------------------------ bedGraph -> bigWig *)
Theorem parallel_text_file_verdict : forall (cid : name -> N) fok fp o sizes (text : list N) (lim : nat)
    (sz : nat -> nat -> N) (fuel : nat),
  let key := bed_key cid in
  opts_ok o = true ->
  text <> [] ->
  (forall l, In l (split_lines text) -> key l <> 0) ->
  (forall l1 l2, In l1 (split_lines text) -> In l2 (split_lines text) ->
     cid (chrom_of l1) = cid (chrom_of l2) -> chrom_of l1 = chrom_of l2) ->
  grouped (lfile key text) ->
  Nlen text * Nlen text < 2 ^ N.of_nat lim -> Nlen text < 2 ^ 63 ->
  (forall i k, 1 <= sz i k) -> (length text < fuel)%nat ->
  exists ix streams,
    index_chroms (S lim) (lfile key text) = Ok (Some ix) /\
    par_streams fuel text sz ix = map Ok streams /\
    tasks (bw_parse fok) streams = line_runs (bw_lines fok text) /\
    let P := parallel check_val (o_sort_all o) sizes (tasks (bw_parse fok) streams) in
    (forall items, all_ok (bw_lines fok text) = Some items ->
       (P = Ok tt <-> verdict (bw_write fp o sizes items) = Ok tt) /\
       (P = Ok tt <-> verdict (bw_write_multipass fp o sizes items) = Ok tt) /\
       (forall k, verdict (bw_write fp o sizes items) = Err k -> exists k', P = Err k') /\
       (forall k, verdict (bw_write_multipass fp o sizes items) = Err k -> exists k', P = Err k') /\
       verdict (bw_write fp o sizes items) = rule_verdict bw_val_class (o_sort_all o) sizes items) /\
    (forall k, bw_text_serial fok o sizes text = Err k -> exists k', P = Err k') /\
    (all_ok (bw_lines fok text) = None -> exists k', P = Err k') /\
    (P = Ok tt \/ exists k, P = Err k).
Proof.
  intros cid fok fp o sizes text lim sz fuel key Ho Hne Hk Hinj Hg Hsq Hlen Hsz Hfuel.
  destruct (parallel_source_eq_serial cid fok o sizes text lim sz fuel Hne Hk Hinj Hg Hsq Hlen Hsz Hfuel)
    as (ix & streams & Hix & Hst & _ & Tw & _ & Pw & _ & Sw & _).
  exists ix, streams. split; [exact Hix|]. split; [exact Hst|]. split; [exact Tw|]. cbv zeta.
  assert (Hpl : plain (parallel check_val (o_sort_all o) sizes (tasks (bw_parse fok) streams))).
  { rewrite Pw. apply bw_parallel_plain. }
  assert (Hse : forall k, bw_text_serial fok o sizes text = Err k ->
                exists k', parallel check_val (o_sort_all o) sizes (tasks (bw_parse fok) streams) = Err k').
  { intros k E. apply (plain_not_ok _ Hpl). intros E'. apply Sw in E'. congruence. }
  split; [|split; [exact Hse|split; [|exact Hpl]]].
  - intros items Hp.
    destruct (bw_file_verdict_text fp fok o sizes text items Ho Hp) as (V1 & V2 & V3).
    rewrite V1, V2. split; [symmetry; exact Sw|]. split; [symmetry; exact Sw|].
    split; [exact Hse|]. split; [exact Hse|exact V3].
  - intros Hn.
    assert (E : exists k, bw_text_serial fok o sizes text = Err k).
    { unfold bw_text_serial. rewrite (serial_ext check_val (chk_of bw_val_class) check_val_class).
      apply serial_malformed. exact Hn. }
    destruct E as [k E]. exact (Hse k E).
Qed.

(* ------------------------------------------------------------------ BED -> bigBed *)
Theorem bb_parallel_text_file_verdict : forall (cid : name -> N) fp o sizes autosql (text : list N) (lim : nat)
    (sz : nat -> nat -> N) (fuel : nat),
  let key := bed_key cid in
  text <> [] ->
  (forall l, In l (split_lines text) -> key l <> 0) ->
  (forall l1 l2, In l1 (split_lines text) -> In l2 (split_lines text) ->
     cid (chrom_of l1) = cid (chrom_of l2) -> chrom_of l1 = chrom_of l2) ->
  grouped (lfile key text) ->
  Nlen text * Nlen text < 2 ^ N.of_nat lim -> Nlen text < 2 ^ 63 ->
  (forall i k, 1 <= sz i k) -> (length text < fuel)%nat ->
  exists ix streams,
    index_chroms (S lim) (lfile key text) = Ok (Some ix) /\
    par_streams fuel text sz ix = map Ok streams /\
    tasks bb_parse streams = line_runs (bb_lines text) /\
    let P := bb_fed o autosql (parallel bb_check_val (o_sort_all o) sizes (tasks bb_parse streams)) in
    (forall input, all_ok (bb_lines text) = Some (bb_items input) ->
       (P = Ok tt <-> verdict (BigBedWrite.bb_write fp o sizes autosql input) = Ok tt) /\
       (P = Ok tt <-> verdict (BigBedWrite.bb_write_multipass fp o sizes autosql input) = Ok tt) /\
       (forall k, verdict (BigBedWrite.bb_write fp o sizes autosql input) = Err k -> exists k', P = Err k') /\
       (forall k, verdict (BigBedWrite.bb_write_multipass fp o sizes autosql input) = Err k -> exists k', P = Err k') /\
       verdict (BigBedWrite.bb_write fp o sizes autosql input) = bb_file_rule o sizes autosql (bb_items input)) /\
    (exists input, all_ok (bb_lines text) = Some (bb_items input)) /\
    (forall k, bb_fed o autosql (bb_text_serial o sizes text) = Err k -> exists k', P = Err k') /\
    (P = Ok tt \/ exists k, P = Err k).
Proof.
  intros cid fp o sizes autosql text lim sz fuel key Hne Hk Hinj Hg Hsq Hlen Hsz Hfuel.
  destruct (parallel_source_eq_serial cid (fun _ => true) o sizes text lim sz fuel Hne Hk Hinj Hg Hsq Hlen Hsz Hfuel)
    as (ix & streams & Hix & Hst & _ & _ & Tb & _ & Pb & _ & Sb).
  exists ix, streams. split; [exact Hix|]. split; [exact Hst|]. split; [exact Tb|]. cbv zeta. unfold bb_fed.
  set (par := parallel bb_check_val (o_sort_all o) sizes (tasks bb_parse streams)) in *.
  assert (Hpl : plain (bb_front o autosql par)).
  { apply bb_front_plain. rewrite Pb. apply bb_parallel_plain. }
  assert (Hiff : bb_front o autosql par = Ok tt <-> bb_front o autosql (bb_text_serial o sizes text) = Ok tt).
  { apply bb_front_ok_iff. symmetry. exact Sb. }
  assert (Hse : forall k, bb_front o autosql (bb_text_serial o sizes text) = Err k ->
                exists k', bb_front o autosql par = Err k').
  { intros k E. apply (plain_not_ok _ Hpl). intros E'. apply Hiff in E'. congruence. }
  split; [|split; [|split; [exact Hse|exact Hpl]]].
  - intros input Hp.
    destruct (bb_file_verdict_text fp o sizes autosql text input Hp) as (V1 & V2 & V3).
    rewrite V1, V2. split; [exact Hiff|]. split; [exact Hiff|].
    split; [exact Hse|]. split; [exact Hse|exact V3].
  - destruct (all_ok_map_parsed cid (split_lines text) Hk) as [items Hi].
    exists (map with_rest items). rewrite bb_items_with_rest, bb_lines_split. exact Hi.
Qed.

(* ------------------------------------------------------------------ why the class is not claimed *)
(* run 1 holds a value with start > end (class 30 in its task), run 2 names a chromosome that is not
   in the size table (class 20 when it is queued): the serial source and the file model meet the
   value first, the parallel source fails while queueing, before any task result is collected *)
Definition cls_c1 : name := [99; 49].
Definition cls_c9 : name := [99; 57].
Definition cls_opts : opts := {| o_compress := false; o_ips := 2; o_bs := 2; o_izoom := 10; o_maxzooms := 3;
                                 o_manual := None; o_sort_all := true |}.
Definition cls_items : list item :=
  [(cls_c1, mk_value (5, 4)); (cls_c9, mk_value (0, 1))].
Lemma parallel_class_may_differ :
  verdict (bw_write ieee cls_opts [(cls_c1, 100)] cls_items) = Err E_START_GT_END /\
  serial check_val true [(cls_c1, 100)] (ok_lines cls_items) = Err E_START_GT_END /\
  parallel check_val true [(cls_c1, 100)] (line_runs (ok_lines cls_items)) = Err E_UNKNOWN_CHROM.
Proof. split; [vm_compute; reflexivity|]. split; vm_compute; reflexivity. Qed.
