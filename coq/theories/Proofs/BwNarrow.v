(* C01: a bigWig query inside a wider one = clip-filtering the wider answer again. *)
From BT Require Import Base.Util Base.Float Model.RTree Model.BBIFile Model.BigWigWrite Model.BBIRead
  Proofs.Chunks Proofs.BigWigQuery.
Local Open Scope N_scope.
From BT Require Import Base.LE Proofs.RTreeCodec Proofs.FileRegions Proofs.BigWigFile Proofs.BigWigFileChroms
  Proofs.BigWigFileData Proofs.BigWigFileRoundTrip Proofs.BigWigFileThms.

Lemma clip_filter_narrow : forall s e s' e' (l : list value), s' <= s -> e <= e' -> s < e ->
  clip_filter s e (clip_filter s' e' l) = clip_filter s e l.
Proof.
  intros s e s' e' l H1 H2 H3. unfold clip_filter. induction l as [|v l IH]; [reflexivity|].
  cbn [filter map]. destruct (keep s' e' v) eqn:K'.
  - cbn [map filter].
    assert (Ek : keep s e (clip s' e' v) = keep s e v).
    { unfold keep, clip in *. cbn [v_start v_end]. apply andb_prop in K'. destruct K' as [Ka Kb].
      apply N.ltb_lt in Ka. apply N.ltb_lt in Kb.
      destruct (s <? v_end v) eqn:A; destruct (v_start v <? e) eqn:B;
      destruct (s <? N.min (v_end v) e') eqn:C; destruct (N.max (v_start v) s' <? e) eqn:D; try reflexivity;
      try apply N.ltb_lt in A; try apply N.ltb_ge in A; try apply N.ltb_lt in B; try apply N.ltb_ge in B;
      try apply N.ltb_lt in C; try apply N.ltb_ge in C; try apply N.ltb_lt in D; try apply N.ltb_ge in D; exfalso; lia. }
    rewrite Ek. destruct (keep s e v) eqn:K.
    + cbn [map]. f_equal; [|exact IH].
      unfold clip. cbn [v_start v_end v_bits]. f_equal; lia.
    + exact IH.
  - assert (K : keep s e v = false).
    { unfold keep in *. destruct (s <? v_end v) eqn:A; destruct (v_start v <? e) eqn:B; try reflexivity.
      apply N.ltb_lt in A. apply N.ltb_lt in B. apply andb_false_iff in K'.
      destruct K' as [K'|K']; apply N.ltb_ge in K'; exfalso; lia. }
    rewrite K. exact IH.
Qed.

