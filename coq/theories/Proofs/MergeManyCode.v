(* merge_sections_many at the window size the code uses (DATA_SIZE, translated from merge.rs on every run). *)
From BT Require Import Base.Util Model.Merge Proofs.MergeSig Proofs.MergeMany Generated.Consts.
Local Open Scope N_scope.

Lemma code_window_positive : 0 < MERGE_DATA_SIZE.
Proof. reflexivity. Qed.

Lemma merge_many_code_window vss : Forall (sorted_from 0) vss ->
  exists out, merge_sections_many MERGE_DATA_SIZE (map (map IV) vss) = Ok (map IV out) /\
    sorted_from 0 out /\ Forall (fun v => v_val v <> 0%Z) out /\
    forall x, sig out x = nz_opt (ssum vss x).
Proof. apply merge_many_ok. exact code_window_positive. Qed.
