(* C01, whole file, part 2: chromosome names and ids.
   - name_eqb is equality; IdMap::get_id over the runs of the input numbers the chromosomes 0,1,2,...
     in first-appearance order (process_runs_spec);
   - write_chrom_tree's single leaf block, read back by read_chrom_block, gives exactly
     (name, id, length) per chromosome: keys are zero padded to the longest name and the reader trims
     zero bytes, so names must not contain a zero byte (trim_pad);
   - chrom_id finds the id of a name in that table. *)
From BT Require Import Base.Util Base.LE Base.Float Generated.Consts Model.RTree Model.BBIFile
  Model.BigWigWrite Model.BBIRead Proofs.RTreeCodec Proofs.FileRegions Proofs.BigWigFile.
Local Open Scope N_scope.

(* ---------- names ---------- *)
Lemma name_cmp_eq : forall a b, name_cmp a b = Eq <-> a = b.
Proof.
  induction a as [|x a IH]; intros [|y b]; cbn [name_cmp]; try (split; [discriminate|discriminate]); [tauto|].
  destruct (x ?= y) eqn:E.
  - apply N.compare_eq_iff in E. subst y. rewrite IH. split; [intros ->; reflexivity|intros H; now inversion H].
  - split; [discriminate|]. intros H. inversion H; subst. rewrite N.compare_refl in E. discriminate.
  - split; [discriminate|]. intros H. inversion H; subst. rewrite N.compare_refl in E. discriminate.
Qed.
Lemma name_eqb_eq a b : name_eqb a b = true <-> a = b.
Proof.
  unfold name_eqb. rewrite <- name_cmp_eq. destruct (name_cmp a b); split; intros; try reflexivity; discriminate.
Qed.
Lemma name_eqb_refl a : name_eqb a a = true.
Proof. now apply name_eqb_eq. Qed.
Lemma name_eqb_neq a b : a <> b -> name_eqb a b = false.
Proof. intros H. destruct (name_eqb a b) eqn:E; [|reflexivity]. apply name_eqb_eq in E. contradiction. Qed.

Lemma lookup_app {V} k (m m' : list (name * V)) :
  lookup k (m ++ m') = match lookup k m with Some v => Some v | None => lookup k m' end.
Proof.
  induction m as [|[k' v] m IH]; [reflexivity|]. cbn [app lookup]. destruct (name_eqb k k'); [reflexivity|exact IH].
Qed.

(* ---------- ids in first-appearance order ---------- *)
Fixpoint number (base : N) (l : list name) : idmap :=
  match l with [] => [] | c :: r => (c, base) :: number (base + 1) r end.

Lemma number_names base l : map fst (number base l) = l.
Proof. revert base. induction l as [|c l IH]; intros base; cbn [number map fst]; [reflexivity|]. now rewrite IH. Qed.
Lemma number_length base l : length (number base l) = length l.
Proof. revert base. induction l as [|c l IH]; intros base; cbn [number length]; [reflexivity|]. now rewrite IH. Qed.
Lemma number_ids_range : forall l base c id, In (c, id) (number base l) -> base <= id < base + Nlen l.
Proof.
  induction l as [|x l IH]; intros base c id Hin; [destruct Hin|]. cbn [number] in Hin. rewrite Nlen_cons.
  destruct Hin as [E|Hin]; [inversion E; subst; lia|]. apply IH in Hin. lia.
Qed.
Lemma number_in_name base l c id : In (c, id) (number base l) -> In c l.
Proof. intros H. rewrite <- (number_names base l). apply in_map_iff. exists (c, id). auto. Qed.
(* distinct names get distinct, ascending ids *)
Lemma number_inj : forall l base c id c' id', NoDup l ->
  In (c, id) (number base l) -> In (c', id') (number base l) -> id = id' -> c = c'.
Proof.
  induction l as [|x l IH]; intros base c id c' id' Hnd H1 H2 E; [destruct H1|]. cbn [number] in H1, H2.
  inversion Hnd; subst.
  destruct H1 as [E1|H1]; destruct H2 as [E2|H2].
  - inversion E1; inversion E2; subst; reflexivity.
  - inversion E1; subst. apply number_ids_range in H2. exfalso; lia.
  - inversion E2; subst. apply number_ids_range in H1. exfalso; lia.
  - eapply IH; eauto.
Qed.
Lemma number_fun : forall l base c id id', NoDup l ->
  In (c, id) (number base l) -> In (c, id') (number base l) -> id = id'.
Proof.
  induction l as [|x l IH]; intros base c id id' Hnd H1 H2; [destruct H1|]. cbn [number] in H1, H2.
  inversion Hnd as [|? ? Hx Hl]; subst.
  destruct H1 as [E1|H1]; destruct H2 as [E2|H2].
  - inversion E1; inversion E2; subst; reflexivity.
  - inversion E1; subst. apply number_in_name in H2. contradiction.
  - inversion E2; subst. apply number_in_name in H1. contradiction.
  - eapply IH; eauto.
Qed.

Section Runs.
Variables (o : opts) (sizes : list (name * N)).

Definition run_out (r : name * list value) (c : chrom_out) : Prop :=
  co_name c = fst r /\ co_vals c = snd r /\ lookup (fst r) sizes = Some (co_len c)
  /\ check_chrom (co_len c) (snd r) = Ok tt.

(* each run of the input becomes one chrom_out.  Since /repo 4ea85d7 a chromosome whose run reappears
   is refused (E_CHROM_SPLIT), so ACCEPTANCE implies that every chromosome forms one run, none of
   them was known before, and the ids are 0,1,2,... in the order of the runs *)
Lemma process_runs_spec : forall rs prev ids0 ids outs,
  process_runs o sizes prev ids0 rs = Ok (ids, outs) ->
  NoDup (map fst rs) /\ (forall c, In c (map fst rs) -> lookup c ids0 = None)
  /\ ids = ids0 ++ number (Nlen ids0) (map fst rs)
  /\ Forall2 run_out rs outs
  /\ map (fun c => (co_name c, co_id c)) outs = number (Nlen ids0) (map fst rs).
Proof.
  induction rs as [|[c vals] rest IH]; intros prev ids0 ids outs H.
  - cbn [process_runs] in H. apply Ok_inj in H. inversion H; subst. cbn [map number]. rewrite app_nil_r.
    split; [constructor|]. split; [intros c []|]. repeat split; constructor.
  - cbn [process_runs] in H.
    destruct (negb _); [discriminate|].
    destruct (lookup c sizes) as [len|] eqn:El; [|discriminate].
    destruct (lookup c ids0) eqn:Hc; [discriminate|].
    unfold get_id in H. rewrite Hc in H.
    destruct (check_chrom len vals) as [[]| | |] eqn:Ec; cbn [rbind] in H; try discriminate.
    destruct (process_runs o sizes (Some c) (ids0 ++ [(c, Nlen ids0)]) rest) as [[ids'' outs']| | |] eqn:Er;
      cbn [rbind] in H; try discriminate.
    apply Ok_inj in H. inversion H; subst ids'' outs; clear H.
    destruct (IH _ _ _ _ Er) as (Hnd' & Hfr' & E1 & E2 & E3).
    assert (Hrest : forall c', In c' (map fst rest) -> lookup c' ids0 = None /\ c' <> c).
    { intros c' Hin. specialize (Hfr' c' Hin). rewrite lookup_app in Hfr'.
      destruct (lookup c' ids0); [discriminate|]. split; [reflexivity|]. intros ->.
      cbn [lookup] in Hfr'. rewrite name_eqb_refl in Hfr'. discriminate. }
    rewrite Nlen_app in E1, E3. change (Nlen [(c, Nlen ids0)]) with 1 in E1, E3.
    cbn [map fst]. split; [|split; [|split; [|split]]].
    + constructor; [|exact Hnd']. intros Hin. destruct (Hrest c Hin) as [_ Hne]. congruence.
    + intros c' [<-|Hin]; [exact Hc|apply (Hrest c' Hin)].
    + rewrite E1. cbn [number]. now rewrite <- app_assoc.
    + constructor; [|exact E2]. unfold run_out. cbn [co_name co_vals co_len fst snd]. auto.
    + cbn [map number co_name co_id]. now rewrite E3.
Qed.
End Runs.

(* ---------- trim_zeros / pad_key ---------- *)
Definition no_zero (k : name) : Prop := Forall (fun b => b <> 0) k.

Lemma drop_zeros_repeat n l : drop_zeros (repeatN 0 n ++ l) = drop_zeros l.
Proof. induction n as [|n IH]; [reflexivity|]. cbn [repeatN app drop_zeros]. exact IH. Qed.
Lemma drop_zeros_nz l : match l with [] => True | a :: _ => a <> 0 end -> drop_zeros l = l.
Proof. destruct l as [|a l]; [reflexivity|]. intros H. cbn [drop_zeros]. destruct a; [congruence|reflexivity]. Qed.
Lemma repeatN_snoc {X} (x : X) n : repeatN x n ++ [x] = x :: repeatN x n.
Proof. induction n as [|n IH]; [reflexivity|]. cbn [repeatN app]. now rewrite IH. Qed.
Lemma rev_repeatN {X} (x : X) n : rev (repeatN x n) = repeatN x n.
Proof. induction n as [|n IH]; [reflexivity|]. cbn [repeatN rev]. now rewrite IH, repeatN_snoc. Qed.

Lemma trim_pad w k : no_zero k -> trim_zeros (pad_key w k) = k.
Proof.
  intros Hk. unfold trim_zeros, pad_key.
  assert (Hhead : forall l : list N, Forall (fun b => b <> 0) l -> match l with [] => True | a :: _ => a <> 0 end).
  { intros l Hl. destruct l; [exact I|]. now inversion Hl. }
  destruct k as [|a k'].
  - cbn [app]. rewrite <- (app_nil_r (repeatN 0 (w - length []))) at 1. rewrite drop_zeros_repeat. reflexivity.
  - rewrite (drop_zeros_nz ((a :: k') ++ _)) by (cbn [app]; now inversion Hk).
    rewrite rev_app_distr, rev_repeatN, drop_zeros_repeat.
    rewrite drop_zeros_nz; [apply rev_involutive|]. apply Hhead. apply Forall_rev. exact Hk.
Qed.

Lemma pad_key_length w k : (length k <= w)%nat -> length (pad_key w k) = w.
Proof. intros H. unfold pad_key. rewrite app_length, repeatN_length. lia. Qed.

(* ---------- the chromosome tree ---------- *)
Definition maxlen (chroms : idmap) : nat := fold_left (fun a c => Nat.max a (length (fst c))) chroms 0%nat.
Definition len_of (sizes : list (name * N)) (c : name) : N :=
  match lookup c sizes with Some l => l | None => 0 end.
Definition ct_item (sizes : list (name * N)) (w : nat) (c : name * N) : list N :=
  pad_key w (fst c) ++ u32 (snd c) ++ u32 (len_of sizes (fst c)).
Definition ct_header (n : N) (w : nat) : list N :=
  u32 CHROM_TREE_MAGIC ++ u32 (N.max 256 n) ++ u32 (N.of_nat w) ++ u32 8 ++ u64 n ++ u64 0.

Lemma fold_max_ge : forall (l : idmap) a,
  (a <= fold_left (fun a c => Nat.max a (length (fst c))) l a)%nat
  /\ forall c, In c l -> (length (fst c) <= fold_left (fun a c => Nat.max a (length (fst c))) l a)%nat.
Proof.
  induction l as [|x l IH]; intros a; cbn [fold_left]; [split; [lia|intros c []]|].
  destruct (IH (Nat.max a (length (fst x)))) as [H1 H2]. split.
  - eapply Nat.le_trans; [apply (Nat.le_max_l a (length (fst x)))|exact H1].
  - intros c [<-|Hin]; [|apply H2; exact Hin].
    eapply Nat.le_trans; [apply (Nat.le_max_r a (length (fst x)))|exact H1].
Qed.
Lemma maxlen_ge chroms c : In c chroms -> (length (fst c) <= maxlen chroms)%nat.
Proof. intros H. apply (fold_max_ge chroms 0%nat). exact H. Qed.

Lemma chrom_tree_inv sizes chroms ct : chrom_tree_bytes sizes chroms = Ok ct ->
  Forall (fun c => lookup (fst c) sizes <> None) chroms
  /\ ct = ct_header (Nlen chroms) (maxlen chroms) ++ node_hdr 1 (Nlen chroms)
          ++ flat_map (ct_item sizes (maxlen chroms)) chroms.
Proof.
  unfold chrom_tree_bytes. cbv zeta. fold (maxlen chroms). generalize (maxlen chroms) as w. intros w.
  match goal with |- (if forallb ?p ?l then _ else _) = _ -> _ => destruct (forallb p l) eqn:Ef end; [|discriminate].
  intros H. apply Ok_inj in H. subst ct.
  assert (Hi : Forall (fun c => lookup (fst c) sizes <> None) chroms /\
          flat_map (fun i : option (list N) => match i with Some b => b | None => [] end)
            (map (fun c : name * N => match lookup (fst c) sizes with
                                       | Some len => Some (pad_key w (fst c) ++ u32 (snd c) ++ u32 len)
                                       | None => None end) chroms)
          = flat_map (ct_item sizes w) chroms).
  { clear -Ef. induction chroms as [|c chroms IH]; [split; [constructor|reflexivity]|].
    cbn [map forallb] in Ef. apply andb_true_iff in Ef as [E1 E2]. destruct (IH E2) as [IH1 IH2].
    cbn [map flat_map]. rewrite IH2. unfold ct_item at 2, len_of.
    destruct (lookup (fst c) sizes) eqn:El; [|discriminate]. split; [|reflexivity].
    constructor; [congruence|exact IH1]. }
  destruct Hi as [Hi1 Hi2]. split; [exact Hi1|]. rewrite Hi2. unfold ct_header. now rewrite <- !app_assoc.
Qed.

Lemma ct_header_length n w : length (ct_header n w) = 32%nat.
Proof. reflexivity. Qed.

Definition ci_of (sizes : list (name * N)) (c : name * N) : chrom_info :=
  {| ci_name := fst c; ci_id := snd c; ci_len := len_of sizes (fst c) |}.

Definition chrom_ok (sizes : list (name * N)) (w : nat) (c : name * N) : Prop :=
  (length (fst c) <= w)%nat /\ no_zero (fst c) /\ snd c < U32 /\ len_of sizes (fst c) < U32.

Lemma skipn_add {X} a b (l : list X) : skipn (a + b) l = skipn b (skipn a l).
Proof.
  revert l. induction a as [|a IH]; intros l; [reflexivity|]. destruct l as [|x l]; cbn [Nat.add skipn].
  - now destruct b.
  - apply IH.
Qed.

Lemma parse_chrom_item sizes w c rest : chrom_ok sizes w c ->
  trim_zeros (firstn w (ct_item sizes w c ++ rest)) = fst c
  /\ dec false (firstn 4 (skipn w (ct_item sizes w c ++ rest))) = snd c
  /\ dec false (firstn 4 (skipn (w + 4) (ct_item sizes w c ++ rest))) = len_of sizes (fst c)
  /\ skipn (w + 8) (ct_item sizes w c ++ rest) = rest.
Proof.
  intros (Hl & Hz & Hid & Hlen). unfold ct_item. rewrite <- !app_assoc.
  pose proof (pad_key_length w (fst c) Hl) as Hp.
  assert (E1 : firstn w (pad_key w (fst c) ++ u32 (snd c) ++ u32 (len_of sizes (fst c)) ++ rest) = pad_key w (fst c)).
  { rewrite <- Hp at 1. apply firstn_exact. }
  assert (E2 : skipn w (pad_key w (fst c) ++ u32 (snd c) ++ u32 (len_of sizes (fst c)) ++ rest)
               = u32 (snd c) ++ u32 (len_of sizes (fst c)) ++ rest).
  { rewrite <- Hp at 1. apply skipn_exact. }
  rewrite E1, trim_pad by exact Hz. rewrite !skipn_add, E2.
  unfold u32 at 1 2 4. rewrite dec_enc_app by exact Hid. rewrite skipn_enc_app.
  unfold u32 at 1 2. rewrite dec_enc_app by exact Hlen.
  replace 8%nat with (4 + 4)%nat by reflexivity. rewrite skipn_add. unfold u32. rewrite !skipn_enc_app. auto.
Qed.

Lemma parse_chrom_leaf_ok sizes w : forall chroms, Forall (chrom_ok sizes w) chroms ->
  parse_chrom_leaf false w (length chroms) (flat_map (ct_item sizes w) chroms) = map (ci_of sizes) chroms.
Proof.
  induction 1 as [|c chroms Hc _ IH]; [reflexivity|].
  cbn [length flat_map map parse_chrom_leaf].
  destruct (parse_chrom_item sizes w c (flat_map (ct_item sizes w) chroms) Hc) as (E1 & E2 & E3 & E4).
  rewrite E1, E2, E3, E4, IH. reflexivity.
Qed.

Lemma ct_item_length sizes w c : (length (fst c) <= w)%nat -> length (ct_item sizes w c) = (w + 8)%nat.
Proof. intros H. unfold ct_item. rewrite !app_length, pad_key_length by exact H. reflexivity. Qed.
Lemma ct_items_length sizes w : forall chroms, Forall (fun c => (length (fst c) <= w)%nat) chroms ->
  length (flat_map (ct_item sizes w) chroms) = ((w + 8) * length chroms)%nat.
Proof.
  induction 1 as [|c chroms Hc _ IH]; [cbn; lia|]. cbn [flat_map length].
  rewrite app_length, ct_item_length, IH by exact Hc. lia.
Qed.

(* the single leaf block of the written tree, read back *)
Lemma read_chrom_block_ok sizes bs off w chroms fuel :
  has_at bs off (node_hdr 1 (Nlen chroms) ++ flat_map (ct_item sizes w) chroms) ->
  Nlen chroms < U16 -> Forall (chrom_ok sizes w) chroms ->
  read_chrom_block (S fuel) false bs w off = Ok (map (ci_of sizes) chroms).
Proof.
  intros H Hn Hok. apply has_at_app in H as [H1 H2].
  assert (Ecnt : N.to_nat (dec false (skipn 2 (node_hdr 1 (Nlen chroms)))) = length chroms).
  { unfold node_hdr. cbn [skipn dec]. rewrite dec_le2 by exact Hn. apply Nlen_to_nat. }
  cbn [read_chrom_block].
  rewrite (has_at_slice_w bs off (node_hdr 1 (Nlen chroms)) 4 H1) by reflexivity. cbn [rdo rbind].
  rewrite Ecnt.
  change (Nlen (node_hdr 1 (Nlen chroms))) with 4 in H2.
  rewrite (has_at_slice_w bs (off + 4) _ ((w + 8) * length chroms) H2).
  2:{ symmetry. apply ct_items_length. eapply Forall_impl; [|exact Hok]. intros c Hc. apply Hc. }
  cbn [rdo rbind]. change (nth 0 (node_hdr 1 (Nlen chroms)) 0 =? 1) with true. cbv iota.
  now rewrite parse_chrom_leaf_ok.
Qed.

(* the chromosome tree header, as read_info reads it *)
Lemma ct_header_fields n w : N.of_nat w < U32 ->
  dec false (firstn 4 (ct_header n w)) = CHROM_TREE_MAGIC
  /\ dec false (firstn 4 (skipn 8 (ct_header n w))) = N.of_nat w
  /\ dec false (firstn 4 (skipn 12 (ct_header n w))) = 8.
Proof.
  intros Hw. split; [reflexivity|]. split; [|reflexivity].
  unfold ct_header, u32, u64. cbn [enc_le app firstn skipn dec]. now apply dec_le4.
Qed.

(* ---------- chrom_id ---------- *)
Lemma find_chrom sizes : forall l base c id, NoDup l -> In (c, id) (number base l) ->
  find (fun x => name_eqb (ci_name x) c) (map (ci_of sizes) (number base l)) = Some (ci_of sizes (c, id)).
Proof.
  induction l as [|x l IH]; intros base c id Hnd Hin; [destruct Hin|].
  cbn [number map find ci_of ci_name fst]. inversion Hnd as [|? ? Hx Hl]; subst.
  destruct Hin as [E|Hin].
  - inversion E; subst. now rewrite name_eqb_refl.
  - rewrite name_eqb_neq; [apply IH; assumption|]. intros ->. apply number_in_name in Hin. contradiction.
Qed.
