(* Spec/Inflate.v: Adler-32 facts, the match copier against its byte-at-a-time definition, and the round trip
   of the stored-block encoder [zlib_store] through [zlib_decode]. *)
From BT Require Import Base.Util Base.LE Spec.Inflate Proofs.InflateFuel.
Local Open Scope N_scope.

(* ================= Adler-32 ================= *)
Definition adler_state (l : list N) : N * N := fold_left adler_step l (1, 0).

Lemma adler_state_app a b : adler_state (a ++ b) = fold_left adler_step b (adler_state a).
Proof. unfold adler_state. apply fold_left_app. Qed.

Lemma adler32_nil : adler32 [] = 1.
Proof. reflexivity. Qed.

Lemma adler_step_range st x : fst (adler_step st x) < 65521 /\ snd (adler_step st x) < 65521.
Proof. unfold adler_step. cbn [fst snd]. split; apply N.mod_lt; discriminate. Qed.

Lemma adler_fold_range l : forall st, fst st < 65521 -> snd st < 65521 ->
  fst (fold_left adler_step l st) < 65521 /\ snd (fold_left adler_step l st) < 65521.
Proof.
  induction l as [|x r IH]; intros st H1 H2; cbn [fold_left]; [auto|].
  destruct (adler_step_range st x). apply IH; assumption.
Qed.

Lemma adler32_lt l : adler32 l < 4294967296.
Proof.
  unfold adler32. destruct (adler_fold_range l (1, 0)) as [H1 H2]; cbn [fst snd]; try lia.
Qed.

(* RFC 1950: s1 = 1 + the sum of all bytes, s2 = the sum of all values s1 takes, both modulo 65521 *)
Fixpoint prefix_sums (acc : N) (l : list N) : list N :=
  match l with [] => [] | x :: r => (acc + x) :: prefix_sums (acc + x) r end.

Lemma adler_fold_closed l : forall a b,
  fold_left adler_step l (a mod 65521, b mod 65521) = ((a + sumN l) mod 65521, (b + sumN (prefix_sums a l)) mod 65521).
Proof.
  induction l as [|x r IH]; intros a b; cbn [fold_left sumN prefix_sums].
  - rewrite !N.add_0_r. reflexivity.
  - assert (E : adler_step (a mod 65521, b mod 65521) x = ((a + x) mod 65521, (b + (a + x)) mod 65521)).
    { unfold adler_step; cbn [fst snd]. rewrite (N.add_mod_idemp_l a x) by discriminate. f_equal.
      rewrite N.add_mod_idemp_l by discriminate. rewrite N.add_mod_idemp_r by discriminate. reflexivity. }
    rewrite E, IH. f_equal; f_equal; lia.
Qed.

Theorem adler32_closed l :
  adler32 l = ((sumN (prefix_sums 1 l)) mod 65521) * 65536 + (1 + sumN l) mod 65521.
Proof.
  unfold adler32. change (1, 0) with (1 mod 65521, 0 mod 65521). rewrite adler_fold_closed. cbn [fst snd].
  rewrite N.add_0_l. reflexivity.
Qed.

Lemma be32_inv x : x < 4294967296 ->
  match be32 x with [a3; a2; a1; a0] => ((a3 * 256 + a2) * 256 + a1) * 256 + a0 = x | _ => False end.
Proof.
  intros H. unfold be32.
  change 16777216 with (256 * 256 * 256). change 65536 with (256 * 256).
  rewrite <- !N.div_div by discriminate.
  set (q1 := x / 256). set (q2 := q1 / 256). set (q3 := q2 / 256).
  pose proof (N.div_mod' x 256) as E1. pose proof (N.div_mod' q1 256) as E2. pose proof (N.div_mod' q2 256) as E3.
  fold q1 in E1. fold q2 in E2. fold q3 in E3.
  assert (q3 < 256) as L3.
  { subst q3 q2 q1. rewrite !N.div_div by discriminate. apply N.div_lt_upper_bound; [discriminate|]. exact H. }
  rewrite (N.mod_small q3 256 L3). lia.
Qed.

(* ================= the match copier ================= *)
Lemma tl_skipn {X} n : forall l : list X, tl (skipn n l) = skipn (S n) l.
Proof.
  induction n as [|n IH]; intros l; destruct l as [|x r]; try reflexivity. cbn [skipn]. rewrite IH. reflexivity.
Qed.
Lemma Nat_iter_tl {X} n : forall l : list X, Nat.iter n (@tl X) l = skipn n l.
Proof.
  induction n as [|n IH]; intros l; [reflexivity|].
  change (Nat.iter (S n) (@tl X) l) with (tl (Nat.iter n (@tl X) l)). rewrite IH. apply tl_skipn.
Qed.
Lemma skipN_skipn {X} k (l : list X) : skipN k l = skipn (N.to_nat k) l.
Proof. unfold skipN. rewrite N2Nat.inj_iter. apply Nat_iter_tl. Qed.

Lemma nth_skipn {X} j : forall (l : list X) k d, nth k (skipn j l) d = nth (j + k) l d.
Proof.
  induction j as [|j IH]; intros l k d; [reflexivity|]. destruct l as [|x r]; [destruct k; reflexivity|].
  cbn [skipn Nat.add nth]. apply IH.
Qed.
Lemma firstn_S_snoc {X} k : forall (l : list X) d, (k < length l)%nat -> firstn (S k) l = firstn k l ++ [nth k l d].
Proof.
  induction k as [|k IH]; intros l d H; destruct l as [|x r]; cbn [length] in H; try lia; [reflexivity|].
  cbn [firstn nth app]. f_equal. apply IH. lia.
Qed.

(* non-overlapping part: the newest [len] of the [dist] bytes back, in one piece *)
Lemma lz_copy_spec_piece len : forall dist out, (len <= dist)%nat -> (dist <= length out)%nat ->
  lz_copy_spec len (N.of_nat dist) out = firstn len (skipn (dist - len) out) ++ out.
Proof.
  induction len as [|k IH]; intros dist out H1 H2; cbn [lz_copy_spec]; [reflexivity|].
  rewrite (IH dist) by (cbn [length]; lia).
  replace (dist - k)%nat with (S (dist - S k)) by lia. cbn [skipn].
  rewrite (firstn_S_snoc k _ 0) by (rewrite skipn_length; lia).
  rewrite nth_skipn. rewrite <- app_assoc. cbn [app].
  replace (N.to_nat (N.of_nat dist - 1)) with (dist - S k + k)%nat by lia. reflexivity.
Qed.
Lemma lz_copy_spec_add a : forall b dist out, lz_copy_spec (a + b) dist out = lz_copy_spec b dist (lz_copy_spec a dist out).
Proof. induction a as [|a IH]; intros b dist out; cbn [lz_copy_spec Nat.add]; [reflexivity|]. apply IH. Qed.
Lemma lz_copy_spec_length len : forall dist out, length (lz_copy_spec len dist out) = (len + length out)%nat.
Proof. induction len as [|k IH]; intros dist out; cbn [lz_copy_spec]; [reflexivity|]. rewrite IH. cbn [length]. lia. Qed.

Theorem lz_copy_is_spec fuel : forall len dist out,
  (N.to_nat len <= fuel)%nat -> 1 <= dist -> (N.to_nat dist <= length out)%nat ->
  lz_copy fuel len dist out = lz_copy_spec (N.to_nat len) dist out.
Proof.
  induction fuel as [|f IH]; intros len dist out Hf Hd Ho; cbn [lz_copy].
  - replace (N.to_nat len) with O by lia. reflexivity.
  - destruct (N.leb_spec len dist) as [Hl|Hl].
    + rewrite skipN_skipn. rewrite <- (N2Nat.id dist) at 2. rewrite lz_copy_spec_piece by lia.
      rewrite N2Nat.inj_sub. reflexivity.
    + rewrite IH; [|lia|lia|rewrite app_length, firstn_length; lia].
      replace (N.to_nat len) with (N.to_nat dist + N.to_nat (len - dist))%nat by lia.
      rewrite lz_copy_spec_add. f_equal.
      rewrite <- (N2Nat.id dist) at 3. rewrite lz_copy_spec_piece by lia. rewrite Nat.sub_diag. reflexivity.
Qed.

(* the lengths [step] asks for never exceed the 258 rounds it allows *)
Lemma get_bits_bound n : forall s v s1, get_bits n s = Ok (v, s1) -> v < 2 ^ N.of_nat n.
Proof.
  induction n as [|n IH]; intros s v s1 H; cbn [get_bits] in H.
  - inversion H; subst. reflexivity.
  - apply rbind_ok in H as ([b t] & H1 & H). apply rbind_ok in H as ([w t2] & H2 & H). inversion H; subst.
    apply IH in H2. rewrite Nat2N.inj_succ, N.pow_succ_r'. destruct b; cbn [N.b2n]; lia.
Qed.
Lemma len_table_bound i s len s1 : base_extra len_table E_CODE i s = Ok (len, s1) -> 3 <= len <= 258.
Proof.
  unfold base_extra. destruct (nth_error len_table (N.to_nat i)) as [[base extra]|] eqn:E; [|discriminate].
  intros H. apply rbind_ok in H as ([v t] & H1 & H). inversion H; subst. apply get_bits_bound in H1.
  rewrite N2Nat.id in H1. apply nth_error_In in E.
  assert (G : forallb (fun p => (3 <=? fst p) && (fst p + 2 ^ snd p <=? 259)) len_table = true) by (vm_compute; reflexivity).
  rewrite forallb_forall in G. apply G in E. cbn [fst snd] in E. apply andb_prop in E as [E1 E2].
  apply N.leb_le in E1. apply N.leb_le in E2. lia.
Qed.
Lemma dist_table_bound i s d s1 : base_extra dist_table E_DCODE i s = Ok (d, s1) -> 1 <= d <= 32768.
Proof.
  unfold base_extra. destruct (nth_error dist_table (N.to_nat i)) as [[base extra]|] eqn:E; [|discriminate].
  intros H. apply rbind_ok in H as ([v t] & H1 & H). inversion H; subst. apply get_bits_bound in H1.
  rewrite N2Nat.id in H1. apply nth_error_In in E.
  assert (G : forallb (fun p => (1 <=? fst p) && (fst p + 2 ^ snd p <=? 32769)) dist_table = true) by (vm_compute; reflexivity).
  rewrite forallb_forall in G. apply G in E. cbn [fst snd] in E. apply andb_prop in E as [E1 E2].
  apply N.leb_le in E1. apply N.leb_le in E2. lia.
Qed.

(* ================= stored blocks ================= *)
Lemma take_rev_app data : forall rest acc, take_rev (length data) (data ++ rest) acc = Some (rev data ++ acc, rest).
Proof.
  induction data as [|x r IH]; intros rest acc; cbn [length take_rev app rev]; [reflexivity|].
  rewrite IH, <- app_assoc. reflexivity.
Qed.

Lemma stored_header_fields L : L <= 65535 ->
  L mod 256 + 256 * (L / 256) = L /\ (65535 - L) mod 256 + 256 * ((65535 - L) / 256) = 65535 - L.
Proof.
  intros H. pose proof (N.div_mod' L 256). pose proof (N.div_mod' (65535 - L) 256). lia.
Qed.

Lemma stored_stored_header fin L data rest bits out k : L = Nlen data -> L <= 65535 ->
  stored (bits, tl (stored_header fin L) ++ data ++ rest) out k = Ok (rev data ++ out, k + L, ([], rest)).
Proof.
  intros HL Hb. unfold stored, aligned, stored_header. cbn [snd app tl].
  destruct (stored_header_fields L Hb) as [E1 E2]. rewrite E1, E2.
  replace (L + (65535 - L)) with 65535 by lia. rewrite N.eqb_refl. cbn [negb].
  rewrite HL. unfold Nlen. rewrite Nat2N.id, take_rev_app. reflexivity.
Qed.

(* the first byte of a stored block written by [stored_header]: BFINAL in bit 0, BTYPE = 00, padding *)
Lemma step_header_stored (fin : bool) rest0 out k :
  step {| i_mode := MHeader; i_bs := ([], N.b2n fin :: rest0); i_out := out; i_n := k |}
  = do (r, s3) <- stored ([false; false; false; false; false], rest0) out k;
    if fin then Ok (inr (fst r, s3))
    else Ok (inl {| i_mode := MHeader; i_bs := s3; i_out := fst r; i_n := snd r |}).
Proof. destruct fin; reflexivity. Qed.

Lemma step_stored (fin : bool) L data rest out k : L = Nlen data -> L <= 65535 ->
  step {| i_mode := MHeader; i_bs := ([], stored_header (N.b2n fin) L ++ data ++ rest); i_out := out; i_n := k |}
  = if fin then Ok (inr (rev data ++ out, ([], rest)))
    else Ok (inl {| i_mode := MHeader; i_bs := ([], rest); i_out := rev data ++ out; i_n := k + L |}).
Proof.
  intros HL Hb.
  pose proof (stored_stored_header (N.b2n fin) L data rest [false; false; false; false; false] out k HL Hb) as E.
  unfold stored_header in *. cbn [app tl] in *. rewrite step_header_stored.
  rewrite E. cbn [rbind fst snd]. reflexivity.
Qed.

(* the block chain of [stored_blocks] is consumed in at most fuel + 1 steps *)
Lemma itern_stored_blocks fuel : forall b tail out k n, (length b <= fuel)%nat -> (fuel < n)%nat ->
  itern n {| i_mode := MHeader; i_bs := ([], stored_blocks fuel b ++ tail); i_out := out; i_n := k |}
  = Ok (inr (rev b ++ out, ([], tail))).
Proof.
  induction fuel as [|f IH]; intros b tail out k n Hb Hn; (destruct n as [|m]; [lia|]); cbn [itern stored_blocks].
  - destruct b; [|cbn [length] in Hb; lia].
    change (stored_header 1 0 ++ tail) with (stored_header (N.b2n true) 0 ++ [] ++ tail).
    rewrite step_stored by (cbn; lia). reflexivity.
  - destruct (N.leb_spec (Nlen b) 65535) as [Hl|Hl].
    + rewrite <- app_assoc. change 1 with (N.b2n true). rewrite step_stored by (auto; lia). reflexivity.
    + rewrite <- !app_assoc. change 0 with (N.b2n false) at 1.
      assert (Hlen : (N.to_nat 65535 < length b)%nat) by (unfold Nlen in Hl; lia).
      rewrite step_stored; [| |lia].
      2:{ unfold Nlen. rewrite firstn_length. lia. }
      rewrite IH; [|rewrite skipn_length; lia|lia].
      rewrite app_assoc, <- rev_app_distr, firstn_skipn. reflexivity.
Qed.

Theorem inflate_stored_blocks b tail :
  inflate (stored_blocks (length b) b ++ tail) = Ok (b, ([], tail)).
Proof.
  unfold inflate. rewrite iter_itern. rewrite itern_stored_blocks; [|lia|].
  - unfold rev'. rewrite <- rev_alt, app_nil_r, rev_involutive. reflexivity.
  - change (Pos.to_nat (N.succ_pos ?x)) with (N.to_nat (N.pos (N.succ_pos x))). rewrite N.succ_pos_spec, lenN_length.
    assert (G : forall fuel b, (length b <= fuel)%nat -> (length b <= length (stored_blocks fuel b))%nat).
    { clear. induction fuel as [|f IH]; intros b Hb; cbn [stored_blocks].
      - lia.
      - destruct (Nlen b <=? 65535); rewrite !app_length; [lia|].
        specialize (IH (skipn (N.to_nat 65535) b)). rewrite skipn_length in IH. rewrite firstn_length.
        destruct (Nat.le_ge_cases (N.to_nat 65535) (length b)); lia. }
    specialize (G _ b (le_n _)). rewrite app_length. lia.
Qed.

Theorem zlib_decode_res_stored b : zlib_decode_res (zlib_store b) = Ok b.
Proof.
  unfold zlib_store, zlib_decode_res. cbn [app].
  change (negb ((120 * 256 + 1) mod 31 =? 0)) with false. change (negb (120 mod 16 =? 8)) with false.
  change (7 <? 120 / 16) with false. change (N.testbit 1 5) with false. cbv iota.
  rewrite inflate_stored_blocks. cbn [rbind aligned snd].
  pose proof (be32_inv (adler32 b) (adler32_lt b)) as E. unfold be32 in *. rewrite E, N.eqb_refl. reflexivity.
Qed.

Theorem zlib_decode_stored b : zlib_decode (zlib_store b) = Some b.
Proof. unfold zlib_decode. rewrite zlib_decode_res_stored. reflexivity. Qed.

(* for fewer than 65536 bytes: header, ONE final stored block, check value *)
Lemma zlib_store_small b : Nlen b < 65536 ->
  zlib_store b = [120; 1] ++ stored_header 1 (Nlen b) ++ b ++ be32 (adler32 b).
Proof.
  intros H. unfold zlib_store. destruct b as [|x r].
  - reflexivity.
  - cbn [length stored_blocks]. destruct (N.leb_spec (Nlen (x :: r)) 65535); [|lia]. rewrite <- app_assoc. reflexivity.
Qed.

(* the test [stored] applies to LEN and NLEN is the one's complement test of RFC 1951 3.2.4 *)
Lemma stored_check_complement len nlen : len < 65536 -> nlen < 65536 ->
  (len + nlen =? 65535) = (nlen =? N.lnot len 16).
Proof.
  intros H1 H2. rewrite N.lnot_sub_low.
  - change (N.ones 16) with 65535. destruct (N.eqb_spec (len + nlen) 65535), (N.eqb_spec nlen (65535 - len)); try reflexivity; exfalso; lia.
  - destruct (N.eq_dec len 0) as [->|Hn]; [reflexivity|]. apply N.log2_lt_pow2; [lia|exact H1].
Qed.
