(* The zoom parts of the two real write paths never produce more than MAX_ZOOM_LEVELS = 10 levels
   (after /repo 3a3ac98), so the zoom directory fits between the 64-byte header and the autoSql at
   offset 304 and the file-level theorems apply to bb_write / bb_write_multipass unconditionally. *)
From BT Require Import Base.Util Base.LE Base.Float Generated.Consts Model.RTree Model.BBIFile Model.BigWigWrite Model.BBIRead
  Model.BigBedWrite Model.BBIReadBed Proofs.RTreeCodec Proofs.BedQuery Proofs.BedEndToEnd.
Local Open Scope N_scope.

Lemma mapM_length {X Y} (f : X -> res Y) : forall l l', mapM f l = Ok l' -> length l' = length l.
Proof.
  induction l as [|x l IH]; intros l' H; cbn [mapM] in H.
  - inversion H. reflexivity.
  - destruct (f x) as [y| | |]; cbn [rbind] in H; try discriminate.
    destruct (mapM f l) as [ys| | |] eqn:E; cbn [rbind] in H; try discriminate.
    inversion H; subst. cbn [length]. f_equal. apply IH. reflexivity.
Qed.

Lemma write_zooms_loop_len o ds : forall zs pos lc zc b hs,
  write_zooms_loop o ds pos zs lc zc = Ok (b, hs) -> (length hs <= length zs)%nat.
Proof.
  induction zs as [|z zs IH]; intros pos lc zc b hs H; cbn [write_zooms_loop] in H.
  - inversion H. cbn. lia.
  - cbv zeta in H.
    destruct (_ && (ds / 2 <? _)); [apply IH in H; cbn [length]; lia|].
    destruct (_ && match lc with None => false | Some lc0 => lc0 <=? _ end); [apply IH in H; cbn [length]; lia|].
    destruct (write_index _ _ _ _) as [[ix lv]| | |]; cbn [rbind] in H; try discriminate.
    destruct (_ && (o_maxzooms o <=? zc + 1)); [inversion H; cbn [length]; lia|].
    destruct (write_zooms_loop o ds _ zs _ _) as [[more hs2]| | |] eqn:E; cbn [rbind] in H; try discriminate.
    inversion H; subst. apply IH in E. cbn [length]. lia.
Qed.
Lemma write_zooms_two_pass_len o : forall zs pos b hs,
  write_zooms_two_pass o pos zs = Ok (b, hs) -> (length hs <= length zs)%nat.
Proof.
  induction zs as [|z zs IH]; intros pos b hs H; cbn [write_zooms_two_pass] in H.
  - inversion H. cbn. lia.
  - cbv zeta in H. destruct (write_index _ _ _ _) as [[ix lv]| | |]; cbn [rbind] in H; try discriminate.
    destruct (write_zooms_two_pass o _ zs) as [[more hs2]| | |] eqn:E; cbn [rbind] in H; try discriminate.
    inversion H; subst. apply IH in E. cbn [length]. lia.
Qed.

Lemma max_levels_10 : N.to_nat MAX_ZOOM_LEVELS = 10%nat.
Proof. reflexivity. Qed.

Lemma zoom_sizes_single_len o : (length (zoom_sizes_single o) <= 10)%nat.
Proof. unfold zoom_sizes_single. cbv zeta. rewrite firstn_length, max_levels_10. lia. Qed.

Lemma take_while_len {X} (p : X -> bool) l : (length (take_while p l) <= length l)%nat.
Proof. induction l as [|x l IH]; cbn [take_while length]; [lia|]. destruct (p x); cbn [length]; lia. Qed.

Lemma zoom_sizes_two_pass_len o sum counts ds : (length (zoom_sizes_two_pass o sum counts ds) <= 10)%nat.
Proof.
  unfold zoom_sizes_two_pass. destruct (o_manual o).
  - rewrite firstn_length, max_levels_10. lia.
  - cbv zeta. rewrite map_length. eapply Nat.le_trans; [apply take_while_len|].
    rewrite firstn_length. assert (N.to_nat (N.min (o_maxzooms o) MAX_ZOOM_LEVELS) <= 10)%nat.
    { pose proof max_levels_10. lia. }
    lia.
Qed.

Lemma single_fits fp o outs sum a b zb zh : bb_zoom_single fp o outs sum a b = Ok (zb, zh) -> (length zh <= 10)%nat.
Proof.
  unfold bb_zoom_single. intros H.
  destruct (mapM (bb_zoom_level fp o outs) (zoom_sizes_single o)) as [zooms| | |] eqn:E; cbn [rbind] in H; try discriminate.
  apply write_zooms_loop_len in H. apply mapM_length in E. pose proof (zoom_sizes_single_len o). lia.
Qed.
Lemma two_pass_fits fp o outs sum a b zb zh : bb_zoom_two_pass fp o outs sum a b = Ok (zb, zh) -> (length zh <= 10)%nat.
Proof.
  unfold bb_zoom_two_pass. cbv zeta. intros H.
  destruct (mapM (bb_zoom_level fp o outs) _) as [zooms| | |] eqn:E; cbn [rbind] in H; try discriminate.
  apply write_zooms_two_pass_len in H. apply mapM_length in E.
  pose proof (zoom_sizes_two_pass_len o sum (total_zoom_counts (map chrom_out_of outs)) a). lia.
Qed.

(* ---- the file-level theorems for the two real write paths, any floating-point mode ---- *)
Definition bb_write_either (two_pass : bool) (fp : fpmode) (o : opts) :=
  if two_pass then bb_write_multipass fp o else bb_write fp o.

Theorem written_file_query two_pass fp o sizes autosql input f :
  bb_write_either two_pass fp o sizes autosql input = Ok f -> file_hyps o sizes input f ->
  exists i, read_info f = Ok i /\ forall infl c es s e, In (c, es) (bruns input) ->
    bb_interval infl f i c s e = Ok (filter (bkeep s e) es).
Proof.
  destruct two_pass; unfold bb_write_either, bb_write, bb_write_multipass.
  - apply file_query. intros outs sum a b zb zh. apply two_pass_fits.
  - apply file_query. intros outs sum a b zb zh. apply single_fits.
Qed.

Theorem written_file_roundtrip two_pass fp o sizes autosql input f :
  bb_write_either two_pass fp o sizes autosql input = Ok f -> file_hyps o sizes input f ->
  exists i, read_info f = Ok i
    /\ (forall infl c es, In (c, es) (bruns input) ->
          exists len, lookup c sizes = Some len /\ bb_interval infl f i c 0 len = Ok es)
    /\ (Nlen input < U64 -> bb_item_count f i = Ok (Nlen input))
    /\ bb_autosql f i = Ok (Some (match autosql with Some s => s | None => AUTOSQL_BED3 end))
    /\ map (fun c => (ci_name c, ci_id c)) (i_chroms i) = combine (map fst (bruns input)) (seqN 0 (length (bruns input)))
    /\ Forall (fun c => lookup (ci_name c) sizes = Some (ci_len c)) (i_chroms i).
Proof.
  destruct two_pass; unfold bb_write_either, bb_write, bb_write_multipass.
  - apply file_roundtrip. intros outs sum a b zb zh. apply two_pass_fits.
  - apply file_roundtrip. intros outs sum a b zb zh. apply single_fits.
Qed.
