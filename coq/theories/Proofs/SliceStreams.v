(* C18, the consequence: lines read through views are the lines of the byte range.
   Part 1 (this file): BufReader<FileView> line reading (Model/Chunker.v: fill_buf, read_until_nl,
   read_lines, view_lines) on top of the view machine's Read calls, for every schedule of read sizes
   >= 1, delivers exactly [split_lines (range file a b)]; lifted to the chunker's pieces. *)
From BT Require Import Base.Util Model.FileView Model.Chunker Proofs.FileViewSim Proofs.ChunkerPartition.
Local Open Scope N_scope.

(* ------------------------------------------------------------------ the bytes a reader has not delivered yet *)
Definition view_rest (file : list N) (v : view) : list N :=
  takeN (dropN file (v_cur v)) (v_end v - v_cur v).
Definition pending (file : list N) (r : bufrd) : list N := b_buf r ++ view_rest file (b_view r).
Definition rd_inv (r : bufrd) : Prop := v_cur (b_view r) <= v_end (b_view r).

(* one Read of n >= 1 bytes: the bytes delivered followed by what is left are what was left before;
   nothing delivered means nothing was left *)
Lemma view_read_rest : forall (file : list N) v n, 1 <= n -> v_cur v <= v_end v ->
  exists got v', view_read file v n = Ok (got, v') /\
                 got ++ view_rest file v' = view_rest file v /\
                 v_cur v' <= v_end v' /\
                 (got = [] -> view_rest file v = []).
Proof.
  intros file v n Hn Hcur. rewrite view_read_ok by exact Hcur.
  unfold file_read, view_rest.
  set (L := dropN file (v_cur v)). set (m := v_end v - v_cur v).
  set (got := takeN L (N.min n m)).
  assert (Hgl : Nlen got = N.min (N.min n m) (Nlen L)) by (unfold got; apply Nlen_takeN).
  assert (Hgot : got = takeN L (Nlen got)).
  { unfold got at 1. rewrite takeN_min_len. now rewrite <- Hgl. }
  eexists got, _. split; [reflexivity|]. cbn [v_start v_end v_cur].
  split; [|split].
  - rewrite (takeN_split _ L (Nlen got) m) by (unfold m in *; lia).
    rewrite <- Hgot. f_equal. unfold L. rewrite dropN_dropN. f_equal. unfold m. lia.
  - unfold m in Hgl. lia.
  - intros E. rewrite E, Nlen_nil in Hgl.
    apply Nlen_0_nil. rewrite Nlen_takeN. lia.
Qed.

Lemma fill_buf_spec : forall (file : list N) sz r, (forall k, 1 <= sz k) -> rd_inv r ->
  exists r1, fill_buf file sz r = Ok r1 /\ pending file r1 = pending file r /\ rd_inv r1 /\
             (b_buf r1 = [] -> pending file r1 = []).
Proof.
  intros file sz r Hsz Hinv. unfold fill_buf. destruct (b_buf r) as [|x t] eqn:Eb.
  - destruct (view_read_rest file (b_view r) (sz (b_fills r)) (Hsz _) Hinv) as (got & v' & Hr & Hp & Hc & He).
    rewrite Hr. cbn [rbind fst snd]. eexists. split; [reflexivity|].
    unfold pending, rd_inv. cbn [b_view b_buf]. rewrite Eb. cbn [app].
    split; [exact Hp|]. split; [exact Hc|].
    intros E. rewrite E in *. cbn [app] in *. rewrite Hp. apply He. reflexivity.
  - exists r. split; [reflexivity|]. split; [reflexivity|]. split; [exact Hinv|].
    intros E. rewrite E in Eb. discriminate.
Qed.

(* ------------------------------------------------------------------ upto_nl *)
Lemma upto_nl_cons x r : upto_nl (x :: r) =
  if x =? NL then ([x], r, true) else let '(a, b, f) := upto_nl r in (x :: a, b, f).
Proof. reflexivity. Qed.

Lemma upto_nl_cat : forall l tk rest fd, upto_nl l = (tk, rest, fd) -> tk ++ rest = l.
Proof.
  induction l as [|x r IH]; intros tk rest fd H.
  - cbn [upto_nl] in H. injection H as <- <- <-. reflexivity.
  - rewrite upto_nl_cons in H. destruct (x =? NL).
    + injection H as <- <- <-. reflexivity.
    + destruct (upto_nl r) as [[a b] f]. injection H as <- <- <-.
      cbn [app]. f_equal. eapply IH. reflexivity.
Qed.

Lemma upto_nl_nonempty : forall l tk rest fd, l <> [] -> upto_nl l = (tk, rest, fd) -> tk <> [].
Proof.
  intros [|x r] tk rest fd Hne H; [congruence|].
  rewrite upto_nl_cons in H. destruct (x =? NL).
  - injection H as <- <- <-. discriminate.
  - destruct (upto_nl r) as [[a b] f]. injection H as <- <- <-. discriminate.
Qed.

Lemma upto_nl_app_found : forall a q tk rest, upto_nl a = (tk, rest, true) ->
  upto_nl (a ++ q) = (tk, rest ++ q, true).
Proof.
  induction a as [|x r IH]; intros q tk rest H.
  - cbn [upto_nl] in H. discriminate.
  - cbn [app]. rewrite upto_nl_cons in *. destruct (x =? NL).
    + injection H as <- <-. reflexivity.
    + destruct (upto_nl r) as [[a b] f] eqn:E. injection H as <- <- ->.
      rewrite (IH q a b eq_refl). reflexivity.
Qed.

Lemma upto_nl_app_none : forall a q tk rest, upto_nl a = (tk, rest, false) ->
  tk = a /\ rest = [] /\
  upto_nl (a ++ q) = (a ++ fst (fst (upto_nl q)), snd (fst (upto_nl q)), snd (upto_nl q)).
Proof.
  induction a as [|x r IH]; intros q tk rest H.
  - cbn [upto_nl] in H. injection H as <- <-. cbn [app].
    destruct (upto_nl q) as [[a b] f]. auto.
  - cbn [app]. rewrite upto_nl_cons in *. destruct (x =? NL); [discriminate|].
    destruct (upto_nl r) as [[a b] f] eqn:E. injection H as <- <- ->.
    destruct (IH q a b eq_refl) as (-> & -> & Hq). rewrite Hq. auto.
Qed.

(* the first line of a byte string and the rest, as split_lines cuts them *)
Lemma split_lines_acc_upto : forall p acc tk rest fd, upto_nl p = (tk, rest, fd) ->
  p <> [] \/ acc <> [] ->
  split_lines_acc p acc = (rev acc ++ tk) :: split_lines rest.
Proof.
  induction p as [|x r IH]; intros acc tk rest fd H Hne.
  - cbn [upto_nl] in H. injection H as <- <- <-.
    destruct Hne as [Hne|Hne]; [congruence|].
    cbn [split_lines_acc]. destruct acc; [congruence|]. rewrite app_nil_r. reflexivity.
  - rewrite upto_nl_cons in H. cbn [split_lines_acc]. destruct (x =? NL).
    + injection H as <- <- <-. reflexivity.
    + destruct (upto_nl r) as [[a b] f] eqn:E. injection H as <- <- <-.
      rewrite (IH (x :: acc) a b f eq_refl) by (right; discriminate).
      cbn [rev]. rewrite <- app_assoc. reflexivity.
Qed.

Lemma split_lines_upto : forall p tk rest fd, p <> [] -> upto_nl p = (tk, rest, fd) ->
  split_lines p = tk :: split_lines rest.
Proof.
  intros p tk rest fd Hne H. unfold split_lines at 1.
  rewrite (split_lines_acc_upto p [] tk rest fd H) by (left; exact Hne). reflexivity.
Qed.

(* ------------------------------------------------------------------ read_until, read_lines *)
Lemma read_until_S fuel file sz r acc :
  read_until_nl (S fuel) file sz r acc =
  (do r1 <- fill_buf file sz r;
   let '(tk, rest, found) := upto_nl (b_buf r1) in
   let r2 := {| b_view := b_view r1; b_buf := rest; b_fills := b_fills r1 |} in
   if found || (match tk with [] => true | _ :: _ => false end) then Ok (acc ++ tk, r2)
   else read_until_nl fuel file sz r2 (acc ++ tk)).
Proof. reflexivity. Qed.

Lemma read_until_spec : forall (file : list N) sz, (forall k, 1 <= sz k) ->
  forall fuel r acc, rd_inv r -> (length (pending file r) < fuel)%nat ->
  exists r', read_until_nl fuel file sz r acc =
               Ok (acc ++ fst (fst (upto_nl (pending file r))), r') /\
             pending file r' = snd (fst (upto_nl (pending file r))) /\ rd_inv r'.
Proof.
  intros file sz Hsz fuel. induction fuel as [|f IH]; intros r acc Hinv Hfuel; [exfalso; lia|].
  rewrite read_until_S.
  destruct (fill_buf_spec file sz r Hsz Hinv) as (r1 & Hf & Hp & Hi & He).
  rewrite Hf. cbn [rbind]. rewrite <- Hp in *. clear Hf Hp Hinv r.
  destruct (b_buf r1) as [|x t] eqn:Eb.
  - (* end of the window *)
    rewrite (He eq_refl). cbn [upto_nl orb fst snd].
    eexists. split; [reflexivity|]. split; [|exact Hi].
    unfold pending in *. cbn [b_buf b_view app]. rewrite Eb in He. apply He. reflexivity.
  - destruct (upto_nl (x :: t)) as [[tk rest] fd] eqn:Eu.
    assert (Hpend : pending file r1 = (x :: t) ++ view_rest file (b_view r1))
      by (unfold pending; rewrite Eb; reflexivity).
    destruct fd.
    + (* newline in the buffer *)
      cbn [orb]. rewrite Hpend, (upto_nl_app_found _ _ _ _ Eu). cbn [fst snd].
      eexists. split; [reflexivity|]. split; [reflexivity | exact Hi].
    + destruct (upto_nl_app_none _ (view_rest file (b_view r1)) _ _ Eu) as (-> & -> & Hq).
      cbn [orb].
      set (r2 := {| b_view := b_view r1; b_buf := []; b_fills := b_fills r1 |}).
      assert (Hp2 : pending file r2 = view_rest file (b_view r1)) by reflexivity.
      destruct (IH r2 (acc ++ x :: t)) as (r' & Hr & Hp' & Hi'); [exact Hi | |].
      * rewrite Hp2. rewrite Hpend, app_length in Hfuel. cbn [length] in Hfuel. lia.
      * rewrite Hr. rewrite Hpend, Hq, Hp2. cbn [fst snd].
        exists r'. rewrite <- app_assoc. split; [reflexivity|]. split; [|exact Hi'].
        rewrite Hp', Hp2. reflexivity.
Qed.

Lemma read_lines_S fuel file sz r :
  read_lines (S fuel) file sz r =
  (do x <- read_until_nl (S fuel) file sz r [];
   match fst x with
   | [] => Ok []
   | l => do more <- read_lines fuel file sz (snd x); Ok (l :: more)
   end).
Proof. reflexivity. Qed.

Lemma read_lines_spec : forall (file : list N) sz, (forall k, 1 <= sz k) ->
  forall fuel r, rd_inv r -> (length (pending file r) < fuel)%nat ->
  read_lines fuel file sz r = Ok (split_lines (pending file r)).
Proof.
  intros file sz Hsz fuel. induction fuel as [|f IH]; intros r Hinv Hfuel; [exfalso; lia|].
  rewrite read_lines_S.
  destruct (read_until_spec file sz Hsz (S f) r [] Hinv Hfuel) as (r' & Hr & Hp & Hi).
  rewrite Hr. cbn [rbind fst snd app].
  destruct (pending file r) as [|x p] eqn:Ep.
  - reflexivity.
  - destruct (upto_nl (x :: p)) as [[tk rest] fd] eqn:Eu. cbn [fst snd] in *.
    assert (Hne : tk <> []) by (eapply upto_nl_nonempty; [|exact Eu]; discriminate).
    rewrite (split_lines_upto (x :: p) tk rest fd) by (try discriminate; exact Eu).
    destruct tk as [|y tk']; [congruence|].
    rewrite IH; [rewrite Hp; reflexivity | exact Hi |].
    rewrite Hp. apply upto_nl_cat in Eu.
    assert (L : length ((y :: tk') ++ rest) = length (x :: p)) by (rewrite Eu; reflexivity).
    rewrite app_length in L. cbn [length] in *. lia.
Qed.

(* ------------------------------------------------------------------ a view read line by line *)
Lemma view_rest_new : forall (file : list N) a b,
  view_rest file {| v_start := a; v_end := N.min b (Nlen file); v_cur := a |} = range file a b.
Proof. intros. unfold view_rest. cbn [v_cur v_end]. symmetry. apply range_clamp. Qed.

Lemma length_range_le : forall (file : list N) a b, (length (range file a b) <= length file)%nat.
Proof.
  intros file a b. pose proof (Nlen_range file a b) as H. unfold Nlen in H. lia.
Qed.

(* for every window [a,b) that starts inside the file (b may lie beyond its end), every schedule of
   read sizes >= 1 and any fuel above the file length: the lines delivered are the lines of the range *)
Lemma view_lines_spec : forall (file : list N) (a b : N) (sz : nat -> N) (fuel : nat),
  a <= b -> a <= Nlen file -> Nlen file < 2 ^ 63 -> (forall k, 1 <= sz k) ->
  (length file < fuel)%nat ->
  view_lines fuel file sz a b = Ok (split_lines (range file a b)).
Proof.
  intros file a b sz fuel Hab Ha Hlen Hsz Hfuel. unfold view_lines.
  rewrite view_new_ok by assumption. cbn [rbind].
  set (v := {| v_start := a; v_end := N.min b (Nlen file); v_cur := a |}).
  assert (Hp : pending file (buf_new v) = range file a b).
  { unfold pending, buf_new. cbn [b_buf b_view app]. apply view_rest_new. }
  rewrite read_lines_spec; [rewrite Hp; reflexivity | exact Hsz | |].
  - unfold rd_inv, buf_new, v. cbn [b_view v_cur v_end]. lia.
  - rewrite Hp. pose proof (length_range_le file a b). lia.
Qed.

(* ... and as StreamingLineReader hands them on (trailing white space trimmed) *)
Lemma view_line_stream_spec : forall (file : list N) (a b : N) (sz : nat -> N) (fuel : nat),
  a <= b -> a <= Nlen file -> Nlen file < 2 ^ 63 -> (forall k, 1 <= sz k) ->
  (length file < fuel)%nat ->
  (do ls <- view_lines fuel file sz a b; Ok (map trim_end ls)) = Ok (line_stream (range file a b)).
Proof. intros. rewrite view_lines_spec by assumption. reflexivity. Qed.

(* ------------------------------------------------------------------ the chunker's pieces *)
Lemma chain_bounds : forall a cs e, chain a cs e ->
  Forall (fun ab => a <= fst ab /\ fst ab <= snd ab /\ snd ab <= e) cs.
Proof.
  intros a cs e H. induction H as [a b Hab | a b cs e Hab Hch IH].
  - constructor; [cbn [fst snd]; lia | constructor].
  - destruct (chain_head _ _ _ Hch) as [Hbe _].
    constructor; [cbn [fst snd]; lia|].
    eapply Forall_impl; [|exact IH]. intros ab (H1 & H2 & H3). lia.
Qed.

Lemma chunk_streams_from_spec : forall (file : list N) sz fuel cs i,
  Nlen file < 2 ^ 63 -> (forall i k, 1 <= sz i k) -> (length file < fuel)%nat ->
  Forall (fun ab => fst ab <= snd ab /\ snd ab <= Nlen file) cs ->
  chunk_streams_from i fuel file sz cs = map (fun ab => Ok (split_lines (range file (fst ab) (snd ab)))) cs.
Proof.
  intros file sz fuel cs. induction cs as [|ab cs IH]; intros i Hlen Hsz Hfuel Hb; [reflexivity|].
  inversion Hb as [|? ? (H1 & H2) Hb']; subst.
  cbn [chunk_streams_from map]. rewrite view_lines_spec; auto; [|lia].
  f_equal. apply IH; auto.
Qed.

(* reading the pieces of split_file_into_chunks_by_size through views, each through its own buffered
   reader with any read sizes: no reader fails, and the lines they deliver, piece after piece, are the
   lines of the file *)
Lemma chunk_stream_eq_serial : forall (file : list N) (n : N) (cs : list (N * N)) sz fuel,
  split_file_into_chunks_by_size file n = Ok cs ->
  Nlen file < 2 ^ 63 -> (forall i k, 1 <= sz i k) -> (length file < fuel)%nat ->
  exists streams,
    chunk_streams fuel file sz cs = map Ok streams /\
    streams = map (fun ab => split_lines (range file (fst ab) (snd ab))) cs /\
    concat streams = split_lines file /\
    concat (map (map trim_end) streams) = line_stream file.
Proof.
  intros file n cs sz fuel H Hlen Hsz Hfuel.
  assert (Hn : 1 <= n).
  { destruct (N.eq_dec n 0) as [->|]; [|lia].
    unfold split_file_into_chunks_by_size in H. rewrite N.eqb_refl in H. discriminate. }
  destruct (chunks_partition file n Hn) as (cs' & H' & Hc & Hcut & _).
  rewrite H in H'. injection H' as <-.
  eexists. split; [|split; [reflexivity|split]].
  - unfold chunk_streams. rewrite chunk_streams_from_spec; auto.
    + rewrite map_map. reflexivity.
    + eapply Forall_impl; [|apply (chain_bounds _ _ _ Hc)]. intros ab (H1 & H2 & H3). lia.
  - apply (chunks_lines file n cs H).
  - rewrite <- (chunks_line_stream file n cs H). rewrite map_map. reflexivity.
Qed.

(* what C17_chunked_eq_serial / C17_chunking_irrelevant assume of the byte pieces ([cuts_at_lines]:
   every piece but the last is empty or ends with a newline; the pieces concatenate to the file) *)
Lemma chain_concat : forall (file : list N) a cs e, chain a cs e ->
  concat (map (fun ab => range file (fst ab) (snd ab)) cs) = range file a e.
Proof.
  intros file a cs e H. induction H as [a b Hab | a b cs e Hab Hch IH].
  - cbn [map concat fst snd]. apply app_nil_r.
  - cbn [map concat fst snd]. rewrite IH.
    destruct (chain_head _ _ _ Hch) as [Hbe _]. apply range_app; lia.
Qed.

Lemma chain_cuts : forall (file : list N) a cs e, chain a cs e ->
  Forall (fun ab => cut_ok file (fst ab)) cs ->
  Forall (fun c => c = [] \/ exists c', c = c' ++ [NL])
         (removelast (map (fun ab => range file (fst ab) (snd ab)) cs)).
Proof.
  intros file a cs e H. induction H as [a b Hab | a b cs e Hab Hch IH]; intros Hcut.
  - constructor.
  - inversion Hcut as [|? ? _ Hcut']; subst.
    destruct (chain_head _ _ _ Hch) as (Hbe & b' & t & ->).
    change (removelast (map (fun ab => range file (fst ab) (snd ab)) ((a, b) :: (b, b') :: t)))
      with (range file a b :: removelast (map (fun ab => range file (fst ab) (snd ab)) ((b, b') :: t))).
    constructor; [|apply IH; exact Hcut'].
    inversion Hcut' as [|? ? Hb _]; subst. cbn [fst] in Hb.
    destruct (N.eq_dec a b) as [->|Hne].
    + left. apply range_empty.
    + right. apply cut_ok_range; [exact Hb | lia].
Qed.

Lemma chunks_cut_at_lines : forall (file : list N) (n : N) (cs : list (N * N)),
  split_file_into_chunks_by_size file n = Ok cs ->
  let pieces := map (fun ab => range file (fst ab) (snd ab)) cs in
  concat pieces = file /\
  Forall (fun c => c = [] \/ exists c', c = c' ++ [NL]) (removelast pieces).
Proof.
  intros file n cs H pieces.
  assert (Hn : 1 <= n).
  { destruct (N.eq_dec n 0) as [->|]; [|lia].
    unfold split_file_into_chunks_by_size in H. rewrite N.eqb_refl in H. discriminate. }
  destruct (chunks_partition file n Hn) as (cs' & H' & Hc & Hcut & _).
  rewrite H in H'. injection H' as <-. split.
  - unfold pieces. rewrite (chain_concat file 0 cs (Nlen file) Hc). apply range_self. lia.
  - apply (chain_cuts file 0 cs (Nlen file) Hc Hcut).
Qed.
