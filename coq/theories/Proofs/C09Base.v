(* C09: basic facts about the independent decoder's primitives (Spec/FormatDecode.v):
   bounds-checked reads on an image that holds known bytes, field extraction, option plumbing. *)
From BT Require Import Base.Util Base.LE Proofs.RTreeCodec Proofs.FileRegions Spec.FormatDecode.
Local Open Scope N_scope.

Definition W16 : N := 65536.
Definition W32 : N := 4294967296.
Definition W64 : N := 18446744073709551616.
Definition w32 (x : N) : N := x mod W32.
Definition w64 (x : N) : N := x mod W64.

Lemma w32_small x : x < W32 -> w32 x = x.
Proof. intros H. unfold w32. now apply N.mod_small. Qed.
Lemma w64_small x : x < W64 -> w64 x = x.
Proof. intros H. unfold w64. now apply N.mod_small. Qed.

(* ---------- option plumbing ---------- *)
Lemma obind_some {X Y} (o : option X) (f : X -> option Y) x : o = Some x -> obind o f = f x.
Proof. intros ->. reflexivity. Qed.
Lemma guard_true b : b = true -> guard b = Some tt.
Proof. intros ->. reflexivity. Qed.
Lemma check_true {Y} b (k : option Y) : b = true -> obind (guard b) (fun _ => k) = k.
Proof. intros ->. reflexivity. Qed.

Lemma omap_ok {X Y} (f : X -> option Y) (g : X -> Y) l : (forall x, In x l -> f x = Some (g x)) -> omap f l = Some (map g l).
Proof.
  induction l as [|x l IH]; intros H; [reflexivity|]. cbn [omap map].
  rewrite (H x (or_introl eq_refl)). cbn [obind]. rewrite IH; [reflexivity|]. intros y Hy. apply H. now right.
Qed.
Lemma omap_Forall2 {X Y} (f : X -> option Y) (R : X -> Y -> Prop) l ys :
  Forall2 (fun x y => f x = Some y) l ys -> omap f l = Some ys.
Proof. induction 1 as [|x y l ys Hxy _ IH]; [reflexivity|]. cbn [omap]. rewrite Hxy. cbn [obind]. now rewrite IH. Qed.

Lemma Ok_inj {X} (a b : X) : Ok a = Ok b -> a = b.
Proof. intros H. now injection H. Qed.

(* ---------- reads ---------- *)
Lemma bytes_at_has img n off x : has_at img off x -> n = Nlen img -> bytes_at img n off (Nlen x) = Some x.
Proof.
  intros H ->. unfold bytes_at. pose proof (has_at_bound img off x H) as Hb.
  destruct (off + Nlen x <=? Nlen img) eqn:E; [|apply N.leb_gt in E; exfalso; lia].
  now apply has_at_slice_N.
Qed.
Lemma bytes_at_has_w img n off x w : has_at img off x -> n = Nlen img -> w = Nlen x -> bytes_at img n off w = Some x.
Proof. intros H Hn ->. now apply bytes_at_has. Qed.

Lemma bytes_at_bound img n off w x : bytes_at img n off w = Some x -> off + w <= n.
Proof. unfold bytes_at. destruct (off + w <=? n) eqn:E; [|discriminate]. intros _. now apply N.leb_le. Qed.

(* the image may be extended on the right *)
Lemma slice_app_r img t off w x : slice img off w = Some x -> (0 < w)%nat -> slice (img ++ t) off w = Some x.
Proof.
  intros H Hw. apply slice_has_at in H as [H L]; [|exact Hw]. subst w.
  apply has_at_slice. now apply has_at_app_r.
Qed.
Lemma slice_zero img off : slice img off 0 = Some [].
Proof. unfold slice. cbn [firstn length Nat.eqb]. reflexivity. Qed.
Lemma bytes_at_app_r img t n off w x : bytes_at img n off w = Some x -> bytes_at (img ++ t) (n + Nlen t) off w = Some x.
Proof.
  unfold bytes_at. destruct (off + w <=? n) eqn:E; [|discriminate]. apply N.leb_le in E.
  destruct (off + w <=? n + Nlen t) eqn:E2; [|apply N.leb_gt in E2; exfalso; lia].
  intros H. destruct (N.to_nat w) eqn:Ew.
  - rewrite slice_zero in *. exact H.
  - apply slice_app_r; [exact H|lia].
Qed.

(* ---------- fields ---------- *)
Lemma fld_enc w x rest : x < 256 ^ N.of_nat w -> fld false (enc_le w x ++ rest) 0 w = x.
Proof. intros H. unfold fld. cbn [skipn]. now apply dec_enc_app. Qed.
Lemma fld_enc_mod w x rest : fld false (enc_le w x ++ rest) 0 w = x mod 256 ^ N.of_nat w.
Proof.
  unfold fld. cbn [skipn]. rewrite <- (enc_le_length w x) at 1. rewrite firstn_exact. cbn [dec]. apply dec_enc_le_mod.
Qed.
Lemma fld_skip big a r o w : fld big (a ++ r) (length a + o) w = fld big r o w.
Proof.
  unfold fld. f_equal. f_equal. rewrite skipn_app.
  assert (E : skipn (length a + o) a = []) by (apply skipn_all2; lia).
  rewrite E. cbn [app]. f_equal. lia.
Qed.
Lemma fld_skip_enc big w0 x r o w : fld big (enc_le w0 x ++ r) (w0 + o) w = fld big r o w.
Proof. rewrite <- (enc_le_length w0 x) at 2. apply fld_skip. Qed.

Lemma fld_skip_enc' big w0 x r o' o w : o' = (w0 + o)%nat -> fld big (enc_le w0 x ++ r) o' w = fld big r o w.
Proof. intros ->. apply fld_skip_enc. Qed.
Lemma fld_skip' big a r o' o w : o' = (length a + o)%nat -> fld big (a ++ r) o' w = fld big r o w.
Proof. intros ->. apply fld_skip. Qed.

(* position comparisons *)
Lemma pos_le_spec c1 b1 c2 b2 : pos_le c1 b1 c2 b2 = true <-> (c1 < c2 \/ (c1 = c2 /\ b1 <= b2)).
Proof.
  unfold pos_le. rewrite orb_true_iff, andb_true_iff, N.ltb_lt, N.eqb_eq, N.leb_le. tauto.
Qed.

Lemma seqN_length s k : length (seqN s k) = k.
Proof. revert s. induction k as [|k IH]; intros s; cbn [seqN length]; [reflexivity|]. now rewrite IH. Qed.
Lemma seqN_In s k x : In x (seqN s k) <-> s <= x < s + N.of_nat k.
Proof.
  revert s. induction k as [|k IH]; intros s; cbn [seqN In].
  - split; [tauto|lia].
  - rewrite IH. lia.
Qed.

Lemma adjacent_cons {X} (p : X -> X -> bool) x y l : adjacent p (x :: y :: l) = p x y && adjacent p (y :: l).
Proof. reflexivity. Qed.
