(* C08: the zoom tiling turns the stream of depth segments into records that are ordered, disjoint,
   non-empty, at most one resolution long, cover every covered base, and carry the statistics of the
   depth function on their span.  Invariant over the loop of process_val_zoom, in exact arithmetic. *)
From BT Require Import Base.Util Base.Float Model.BBIFile Model.BigWigWrite Model.BedSweep Spec.Depth
  Proofs.DepthStats Proofs.SweepRLE Proofs.BedSummary.
Local Open Scope N_scope.

(* ---- statistics as sums of F(depth) ---- *)
Definition fstat (F : N -> N) (d : N -> N) (xs : list N) : N := sumN (map (fun x => F (d x)) xs).
Definition Fcov (v : N) : N := if 0 <? v then 1 else 0.
Definition Fid (v : N) : N := v.
Definition Fsq (v : N) : N := v * v.

Lemma st_cov_fstat : forall d xs, st_cov d xs = fstat Fcov d xs.
Proof. intros. unfold st_cov, fstat, Fcov. apply Nlen_filter_sum. Qed.
Lemma st_sum_fstat : forall d xs, st_sum d xs = fstat Fid d xs.
Proof. reflexivity. Qed.
Lemma st_sumsq_fstat : forall d xs, st_sumsq d xs = fstat Fsq d xs.
Proof. reflexivity. Qed.

Lemma fstat_ext : forall F d d' xs, (forall x, In x xs -> d x = d' x) -> fstat F d xs = fstat F d' xs.
Proof. intros F d d' xs H. unfold fstat. apply sumN_map_ext_in. intros x Hx. now rewrite (H x Hx). Qed.
Lemma fstat_app : forall F d a b, fstat F d (a ++ b) = fstat F d a + fstat F d b.
Proof. intros. unfold fstat. now rewrite map_app, sumN_app. Qed.
Lemma fstat_zero : forall F d xs, F 0 = 0 -> (forall x, In x xs -> d x = 0) -> fstat F d xs = 0.
Proof. intros F d xs F0 H. unfold fstat. now apply fsum_zero. Qed.
Lemma fstat_const : forall F d v xs, (forall x, In x xs -> d x = v) -> fstat F d xs = Nlen xs * F v.
Proof.
  intros F d v xs H. unfold fstat. rewrite (sumN_map_ext_in _ (fun _ => F v)).
  - apply sumN_map_const.
  - intros x Hx. now rewrite (H x Hx).
Qed.

(* ---- records in exact arithmetic ---- *)
Definition zstats (D : N -> N) (z : zrec) : Prop :=
  let xs := span (z_start z) (z_end z) in
  let s := z_sum z in
  su_bases s = fstat Fcov D xs /\ su_sum s = f_of_N (fstat Fid D xs) /\ su_sumsq s = f_of_N (fstat Fsq D xs) /\
  su_min s = optf (fold_left (pstep N.min D) xs None) /\ su_max s = optf (fold_left (pstep N.max D) xs None).

Lemma zstats_ext : forall D D' z, (forall x, z_start z <= x < z_end z -> D x = D' x) -> zstats D z -> zstats D' z.
Proof.
  intros D D' z H (A & B & C & E & F).
  assert (Hin : forall x, In x (span (z_start z) (z_end z)) -> D x = D' x).
  { intros x Hx. apply H. now apply In_span. }
  unfold zstats. cbn zeta.
  rewrite <- (fstat_ext Fcov D D' _ Hin), <- (fstat_ext Fid D D' _ Hin), <- (fstat_ext Fsq D D' _ Hin).
  rewrite <- (pfold_ext N.min D D' _ None Hin), <- (pfold_ext N.max D D' _ None Hin).
  repeat split; assumption.
Qed.

Lemma fmin_optf_pick : forall o v, fmin (optf o) (f_of_N v) = optf (opt_pick N.min o v).
Proof. intros [m|] v; cbn [optf opt_pick]; [apply fmin_N | reflexivity]. Qed.
Lemma fmax_optf_pick : forall o v, fmax (optf o) (f_of_N v) = optf (opt_pick N.max o v).
Proof. intros [m|] v; cbn [optf opt_pick]; [apply fmax_N | reflexivity]. Qed.

(* the piece [a, b) of constant depth v > 0, appended to a span [s, e) with e <= a and depth 0 on [e, a) *)
Lemma stats_extend : forall (D : N -> N) s e a b v,
  s <= e -> e <= a -> a < b -> 0 < v ->
  (forall x, e <= x < a -> D x = 0) -> (forall x, a <= x < b -> D x = v) ->
  fstat Fcov D (span s b) = fstat Fcov D (span s e) + (b - a) /\
  fstat Fid D (span s b) = fstat Fid D (span s e) + (b - a) * v /\
  fstat Fsq D (span s b) = fstat Fsq D (span s e) + (b - a) * v * v /\
  fold_left (pstep N.min D) (span s b) None = opt_pick N.min (fold_left (pstep N.min D) (span s e) None) v /\
  fold_left (pstep N.max D) (span s b) None = opt_pick N.max (fold_left (pstep N.max D) (span s e) None) v.
Proof.
  intros D s e a b v Hse Hea Hab Hv H0 Hc.
  assert (Hz : forall x, In x (span e a) -> D x = 0) by (intros x Hx; apply H0; now apply In_span).
  assert (Hk : forall x, In x (span a b) -> D x = v) by (intros x Hx; apply Hc; now apply In_span).
  rewrite (span_split s e b) by lia. rewrite (span_split e a b) by lia.
  rewrite !fstat_app, !fold_left_app.
  rewrite (fstat_zero Fcov D _ eq_refl Hz), (fstat_zero Fid D _ eq_refl Hz), (fstat_zero Fsq D _ eq_refl Hz).
  rewrite (fstat_const Fcov D v _ Hk), (fstat_const Fid D v _ Hk), (fstat_const Fsq D v _ Hk), Nlen_span.
  rewrite (pfold_zero N.min D _ _ Hz), (pfold_zero N.max D _ _ Hz).
  rewrite (pfold_const N.min N.min_id min_assoc' D v _ _ Hv Hk), (pfold_const N.max N.max_id max_assoc' D v _ _ Hv Hk).
  assert (Hne : span a b <> []).
  { intro C. apply (f_equal (@length N)) in C. rewrite length_span in C. cbn in C. lia. }
  destruct (span a b); [congruence|].
  unfold Fcov, Fid, Fsq. destruct (N.ltb_spec 0 v); [|exfalso; lia].
  repeat split; lia.
Qed.

(* zrec_add on a record in normal form *)
Lemma zrec_add_stats : forall (D : N -> N) z a b v,
  z_start z <= z_end z -> z_end z <= a -> a < b -> 0 < v -> zstats D z ->
  (forall x, z_end z <= x < a -> D x = 0) -> (forall x, a <= x < b -> D x = v) ->
  zstats D (zrec_add exact z a b (f_of_N v)).
Proof.
  intros D z a b v Hse Hea Hab Hv (A & B & C & E & F) H0 Hc.
  destruct (stats_extend D (z_start z) (z_end z) a b v Hse Hea Hab Hv H0 Hc) as (S1 & S2 & S3 & S4 & S5).
  unfold zstats, zrec_add. cbn [z_start z_end z_sum su_bases su_sum su_sumsq su_min su_max].
  rewrite S1, S2, S3, S4, S5, A, B, C, E, F, !fmul_exact_N, !fadd_exact_N, fmin_optf_pick, fmax_optf_pick.
  repeat split; reflexivity.
Qed.

(* a fresh record filled with its first piece *)
Lemma zrec_new_stats : forall (D : N -> N) chrom a b v,
  a < b -> 0 < v -> (forall x, a <= x < b -> D x = v) ->
  zstats D (zrec_add exact (zrec_new chrom a (f_of_N v)) a b (f_of_N v)).
Proof.
  intros D chrom a b v Hab Hv Hc.
  assert (Hk : forall x, In x (span a b) -> D x = v) by (intros x Hx; apply Hc; now apply In_span).
  unfold zstats, zrec_add, zrec_new. cbn [z_start z_end z_sum su_bases su_sum su_sumsq su_min su_max].
  rewrite (fstat_const Fcov D v _ Hk), (fstat_const Fid D v _ Hk), (fstat_const Fsq D v _ Hk), Nlen_span.
  rewrite (pfold_const N.min N.min_id min_assoc' D v _ _ Hv Hk), (pfold_const N.max N.max_id max_assoc' D v _ _ Hv Hk).
  assert (Hne : span a b <> []).
  { intro C. apply (f_equal (@length N)) in C. rewrite length_span in C. cbn in C. lia. }
  destruct (span a b); [congruence|].
  unfold fzero. change (FFin 0 0) with (f_of_N 0).
  rewrite !fmul_exact_N, !fadd_exact_N, fmin_N, fmax_N. cbn [opt_pick optf].
  unfold Fcov, Fid, Fsq. destruct (N.ltb_spec 0 v); [|exfalso; lia].
  repeat split; try (f_equal; lia); lia.
Qed.

(* split syntactic conjunctions only (no unfolding of definitions) *)
Ltac csplit := repeat match goal with |- _ /\ _ => split end.

(* ---- the tiling state ---- *)
Definition emitted (st : zstate) : list zrec := concat (zs_out st) ++ zs_records st.

Lemma emitted_send : forall st, emitted (send_records st) = emitted st.
Proof. intro st. unfold emitted, send_records. cbn [zs_out zs_records]. rewrite concat_app. cbn [concat]. now rewrite !app_nil_r. Qed.
Lemma emitted_push : forall st z, emitted (push_live st z) = emitted st ++ [z].
Proof. intros. unfold emitted, push_live. cbn [zs_out zs_records]. now rewrite app_assoc. Qed.

Fixpoint recs_sorted (lo : N) (l : list zrec) : Prop :=
  match l with
  | [] => True
  | z :: r => lo <= z_start z /\ z_start z < z_end z /\ recs_sorted (z_end z) r
  end.
Definition last_end (lo : N) (l : list zrec) : N := fold_left (fun _ z => z_end z) l lo.
Definition covered_by (l : list zrec) (x : N) : Prop := Exists (fun z => z_start z <= x < z_end z) l.

Lemma last_end_app : forall l lo z, last_end lo (l ++ [z]) = z_end z.
Proof. intros. unfold last_end. now rewrite fold_left_app. Qed.
Lemma recs_sorted_app : forall l lo z, recs_sorted lo l -> last_end lo l <= z_start z -> z_start z < z_end z ->
  recs_sorted lo (l ++ [z]).
Proof.
  induction l as [|y r IH]; intros lo z Hs Hl Hz; cbn [app recs_sorted] in *.
  - unfold last_end in Hl. cbn in Hl. repeat split; (assumption || lia).
  - destruct Hs as (A & B & C). repeat split; try assumption. apply IH; assumption.
Qed.
Lemma recs_sorted_ends : forall l lo, recs_sorted lo l -> lo <= last_end lo l /\ Forall (fun z => z_end z <= last_end lo l) l.
Proof.
  induction l as [|y r IH]; intros lo Hs; cbn [recs_sorted] in *.
  - split; [unfold last_end; cbn; lia | constructor].
  - destruct Hs as (A & B & C). destruct (IH _ C) as (D1 & D2).
    change (last_end lo (y :: r)) with (last_end (z_end y) r).
    split; [lia | constructor; [lia | assumption]].
Qed.

Section Tiling.
Variables ips size chrom : N.
Hypothesis Hsize : 1 <= size.

Definition zshape (z : zrec) : Prop := z_end z - z_start z <= size /\ z_chrom z = chrom.

Definition Inv (D : N -> N) (c : N) (st : zstate) : Prop :=
  let E := emitted st in
  recs_sorted 0 E /\ Forall zshape E /\ Forall (zstats D) E /\
  match zs_live st with
  | None => last_end 0 E <= c /\ (forall x, last_end 0 E <= x -> D x = 0) /\ (forall x, 0 < D x -> covered_by E x)
  | Some z => last_end 0 E <= z_start z /\ z_start z < z_end z /\ z_end z < z_start z + size /\ z_chrom z = chrom /\
              zstats D z /\ z_end z <= c /\ (forall x, z_end z <= x -> D x = 0) /\
              (forall x, 0 < D x -> covered_by (E ++ [z]) x)
  end.

Lemma Inv_ext : forall D D' c st, (forall x, D x = D' x) -> Inv D c st -> Inv D' c st.
Proof.
  intros D D' c st H (A & B & C & R). unfold Inv. cbn zeta.
  split; [exact A | split; [exact B | split]].
  - eapply Forall_impl; [|exact C]. intros z Hz. eapply zstats_ext; [|exact Hz]. intros; apply H.
  - destruct (zs_live st) as [z|].
    + destruct R as (R1 & R2 & R3 & R4 & R5 & R6 & R7 & R8).
      csplit; try assumption.
      * eapply zstats_ext; [|exact R5]. intros; apply H.
      * intros x Hx. rewrite <- H. now apply R7.
      * intros x Hx. apply R8. now rewrite H.
    + destruct R as (R1 & R2 & R3). csplit; try assumption.
      * intros x Hx. rewrite <- H. now apply R2.
      * intros x Hx. apply R3. now rewrite H.
Qed.

Lemma Inv_mono : forall D c c' st, c <= c' -> Inv D c st -> Inv D c' st.
Proof.
  intros D c c' st H (A & B & C & R). unfold Inv. cbn zeta.
  split; [exact A | split; [exact B | split; [exact C|]]].
  destruct (zs_live st) as [z|].
  - destruct R as (R1 & R2 & R3 & R4 & R5 & R6 & R7 & R8). csplit; try assumption. lia.
  - destruct R as (R1 & R2 & R3). csplit; try assumption. lia.
Qed.

Lemma Inv_send : forall D c st, Inv D c st -> Inv D c (send_records st).
Proof. intros D c st H. unfold Inv in *. rewrite emitted_send. exact H. Qed.

(* closing the live record (it stays as it is) *)
Lemma Inv_close : forall D c st z, zs_live st = Some z -> Inv D c st -> Inv D c (push_live st z).
Proof.
  intros D c st z Hl (A & B & C & R). rewrite Hl in R.
  destruct R as (R1 & R2 & R3 & R4 & R5 & R6 & R7 & R8).
  unfold Inv. cbn zeta. rewrite emitted_push. cbn [push_live zs_live].
  split; [|split; [|split; [|split; [|split]]]].
  - apply recs_sorted_app; assumption.
  - apply Forall_app. split; [exact B|]. constructor; [|constructor]. split; [lia | exact R4].
  - apply Forall_app. split; [exact C|]. constructor; [exact R5 | constructor].
  - rewrite last_end_app. exact R6.
  - rewrite last_end_app. exact R7.
  - exact R8.
Qed.

(* the records emitted so far are not disturbed by depth added at or after c *)
Lemma emitted_stats_keep : forall D D' c E,
  recs_sorted 0 E -> last_end 0 E <= c -> (forall x, x < c -> D x = D' x) ->
  Forall (zstats D) E -> Forall (zstats D') E.
Proof.
  intros D D' c E Hs Hl H HF. destruct (recs_sorted_ends _ _ Hs) as (_ & He).
  rewrite Forall_forall in *. intros z Hz. eapply zstats_ext; [|apply HF, Hz].
  intros x Hx. apply H. specialize (He z Hz). cbn beta in He. lia.
Qed.

Lemma covered_by_app_l : forall l l' x, covered_by l x -> covered_by (l ++ l') x.
Proof. intros. unfold covered_by in *. apply Exists_app. now left. Qed.
Lemma covered_by_last : forall l z x, z_start z <= x < z_end z -> covered_by (l ++ [z]) x.
Proof. intros. unfold covered_by. apply Exists_app. right. constructor. assumption. Qed.
End Tiling.

(* ---- one iteration of the inner loop ---- *)
Definition tile_iter (fp : fpmode) (ips size chrom rs re val add_start : N) (st : zstate) : N * zstate :=
  let v := f_of_N val in
  let z := match zs_live st with Some z => z | None => zrec_new chrom add_start v end in
  let next_end := z_start z + size in
  let add_end := N.min next_end re in
  let z := if add_start <? add_end then zrec_add fp z add_start add_end v else z in
  let st := if add_end =? next_end then push_live st z
            else {| zs_live := Some z; zs_records := zs_records st; zs_out := zs_out st |} in
  let add_start' := N.max add_end rs in
  let st := if Nlen (zs_records st) =? ips then send_records st else st in
  (add_start', st).

Definition tile_exit (has_next : bool) (st : zstate) : zstate :=
  if has_next then st else
  let st1 := match zs_live st with Some z => push_live st z | None => st end in
  match zs_records st1 with [] => st1 | _ => send_records st1 end.

Lemma tile_loop_S : forall f fp ips size chrom rs re val has_next a st,
  tile_loop (S f) fp ips size chrom rs re val has_next a st =
  if re <=? a then Ok (tile_exit has_next st)
  else let '(a', st') := tile_iter fp ips size chrom rs re val a st in
       tile_loop f fp ips size chrom rs re val has_next a' st'.
Proof. intros. cbn [tile_loop]. unfold tile_exit. destruct (re <=? a); [destruct has_next|]; reflexivity. Qed.

Definition sec (ips : N) (st : zstate) : zstate := if Nlen (zs_records st) =? ips then send_records st else st.
Definition set_live (st : zstate) (z : zrec) : zstate :=
  {| zs_live := Some z; zs_records := zs_records st; zs_out := zs_out st |}.

Lemma tile_iter_close : forall fp ips size chrom rs re val a st z,
  zs_live st = Some z -> z_start z + size <= a -> a < re ->
  tile_iter fp ips size chrom rs re val a st = (N.max (z_start z + size) rs, sec ips (push_live st z)).
Proof.
  intros fp ips size chrom rs re val a st z El Hc Hre. unfold tile_iter. rewrite El. cbn zeta.
  replace (N.min (z_start z + size) re) with (z_start z + size) by lia.
  destruct (N.ltb_spec a (z_start z + size)); [exfalso; lia|]. rewrite N.eqb_refl. reflexivity.
Qed.
Lemma tile_iter_extend : forall fp ips size chrom rs re val a st z,
  zs_live st = Some z -> a < z_start z + size -> a < re ->
  let b := N.min (z_start z + size) re in
  let z' := zrec_add fp z a b (f_of_N val) in
  tile_iter fp ips size chrom rs re val a st =
  (N.max b rs, sec ips (if b =? z_start z + size then push_live st z' else set_live st z')).
Proof.
  intros fp ips size chrom rs re val a st z El Hc Hre. unfold tile_iter. rewrite El. cbn zeta.
  destruct (N.ltb_spec a (N.min (z_start z + size) re)); [|exfalso; lia]. reflexivity.
Qed.
Lemma tile_iter_fresh : forall fp ips size chrom rs re val a st,
  zs_live st = None -> 1 <= size -> a < re ->
  let b := N.min (a + size) re in
  let z' := zrec_add fp (zrec_new chrom a (f_of_N val)) a b (f_of_N val) in
  tile_iter fp ips size chrom rs re val a st =
  (N.max b rs, sec ips (if b =? a + size then push_live st z' else set_live st z')).
Proof.
  intros fp ips size chrom rs re val a st El Hs Hre. unfold tile_iter. rewrite El. cbn zeta. cbn [zrec_new z_start].
  destruct (N.ltb_spec a (N.min (a + size) re)); [|exfalso; lia]. reflexivity.
Qed.

Section Iter.
Variables ips size chrom : N.
Hypothesis Hsize : 1 <= size.
Local Notation inv := (Inv size chrom).

Definition piece (a b v : N) : seg := {| g_start := a; g_end := b; g_val := v |}.

Lemma inv_set_live : forall D c st z,
  inv D c (set_live st z) <->
  (let E := emitted st in
   recs_sorted 0 E /\ Forall (zshape size chrom) E /\ Forall (zstats D) E /\
   last_end 0 E <= z_start z /\ z_start z < z_end z /\ z_end z < z_start z + size /\ z_chrom z = chrom /\
   zstats D z /\ z_end z <= c /\ (forall x, z_end z <= x -> D x = 0) /\
   (forall x, 0 < D x -> covered_by (E ++ [z]) x)).
Proof. intros. unfold Inv, emitted, set_live. cbn [zs_live zs_records zs_out]. tauto. Qed.

Lemma inv_sec : forall D c st, inv D c st -> inv D c (sec ips st).
Proof. intros. unfold sec. destruct (_ =? _); [now apply Inv_send | assumption]. Qed.
Lemma live_sec : forall st, zs_live (sec ips st) = zs_live st.
Proof. intros. unfold sec. destruct (_ =? _); reflexivity. Qed.

(* the iteration adds the piece [a, a') of the current segment to the depth accounted for *)
Lemma tile_iter_inv : forall D rs re val a st,
  inv D a st -> rs <= a -> a < re -> 1 <= val ->
  (a = rs \/ zs_live st = None) ->
  let r := tile_iter exact ips size chrom rs re val a st in
  a <= fst r /\ fst r <= re /\ (zs_live (snd r) = None \/ fst r = re) /\
  inv (fun x => D x + seg_at (piece a (fst r) val) x) (fst r) (snd r).
Proof.
  intros D rs re val a st HI Hrs Hre Hval Hfirst. cbn zeta.
  destruct HI as (A & B & C & R).
  destruct (zs_live st) as [z|] eqn:El.
  - (* a live record *)
    destruct R as (R1 & R2 & R3 & R4 & R5 & R6 & R7 & R8).
    destruct (N.le_gt_cases (z_start z + size) a) as [Hc|Hb].
    + (* it ended before the segment: close it unchanged *)
      destruct Hfirst as [Hf|Hf]; [|discriminate].
      rewrite (tile_iter_close _ _ _ _ _ _ _ _ _ z El Hc Hre). cbn [fst snd]. rewrite live_sec.
      replace (N.max (z_start z + size) rs) with a by lia.
      split; [lia | split; [lia | split; [left; reflexivity|]]].
      apply inv_sec. apply (Inv_ext size chrom D).
      { intro x. rewrite seg_at_out; [lia | cbn [piece g_start g_end]; lia]. }
      apply (Inv_close size chrom Hsize); [exact El|]. unfold Inv. cbn zeta. rewrite El. csplit; assumption.
    + (* it is extended by [a, b) *)
      rewrite (tile_iter_extend _ _ _ _ _ _ _ _ _ z El Hb Hre). cbn zeta. cbn [fst snd]. rewrite live_sec.
      set (b := N.min (z_start z + size) re).
      assert (Hab : a < b) by (unfold b; lia).
      replace (N.max b rs) with b by lia.
      set (D' := fun x => D x + seg_at (piece a b val) x).
      assert (HD1 : forall x, x < a -> D x = D' x).
      { intros x Hx. unfold D'. rewrite seg_at_out; [lia | cbn [piece g_start g_end]; lia]. }
      assert (HD2 : forall x, a <= x < b -> D' x = val).
      { intros x Hx. unfold D'. rewrite R7 by lia. rewrite seg_at_in; [reflexivity | cbn [piece g_start g_end]; lia]. }
      assert (HD3 : forall x, b <= x -> D' x = 0).
      { intros x Hx. unfold D'. rewrite R7 by lia. rewrite seg_at_out; [reflexivity | cbn [piece g_start g_end]; lia]. }
      set (z' := zrec_add exact z a b (f_of_N val)).
      assert (Es : z_start z' = z_start z) by reflexivity. assert (Ee : z_end z' = b) by reflexivity.
      assert (Ec : z_chrom z' = z_chrom z) by reflexivity.
      assert (Hz' : zstats D' z').
      { apply zrec_add_stats; try lia.
        - eapply zstats_ext; [|exact R5]. intros x Hx. apply HD1. lia.
        - intros x Hx. rewrite <- HD1 by lia. apply R7. lia.
        - exact HD2. }
      assert (HE' : Forall (zstats D') (emitted st)).
      { eapply (emitted_stats_keep size Hsize D D' a); try eassumption. lia. }
      assert (Hcov : forall x, 0 < D' x -> covered_by (emitted st ++ [z']) x).
      { intros x Hx. destruct (N.lt_ge_cases x a) as [Hxa|Hxa].
        - rewrite <- HD1 in Hx by assumption. specialize (R8 x Hx). unfold covered_by in *.
          apply Exists_app in R8. apply Exists_app. destruct R8 as [R8|R8]; [now left|right].
          inversion R8 as [? ? Hh|? ? Hh]; [|inversion Hh]. constructor. rewrite Es, Ee. lia.
        - destruct (N.lt_ge_cases x b) as [Hxb|Hxb]; [|rewrite HD3 in Hx by assumption; lia].
          apply covered_by_last. rewrite Es, Ee. lia. }
      split; [lia | split; [unfold b; lia|]].
      destruct (N.eqb_spec b (z_start z + size)) as [Eb|Eb].
      * split; [left; reflexivity|]. apply inv_sec.
        unfold Inv. cbn zeta. rewrite emitted_push. cbn [push_live zs_live].
        split; [|split; [|split; [|split; [|split]]]].
        -- apply recs_sorted_app; rewrite ?Es, ?Ee; (assumption || lia).
        -- apply Forall_app. split; [exact B|]. constructor; [|constructor].
           split; rewrite ?Es, ?Ee, ?Ec; [lia | exact R4].
        -- apply Forall_app. split; [exact HE'|]. constructor; [exact Hz' | constructor].
        -- rewrite last_end_app, Ee. lia.
        -- rewrite last_end_app, Ee. exact HD3.
        -- exact Hcov.
      * split; [right; unfold b in *; lia|]. apply inv_sec.
        apply inv_set_live. cbn zeta. rewrite Es, Ee, Ec.
        csplit; try assumption; try lia; try (unfold b in *; lia).
  - (* no live record: a fresh one starts at a *)
    destruct R as (R1 & R2 & R3).
    rewrite (tile_iter_fresh _ _ _ _ _ _ _ _ _ El Hsize Hre). cbn zeta. cbn [fst snd]. rewrite live_sec.
    set (b := N.min (a + size) re).
    assert (Hab : a < b) by (unfold b; lia).
    replace (N.max b rs) with b by lia.
    set (D' := fun x => D x + seg_at (piece a b val) x).
    assert (HD1 : forall x, x < a -> D x = D' x).
    { intros x Hx. unfold D'. rewrite seg_at_out; [lia | cbn [piece g_start g_end]; lia]. }
    assert (HD2 : forall x, a <= x < b -> D' x = val).
    { intros x Hx. unfold D'. rewrite R2 by lia. rewrite seg_at_in; [reflexivity | cbn [piece g_start g_end]; lia]. }
    assert (HD3 : forall x, b <= x -> D' x = 0).
    { intros x Hx. unfold D'. rewrite R2 by lia. rewrite seg_at_out; [reflexivity | cbn [piece g_start g_end]; lia]. }
    set (z' := zrec_add exact (zrec_new chrom a (f_of_N val)) a b (f_of_N val)).
    assert (Es : z_start z' = a) by reflexivity. assert (Ee : z_end z' = b) by reflexivity.
    assert (Ec : z_chrom z' = chrom) by reflexivity.
    assert (Hz' : zstats D' z') by (apply zrec_new_stats; (assumption || lia)).
    assert (HE' : Forall (zstats D') (emitted st)).
    { eapply (emitted_stats_keep size Hsize D D' a); try eassumption. }
    assert (Hcov : forall x, 0 < D' x -> covered_by (emitted st ++ [z']) x).
    { intros x Hx. destruct (N.lt_ge_cases x a) as [Hxa|Hxa].
      - rewrite <- HD1 in Hx by assumption. apply covered_by_app_l. now apply R3.
      - destruct (N.lt_ge_cases x b) as [Hxb|Hxb]; [|rewrite HD3 in Hx by assumption; lia].
        apply covered_by_last. rewrite Es, Ee. lia. }
    split; [lia | split; [unfold b; lia|]].
    destruct (N.eqb_spec b (a + size)) as [Eb|Eb].
    + split; [left; reflexivity|]. apply inv_sec.
      unfold Inv. cbn zeta. rewrite emitted_push. cbn [push_live zs_live].
      split; [|split; [|split; [|split; [|split]]]].
      * apply recs_sorted_app; rewrite ?Es, ?Ee; (assumption || lia).
      * apply Forall_app. split; [exact B|]. constructor; [|constructor].
        split; rewrite ?Es, ?Ee, ?Ec; [lia | reflexivity].
      * apply Forall_app. split; [exact HE'|]. constructor; [exact Hz' | constructor].
      * rewrite last_end_app, Ee. lia.
      * rewrite last_end_app, Ee. exact HD3.
      * exact Hcov.
    + split; [right; unfold b in *; lia|]. apply inv_sec.
      apply inv_set_live. cbn zeta. rewrite Es, Ee, Ec.
      csplit; try assumption; try lia; try reflexivity; try (unfold b in *; lia).
Qed.
End Iter.

(* ---- the inner loop over one segment ---- *)
Section Loop.
Variables ips size chrom : N.
Hypothesis Hsize : 1 <= size.
Local Notation inv := (Inv size chrom).

Lemma piece_split : forall rs a a' val x, rs <= a -> a <= a' ->
  seg_at (piece rs a val) x + seg_at (piece a a' val) x = seg_at (piece rs a' val) x.
Proof. intros. seg_cases x; cbn [piece g_start g_end g_val] in *; lia. Qed.

Lemma tile_exit_inv : forall D c has_next st, inv D c st ->
  inv D c (tile_exit has_next st) /\
  (has_next = false -> zs_live (tile_exit has_next st) = None /\ zs_records (tile_exit has_next st) = []).
Proof.
  intros D c has_next st HI. unfold tile_exit. destruct has_next; [split; [exact HI | discriminate]|].
  assert (H1 : inv D c (match zs_live st with Some z => push_live st z | None => st end) /\
               zs_live (match zs_live st with Some z => push_live st z | None => st end) = None).
  { destruct (zs_live st) as [z|] eqn:El; [|split; [exact HI | exact El]].
    split; [apply (Inv_close size chrom Hsize); assumption | reflexivity]. }
  destruct H1 as (H1 & H2). set (st1 := match zs_live st with Some z => push_live st z | None => st end) in *.
  destruct (zs_records st1) eqn:Er.
  - split; [exact H1 | intros _; split; assumption].
  - split; [now apply Inv_send | intros _; split; [exact H2 | reflexivity]].
Qed.

Lemma tile_loop_inv : forall fuel D0 rs re val has_next a st st',
  rs <= re -> 1 <= val ->
  inv (fun x => D0 x + seg_at (piece rs a val) x) a st -> rs <= a -> a <= re ->
  (a = rs \/ zs_live st = None \/ a = re) ->
  tile_loop fuel exact ips size chrom rs re val has_next a st = Ok st' ->
  inv (fun x => D0 x + seg_at (piece rs re val) x) re st' /\
  (has_next = false -> zs_live st' = None /\ zs_records st' = []).
Proof.
  induction fuel as [|f IH]; intros D0 rs re val has_next a st st' Hse Hval HI Ha1 Ha2 Hd Hrun; [discriminate|].
  rewrite tile_loop_S in Hrun. destruct (N.leb_spec re a) as [Hdone|Hmore].
  - inversion Hrun; subst st'. assert (a = re) by lia. subst a. now apply tile_exit_inv.
  - assert (Hfirst : a = rs \/ zs_live st = None) by (destruct Hd as [?|[?|?]]; [now left | now right | exfalso; lia]).
    pose proof (tile_iter_inv ips size chrom Hsize _ rs re val a st HI Ha1 Hmore Hval Hfirst) as Hit.
    cbn zeta in Hit. destruct (tile_iter exact ips size chrom rs re val a st) as [a' st1]. cbn [fst snd] in Hit.
    destruct Hit as (I1 & I2 & I3 & I4).
    eapply (IH D0 rs re val has_next a' st1 st'); try eassumption; try lia.
    + eapply Inv_ext; [|exact I4]. intro x. cbn beta. rewrite <- (piece_split rs a a' val x) by lia. lia.
    + destruct I3 as [?|?]; [right; now left | right; now right].
Qed.
End Loop.

(* ---- a group of segments, the entries of a chromosome ---- *)
Section Chrom.
Variables ips size chrom : N.
Hypothesis Hsize : 1 <= size.
Local Notation inv := (Inv size chrom).

Lemma piece_eta : forall g, piece (g_start g) (g_end g) (g_val g) = g.
Proof. intros []. reflexivity. Qed.

Lemma tile_segs_inv : forall has_next em D c st st',
  segs_sorted c em -> Forall (fun g => 1 <= g_val g) em -> inv D c st ->
  tile_segs exact ips size chrom has_next em st = Ok st' ->
  forall c', Forall (fun g => g_end g <= c') em -> c <= c' ->
  inv (fun x => D x + segs_depth em x) c' st' /\
  (em <> [] -> has_next = false -> zs_live st' = None /\ zs_records st' = []).
Proof.
  intros has_next em. induction em as [|g r IH]; intros D c st st' Hs Hv HI Hrun c' Hends Hc.
  - cbn [tile_segs] in Hrun. inversion Hrun; subst st'. split; [|congruence].
    eapply Inv_ext; [|eapply (Inv_mono size chrom Hsize); eassumption]. intro x. cbn [segs_depth map sumN]. lia.
  - cbn [tile_segs] in Hrun. cbn [segs_sorted] in Hs. destruct Hs as (S1 & S2 & S3).
    inversion Hv as [|? ? Hg Hr]; subst. inversion Hends as [|? ? He Her]; subst.
    destruct (tile_loop (tile_fuel size g) exact ips size chrom (g_start g) (g_end g) (g_val g) has_next (g_start g) st)
      as [st1| | |] eqn:El; cbn [rbind] in Hrun; try discriminate.
    assert (HI0 : inv (fun x => D x + seg_at (piece (g_start g) (g_start g) (g_val g)) x) (g_start g) st).
    { eapply Inv_ext; [|eapply (Inv_mono size chrom Hsize); [exact S1 | exact HI]].
      intro x. rewrite seg_at_out; [lia | cbn [piece g_start g_end]; lia]. }
    destruct (tile_loop_inv ips size chrom Hsize _ D (g_start g) (g_end g) (g_val g) has_next (g_start g) st st1
                S2 Hg HI0 (N.le_refl _) S2 (or_introl eq_refl) El) as (L1 & L2).
    rewrite piece_eta in L1.
    destruct (IH _ _ _ _ S3 Hr L1 Hrun c' Her He) as (J1 & J2).
    split.
    + eapply Inv_ext; [|exact J1]. intro x. cbn beta. rewrite segs_depth_cons. lia.
    + intros _ Hn. destruct r as [|g' r'].
      * cbn [tile_segs] in Hrun. inversion Hrun; subst st'. now apply L2.
      * apply J2; [discriminate | exact Hn].
Qed.

Lemma tail_rule_nonempty : forall s e l, tail_rule s e l <> [].
Proof.
  intros s e l. unfold tail_rule. destruct (last_opt l) as [o|] eqn:E.
  - assert (l <> []) by (destruct l; [discriminate | discriminate]).
    destruct (g_end o <? e); [|assumption]. intro C. apply app_eq_nil in C. tauto.
  - intro C. apply app_eq_nil in C. destruct C; discriminate.
Qed.
Lemma flush_first : forall l s ns, chain s l -> l <> [] -> s < ns -> fst (flush ns l) <> [].
Proof.
  intros [|g r] s ns Hc Hne Hs; [congruence|]. cbn [chain] in Hc. destruct Hc as (H0 & _).
  cbn [flush]. destruct (N.ltb_spec (g_start g) ns); [|exfalso; lia].
  destruct (g_end g <=? ns); [destruct (flush ns r)|]; cbn [fst]; discriminate.
Qed.

Lemma zoom_chrom_inv : forall U r e l D c st st',
  U <= U32_MAX -> Forall (entry_ok U) (e :: r) -> starts_sorted (e :: r) ->
  Forall (fun e => e_start e < U32_MAX) (e :: r) ->
  chain (e_start e) l -> Forall (seg_ok U) l -> c <= e_start e -> inv D c st ->
  bb_zoom_chrom exact ips size chrom l (e :: r) st = Ok st' ->
  inv (fun x => D x + segs_depth (concat (sweep_groups l (e :: r))) x) U32_MAX st' /\
  zs_live st' = None /\ zs_records st' = [].
Proof.
  intros U r. induction r as [|e' r' IH]; intros e l D c st st' HU Hok Hsorted Hlt Hc Hl Hce HI Hrun.
  - inversion Hok as [|? ? He _]; subst. destruct He as (He1 & He2).
    inversion Hlt as [|? ? Hlt1 _]; subst.
    destruct (add_entry_spec l (e_start e) (e_end e) Hc He1) as (A & B).
    pose proof (tail_ok U (e_start e) (e_end e) _ He2 (bump_ok U (e_end e) l He2 Hl)) as Hok1.
    cbn [bb_zoom_chrom hd_error] in Hrun. rewrite sweep_groups_cons. cbn [hd_error]. unfold sweep_step in *. cbn [next_start] in *.
    pose proof (flush_spec _ _ U32_MAX A (N.lt_le_incl _ _ Hlt1)) as (F1 & F2 & F3 & F4).
    pose proof (flush_ok U U32_MAX _ Hok1) as (G1 & G2).
    pose proof (flush_first _ _ U32_MAX A (tail_rule_nonempty _ _ _) Hlt1) as Hne.
    destruct (flush U32_MAX (tail_rule (e_start e) (e_end e) (bump (e_end e) l))) as [em1 l'].
    cbn [fst snd] in *. cbn [sweep_groups concat]. rewrite app_nil_r.
    destruct (tile_segs exact ips size chrom false em1 st) as [st1| | |] eqn:Et; cbn [rbind bb_zoom_chrom] in Hrun; try discriminate.
    inversion Hrun; subst st1.
    assert (Hv : Forall (fun g => 1 <= g_val g) em1) by (eapply Forall_impl; [|exact G1]; intros g (_ & Hg); exact Hg).
    destruct (tile_segs_inv false em1 D c st st' (segs_sorted_weaken _ _ _ Hce F2) Hv HI Et U32_MAX F3 (N.le_trans _ _ _ Hce (N.lt_le_incl _ _ Hlt1))) as (T1 & T2).
    split; [exact T1 | now apply T2].
  - inversion Hok as [|? ? He Hok']; subst. destruct He as (He1 & He2).
    inversion Hlt as [|? ? Hlt1 Hlt']; subst.
    cbn [starts_sorted] in Hsorted. destruct Hsorted as (Hle & Hsorted').
    destruct (add_entry_spec l (e_start e) (e_end e) Hc He1) as (A & B).
    pose proof (tail_ok U (e_start e) (e_end e) _ He2 (bump_ok U (e_end e) l He2 Hl)) as Hok1.
    cbn [bb_zoom_chrom hd_error] in Hrun. rewrite sweep_groups_cons. cbn [hd_error]. unfold sweep_step in *. cbn [next_start] in *.
    pose proof (flush_spec _ _ (e_start e') A Hle) as (F1 & F2 & F3 & F4).
    pose proof (flush_ok U (e_start e') _ Hok1) as (G1 & G2).
    destruct (flush (e_start e') (tail_rule (e_start e) (e_end e) (bump (e_end e) l))) as [em1 l'].
    cbn [fst snd] in *. cbn [concat].
    destruct (tile_segs exact ips size chrom true em1 st) as [st1| | |] eqn:Et; cbn [rbind] in Hrun; try discriminate.
    assert (Hv : Forall (fun g => 1 <= g_val g) em1) by (eapply Forall_impl; [|exact G1]; intros g (_ & Hg); exact Hg).
    destruct (tile_segs_inv true em1 D c st st1 (segs_sorted_weaken _ _ _ Hce F2) Hv HI Et (e_start e') F3 (N.le_trans _ _ _ Hce Hle)) as (T1 & _).
    destruct (IH e' l' _ (e_start e') st1 st' HU Hok' Hsorted' Hlt' F1 G2 (N.le_refl _) T1 Hrun) as (J1 & J2).
    split; [|exact J2].
    eapply Inv_ext; [|exact J1]. intro x. cbn beta. rewrite segs_depth_app. lia.
Qed.
End Chrom.

(* ---- the records of one chromosome at one resolution ---- *)
Definition zstats_spec (d : N -> N) (z : zrec) : Prop :=
  let xs := span (z_start z) (z_end z) in
  let s := z_sum z in
  su_bases s = st_cov d xs /\ su_sum s = f_of_N (st_sum d xs) /\ su_sumsq s = f_of_N (st_sumsq d xs) /\
  su_min s = optf (st_min d xs) /\ su_max s = optf (st_max d xs).

Lemma zstats_is_spec : forall d z, zstats d z <-> zstats_spec d z.
Proof.
  intros. unfold zstats, zstats_spec. cbn zeta.
  rewrite st_cov_fstat.
  split; intros (A & B & C & E & F); (split; [exact A | split; [exact B | split; [exact C | split; [exact E | exact F]]]]).
Qed.

Definition valid_zoom_chrom (U : N) (es : list entry) : Prop :=
  U <= U32_MAX /\ Forall (entry_ok U) es /\ starts_sorted es /\ Forall (fun e => e_start e < U32_MAX) es.

Theorem zoom_records_spec : forall U ips size chrom es secs,
  1 <= size -> valid_zoom_chrom U es ->
  bb_zoom_records exact ips size chrom es = Ok secs ->
  let R := concat secs in
  recs_sorted 0 R /\ Forall (zshape size chrom) R /\ Forall (zstats_spec (depth es)) R /\
  (forall x, 0 < depth es x -> covered_by R x).
Proof.
  intros U ips size chrom es secs Hsize (HU & Hok & Hs & Hlt) Hrun. cbn zeta.
  unfold bb_zoom_records in Hrun.
  destruct (bb_zoom_chrom exact ips size chrom [] es zstate0) as [st'| | |] eqn:Ez; cbn [rbind] in Hrun; try discriminate.
  inversion Hrun; subst secs. clear Hrun.
  destruct es as [|e r].
  - cbn [bb_zoom_chrom] in Ez. inversion Ez; subst st'. cbn [zstate0 zs_out concat recs_sorted].
    split; [exact I | split; [constructor | split; [constructor|]]]. intros x Hx. rewrite depth_nil in Hx. lia.
  - assert (HI0 : Inv size chrom (fun _ => 0) 0 zstate0).
    { unfold Inv, emitted, zstate0. cbn [zs_out zs_records zs_live concat app recs_sorted].
      split; [exact I | split; [constructor | split; [constructor|]]].
      unfold last_end. cbn [fold_left]. split; [lia | split; [reflexivity|]]. intros x Hx. lia. }
    destruct (zoom_chrom_inv ips size chrom Hsize U r e [] _ 0 zstate0 st' HU Hok Hs Hlt I (Forall_nil _) (N.le_0_l _) HI0 Ez)
      as ((A & B & C & R) & Hl & Hr).
    rewrite Hl in R. destruct R as (R1 & R2 & R3).
    assert (Em : emitted st' = concat (zs_out st')) by (unfold emitted; rewrite Hr; apply app_nil_r).
    rewrite Em in *.
    destruct (sweep_eq_rle_depth U (e :: r) HU Hok Hs) as (_ & _ & Hd).
    fold (sweep_emitted (e :: r)) in *.
    destruct (recs_sorted_ends _ _ A) as (_ & Hends).
    split; [exact A | split; [exact B | split]].
    + rewrite Forall_forall in *. intros z Hz. apply zstats_is_spec.
      eapply zstats_ext; [|apply C, Hz]. intros x Hx. cbn beta. rewrite Hd; [lia|].
      specialize (Hends z Hz). cbn beta in Hends. lia.
    + intros x Hx. apply R3. cbn beta.
      destruct (N.lt_ge_cases x U) as [HxU|HxU]; [|rewrite (depth_zero_past U _ x Hok HxU) in Hx; lia].
      rewrite Hd; lia.
Qed.

(* pairwise: a record that comes later starts at or after the end of every earlier one *)
Lemma recs_sorted_pairwise : forall l1 z1 l2 z2 l3 lo,
  recs_sorted lo (l1 ++ z1 :: l2 ++ z2 :: l3) -> z_end z1 <= z_start z2.
Proof.
  induction l1 as [|y l1 IH]; intros z1 l2 z2 l3 lo H; cbn [app recs_sorted] in H.
  - destruct H as (_ & _ & H). clear lo. revert H. generalize (z_end z1) as lo.
    induction l2 as [|y l2 IH2]; intros lo H; cbn [app recs_sorted] in H.
    + lia.
    + destruct H as (A & B & C). specialize (IH2 _ C). lia.
  - destruct H as (_ & _ & H). eapply IH. exact H.
Qed.

(* ---- termination: the fuel handed to the inner loop suffices, whatever the input ---- *)
Definition phi (size re a : N) (st : zstate) : nat :=
  if re <=? a then 1%nat
  else (N.to_nat ((re - a) / size) + 2 + match zs_live st with Some _ => 1 | None => 0 end)%nat.

Lemma div_step : forall size re a, 1 <= size -> a + size <= re -> (re - (a + size)) / size + 1 = (re - a) / size.
Proof.
  intros size re a Hs H. replace (re - a) with ((re - (a + size)) + 1 * size) by lia.
  rewrite N.div_add by lia. reflexivity.
Qed.

(* lia after abstracting the quotients (it does not get through N.div by a variable) *)
Ltac dlia :=
  repeat match goal with H : context [_ / _] |- _ => revert H end;
  repeat match goal with |- context [?x / ?y] => generalize (x / y); intro end;
  intros; lia.

Lemma live_sec' : forall ips st, zs_live (sec ips st) = zs_live st.
Proof. intros. unfold sec. destruct (_ =? _); reflexivity. Qed.

Lemma tile_loop_fuel : forall fuel fp ips size chrom rs re val has_next a st,
  1 <= size -> rs <= a -> (a = rs \/ zs_live st = None \/ re <= a) ->
  (phi size re a st <= fuel)%nat ->
  exists st', tile_loop fuel fp ips size chrom rs re val has_next a st = Ok st'.
Proof.
  induction fuel as [|f IH]; intros fp ips size chrom rs re val has_next a st Hsize Hrs Hd Hphi.
  - exfalso. unfold phi in Hphi. destruct (re <=? a); [lia | destruct (zs_live st); dlia].
  - rewrite tile_loop_S. unfold phi in Hphi. destruct (N.leb_spec re a) as [Hdone|Hmore]; [eexists; reflexivity|].
    assert (Hfirst : a = rs \/ zs_live st = None) by (destruct Hd as [?|[?|?]]; [now left | now right | exfalso; lia]).
    destruct (zs_live st) as [z|] eqn:El.
    + destruct (N.le_gt_cases (z_start z + size) a) as [Hc|Hb].
      * destruct Hfirst as [Hf|Hf]; [|discriminate].
        rewrite (tile_iter_close _ _ _ _ _ _ _ _ _ z El Hc Hmore).
        replace (N.max (z_start z + size) rs) with a by lia.
        apply IH; try assumption.
        -- right; left. now rewrite live_sec'.
        -- unfold phi. destruct (N.leb_spec re a); [exfalso; lia|]. rewrite live_sec'. cbn [push_live zs_live]. dlia.
      * rewrite (tile_iter_extend _ _ _ _ _ _ _ _ _ z El Hb Hmore). cbn zeta.
        set (b := N.min (z_start z + size) re). assert (Hab : a < b) by (unfold b; lia).
        replace (N.max b rs) with b by lia.
        apply IH; try assumption; try lia.
        -- destruct (N.eqb_spec b (z_start z + size)); [right; left; now rewrite live_sec'|].
           right; right. unfold b in *. lia.
        -- unfold phi. destruct (N.leb_spec re b); [dlia|].
           assert (Hq : (re - b) / size <= (re - a) / size) by (apply N.div_le_mono; lia).
           assert (Eb : b = z_start z + size) by (unfold b in *; lia).
           destruct (N.eqb_spec b (z_start z + size)); [|congruence].
           rewrite live_sec'. cbn [push_live zs_live]. clearbody b. dlia.
    + rewrite (tile_iter_fresh _ _ _ _ _ _ _ _ _ El Hsize Hmore). cbn zeta.
      set (b := N.min (a + size) re). assert (Hab : a < b) by (unfold b; lia).
      replace (N.max b rs) with b by lia.
      apply IH; try assumption; try lia.
      * destruct (N.eqb_spec b (a + size)); [right; left; now rewrite live_sec'|].
        right; right. unfold b in *. lia.
      * unfold phi. destruct (N.leb_spec re b); [dlia|].
        assert (Eb : b = a + size) by (unfold b in *; lia).
        destruct (N.eqb_spec b (a + size)); [|congruence].
        rewrite live_sec'. cbn [push_live zs_live].
        pose proof (div_step size re a Hsize ltac:(lia)) as Hdiv. clearbody b. subst b. dlia.
Qed.

Lemma tile_segs_total : forall fp ips size chrom has_next em st, 1 <= size ->
  exists st', tile_segs fp ips size chrom has_next em st = Ok st'.
Proof.
  intros fp ips size chrom has_next em. induction em as [|g r IH]; intros st Hsize; cbn [tile_segs]; [eexists; reflexivity|].
  destruct (tile_loop_fuel (tile_fuel size g) fp ips size chrom (g_start g) (g_end g) (g_val g) has_next (g_start g) st
              Hsize (N.le_refl _) (or_introl eq_refl)) as (st1 & E1).
  - unfold phi, tile_fuel, seg_len. destruct (g_end g <=? g_start g); [dlia|]. destruct (zs_live st); dlia.
  - rewrite E1. cbn [rbind]. apply IH. exact Hsize.
Qed.

Theorem zoom_records_total : forall fp ips size chrom es, 1 <= size ->
  exists secs, bb_zoom_records fp ips size chrom es = Ok secs.
Proof.
  intros fp ips size chrom es Hsize. unfold bb_zoom_records.
  assert (G : forall es l st, exists st', bb_zoom_chrom fp ips size chrom l es st = Ok st').
  { induction es0 as [|e r IH]; intros l st; cbn [bb_zoom_chrom]; [eexists; reflexivity|].
    destruct (sweep_step l e (hd_error r)) as [em l'].
    destruct (tile_segs_total fp ips size chrom (match r with [] => false | _ => true end) em st Hsize) as (st1 & E1).
    rewrite E1. cbn [rbind]. apply IH. }
  destruct (G es [] zstate0) as (st' & E). rewrite E. cbn [rbind]. eexists; reflexivity.
Qed.
