(* IEEE = exact on a checkable domain.
   The statistics theorems (C06, C07, C08, C17) are stated for the non-rounding mode [exact] of
   Base/Float.v; the code computes in binary64 / binary32 (mode [ieee]).  This file proves, once:
   (a) a rounding whose exact argument is representable changes nothing (as a number): [fadd_ieee_exact],
       [fmul_ieee_exact], [to_f32_ieee_exact] (any precision: [round_rep_gen]);
   (b) a sufficient domain: [gval E G x k] -- x denotes k * 2^G, carried by a pair whose exponent is >= E --
       is closed under + and * in both modes while |k| stays below 2^53 (2^24);
   (c) one lemma about [fold_left] of the accumulation steps  acc + len*val  and  acc + (len*val)*val
       ([fold_sum_grid], [fold_sq_grid]), for every mode that is exact on the grid ([mode_ok64]);
   (d) the instance for the bigWig total summary (summary_add / chrom_summary / summary_merge / bw_collect)
       and the decidable generator domain [in_exact_domain].
   Integers only (Z, N); no real numbers. *)
From BT Require Import Base.Util Base.Float Model.RTree Model.BBIFile Model.BigWigWrite Proofs.BwSummary Proofs.BwCollect
  Proofs.C06FileFloat.
Local Open Scope Z_scope.

(* ================= (a) rounding a representable number ================= *)
Definition canonP (prec emin emax m e : Z) : Prop := Z.abs m < 2 ^ prec /\ emin <= e /\ e + bitlen m <= emax.
Definition repP (prec emin emax : Z) (x : fl) : Prop :=
  match x with
  | FFin m e => exists m' e', canonP prec emin emax m' e' /\ same_num (FFin m e) (FFin m' e')
  | _ => True
  end.
(* binary32 numbers; [C06FileFloat.rep64] is [repP 53 (-1074) 1024] *)
Definition rep32 : fl -> Prop := repP 24 (-149) 128.
Lemma rep64_is_repP x : rep64 x <-> repP 53 (-1074) 1024 x.
Proof. destruct x; cbn [rep64 repP]; unfold canon64, canonP; tauto. Qed.

Lemma round_rep_gen prec emin emax m e : 0 < prec -> m <> 0 -> repP prec emin emax (FFin m e) ->
  exists m2 e2, round_dy prec emin emax m e = FFin m2 e2 /\ m2 <> 0 /\ e <= e2 /\
                canonP prec emin emax m2 e2 /\ same_num (FFin m2 e2) (FFin m e).
Proof.
  intros Hp Hm (m' & e' & (C1 & C2 & C3) & Hs).
  destruct (same_num_lead _ _ _ _ Hm Hs) as (Hm' & Hlead & _).
  set (n := bitlen m) in *.
  assert (Hn' : bitlen m' <= prec) by (apply bitlen_le; [lia|exact C1]).
  destruct (bitlen_pos (Z.abs m) ltac:(lia)) as [[La Ua] Bn]. rewrite bitlen_abs in La, Ua, Bn. fold n in La, Ua, Bn.
  unfold round_dy. cbv zeta. destruct (Z.eqb_spec m 0) as [C|_]; [exfalso; exact (Hm C)|]. fold n.
  set (ex := Z.max (e + n - prec) emin).
  destruct (Z.leb_spec ex e) as [Hle|Hgt].
  - destruct (Z.ltb_spec emax (e + bitlen m)) as [C|_]; [exfalso; fold n in C; lia|].
    destruct (Z.eqb_spec m 0) as [C|_]; [exfalso; exact (Hm C)|].
    exists m, e. split; [reflexivity|]. split; [exact Hm|]. split; [lia|]. split; [|apply same_num_refl].
    unfold canonP. fold n. split; [|unfold ex in Hle; lia].
    assert (n <= prec) by (unfold ex in Hle; lia).
    assert (2 ^ n <= 2 ^ prec) by (apply Z.pow_le_mono_r; lia). lia.
  - set (sh := ex - e) in *. assert (Hsh : 0 < sh) by (unfold sh; lia).
    assert (He' : ex <= e') by (unfold ex; lia).
    set (a := Z.abs m) in *.
    assert (Ha : a = Z.abs m' * 2 ^ (e' - ex) * 2 ^ sh).
    { apply (same_num_at e) in Hs; [|lia|lia]. rewrite Z.sub_diag, Z.pow_0_r, Z.mul_1_r in Hs.
      unfold a. rewrite Hs, Z.abs_mul. rewrite (Z.abs_eq (2 ^ (e' - e))) by (apply Z.pow_nonneg; lia).
      rewrite <- Z.mul_assoc, <- pow_split by lia. f_equal. f_equal. unfold sh. lia. }
    set (q0 := Z.abs m' * 2 ^ (e' - ex)) in *.
    assert (Psh : 0 < 2 ^ sh) by (apply Z.pow_pos_nonneg; lia).
    assert (Hq0 : 0 < q0) by (unfold q0; assert (0 < 2 ^ (e' - ex)) by (apply Z.pow_pos_nonneg; lia); nia).
    assert (Eq : Z.shiftr a sh = q0) by (rewrite Z.shiftr_div_pow2 by lia; rewrite Ha; apply Z.div_mul; lia).
    rewrite Eq. rewrite (Z.shiftl_mul_pow2 q0 sh) by lia. rewrite (Z.shiftl_mul_pow2 1 (sh - 1)) by lia.
    rewrite <- Ha. rewrite Z.sub_diag.
    assert (Ph : 0 < 1 * 2 ^ (sh - 1)) by (apply Z.mul_pos_pos; [lia|apply Z.pow_pos_nonneg; lia]).
    destruct (Z.ltb_spec (1 * 2 ^ (sh - 1)) 0) as [C|_]; [exfalso; lia|].
    destruct (Z.eqb_spec 0 (1 * 2 ^ (sh - 1))) as [C|_]; [exfalso; lia|].
    set (m2 := if m <? 0 then - q0 else q0).
    assert (Hm2 : m2 <> 0) by (unfold m2; destruct (m <? 0); lia).
    assert (Ham2 : Z.abs m2 = q0) by (unfold m2; destruct (m <? 0); lia).
    assert (Bq : bitlen m2 = n - sh).
    { pose proof (bitlen_shift q0 sh Hq0 ltac:(lia)) as B. rewrite <- Ha in B. unfold a in B. rewrite bitlen_abs in B. fold n in B.
      rewrite <- bitlen_abs, Ham2. lia. }
    destruct (Z.ltb_spec emax (ex + bitlen m2)) as [C|_]; [exfalso; rewrite Bq in C; unfold sh in C; lia|].
    destruct (Z.eqb_spec m2 0) as [C|_]; [exfalso; exact (Hm2 C)|].
    exists m2, ex. split; [reflexivity|]. split; [exact Hm2|]. split; [lia|]. split.
    + unfold canonP. rewrite Bq. split; [|unfold sh, ex; lia].
      rewrite Ham2. assert (B53 : bitlen q0 <= prec) by (rewrite <- Ham2, bitlen_abs, Bq; unfold sh, ex; lia).
      pose proof (bitlen_lt_pow q0 ltac:(lia)). assert (2 ^ bitlen q0 <= 2 ^ prec) by (apply Z.pow_le_mono_r; lia). lia.
    + apply (same_num_at e); [lia|lia|]. rewrite Z.sub_diag, Z.pow_0_r, Z.mul_1_r. fold sh.
      unfold m2. destruct (Z.ltb_spec m 0); unfold a in Ha; nia.
Qed.

(* zero included: the result denotes the same number; its exponent is not below min(e, 0) *)
Lemma round_exact prec emin emax m e : 0 < prec -> repP prec emin emax (FFin m e) ->
  exists m2 e2, round_dy prec emin emax m e = FFin m2 e2 /\ Z.min e 0 <= e2 /\ same_num (FFin m2 e2) (FFin m e).
Proof.
  intros Hp Hr. destruct (Z.eq_dec m 0) as [->|Hm].
  - exists 0, 0. split; [reflexivity|]. split; [lia|]. cbn [same_num]. lia.
  - destruct (round_rep_gen prec emin emax m e Hp Hm Hr) as (m2 & e2 & R & _ & He & _ & Hs).
    exists m2, e2. split; [exact R|]. split; [lia|exact Hs].
Qed.

(* the IEEE operation is the rounding of the exact one *)
Lemma fadd64_ieee_round a b : fadd64 ieee a b =
  match fadd64 exact a b with FFin m e => round_dy 53 (-1074) 1024 m e | x => x end.
Proof.
  destruct a as [m1 e1| |s1], b as [m2 e2| |s2]; try reflexivity.
  cbn. destruct (Bool.eqb s1 s2); reflexivity.
Qed.
Lemma fmul64_ieee_round a b : fmul64 ieee a b =
  match fmul64 exact a b with FFin m e => round_dy 53 (-1074) 1024 m e | x => x end.
Proof.
  destruct a as [m1 e1| |s1], b as [m2 e2| |s2]; try reflexivity;
    unfold fmul64, fmul_with; repeat match goal with |- context [if ?c then _ else _] => destruct c end; reflexivity.
Qed.

Theorem fadd_ieee_exact x y : rep64 (fadd64 exact x y) -> same_num (fadd64 ieee x y) (fadd64 exact x y).
Proof.
  rewrite fadd64_ieee_round. destruct (fadd64 exact x y) as [m e| |s]; intros H; try apply same_num_refl.
  apply rep64_is_repP in H. destruct (round_exact 53 (-1074) 1024 m e ltac:(lia) H) as (m2 & e2 & R & _ & S).
  rewrite R. exact S.
Qed.
Theorem fmul_ieee_exact x y : rep64 (fmul64 exact x y) -> same_num (fmul64 ieee x y) (fmul64 exact x y).
Proof.
  rewrite fmul64_ieee_round. destruct (fmul64 exact x y) as [m e| |s]; intros H; try apply same_num_refl.
  apply rep64_is_repP in H. destruct (round_exact 53 (-1074) 1024 m e ltac:(lia) H) as (m2 & e2 & R & _ & S).
  rewrite R. exact S.
Qed.
(* `x as f32` of a binary32 number ([to_f32 exact x = x]) *)
Theorem to_f32_ieee_exact x : rep32 x -> same_num (to_f32 ieee x) x /\ to_f32 exact x = x.
Proof.
  intros H. split; [|destruct x; reflexivity]. destruct x as [m e| |s]; try apply same_num_refl.
  destruct (round_exact 24 (-149) 128 m e ltac:(lia) H) as (m2 & e2 & R & _ & S).
  cbn [to_f32 ieee r32]. rewrite R. exact S.
Qed.

(* non-vacuity: 2^60 + 2^60 (mantissa 2^61 at exponent 0 is shifted, nothing is lost); 0.1f32 * 3 is NOT
   covered (the hypothesis fails and the results differ) *)
Example fadd_ieee_exact_example :
  rep64 (fadd64 exact (FFin (2 ^ 60) 0) (FFin (2 ^ 60) 0)) /\
  fadd64 ieee (FFin (2 ^ 60) 0) (FFin (2 ^ 60) 0) = FFin (2 ^ 52) 9 /\
  fadd64 exact (FFin (2 ^ 60) 0) (FFin (2 ^ 60) 0) = FFin (2 ^ 61) 0 /\
  ~ same_num (fmul64 ieee (FFin (2 ^ 53 + 1) 0) (FFin 3 0)) (fmul64 exact (FFin (2 ^ 53 + 1) 0) (FFin 3 0)).
Proof.
  split; [|split; [vm_compute; reflexivity|split; [vm_compute; reflexivity|vm_compute; discriminate]]].
  exists 1, 61. split; [vm_compute; repeat split; discriminate|vm_compute; reflexivity].
Qed.

(* ================= (b) the grid ================= *)
(* x denotes the number k * 2^G and is carried by a pair (m, e) with E <= e; E is only a unit of
   measurement below every exponent in play (Proofs/BwSummary.v [fval] / [fin_ge]) *)
Definition gval (E G : Z) (x : fl) (k : Z) : Prop := fin_ge E x /\ fval E x = k * 2 ^ (G - E).
(* x is an integer multiple of 2^G (decidable), and which one *)
Definition on_grid (E G : Z) (x : fl) : Prop := fin_ge E x /\ fval E x mod 2 ^ (G - E) = 0.
Definition gk (E G : Z) (x : fl) : Z := fval E x / 2 ^ (G - E).
(* the statement of the task: an integer multiple of 2^G, at most B * 2^G in absolute value *)
Definition grid (E G B : Z) (x : fl) : Prop := on_grid E G x /\ Z.abs (gk E G x) <= B.

Lemma on_grid_gval E G x : E <= G -> on_grid E G x -> gval E G x (gk E G x).
Proof.
  intros HG (Hf & Hm). split; [exact Hf|]. unfold gk.
  assert (P : 0 < 2 ^ (G - E)) by (apply Z.pow_pos_nonneg; lia).
  pose proof (Z.div_mod (fval E x) (2 ^ (G - E)) ltac:(lia)) as D. rewrite Hm in D. lia.
Qed.
Lemma gval_on_grid E G x k : E <= G -> gval E G x k -> on_grid E G x /\ gk E G x = k.
Proof.
  intros HG (Hf & Hv). assert (P : 0 < 2 ^ (G - E)) by (apply Z.pow_pos_nonneg; lia).
  split; [split; [exact Hf|rewrite Hv; apply Z.mod_mul; lia]|]. unfold gk. rewrite Hv. apply Z.div_mul. lia.
Qed.
Lemma gval_inj E G x k k' : E <= G -> gval E G x k -> gval E G x k' -> k = k'.
Proof.
  intros HG (_ & H1) (_ & H2). assert (P : 0 < 2 ^ (G - E)) by (apply Z.pow_pos_nonneg; lia).
  rewrite H1 in H2. apply Z.mul_reg_r in H2; [exact H2|lia].
Qed.
(* two carriers of the same grid number denote the same number *)
Lemma gval_same_num E G a b k : gval E G a k -> gval E G b k -> same_num a b /\ fval E a = fval E b.
Proof.
  intros (Fa & Va) (Fb & Vb). split; [|congruence]. apply (fval_same_num E); [exact Fa|exact Fb|congruence].
Qed.
Lemma gval_finite E G x k : gval E G x k -> exists m e, x = FFin m e /\ E <= e.
Proof. intros (F & _). destruct x as [m e| |]; cbn [fin_ge] in F; try contradiction. eauto. Qed.

(* a grid number with |k| < 2^prec is a floating-point number of that precision *)
Lemma gval_rep prec emin emax E G m e k : 0 <= prec -> E <= G -> emin <= G -> G + prec <= emax -> Z.abs k < 2 ^ prec ->
  gval E G (FFin m e) k -> repP prec emin emax (FFin m e).
Proof.
  intros Hp HG Hmin Hmax Hk (F & V). cbn [fin_ge] in F. cbn [fval] in V.
  exists k, G. split.
  - split; [exact Hk|]. split; [exact Hmin|]. pose proof (bitlen_le k prec Hp Hk). lia.
  - apply (same_num_at E); [lia|lia|exact V].
Qed.

(* rounding to [prec] bits leaves a grid number with |k| < 2^prec on the grid, same k *)
Lemma gval_round prec emin emax E G m e k : 0 < prec -> E <= 0 -> E <= G -> emin <= G -> G + prec <= emax ->
  Z.abs k < 2 ^ prec -> gval E G (FFin m e) k -> gval E G (round_dy prec emin emax m e) k.
Proof.
  intros Hp HE HG Hmin Hmax Hk H.
  pose proof (gval_rep prec emin emax E G m e k ltac:(lia) HG Hmin Hmax Hk H) as R.
  destruct (round_exact prec emin emax m e Hp R) as (m2 & e2 & Er & He & Hs). rewrite Er.
  destruct H as (F & V). cbn [fin_ge] in F. cbn [fval] in V.
  split; [cbn [fin_ge]; lia|]. cbn [fval]. rewrite <- V. apply (same_num_at E); [lia|lia|exact Hs].
Qed.

(* a mode whose binary64 rounding keeps grid numbers below 2^53 *)
Definition mode_ok64 (fp : fpmode) (E G : Z) : Prop :=
  forall m e k, Z.abs k < 2 ^ 53 -> gval E G (FFin m e) k -> gval E G (r64 fp m e) k.
Lemma mode_ok64_exact E G : mode_ok64 exact E G.
Proof. intros m e k _ H. exact H. Qed.
Lemma mode_ok64_ieee E G : E <= 0 -> E <= G -> -1074 <= G <= 971 -> mode_ok64 ieee E G.
Proof. intros HE HG HR m e k Hk H. cbn [ieee r64]. apply gval_round; try lia; assumption. Qed.

Definition P53 : Z := 2 ^ 53.

(* closure under + and *, any mode that is exact on the grid *)
Lemma gval_fadd fp E G a b ka kb : mode_ok64 fp E G -> gval E G a ka -> gval E G b kb ->
  Z.abs (ka + kb) < P53 -> gval E G (fadd64 fp a b) (ka + kb).
Proof.
  intros Hfp Ha Hb Hk.
  destruct (gval_finite _ _ _ _ Ha) as (m1 & e1 & -> & _). destruct (gval_finite _ _ _ _ Hb) as (m2 & e2 & -> & _).
  destruct Ha as (Fa & Va), Hb as (Fb & Vb).
  pose proof (fadd_val E _ _ Fa Fb) as (F & V).
  change (fadd64 fp (FFin m1 e1) (FFin m2 e2))
    with (r64 fp (Z.shiftl m1 (e1 - Z.min e1 e2) + Z.shiftl m2 (e2 - Z.min e1 e2)) (Z.min e1 e2)).
  change (fadd64 exact (FFin m1 e1) (FFin m2 e2))
    with (FFin (Z.shiftl m1 (e1 - Z.min e1 e2) + Z.shiftl m2 (e2 - Z.min e1 e2)) (Z.min e1 e2)) in F, V.
  apply Hfp; [exact Hk|]. split; [exact F|]. rewrite V, Va, Vb. ring.
Qed.
Lemma gval_fmul fp E1 G1 E2 G2 a b ka kb : E1 <= G1 -> E2 <= G2 -> mode_ok64 fp (E1 + E2) (G1 + G2) ->
  gval E1 G1 a ka -> gval E2 G2 b kb -> Z.abs (ka * kb) < P53 -> gval (E1 + E2) (G1 + G2) (fmul64 fp a b) (ka * kb).
Proof.
  intros H1 H2 Hfp Ha Hb Hk.
  destruct (gval_finite _ _ _ _ Ha) as (m1 & e1 & -> & _). destruct (gval_finite _ _ _ _ Hb) as (m2 & e2 & -> & _).
  destruct Ha as (Fa & Va), Hb as (Fb & Vb).
  pose proof (fmul_val E1 E2 _ _ Fa Fb) as (F & V).
  change (fmul64 fp (FFin m1 e1) (FFin m2 e2)) with (r64 fp (m1 * m2) (e1 + e2)).
  change (fmul64 exact (FFin m1 e1) (FFin m2 e2)) with (FFin (m1 * m2) (e1 + e2)) in F, V.
  apply Hfp; [exact Hk|]. split; [exact F|]. rewrite V, Va, Vb.
  replace (G1 + G2 - (E1 + E2)) with ((G1 - E1) + (G2 - E2)) by lia. rewrite Z.pow_add_r by lia. ring.
Qed.
Lemma gval_N n : gval 0 0 (f_of_N n) (Z.of_N n).
Proof. split; [apply fin_ge_N|]. rewrite fval_N. cbn. lia. Qed.
Lemma gval_zero E G : E <= 0 -> gval E G fzero 0.
Proof. intros H. split; [cbn; lia|reflexivity]. Qed.

(* (b) as asked: sums and products of grid values stay on the grid and are computed exactly by the IEEE
   operations while the bound stays below 2^53 *)
Theorem grid_fadd_ieee E G B1 B2 x y : E <= 0 -> E <= G -> -1074 <= G <= 971 -> B1 + B2 < P53 ->
  grid E G B1 x -> grid E G B2 y ->
  grid E G (B1 + B2) (fadd64 ieee x y) /\ grid E G (B1 + B2) (fadd64 exact x y) /\
  same_num (fadd64 ieee x y) (fadd64 exact x y).
Proof.
  intros HE HG HR HB (Gx & Bx) (Gy & By).
  pose proof (on_grid_gval _ _ _ HG Gx) as Vx. pose proof (on_grid_gval _ _ _ HG Gy) as Vy.
  assert (Hk : Z.abs (gk E G x + gk E G y) < P53) by lia.
  pose proof (gval_fadd ieee E G x y _ _ (mode_ok64_ieee E G HE HG HR) Vx Vy Hk) as Hi.
  pose proof (gval_fadd exact E G x y _ _ (mode_ok64_exact E G) Vx Vy Hk) as He.
  destruct (gval_on_grid _ _ _ _ HG Hi) as (Oi & Ki). destruct (gval_on_grid _ _ _ _ HG He) as (Oe & Ke).
  split; [split; [exact Oi|rewrite Ki; lia]|]. split; [split; [exact Oe|rewrite Ke; lia]|].
  exact (proj1 (gval_same_num _ _ _ _ _ Hi He)).
Qed.
Theorem grid_fmul_ieee E1 G1 E2 G2 B1 B2 x y : E1 <= G1 -> E2 <= G2 -> E1 + E2 <= 0 -> -1074 <= G1 + G2 <= 971 ->
  0 <= B1 -> B1 * B2 < P53 -> grid E1 G1 B1 x -> grid E2 G2 B2 y ->
  grid (E1 + E2) (G1 + G2) (B1 * B2) (fmul64 ieee x y) /\ grid (E1 + E2) (G1 + G2) (B1 * B2) (fmul64 exact x y) /\
  same_num (fmul64 ieee x y) (fmul64 exact x y).
Proof.
  intros H1 H2 HE HR HB1 HB (Gx & Bx) (Gy & By).
  pose proof (on_grid_gval _ _ _ H1 Gx) as Vx. pose proof (on_grid_gval _ _ _ H2 Gy) as Vy.
  assert (Hkk : Z.abs (gk E1 G1 x * gk E2 G2 y) <= B1 * B2) by (rewrite Z.abs_mul; nia).
  assert (Hk : Z.abs (gk E1 G1 x * gk E2 G2 y) < P53) by lia.
  assert (HG : E1 + E2 <= G1 + G2) by lia.
  pose proof (gval_fmul ieee E1 G1 E2 G2 x y _ _ H1 H2 (mode_ok64_ieee _ _ HE HG HR) Vx Vy Hk) as Hi.
  pose proof (gval_fmul exact E1 G1 E2 G2 x y _ _ H1 H2 (mode_ok64_exact _ _) Vx Vy Hk) as He.
  destruct (gval_on_grid _ _ _ _ HG Hi) as (Oi & Ki). destruct (gval_on_grid _ _ _ _ HG He) as (Oe & Ke).
  split; [split; [exact Oi|rewrite Ki; exact Hkk]|]. split; [split; [exact Oe|rewrite Ke; exact Hkk]|].
  exact (proj1 (gval_same_num _ _ _ _ _ Hi He)).
Qed.
(* binary32: narrowing a grid number with |k| < 2^24 changes nothing *)
Theorem grid_to_f32_ieee E G x k : E <= 0 -> E <= G -> -149 <= G <= 104 -> Z.abs k < 2 ^ 24 ->
  gval E G x k -> gval E G (to_f32 ieee x) k /\ same_num (to_f32 ieee x) x.
Proof.
  intros HE HG HR Hk H. destruct (gval_finite _ _ _ _ H) as (m & e & -> & _).
  assert (Hr : gval E G (to_f32 ieee (FFin m e)) k) by (cbn [to_f32 ieee r32]; apply gval_round; try lia; assumption).
  split; [exact Hr|]. exact (proj1 (gval_same_num _ _ _ _ _ Hr H)).
Qed.

(* non-vacuity: 3.25 and -0.125 as binary32 carriers (unit 2^-149), multiples of 1/8 *)
Example grid_example :
  grid (-149) (-3) 8192 (f32_of_bits 1078984704) /\ grid (-149) (-3) 8192 (f32_of_bits 3187671040) /\
  gk (-149) (-3) (f32_of_bits 1078984704) = 26 /\ gk (-149) (-3) (f32_of_bits 3187671040) = -1 /\
  gk (-149) (-3) (fadd64 ieee (f32_of_bits 1078984704) (f32_of_bits 3187671040)) = 25.
Proof. vm_compute. repeat split; congruence. Qed.

(* ================= (c) the accumulation folds ================= *)
Section Fold.
Context {T : Type} (len : T -> N) (val : T -> fl).
(* acc += len * val   and   acc += (len * val) * val, as every statistics loop of the code does *)
Definition step_sum (fp : fpmode) (a : fl) (t : T) : fl := fadd64 fp a (fmul64 fp (f_of_N (len t)) (val t)).
Definition step_sq (fp : fpmode) (a : fl) (t : T) : fl :=
  fadd64 fp a (fmul64 fp (fmul64 fp (f_of_N (len t)) (val t)) (val t)).

Variable kv : T -> Z.
Definition ksum (l : list T) : Z := zsum (map (fun t => Z.of_N (len t) * kv t) l).
Definition kabs (l : list T) : Z := zsum (map (fun t => Z.of_N (len t) * Z.abs (kv t)) l).
Definition ksq (l : list T) : Z := zsum (map (fun t => Z.of_N (len t) * kv t * kv t) l).

Lemma kabs_nonneg l : 0 <= kabs l.
Proof. unfold kabs. induction l as [|t l IH]; cbn [map zsum fold_right]; [lia|]. unfold zsum in IH. nia. Qed.
Lemma ksq_nonneg l : 0 <= ksq l.
Proof. unfold ksq. induction l as [|t l IH]; cbn [map zsum fold_right]; [lia|]. unfold zsum in IH. nia. Qed.
Lemma ksum_le_kabs l : Z.abs (ksum l) <= kabs l.
Proof. unfold ksum, kabs. induction l as [|t l IH]; cbn [map zsum fold_right]; [lia|]. unfold zsum in IH. nia. Qed.
(* whole numbers: |k| <= k^2, so the bound on the squares also bounds the plain sum *)
Lemma kabs_le_ksq l : kabs l <= ksq l.
Proof.
  unfold ksq, kabs. induction l as [|t l IH]; cbn [map zsum fold_right]; [lia|]. unfold zsum in IH.
  assert (H1 : Z.abs (kv t) <= kv t * kv t) by nia.
  pose proof (Z.mul_le_mono_nonneg_l _ _ (Z.of_N (len t)) ltac:(lia) H1). lia.
Qed.
Lemma ksum_app a b : ksum (a ++ b) = ksum a + ksum b.
Proof. unfold ksum. now rewrite map_app, zsum_app. Qed.
Lemma kabs_app a b : kabs (a ++ b) = kabs a + kabs b.
Proof. unfold kabs. now rewrite map_app, zsum_app. Qed.
Lemma ksq_app a b : ksq (a ++ b) = ksq a + ksq b.
Proof. unfold ksq. now rewrite map_app, zsum_app. Qed.

(* THE fold lemma, sum:  values on the grid 2^G, |start| + sum of len*|val| below 2^53 (in grid units) *)
Lemma fold_sum_grid fp E G : E <= G -> mode_ok64 fp E G -> forall l a ka,
  Forall (fun t => gval E G (val t) (kv t)) l -> gval E G a ka -> Z.abs ka + kabs l < P53 ->
  gval E G (fold_left (step_sum fp) l a) (ka + ksum l).
Proof.
  intros HG Hfp. induction l as [|t l IH]; intros a ka Hl Ha Hb.
  - cbn [fold_left]. unfold ksum. cbn [map zsum fold_right]. rewrite Z.add_0_r. exact Ha.
  - inversion Hl as [|? ? Ht Hr]; subst. cbn [fold_left].
    unfold ksum, kabs in *. cbn [map zsum fold_right] in *. fold (zsum (map (fun t => Z.of_N (len t) * kv t) l)).
    fold (zsum (map (fun t => Z.of_N (len t) * Z.abs (kv t)) l)) in Hb.
    pose proof (kabs_nonneg l) as Hn. unfold kabs in Hn.
    assert (Hp : gval E G (fmul64 fp (f_of_N (len t)) (val t)) (Z.of_N (len t) * kv t)).
    { pose proof (gval_fmul fp 0 0 E G _ _ _ _ ltac:(lia) HG Hfp (gval_N (len t)) Ht) as H.
      rewrite !Z.add_0_l in H. apply H. rewrite Z.abs_mul. lia. }
    assert (Hs : gval E G (step_sum fp a t) (ka + Z.of_N (len t) * kv t)).
    { unfold step_sum. apply gval_fadd; [exact Hfp|exact Ha|exact Hp|]. pose proof (Z.abs_mul (Z.of_N (len t)) (kv t)). lia. }
    rewrite Z.add_assoc. apply IH; [exact Hr|exact Hs|]. pose proof (Z.abs_mul (Z.of_N (len t)) (kv t)). lia.
Qed.

(* ... sum of squares: grid 2^(2G); the bound on the squares covers the inner product len*val too *)
Lemma fold_sq_grid fp E G : E <= G -> mode_ok64 fp E G -> mode_ok64 fp (E + E) (G + G) -> forall l a ka,
  Forall (fun t => gval E G (val t) (kv t)) l -> gval (E + E) (G + G) a ka -> Z.abs ka + ksq l < P53 ->
  gval (E + E) (G + G) (fold_left (step_sq fp) l a) (ka + ksq l).
Proof.
  intros HG Hfp Hfp2. induction l as [|t l IH]; intros a ka Hl Ha Hb.
  - cbn [fold_left]. unfold ksq. cbn [map zsum fold_right]. rewrite Z.add_0_r. exact Ha.
  - inversion Hl as [|? ? Ht Hr]; subst. cbn [fold_left].
    unfold ksq in *. cbn [map zsum fold_right] in *. fold (zsum (map (fun t => Z.of_N (len t) * kv t * kv t) l)) in *.
    pose proof (ksq_nonneg l) as Hn. unfold ksq in Hn.
    set (n := Z.of_N (len t)) in *. assert (Hn0 : 0 <= n) by (unfold n; lia).
    assert (Hsq : 0 <= n * kv t * kv t) by nia.
    assert (Hab : Z.abs (n * kv t) <= n * kv t * kv t).
    { rewrite Z.abs_mul, (Z.abs_eq n) by lia. assert (H1 : Z.abs (kv t) <= kv t * kv t) by nia.
      pose proof (Z.mul_le_mono_nonneg_l _ _ n Hn0 H1). lia. }
    assert (Hp : gval E G (fmul64 fp (f_of_N (len t)) (val t)) (n * kv t)).
    { pose proof (gval_fmul fp 0 0 E G _ _ _ _ ltac:(lia) HG Hfp (gval_N (len t)) Ht) as H.
      rewrite !Z.add_0_l in H. apply H. fold n. lia. }
    assert (Hq : gval (E + E) (G + G) (fmul64 fp (fmul64 fp (f_of_N (len t)) (val t)) (val t)) (n * kv t * kv t)).
    { apply gval_fmul; try assumption. rewrite Z.abs_eq by lia. lia. }
    assert (Hs : gval (E + E) (G + G) (step_sq fp a t) (ka + n * kv t * kv t)).
    { unfold step_sq. apply gval_fadd; [exact Hfp2|exact Ha|exact Hq|]. lia. }
    rewrite Z.add_assoc. apply IH; [exact Hr|exact Hs|]. lia.
Qed.
End Fold.

(* conditions on the unit E and the grid exponent G: sums need 2^G >= 2^-1074, squares 2^(2G) >= 2^-1074 *)
Definition grid_ok_sum (E G : Z) : Prop := E <= 0 /\ E <= G /\ -1074 <= G <= 971.
Definition grid_ok (E G : Z) : Prop := E <= 0 /\ E <= G /\ -537 <= G <= 485.
Lemma grid_ok_modes E G : grid_ok E G -> mode_ok64 ieee E G /\ mode_ok64 ieee (E + E) (G + G) /\ grid_ok_sum E G.
Proof.
  intros (H1 & H2 & H3). split; [apply mode_ok64_ieee; lia|]. split; [apply mode_ok64_ieee; lia|]. unfold grid_ok_sum. lia.
Qed.

(* IEEE fold = exact fold, as numbers, field by field: both carry the same grid number *)
Theorem fold_sum_ieee_exact {T} (len : T -> N) (val : T -> fl) E G l : grid_ok_sum E G ->
  Forall (fun t => on_grid E G (val t)) l -> kabs len (fun t => gk E G (val t)) l < P53 ->
  let k := ksum len (fun t => gk E G (val t)) l in
  gval E G (fold_left (step_sum len val ieee) l fzero) k /\ gval E G (fold_left (step_sum len val exact) l fzero) k /\
  same_num (fold_left (step_sum len val ieee) l fzero) (fold_left (step_sum len val exact) l fzero).
Proof.
  intros (HE & HG & HR) Hl Hb k.
  assert (Hl' : Forall (fun t => gval E G (val t) (gk E G (val t))) l).
  { eapply Forall_impl; [|exact Hl]. intros t. apply on_grid_gval. exact HG. }
  pose proof (fold_sum_grid len val _ ieee E G HG (mode_ok64_ieee E G HE HG HR) l fzero 0 Hl' (gval_zero E G HE) ltac:(cbn [Z.abs]; lia)) as Hi.
  pose proof (fold_sum_grid len val _ exact E G HG (mode_ok64_exact E G) l fzero 0 Hl' (gval_zero E G HE) ltac:(cbn [Z.abs]; lia)) as He.
  rewrite Z.add_0_l in Hi, He. split; [exact Hi|]. split; [exact He|]. exact (proj1 (gval_same_num _ _ _ _ _ Hi He)).
Qed.
Theorem fold_sq_ieee_exact {T} (len : T -> N) (val : T -> fl) E G l : grid_ok E G ->
  Forall (fun t => on_grid E G (val t)) l -> ksq len (fun t => gk E G (val t)) l < P53 ->
  let k := ksq len (fun t => gk E G (val t)) l in
  gval (E + E) (G + G) (fold_left (step_sq len val ieee) l fzero) k /\
  gval (E + E) (G + G) (fold_left (step_sq len val exact) l fzero) k /\
  same_num (fold_left (step_sq len val ieee) l fzero) (fold_left (step_sq len val exact) l fzero).
Proof.
  intros Hok Hl Hb k. destruct (grid_ok_modes E G Hok) as (M1 & M2 & _). destruct Hok as (HE & HG & HR).
  assert (Hl' : Forall (fun t => gval E G (val t) (gk E G (val t))) l).
  { eapply Forall_impl; [|exact Hl]. intros t. apply on_grid_gval. exact HG. }
  assert (Hz : gval (E + E) (G + G) fzero 0) by (apply gval_zero; lia).
  pose proof (fold_sq_grid len val _ ieee E G HG M1 M2 l fzero 0 Hl' Hz ltac:(cbn [Z.abs]; lia)) as Hi.
  pose proof (fold_sq_grid len val _ exact E G HG (mode_ok64_exact _ _) (mode_ok64_exact _ _) l fzero 0 Hl' Hz ltac:(cbn [Z.abs]; lia)) as He.
  rewrite Z.add_0_l in Hi, He. split; [exact Hi|]. split; [exact He|]. exact (proj1 (gval_same_num _ _ _ _ _ Hi He)).
Qed.

(* ================= (d) bigWig values; the total summary (C06) ================= *)
Definition vlenN (v : value) : N := v_end v - v_start v.
Definition vgrid (E G : Z) (v : value) : Prop := on_grid E G (v_val v).
Definition vk (E G : Z) (v : value) : Z := gk E G (v_val v).
(* in units of 2^G resp. 2^(2G): sum of len*val, of len*|val|, of len*val^2 *)
Definition gsum (E G : Z) (vs : list value) : Z := ksum vlenN (vk E G) vs.
Definition gabs (E G : Z) (vs : list value) : Z := kabs vlenN (vk E G) vs.
Definition gsq (E G : Z) (vs : list value) : Z := ksq vlenN (vk E G) vs.

Lemma vgrid_gval E G vs : E <= G -> Forall (vgrid E G) vs -> Forall (fun v => gval E G (v_val v) (vk E G v)) vs.
Proof. intros HG H. eapply Forall_impl; [|exact H]. intros v. apply on_grid_gval. exact HG. Qed.

(* summary_add is the two accumulation steps plus fields that do not depend on the mode *)
Lemma su_sum_fold fp vs : forall s,
  su_sum (fold_left (summary_add fp) vs s) = fold_left (step_sum vlenN v_val fp) vs (su_sum s).
Proof. induction vs as [|v r IH]; intro s; cbn [fold_left]; [reflexivity|]. rewrite IH. reflexivity. Qed.
Lemma su_sumsq_fold fp vs : forall s,
  su_sumsq (fold_left (summary_add fp) vs s) = fold_left (step_sq vlenN v_val fp) vs (su_sumsq s).
Proof. induction vs as [|v r IH]; intro s; cbn [fold_left]; [reflexivity|]. rewrite IH. reflexivity. Qed.

Definition nf_eq (s s' : summary) : Prop :=
  su_items s = su_items s' /\ su_bases s = su_bases s' /\ su_min s = su_min s' /\ su_max s = su_max s'.
Lemma nf_fold fp fp' vs : forall s s', nf_eq s s' -> nf_eq (fold_left (summary_add fp) vs s) (fold_left (summary_add fp') vs s').
Proof.
  induction vs as [|v r IH]; intros s s' H; cbn [fold_left]; [exact H|]. apply IH.
  destruct H as (A & B & C & D). unfold nf_eq, summary_add. cbn [su_items su_bases su_min su_max].
  rewrite A, B, C, D. repeat split.
Qed.

Definition gsummary (E G : Z) (s : summary) (ks kq : Z) : Prop :=
  gval E G (su_sum s) ks /\ gval (E + E) (G + G) (su_sumsq s) kq.

Section Bw.
Variables (fp : fpmode) (E G : Z).
Hypothesis HG : E <= G.
Hypothesis HE : E <= 0.
Hypothesis M1 : mode_ok64 fp E G.
Hypothesis M2 : mode_ok64 fp (E + E) (G + G).

Lemma gs_fold vs s ks kq : Forall (vgrid E G) vs -> gsummary E G s ks kq ->
  Z.abs ks + gabs E G vs < P53 -> Z.abs kq + gsq E G vs < P53 ->
  gsummary E G (fold_left (summary_add fp) vs s) (ks + gsum E G vs) (kq + gsq E G vs).
Proof.
  intros Hv (H1 & H2) B1 B2. pose proof (vgrid_gval E G vs HG Hv) as Hv'. split.
  - rewrite su_sum_fold. apply fold_sum_grid; assumption.
  - rewrite su_sumsq_fold. apply fold_sq_grid; assumption.
Qed.

Lemma gs_chrom vs : Forall (vgrid E G) vs -> gabs E G vs < P53 -> gsq E G vs < P53 ->
  gsummary E G (chrom_summary fp vs) (gsum E G vs) (gsq E G vs).
Proof.
  intros Hv B1 B2.
  assert (H0 : gsummary E G summary_init 0 0) by (split; apply gval_zero; lia).
  pose proof (gs_fold vs summary_init 0 0 Hv H0 ltac:(cbn [Z.abs]; lia) ltac:(cbn [Z.abs]; lia)) as H.
  rewrite !Z.add_0_l in H. unfold chrom_summary.
  destruct (N.eqb _ 0); [|exact H]. exact H.
Qed.

Lemma gs_total : forall chroms s0 k0 q0, Forall (Forall (vgrid E G)) chroms -> gsummary E G s0 k0 q0 ->
  Z.abs k0 + gabs E G (concat chroms) < P53 -> Z.abs q0 + gsq E G (concat chroms) < P53 ->
  exists s, fold_left (summary_merge fp) (map (chrom_summary fp) chroms) (Some s0) = Some s /\
            gsummary E G s (k0 + gsum E G (concat chroms)) (q0 + gsq E G (concat chroms)).
Proof.
  induction chroms as [|c r IH]; intros s0 k0 q0 Hv H0 B1 B2; cbn [map fold_left concat] in *.
  - exists s0. split; [reflexivity|]. unfold gsum, gsq, ksum, ksq. cbn [map zsum fold_right]. rewrite !Z.add_0_r. exact H0.
  - inversion Hv as [|? ? Hc Hr]; subst.
    unfold gabs, gsq, gsum in *. rewrite kabs_app in B1. rewrite ksq_app in B2. rewrite ksum_app, ksq_app.
    pose proof (kabs_nonneg vlenN (vk E G) c) as N1. pose proof (kabs_nonneg vlenN (vk E G) (concat r)) as N2.
    pose proof (ksq_nonneg vlenN (vk E G) c) as N3. pose proof (ksq_nonneg vlenN (vk E G) (concat r)) as N4.
    pose proof (ksum_le_kabs vlenN (vk E G) c) as N5.
    destruct (gs_chrom c Hc ltac:(unfold gabs; lia) ltac:(unfold gsq; lia)) as (C1 & C2).
    destruct H0 as (A1 & A2). unfold gsum, gsq in C1, C2.
    cbn [summary_merge].
    match goal with |- context [fold_left _ _ (Some ?S)] => set (s1 := S) end.
    assert (H1 : gsummary E G s1 (k0 + ksum vlenN (vk E G) c) (q0 + ksq vlenN (vk E G) c)).
    { split; unfold s1; cbn [su_sum su_sumsq]; apply gval_fadd; try assumption; lia. }
    destruct (IH s1 _ _ Hr H1 ltac:(lia) ltac:(lia)) as (s & Es & Hs).
    exists s. split; [exact Es|]. rewrite !Z.add_assoc. exact Hs.
Qed.
End Bw.

(* the fields that do not depend on the mode, through chrom_summary and the `advance` fold *)
Lemma nf_chrom fp fp' vs : nf_eq (chrom_summary fp vs) (chrom_summary fp' vs).
Proof.
  unfold chrom_summary. pose proof (nf_fold fp fp' vs summary_init summary_init ltac:(repeat split)) as H.
  destruct H as (A & B & C & D). rewrite A. destruct (N.eqb _ 0); unfold nf_eq; cbn [su_items su_bases su_min su_max]; auto.
Qed.
Definition nf_opt (a b : option summary) : Prop :=
  match a, b with Some s, Some s' => nf_eq s s' | None, None => True | _, _ => False end.
Lemma nf_total fp fp' : forall chroms a b, nf_opt a b ->
  nf_opt (fold_left (summary_merge fp) (map (chrom_summary fp) chroms) a)
         (fold_left (summary_merge fp') (map (chrom_summary fp') chroms) b).
Proof.
  induction chroms as [|c r IH]; intros a b H; cbn [map fold_left]; [exact H|]. apply IH.
  pose proof (nf_chrom fp fp' c) as (A & B & C & D).
  destruct a as [s|], b as [s'|]; cbn [nf_opt summary_merge] in *; try contradiction.
  - destruct H as (A' & B' & C' & D'). unfold nf_eq. cbn [su_items su_bases su_min su_max]. rewrite A, B, C, D, A', B', C', D'. repeat split.
  - unfold nf_eq. auto.
Qed.

(* bw_collect in two modes: same ids, chromosomes and data sections; only the summary is folded differently *)
Definition sum_of_outs (fp : fpmode) (outs : list chrom_out) : summary :=
  match fold_left (summary_merge fp) (map (fun c => chrom_summary fp (co_vals c)) outs) None with
  | Some s => s | None => summary_zero end.
Lemma bw_collect_modes fp fp' o sizes input ids outs sum data :
  bw_collect fp o sizes input = Ok (ids, outs, sum, data) ->
  sum = sum_of_outs fp outs /\ bw_collect fp' o sizes input = Ok (ids, outs, sum_of_outs fp' outs, data).
Proof.
  unfold bw_collect. destruct input as [|it input']; [discriminate|].
  destruct (process_runs o sizes None [] (runs (it :: input'))) as [[ids1 outs1]| | |]; cbn [rbind]; try discriminate.
  destruct (concat_res _) as [d| | |]; cbn [rbind]; try discriminate.
  intros H. inversion H; subst. split; reflexivity.
Qed.

Theorem bw_collect_ieee_on_grid E G o sizes input ids outs sum data : grid_ok E G ->
  let all := map snd input in
  Forall (vgrid E G) all -> gabs E G all < P53 -> gsq E G all < P53 ->
  bw_collect ieee o sizes input = Ok (ids, outs, sum, data) ->
  exists sum_e, bw_collect exact o sizes input = Ok (ids, outs, sum_e, data) /\ nf_eq sum sum_e /\
    gsummary E G sum (gsum E G all) (gsq E G all) /\ gsummary E G sum_e (gsum E G all) (gsq E G all).
Proof.
  intros Hok all Hv B1 B2 H. destruct (grid_ok_modes E G Hok) as (M1 & M2 & _). destruct Hok as (HE & HG & HR).
  destruct (bw_collect_modes ieee exact _ _ _ _ _ _ _ H) as (Es & He).
  exists (sum_of_outs exact outs). split; [exact He|].
  (* the chromosomes are the runs of the input *)
  unfold bw_collect in H. destruct input as [|it input']; [discriminate|]. set (input := it :: input') in *.
  destruct (process_runs o sizes None [] (runs input)) as [[ids1 outs1]| | |] eqn:Ep; cbn [rbind] in H; try discriminate.
  destruct (concat_res _) as [d| | |]; cbn [rbind] in H; try discriminate.
  inversion H; subst ids1 outs1 d. clear H.
  pose proof (process_runs_vals _ _ _ _ _ _ _ Ep) as Hvals.
  assert (Hm : forall fp, map (fun c => chrom_summary fp (co_vals c)) outs = map (chrom_summary fp) (map snd (runs input))).
  { intros fp. rewrite <- Hvals, map_map. reflexivity. }
  assert (Hcat : concat (map snd (runs input)) = all) by apply runs_concat.
  assert (Hne : map snd (runs input) <> []).
  { intro C. apply map_eq_nil in C. revert C. apply runs_not_nil. discriminate. }
  subst sum. unfold sum_of_outs. rewrite !Hm.
  destruct (map snd (runs input)) as [|c chroms] eqn:Em; [congruence|]. cbn [concat] in Hcat.
  assert (Hall : Forall (Forall (vgrid E G)) (c :: chroms)).
  { rewrite Forall_forall. intros vs Hin. rewrite Forall_forall. intros v Hvin. rewrite Forall_forall in Hv. apply Hv.
    rewrite <- Hcat. change (c ++ concat chroms) with (concat (c :: chroms)). apply in_concat. eexists; split; eassumption. }
  inversion Hall as [|? ? Hc Hr]; subst.
  pose proof (nf_total ieee exact (c :: chroms) None None I) as Hnf.
  cbn [map fold_left summary_merge] in *.
  unfold gabs, gsq, gsum in *. rewrite <- Hcat in *. rewrite kabs_app in B1. rewrite ksq_app in B2. rewrite ksum_app, ksq_app.
  pose proof (kabs_nonneg vlenN (vk E G) c) as N1. pose proof (kabs_nonneg vlenN (vk E G) (concat chroms)) as N2.
  pose proof (ksq_nonneg vlenN (vk E G) c) as N3. pose proof (ksq_nonneg vlenN (vk E G) (concat chroms)) as N4.
  pose proof (ksum_le_kabs vlenN (vk E G) c) as N5.
  pose proof (gs_chrom ieee E G HG HE M1 M2 c Hc ltac:(unfold gabs; lia) ltac:(unfold gsq; lia)) as Ci.
  pose proof (gs_chrom exact E G HG HE (mode_ok64_exact _ _) (mode_ok64_exact _ _) c Hc ltac:(unfold gabs; lia) ltac:(unfold gsq; lia)) as Ce.
  destruct (gs_total ieee E G HG HE M1 M2 chroms _ _ _ Hr Ci ltac:(unfold gabs, gsum; lia) ltac:(unfold gsq; rewrite Z.abs_eq by lia; lia))
    as (si & Ei & Gi).
  destruct (gs_total exact E G HG HE (mode_ok64_exact _ _) (mode_ok64_exact _ _) chroms _ _ _ Hr Ce ltac:(unfold gabs, gsum; lia) ltac:(unfold gsq; rewrite Z.abs_eq by lia; lia))
    as (se & Ee & Ge).
  rewrite Ei, Ee in *. cbn [nf_opt] in Hnf. split; [exact Hnf|]. split; assumption.
Qed.

(* C06_bw_summary for the IEEE instance: on the grid, within the bound, the summary the IEEE fold hands to
   the writer denotes exactly the statistics of the input *)
Theorem bw_collect_ieee_wform E G o sizes input ids outs sum data : grid_ok E G ->
  let all := map snd input in
  Forall (vgrid E G) all -> gabs E G all < P53 -> gsq E G all < P53 ->
  bw_collect ieee o sizes input = Ok (ids, outs, sum, data) ->
  wform E sum (Nlen all) (w_bases all) (w_sum E all) (w_sumsq E all)
        (w_min E all (fval E f64_max)) (w_max E all (fval E f64_min)) /\
  exists sum_e, bw_collect exact o sizes input = Ok (ids, outs, sum_e, data) /\
    su_items sum = su_items sum_e /\ su_bases sum = su_bases sum_e /\ su_min sum = su_min sum_e /\ su_max sum = su_max sum_e /\
    same_num (su_sum sum) (su_sum sum_e) /\ same_num (su_sumsq sum) (su_sumsq sum_e).
Proof.
  intros Hok all Hv B1 B2 H.
  destruct (bw_collect_ieee_on_grid E G o sizes input ids outs sum data Hok Hv B1 B2 H) as (se & He & (A & B & C & D) & (S1 & Q1) & (S2 & Q2)).
  destruct (gval_same_num _ _ _ _ _ S1 S2) as (N1 & V1). destruct (gval_same_num _ _ _ _ _ Q1 Q2) as (N2 & V2).
  assert (Hfin : Forall (fun it => vfin E (snd it)) input).
  { rewrite Forall_forall. intros it Hin. rewrite Forall_forall in Hv. apply (Hv (snd it)). apply in_map. exact Hin. }
  pose proof (bw_collect_summary E o sizes input ids outs se data (proj1 Hok) Hfin He) as W. cbn zeta in W.
  split; [|exists se; repeat split; assumption].
  destruct W as (W1 & W2 & W3 & W4 & W5 & W6 & W7 & W8 & W9 & W10).
  unfold wform. rewrite A, B, C, D, V1, V2. repeat split; try assumption; [exact (proj1 S1)|exact (proj1 Q1)].
Qed.

(* ================= the generator domain, as a decidable predicate ================= *)
(* tools/vlib/bbigen.py rand_f32 mode "nice" and props/C07.py: every value is a multiple of 1/8 with
   |v| <= 1024 (8192 grid units; the generators stay below 100), carried by a binary32 pattern (exponent
   >= -149); chromosomes are shorter than 2^20 and there are at most 10 of them: fewer than 2^24 bases in all. *)
Definition dom_E : Z := -149.
Definition dom_G : Z := -3.
Definition val_in_domain (x : fl) : bool :=
  match x with
  | FFin m e => (dom_E <=? e) && (fval dom_E x mod 2 ^ (dom_G - dom_E) =? 0)
                && (Z.abs (fval dom_E x) <=? 8192 * 2 ^ (dom_G - dom_E))
  | _ => false
  end.
Definition in_exact_domain (vs : list value) : bool :=
  forallb (fun v => val_in_domain (v_val v)) vs && (Z.of_N (sumN (map vlenN vs)) <? 2 ^ 24).

Lemma val_in_domain_spec x : val_in_domain x = true -> on_grid dom_E dom_G x /\ Z.abs (gk dom_E dom_G x) <= 8192.
Proof.
  destruct x as [m e| |]; cbn [val_in_domain]; try discriminate. intros H.
  apply andb_prop in H. destruct H as (H & H3). apply andb_prop in H. destruct H as (H1 & H2).
  apply Z.leb_le in H1, H3. apply Z.eqb_eq in H2.
  assert (Og : on_grid dom_E dom_G (FFin m e)) by (split; [exact H1|exact H2]).
  split; [exact Og|].
  destruct (on_grid_gval dom_E dom_G _ ltac:(unfold dom_E, dom_G; lia) Og) as (_ & V).
  set (k := gk dom_E dom_G (FFin m e)) in *. set (u := 2 ^ (dom_G - dom_E)) in *.
  assert (P : 0 < u) by (apply Z.pow_pos_nonneg; unfold dom_E, dom_G; lia).
  rewrite V, Z.abs_mul, (Z.abs_eq u) in H3 by lia. nia.
Qed.

Lemma kbounds {T} (len : T -> N) (kv : T -> Z) B l : 0 <= B -> Forall (fun t => Z.abs (kv t) <= B) l ->
  kabs len kv l <= B * Z.of_N (sumN (map len l)) /\ ksq len kv l <= B * B * Z.of_N (sumN (map len l)).
Proof.
  intros HB. induction 1 as [|t l Ht _ IH]; unfold kabs, ksq in *; cbn [map zsum fold_right sumN]; [lia|].
  unfold zsum in IH. destruct IH as (I1 & I2). rewrite N2Z.inj_add.
  assert (Hsq : kv t * kv t <= B * B) by nia.
  set (n := Z.of_N (len t)) in *. assert (0 <= n) by (unfold n; lia).
  pose proof (Z.mul_le_mono_nonneg_l _ _ n ltac:(lia) Ht). pose proof (Z.mul_le_mono_nonneg_l _ _ n ltac:(lia) Hsq).
  split; nia.
Qed.

(* in_exact_domain implies the hypotheses of the fold theorems *)
Theorem in_exact_domain_hyps vs : in_exact_domain vs = true ->
  grid_ok dom_E dom_G /\ Forall (vgrid dom_E dom_G) vs /\ gabs dom_E dom_G vs < P53 /\ gsq dom_E dom_G vs < P53.
Proof.
  intros H. apply andb_prop in H. destruct H as (H1 & H2). apply Z.ltb_lt in H2.
  rewrite forallb_forall in H1.
  assert (Hs : Forall (fun v => vgrid dom_E dom_G v /\ Z.abs (vk dom_E dom_G v) <= 8192) vs).
  { rewrite Forall_forall. intros v Hin. exact (val_in_domain_spec _ (H1 v Hin)). }
  split; [unfold grid_ok, dom_E, dom_G; lia|]. split; [eapply Forall_impl; [|exact Hs]; intros v Hv; exact (proj1 Hv)|].
  assert (Hb : Forall (fun v => Z.abs (vk dom_E dom_G v) <= 8192) vs) by (eapply Forall_impl; [|exact Hs]; intros v Hv; exact (proj2 Hv)).
  destruct (kbounds vlenN (vk dom_E dom_G) 8192 vs ltac:(lia) Hb) as (K1 & K2).
  unfold gabs, gsq, P53. change (2 ^ 24) with 16777216 in H2. change (2 ^ 53) with 9007199254740992. lia.
Qed.

(* a sub-multiset with shorter pieces stays in the domain: clipped values (C17), contributions to a record (C07) *)
Lemma in_exact_domain_values vs : in_exact_domain vs = true -> Forall (fun v => val_in_domain (v_val v) = true) vs.
Proof. intros H. apply andb_prop in H. rewrite Forall_forall. apply forallb_forall. exact (proj1 H). Qed.

(* non-vacuity: the values of C06_example (1.0 on [0,10), 0.5 on [10,14), -2.5 on [3,5)) *)
Example in_exact_domain_example :
  in_exact_domain [ {| v_start := 0; v_end := 10; v_bits := 1065353216 |}; {| v_start := 10; v_end := 14; v_bits := 1056964608 |};
                    {| v_start := 3; v_end := 5; v_bits := 3223322624 |} ] = true
  /\ in_exact_domain [ {| v_start := 0; v_end := 1; v_bits := 1036831949 |} ] = false.   (* 0.1f32 is not a multiple of 1/8 *)
Proof. split; vm_compute; reflexivity. Qed.

(* the generator domain: for an input in [in_exact_domain] the IEEE summary is the exact one (unit 2^-149) *)
Theorem bw_collect_ieee_in_domain o sizes input ids outs sum data :
  let all := map snd input in
  in_exact_domain all = true ->
  bw_collect ieee o sizes input = Ok (ids, outs, sum, data) ->
  wform dom_E sum (Nlen all) (w_bases all) (w_sum dom_E all) (w_sumsq dom_E all)
        (w_min dom_E all (fval dom_E f64_max)) (w_max dom_E all (fval dom_E f64_min)) /\
  exists sum_e, bw_collect exact o sizes input = Ok (ids, outs, sum_e, data) /\
    su_items sum = su_items sum_e /\ su_bases sum = su_bases sum_e /\ su_min sum = su_min sum_e /\ su_max sum = su_max sum_e /\
    same_num (su_sum sum) (su_sum sum_e) /\ same_num (su_sumsq sum) (su_sumsq sum_e).
Proof.
  intros all Hd H. destruct (in_exact_domain_hyps all Hd) as (Hok & Hg & B1 & B2).
  exact (bw_collect_ieee_wform dom_E dom_G o sizes input ids outs sum data Hok Hg B1 B2 H).
Qed.
