(* C07 at the level of the written file: the zoom directory that read_info reads back from the bytes
   bw_write / bw_write_multipass return is strictly increasing, starts at >= 1, has at most
   MAX_ZOOM_LEVELS entries and lists only sizes of the (normalised) size list.
   Uses C01's description of the file regions (Proofs/BigWigFile*.v, assemble_roundtrip). *)
From BT Require Import Base.Util Base.LE Base.Float Generated.Consts Model.RTree Model.BBIFile
  Model.BigWigWrite Model.BBIRead Proofs.RTreeCodec Proofs.BigWigFile Proofs.BigWigFileRoundTrip Proofs.BigWigFileThms
  Proofs.ZoomBwLevels.
Local Open Scope N_scope.

Lemma Nlen_app {X} (a b : list X) : Nlen (a ++ b) = Nlen a + Nlen b.
Proof. unfold Nlen. rewrite app_length. lia. Qed.

Definition hdr_in (lo hi : N) (h : zoom_header) : Prop := lo <= zh_data h /\ zh_data h <= zh_index h /\ zh_index h <= hi.

Lemma hdr_in_weaken lo lo' hi hi' l : lo' <= lo -> hi <= hi' -> Forall (hdr_in lo hi) l -> Forall (hdr_in lo' hi') l.
Proof. intros H1 H2 H. eapply Forall_impl; [|exact H]. intros h [A [B C]]. unfold hdr_in. lia. Qed.

(* the directory entries point inside the bytes the zoom part wrote, and their resolutions are
   resolutions of the given levels *)
Lemma wzl_bounds o ds : forall zs pos lc zc bytes hdrs,
  write_zooms_loop o ds pos zs lc zc = Ok (bytes, hdrs) ->
  Forall (hdr_in pos (pos + Nlen bytes)) hdrs /\ incl (map zh_res hdrs) (map zl_res zs).
Proof.
  induction zs as [|z rest IH]; intros pos lc zc bytes hdrs H; cbn [write_zooms_loop] in H.
  - injection H as <- <-. split; [constructor|intros x []].
  - cbn [map].
    destruct (_ && (ds / 2 <? _)); [destruct (IH _ _ _ _ _ H); split; [assumption|now apply incl_tl]|].
    destruct (_ && match lc with None => false | Some l => _ end); [destruct (IH _ _ _ _ _ H); split; [assumption|now apply incl_tl]|].
    destruct (write_index _ _ _ _) as [[ix lv]| | |]; try discriminate. cbn [rbind] in H.
    destruct (_ && (o_maxzooms o <=? zc + 1)).
    + injection H as <- <-. rewrite Nlen_app. split.
      * constructor; [|constructor]. unfold hdr_in. cbn [zh_data zh_index]. lia.
      * cbn [map zh_res]. intros x [<-|[]]. now left.
    + destruct (write_zooms_loop o ds _ rest _ _) as [[more hs]| | |] eqn:E; try discriminate.
      cbn [rbind] in H. injection H as <- <-. destruct (IH _ _ _ _ _ E) as [Hb Hi]. rewrite !Nlen_app in *. split.
      * constructor; [unfold hdr_in; cbn [zh_data zh_index]; lia|].
        eapply hdr_in_weaken; [| |exact Hb]; lia.
      * cbn [map zh_res]. intros x [<-|Hx]; [now left|right; now apply Hi].
Qed.
Lemma w2p_bounds o : forall zs pos bytes hdrs,
  write_zooms_two_pass o pos zs = Ok (bytes, hdrs) -> Forall (hdr_in pos (pos + Nlen bytes)) hdrs.
Proof.
  induction zs as [|z rest IH]; intros pos bytes hdrs H; cbn [write_zooms_two_pass] in H.
  - injection H as <- <-. constructor.
  - destruct (write_index _ _ _ _) as [[ix lv]| | |]; try discriminate. cbn [rbind] in H.
    destruct (write_zooms_two_pass o _ rest) as [[more hs]| | |] eqn:E; try discriminate.
    cbn [rbind] in H. injection H as <- <-. pose proof (IH _ _ _ E) as Hb. rewrite !Nlen_app in *.
    constructor; [unfold hdr_in; cbn [zh_data zh_index]; lia|].
    eapply hdr_in_weaken; [| |exact Hb]; lia.
Qed.

(* membership through the normalisation *)
Lemma insert_sorted_in y x : forall l, In y (insert_sorted x l) -> y = x \/ In y l.
Proof.
  induction l as [|z l IH]; cbn [insert_sorted]; intros H.
  - destruct H as [<-|[]]. now left.
  - destruct (x <? z); [destruct H as [<-|H]; [now left|now right]|].
    destruct (x =? z); [now right|]. destruct H as [<-|H]; [right; now left|].
    destruct (IH H) as [->|Hin]; [now left|right; now right].
Qed.
Lemma sort_dedup_in y l : In y (sort_dedup l) -> In y l.
Proof.
  unfold sort_dedup. assert (H : forall acc, In y (fold_left (fun acc x => insert_sorted x acc) l acc) -> In y l \/ In y acc).
  { induction l as [|x l IH]; intros acc Hin; cbn [fold_left] in Hin; [now right|].
    destruct (IH _ Hin) as [H|H]; [left; now right|]. destruct (insert_sorted_in _ _ _ H) as [->|H']; [left; now left|now right]. }
  intros Hin. destruct (H [] Hin) as [H1|[]]. exact H1.
Qed.
Lemma firstn_in {X} (x : X) : forall n l, In x (firstn n l) -> In x l.
Proof.
  induction n as [|n IH]; intros l H; [destruct H|]. destruct l as [|y l]; [destruct H|].
  cbn [firstn] in H. destruct H as [<-|H]; [now left|right; now apply IH].
Qed.
Lemma take_while_in {X} (p : X -> bool) x : forall l, In x (take_while p l) -> In x l /\ p x = true.
Proof.
  induction l as [|y l IH]; intros H; [destruct H|]. cbn [take_while] in H. destruct (p y) eqn:E; [|destruct H].
  destruct H as [<-|H]; [split; [now left|exact E]|]. destruct (IH H). split; [now right|assumption].
Qed.

Definition manual_u32 (o : opts) : Prop :=
  match o_manual o with Some zs => Forall (fun z => z < U32) zs | None => True end.

Lemma two_pass_sizes_u32 o sum counts ds : manual_u32 o -> Forall (fun z => z < U32) (zoom_sizes_two_pass o sum counts ds).
Proof.
  unfold manual_u32, zoom_sizes_two_pass. intros Hm. apply Forall_forall. intros x Hx. destruct (o_manual o) as [zs|].
  - apply firstn_in, sort_dedup_in, filter_In in Hx. destruct Hx as [Hx _]. rewrite Forall_forall in Hm. exact (Hm x Hx).
  - apply in_map_iff in Hx. destruct Hx as [[a b] [<- Hin]]. apply take_while_in in Hin. destruct Hin as [_ Hp].
    cbn [fst] in *. apply N.leb_le in Hp. unfold U32. change (2 ^ 32 - 1) with 4294967295 in Hp. lia.
Qed.

Section File.
Context (fp : fpmode) (o : opts) (sizes : list (name * N)) (inp : list item) (bs : list N).

Lemma zooms_end_in_file ids sum data zoom_part dco p :
  assembled o BIGWIG_MAGIC sizes ids sum data bw_pre 0 0 0 zoom_part dco bs p ->
  Nlen bw_pre + Nlen (data_bytes data) + Nlen (fp_ct p) + Nlen (fp_ix p) + Nlen (fp_zbytes p) <= Nlen bs.
Proof.
  intros (_ & _ & _ & Hbs & Hlp & _). rewrite Hbs. rewrite !Nlen_app.
  assert (Nlen (fp_pre p) = Nlen bw_pre) by (unfold Nlen; now rewrite Hlp). lia.
Qed.

Theorem file_levels_single : opts_ok o -> input_ok sizes inp -> Nlen bs < U64 ->
  Forall (fun z => z < U32) (zoom_sizes_single o) ->
  bw_write fp o sizes inp = Ok bs ->
  exists i, read_info bs = Ok i /\ inc_from 0 (map zh_res (i_zooms i)) /\ Nlen (i_zooms i) <= MAX_ZOOM_LEVELS
            /\ incl (map zh_res (i_zooms i)) (zoom_sizes_single o).
Proof.
  intros Hopts Hinp Hsize Hu H.
  destruct (bw_write_inv fp o sizes inp bs H) as (ids & outs & sum & data & zooms & Hcol & Hz & Hasm).
  destruct (assemble_roundtrip fp o sizes inp ids outs sum data _ _ bs Hcol Hasm (single_zoom_bound fp o outs zooms Hz) Hopts Hinp Hsize)
    as (p & i & HA & Hri & _ & _ & _ & Hzs & _).
  pose proof (zooms_end_in_file _ _ _ _ _ _ HA) as Hend.
  destruct HA as (_ & _ & Hzp & _). unfold single_zoom_part in Hzp.
  destruct (wzl_bounds _ _ _ _ _ _ _ _ Hzp) as [Hb Hincl].
  change (zoom_levels_for fp o outs (zoom_sizes_single o)) with (build_levels fp o outs (zoom_sizes_single o)) in Hz.
  rewrite (build_levels_res _ _ _ _ _ Hz) in Hincl.
  destruct (levels_increasing_single fp o outs _ _ zooms _ _ Hz Hzp) as [Hinc Hcap].
  assert (Hok : Forall zh_ok (fp_zhdrs p)).
  { apply Forall_forall. intros h Hh. rewrite Forall_forall in Hb. destruct (Hb h Hh) as [A [B C]].
    unfold zh_ok. split; [|lia]. rewrite Forall_forall in Hu. apply Hu. apply Hincl. now apply in_map. }
  exists i. rewrite (Hzs Hok). tauto.
Qed.

Theorem file_levels_two_pass : opts_ok o -> input_ok sizes inp -> Nlen bs < U64 -> manual_u32 o ->
  bw_write_multipass fp o sizes inp = Ok bs ->
  exists i, read_info bs = Ok i /\ inc_from 0 (map zh_res (i_zooms i)) /\ Nlen (i_zooms i) <= MAX_ZOOM_LEVELS.
Proof.
  intros Hopts Hinp Hsize Hu H.
  destruct (bw_write_multipass_inv fp o sizes inp bs H) as (ids & outs & sum & data & Hcol & Hasm).
  destruct (assemble_roundtrip fp o sizes inp ids outs sum data _ _ bs Hcol Hasm (multi_zoom_bound fp o outs sum) Hopts Hinp Hsize)
    as (p & i & HA & Hri & _ & _ & _ & Hzs & _).
  pose proof (zooms_end_in_file _ _ _ _ _ _ HA) as Hend.
  destruct HA as (_ & _ & Hzp & _). unfold multi_zoom_part in Hzp. cbv zeta in Hzp.
  change (zoom_levels_for fp o outs) with (build_levels fp o outs) in Hzp.
  destruct (build_levels fp o outs _) as [zooms| | |] eqn:Hz; try discriminate. cbn [rbind] in Hzp.
  pose proof (w2p_bounds _ _ _ _ _ Hzp) as Hb.
  destruct (levels_increasing_two_pass fp o outs sum _ _ zooms _ _ Hz Hzp) as [Hres [Hinc Hcap]].
  assert (Hok : Forall zh_ok (fp_zhdrs p)).
  { apply Forall_forall. intros h Hh. rewrite Forall_forall in Hb. destruct (Hb h Hh) as [A [B C]].
    unfold zh_ok. split; [|lia].
    pose proof (two_pass_sizes_u32 o sum (total_zoom_counts outs) (Nlen (data_bytes data)) Hu) as Hall.
    rewrite <- Hres in Hall. rewrite Forall_forall in Hall. apply Hall. now apply in_map. }
  exists i. rewrite (Hzs Hok). tauto.
Qed.
End File.
