(* C09 whole file, part 3b: the zoom levels the two bigWig writers produce.
   - what process_val_zoom hands to encode_zoom_section for one chromosome and one resolution is what
     the decoder demands of zoom records (C07's loop invariant: Proofs/ZoomThms.v, ZoomSections.v) —
     plus one bound C07 did not need: covered bases <= width of the record;
   - write_zooms (single pass, with its skipping rules) and write_zoom_vals (two passes) lay the kept
     levels out one after the other: every directory entry decodes (Proofs/C09Zoom.zoom_level_ok)
     and the regions follow each other. *)
From BT Require Import Base.Util Base.LE Base.Float Generated.Consts Model.RTree Model.BBIFile Model.BigWigWrite Model.BigWigWriteZ
  Proofs.Chunks Proofs.BigWigQuery Proofs.RTreeAbs Proofs.RTreeBuild Proofs.RTreeCodec Proofs.FileRegions
  Proofs.BigWigFile Proofs.BigWigFileData Proofs.BigWigFileRoundTrip Proofs.BigWigFileThms
  Proofs.ZoomLoop Proofs.ZoomInv Proofs.ZoomThms Proofs.ZoomSections Proofs.ZoomBwLevels
  Spec.FormatDecode Proofs.C09Base Proofs.C09Codec Proofs.C09Chrom Proofs.C09RTree Proofs.C09Data Proofs.C09Zoom Proofs.C09File.
From Coq Require Import Sorting.Sorted.
Local Open Scope N_scope.

(* ---------- covered bases of a record never exceed its width ---------- *)
Lemma overlap_bound len s e : forall vals a, wf_vals len vals -> (forall v, In v vals -> a <= v_start v) ->
  sumN (map (overlap_len s e) vals) <= e - N.max a s.
Proof.
  induction vals as [|v r IH]; intros a Hwf Ha; [cbn; lia|]. cbn [map sumN].
  pose proof (wf_after_head _ _ _ Hwf) as Hafter. rewrite Forall_forall in Hafter.
  specialize (IH (v_end v) (wf_tail _ _ _ Hwf) Hafter).
  destruct (wf_head _ _ _ Hwf) as [Hse _]. pose proof (Ha v (or_introl eq_refl)) as Hav.
  unfold overlap_len at 1. lia.
Qed.

(* ---------- the record lists of one chromosome at one resolution ---------- *)
Definition zrsecs (fp : fpmode) (ips size : N) (c : chrom_out) : list (list zrec) :=
  match zoom_chrom fp ips size (co_id c) (co_vals c) zstate0 with Ok st => zs_out st | _ => [] end.

Lemma zoom_sections_zp fp ips size c : 1 <= size -> 1 <= ips ->
  zoom_sections fp ips size (co_id c) (co_vals c) = Ok (zsecs fp (zrsecs fp ips size c))
  /\ Forall (sec_wf ips) (zrsecs fp ips size c).
Proof.
  intros Hs Hi. destruct (zoom_sections_encoded fp ips size (co_id c) (co_vals c) Hs Hi) as (st & sds & Hst & _ & Hwf & _).
  unfold zrsecs, zoom_sections. rewrite Hst. cbn [rbind]. split; [|exact Hwf].
  apply mapM_ok. intros rs Hrs. apply encode_zpsec. rewrite Forall_forall in Hwf. now destruct (Hwf rs Hrs).
Qed.

Lemma adjacent_sorted : forall (R : list zrec),
  Forall (fun r => z_start r < z_end r) R ->
  (forall R1 r1 r2 R2, R = R1 ++ r1 :: r2 :: R2 -> z_end r1 <= z_start r2) ->
  (forall r r', In r R -> In r' R -> z_chrom r = z_chrom r') -> StronglySorted zrec_lt R.
Proof.
  induction R as [|x R IH]; intros Hpos Hadj Hc; [constructor|].
  inversion Hpos as [|? ? Hx Hpos']; subst.
  assert (Hadj' : forall R1 r1 r2 R2, R = R1 ++ r1 :: r2 :: R2 -> z_end r1 <= z_start r2).
  { intros R1 r1 r2 R2 E. apply (Hadj (x :: R1) r1 r2 R2). now rewrite E. }
  assert (Hc' : forall r r', In r R -> In r' R -> z_chrom r = z_chrom r') by (intros; apply Hc; now right).
  pose proof (IH Hpos' Hadj' Hc') as Hs. constructor; [exact Hs|].
  destruct R as [|y R]; [constructor|].
  assert (Hxy : z_end x <= z_start y) by (apply (Hadj [] x y R); reflexivity).
  constructor.
  - right. split; [apply Hc; [now left|right; now left]|exact Hxy].
  - inversion Hs as [|? ? _ Hf]; subst. apply Forall_forall. intros z Hz. rewrite Forall_forall in Hf.
    right. split; [apply Hc; [now left|right; now right]|].
    destruct (Hf z Hz) as [H|[_ H]].
    + exfalso. rewrite (Hc' y z (or_introl eq_refl) (or_intror Hz)) in H. lia.
    + apply Forall_inv in Hpos'. lia.
Qed.

Section Built.
Variables (fp : fpmode) (o : opts) (sizes : list (name * N)) (inp : list item).
Variables (ids : idmap) (outs : list chrom_out) (sum : summary) (data : list sdata) (bs : list N).
Hypothesis Hcol : bw_collect fp o sizes inp = Ok (ids, outs, sum, data).
Hypothesis Hopts : opts_ok o.
Hypothesis Hinp : input_ok sizes inp.
Hypothesis Hsize : Nlen bs < U64.
Let chroms := map (chrom_view sizes) ids.
Let ips := o_ips o.

Definition level_rsecs (size : N) : list (list zrec) := flat_map (zrsecs fp ips size) outs.

Lemma ips_pos : 1 <= ips <= 65535.
Proof. destruct Hopts as (_ & H). exact H. Qed.

(* one chromosome *)
Lemma chrom_records size c : 1 <= size -> In c outs ->
  let R := concat (zrsecs fp ips size c) in
  Forall (fun r => zrec_good chroms r /\ z_chrom r = co_id c) R /\ StronglySorted zrec_lt R.
Proof.
  intros Hs Hc. cbv zeta.
  destruct (wf_out_facts fp o sizes inp ids outs sum data bs Hcol Hinp Hsize c Hc) as (Hwf & Hcs & Hid & Hlen).
  destruct (zoom_chrom_terminates fp ips size (co_id c) Hs (co_vals c) zstate0) as [st Hst].
  unfold zrsecs. rewrite Hst.
  destruct (zoom_ordered_disjoint fp ips size (co_id c) (co_len c) (co_vals c) st Hs Hwf Hst) as (_ & _ & Hall & Hadj).
  pose proof (zoom_stats fp ips size (co_id c) (co_len c) (co_vals c) st Hs Hwf Hst) as Hstats. cbv zeta in Hstats.
  split.
  - apply Forall_forall. intros r Hr. rewrite Forall_forall in Hall, Hstats.
    destruct (Hall r Hr) as (Hch & Hp & _ & Hle). destruct (Hstats r Hr) as (_ & Hso).
    assert (Hb : su_bases (z_sum r) <= z_end r - z_start r).
    { unfold stats_of in Hso. destruct (contribs (z_start r) (z_end r) (co_vals c)) as [|p0 ps] eqn:Ec; [contradiction|].
      destruct Hso as (_ & Hbs & _). rewrite Hbs, <- Ec, contribs_len.
      pose proof (overlap_bound (co_len c) (z_start r) (z_end r) (co_vals c) 0 Hwf ltac:(intros; lia)) as H. lia. }
    split; [|exact Hch]. unfold zrec_good, zrec_ok. rewrite Hch. unfold U32, W32 in *.
    split; [repeat split; lia|]. split; [exact Hp|]. split; [exact Hb|]. exists (co_len c). split; [exact Hcs|exact Hle].
  - apply adjacent_sorted; [|exact Hadj|].
    + eapply Forall_impl; [|exact Hall]. now intros r (_ & H & _).
    + intros r r' Hr Hr'. rewrite Forall_forall in Hall. destruct (Hall r Hr) as (-> & _). now destruct (Hall r' Hr') as (-> & _).
Qed.

Lemma concat_flat_map {X Y} (f : X -> list (list Y)) : forall l, concat (flat_map f l) = flat_map (fun x => concat (f x)) l.
Proof. induction l as [|x l IH]; [reflexivity|]. rewrite !fm_cons, concat_app, IH. reflexivity. Qed.

(* a whole level *)
Lemma level_good size : 1 <= size ->
  Forall (zsec_good ips) (level_rsecs size) /\ Forall (zrec_good chroms) (concat (level_rsecs size))
  /\ StronglySorted zrec_lt (concat (level_rsecs size)).
Proof.
  intros Hs. pose proof ips_pos as Hi. split; [|split].
  - unfold level_rsecs. apply Forall_forall. intros rs Hrs. apply in_flat_map in Hrs as [c [Hc Hrs]].
    destruct (zoom_sections_zp fp ips size c Hs ltac:(lia)) as [_ Hwf]. rewrite Forall_forall in Hwf. destruct (Hwf rs Hrs) as [Hne Hl].
    split; [exact Hne|]. split; [exact Hl|]. intros f r Hr Hf.
    destruct (chrom_records size c Hs Hc) as [Hall _]. cbv zeta in Hall. rewrite Forall_forall in Hall.
    assert (In1 : In r (concat (zrsecs fp ips size c))) by (apply in_concat; exists rs; split; assumption).
    assert (In2 : In f (concat (zrsecs fp ips size c))).
    { apply in_concat. exists rs. split; [exact Hrs|]. destruct rs; [discriminate|]. cbn in Hf. injection Hf as ->. now left. }
    destruct (Hall r In1) as [_ ->]. now destruct (Hall f In2) as [_ ->].
  - unfold level_rsecs. rewrite concat_flat_map. apply Forall_forall. intros r Hr. apply in_flat_map in Hr as [c [Hc Hr]].
    destruct (chrom_records size c Hs Hc) as [Hall _]. cbv zeta in Hall. rewrite Forall_forall in Hall. now destruct (Hall r Hr).
  - unfold level_rsecs. rewrite concat_flat_map.
    pose proof (core_ids_sorted _ _ _ _ _ _ _ _ Hcol) as Hids.
    assert (G : forall l, (forall c, In c l -> In c outs) -> StronglySorted N.lt (map co_id l) ->
                StronglySorted zrec_lt (flat_map (fun c => concat (zrsecs fp ips size c)) l)).
    { induction l as [|c l IH]; intros Hsub Hso; [constructor|]. rewrite fm_cons. cbn [map] in Hso. inversion Hso as [|? ? Hso' Hlt]; subst.
      destruct (chrom_records size c Hs (Hsub c (or_introl eq_refl))) as [Hall Hsc]. cbv zeta in Hall, Hsc.
      apply SSorted_app; [exact Hsc|apply IH; [intros x Hx; apply Hsub; now right|exact Hso']|].
      intros a b' Ha Hb'. apply in_flat_map in Hb' as [c' [Hc' Hb']].
      destruct (chrom_records size c' Hs (Hsub c' (or_intror Hc'))) as [Hall' _]. cbv zeta in Hall'.
      rewrite Forall_forall in Hall, Hall', Hlt. destruct (Hall a Ha) as [_ Ea]. destruct (Hall' b' Hb') as [_ Eb].
      left. rewrite Ea, Eb. apply Hlt. now apply in_map. }
    apply G; [auto|exact Hids].
Qed.

(* build_levels gives, for each resolution, the encodings of those record lists *)
Definition zl_of (size : N) : BBIFile.zoom_level := {| zl_res := size; zl_secs := zsecs fp (level_rsecs size) |}.

Lemma level_built size : 1 <= size ->
  concat_res (map (fun c => zoom_sections fp (o_ips o) size (co_id c) (co_vals c)) outs) = Ok (zsecs fp (level_rsecs size)).
Proof.
  intros Hs. pose proof ips_pos as Hi. unfold level_rsecs. fold ips. generalize outs. intros l.
  induction l as [|c l IH]; [reflexivity|]. cbn [map concat_res fold_right].
  destruct (zoom_sections_zp fp ips size c Hs ltac:(lia)) as [E _]. rewrite E. cbn [rbind].
  fold (concat_res (map (fun c => zoom_sections fp ips size (co_id c) (co_vals c)) l)). rewrite IH. cbn [rbind].
  rewrite fm_cons. unfold zsecs. now rewrite map_app.
Qed.

Lemma levels_built : forall zsizes zooms, Forall (fun z => 1 <= z) zsizes ->
  build_levels fp o outs zsizes = Ok zooms -> zooms = map zl_of zsizes.
Proof.
  induction zsizes as [|z zs IH]; intros zooms Hpos H; unfold build_levels in H; cbn [mapM] in H.
  - apply Ok_inj in H. now subst.
  - inversion Hpos as [|? ? Hz Hpos']; subst. rewrite (level_built z Hz) in H. cbn [rbind] in H.
    fold (build_levels fp o outs zs) in H.
    destruct (build_levels fp o outs zs) as [more| | |] eqn:E; cbn [rbind] in H; try discriminate.
    apply Ok_inj in H. subst zooms. cbn [map]. f_equal. now apply IH.
Qed.
End Built.

(* ---------- region chains ---------- *)
Lemma reg_chain_weaken : forall l lo lo', lo' <= lo -> reg_chain lo l -> reg_chain lo' l.
Proof. destruct l as [|r l]; intros lo lo' H Hc; [exact I|]. destruct Hc as (H1 & H2 & H3). cbn [reg_chain]. repeat split; try assumption; lia. Qed.
Lemma chain_end_mono : forall l lo lo', lo' <= lo -> chain_end lo' l <= chain_end lo l.
Proof. destruct l as [|r l]; intros lo lo' H; cbn [chain_end]; lia. Qed.

(* ---------- the two zoom writers lay the kept levels out one after the other ---------- *)
Section Loops.
Variables (fp : fpmode) (o : opts) (chroms : list fchrom) (img : list N) (n : N) (inflate : N -> N -> option (list N)).
Variables (compress : list N -> list N) (cz : bool) (ubuf : N).
Hypothesis Hn : n = Nlen img.
Hypothesis Hn64 : n < W64.
Hypothesis Hopts : opts_ok o.
Hypothesis Hcne : forall b, compress b <> [].
Hypothesis Hmode : blk_mode cz ubuf.
Hypothesis Hinf : cz = true -> inflate_ok compress img inflate.
Variable rsecs_of : N -> list (list zrec).
Hypothesis Hgood : forall size, 1 <= size ->
  Forall (zsec_good (o_ips o)) (rsecs_of size) /\ Forall (zrec_good chroms) (concat (rsecs_of size))
  /\ StronglySorted zrec_lt (concat (rsecs_of size)).

(* a level as handed to the zoom writers: its sections compressed when [cz] *)
Definition lv (size : N) : BBIFile.zoom_level := zlevel compress cz {| zl_res := size; zl_secs := zsecs fp (rsecs_of size) |}.
Definition level_content (h : zoom_header) : N * list fzrec := (zh_res h, map (zr_view fp) (concat (rsecs_of (zh_res h)))).
(* a resolution the file can hold: fits u32, and its sections fit the advertised buffer *)
Definition size_ok (size : N) : Prop :=
  1 <= size < W32 /\ (cz = true -> Forall (fun rs => 32 * Nlen rs <= ubuf) (rsecs_of size)).

Definition laid_out (pos : N) (bytes : list N) (hdrs : list zoom_header) : Prop :=
  exists zlist, omap (FormatDecode.zoom_level img n false inflate true chroms ubuf) (map zh_view hdrs) = Some zlist
    /\ Forall zh_ok hdrs
    /\ reg_chain pos (zoom_regions zlist) /\ chain_end pos (zoom_regions zlist) <= pos + Nlen bytes
    /\ zoom_content zlist = map level_content hdrs.

Lemma laid_out_nil pos : laid_out pos [] [].
Proof. exists []. cbn. repeat split; try constructor; lia. Qed.

(* one level written at [pos], followed by what is laid out after it *)
Lemma laid_out_cons size pos ix lvn more hs :
  size_ok size ->
  let secs := wsecs fp (rsecs_of size) compress cz in
  let zsize := Nlen (data_bytes secs) in
  write_index (o_bs o) (o_ips o) (pos + zsize) (place pos secs) = Ok (ix, lvn) ->
  has_at img pos ((data_bytes secs ++ ix) ++ more) ->
  laid_out (pos + Nlen (data_bytes secs ++ ix)) more hs ->
  laid_out pos ((data_bytes secs ++ ix) ++ more) ({| zh_res := size; zh_data := pos; zh_index := pos + zsize |} :: hs).
Proof.
  intros [Hsz Hub] secs zsize Hix Hat (zlist & Hom & Hok & Hch & Hend & Hcont).
  apply has_at_app in Hat as [Hhere Hmore]. apply has_at_app in Hhere as [Hdat Hixat]. fold zsize in Hixat.
  destruct (Hgood size ltac:(lia)) as (G1 & G2 & G3). destruct Hopts as (Hb & Hi).
  destruct (zoom_level_ok img n inflate fp chroms (o_bs o) (o_ips o) (rsecs_of size) compress cz ubuf size pos ix lvn Hn Hn64 Hb Hi G1 G2 G3 Hcne Hmode
              (fun E => conj (Hinf E) (Hub E)) Hdat Hix Hixat)
    as (e & Hzl & He). fold secs zsize in Hzl, He.
  pose proof (has_at_bound img _ _ Hixat) as Hb1. rewrite <- Hn in Hb1.
  rewrite Nlen_app in *. fold zsize in Hch, Hend, Hmore |- *.
  exists ((size, map (zr_view fp) (concat (rsecs_of size)), (pos, pos + zsize), (pos + zsize, e)) :: zlist).
  split; [|split; [|split; [|split]]].
  - cbn [map omap]. unfold zh_view at 1. cbn [zh_res zh_data zh_index]. rewrite Hzl. cbn [obind]. rewrite Hom. reflexivity.
  - constructor; [|exact Hok]. unfold zh_ok. cbn [zh_res zh_data zh_index]. unfold W32, W64, U64 in *. repeat split; lia.
  - unfold zoom_regions. rewrite fm_cons. cbn [fst snd app reg_chain]. repeat split; try lia.
    eapply reg_chain_weaken; [|exact Hch]. lia.
  - unfold zoom_regions. rewrite fm_cons. cbn [fst snd app chain_end].
    pose proof (chain_end_mono (zoom_regions zlist) (pos + (zsize + Nlen ix)) e ltac:(lia)) as Hm. unfold zoom_regions in Hm, Hend.
    rewrite !Nlen_app. unfold zsize in *. lia.
  - unfold zoom_content in *. cbn [map fst snd]. rewrite Hcont. reflexivity.
Qed.

Lemma loop_layout : forall zsizes ds pos lc zc bytes hdrs,
  Forall size_ok zsizes ->
  write_zooms_loop o ds pos (map lv zsizes) lc zc = Ok (bytes, hdrs) -> has_at img pos bytes ->
  laid_out pos bytes hdrs.
Proof.
  induction zsizes as [|z zs IH]; intros ds pos lc zc bytes hdrs Hpos H Hat; cbn [map write_zooms_loop] in H.
  - apply Ok_inj in H. pose proof (f_equal fst H) as E1. pose proof (f_equal snd H) as E2. cbn [fst snd] in E1, E2. subst. apply laid_out_nil.
  - inversion Hpos as [|? ? Hz Hpos']; subst. cbv zeta in H. cbn [lv zlevel zl_secs zl_res] in H.
    fold (wsecs fp (rsecs_of z) compress cz) in H.
    destruct (_ && (ds / 2 <? _)); [exact (IH _ _ _ _ _ _ Hpos' H Hat)|].
    destruct (_ && match lc with None => false | Some l => _ end); [exact (IH _ _ _ _ _ _ Hpos' H Hat)|].
    destruct (write_index _ _ _ _) as [[ix lvn]| | |] eqn:Eix; cbn [rbind] in H; try discriminate.
    destruct (_ && (o_maxzooms o <=? zc + 1)).
    + apply Ok_inj in H. pose proof (f_equal fst H) as E1. pose proof (f_equal snd H) as E2. cbn [fst snd] in E1, E2. subst bytes hdrs.
      rewrite <- (app_nil_r (data_bytes (wsecs fp (rsecs_of z) compress cz) ++ ix)) in Hat |- *.
      apply (laid_out_cons z pos ix lvn [] [] Hz Eix Hat). apply laid_out_nil.
    + destruct (write_zooms_loop o ds _ (map lv zs) _ _) as [[more hs]| | |] eqn:E; cbn [rbind] in H; try discriminate.
      apply Ok_inj in H. pose proof (f_equal fst H) as E1. pose proof (f_equal snd H) as E2. cbn [fst snd] in E1, E2. subst bytes hdrs.
      pose proof Hat as Hat'. apply has_at_app in Hat' as [_ Hmore].
      apply (laid_out_cons z pos ix lvn more hs Hz Eix Hat).
      exact (IH _ _ _ _ _ _ Hpos' E Hmore).
Qed.

Lemma two_pass_layout : forall zsizes pos bytes hdrs,
  Forall size_ok zsizes ->
  write_zooms_two_pass o pos (map lv zsizes) = Ok (bytes, hdrs) -> has_at img pos bytes ->
  laid_out pos bytes hdrs.
Proof.
  induction zsizes as [|z zs IH]; intros pos bytes hdrs Hpos H Hat; cbn [map write_zooms_two_pass] in H.
  - apply Ok_inj in H. pose proof (f_equal fst H) as E1. pose proof (f_equal snd H) as E2. cbn [fst snd] in E1, E2. subst. apply laid_out_nil.
  - inversion Hpos as [|? ? Hz Hpos']; subst. cbv zeta in H. cbn [lv zlevel zl_secs zl_res] in H.
    fold (wsecs fp (rsecs_of z) compress cz) in H.
    destruct (write_index _ _ _ _) as [[ix lvn]| | |] eqn:Eix; cbn [rbind] in H; try discriminate.
    destruct (write_zooms_two_pass o _ (map lv zs)) as [[more hs]| | |] eqn:E; cbn [rbind] in H; try discriminate.
    apply Ok_inj in H. pose proof (f_equal fst H) as E1. pose proof (f_equal snd H) as E2. cbn [fst snd] in E1, E2. subst bytes hdrs.
    pose proof Hat as Hat'. apply has_at_app in Hat' as [_ Hmore].
    apply (laid_out_cons z pos ix lvn more hs Hz Eix Hat).
    exact (IH _ _ _ Hpos' E Hmore).
Qed.
End Loops.
