(* The coverage sweep emits the run-length encoding of the depth function (shared by C06 and C08).
   Invariant: the pending list is a contiguous chain of segments starting at the current entry's start
   whose depth, added to that of the segments emitted so far, is the depth of the entries seen so far. *)
From BT Require Import Base.Util Model.BedSweep Spec.Depth Proofs.DepthStats.
Local Open Scope N_scope.

(* contiguous chain starting at s *)
Fixpoint chain (s : N) (l : list seg) : Prop :=
  match l with
  | [] => True
  | g :: r => g_start g = s /\ s <= g_end g /\ chain (g_end g) r
  end.
Fixpoint chain_end (s : N) (l : list seg) : N :=
  match l with [] => s | g :: r => chain_end (g_end g) r end.

Lemma chain_end_ge : forall l s, chain s l -> s <= chain_end s l.
Proof.
  induction l as [|g r IH]; intros s H; cbn [chain chain_end] in *; [lia|].
  destruct H as (_ & H1 & H2). specialize (IH _ H2). lia.
Qed.

Lemma chain_depth_below : forall l s x, chain s l -> x < s -> segs_depth l x = 0.
Proof.
  induction l as [|g r IH]; intros s x H Hx; [reflexivity|].
  cbn [chain] in H. destruct H as (H0 & H1 & H2).
  rewrite segs_depth_cons, seg_at_out by lia. rewrite (IH (g_end g)) by (assumption || lia). reflexivity.
Qed.

Lemma chain_app : forall l s g, chain s l -> g_start g = chain_end s l -> g_start g <= g_end g -> chain s (l ++ [g]).
Proof.
  induction l as [|o r IH]; intros s g H Hs Hle; cbn [app chain chain_end] in *.
  - repeat split; (assumption || lia).
  - destruct H as (A & B & C). repeat split; try assumption. now apply IH.
Qed.

Lemma chain_end_app : forall l s g, chain_end s (l ++ [g]) = g_end g.
Proof. induction l as [|o r IH]; intros s g; cbn [app chain_end]; [reflexivity | apply IH]. Qed.

Lemma last_indep : forall (l : list seg) d d', l <> [] -> last l d = last l d'.
Proof.
  induction l as [|a r IH]; intros d d' H; [congruence|].
  destruct r as [|b r']; [reflexivity|]. cbn [last] in *. apply IH. discriminate.
Qed.
Lemma chain_end_last : forall r x s, chain_end s (x :: r) = g_end (last r x).
Proof.
  induction r as [|y r' IH]; intros x s; [reflexivity|].
  cbn [chain_end] in *. rewrite (IH y (g_end x)).
  destruct r' as [|z r'']; [reflexivity|]. f_equal. change (last (y :: z :: r'') x) with (last (z :: r'') x). apply last_indep. discriminate.
Qed.
Lemma last_opt_chain_end : forall l s o, last_opt l = Some o -> chain_end s l = g_end o.
Proof.
  intros [|x r] s o H; [discriminate|]. cbn [last_opt] in H. inversion H; subst. apply chain_end_last.
Qed.
Lemma last_opt_none : forall (l : list seg), last_opt l = None -> l = [].
Proof. destruct l; [reflexivity | discriminate]. Qed.

(* indicator of s <= x < e *)
Definition ind (s e x : N) : N := if (s <=? x) && (x <? e) then 1 else 0.
Lemma ind_in : forall s e x, s <= x < e -> ind s e x = 1.
Proof. intros. unfold ind. destruct (N.leb_spec s x); destruct (N.ltb_spec x e); cbn [andb]; try reflexivity; exfalso; lia. Qed.
Lemma ind_out : forall s e x, x < s \/ e <= x -> ind s e x = 0.
Proof. intros. unfold ind. destruct (N.leb_spec s x); destruct (N.ltb_spec x e); cbn [andb]; try reflexivity; exfalso; lia. Qed.

Ltac seg_cases x :=
  repeat match goal with
  | |- context [seg_at ?g x] =>
      let H := fresh "Hs" in
      destruct (N.lt_ge_cases x (g_start g)) as [H|H];
      [rewrite (seg_at_out g x) by (cbn [g_start g_end] in *; lia)
      | let H2 := fresh "Hs" in
        destruct (N.lt_ge_cases x (g_end g)) as [H2|H2];
        [rewrite (seg_at_in g x) by (cbn [g_start g_end] in *; lia)
        | rewrite (seg_at_out g x) by (cbn [g_start g_end] in *; lia)]]
  | |- context [ind ?s ?e x] =>
      let H := fresh "Hi" in
      destruct (N.lt_ge_cases x s) as [H|H];
      [rewrite (ind_out s e x) by lia
      | let H2 := fresh "Hi" in
        destruct (N.lt_ge_cases x e) as [H2|H2];
        [rewrite (ind_in s e x) by lia | rewrite (ind_out s e x) by lia]]
  end.

(* ---- bump ---- *)
Lemma bump_spec : forall l s e, chain s l -> s <= e ->
  chain s (bump e l) /\ chain_end s (bump e l) = chain_end s l /\
  (forall x, segs_depth (bump e l) x = segs_depth l x + ind s (N.min e (chain_end s l)) x).
Proof.
  induction l as [|g r IH]; intros s e Hc He.
  - cbn [bump chain chain_end]. repeat split. intro x. cbn [segs_depth map sumN].
    rewrite ind_out by lia. reflexivity.
  - cbn [chain] in Hc. destruct Hc as (H0 & H1 & H2).
    pose proof (chain_end_ge _ _ H2) as Hge.
    cbn [bump chain_end]. destruct (N.ltb_spec e (g_end g)) as [Hlt|Hge'].
    + cbn [chain chain_end g_start g_end]. repeat split; try (assumption || lia).
      intro x. rewrite !segs_depth_cons. replace (N.min e (chain_end (g_end g) r)) with e by lia.
      seg_cases x; cbn [g_start g_end g_val] in *; try lia.
    + destruct (IH (g_end g) e H2 Hge') as (A & B & C).
      cbn [chain chain_end g_start g_end]. repeat split; try (assumption || lia).
      intro x. rewrite !segs_depth_cons, C.
      seg_cases x; cbn [g_start g_end g_val] in *; try lia.
Qed.

(* ---- the tail rule ---- *)
Lemma tail_spec : forall l s e, chain s l -> s <= e ->
  chain s (tail_rule s e l) /\
  (forall x, segs_depth (tail_rule s e l) x = segs_depth l x + ind (chain_end s l) e x).
Proof.
  intros l s e Hc He. unfold tail_rule. destruct (last_opt l) as [o|] eqn:El.
  - rewrite <- (last_opt_chain_end l s o El).
    pose proof (chain_end_ge _ _ Hc) as Hge.
    destruct (N.ltb_spec (chain_end s l) e) as [Hlt|Hnlt].
    + split.
      * apply chain_app; cbn [g_start g_end]; (assumption || reflexivity || lia).
      * intro x. rewrite segs_depth_app. f_equal. cbn [segs_depth map sumN].
        seg_cases x; cbn [g_start g_end g_val] in *; lia.
    + split; [assumption|]. intro x. rewrite ind_out by lia. lia.
  - apply last_opt_none in El. subst l. cbn [app chain chain_end g_start g_end]. split.
    + repeat split; lia.
    + intro x. cbn [segs_depth map sumN]. seg_cases x; cbn [g_start g_end g_val] in *; lia.
Qed.

(* bump then tail: the entry's contribution is exactly the indicator of [s, e) *)
Lemma add_entry_spec : forall l s e, chain s l -> s <= e ->
  chain s (tail_rule s e (bump e l)) /\
  (forall x, segs_depth (tail_rule s e (bump e l)) x = segs_depth l x + ind s e x).
Proof.
  intros l s e Hc He.
  destruct (bump_spec l s e Hc He) as (A & B & C).
  destruct (tail_spec (bump e l) s e A He) as (D & E).
  split; [assumption|]. intro x. rewrite E, C, B.
  pose proof (chain_end_ge _ _ Hc) as Hge.
  seg_cases x; lia.
Qed.

(* ---- flush ---- *)
Lemma flush_spec : forall l s ns, chain s l -> s <= ns ->
  chain ns (snd (flush ns l)) /\
  segs_sorted s (fst (flush ns l)) /\ Forall (fun g => g_end g <= ns) (fst (flush ns l)) /\
  (forall x, segs_depth (fst (flush ns l)) x + segs_depth (snd (flush ns l)) x = segs_depth l x).
Proof.
  induction l as [|g r IH]; intros s ns Hc Hs.
  - cbn [flush fst snd chain segs_sorted]. split; [exact I | split; [exact I | split; [constructor | reflexivity]]].
  - cbn [chain] in Hc. destruct Hc as (H0 & H1 & H2). cbn [flush].
    destruct (N.ltb_spec (g_start g) ns) as [Hlt|Hge].
    + destruct (N.leb_spec (g_end g) ns) as [Hle|Hgt].
      * destruct (IH (g_end g) ns H2 Hle) as (A & B & C & D).
        destruct (flush ns r) as [em rest]. cbn [fst snd] in *.
        split; [exact A | split; [|split]].
        -- cbn [segs_sorted]. split; [lia | split; [lia | exact B]].
        -- constructor; assumption.
        -- intro x. rewrite !segs_depth_cons, <- D. lia.
      * cbn [fst snd]. split; [|split; [|split]].
        -- cbn [chain g_start g_end]. split; [reflexivity | split; [lia | exact H2]].
        -- cbn [segs_sorted g_start g_end]. split; [lia | split; [lia | exact I]].
        -- constructor; [cbn [g_end]; lia | constructor].
        -- intro x. rewrite !segs_depth_cons. cbn [segs_depth map sumN].
           seg_cases x; cbn [g_start g_end g_val] in *; lia.
    + cbn [fst snd segs_sorted]. split; [|split; [exact I | split; [constructor | intro x; cbn [segs_depth map sumN]; lia]]].
      cbn [chain]. split; [lia | split; [lia | exact H2]].
Qed.

(* bounds carried along: every segment end is at most U, every value at least 1 *)
Definition seg_ok (U : N) (g : seg) : Prop := g_end g <= U /\ 1 <= g_val g.

Lemma bump_ok : forall U e l, e <= U -> Forall (seg_ok U) l -> Forall (seg_ok U) (bump e l).
Proof.
  intros U e l He. induction l as [|g r IH]; intro H; cbn [bump]; [constructor|].
  inversion H as [|? ? Hg Hr]; subst. destruct Hg as (G1 & G2).
  destruct (N.ltb_spec e (g_end g)).
  - constructor; [|constructor]; try assumption; unfold seg_ok; cbn [g_end g_val]; lia.
  - constructor; [unfold seg_ok; cbn [g_end g_val]; lia | now apply IH].
Qed.
Lemma tail_ok : forall U s e l, e <= U -> Forall (seg_ok U) l -> Forall (seg_ok U) (tail_rule s e l).
Proof.
  intros U s e l He H. unfold tail_rule. destruct (last_opt l) as [o|].
  - destruct (g_end o <? e); [|assumption]. apply Forall_app. split; [assumption|].
    constructor; [unfold seg_ok; cbn [g_end g_val]; lia | constructor].
  - apply Forall_app. split; [assumption|]. constructor; [unfold seg_ok; cbn [g_end g_val]; lia | constructor].
Qed.
Lemma flush_ok : forall U ns l, Forall (seg_ok U) l ->
  Forall (seg_ok U) (fst (flush ns l)) /\ Forall (seg_ok U) (snd (flush ns l)).
Proof.
  intros U ns l. induction l as [|g r IH]; intro H; cbn [flush]; [split; constructor|].
  inversion H as [|? ? Hg Hr]; subst. destruct Hg as (G1 & G2).
  destruct (g_start g <? ns).
  - destruct (N.leb_spec (g_end g) ns).
    + destruct (IH Hr) as (A & B). destruct (flush ns r). cbn [fst snd] in *.
      split; [constructor; [split|]|]; assumption.
    + cbn [fst snd]. split; constructor; try constructor; try assumption; unfold seg_ok; cbn [g_end g_val]; lia.
  - cbn [fst snd]. split; [constructor | constructor; [split|]; assumption].
Qed.

(* ---- the whole chromosome ---- *)
Definition entry_ok (U : N) (e : entry) : Prop := e_start e <= e_end e /\ e_end e <= U.
(* what bb_check_chrom accepts, as far as the sweep is concerned: starts in order, start <= end *)
Fixpoint starts_sorted (es : list entry) : Prop :=
  match es with
  | [] => True
  | e :: r => match r with [] => True | e' :: _ => e_start e <= e_start e' end /\ starts_sorted r
  end.

Lemma depth_cons : forall e es x, depth (e :: es) x = ind (e_start e) (e_end e) x + depth es x.
Proof.
  intros e es x. unfold depth, ind, covers. cbn [filter].
  destruct ((e_start e <=? x) && (x <? e_end e)); unfold Nlen; cbn [length]; lia.
Qed.
Lemma depth_nil : forall x, depth [] x = 0.
Proof. reflexivity. Qed.

Lemma sweep_groups_cons : forall l e r,
  sweep_groups l (e :: r) = let (em, l') := sweep_step l e (hd_error r) in em :: sweep_groups l' r.
Proof. reflexivity. Qed.

Lemma sweep_groups_spec : forall U r e l,
  U <= U32_MAX -> Forall (entry_ok U) (e :: r) -> starts_sorted (e :: r) ->
  chain (e_start e) l -> Forall (seg_ok U) l ->
  let em := concat (sweep_groups l (e :: r)) in
  segs_sorted (e_start e) em /\ Forall (seg_ok U) em /\
  (forall x, x < U32_MAX -> segs_depth em x = segs_depth l x + depth (e :: r) x).
Proof.
  intros U r. induction r as [|e' r' IH]; intros e l HU Hok Hsorted Hc Hl.
  - inversion Hok as [|? ? He _]; subst. destruct He as (He1 & He2).
    destruct (add_entry_spec l (e_start e) (e_end e) Hc He1) as (A & B).
    pose proof (tail_ok U (e_start e) (e_end e) _ He2 (bump_ok U (e_end e) l He2 Hl)) as Hok1.
    rewrite sweep_groups_cons. cbn [hd_error]. unfold sweep_step. cbn [next_start].
    assert (Hns : e_start e <= U32_MAX) by lia.
    pose proof (flush_spec _ _ U32_MAX A Hns) as (F1 & F2 & F3 & F4).
    pose proof (flush_ok U U32_MAX _ Hok1) as (G1 & G2).
    destruct (flush U32_MAX (tail_rule (e_start e) (e_end e) (bump (e_end e) l))) as [em1 l'].
    cbn [fst snd] in *. cbn [concat]. rewrite app_nil_r.
    repeat split; try assumption.
    intros x Hx. specialize (F4 x). rewrite B in F4.
    rewrite (chain_depth_below l' U32_MAX x F1 Hx) in F4.
    rewrite depth_cons, depth_nil. lia.
  - inversion Hok as [|? ? He Hok']; subst. destruct He as (He1 & He2).
    cbn [starts_sorted] in Hsorted. destruct Hsorted as (Hle & Hsorted').
    destruct (add_entry_spec l (e_start e) (e_end e) Hc He1) as (A & B).
    pose proof (tail_ok U (e_start e) (e_end e) _ He2 (bump_ok U (e_end e) l He2 Hl)) as Hok1.
    rewrite sweep_groups_cons. cbn [hd_error]. unfold sweep_step. cbn [next_start].
    pose proof (flush_spec _ _ (e_start e') A Hle) as (F1 & F2 & F3 & F4).
    pose proof (flush_ok U (e_start e') _ Hok1) as (G1 & G2).
    destruct (flush (e_start e') (tail_rule (e_start e) (e_end e) (bump (e_end e) l))) as [em1 l'].
    cbn [fst snd] in *. cbn [concat].
    specialize (IH e' l' HU Hok' Hsorted' F1 G2). cbn zeta in IH. destruct IH as (I1 & I2 & I3).
    repeat split.
    + eapply segs_sorted_app; eassumption.
    + apply Forall_app. split; assumption.
    + intros x Hx. rewrite segs_depth_app, (I3 x Hx). specialize (F4 x). rewrite B in F4.
      rewrite (depth_cons e). lia.
Qed.

(* C08_sweep_eq_rle_depth: the emitted segments are sorted, disjoint, carry positive depths, and their
   depth function is the depth of the entries, at every position *)
Theorem sweep_eq_rle_depth : forall U es,
  U <= U32_MAX -> Forall (entry_ok U) es -> starts_sorted es ->
  segs_sorted 0 (sweep_emitted es) /\ Forall (seg_ok U) (sweep_emitted es) /\
  (forall x, x < U32_MAX -> segs_depth (sweep_emitted es) x = depth es x).
Proof.
  intros U es HU Hok Hs. unfold sweep_emitted. destruct es as [|e r].
  - cbn [sweep_groups concat segs_sorted]. repeat split; constructor.
  - destruct (sweep_groups_spec U r e [] HU Hok Hs I (Forall_nil _)) as (A & B & C).
    repeat split.
    + eapply segs_sorted_weaken; [|exact A]. lia.
    + exact B.
    + intros x Hx. rewrite (C x Hx). cbn [segs_depth map sumN]. lia.
Qed.

(* past every entry the depth is zero *)
Lemma depth_zero_past : forall U es x, Forall (entry_ok U) es -> U <= x -> depth es x = 0.
Proof.
  intros U es x H Hx. induction es as [|e r IH]; [reflexivity|].
  inversion H as [|? ? He Hr]; subst. destruct He as (He1 & He2).
  rewrite depth_cons, ind_out by lia. rewrite IH by assumption. reflexivity.
Qed.
