(* C07: the statements about the zoom records of one chromosome at one resolution, derived from
   the loop invariant (Proofs/ZoomInv.v).  [R := concat (zs_out st)] is the list of records the
   writer hands to encode_zoom_section, section after section, for that chromosome and level. *)
From BT Require Import Base.Util Base.Float Model.RTree Model.BBIFile Model.BigWigWrite Model.BBIRead
  Proofs.BigWigQuery Proofs.ZoomLoop Proofs.ZoomInv.
Local Open Scope N_scope.

Lemma wf_all len vals : wf_vals len vals -> Forall (fun v => v_start v <= v_end v /\ v_end v <= len) vals.
Proof.
  induction vals as [|v r IH]; intros H; [constructor|].
  constructor; [exact (wf_head _ _ _ H)|]. apply IH. exact (wf_tail _ _ _ H).
Qed.

(* ---- order, width, one chromosome ---- *)
Theorem zoom_ordered_disjoint fp ips size chrom len vals st : 1 <= size -> wf_vals len vals ->
  zoom_chrom fp ips size chrom vals zstate0 = Ok st ->
  zs_live st = None /\ zs_records st = [] /\
  let R := concat (zs_out st) in
  Forall (fun r => z_chrom r = chrom /\ z_start r < z_end r /\ z_end r - z_start r <= size /\ z_end r <= len) R /\
  (forall R1 r1 r2 R2, R = R1 ++ r1 :: r2 :: R2 -> z_end r1 <= z_start r2).
Proof.
  intros Hsz Hwf Hrun. destruct (zoom_chrom_final fp size chrom len ips vals st Hsz Hwf Hrun) as [HF [Hl Hr]].
  split; [exact Hl|]. split; [exact Hr|]. cbv zeta. destruct HF as [Ho _ _ _ He]. split.
  - apply Forall_forall. intros r Hin. destruct (ordered_in _ _ _ _ _ Ho Hin) as [[Hg1 [Hg2 Hg3]] _].
    destruct (He r Hin) as [v [Hv Hve]]. pose proof (wf_all _ _ Hwf) as Hall. rewrite Forall_forall in Hall.
    destruct (Hall v Hv). repeat split; try assumption; lia.
  - intros R1 r1 r2 R2 HR. rewrite HR in Ho. eapply ordered_adjacent. exact Ho.
Qed.

(* ---- partition of the bases that have data ---- *)
Definition overlap_len (s e : N) (v : value) : N := N.min (v_end v) e - N.max (v_start v) s.
Definition plen (p : piece) : N := p_end p - p_start p.

Lemma contribs_len s e vals : sumN (map plen (contribs s e vals)) = sumN (map (overlap_len s e) vals).
Proof.
  induction vals as [|v r IH]; [reflexivity|]. unfold contribs in *. cbn [flat_map map sumN].
  rewrite map_app, sumN_app, IH. f_equal. unfold contrib, overlap_len.
  destruct (N.ltb_spec (N.max (v_start v) s) (N.min (v_end v) e)); cbn [map sumN]; unfold plen, p_end, p_start; cbn [fst snd]; lia.
Qed.

Lemma contribs_spec s e vals p : In p (contribs s e vals) <->
  exists v, In v vals /\ p = (N.max (v_start v) s, N.min (v_end v) e, v_val v) /\ N.max (v_start v) s < N.min (v_end v) e.
Proof.
  unfold contribs. rewrite in_flat_map. split.
  - intros [v [Hin Hp]]. exists v. split; [exact Hin|]. unfold contrib in Hp.
    destruct (N.ltb_spec (N.max (v_start v) s) (N.min (v_end v) e)); [|destruct Hp].
    destruct Hp as [<-|[]]. split; [reflexivity|assumption].
  - intros [v [Hin [-> Hlt]]]. exists v. split; [exact Hin|]. unfold contrib.
    destruct (N.ltb_spec (N.max (v_start v) s) (N.min (v_end v) e)); [now left|exfalso; lia].
Qed.

(* what folding contributions into a record does to each field *)
Definition sum_step (fp : fpmode) (acc : fl) (p : piece) : fl := fadd64 fp acc (fmul64 fp (f_of_N (plen p)) (p_val p)).
Definition sumsq_step (fp : fpmode) (acc : fl) (p : piece) : fl :=
  fadd64 fp acc (fmul64 fp (fmul64 fp (f_of_N (plen p)) (p_val p)) (p_val p)).

Lemma fold_fields fp : forall ps z, let z' := fold_left (add_piece fp) ps z in
  z_start z' = z_start z /\ z_chrom z' = z_chrom z /\
  su_items (z_sum z') = su_items (z_sum z) + Nlen ps /\
  su_bases (z_sum z') = su_bases (z_sum z) + sumN (map plen ps) /\
  su_min (z_sum z') = fold_left (fun m p => fmin m (p_val p)) ps (su_min (z_sum z)) /\
  su_max (z_sum z') = fold_left (fun m p => fmax m (p_val p)) ps (su_max (z_sum z)) /\
  su_sum (z_sum z') = fold_left (sum_step fp) ps (su_sum (z_sum z)) /\
  su_sumsq (z_sum z') = fold_left (sumsq_step fp) ps (su_sumsq (z_sum z)).
Proof.
  induction ps as [|p ps IH]; intros z; cbv zeta.
  - cbn [fold_left map sumN]. unfold Nlen. cbn [length N.of_nat]. repeat split; lia.
  - cbn [fold_left]. specialize (IH (add_piece fp z p)). cbv zeta in IH.
    destruct IH as [H1 [H2 [H3 [H4 [H5 [H6 [H7 H8]]]]]]].
    rewrite H1, H2, H3, H4, H5, H6, H7, H8. unfold add_piece, zrec_add.
    cbn [z_start z_chrom z_sum su_items su_bases su_min su_max su_sum su_sumsq map sumN].
    unfold Nlen. cbn [length]. rewrite Nat2N.inj_succ.
    repeat split; try reflexivity; unfold plen; lia.
Qed.

Theorem zoom_partition fp ips size chrom len vals st : 1 <= size -> wf_vals len vals ->
  zoom_chrom fp ips size chrom vals zstate0 = Ok st ->
  let R := concat (zs_out st) in
  (* every base of every value lies in exactly one record *)
  (forall v p, In v vals -> v_start v <= p < v_end v ->
     exists r, In r R /\ z_start r <= p < z_end r /\
               forall r', In r' R -> z_start r' <= p < z_end r' -> r' = r) /\
  (* the covered counts add up to the number of bases with data *)
  sumN (map cov R) = sumN (map vlen vals) /\
  (* a record's covered count is the number of data bases inside its span: nothing else is counted *)
  Forall (fun r => cov r = sumN (map (overlap_len (z_start r) (z_end r)) vals)) R.
Proof.
  intros Hsz Hwf Hrun. destruct (zoom_chrom_final fp size chrom len ips vals st Hsz Hwf Hrun) as [HF _].
  cbv zeta. destruct HF as [Ho Hrec Hcov Hsum _]. split; [|split].
  - intros v p Hin Hp. destruct (Hcov v p Hin Hp) as [r [Hr Hrp]]. exists r. split; [exact Hr|]. split; [exact Hrp|].
    intros r' Hr' Hrp'. eapply ordered_unique; eauto.
  - exact Hsum.
  - eapply Forall_impl; [|exact Hrec]. cbv beta. intros r Hr. unfold rec_ok, build in Hr.
    rewrite <- contribs_len.
    destruct (contribs (z_start r) (z_end r) vals) as [|p0 ps] eqn:Ec; [discriminate|].
    injection Hr as Hr. pose proof (fold_fields fp (p0 :: ps) (zrec_new chrom (z_start r) (p_val p0))) as Hf.
    cbv zeta in Hf. cbn [fold_left] in Hf, Hr. rewrite Hr in Hf. destruct Hf as [_ [_ [_ [Hb _]]]]. unfold cov. rewrite Hb. reflexivity.
Qed.

(* ---- per-record statistics ---- *)
Definition stats_of (fp : fpmode) (r : zrec) (cs : list piece) : Prop :=
  match cs with
  | [] => False                 (* every record holds data *)
  | p0 :: _ =>
      su_items (z_sum r) = Nlen cs /\
      su_bases (z_sum r) = sumN (map plen cs) /\
      su_min (z_sum r) = fold_left (fun m p => fmin m (p_val p)) cs (p_val p0) /\
      su_max (z_sum r) = fold_left (fun m p => fmax m (p_val p)) cs (p_val p0) /\
      su_sum (z_sum r) = fold_left (sum_step fp) cs fzero /\
      su_sumsq (z_sum r) = fold_left (sumsq_step fp) cs fzero
  end.

Theorem zoom_stats fp ips size chrom len vals st : 1 <= size -> wf_vals len vals ->
  zoom_chrom fp ips size chrom vals zstate0 = Ok st ->
  Forall (fun r => let cs := contribs (z_start r) (z_end r) vals in
                   build fp chrom (z_start r) cs = Some r /\ stats_of fp r cs)
         (concat (zs_out st)).
Proof.
  intros Hsz Hwf Hrun. destruct (zoom_chrom_final fp size chrom len ips vals st Hsz Hwf Hrun) as [HF _].
  destruct HF as [_ Hrec _ _ _]. eapply Forall_impl; [|exact Hrec]. cbv beta zeta. intros r Hr.
  split; [exact Hr|]. unfold rec_ok, build in Hr.
  destruct (contribs (z_start r) (z_end r) vals) as [|p0 ps] eqn:Ec; [discriminate|].
  injection Hr as Hr. pose proof (fold_fields fp (p0 :: ps) (zrec_new chrom (z_start r) (p_val p0))) as Hf.
  cbv zeta in Hf. cbn [fold_left] in Hf, Hr. rewrite Hr in Hf. destruct Hf as [_ [_ [H3 [H4 [H5 [H6 [H7 H8]]]]]]].
  cbn [zrec_new z_sum su_items su_bases su_min su_max su_sum su_sumsq] in *.
  unfold stats_of. repeat split; try assumption; lia.
Qed.
