(* C05, reader side: if a byte image REPRESENTS a tree at some offset (reading there gives the
   tree's items, and every child pointer leads to an offset that represents the corresponding
   child), then the reader's deque-driven, pointer-chasing search returns exactly what the
   abstract search_tree returns, in the same order.  No statement about the writer here. *)
From BT Require Import Base.Util Base.LE Model.RTree Proofs.RTreeCodec.
Local Open Scope N_scope.

(* [rep h img off t]: t has uniform height h and is readable from img at off *)
Fixpoint rep (h : nat) (img : list N) (off : N) (t : tree) : Prop :=
  match h with
  | O => exists l, t = Leaf l /\ read_node false img off = Ok (PLeaf (map li_of l))
  | S k => exists ch ptrs, t = Node ch
             /\ read_node false img off = Ok (PInner (combine (map fst ch) ptrs))
             /\ Forall2 (rep k img) ptrs (map snd ch)
  end.

Definition blocks_of (l : list sect) : list block := map (fun s => (s_off s, s_size s)) l.

(* number of nodes *)
Fixpoint nsum (l : list nat) : nat := match l with [] => O | x :: r => (x + nsum r)%nat end.
Fixpoint tsize (t : tree) : nat :=
  match t with
  | Leaf _ => 1
  | Node ch => S (nsum (map (fun c => tsize (snd c)) ch))
  end.

Lemma leaf_hits q qs qe l :
  map (fun i => (li_off i, li_size i)) (filter (fun i => overlaps q qs qe (li_span i)) (map li_of l))
  = blocks_of (filter (fun s => overlaps q qs qe (sect_span s)) l).
Proof.
  unfold blocks_of. induction l as [|s l IH]; [reflexivity|]. cbn [map filter li_of li_span].
  destruct (overlaps q qs qe (sect_span s)); cbn [map li_off li_size]; now rewrite IH.
Qed.

Section Search.
Variables (img : list N) (q qs qe : N).

(* from fuel f on, searching the queue gives r *)
Definition conv (f : nat) (queue : list N) (r : list block) : Prop :=
  forall fuel, (f <= fuel)%nat -> search_loop fuel false img queue q qs qe = Ok r.

Lemma conv_mono f f' queue r : conv f queue r -> (f <= f')%nat -> conv f' queue r.
Proof. intros H Hle fuel Hf. apply H. lia. Qed.

Lemma search_rep : forall h t off, rep h img off t ->
  forall f rest r, conv f rest r ->
    conv (tsize t + f) (off :: rest) (blocks_of (search_tree q qs qe t) ++ r).
Proof.
  induction h as [|h IH]; intros t off Hrep f rest r Hc.
  - destruct Hrep as [l [-> Hread]]. intros fuel Hf. cbn [tsize] in Hf.
    destruct fuel as [|fuel]; [exfalso; lia|].
    cbn [search_loop]. rewrite Hread. cbn [rbind].
    rewrite (Hc fuel) by lia. cbn [rbind]. rewrite leaf_hits. reflexivity.
  - destruct Hrep as [ch [ptrs [-> [Hread Hkids]]]]. intros fuel Hf. cbn [tsize] in Hf.
    destruct fuel as [|fuel]; [exfalso; lia|].
    cbn [search_loop]. rewrite Hread. cbn [rbind search_tree].
    assert (Hinner : conv (nsum (map (fun c => tsize (snd c)) ch) + f)
              (map snd (filter (fun i : span * N => overlaps q qs qe (fst i)) (combine (map fst ch) ptrs)) ++ rest)
              (blocks_of (flat_map (fun c => if overlaps q qs qe (fst c) then search_tree q qs qe (snd c) else []) ch) ++ r)).
    { clear Hread Hf fuel. revert ptrs Hkids.
      induction ch as [|c ch IHch]; intros ptrs Hkids.
      - cbn [map combine filter app flat_map nsum blocks_of]. exact Hc.
      - cbn [map] in Hkids. inversion Hkids as [|p c' ptrs' ch' Hp Hrest]; subst.
        specialize (IHch ptrs' Hrest).
        cbn [map combine filter flat_map nsum fst].
        destruct (overlaps q qs qe (fst c)) eqn:Ho.
        + cbn [map snd app]. unfold blocks_of. rewrite map_app. fold (blocks_of (search_tree q qs qe (snd c))).
          rewrite <- app_assoc.
          eapply conv_mono.
          * apply (IH (snd c) p Hp _ _ _ IHch).
          * lia.
        + cbn [app]. eapply conv_mono; [exact IHch|lia]. }
    apply Hinner. lia.
Qed.

(* the reader's entry point *)
Theorem search_bytes_rep h t root : rep h img root t ->
  forall fuel, (tsize t < fuel)%nat ->
    search_bytes fuel false img root q qs qe = Ok (blocks_of (search_tree q qs qe t)).
Proof.
  intros Hrep fuel Hf. unfold search_bytes.
  assert (Hnil : conv 1 [] []). { intros [|k] Hk; [exfalso; lia|reflexivity]. }
  pose proof (search_rep h t root Hrep 1%nat [] [] Hnil fuel) as H.
  rewrite app_nil_r in H. apply H. lia.
Qed.
End Search.
