(* Consequences of the reachable-configuration invariant (Proofs/TempBufInv.v): delivery,
   absence of panics, progress / no deadlock, termination of the fair continuation, length. *)
From BT Require Import Base.Util Model.TempBuf Proofs.TempBufInv.

(* ---------------------------------------------------------------- reading the invariant *)
Lemma cfg_no_panic d0 W c0 s : Cfg d0 W c0 s -> panicked s = false.
Proof. intros H. destruct H; reflexivity. Qed.

Lemma cfg_dest d0 W c0 s : Cfg d0 W c0 s -> forall r, c_dest s = Some r -> r = d0 ++ W.
Proof. intros H r. destruct H; cbn; intros E; try discriminate. now inversion E. Qed.

Lemma cfg_terminal_dest d0 W s : Cfg d0 W true s -> terminal s = true -> c_dest s = Some (d0 ++ W).
Proof.
  intros H. destruct H as [sw mb ps todo mid prog ob done Hloc Hw Hmid Hleg Hc Hob | sw mb x prog ob Hloc Hleg Hc Hob
                           | mb x ob Hloc Hc Hob | mb x ob Hloc Hc Hob | ob Hc Hob];
    unfold terminal; cbn; intros Ht; try discriminate; try reflexivity.
  destruct prog; [cbn in Hc; discriminate|discriminate].
Qed.

Lemma cfg_obs d0 W c0 s : Cfg d0 W c0 s -> Forall (obs_ok W (p_dropped s)) (c_obs s).
Proof. intros H. destruct H; cbn; assumption. Qed.

(* once the producer has dropped and the consumer is between calls with something left to do,
   [closed] is set: no call of the consumer can block any more *)
Lemma cfg_dropped_closed d0 W c0 s : Cfg d0 W c0 s -> p_dropped s = true ->
  c_mid s = CIdle -> c_prog s <> [] -> exists x, closed s = Some x.
Proof.
  intros H. destruct H; cbn; intros Hd Hm Hp; try discriminate; try congruence. eexists; reflexivity.
Qed.

(* ---------------------------------------------------------------- enabledness *)
Lemma producer_enabled s : p_dropped s = false -> exists s', step_p s = Some s'.
Proof.
  destruct s as [mb cl ps todo mid dr prog cm ob de pn]. cbn. intros ->.
  destruct todo as [|[w|] rest]; [eexists; reflexivity| |eexists; reflexivity].
  destruct mid; destruct ps; try destruct mb; eexists; reflexivity.
Qed.

Lemma consumer_enabled_closed d0 s x : closed s = Some x -> c_mid s = CIdle -> c_prog s <> [] ->
  exists s', step_c d0 s = Some s'.
Proof.
  destruct s as [mb cl ps todo mid dr prog cm ob de pn]. cbn. intros -> -> Hp.
  destruct prog as [|[| | | |] rest]; [congruence| | | | |].
  - destruct mb; eexists; reflexivity.
  - eexists; reflexivity.
  - destruct x; eexists; reflexivity.
  - eexists; reflexivity.
  - eexists; reflexivity.
Qed.

Lemma consumer_enabled_taken d0 s : c_mid s <> CIdle -> exists s', step_c d0 s = Some s'.
Proof.
  destruct s as [mb cl ps todo mid dr prog cm ob de pn]. cbn. intros Hm.
  destruct cm as [|x|x]; [congruence| |].
  - destruct mb; destruct x; eexists; reflexivity.
  - destruct mb; [|destruct x]; eexists; reflexivity.
Qed.

Lemma terminal_false_cases s : terminal s = false ->
  p_dropped s = false \/ (p_dropped s = true /\ (c_mid s <> CIdle \/ c_mid s = CIdle /\ c_prog s <> [])).
Proof.
  unfold terminal. destruct (p_dropped s); [|auto]. intros H. right. split; [reflexivity|].
  destruct (c_mid s); [|left; discriminate|left; discriminate].
  right. split; [reflexivity|]. destruct (c_prog s); [discriminate|discriminate].
Qed.

Lemma cfg_consumer_enabled d0 W c0 s : Cfg d0 W c0 s -> p_dropped s = true -> terminal s = false ->
  exists s', step_c d0 s = Some s'.
Proof.
  intros H Hd Ht. destruct (terminal_false_cases s Ht) as [Hd' | [_ [Hm | [Hm Hp]]]]; [congruence| |].
  - now apply consumer_enabled_taken.
  - destruct (cfg_dropped_closed _ _ _ _ H Hd Hm Hp) as [x Hx]. eapply consumer_enabled_closed; eauto.
Qed.

Lemma cfg_progress d0 W c0 s : Cfg d0 W c0 s -> terminal s = false -> exists t s', step d0 t s = Some s'.
Proof.
  intros H Ht. destruct (p_dropped s) eqn:Hd.
  - exists TC. cbn. eapply cfg_consumer_enabled; eauto.
  - exists TP. cbn. now apply producer_enabled.
Qed.

(* ---------------------------------------------------------------- the fair continuation terminates *)
Lemma run_app d0 a b s : run d0 (a ++ b) s = run d0 b (run d0 a s).
Proof. revert s. induction a as [|t r IH]; intros s; cbn; [reflexivity|apply IH]. Qed.

Section Measure.
Variable d0 : bytes.
Variable t : tid.
Variable P : st -> Prop.
Variable m : st -> nat.
Hypothesis P_step : forall s, P s -> P (step_or_stay d0 t s).
Hypothesis m_step : forall s, P s -> (m (step_or_stay d0 t s) <= pred (m s))%nat.

Lemma run_repeat_P n : forall s, P s -> P (run d0 (repeat t n) s).
Proof. induction n as [|n IH]; intros s H; cbn; [exact H|]. apply IH. now apply P_step. Qed.

Lemma run_repeat_measure n : forall s, P s -> (m s <= n)%nat -> m (run d0 (repeat t n) s) = 0%nat.
Proof.
  induction n as [|n IH]; intros s H Hm; cbn.
  - lia.
  - apply IH; [now apply P_step|]. specialize (m_step s H). lia.
Qed.
End Measure.

Definition pmeas (s : st) : nat :=
  if p_dropped s then 0%nat else (2 * length (p_todo s) + 2 - (if p_mid s then 1 else 0))%nat.
Definition cmeas (s : st) : nat :=
  (2 * length (c_prog s) + (if is_idle (c_mid s) then 0 else 1))%nat.

Lemma pmeas_step d0 s : (pmeas (step_or_stay d0 TP s) <= pred (pmeas s))%nat.
Proof.
  destruct s as [mb cl ps todo mid dr prog cm ob de pn]. unfold step_or_stay, step, pmeas. cbn [step_p].
  destruct dr; [cbn; lia|].
  destruct todo as [|[w|] rest].
  - cbn. lia.
  - destruct mid.
    + destruct ps; cbn [p_dropped p_todo p_mid length]; lia.
    + destruct ps; try destruct mb; cbn [p_dropped p_todo p_mid length]; lia.
  - destruct mid; cbn [p_dropped p_todo p_mid length]; lia.
Qed.

Lemma pmeas_zero s : pmeas s = 0%nat -> p_dropped s = true.
Proof. unfold pmeas. destruct (p_dropped s); [reflexivity|]. destruct (p_mid s); lia. Qed.

Lemma step_p_consumer s s' : step_p s = Some s' -> c_prog s' = c_prog s /\ c_mid s' = c_mid s.
Proof.
  destruct s as [mb cl ps todo mid dr prog cm ob de pn]. cbn.
  destruct dr; [discriminate|].
  destruct todo as [|[w|] rest]; [| |]; try (intros E; inversion E; subst; cbn; auto; fail).
  destruct mid; destruct ps; try destruct mb; intros E; inversion E; subst; cbn; auto.
Qed.

Lemma run_TP_consumer d0 n : forall s, c_prog (run d0 (repeat TP n) s) = c_prog s /\ c_mid (run d0 (repeat TP n) s) = c_mid s.
Proof.
  induction n as [|n IH]; intros s; cbn; [auto|].
  destruct (IH (step_or_stay d0 TP s)) as [H1 H2]. rewrite H1, H2.
  unfold step_or_stay. cbn. destruct (step_p s) eqn:E; [now apply step_p_consumer|auto].
Qed.

Lemma step_c_dropped d0 s s' : step_c d0 s = Some s' -> p_dropped s' = p_dropped s.
Proof.
  destruct s as [mb cl ps todo mid dr prog cm ob de pn]. cbn.
  destruct cm as [|x|x].
  - destruct prog as [|[| | | |] rest]; [discriminate| | | | |].
    + destruct mb; intros E; inversion E; reflexivity.
    + intros E; inversion E; reflexivity.
    + destruct cl as [[| |]|]; intros E; inversion E; reflexivity.
    + destruct cl; intros E; inversion E; reflexivity.
    + destruct cl; intros E; inversion E; reflexivity.
  - destruct mb; destruct x; intros E; inversion E; reflexivity.
  - destruct mb; [|destruct x]; intros E; inversion E; reflexivity.
Qed.

(* the consumer's measure drops at every step once no call can block *)
Lemma cmeas_step d0 s :
  (c_mid s = CIdle -> c_prog s <> [] -> exists x, closed s = Some x) ->
  (cmeas (step_or_stay d0 TC s) <= pred (cmeas s))%nat.
Proof.
  destruct s as [mb cl ps todo mid dr prog cm ob de pn]. unfold step_or_stay, step, cmeas. cbn [step_c c_mid c_prog closed].
  intros Hcl. destruct cm as [|x|x].
  - destruct prog as [|op rest]; [cbn; lia|].
    destruct (Hcl eq_refl) as [x ->]; [discriminate|].
    destruct op.
    + destruct mb; cbn [c_panic c_prog c_mid is_idle length]; lia.
    + cbn [c_prog c_mid is_idle length]; lia.
    + destruct x; cbn [c_panic c_prog c_mid is_idle length]; lia.
    + cbn [c_prog c_mid is_idle length]; lia.
    + cbn [c_prog c_mid is_idle length]; lia.
  - destruct mb; destruct x; cbn [c_panic c_prog c_mid is_idle length]; lia.
  - destruct mb; [|destruct x]; cbn [c_panic c_prog c_mid is_idle length]; lia.
Qed.

Lemma cmeas_zero s : cmeas s = 0%nat -> p_dropped s = true -> terminal s = true.
Proof.
  unfold cmeas, terminal. intros H ->. destruct (c_prog s); [|cbn in H; lia].
  destruct (c_mid s); cbn in *; [reflexivity|lia|lia].
Qed.

Lemma cfg_finish_terminal d0 W c0 s : Cfg d0 W c0 s -> terminal (finish d0 s) = true.
Proof.
  intros H. unfold finish, finish_sched. rewrite run_app.
  set (n1 := (2 * length (p_todo s) + 2)%nat). set (n2 := (2 * length (c_prog s) + 1)%nat).
  set (s1 := run d0 (repeat TP n1) s).
  assert (H1 : Cfg d0 W c0 s1) by (apply cfg_run; exact H).
  assert (Hd1 : p_dropped s1 = true).
  { apply pmeas_zero. unfold s1.
    apply (run_repeat_measure d0 TP (fun _ => True) pmeas); [auto|intros; apply pmeas_step|exact I|].
    unfold pmeas, n1. destruct (p_dropped s); [lia|]. destruct (p_mid s); lia. }
  destruct (run_TP_consumer d0 n1 s) as [Hp1 Hm1]. fold s1 in Hp1, Hm1.
  set (P := fun s => Cfg d0 W c0 s /\ p_dropped s = true).
  assert (HP : forall s, P s -> P (step_or_stay d0 TC s)).
  { intros s' [Hc Hd]. split; [now apply cfg_step_or_stay|].
    unfold step_or_stay. cbn. destruct (step_c d0 s') eqn:E; [|exact Hd].
    rewrite (step_c_dropped _ _ _ E). exact Hd. }
  assert (Hm : forall s, P s -> (cmeas (step_or_stay d0 TC s) <= pred (cmeas s))%nat).
  { intros s' [Hc Hd]. apply cmeas_step. intros Hi Hne. eapply cfg_dropped_closed; eauto. }
  apply cmeas_zero.
  - apply (run_repeat_measure d0 TC P cmeas HP Hm); [split; assumption|].
    unfold cmeas, n2. rewrite Hp1, Hm1. destruct (is_idle (c_mid s)); lia.
  - exact (proj2 (run_repeat_P d0 TC P HP n2 s1 (conj H1 Hd1))).
Qed.

(* ---------------------------------------------------------------- the statements used by Properties/C12.v *)
Definition len_ok (total : N) (o : obs) : Prop :=
  match o with OLen n => n = total | OReady _ => True end.

Theorem tempbuf_delivery : forall d0 ops prog sched, legal false prog = true ->
  let s := run d0 sched (init ops prog) in
  (forall r, c_dest s = Some r -> r = d0 ++ written ops) /\
  (consumes prog = true -> terminal s = true -> c_dest s = Some (d0 ++ written ops)).
Proof.
  intros d0 ops prog sched Hl s. pose proof (cfg_reach d0 ops prog sched Hl) as H. fold s in H. split.
  - eapply cfg_dest; eauto.
  - intros Hc Ht. rewrite Hc in H. now apply cfg_terminal_dest.
Qed.

Theorem tempbuf_no_panic : forall d0 ops prog sched, legal false prog = true ->
  panicked (run d0 sched (init ops prog)) = false.
Proof. intros d0 ops prog sched Hl. eapply cfg_no_panic. now apply cfg_reach. Qed.

Theorem tempbuf_progress : forall d0 ops prog sched, legal false prog = true ->
  let s := run d0 sched (init ops prog) in
  terminal s = false ->
  (exists t s', step d0 t s = Some s') /\
  (p_dropped s = false -> exists s', step d0 TP s = Some s') /\
  (p_dropped s = true -> exists s', step d0 TC s = Some s').
Proof.
  intros d0 ops prog sched Hl s Ht. pose proof (cfg_reach d0 ops prog sched Hl) as H. fold s in H.
  split; [eapply cfg_progress; eauto|]. split.
  - intros Hd. cbn. now apply producer_enabled.
  - intros Hd. cbn. eapply cfg_consumer_enabled; eauto.
Qed.

Theorem tempbuf_completion : forall d0 ops prog sched, legal false prog = true ->
  let s := finish d0 (run d0 sched (init ops prog)) in
  terminal s = true /\ panicked s = false.
Proof.
  intros d0 ops prog sched Hl s. pose proof (cfg_reach d0 ops prog sched Hl) as H. split.
  - eapply cfg_finish_terminal; eauto.
  - eapply cfg_no_panic. unfold s, finish. apply cfg_run. exact H.
Qed.

Theorem tempbuf_len : forall d0 ops prog sched, legal false prog = true ->
  Forall (len_ok (Nlen (written ops))) (c_obs (run d0 sched (init ops prog))).
Proof.
  intros d0 ops prog sched Hl. pose proof (cfg_obs _ _ _ _ (cfg_reach d0 ops prog sched Hl)) as H.
  eapply Forall_impl; [|exact H]. intros [b|n]; cbn; auto.
Qed.

Theorem tempbuf_ready_sound : forall d0 ops prog sched, legal false prog = true ->
  let s := run d0 sched (init ops prog) in
  In (OReady true) (c_obs s) -> p_dropped s = true.
Proof.
  intros d0 ops prog sched Hl s Hin. pose proof (cfg_obs _ _ _ _ (cfg_reach d0 ops prog sched Hl)) as H.
  fold s in H. rewrite Forall_forall in H. exact (H _ Hin eq_refl).
Qed.

(* the complete run (schedule, then the fair continuation) of a legal program always ends with
   the observations and the delivered destination; never Panic, never Fuel *)
Theorem tempbuf_outcome : forall d0 ops prog sched, legal false prog = true ->
  exists ob, outcome d0 ops prog sched =
             Ok (ob, if consumes prog then Some (d0 ++ written ops) else None)
             /\ Forall (len_ok (Nlen (written ops))) ob.
Proof.
  intros d0 ops prog sched Hl. unfold outcome.
  destruct (tempbuf_completion d0 ops prog sched Hl) as [Ht Hp].
  unfold finish in Ht, Hp |- *. rewrite <- run_app in Ht, Hp |- *.
  set (s0 := run d0 sched (init ops prog)) in *.
  set (s := run d0 (sched ++ finish_sched s0) (init ops prog)) in *.
  rewrite Hp, Ht. exists (c_obs s). split.
  - f_equal. f_equal.
    destruct (tempbuf_delivery d0 ops prog (sched ++ finish_sched s0) Hl) as [Hd1 Hd2]. fold s in Hd1, Hd2.
    destruct (consumes prog) eqn:Hc.
    + now apply Hd2.
    + pose proof (cfg_reach d0 ops prog (sched ++ finish_sched s0) Hl) as H. fold s in H. rewrite Hc in H.
      destruct H; cbn; try reflexivity. discriminate.
  - apply tempbuf_len. exact Hl.
Qed.

Lemma written_writes ws : written (map PWrite ws) = concat ws.
Proof. unfold written. rewrite map_map. cbn. now rewrite map_id. Qed.
