(* C03, byte level of one data block: a type-1 section as BigWigWrite's encode_section lays it
   out (24-byte header, 12 bytes per item, little-endian) is decoded by the reader's
   get_block_values to exactly its items, then filtered and clipped. *)
From BT Require Import Base.Util Base.LE Base.Float Generated.Consts Model.RTree Model.BBIFile Model.BigWigWrite
  Model.BBIRead Model.CachedRead Proofs.RTreeCodec.
Local Open Scope N_scope.

Definition value_ok (v : value) : Prop := v_start v < U32 /\ v_end v < U32 /\ v_bits v < U32.

Lemma value_bytes_length v : length (value_bytes v) = 12%nat.
Proof. unfold value_bytes, u32. rewrite !app_length, !enc_le_length. reflexivity. Qed.
Lemma values_bytes_length l : length (flat_map value_bytes l) = (length l * 12)%nat.
Proof. apply flat_map_length_const. apply value_bytes_length. Qed.

Lemma parse_value v rest : value_ok v ->
  dec false (firstn 4 (value_bytes v ++ rest)) = v_start v
  /\ dec false (firstn 4 (skipn 4 (value_bytes v ++ rest))) = v_end v
  /\ dec false (firstn 4 (skipn 8 (value_bytes v ++ rest))) = v_bits v
  /\ skipn 12 (value_bytes v ++ rest) = rest.
Proof.
  intros (H1 & H2 & H3). unfold U32 in *. unfold value_bytes, u32.
  cbn [enc_le app firstn skipn dec]. rewrite !dec_le4 by assumption. auto.
Qed.

(* the item codec round trip: parse_type1 (encode items) = items *)
Lemma parse_type1_ok l rest : Forall value_ok l ->
  parse_type1 false (length l) (flat_map value_bytes l ++ rest) = l.
Proof.
  induction 1 as [|v l Hv _ IH]; [reflexivity|].
  cbn [length flat_map parse_type1]. rewrite <- app_assoc.
  destruct (parse_value v (flat_map value_bytes l ++ rest) Hv) as (E1 & E2 & E3 & E4).
  rewrite E1, E2, E3, E4, IH. destruct v; reflexivity.
Qed.

(* the 24-byte section header *)
Definition section_header (cid st en n : N) : list N :=
  u32 cid ++ u32 st ++ u32 en ++ u32 0 ++ u32 0 ++ u8 1 ++ u8 0 ++ u16 n.

Lemma encode_section_bytes cid items sd : encode_section cid items = Ok sd ->
  exists f, hd_error items = Some f /\
    sd_chrom sd = cid /\ sd_start sd = v_start f /\ sd_end sd = v_end (last items f) /\
    sd_bytes sd = section_header cid (v_start f) (v_end (last items f)) (Nlen items) ++ flat_map value_bytes items.
Proof.
  unfold encode_section. destruct items as [|f r]; [discriminate|]. intros H. injection H as <-.
  exists f. cbn [hd_error sd_chrom sd_start sd_end sd_bytes]. repeat split.
Qed.

(* decoding a block that holds an encoded section *)
Theorem section_roundtrip i cid st en items chrom s e :
  h_big (i_hdr i) = false -> cid < U32 -> st < U32 -> Nlen items < U16 -> Forall value_ok items ->
  block_values_of i (section_header cid st en (Nlen items) ++ flat_map value_bytes items) chrom s e
  = Ok (if cid =? chrom then Some (clip_filter s e items) else None).
Proof.
  intros Hbig Hc Hs Hn Hok. unfold U32, U16 in *. unfold block_values_of. rewrite Hbig.
  unfold section_header, u32, u16, u8. cbn [enc_le app].
  cbn [length firstn skipn nth dec Nat.ltb Nat.leb].
  rewrite !dec_le4 by assumption. rewrite dec_le2 by assumption.
  change (1 mod 256) with 1. change (1 =? 1) with true. cbv iota.
  destruct (cid =? chrom); cbn [negb]; [|reflexivity].
  unfold Nlen. rewrite Nat2N.id. rewrite values_bytes_length.
  replace (match (length items * 12)%nat with 0%nat => false | S m' => (length items * 12 <=? m')%nat end) with false.
  2:{ destruct (length items * 12)%nat eqn:E; [reflexivity|]. symmetry. apply Nat.leb_gt. lia. }
  rewrite <- (app_nil_r (flat_map value_bytes items)). rewrite parse_type1_ok by exact Hok. reflexivity.
Qed.
