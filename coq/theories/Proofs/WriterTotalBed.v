(* C13 for the bigBed FILE writer model (Model/BigBedWrite.v bb_write / bb_write_multipass):
   (a) the input pass bb_collect has the verdict of Model/Accept.v's serial source with the bigBed
       checks (hence of the declarative rules: Proofs/AcceptRules.v serial_rule);
   (b) nothing else in the model can fail: the autoSql parser is total with the fuel the model gives
       it (C19, Proofs/AutoSqlTotal.v), data sections are never empty, every chromosome that got an
       id has a size (the chromosome tree cannot miss one), the index build terminates for
       block_size >= 2, every zoom tiling loop ends within its fuel for resolutions >= 1 (C08,
       Proofs/BedTile.v) and emits only non-empty sections for items_per_slot >= 1, zero
       resolutions are filtered, the level-selection loops are structural;
   (c) so the verdict of the whole call is: option guard (class 80), NUL in the autoSql text
       (class 43), else the rule verdict -- for EVERY option set, size table, autoSql byte string and
       entry list; never Panic, never Fuel. *)
From BT Require Import Base.Util Base.LE Base.Float Generated.Consts Model.RTree Model.BBIFile Model.BigWigWrite Model.Accept
  Model.AcceptBed Proofs.ZoomBwLevels Proofs.AcceptRules Proofs.WriterTotal.
From BT Require Model.AutoSql Model.BedSweep Model.BigBedWrite Proofs.BedTile Proofs.AutoSqlTotal.
Local Open Scope N_scope.
Module B := BT.Model.BigBedWrite.
Module SW := BT.Model.BedSweep.

(* ================= (a) the input pass ================= *)
Fixpoint bruns' (l : list B.bitem) : list (name * list B.entry) :=
  match l with
  | [] => []
  | (c, v) :: r =>
      match bruns' r with
      | (c2, vs) :: rs => if name_eqb c2 c then (c, v :: vs) :: rs else (c, [v]) :: (c2, vs) :: rs
      | [] => [(c, [v])]
      end
  end.
Lemma bruns'_head c v l : exists vs rs, bruns' (cons (A:=B.bitem) (c, v) l) = (c, v :: vs) :: rs.
Proof.
  cbn [bruns']. destruct (bruns' l) as [|[c2 vs] rs]; [eauto|]. destruct (name_eqb c2 c); eauto.
Qed.
Lemma bruns_aux_eq : forall l cur acc,
  B.bruns_aux cur acc l = match bruns' l with
                          | (c2, vs) :: rs => if name_eqb c2 cur then (cur, rev acc ++ vs) :: rs
                                              else (cur, rev acc) :: (c2, vs) :: rs
                          | [] => [(cur, rev acc)]
                          end.
Proof.
  induction l as [|[c v] r IH]; intros cur acc; [reflexivity|].
  cbn [B.bruns_aux]. destruct (bruns'_head c v r) as [vs [rs Hh]]. rewrite Hh.
  destruct (name_eqb c cur) eqn:E.
  - apply name_eqb_eq in E. subst c. rewrite IH. cbn [bruns'] in Hh.
    destruct (bruns' r) as [|[c2 vs2] rs2].
    + inversion Hh; subst. cbn [rev]. reflexivity.
    + destruct (name_eqb c2 cur); inversion Hh; subst; cbn [rev]; try rewrite <- app_assoc; reflexivity.
  - rewrite IH. f_equal. cbn [bruns'] in Hh. cbn [rev app].
    destruct (bruns' r) as [|[c2 vs2] rs2]; [exact Hh|].
    destruct (name_eqb c2 c); exact Hh.
Qed.
Lemma bruns_eq l : B.bruns l = bruns' l.
Proof.
  destruct l as [|[c v] r]; [reflexivity|]. unfold B.bruns. rewrite bruns_aux_eq. cbn [bruns' rev app].
  destruct (bruns' r) as [|[c2 vs] rs]; [reflexivity|]. destruct (name_eqb c2 c); reflexivity.
Qed.

Fixpoint bruns_verdict (o : opts) (sizes : list (name * N)) (prev : option name) (seen : list name)
         (rs : list (name * list B.entry)) : res unit :=
  match rs with
  | [] => Ok tt
  | (c, es) :: rest =>
      let order_ok := match prev with
                      | Some p => if o_sort_all o then match name_cmp p c with Lt => true | _ => false end else true
                      | None => true end in
      if negb order_ok then Err E_CHROM_ORDER else
      match lookup c sizes with
      | None => Err E_UNKNOWN_CHROM
      | Some len => if seen_b c seen then Err E_SPLIT else
                    do _ <- B.check_entries len es; bruns_verdict o sizes (Some c) (seen ++ [c]) rest
      end
  end.
Lemma process_bruns_verdict o sizes : forall rs prev ids,
  verdict (B.process_bruns o sizes prev ids rs) = bruns_verdict o sizes prev (map fst ids) rs.
Proof.
  induction rs as [|[c es] rest IH]; intros prev ids; [reflexivity|].
  cbn [B.process_bruns bruns_verdict].
  destruct (negb match prev with
                 | Some p => if o_sort_all o then match name_cmp p c with Lt => true | _ => false end else true
                 | None => true end); [reflexivity|].
  destruct (lookup c sizes) as [len|]; [|reflexivity].
  rewrite <- (lookup_seen c ids). unfold get_id.
  destruct (lookup c ids) as [id|] eqn:Eid; [reflexivity|].
  destruct (B.check_entries len es) as [[]| | |]; cbn [rbind verdict]; try reflexivity.
  specialize (IH (Some c) (ids ++ [(c, Nlen ids)])). rewrite map_app in IH. cbn [map fst] in IH.
  rewrite <- IH.
  destruct (B.process_bruns o sizes (Some c) (ids ++ [(c, Nlen ids)]) rest) as [[ids'' outs]| | |]; reflexivity.
Qed.

Lemma serial_loop_bruns o sizes : forall l seen c len v vs rs,
  bruns' (cons (A:=B.bitem) (c, v) l) = (c, v :: vs) :: rs ->
  serial_loop B.check_entry (o_sort_all o) sizes seen c len v (ok_lines l)
  = (do _ <- B.check_entries len (v :: vs); bruns_verdict o sizes (Some c) seen rs).
Proof.
  induction l as [|[c' v'] l IH]; intros seen c len v vs rs Hr.
  - cbn [bruns'] in Hr. inversion Hr; subst. cbn [ok_lines map serial_loop B.check_entries hd_error bruns_verdict].
    now rewrite !rbind_unit.
  - destruct (bruns'_head c' v' l) as [vs' [rs' Hh]].
    change (bruns' (cons (A:=B.bitem) (c, v) (cons (A:=B.bitem) (c', v') l))) with
      (match bruns' (cons (A:=B.bitem) (c', v') l) with
       | (c2, vs) :: rs => if name_eqb c2 c then (c, v :: vs) :: rs else (c, [v]) :: (c2, vs) :: rs
       | [] => [(c, [v])] end) in Hr.
    rewrite Hh in Hr. cbn [ok_lines map fst snd serial_loop]. fold (ok_lines l).
    destruct (name_eqb c' c) eqn:E.
    + apply name_eqb_eq in E. subst c'. inversion Hr; subst vs rs.
      rewrite (IH seen c len v' vs' rs' Hh).
      change (B.check_entries len (v :: v' :: vs')) with (do _ <- B.check_entry len v (Some v'); B.check_entries len (v' :: vs')).
      rewrite rbind_assoc. reflexivity.
    + inversion Hr; subst vs rs.
      change (B.check_entries len [v]) with (do _ <- B.check_entry len v None; Ok tt).
      cbn [bruns_verdict]. rewrite rbind_unit.
      destruct (B.check_entry len v None) as [[]| | |]; cbn [rbind]; try reflexivity.
      assert (Ho : negb (if o_sort_all o then match name_cmp c c' with Lt => true | _ => false end else true)
                   = o_sort_all o && negb (name_ltb c c')).
      { unfold name_ltb. destruct (o_sort_all o); [|reflexivity]. destruct (name_cmp c c'); reflexivity. }
      rewrite Ho. destruct (o_sort_all o && negb (name_ltb c c')); [reflexivity|].
      destruct (lookup c' sizes) as [len'|]; [|reflexivity].
      destruct (seen_b c' seen); [reflexivity|].
      apply (IH (seen ++ [c']) c' len' v' vs' rs' Hh).
Qed.

(* the input pass of the bigBed writer model = the serial source on the same entries *)
Theorem bb_collect_serial o sizes input :
  verdict (B.bb_collect o sizes input) = serial B.check_entry (o_sort_all o) sizes (ok_lines input).
Proof.
  destruct input as [|[c v] rest]; [reflexivity|].
  unfold B.bb_collect. cbn [ok_lines map fst snd serial]. fold (ok_lines rest).
  destruct (bruns'_head c v rest) as [vs [rs Hh]].
  rewrite process_bruns_verdict, bruns_eq, Hh. cbn [bruns_verdict negb map seen_b existsb app].
  destruct (lookup c sizes) as [len|]; [|reflexivity]. symmetry. now apply serial_loop_bruns.
Qed.

(* forgetting the rest of the line: the checks never look at it *)
Section SerialMap.
Context {V W : Type}.
Variable f : V -> W.
Variable chk1 : N -> V -> option V -> res unit.
Variable chk2 : N -> W -> option W -> res unit.
Hypothesis chk_map : forall len v n, chk1 len v n = chk2 len (f v) (option_map f n).
Variable sort_all : bool.
Variable sizes : list (name * N).
Lemma serial_loop_map : forall rest seen c len v,
  serial_loop chk1 sort_all sizes seen c len v rest
  = serial_loop chk2 sort_all sizes seen c len (f v) (map (map_pline f) rest).
Proof.
  induction rest as [|[c' [e|v']] rest IH]; intros seen c len v; cbn [map map_pline fst snd serial_loop].
  - apply chk_map.
  - reflexivity.
  - rewrite !chk_map. cbn [option_map]. destruct (name_eqb c' c).
    + destruct (chk2 len (f v) (Some (f v'))); cbn [rbind]; try reflexivity. apply IH.
    + destruct (chk2 len (f v) None); cbn [rbind]; try reflexivity.
      destruct (sort_all && negb (name_ltb c c')); [reflexivity|].
      destruct (lookup c' sizes); [|reflexivity]. destruct (seen_b c' seen); [reflexivity|apply IH].
Qed.
Lemma serial_map l : serial chk1 sort_all sizes l = serial chk2 sort_all sizes (map (map_pline f) l).
Proof.
  destruct l as [|[c [e|v]] rest]; cbn [map map_pline fst snd serial]; try reflexivity.
  destruct (lookup c sizes); [apply serial_loop_map|reflexivity].
Qed.
End SerialMap.

Lemma check_entry_strip len v n : B.check_entry len v n = bb_check_val len (bb_strip v) (option_map bb_strip n).
Proof.
  unfold B.check_entry, bb_check_val, bb_strip. cbn [e_start e_end].
  destruct (B.e_end v <? B.e_start v); [reflexivity|]. destruct (len <=? B.e_start v); [reflexivity|].
  destruct n as [n|]; cbn [option_map e_start]; [|reflexivity]. destruct (B.e_start n <? B.e_start v); reflexivity.
Qed.
Lemma ok_lines_strip input : ok_lines (bb_items input) = map (map_pline bb_strip) (ok_lines input).
Proof.
  unfold ok_lines, bb_items. rewrite !map_map. apply map_ext. intros [c v]. reflexivity.
Qed.

Theorem bb_collect_verdict o sizes input :
  verdict (B.bb_collect o sizes input) = serial bb_check_val (o_sort_all o) sizes (ok_lines (bb_items input)).
Proof.
  rewrite bb_collect_serial, ok_lines_strip.
  apply (serial_map bb_strip B.check_entry bb_check_val check_entry_strip).
Qed.
Corollary bb_collect_rule o sizes input :
  verdict (B.bb_collect o sizes input) = rule_verdict bb_val_class (o_sort_all o) sizes (bb_items input).
Proof.
  rewrite bb_collect_verdict.
  rewrite (serial_ext bb_check_val (chk_of bb_val_class) bb_check_val_class). apply serial_rule.
Qed.

(* ================= (b) nothing after the checks can fail ================= *)
(* ---- write_pre: the schema parser is total on every byte string (C19) ---- *)
Lemma no_nul_library_default : has_nul AUTOSQL_LIBRARY_DEFAULT = false.
Proof. vm_compute. reflexivity. Qed.

Lemma bb_schema_cases autosql :
  (has_nul (schema_text autosql) = false /\ exists fc, B.bb_schema autosql = Ok (schema_text autosql, fc))
  \/ (has_nul (schema_text autosql) = true /\ B.bb_schema autosql = Err B.E_BED_AUTOSQL_NUL).
Proof.
  unfold B.bb_schema, AutoSql.write_pre_schema. fold (schema_text autosql). set (sql := schema_text autosql).
  cbv zeta. fold (has_nul sql). unfold AutoSql.parse.
  destruct (AutoSqlTotal.parser_total sql (AutoSql.parse_fuel sql) (le_n _)) as [[ds Hp]|[c Hp]]; rewrite Hp.
  - destruct (rev ds) as [|d ?]; cbn [rbind]; (destruct (has_nul sql); [right|left]; split; try reflexivity; eauto).
  - cbn [rbind]. destruct (has_nul sql); [right|left]; split; try reflexivity; eauto.
Qed.

(* ---- data sections: the push/flush loop never hands over an empty section ---- *)
Lemma sections_loop_nonempty ips : forall l items, Forall (fun s : list B.entry => s <> []) (B.sections_loop ips items l).
Proof.
  induction l as [|x r IH]; intros items; cbn [B.sections_loop]; [constructor|].
  destruct (_ || _); [|apply IH]. constructor; [|apply IH]. destruct items; discriminate.
Qed.
Lemma bed_sections_ok ips chrom es : exists secs, B.bed_sections ips chrom es = Ok secs.
Proof.
  unfold B.bed_sections. apply mapM_ok. intros s Hs.
  pose proof (sections_loop_nonempty ips es []) as Hne. rewrite Forall_forall in Hne. specialize (Hne s Hs).
  destruct s as [|f r]; [congruence|]. unfold B.encode_bed_section. eauto.
Qed.
Lemma bb_data_ok o outs : exists data, B.bb_data o outs = Ok data.
Proof.
  unfold B.bb_data. apply concat_res_ok. rewrite Forall_map. apply Forall_forall. intros c _. apply bed_sections_ok.
Qed.

(* ---- chromosome tree: every id handed out belongs to a chromosome of the size table ---- *)
Lemma process_bruns_known o sizes : forall rs prev ids ids' outs,
  known sizes ids -> B.process_bruns o sizes prev ids rs = Ok (ids', outs) -> known sizes ids'.
Proof.
  induction rs as [|[c es] rest IH]; intros prev ids ids' outs Hk H; cbn [B.process_bruns] in H.
  - inversion H; subst. exact Hk.
  - destruct (negb _); [discriminate|]. destruct (lookup c sizes) as [len|] eqn:El; [|discriminate].
    pose proof (get_id_known sizes ids c len Hk El) as Hk'.
    destruct (lookup c ids) as [oldid|] eqn:Eid; [discriminate|]. unfold get_id in H, Hk'. rewrite Eid in H, Hk'.
    cbn [fst] in Hk'.
    destruct (B.check_entries len es) as [[]| | |]; try discriminate. cbn [rbind] in H.
    destruct (B.process_bruns o sizes (Some c) (ids ++ [(c, Nlen ids)]) rest) as [[ids2 outs2]| | |] eqn:Er; try discriminate.
    cbn [rbind] in H. inversion H; subst. eapply IH; [exact Hk'|exact Er].
Qed.
Lemma bb_collect_known o sizes input ids outs : B.bb_collect o sizes input = Ok (ids, outs) -> known sizes ids.
Proof.
  unfold B.bb_collect. destruct input as [|it rest]; [discriminate|].
  intros H. eapply process_bruns_known; [|exact H]. constructor.
Qed.

(* ---- zoom levels: the tiling loop only ever sends non-empty record lists ---- *)
Definition outs_ne (st : zstate) : Prop := Forall (fun s : list zrec => s <> []) (zs_out st).

Lemma send_ne st : outs_ne st -> zs_records st <> [] -> outs_ne (SW.send_records st).
Proof.
  intros H Hr. unfold outs_ne, SW.send_records. cbn [zs_out]. apply Forall_app. split; [exact H|]. constructor; [exact Hr|constructor].
Qed.
Lemma tile_exit_ne has_next st : outs_ne st -> outs_ne (BedTile.tile_exit has_next st).
Proof.
  intros H. unfold BedTile.tile_exit. destruct has_next; [exact H|].
  set (st1 := match zs_live st with Some z => SW.push_live st z | None => st end).
  assert (H1 : outs_ne st1) by (unfold st1; destruct (zs_live st); exact H).
  destruct (zs_records st1) as [|z r] eqn:E; [exact H1|]. apply send_ne; [exact H1|]. rewrite E. discriminate.
Qed.
Lemma tile_iter_ne fp ips size chrom rs re val a st : 1 <= ips -> outs_ne st ->
  outs_ne (snd (BedTile.tile_iter fp ips size chrom rs re val a st)).
Proof.
  intros Hi H. unfold BedTile.tile_iter. cbv zeta. cbn [snd].
  match goal with |- outs_ne (if Nlen (zs_records ?s) =? ips then _ else _) => set (s1 := s) end.
  assert (H1 : outs_ne s1) by (unfold s1; destruct (_ =? _); exact H).
  destruct (N.eqb_spec (Nlen (zs_records s1)) ips) as [E|_]; [|exact H1].
  apply send_ne; [exact H1|]. intros En. rewrite En in E. cbn in E. lia.
Qed.
Lemma tile_loop_ne : forall fuel fp ips size chrom rs re val has_next a st st', 1 <= ips -> outs_ne st ->
  SW.tile_loop fuel fp ips size chrom rs re val has_next a st = Ok st' -> outs_ne st'.
Proof.
  induction fuel as [|f IH]; intros fp ips size chrom rs re val has_next a st st' Hi H E; [discriminate|].
  rewrite BedTile.tile_loop_S in E. destruct (re <=? a).
  - inversion E; subst. now apply tile_exit_ne.
  - pose proof (tile_iter_ne fp ips size chrom rs re val a st Hi H) as H1.
    destruct (BedTile.tile_iter fp ips size chrom rs re val a st) as [a' st1]. cbn [snd] in H1.
    eapply IH; [exact Hi|exact H1|exact E].
Qed.
Lemma tile_segs_ne fp ips size chrom has_next : forall em st st', 1 <= ips -> outs_ne st ->
  SW.tile_segs fp ips size chrom has_next em st = Ok st' -> outs_ne st'.
Proof.
  induction em as [|g r IH]; intros st st' Hi H E; cbn [SW.tile_segs] in E; [inversion E; subst; exact H|].
  destruct (SW.tile_loop _ fp ips size chrom _ _ _ has_next _ st) as [st1| | |] eqn:E1; cbn [rbind] in E; try discriminate.
  eapply IH; [exact Hi| |exact E]. eapply tile_loop_ne; [exact Hi|exact H|exact E1].
Qed.
Lemma zoom_chrom_ne fp ips size chrom : forall es l st st', 1 <= ips -> outs_ne st ->
  SW.bb_zoom_chrom fp ips size chrom l es st = Ok st' -> outs_ne st'.
Proof.
  induction es as [|e r IH]; intros l st st' Hi H E; cbn [SW.bb_zoom_chrom] in E; [inversion E; subst; exact H|].
  destruct (SW.sweep_step l e (hd_error r)) as [em l'].
  destruct (SW.tile_segs fp ips size chrom _ em st) as [st1| | |] eqn:E1; cbn [rbind] in E; try discriminate.
  eapply IH; [exact Hi| |exact E]. eapply tile_segs_ne; [exact Hi|exact H|exact E1].
Qed.

Lemma zoom_records_encoded fp ips size chrom es : 1 <= size -> 1 <= ips ->
  exists secs, (do recs <- SW.bb_zoom_records fp ips size chrom es; mapM (encode_zoom_section fp) recs) = Ok secs.
Proof.
  intros Hs Hi. destruct (BedTile.zoom_records_total fp ips size chrom es Hs) as [recs Hr]. rewrite Hr. cbn [rbind].
  apply mapM_ok. intros s Hin.
  assert (Hne : Forall (fun s : list zrec => s <> []) recs).
  { unfold SW.bb_zoom_records in Hr.
    destruct (SW.bb_zoom_chrom fp ips size chrom [] es zstate0) as [st| | |] eqn:E; cbn [rbind] in Hr; try discriminate.
    inversion Hr; subst. eapply zoom_chrom_ne; [exact Hi| |exact E]. constructor. }
  rewrite Forall_forall in Hne. specialize (Hne s Hin). destruct s as [|z r]; [congruence|].
  unfold encode_zoom_section. eauto.
Qed.
Lemma bb_zoom_level_ok fp o outs size : 1 <= o_ips o -> 1 <= size -> exists zl, B.bb_zoom_level fp o outs size = Ok zl.
Proof.
  intros Hi Hs. unfold B.bb_zoom_level.
  destruct (concat_res_ok (map (fun c => do recs <- SW.bb_zoom_records fp (o_ips o) size (B.bc_id c) (B.sw_entries c);
                                         mapM (encode_zoom_section fp) recs) outs)) as [secs Hsecs].
  { rewrite Forall_map. apply Forall_forall. intros c _. now apply zoom_records_encoded. }
  rewrite Hsecs. cbn [rbind]. eauto.
Qed.
Lemma bb_zoom_levels_ok fp o outs zsizes : 1 <= o_ips o -> Forall (fun z => 0 < z) zsizes ->
  exists zooms, mapM (B.bb_zoom_level fp o outs) zsizes = Ok zooms.
Proof.
  intros Hi Hz. apply mapM_ok. intros size Hin. rewrite Forall_forall in Hz. specialize (Hz size Hin).
  apply bb_zoom_level_ok; [exact Hi|lia].
Qed.

Lemma bb_zoom_single_total fp o outs sum ds zp : 2 <= o_bs o -> 1 <= o_ips o ->
  exists r, B.bb_zoom_single fp o outs sum ds zp = Ok r.
Proof.
  intros Hb Hi. unfold B.bb_zoom_single.
  destruct (bb_zoom_levels_ok fp o outs (zoom_sizes_single o) Hi) as [zooms Hz].
  { apply inc_from_pos. apply zoom_sizes_single_inc. }
  rewrite Hz. cbn [rbind]. apply write_zooms_loop_total. exact Hb.
Qed.
Lemma bb_zoom_two_pass_total fp o outs sum ds zp : 2 <= o_bs o -> 1 <= o_ips o ->
  exists r, B.bb_zoom_two_pass fp o outs sum ds zp = Ok r.
Proof.
  intros Hb Hi. unfold B.bb_zoom_two_pass. cbv zeta.
  destruct (bb_zoom_levels_ok fp o outs (zoom_sizes_two_pass o sum (total_zoom_counts (map B.chrom_out_of outs)) ds) Hi)
    as [zooms Hz].
  { apply inc_from_pos. apply zoom_sizes_two_pass_inc. }
  rewrite Hz. cbn [rbind]. apply write_zooms_two_pass_total. exact Hb.
Qed.

(* ================= (c) the whole call ================= *)
Lemma guard_opts_ok o : (o_bs o <? 2) || (o_ips o <? 1) = negb (opts_ok o).
Proof.
  unfold opts_ok. destruct (N.ltb_spec (o_bs o) 2), (N.leb_spec 2 (o_bs o)); try (exfalso; lia);
    destruct (N.ltb_spec (o_ips o) 1), (N.leb_spec 1 (o_ips o)); try (exfalso; lia); reflexivity.
Qed.

(* for ANY summary sweep and any zoom part that returns within the guards *)
Theorem bb_write_gen_verdict sweep zoom_part o sizes autosql input :
  (2 <= o_bs o -> 1 <= o_ips o -> forall outs sum ds zp, exists r, zoom_part outs sum ds zp = Ok r) ->
  verdict (B.bb_write_gen sweep zoom_part o sizes autosql input)
  = bb_front o autosql (verdict (B.bb_collect o sizes input)).
Proof.
  intros Hz. unfold B.bb_write_gen, bb_front. rewrite guard_opts_ok.
  destruct (opts_ok o) eqn:Ho; cbn [negb]; [|reflexivity].
  apply opts_ok_spec in Ho as [Hb Hi].
  destruct (bb_schema_cases autosql) as [[Hn [fc Hs]]|[Hn Hs]]; rewrite Hn, Hs; cbn [rbind verdict]; [|reflexivity].
  destruct (B.bb_collect o sizes input) as [[ids outs]| | |] eqn:Ec; cbn [rbind verdict]; try reflexivity.
  destruct (bb_data_ok o outs) as [data Hd]. rewrite Hd. cbn [rbind].
  destruct (assemble_total o BIGBED_MAGIC sizes ids (sweep outs) data (B.bb_pre (schema_text autosql)) fc fc B.ASQL_OFFSET
              (zoom_part outs (sweep outs)) (fun _ => B.bb_total_items outs) Hb (bb_collect_known _ _ _ _ _ Ec)) as [f Hf].
  { intros ds zp. apply Hz; assumption. }
  rewrite Hf. reflexivity.
Qed.

Theorem bb_write_verdict fp o sizes autosql input :
  verdict (B.bb_write fp o sizes autosql input) = bb_front o autosql (verdict (B.bb_collect o sizes input)).
Proof.
  unfold B.bb_write. apply bb_write_gen_verdict. intros Hb Hi outs sum ds zp. now apply bb_zoom_single_total.
Qed.
Theorem bb_write_multipass_verdict fp o sizes autosql input :
  verdict (B.bb_write_multipass fp o sizes autosql input) = bb_front o autosql (verdict (B.bb_collect o sizes input)).
Proof.
  unfold B.bb_write_multipass. apply bb_write_gen_verdict. intros Hb Hi outs sum ds zp. now apply bb_zoom_two_pass_total.
Qed.

(* verdict of the file writer = the rule verdict, both pass modes, no hypothesis *)
Theorem bb_accept_iff_file fp o sizes autosql input :
  verdict (B.bb_write fp o sizes autosql input) = bb_file_rule o sizes autosql (bb_items input)
  /\ verdict (B.bb_write_multipass fp o sizes autosql input) = bb_file_rule o sizes autosql (bb_items input)
  /\ (bb_file_rule o sizes autosql (bb_items input) = Ok tt
      <-> opts_ok o = true /\ has_nul (schema_text autosql) = false /\ input <> []
          /\ stream_ok bb_good_val bb_good_pair (o_sort_all o) sizes [] None (bb_items input)).
Proof.
  unfold bb_file_rule. rewrite bb_write_verdict, bb_write_multipass_verdict, bb_collect_rule.
  split; [reflexivity|]. split; [reflexivity|].
  unfold bb_front.
  pose proof (rule_accept_iff bb_val_class bb_good_val bb_good_pair bb_vclass_none (o_sort_all o) sizes (bb_items input)) as Hr.
  assert (Hne : bb_items input <> [] <-> input <> []).
  { unfold bb_items. destruct input; cbn [map]; split; intros H; try congruence; discriminate. }
  destruct (opts_ok o); cbn [negb].
  - destruct (has_nul (schema_text autosql)).
    + split; [discriminate|]. intros (_ & H & _). discriminate.
    + rewrite Hr, Hne. tauto.
  - split; [discriminate|]. intros (H & _). discriminate.
Qed.

(* never Fuel, never Panic: on ANY options, size table, autoSql bytes and entry list *)
Definition returns {X} (r : res X) : Prop := (exists f, r = Ok f) \/ (exists k, r = Err k).
Lemma returns_of_verdict {X} (r : res X) : (verdict r = Ok tt \/ exists k, verdict r = Err k) -> returns r.
Proof.
  unfold returns. destruct r; cbn [verdict]; intros [H|[k H]]; try discriminate; eauto.
Qed.
Lemma bb_file_rule_total o sizes autosql items :
  bb_file_rule o sizes autosql items = Ok tt \/ exists k, bb_file_rule o sizes autosql items = Err k.
Proof.
  unfold bb_file_rule, bb_front. destruct (negb (opts_ok o)); [right; eauto|].
  destruct (has_nul _); [right; eauto|].
  apply rule_verdict_total.
Qed.
Theorem bb_writer_total fp o sizes autosql input :
  returns (B.bb_write fp o sizes autosql input) /\ returns (B.bb_write_multipass fp o sizes autosql input).
Proof.
  destruct (bb_accept_iff_file fp o sizes autosql input) as (H1 & H2 & _).
  split; apply returns_of_verdict; [rewrite H1|rewrite H2]; apply bb_file_rule_total.
Qed.
