(* C01/C03, whole file, compressed: the reader-side round trip for the compressor-parametric writer
   model (Model/BigWigWriteZ.v, owned by C09).

   For every compressor [cmp] and every decompressor [infl] with  infl (cmp b) = b  (needed only when
   the blocks are compressed), for the bytes [bs] of bw_write_zc / bw_write_multipass_zc (hence of
   bw_write_z / bw_write_multipass_z, which take the flag from options.compress):
     - read_info bs succeeds; the header's uncompress_buf_size is 0 iff the blocks are raw, fits u32,
       and is >= the uncompressed size of every data section and of every zoom section computed;
     - the chromosome table is C01's expected_chroms;
     - bw_interval infl bs i c s e = Ok (clip_filter s e vs) for every run (c, vs) and every s e.
   The block sizes, hence every offset behind the first block (chromosome tree, index, zoom part), and
   the two-pass writer's automatic zoom selection (which looks at the COMPRESSED data size, as the
   code does) come from [cmp]; nothing is assumed about them: the layout is re-derived from
   C09's [assemble_z_inv] / [zassembled], the index from C05's search_bytes_eq_scan, which does not
   look at block sizes beyond "offset and size fit u64".  No hypothesis that compressed blocks are
   non-empty is needed on the reader side (the independent decoder of C09 needs it). *)
From Coq Require Import Sorting.Sorted.
From BT Require Import Base.Util Base.LE Base.Float Generated.Consts Model.RTree Model.BBIFile Model.BigWigWrite
  Model.BigWigWriteZ Model.BBIRead
  Proofs.Chunks Proofs.BigWigQuery Proofs.RTreeAbs Proofs.RTreeBuild Proofs.RTreeCodec Proofs.RTreeShape Proofs.RTreeLayout
  Proofs.FileRegions Proofs.BigWigFile Proofs.BigWigFileChroms Proofs.BigWigFileData Proofs.BigWigFileRoundTrip
  Proofs.BigWigFileThms Proofs.ZoomBwLevels
  Proofs.C09Base Proofs.C09Data Proofs.C09File Proofs.C09Levels Proofs.C09BufSize Proofs.C09Whole.
Local Open Scope N_scope.

(* ---------- blocks: get_block_values on a section that went through the block store ---------- *)
Section ZReader.
Variables (cmp infl : list N -> list N) (cz : bool).
Variables (i : info) (bs : list N).
Hypothesis Hbig : h_big (i_hdr i) = false.
Hypothesis Hmode : blk_mode cz (h_ubuf (i_hdr i)).
Hypothesis Hrt : cz = true -> forall b, infl (cmp b) = b.

Lemma block_data_z b d : slice bs (fst b) (N.to_nat (snd b)) = Some (sd_bytes (zsec cmp cz d)) ->
  block_data infl i bs b = Ok (sd_bytes d).
Proof.
  intros H. unfold block_data. rewrite H. cbn [rdo rbind]. destruct Hmode as [[Ec Eu]|[Ec Eu]]; subst cz.
  - rewrite Eu. reflexivity.
  - replace (0 <? h_ubuf (i_hdr i)) with true by (symmetry; now apply N.ltb_lt).
    cbn [zsec sd_bytes]. now rewrite (Hrt eq_refl).
Qed.

Lemma block_values_section_z b id items q s e :
  slice bs (fst b) (N.to_nat (snd b)) = Some (sd_bytes (zsec cmp cz (section_of id items))) ->
  items <> [] -> Nlen items < U16 -> id < U32 -> Forall value_ok items ->
  block_values infl i bs b q s e = Ok (if id =? q then Some (clip_filter s e items) else None).
Proof.
  intros Hs Hne Hn Hid Hok. unfold block_values. rewrite (block_data_z b _ Hs). cbn [rbind]. cbv zeta.
  rewrite Hbig. destruct items as [|f r]; [congruence|]. cbn [section_of sd_bytes].
  set (items := f :: r) in *. set (body := flat_map value_bytes items).
  destruct (section_fields id (v_start f) (v_end (last items f)) (Nlen items) body Hid Hn)
    as (E1 & E2 & E3 & E4 & E5).
  rewrite E5. replace (24 + length body <? 24)%nat with false by (symmetry; apply Nat.ltb_ge; lia).
  rewrite E1. destruct (id =? q); cbn [negb]; [|reflexivity].
  rewrite E2. change (1 =? 1) with true. cbv iota. rewrite E3, E4.
  rewrite Nlen_to_nat. unfold body. rewrite values_length, Nat.ltb_irrefl.
  now rewrite parse_type1_ok.
Qed.

(* reading the blocks the scan selects, in order (cf. BigWigFileData.collect_pieces) *)
Lemma collect_pieces_z q s e : forall pieces secs,
  Forall2 (fun sec pc => placed bs sec (zsec cmp cz (psec pc))) secs pieces -> Forall piece_ok pieces ->
  collect_blocks (fun b => block_values infl i bs b q s e) (scan secs q s e)
  = Ok (flat_map (fun p => if (fst p =? q) && chunk_hit s e (snd p) then clip_filter s e (snd p) else []) pieces).
Proof.
  induction pieces as [|p pieces IH]; intros secs HP Hok.
  - inversion HP; subst. reflexivity.
  - inversion HP as [|sec ? secs' ? Hp HP']; subst.
    inversion Hok as [|? ? Hpk Hok']; subst.
    specialize (IH secs' HP' Hok'). unfold scan in *. cbn [filter flat_map].
    destruct Hpk as (Hne & Hn & Hid & Hv).
    pose proof Hp as (Hat & Hsz & Hc & Hst & Hen).
    destruct (zsec_spans cmp cz (psec p)) as (Z1 & Z2 & Z3). rewrite Z1 in Hc. rewrite Z2 in Hst. rewrite Z3 in Hen.
    rewrite (overlaps_piece q s e sec p Hne Hc Hst Hen).
    destruct ((fst p =? q) && chunk_hit s e (snd p)) eqn:Eh.
    + cbn [map collect_blocks].
      rewrite (block_values_section_z (s_off sec, s_size sec) (fst p) (snd p) q s e);
        [|exact (placed_slice bs sec _ Hp)|exact Hne|exact Hn|exact Hid|exact Hv].
      apply andb_true_iff in Eh as [Eq _]. rewrite Eq. cbn [rbind]. rewrite IH. cbn [rbind]. reflexivity.
    + cbn [app]. exact IH.
Qed.
End ZReader.

(* ---------- the header the reader must see ---------- *)
Definition written_header_z (ds ctlen nz ubuf : N) : header :=
  {| h_big := false; h_bigwig := true; h_version := 4; h_zoom_levels := nz;
     h_chrom_tree_off := PRE_DATA + ds; h_full_data_off := PRE_DATA - 8;
     h_full_index_off := PRE_DATA + ds + ctlen; h_field_count := 0; h_defined_fc := 0;
     h_asql_off := 0; h_summary_off := PRE_DATA - 48; h_ubuf := ubuf |}.

Lemma U32_W32 : U32 = W32. Proof. reflexivity. Qed.

(* ---------- the core: a file laid out as [zassembled] from what bw_collect returned ---------- *)
Section ZCore.
Variables (fp : fpmode) (o : opts) (sizes : list (name * N)) (inp : list item).
Variables (ids : idmap) (outs : list chrom_out) (sum : summary) (data : list sdata).
Variables (bs : list N) (p : file_parts).
Variables (cmp infl : list N -> list N) (cz : bool) (ubuf : N).
Hypothesis Hcol : bw_collect fp o sizes inp = Ok (ids, outs, sum, data).
Hypothesis HA : zassembled o sizes ids sum (map (zsec cmp cz) data) ubuf bs p.
Hypothesis Hnz : Nlen (fp_zhdrs p) <= 10.
Hypothesis Hub : ubuf < U32.
Hypothesis Hmode : blk_mode cz ubuf.
Hypothesis Hrt : cz = true -> forall b, infl (cmp b) = b.
Hypothesis Hopts : opts_ok o.
Hypothesis Hinp : input_ok sizes inp.
Hypothesis Hsize : Nlen bs < U64.

Let names := map fst (runs inp).
Let ips := N.to_nat (o_ips o).
Let wdata := map (zsec cmp cz) data.
Let ds := Nlen (data_bytes wdata).
Let secs := place 352 wdata.
Let pieces := pieces_of ips outs.

Lemma zc_Nlen : Nlen bs = 352 + ds + Nlen (fp_ct p) + Nlen (fp_ix p) + Nlen (fp_zbytes p) + 4.
Proof. exact (zasm_Nlen _ _ _ _ _ _ _ _ HA). Qed.

Lemma zc_data : data = map psec pieces.
Proof. exact (core_data _ _ _ _ _ _ _ _ bs Hcol Hopts Hsize). Qed.

Lemma zc_pieces_ok : Forall piece_ok pieces.
Proof. exact (core_pieces_ok _ _ _ _ _ _ _ _ bs Hcol Hopts Hinp Hsize). Qed.

Lemma zc_maxlen : N.of_nat (maxlen ids) < U32.
Proof.
  destruct Hinp as (Hnm & _). destruct (core_runs _ _ _ _ _ _ _ _ Hcol) as (Eids & _). unfold maxlen.
  assert (G : forall (l : idmap) a, N.of_nat a < U32 -> Forall (fun c => Nlen (fst c) < U32) l ->
              N.of_nat (fold_left (fun a c => Nat.max a (length (fst c))) l a) < U32).
  { induction l as [|x l IH]; intros a Ha Hl; [exact Ha|]. inversion Hl; subst. cbn [fold_left]. apply IH; [|assumption].
    unfold Nlen in *. lia. }
  apply G; [unfold U32; lia|]. rewrite Eids. apply Forall_forall. intros [c id] Hin. cbn [fst].
  apply number_in_name in Hin. rewrite Forall_forall in Hnm. apply (Hnm c Hin).
Qed.

Definition zcore_header : header := written_header_z ds (Nlen (fp_ct p)) (Nlen (fp_zhdrs p)) ubuf.

(* ---- read_info ---- *)
Theorem zcore_read_info : exists zs,
  read_info bs = Ok {| i_hdr := zcore_header; i_zooms := zs; i_chroms := map (ci_of sizes) (number 0 names) |}
  /\ length zs = length (fp_zhdrs p).
Proof.
  pose proof zc_Nlen as HN.
  pose proof HA as (Hct & _ & _ & _ & HH & _). apply (zasm_in_pre _ _ _ _ _ _ _ _ HA) in HH. fold wdata ds in HH.
  assert (Hrh : read_header bs = Ok zcore_header).
  { apply has_at_prefix in HH. unfold zcore_header, written_header_z. change PRE_DATA with 352.
    change (352 - 8) with 344. change (352 - 48) with 304.
    apply (read_header_ok bs _ _ _ _ _ _ _ _ _ HH).
    unfold hdr_in_range, U16, U32, U64 in *. repeat split; lia. }
  unfold read_info. rewrite Hrh. cbn [rbind].
  change (h_big zcore_header) with false. change (h_zoom_levels zcore_header) with (Nlen (fp_zhdrs p)).
  change (h_chrom_tree_off zcore_header) with (352 + ds).
  destruct (read_zoom_headers_total bs (N.to_nat (Nlen (fp_zhdrs p))) 64) as [zs [Hzs Hzl]].
  { rewrite N2Nat.id. lia. }
  rewrite Hzs. cbn [rbind].
  pose proof (zasm_ct _ _ _ _ _ _ _ _ HA) as HC. fold wdata ds in HC.
  destruct (chrom_tree_inv _ _ _ Hct) as [_ Ect]. rewrite Ect in HC.
  rewrite (has_at_slice_w bs (352 + ds) (ct_header (Nlen ids) (maxlen ids)) 32 (has_at_prefix _ _ _ _ HC) eq_refl).
  cbn [rdo rbind].
  destruct (ct_header_fields (Nlen ids) (maxlen ids) zc_maxlen) as (F1 & F2 & F3).
  rewrite F1, F2, F3, N.eqb_refl. cbn [negb]. change (8 =? 8) with true. cbn [negb]. rewrite Nat2N.id.
  apply has_at_suffix in HC. change (Nlen (ct_header (Nlen ids) (maxlen ids))) with 32 in HC.
  rewrite (read_chrom_block_ok sizes bs (352 + ds + 32) (maxlen ids) ids (length bs) HC).
  - destruct (core_runs _ _ _ _ _ _ _ _ Hcol) as (Eids & _). unfold names. rewrite <- Eids. exists zs. split; [reflexivity|].
    rewrite Nlen_to_nat in Hzl. exact Hzl.
  - destruct Hinp as (_ & Hn & _). destruct (core_runs _ _ _ _ _ _ _ _ Hcol) as (Eids & _). rewrite Eids.
    unfold Nlen in *. rewrite number_length. unfold names. rewrite map_length. exact Hn.
  - exact (core_chroms_ok _ _ _ _ _ _ _ _ bs Hcol Hinp Hsize).
Qed.

(* ---- the index: what C05 needs ---- *)
Lemma zc_placed : Forall2 (fun s pc => placed bs s (zsec cmp cz (psec pc))) secs pieces.
Proof. exact (wf_placed_pieces fp o sizes inp ids outs sum data bs p cmp cz ubuf Hcol HA Hopts Hsize). Qed.

Lemma zc_spans : map sect_span secs = map pspan pieces.
Proof. exact (wf_wdata_spans fp o sizes inp ids outs sum data bs cmp cz Hcol Hopts Hsize). Qed.

Lemma zc_secs_sorted : sorted_starts (map sect_span secs).
Proof.
  rewrite zc_spans. destruct Hopts as (_ & Hi).
  apply pieces_sorted; [unfold ips; lia|exact (core_ids_sorted _ _ _ _ _ _ _ _ Hcol)|exact (core_wf _ _ _ _ _ _ _ _ Hcol)].
Qed.

Lemma zc_secs_ok : Forall sect_ok secs.
Proof.
  pose proof (place_bounds wdata 352) as Hb. fold secs ds in Hb. pose proof zc_Nlen as L.
  pose proof zc_placed as Hpl. pose proof zc_pieces_ok as Hok.
  apply Forall_forall. intros s Hs. rewrite Forall_forall in Hb. destruct (Hb s Hs) as [B1 B2].
  destruct (Forall2_in_l _ _ _ _ Hpl Hs) as [pc [Hpc (_ & _ & Hc & Hst & Hen)]].
  destruct (zsec_spans cmp cz (psec pc)) as (Z1 & Z2 & Z3). rewrite Z1 in Hc. rewrite Z2 in Hst. rewrite Z3 in Hen.
  rewrite Forall_forall in Hok. destruct (psec_fields_ok pc (Hok pc Hpc)) as (F1 & F2 & F3).
  unfold sect_ok. rewrite Hc, Hst, Hen. unfold U64 in *. repeat split; try assumption; lia.
Qed.

(* ---- the query ---- *)
Theorem zcore_query i c vs s e :
  read_info bs = Ok i -> In (c, vs) (runs inp) ->
  bw_interval infl bs i c s e = Ok (clip_filter s e vs).
Proof.
  intros Hri Hin. destruct zcore_read_info as [zs [Hri' _]]. rewrite Hri' in Hri. apply Ok_inj in Hri. subst i.
  destruct (core_runs _ _ _ _ _ _ _ _ Hcol) as (Eids & HF & Eouts).
  pose proof (collect_grouped _ _ _ _ _ Hcol) as Hnd. destruct Hopts as (Hb & Hi).
  destruct (Forall2_in_l _ _ _ _ HF Hin) as [c0 [Hc0 (Hn0 & Hv0 & Hl0 & Hk0)]]. cbn [fst snd] in *.
  pose proof (core_out_in _ _ _ _ _ _ _ _ Hcol c0 Hc0) as Hid. rewrite Hn0 in Hid.
  unfold bw_interval, chrom_id. cbn [i_chroms i_hdr].
  rewrite (find_chrom sizes names 0 c (co_id c0) Hnd Hid). cbn [ci_of ci_id snd rbind].
  (* the index header *)
  pose proof HA as (_ & Hix & Ebs & Lpre & _). fold wdata ds secs in Hix.
  destruct (write_index_inv _ _ _ _ _ _ Hix) as [t [body [_ Eix]]].
  pose proof (zasm_ix _ _ _ _ _ _ _ _ HA) as HI. fold wdata ds in HI.
  change (h_big zcore_header) with false. change (h_full_index_off zcore_header) with (352 + ds + Nlen (fp_ct p)).
  pose proof HI as HI'. rewrite Eix in HI'. rewrite (cir_tree_root_ok bs _ _ _ _ _ _ _ HI'). cbn [rbind].
  (* the search = the scan (C05) *)
  assert (Hne : secs <> []).
  { unfold secs. intros E. apply place_nil_iff in E. unfold wdata in E. apply map_eq_nil in E.
    rewrite zc_data in E. apply map_eq_nil in E.
    pose proof (runs_nonempty inp) as Hrn. rewrite Forall_forall in Hrn. specialize (Hrn _ Hin). cbn [snd] in Hrn.
    assert (Hch : chunks ips (co_vals c0) <> []) by (rewrite chunks_nil_iff, Hv0; exact Hrn).
    destruct (chunks ips (co_vals c0)) as [|ch chs] eqn:Ech; [congruence|].
    assert (Hp : In (co_id c0, ch) pieces).
    { unfold pieces, pieces_of. apply in_flat_map. exists c0. split; [exact Hc0|]. rewrite Ech. left; reflexivity. }
    rewrite E in Hp. destruct Hp. }
  destruct (search_bytes_eq_scan (o_bs o) (o_ips o) (352 + ds + Nlen (fp_ct p)) secs Hb Hne zc_secs_sorted zc_secs_ok)
    as [ix' [lv' [Hw Hs]]].
  rewrite Hix in Hw. apply Ok_inj in Hw. inversion Hw; subst ix' lv'; clear Hw.
  fold wdata in Ebs.
  assert (EB : bs = (fp_pre p ++ data_bytes wdata ++ fp_ct p) ++ fp_ix p ++ (fp_zbytes p ++ u32 BIGWIG_MAGIC))
    by (rewrite Ebs; now rewrite <- !app_assoc).
  assert (LA : Nlen (fp_pre p ++ data_bytes wdata ++ fp_ct p) = 352 + ds + Nlen (fp_ct p))
    by (rewrite !Nlen_app, Lpre; fold ds; lia).
  pose proof zc_Nlen as HN.
  assert (HS : search_bytes (S (length bs)) false bs (352 + ds + Nlen (fp_ct p) + 48) (co_id c0) s e
               = Ok (scan secs (co_id c0) s e)).
  { rewrite EB at 2. apply Hs; [unfold U64 in *; lia|exact LA|]. rewrite EB. rewrite !app_length. lia. }
  unfold search_blocks. cbn [i_hdr]. change (h_big zcore_header) with false. rewrite HS. cbn [rbind].
  (* the blocks *)
  rewrite (collect_pieces_z cmp infl cz {| i_hdr := zcore_header; i_zooms := zs; i_chroms := map (ci_of sizes) (number 0 names) |}
             bs eq_refl Hmode Hrt (co_id c0) s e pieces secs zc_placed zc_pieces_ok).
  f_equal. etransitivity; [apply (pieces_answer (co_id c0) s e ips outs ltac:(unfold ips; lia) (core_wf _ _ _ _ _ _ _ _ Hcol))|].
  rewrite (flat_map_single (fun c => clip_filter s e (co_vals c)) outs c0
             (SSorted_lt_NoDup _ (core_ids_sorted _ _ _ _ _ _ _ _ Hcol)) Hc0).
  now rewrite Hv0.
Qed.
End ZCore.

(* ---------- the round trip, stated once for "a writer with a block store" ---------- *)
(* [cz]: the blocks are compressed *)
Definition roundtrip_z_for (cz : bool) (infl : list N -> list N) (sizes : list (name * N)) (inp : list item)
           (bs : list N) : Prop :=
  exists i,
    read_info bs = Ok i
    /\ h_big (i_hdr i) = false /\ h_bigwig (i_hdr i) = true /\ h_version (i_hdr i) = 4
    /\ (h_ubuf (i_hdr i) = 0 <-> cz = false) /\ h_ubuf (i_hdr i) < U32
    /\ h_full_data_off (i_hdr i) = PRE_DATA - 8 /\ h_summary_off (i_hdr i) = PRE_DATA - 48
    /\ h_zoom_levels (i_hdr i) = Nlen (i_zooms i) /\ Nlen (i_zooms i) <= 10
    /\ i_chroms i = expected_chroms sizes inp
    /\ forall c vs s e, In (c, vs) (runs inp) -> bw_interval infl bs i c s e = Ok (clip_filter s e vs).

Definition rt_ok (cmp infl : list N -> list N) (cz : bool) : Prop := cz = true -> forall b, infl (cmp b) = b.

(* what a writer with a block store guarantees about its output *)
Definition z_parts (cmp : list N -> list N) (cz : bool) (fp : fpmode) (o : opts) (sizes : list (name * N)) (inp : list item)
           (bs : list N) (ids : idmap) (outs : list chrom_out) (sum : summary) (data : list sdata) (ubuf : N) : Prop :=
  bw_collect fp o sizes inp = Ok (ids, outs, sum, data)
  /\ exists p, zassembled o sizes ids sum (map (zsec cmp cz) data) ubuf bs p
       /\ Nlen (fp_zhdrs p) <= 10 /\ ubuf < U32 /\ blk_mode cz ubuf.

Lemma z_parts_ubuf cmp cz fp o sizes inp bs ids outs sum data ubuf :
  z_parts cmp cz fp o sizes inp bs ids outs sum data ubuf -> input_ok sizes inp -> Nlen bs < U64 ->
  forall i, read_info bs = Ok i -> h_ubuf (i_hdr i) = ubuf.
Proof.
  intros (Hcol & p & HA & Hnz & Hub & Hmode) Hi Hs i Hri.
  destruct (zcore_read_info fp o sizes inp ids outs sum data bs p cmp cz ubuf Hcol HA Hnz Hub Hi Hs) as [zs [Hri' _]].
  rewrite Hri' in Hri. apply Ok_inj in Hri. subst i. reflexivity.
Qed.

Lemma z_parts_roundtrip cmp infl cz fp o sizes inp bs ids outs sum data ubuf :
  z_parts cmp cz fp o sizes inp bs ids outs sum data ubuf -> rt_ok cmp infl cz ->
  opts_ok o -> input_ok sizes inp -> Nlen bs < U64 ->
  roundtrip_z_for cz infl sizes inp bs.
Proof.
  intros (Hcol & p & HA & Hnz & Hub & Hmode) Hrt Ho Hi Hs.
  destruct (zcore_read_info fp o sizes inp ids outs sum data bs p cmp cz ubuf Hcol HA Hnz Hub Hi Hs) as [zs [Hri Hzl]].
  eexists. split; [exact Hri|]. cbn [i_hdr i_zooms i_chroms zcore_header written_header_z h_big h_bigwig h_version h_ubuf
    h_full_data_off h_summary_off h_zoom_levels].
  split; [reflexivity|]. split; [reflexivity|]. split; [reflexivity|]. split.
  { destruct Hmode as [[E1 E2]|[E1 E2]]; subst cz; split; intros H; try reflexivity; try discriminate; try assumption.
    exfalso; lia. }
  split; [exact Hub|]. split; [reflexivity|]. split; [reflexivity|].
  assert (Hn : Nlen zs = Nlen (fp_zhdrs p)) by (unfold Nlen; now rewrite Hzl).
  split; [now rewrite Hn|]. split; [now rewrite Hn|]. split; [reflexivity|].
  intros c vs s e Hin.
  exact (zcore_query fp o sizes inp ids outs sum data bs p cmp infl cz ubuf Hcol HA Hnz Hub Hmode Hrt Ho Hi Hs _ c vs s e Hri Hin).
Qed.

(* ---------- the two writers ---------- *)
(* what the header's buffer size covers: every data section and every zoom section that was computed *)
Definition covers (cz : bool) (ubuf : N) (secs : list sdata) : Prop :=
  cz = true -> Forall (fun s => Nlen (sd_bytes s) <= ubuf) secs.

Theorem bw_write_zc_parts cmp cz fp o sizes inp bs :
  bw_write_zc cmp cz fp o sizes inp = Ok bs -> opts_ok o -> input_ok sizes inp -> Nlen bs < U64 ->
  exists ids outs sum data zooms ubuf,
    z_parts cmp cz fp o sizes inp bs ids outs sum data ubuf
    /\ bw_zoom_levels fp o outs (zoom_sizes_single o) = Ok zooms
    /\ covers cz ubuf (data ++ flat_map zl_secs zooms).
Proof.
  intros H Hopts Hinp Hsize. unfold bw_write_zc in H.
  destruct (bw_collect fp o sizes inp) as [[[[ids outs] sum] data]| | |] eqn:Hcol; cbn [rbind] in H; try discriminate.
  change (bw_zoom_levels fp o outs (zoom_sizes_single o)) with (build_levels fp o outs (zoom_sizes_single o)) in H.
  destruct (build_levels fp o outs (zoom_sizes_single o)) as [zooms| | |] eqn:Hz; cbn [rbind] in H; try discriminate.
  pose proof (inc_from_pos _ _ (zoom_sizes_single_inc o)) as Hpos.
  pose proof (levels_built fp o outs bs Hopts Hsize _ _ Hpos Hz) as Ezooms.
  destruct (assemble_z_inv _ _ _ _ _ _ _ _ H) as (p & zu & Hzp & HA).
  { intros ds zp zb zh zu E. destruct (write_zooms_loop o ds zp _ None 0) as [[b0 h0]| | |] eqn:Ew; cbn [rbind] in E; try discriminate.
    apply Ok_inj in E. inversion E; subst. apply write_zooms_loop_len in Ew. rewrite map_length in Ew.
    pose proof (mapM_length _ _ _ Hz) as Hml. pose proof (zoom_sizes_single_len o). unfold Nlen. lia. }
  cbv beta in Hzp.
  destruct (write_zooms_loop o _ _ (map (zlevel cmp cz) zooms) None 0) as [[zb0 zh0]| | |] eqn:Ew; cbn [rbind] in Hzp; try discriminate.
  apply Ok_inj in Hzp. inversion Hzp as [[E1 E2 E3]]. subst zb0 zh0 zu. clear Hzp.
  set (ubuf := N.max (ubuf_of cz data) (ubuf_of cz (flat_map zl_secs zooms))) in *.
  assert (Hnz : Nlen (fp_zhdrs p) <= 10).
  { apply write_zooms_loop_len in Ew. rewrite map_length in Ew. pose proof (mapM_length _ _ _ Hz) as Hml.
    pose proof (zoom_sizes_single_len o). unfold Nlen. lia. }
  assert (Hmode : blk_mode cz ubuf).
  { unfold ubuf, ubuf_of. destruct cz; [right|left; split; [reflexivity|lia]]. split; [reflexivity|].
    destruct (data_first_section fp o sizes inp ids outs sum data Hcol Hopts) as (s0 & Hs0 & Hl0).
    pose proof (max_len_ge data s0 Hs0). lia. }
  assert (Hub32 : ubuf < U32).
  { unfold ubuf. rewrite Ezooms. rewrite U32_W32. exact (ubuf_u32 fp o sizes inp ids outs sum data bs Hcol Hopts Hinp Hsize cz _ Hpos). }
  exists ids, outs, sum, data, zooms, ubuf. split; [|split; [exact Hz|exact (ubuf_of_bound cz data (flat_map zl_secs zooms))]].
  split; [exact Hcol|]. exists p. auto.
Qed.

(* two passes: the zoom levels are selected from the COMPRESSED data size (as in write_multipass) *)
Theorem bw_write_multipass_zc_parts cmp cz fp o sizes inp bs :
  bw_write_multipass_zc cmp cz fp o sizes inp = Ok bs -> opts_ok o -> input_ok sizes inp -> Nlen bs < U64 ->
  exists ids outs sum data zooms ubuf,
    z_parts cmp cz fp o sizes inp bs ids outs sum data ubuf
    /\ bw_zoom_levels fp o outs (zoom_sizes_two_pass o sum (total_zoom_counts outs)
                                   (Nlen (data_bytes (map (zsec cmp cz) data)))) = Ok zooms
    /\ covers cz ubuf (data ++ flat_map zl_secs zooms).
Proof.
  intros H Hopts Hinp Hsize. unfold bw_write_multipass_zc in H.
  destruct (bw_collect fp o sizes inp) as [[[[ids outs] sum] data]| | |] eqn:Hcol; cbn [rbind] in H; try discriminate.
  cbv zeta in H.
  destruct (assemble_z_inv _ _ _ _ _ _ _ _ H) as (p & zu & Hzp & HA).
  { intros ds zp zb zh zu E. cbv beta in E.
    destruct (bw_zoom_levels fp o outs _) as [zooms| | |] eqn:Hz; cbn [rbind] in E; try discriminate.
    destruct (write_zooms_two_pass o zp _) as [[b0 h0]| | |] eqn:Ew; cbn [rbind] in E; try discriminate.
    apply Ok_inj in E. inversion E; subst. apply write_zooms_two_pass_len in Ew. rewrite map_length in Ew.
    unfold bw_zoom_levels in Hz. apply mapM_length in Hz.
    pose proof (zoom_sizes_two_pass_len o sum (total_zoom_counts outs) ds). unfold Nlen. lia. }
  cbv beta in Hzp.
  set (wd := map (zsec cmp cz) data) in *.
  set (zsizes := zoom_sizes_two_pass o sum (total_zoom_counts outs) (Nlen (data_bytes wd))) in *.
  change (bw_zoom_levels fp o outs zsizes) with (build_levels fp o outs zsizes) in Hzp.
  destruct (build_levels fp o outs zsizes) as [zooms| | |] eqn:Hz; cbn [rbind] in Hzp; try discriminate.
  destruct (write_zooms_two_pass o _ (map (zlevel cmp cz) zooms)) as [[zb0 zh0]| | |] eqn:Ew; cbn [rbind] in Hzp; try discriminate.
  apply Ok_inj in Hzp. inversion Hzp as [[E1 E2 E3]]. subst zb0 zh0 zu. clear Hzp.
  pose proof (inc_from_pos _ _ (zoom_sizes_two_pass_inc o sum outs (Nlen (data_bytes wd)))) as Hpos. fold zsizes in Hpos.
  pose proof (levels_built fp o outs bs Hopts Hsize _ _ Hpos Hz) as Ezooms.
  set (ubuf := N.max (ubuf_of cz data) (ubuf_of cz (flat_map zl_secs zooms))) in *.
  assert (Hnz : Nlen (fp_zhdrs p) <= 10).
  { apply write_zooms_two_pass_len in Ew. rewrite map_length in Ew. pose proof (mapM_length _ _ _ Hz) as Hml.
    pose proof (zoom_sizes_two_pass_len o sum (total_zoom_counts outs) (Nlen (data_bytes wd))) as Hl. fold zsizes in Hl.
    unfold Nlen. lia. }
  assert (Hmode : blk_mode cz ubuf).
  { unfold ubuf, ubuf_of. destruct cz; [right|left; split; [reflexivity|lia]]. split; [reflexivity|].
    destruct (data_first_section fp o sizes inp ids outs sum data Hcol Hopts) as (s0 & Hs0 & Hl0).
    pose proof (max_len_ge data s0 Hs0). lia. }
  assert (Hub32 : ubuf < U32).
  { unfold ubuf. rewrite Ezooms. rewrite U32_W32. exact (ubuf_u32 fp o sizes inp ids outs sum data bs Hcol Hopts Hinp Hsize cz _ Hpos). }
  exists ids, outs, sum, data, zooms, ubuf. split; [|split; [exact Hz|exact (ubuf_of_bound cz data (flat_map zl_secs zooms))]].
  split; [exact Hcol|]. exists p. auto.
Qed.

(* ---------- the statements Properties/C01.v and C03.v export ---------- *)
Definition written_z (cmp : list N -> list N) (fp : fpmode) (o : opts) (sizes : list (name * N)) (inp : list item)
           (bs : list N) : Prop :=
  bw_write_z cmp fp o sizes inp = Ok bs \/ bw_write_multipass_z cmp fp o sizes inp = Ok bs.

Section ZStatements.
Variables (cmp : list N -> list N) (fp : fpmode) (o : opts) (sizes : list (name * N)) (inp : list item) (bs : list N).
Hypothesis Ho : opts_ok o.
Hypothesis Hi : input_ok sizes inp.
Hypothesis Hs : Nlen bs < U64.
Hypothesis Hw : written_z cmp fp o sizes inp bs.

Lemma z_has_parts : exists ids outs sum data ubuf, z_parts cmp (o_compress o) fp o sizes inp bs ids outs sum data ubuf.
Proof.
  destruct Hw as [H|H].
  - destruct (bw_write_zc_parts cmp (o_compress o) fp o sizes inp bs H Ho Hi Hs) as (ids & outs & sum & data & zooms & ubuf & P & _).
    exists ids, outs, sum, data, ubuf. exact P.
  - destruct (bw_write_multipass_zc_parts cmp (o_compress o) fp o sizes inp bs H Ho Hi Hs) as (ids & outs & sum & data & zooms & ubuf & P & _).
    exists ids, outs, sum, data, ubuf. exact P.
Qed.

Lemma z_accepted c vs : In (c, vs) (runs inp) -> exists len, lookup c sizes = Some len /\ wf_vals len vs /\ vs <> [].
Proof.
  intros Hin. destruct z_has_parts as (ids & outs & sum & data & ubuf & Hcol & _).
  exact (collect_accepted _ _ _ _ _ _ _ _ c vs Hcol Hin).
Qed.

Lemma z_grouped : NoDup (map fst (runs inp)).
Proof. destruct z_has_parts as (ids & outs & sum & data & ubuf & Hcol & _). exact (collect_grouped _ _ _ _ _ Hcol). Qed.

(* the part that does not involve the decompressor: use the one that is never called, or any *)
Lemma z_read_info : exists i, read_info bs = Ok i
  /\ h_big (i_hdr i) = false /\ h_bigwig (i_hdr i) = true /\ h_version (i_hdr i) = 4
  /\ (h_ubuf (i_hdr i) = 0 <-> o_compress o = false) /\ h_ubuf (i_hdr i) < U32
  /\ h_full_data_off (i_hdr i) = PRE_DATA - 8 /\ h_summary_off (i_hdr i) = PRE_DATA - 48
  /\ h_zoom_levels (i_hdr i) = Nlen (i_zooms i) /\ Nlen (i_zooms i) <= 10
  /\ i_chroms i = expected_chroms sizes inp.
Proof.
  destruct z_has_parts as (ids & outs & sum & data & ubuf & Hcol & p & HA & Hnz & Hub & Hmode).
  destruct (zcore_read_info fp o sizes inp ids outs sum data bs p cmp (o_compress o) ubuf Hcol HA Hnz Hub Hi Hs) as [zs [Hri Hzl]].
  eexists. split; [exact Hri|]. cbn [i_hdr i_zooms i_chroms zcore_header written_header_z h_big h_bigwig h_version h_ubuf
    h_full_data_off h_summary_off h_zoom_levels].
  split; [reflexivity|]. split; [reflexivity|]. split; [reflexivity|]. split.
  { destruct Hmode as [[E1 E2]|[E1 E2]]; rewrite E1; split; intros H; try reflexivity; try discriminate; try assumption.
    exfalso; lia. }
  split; [exact Hub|]. split; [reflexivity|]. split; [reflexivity|].
  assert (Hn : Nlen zs = Nlen (fp_zhdrs p)) by (unfold Nlen; now rewrite Hzl).
  split; [now rewrite Hn|]. split; [now rewrite Hn|]. reflexivity.
Qed.

Lemma z_chroms i : read_info bs = Ok i -> i_chroms i = expected_chroms sizes inp.
Proof.
  destruct z_read_info as (i' & H & _ & _ & _ & _ & _ & _ & _ & _ & _ & Hc). intros Hri.
  rewrite H in Hri. apply Ok_inj in Hri. now subst.
Qed.

(* the buffer size the reader sees covers every data block it may have to inflate *)
Lemma z_buf_covers : exists ids outs sum data,
  bw_collect fp o sizes inp = Ok (ids, outs, sum, data)
  /\ (forall i, read_info bs = Ok i -> covers (o_compress o) (h_ubuf (i_hdr i)) data).
Proof.
  assert (G : forall ubuf (data zs : list sdata), covers (o_compress o) ubuf (data ++ zs) -> covers (o_compress o) ubuf data).
  { intros ubuf data zs Hc Ec. specialize (Hc Ec). apply Forall_app in Hc. tauto. }
  destruct Hw as [H|H].
  - destruct (bw_write_zc_parts cmp (o_compress o) fp o sizes inp bs H Ho Hi Hs) as (ids & outs & sum & data & zooms & ubuf & P & Hz & Hc).
    exists ids, outs, sum, data. split; [exact (proj1 P)|].
    intros i Hri. rewrite (z_parts_ubuf _ _ _ _ _ _ _ _ _ _ _ _ P Hi Hs i Hri). exact (G _ _ _ Hc).
  - destruct (bw_write_multipass_zc_parts cmp (o_compress o) fp o sizes inp bs H Ho Hi Hs) as (ids & outs & sum & data & zooms & ubuf & P & Hz & Hc).
    exists ids, outs, sum, data. split; [exact (proj1 P)|].
    intros i Hri. rewrite (z_parts_ubuf _ _ _ _ _ _ _ _ _ _ _ _ P Hi Hs i Hri). exact (G _ _ _ Hc).
Qed.

Section WithInflate.
Variable infl : list N -> list N.
Hypothesis Hrt : o_compress o = true -> forall b, infl (cmp b) = b.

Lemma z_roundtrip_for : roundtrip_z_for (o_compress o) infl sizes inp bs.
Proof.
  destruct z_has_parts as (ids & outs & sum & data & ubuf & P).
  exact (z_parts_roundtrip cmp infl (o_compress o) fp o sizes inp bs ids outs sum data ubuf P Hrt Ho Hi Hs).
Qed.

Lemma z_query i c vs s e : read_info bs = Ok i -> In (c, vs) (runs inp) ->
  bw_interval infl bs i c s e = Ok (clip_filter s e vs).
Proof.
  destruct z_roundtrip_for as (i' & H & _ & _ & _ & _ & _ & _ & _ & _ & _ & _ & Hq). intros Hri.
  rewrite H in Hri. apply Ok_inj in Hri. subst. apply Hq.
Qed.

Lemma z_full_span i c vs len : read_info bs = Ok i -> In (c, vs) (runs inp) -> lookup c sizes = Some len ->
  bw_interval infl bs i c 0 len = Ok (filter (fun v => negb (boundary_zero len v)) vs).
Proof.
  intros Hri Hin Hl. rewrite (z_query i c vs 0 len Hri Hin).
  destruct (z_accepted c vs Hin) as (len' & Hl' & Hwf & _). rewrite Hl in Hl'. inversion Hl'; subst len'.
  now rewrite (full_span_read len vs Hwf).
Qed.

Lemma z_full_span_exact i c vs len : read_info bs = Ok i -> In (c, vs) (runs inp) -> lookup c sizes = Some len ->
  Forall (fun v => boundary_zero len v = false) vs -> bw_interval infl bs i c 0 len = Ok vs.
Proof.
  intros Hri Hin Hl Hb. rewrite (z_query i c vs 0 len Hri Hin).
  destruct (z_accepted c vs Hin) as (len' & Hl' & Hwf & _). rewrite Hl in Hl'. inversion Hl'; subst len'.
  now rewrite (full_span_read_exact len vs Hwf Hb).
Qed.
End WithInflate.
End ZStatements.

(* ... and every zoom block: the sections of every level computed (single pass: also the levels
   write_zooms then skips; two passes: the levels selected from the compressed data size) *)
Theorem z_buf_covers_single cmp fp o sizes inp bs :
  bw_write_z cmp fp o sizes inp = Ok bs -> opts_ok o -> input_ok sizes inp -> Nlen bs < U64 ->
  exists ids outs sum data zooms,
    bw_collect fp o sizes inp = Ok (ids, outs, sum, data)
    /\ bw_zoom_levels fp o outs (zoom_sizes_single o) = Ok zooms
    /\ forall i, read_info bs = Ok i -> covers (o_compress o) (h_ubuf (i_hdr i)) (data ++ flat_map zl_secs zooms).
Proof.
  intros H Ho Hi Hs.
  destruct (bw_write_zc_parts cmp (o_compress o) fp o sizes inp bs H Ho Hi Hs) as (ids & outs & sum & data & zooms & ubuf & P & Hz & Hc).
  exists ids, outs, sum, data, zooms. split; [exact (proj1 P)|]. split; [exact Hz|].
  intros i Hri. rewrite (z_parts_ubuf _ _ _ _ _ _ _ _ _ _ _ _ P Hi Hs i Hri). exact Hc.
Qed.

Theorem z_buf_covers_multipass cmp fp o sizes inp bs :
  bw_write_multipass_z cmp fp o sizes inp = Ok bs -> opts_ok o -> input_ok sizes inp -> Nlen bs < U64 ->
  exists ids outs sum data zooms,
    bw_collect fp o sizes inp = Ok (ids, outs, sum, data)
    /\ bw_zoom_levels fp o outs (zoom_sizes_two_pass o sum (total_zoom_counts outs)
                                   (Nlen (data_bytes (map (zsec cmp (o_compress o)) data)))) = Ok zooms
    /\ forall i, read_info bs = Ok i -> covers (o_compress o) (h_ubuf (i_hdr i)) (data ++ flat_map zl_secs zooms).
Proof.
  intros H Ho Hi Hs.
  destruct (bw_write_multipass_zc_parts cmp (o_compress o) fp o sizes inp bs H Ho Hi Hs) as (ids & outs & sum & data & zooms & ubuf & P & Hz & Hc).
  exists ids, outs, sum, data, zooms. split; [exact (proj1 P)|]. split; [exact Hz|].
  intros i Hri. rewrite (z_parts_ubuf _ _ _ _ _ _ _ _ _ _ _ _ P Hi Hs i Hri). exact Hc.
Qed.

(* ---------- a toy compressor for the non-vacuity examples ---------- *)
(* two marker bytes, then the block reversed: every block changes and grows by 2 bytes, so every offset
   behind the first block differs from the uncompressed file *)
Definition toy_cmp (b : list N) : list N := 255 :: 254 :: rev b.
Definition toy_infl (l : list N) : list N := match l with 255 :: 254 :: r => rev r | _ => l end.
Lemma toy_rt : forall b, toy_infl (toy_cmp b) = b.
Proof. intros b. unfold toy_cmp, toy_infl. apply rev_involutive. Qed.
