(* C06 for bigBed, file level: the summary and item count of an accepted input, as the file-level
   model (EntryBedSweep.bb_file) reports them, are the statistics of the input entry stream grouped
   into its chromosome runs; every run passed the writer's checks. *)
From BT Require Import Base.Util Base.Float Model.RTree Model.BBIFile Model.BigWigWrite Model.BedSweep Spec.Depth
  Model.EntryBedSweep Proofs.DepthStats Proofs.SweepRLE Proofs.BedSummary.
Local Open Scope N_scope.

Lemma eruns_aux_concat : forall l cur acc, concat (map snd (eruns_aux cur acc l)) = rev acc ++ map snd l.
Proof.
  induction l as [|[c v] r IH]; intros cur acc; cbn [eruns_aux map concat snd].
  - now rewrite app_nil_r.
  - destruct (name_eqb c cur); cbn [map concat snd]; rewrite IH; cbn [rev app]; now rewrite <- ?app_assoc.
Qed.
Lemma eruns_concat : forall l, concat (map snd (eruns l)) = map snd l.
Proof. intros [|[c v] r]; [reflexivity|]. unfold eruns. rewrite eruns_aux_concat. reflexivity. Qed.
Lemma eruns_aux_not_nil : forall l cur acc, eruns_aux cur acc l <> [].
Proof.
  induction l as [|[a b] l IH]; intros cur acc; cbn [eruns_aux]; [discriminate|].
  destruct (name_eqb a cur); [apply IH | discriminate].
Qed.

Lemma bb_process_runs_spec : forall o sizes rs prev ids ids' outs,
  bb_process_runs o sizes prev ids rs = Ok (ids', outs) ->
  map bc_es outs = map snd rs /\ Forall (fun c => bb_check_chrom (bc_len c) (bc_es c) = Ok tt) outs.
Proof.
  intros o sizes. induction rs as [|[c es] rest IH]; intros prev ids ids' outs H; cbn [bb_process_runs] in H.
  - inversion H; subst. split; [reflexivity | constructor].
  - destruct (negb _); [discriminate|].
    destruct (lookup c sizes) as [len|]; [|discriminate].
    destruct (lookup c ids); [discriminate|].
    destruct (get_id ids c) as [ids1 id].
    destruct (bb_check_chrom len es) as [[]| | |] eqn:Ec; cbn [rbind] in H; try discriminate.
    destruct (bb_process_runs o sizes (Some c) ids1 rest) as [[ids2 outs2]| | |] eqn:Er; cbn [rbind] in H; try discriminate.
    inversion H; subst. destruct (IH _ _ _ _ Er) as (A & B).
    split; [cbn [map bc_es snd]; now f_equal | constructor; [exact Ec | exact B]].
Qed.

(* an accepted file: its summary is that of its chromosome runs, which concatenate to the input; the
   item count is the number of input entries *)
Theorem bb_file_summary : forall U two_pass o sizes input sum levels cs,
  U <= U32_MAX -> Forall (fun it => e_end (snd it) <= U) input ->
  bb_file exact two_pass o sizes input = Ok (sum, levels, cs) ->
  let chroms := map bc_es cs in
  concat chroms = map snd input /\ chroms <> [] /\ Forall (valid_chrom U) chroms /\
  sum = bb_total_summary exact chroms /\ su_items sum = Nlen input.
Proof.
  intros U two_pass o sizes input sum levels cs HU Hend H. cbn zeta. unfold bb_file in H.
  destruct input as [|it input']; [discriminate|]. set (input := it :: input') in *.
  destruct (bb_process_runs o sizes None [] (eruns input)) as [[ids cs1]| | |] eqn:Ep; cbn [rbind] in H; try discriminate.
  assert (Hsum : sum = bb_total_summary exact (map bc_es cs1) /\ cs = cs1).
  { destruct two_pass; destruct (mapM _ _) as [lv| | |]; cbn [rbind] in H; try discriminate; inversion H; subst; split; reflexivity. }
  destruct Hsum as (Hsum & Hcs). subst cs1. clear H.
  destruct (bb_process_runs_spec _ _ _ _ _ _ _ Ep) as (Hes & Hchk).
  assert (Hcat : concat (map bc_es cs) = map snd input) by (rewrite Hes; apply eruns_concat).
  assert (Hne : map bc_es cs <> []).
  { rewrite Hes. intro C. apply map_eq_nil in C. revert C. unfold input, eruns. destruct it as [c v]. apply eruns_aux_not_nil. }
  assert (Hvalid : Forall (valid_chrom U) (map bc_es cs)).
  { rewrite Forall_forall. intros es Hin. apply in_map_iff in Hin. destruct Hin as (c & Ec & Hc). subst es.
    rewrite Forall_forall in Hchk. apply (accepted_valid U (bc_len c)); [exact HU | | apply Hchk, Hc].
    rewrite Forall_forall. intros e He.
    assert (Hin : In e (concat (map bc_es cs))) by (apply in_concat; exists (bc_es c); split; [now apply in_map | exact He]).
    rewrite Hcat in Hin. apply in_map_iff in Hin. destruct Hin as (it0 & E0 & Hit). subst e.
    rewrite Forall_forall in Hend. now apply Hend. }
  split; [exact Hcat | split; [exact Hne | split; [exact Hvalid | split; [exact Hsum|]]]].
  destruct (map bc_es cs) as [|c0 chroms] eqn:Em; [congruence|].
  rewrite Hsum. rewrite (proj1 (bb_total_summary_spec U c0 chroms Hvalid)).
  replace (Nlen input) with (Nlen (map snd input)) by (unfold Nlen; now rewrite map_length).
  rewrite <- Hcat. unfold c_items. clear. generalize (c0 :: chroms) as l.
  induction l as [|x l IH]; cbn [map sumN concat]; [reflexivity|]. rewrite IH. unfold Nlen. rewrite app_length. lia.
Qed.
