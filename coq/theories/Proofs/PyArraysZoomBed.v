(* C20: to_entry_array_zoom (after the repair of D11g) on the records of a zoom level: the per-base
   cells of a bin hold the mean / min_val / max_val of the record covering the base (NaN where none does),
   and the bin reports the exact-mode statistic of those cells. *)
From BT Require Import Base.Util Model.PyArrays Proofs.PyArraysGeom Proofs.PyArraysEngine Proofs.PyArraysCover
  Proofs.PyArraysWig Proofs.PyArraysBed Proofs.PyArraysZoom.
Local Open Scope Z_scope.

(* what a record does to a per-base cell it covers *)
Definition fzdat (st : stat) (z : zrec) (x : fl) : fl :=
  match st with
  | Mean => fadd (fmax x (FV 0)) (FV (zmean z))
  | Min => fmin x (FV (z_min z))
  | Max => fmax x (FV (z_max z))
  end.
Definition bedz_u (st : stat) (istart iend : Z) (z : zrec) (bs be : Z) (d : list Z * list fl) : list Z * list fl :=
  let os := Z.max bs istart in let oe := Z.min be iend in
  (map_range fcov (Z.to_nat (os - bs)) (Z.to_nat ((oe - bs) - (os - bs))) (fst d),
   map_range (fzdat st z) (Z.to_nat (os - bs)) (Z.to_nat ((oe - bs) - (os - bs))) (snd d)).

Lemma bedz_upd_u : forall st is_ ie z bs be d, bed_good bs be d -> Z.max bs is_ < Z.min be ie ->
  bedz_upd st is_ ie z bs be d = Ok (bedz_u st is_ ie z bs be d) /\ bed_good bs be (bedz_u st is_ ie z bs be d).
Proof.
  intros st is_ ie z bs be [cov dat] [Hc Hd] Hov. cbn [fst snd] in Hc, Hd. unfold bedz_upd, bedz_u. cbn [fst snd].
  rewrite (slice_upd_ok _ _ _ dat) by lia. cbn [rbind]. rewrite (slice_upd_ok _ _ _ cov) by lia. cbn [rbind].
  split; [reflexivity|]. unfold bed_good. cbn [fst snd]. rewrite !map_range_length. split; assumption.
Qed.

(* folds of slice updates whose function depends on the item *)
Lemma fold_map_range_length' : forall {X Y} (h : X -> bool) (f : X -> Y -> Y) (a n : X -> nat) l (l0 : list Y),
  length (fold_left (fun b x => if h x then map_range (f x) (a x) (n x) b else b) l l0) = length l0.
Proof.
  intros X Y h f a n. induction l as [|x l IH]; intro l0; cbn [fold_left]; [reflexivity|].
  rewrite IH. destruct (h x); [apply map_range_length|reflexivity].
Qed.

Lemma fold_map_range_nth' : forall {X Y} (h : X -> bool) (f : X -> Y -> Y) (a n : X -> nat) (dflt : Y) l (l0 : list Y) j,
  (j < length l0)%nat ->
  nth j (fold_left (fun b x => if h x then map_range (f x) (a x) (n x) b else b) l l0) dflt
  = fold_left (fun y x => if h x && ((a x <=? j)%nat && (j <? a x + n x)%nat) then f x y else y) l (nth j l0 dflt).
Proof.
  intros X Y h f a n dflt. induction l as [|x l IH]; intros l0 j Hj; cbn [fold_left]; [reflexivity|].
  rewrite IH by (destruct (h x); [rewrite map_range_length|]; exact Hj).
  f_equal. destruct (h x); cbn [andb]; [|reflexivity]. apply map_range_nth. exact Hj.
Qed.

(* the cells of a base: at most one record of a level covers it *)
Lemma zoom_fold_data : forall st recs b len p, zoom_ok b len recs ->
  fold_left (fun x z => if zcov z p then fzdat st z x else x) recs FNaN = dcell (zoom_at false st recs) p.
Proof.
  intros st. induction recs as [|z r IH]; intros b len p Hok; [reflexivity|]. cbn [zoom_ok] in Hok.
  destruct Hok as [H1 [H2 [_ [_ H3]]]]. cbn [fold_left]. unfold dcell. rewrite zoom_at_cons.
  destruct (zcov z p) eqn:Hc.
  - rewrite fold_left_id.
    + destruct st; reflexivity.
    + intros u x Hu. destruct (zoom_ok_bounds _ _ _ H3) as [_ Hb]. rewrite Forall_forall in Hb. specialize (Hb u Hu).
      unfold zcov, covers in *. b2p. destruct (Z.leb_spec (z_start u) p); [exfalso; lia|reflexivity].
  - apply (IH _ _ p H3).
Qed.

Lemma zoom_fold_cov : forall st recs b len p, zoom_ok b len recs ->
  fold_left (fun c z => if zcov z p then fcov c else c) recs 0 = ccell (zoom_at false st recs) p.
Proof.
  intros st. induction recs as [|z r IH]; intros b len p Hok; [reflexivity|]. cbn [zoom_ok] in Hok.
  destruct Hok as [H1 [H2 [_ [_ H3]]]]. cbn [fold_left]. unfold ccell. rewrite zoom_at_cons.
  destruct (zcov z p) eqn:Hc.
  - rewrite fold_left_id; [reflexivity|].
    intros u x Hu. destruct (zoom_ok_bounds _ _ _ H3) as [_ Hb]. rewrite Forall_forall in Hb. specialize (Hb u Hu).
    unfold zcov, covers in *. b2p. destruct (Z.leb_spec (z_start u) p); [exfalso; lia|reflexivity].
  - apply (IH _ _ p H3).
Qed.

(* the final sum of the mean maps every cell through max(0.0) *)
Definition clamp0 (sig : Z -> option Z) (p : Z) : option Z :=
  match sig p with Some z => Some (Z.max z 0) | None => None end.

Lemma fsum0_clamp : forall sig ps a,
  fold_left fadd (map (fun x => fmax x (FV 0)) (map (dcell sig) ps)) (FV a)
  = FV (fold_left Z.add (flat_map (cv1 (clamp0 sig)) ps) a).
Proof.
  intros sig. induction ps as [|p ps IH]; intro a; cbn [map fold_left flat_map]; [reflexivity|].
  assert (Hcase : (exists z, dcell sig p = FV z /\ cv1 (clamp0 sig) p = [Z.max z 0])
                  \/ (dcell sig p = FNaN /\ cv1 (clamp0 sig) p = [])).
  { unfold dcell, cv1, clamp0. destruct (sig p) as [z|]; [left; exists z|right]; split; reflexivity. }
  destruct Hcase as [[z [Hd Hc]]|[Hd Hc]]; rewrite Hd, Hc; cbn [fmax fadd app fold_left].
  - apply IH.
  - rewrite Z.add_0_r. apply IH.
Qed.

Lemma clamp0_length : forall sig ps, length (flat_map (cv1 (clamp0 sig)) ps) = length (flat_map (cv1 sig) ps).
Proof.
  intros sig. induction ps as [|p ps IH]; cbn [flat_map]; [reflexivity|]. rewrite !app_length, IH.
  unfold cv1, clamp0. destruct (sig p); reflexivity.
Qed.

Lemma zoom_at_clamp : forall recs p, zoom_at true Mean recs p = clamp0 (zoom_at false Mean recs) p.
Proof.
  induction recs as [|z r IH]; intro p; [reflexivity|]. unfold clamp0 in *. rewrite !zoom_at_cons.
  destruct (zcov z p); [reflexivity|apply IH].
Qed.

Section ZoomBedBins.
Variables (s e fs fe bins : Z) (st : stat) (missing : fl) (touch : bool).
Hypothesis Hse : s < e.
Hypothesis Hbins : 0 < bins <= e - s.

Let is_ := fun z => Z.max (z_start z) s - s.
Let ie := fun z => Z.min (z_end z) e - s.
Let Eb := fun k => bin_edge k (e - s) bins.

Theorem to_entry_array_zoom_spec : forall recs b len, zoom_ok b len recs ->
  exists cells, to_entry_array_zoom s e (fetch_zoom touch recs fs fe) st bins missing (Z.to_nat bins) = Ok cells
    /\ length cells = Z.to_nat bins
    /\ forall k, 0 <= k < bins -> fs <= s + Eb k -> s + Eb (k + 1) <= fe ->
         nth (Z.to_nat k) cells ONaN
         = stat_of st missing (covered_vals (zoom_at true st recs) (s + Eb k) (s + Eb (k + 1))).
Proof.
  intros recs b len Hok. unfold to_entry_array_zoom.
  destruct (zoom_ok_bounds _ _ _ Hok) as [_ Hb].
  rewrite (run_bins_spec is_ ie (bed_fresh FNaN)
             (fun z bs be d => bedz_upd st (is_ z) (ie z) z bs be d) (bed_fin st missing) (e - s) bins
             bed_f0 (fun z bs be d => bedz_u st (is_ z) (ie z) z bs be d) bed_good missing).
  - eexists. split; [reflexivity|]. split; [rewrite map_length, seqZ_length; reflexivity|].
    intros k Hk Hlo Hhi.
    set (cellf := fun k => bed_fin st missing
               (acc is_ ie (e - s) bins bed_f0 (fun z bs be d => bedz_u st (is_ z) (ie z) z bs be d) (fetch_zoom touch recs fs fe) k)).
    rewrite (nth_indep _ ONaN (cellf 0)) by (rewrite map_length, seqZ_length; lia).
    rewrite (map_nth cellf). rewrite seqZ_nth by lia. rewrite Z2Nat.id by lia. cbn [Z.add]. unfold cellf. clear cellf.
    set (lo := s + Eb k) in *. set (hi := s + Eb (k + 1)) in *.
    assert (Hlh : lo < hi).
    { unfold lo, hi, Eb. pose proof (bin_edge_strict k (e - s) bins ltac:(lia) ltac:(lia)). lia. }
    assert (Hfs : s <= lo).
    { unfold lo, Eb. pose proof (bin_edge_nonneg k (e - s) bins ltac:(lia) ltac:(lia) ltac:(lia)). lia. }
    assert (Hfe : hi <= e).
    { unfold hi, Eb. pose proof (bin_edge_le_span (k + 1) (e - s) bins ltac:(lia) ltac:(lia) ltac:(lia)). lia. }
    set (m := Z.to_nat (hi - lo)).
    set (sig := zoom_at false st recs).
    assert (Hacc : acc is_ ie (e - s) bins bed_f0 (fun z bs be d => bedz_u st (is_ z) (ie z) z bs be d) (fetch_zoom touch recs fs fe) k
                   = (map (ccell sig) (seqZ lo m), map (dcell sig) (seqZ lo m))).
    { unfold acc, E. fold (Eb k). fold (Eb (k + 1)).
      assert (H1 : Eb k = lo - s) by (unfold lo; lia). assert (H2 : Eb (k + 1) = hi - s) by (unfold hi; lia).
      rewrite H1, H2. unfold bedz_u.
      rewrite (fold_pair (fun z => hits is_ ie (e - s) bins z k)
                 (fun z => map_range fcov (Z.to_nat (Z.max (lo - s) (is_ z) - (lo - s)))
                              (Z.to_nat (Z.min (hi - s) (ie z) - (lo - s) - (Z.max (lo - s) (is_ z) - (lo - s)))))
                 (fun z => map_range (fzdat st z) (Z.to_nat (Z.max (lo - s) (is_ z) - (lo - s)))
                              (Z.to_nat (Z.min (hi - s) (ie z) - (lo - s) - (Z.max (lo - s) (is_ z) - (lo - s)))))).
      unfold bed_f0. cbn [fst snd]. replace (Z.to_nat (hi - s - (lo - s))) with m by (unfold m; lia).
      (* the condition under which record z touches cell j of the bin *)
      assert (Hcond : forall z j, In z recs -> (j < m)%nat ->
                keep touch fs fe (z_start z) (z_end z)
                && (hits is_ ie (e - s) bins z k
                    && ((Z.to_nat (Z.max (lo - s) (is_ z) - (lo - s)) <=? j)%nat
                        && (j <? Z.to_nat (Z.max (lo - s) (is_ z) - (lo - s))
                                 + Z.to_nat (Z.min (hi - s) (ie z) - (lo - s) - (Z.max (lo - s) (is_ z) - (lo - s))))%nat))
                = zcov z (lo + Z.of_nat j)).
      { intros z j Hz Hj. rewrite Forall_forall in Hb. specialize (Hb z Hz). cbn beta in Hb.
        unfold is_, ie. rewrite andb_assoc.
        rewrite (zoom_hits s e fs fe bins touch Hse Hbins z k lo hi Hk eq_refl eq_refl Hlo Hhi ltac:(lia)).
        unfold is_, ie, zcov, covers.
        set (p := lo + Z.of_nat j). assert (Hp : lo <= p < hi) by (unfold p, m in *; lia).
        destruct (Z.leb_spec (z_start z) p), (Z.ltb_spec p (z_end z)); cbn [andb].
        - assert (Hk2 : (lo <? z_end z) && (z_start z <? hi) = true)
            by (apply andb_true_intro; split; apply Z.ltb_lt; lia).
          rewrite Hk2. cbn [andb]. apply andb_true_intro. split; [apply Nat.leb_le|apply Nat.ltb_lt]; unfold p in *; lia.
        - apply andb_false_intro2.
          destruct (Z.lt_ge_cases (Z.max (lo - s) (Z.max (z_start z) s - s)) (Z.min (hi - s) (Z.min (z_end z) e - s))).
          + apply andb_false_intro2. apply Nat.ltb_ge. unfold p in *. lia.
          + apply andb_false_intro2. apply Nat.ltb_ge. unfold p in *. lia.
        - apply andb_false_intro2. apply andb_false_intro1. apply Nat.leb_gt. unfold p in *. lia.
        - apply andb_false_intro2. apply andb_false_intro1. apply Nat.leb_gt. unfold p in *. lia. }
      f_equal.
      - apply (list_ext 0).
        + rewrite fold_map_range_length, repeat_length, map_length, seqZ_length. reflexivity.
        + intros j Hj. rewrite fold_map_range_length, repeat_length in Hj.
          rewrite fold_map_range_nth by (rewrite repeat_length; exact Hj). rewrite nth_repeat_in by exact Hj.
          rewrite (nth_indep (map (ccell sig) (seqZ lo m)) 0 (ccell sig 0)) by (rewrite map_length, seqZ_length; exact Hj).
          rewrite map_nth, seqZ_nth by exact Hj.
          rewrite fetch_zoom_fold.
          rewrite (fold_left_ext_in _ (fun c z => if zcov z (lo + Z.of_nat j) then fcov c else c)).
          2:{ intros z c Hz. rewrite <- (Hcond z j Hz Hj).
              destruct (keep touch fs fe (z_start z) (z_end z)); cbn [andb]; reflexivity. }
          apply (zoom_fold_cov st recs b len). exact Hok.
      - apply (list_ext FNaN).
        + rewrite fold_map_range_length', repeat_length, map_length, seqZ_length. reflexivity.
        + intros j Hj. rewrite fold_map_range_length', repeat_length in Hj.
          rewrite fold_map_range_nth' by (rewrite repeat_length; exact Hj). rewrite nth_repeat_in by exact Hj.
          rewrite (nth_indep (map (dcell sig) (seqZ lo m)) FNaN (dcell sig 0)) by (rewrite map_length, seqZ_length; exact Hj).
          rewrite map_nth, seqZ_nth by exact Hj.
          rewrite fetch_zoom_fold.
          rewrite (fold_left_ext_in _ (fun x z => if zcov z (lo + Z.of_nat j) then fzdat st z x else x)).
          2:{ intros z c Hz. rewrite <- (Hcond z j Hz Hj).
              destruct (keep touch fs fe (z_start z) (z_end z)); cbn [andb]; reflexivity. }
          apply (zoom_fold_data st recs b len). exact Hok. }
    rewrite Hacc. rewrite covered_vals_eq. fold m.
    assert (Hm : (0 < m)%nat) by (unfold m; lia).
    unfold bed_fin. destruct st.
    + unfold bed_mean. cbn [fst snd]. rewrite any_covered. unfold fsum0. rewrite fsum0_clamp.
      rewrite sum_covered.
      rewrite (flat_map_ext_in (cv1 (zoom_at true Mean recs)) (cv1 (clamp0 sig)))
        by (intros p _; unfold cv1; rewrite zoom_at_clamp; reflexivity).
      rewrite <- (clamp0_length sig).
      destruct (flat_map (cv1 (clamp0 sig)) (seqZ lo m)) as [|x r] eqn:Ecv; [reflexivity|].
      cbn [length Nat.eqb negb]. unfold fdiv, stat_of.
      destruct (Z.eqb_spec (0 + Z.of_nat (S (length r))) 0); [exfalso; lia|].
      destruct (Z.ltb_spec (0 + Z.of_nat (S (length r))) 0); [exfalso; lia|]. reflexivity.
    + cbn [snd]. rewrite reduce_fmin by (rewrite map_length, seqZ_length; exact Hm).
      rewrite fmin_covered. change (zoom_at true Min recs) with sig.
      destruct (flat_map (cv1 sig) (seqZ lo m)); reflexivity.
    + cbn [snd]. rewrite reduce_fmax by (rewrite map_length, seqZ_length; exact Hm).
      rewrite fmax_covered. change (zoom_at true Max recs) with sig.
      destruct (flat_map (cv1 sig) (seqZ lo m)); reflexivity.
  - lia.
  - intros bs be Hbe. unfold bed_fresh. destruct (Z.ltb_spec be bs); [exfalso; lia|]. split; [reflexivity|].
    unfold bed_good, bed_f0. cbn [fst snd]. rewrite !repeat_length. split; reflexivity.
  - intros z bs be d Hg Hov. apply bedz_upd_u; assumption.
  - apply bed_fin_fresh.
  - lia.
  - unfold is_. eapply fetch_zoom_chain; [exact Hok|lia].
  - unfold is_, ie. apply fetch_zoom_inside.
Qed.
End ZoomBedBins.
