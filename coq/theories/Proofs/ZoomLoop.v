(* C07: the zoom tiling loop of Model/BigWigWrite.v (process_val_zoom).
   1. The sectioning (flush of full sections into zs_out) is abstracted away: the loop acts on
      (closed records in order, live record) exactly like the section-free loop [aloop].
   2. Termination: [zoom_fuel] suffices, the loop never returns Fuel (nor Err / Panic). *)
From BT Require Import Base.Util Base.Float Model.RTree Model.BBIFile Model.BigWigWrite.
Local Open Scope N_scope.

(* every record closed so far, in emission order *)
Definition closed (st : zstate) : list zrec := concat (zs_out st) ++ zs_records st.

Definition astate := (list zrec * option zrec)%type.
Definition abs (st : zstate) : astate := (closed st, zs_live st).

Fixpoint aloop (fuel : nat) (fp : fpmode) (size chrom : N) (cur : value) (has_next : bool) (a : N)
         (C : list zrec) (L : option zrec) : res astate :=
  match fuel with
  | O => Fuel
  | S f =>
      if v_end cur <=? a then
        if has_next then Ok (C, L) else
        match L with
        | Some z => aloop f fp size chrom cur has_next a (C ++ [z]) None
        | None => Ok (C, L)
        end
      else
        let val := v_val cur in
        let z := match L with Some z => z | None => zrec_new chrom a val end in
        let next_end := z_start z + size in
        let add_end := N.min next_end (v_end cur) in
        let z := if a <? add_end then zrec_add fp z a add_end val else z in
        if add_end =? next_end then aloop f fp size chrom cur has_next (N.max add_end a) (C ++ [z]) None
        else aloop f fp size chrom cur has_next (N.max add_end a) C (Some z)
  end.

Definition rmap {X Y} (f : X -> Y) (r : res X) : res Y :=
  match r with Ok x => Ok (f x) | Err c => Err c | Panic => Panic | Fuel => Fuel end.

(* the section flush at the head of every iteration *)
Definition flush (ips : N) (cur : value) (has_next : bool) (a : N) (st : zstate) : zstate :=
  if ((v_end cur <=? a) && negb (match zs_live st with Some _ => true | None => false end)
      && negb has_next && negb (match zs_records st with [] => true | _ => false end))
     || (Nlen (zs_records st) =? ips)
  then {| zs_live := zs_live st; zs_records := []; zs_out := zs_out st ++ [zs_records st] |}
  else st.

Lemma flush_closed ips cur hn a st : closed (flush ips cur hn a st) = closed st.
Proof.
  unfold flush. destruct (_ || _); [|reflexivity].
  unfold closed. cbn [zs_out zs_records]. rewrite concat_app. cbn [concat]. now rewrite !app_nil_r.
Qed.
Lemma flush_live ips cur hn a st : zs_live (flush ips cur hn a st) = zs_live st.
Proof. unfold flush. destruct (_ || _); reflexivity. Qed.

Lemma zoom_loop_S f fp ips size chrom cur hn a st :
  zoom_loop (S f) fp ips size chrom cur hn a st =
  let st := flush ips cur hn a st in
  if v_end cur <=? a then
    if hn then Ok st else
    match zs_live st with
    | Some z => zoom_loop f fp ips size chrom cur hn a
                  {| zs_live := None; zs_records := zs_records st ++ [z]; zs_out := zs_out st |}
    | None => Ok st
    end
  else
    let val := v_val cur in
    let z := match zs_live st with Some z => z | None => zrec_new chrom a val end in
    let next_end := z_start z + size in
    let add_end := N.min next_end (v_end cur) in
    let z := if a <? add_end then zrec_add fp z a add_end val else z in
    let st := if add_end =? next_end
              then {| zs_live := None; zs_records := zs_records st ++ [z]; zs_out := zs_out st |}
              else {| zs_live := Some z; zs_records := zs_records st; zs_out := zs_out st |} in
    zoom_loop f fp ips size chrom cur hn (N.max add_end a) st.
Proof. reflexivity. Qed.

Lemma closed_push st z :
  closed {| zs_live := None; zs_records := zs_records st ++ [z]; zs_out := zs_out st |} = closed st ++ [z].
Proof. unfold closed. cbn [zs_out zs_records]. now rewrite app_assoc. Qed.

Theorem zoom_loop_abs : forall fuel fp ips size chrom cur hn a st,
  rmap abs (zoom_loop fuel fp ips size chrom cur hn a st)
  = aloop fuel fp size chrom cur hn a (closed st) (zs_live st).
Proof.
  induction fuel as [|f IH]; intros fp ips size chrom cur hn a st; [reflexivity|].
  rewrite zoom_loop_S. cbv zeta. cbn [aloop].
  pose proof (flush_closed ips cur hn a st) as Hc. pose proof (flush_live ips cur hn a st) as Hl.
  set (st1 := flush ips cur hn a st) in *. rewrite <- Hc, <- Hl.
  destruct (v_end cur <=? a).
  - destruct hn; [reflexivity|]. destruct (zs_live st1) as [z|] eqn:El.
    + rewrite IH. rewrite closed_push. reflexivity.
    + cbn [rmap]. unfold abs. now rewrite El.
  - destruct (N.min _ _ =? _).
    + rewrite IH. rewrite closed_push. reflexivity.
    + rewrite IH. reflexivity.
Qed.

(* ---- termination ---- *)
Definition mu (size : N) (cur : value) (a : N) (L : option zrec) : N :=
  if v_end cur <=? a then match L with Some _ => 2 | None => 1 end
  else (v_end cur - a) / size + match L with Some _ => 6 | None => 4 end.

Lemma aloop_terminates : forall fuel fp size chrom cur hn a C L, 1 <= size ->
  mu size cur a L <= N.of_nat fuel -> exists r, aloop fuel fp size chrom cur hn a C L = Ok r.
Proof.
  induction fuel as [|f IH]; intros fp size chrom cur hn a C L Hs Hm.
  - exfalso. unfold mu in Hm. change (N.of_nat 0) with 0 in Hm.
    generalize dependent ((v_end cur - a) / size). intros q Hm.
    destruct (v_end cur <=? a); destruct L; lia.
  - rewrite Nat2N.inj_succ in Hm. cbn [aloop]. unfold mu in Hm.
    destruct (v_end cur <=? a) eqn:E.
    + destruct hn; [eexists; reflexivity|]. destruct L as [z|]; [|eexists; reflexivity].
      apply IH; [exact Hs|]. unfold mu. rewrite E. lia.
    + apply N.leb_gt in E.
      set (z := match L with Some z => z | None => zrec_new chrom a (v_val cur) end).
      set (ne := z_start z + size).
      assert (Hq : forall a', a <= a' -> a' < v_end cur -> (v_end cur - a') / size <= (v_end cur - a) / size).
      { intros a' H1 H2. apply N.div_le_mono; lia. }
      pose proof (N.le_0_l ((v_end cur - a) / size)) as Hq0.
      destruct (N.min ne (v_end cur) =? ne) eqn:E2.
      * apply N.eqb_eq in E2. apply IH; [exact Hs|]. unfold mu.
        destruct (v_end cur <=? N.max (N.min ne (v_end cur)) a) eqn:E3; [destruct L; lia|].
        apply N.leb_gt in E3. destruct L as [z0|].
        -- specialize (Hq (N.max (N.min ne (v_end cur)) a)). lia.
        -- subst z ne. cbn [zrec_new z_start] in *.
           replace (N.max (N.min (a + size) (v_end cur)) a) with (a + size) in * by lia.
           replace (v_end cur - a) with ((v_end cur - (a + size)) + 1 * size) in Hm by lia.
           rewrite N.div_add in Hm by lia. lia.
      * apply N.eqb_neq in E2. apply IH; [exact Hs|]. unfold mu.
        replace (v_end cur <=? N.max (N.min ne (v_end cur)) a) with true; [destruct L; lia|].
        symmetry. apply N.leb_le. lia.
Qed.

Lemma zoom_fuel_enough size cur L : mu size cur (v_start cur) L <= N.of_nat (zoom_fuel size cur).
Proof.
  unfold zoom_fuel, mu. rewrite N2Nat.id.
  generalize ((v_end cur - v_start cur) / size). intros q.
  destruct (v_end cur <=? v_start cur); destruct L; lia.
Qed.

Lemma rmap_ok {X Y} (f : X -> Y) r y : rmap f r = Ok y -> exists x, r = Ok x /\ f x = y.
Proof. destruct r; cbn; intros H; try discriminate. injection H as <-. eauto. Qed.

(* the inner loop, started as process_val_zoom starts it, with the fuel the model gives it,
   always returns a state *)
Theorem zoom_step_terminates fp ips size chrom st cur hn : 1 <= size ->
  exists st', zoom_step fp ips size chrom st cur hn = Ok st'.
Proof.
  intros Hs. unfold zoom_step.
  destruct (aloop_terminates (zoom_fuel size cur) fp size chrom cur hn (v_start cur) (closed st) (zs_live st) Hs
              (zoom_fuel_enough size cur (zs_live st))) as [r Hr].
  rewrite <- (zoom_loop_abs _ fp ips) in Hr. apply rmap_ok in Hr as [st' [H _]]. eauto.
Qed.

Theorem zoom_chrom_terminates fp ips size chrom : 1 <= size -> forall vals st,
  exists st', zoom_chrom fp ips size chrom vals st = Ok st'.
Proof.
  intros Hs. induction vals as [|v r IH]; intros st; [eexists; reflexivity|].
  cbn [zoom_chrom]. destruct (zoom_step_terminates fp ips size chrom st v (match r with [] => false | _ => true end) Hs) as [st1 H1].
  rewrite H1. cbn [rbind]. apply IH.
Qed.
