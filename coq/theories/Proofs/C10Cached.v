(* C10 composed with the history theorems of C03 / C04: on every file the independent encoder emits
   from a well-formed (layout, content) pair, EVERY query history through the CACHING reader
   (Model/CachedRead.v for a bigWig; Model/BBIReadBed.v + Model/CachedBed_C10.v for a bigBed), also
   through a reader reopened from a used one, returns for each query what [spec_answer] says about
   the content.  The cache machines read the byte order from the header (h_big), so both byte
   orders are covered; the chromosome table and the summary do not go through the cache and are
   C10_reads_emit's. *)
From BT Require Import Base.Util Base.LE Base.Float Generated.Consts Model.RTree Model.BBIFile Model.BigWigWrite
  Model.BBIRead Model.CachedRead Model.BigBedWrite Model.BBIReadBed Model.CachedBed_C10
  Spec.FormatEmit Spec.FormatWf Proofs.CachedReadInv Proofs.C10EmitBase Proofs.C10EmitQuery.
From BT Require Model.ReadBed_C10 Proofs.BedCached.
Local Open Scope N_scope.

(* ------------------------------------------------------------------ bigWig *)
(* the three range queries of the cache machine as queries of the specification, and the machine's
   answers as answers of the specification (an injection) *)
Definition cq_spec (q : CachedRead.query) : FormatEmit.query :=
  match q with
  | CachedRead.QInterval c s e => FormatEmit.QInterval c s e
  | CachedRead.QValues c s e => FormatEmit.QValues c s e
  | CachedRead.QZoom c s e lvl => FormatEmit.QZoom c s e lvl
  end.
Definition ca_spec (a : CachedRead.answer) : FormatEmit.answer :=
  match a with
  | CachedRead.AInterval r => FormatEmit.AValuesIv r
  | CachedRead.AValues r => FormatEmit.APerBase r
  | CachedRead.AZoom r => FormatEmit.AZoom r
  end.
Lemma ca_spec_inj a b : ca_spec a = ca_spec b -> a = b.
Proof. destruct a, b; cbn [ca_spec]; intros H; try discriminate H; injection H as <-; reflexivity. Qed.

Section Emit.
Variables (cmp infl : list N -> list N).
Hypothesis Hinfl : forall b, infl (cmp b) = b.
Variable L : layout.
Variable X : content.
Hypothesis Hwf : wf_b cmp L X = true.
Notation bs := (emit cmp L X).
Notation inf := (exp_info cmp L X).

(* the stateless reader on the emitted bigWig answers every range query with the specification *)
Lemma fresh_answer_emit : x_bigwig X = true ->
  forall q, ca_spec (CachedRead.fresh_answer infl bs inf q) = spec_answer X (cq_spec q).
Proof.
  intros Hb q. destruct q as [c s e|c s e|c s e lvl]; cbn [CachedRead.fresh_answer ca_spec cq_spec spec_answer]; rewrite ?Hb.
  - f_equal. apply (bw_interval_emit cmp infl Hinfl L X Hwf). exact Hb.
  - f_equal. apply (bw_values_emit cmp infl Hinfl L X Hwf). exact Hb.
  - f_equal. rewrite (zoom_interval_emit cmp infl Hinfl L X Hwf). reflexivity.
Qed.

(* from every cache that holds only faithful copies: the answers are the specification's, and the
   cache stays faithful *)
Theorem cached_emit_from : x_bigwig X = true ->
  forall qs c, CachedReadInv.cache_ok infl bs inf c ->
    map ca_spec (fst (CachedRead.qrun infl bs inf c qs)) = map (fun q => spec_answer X (cq_spec q)) qs
    /\ CachedReadInv.cache_ok infl bs inf (snd (CachedRead.qrun infl bs inf c qs)).
Proof.
  intros Hb qs c Hc. destruct (qrun_spec infl bs inf qs c Hc) as [E Hc1]. split; [|exact Hc1].
  rewrite E, map_map. apply map_ext. intros q. apply fresh_answer_emit. exact Hb.
Qed.

Theorem cached_reads_emit : x_bigwig X = true ->
  read_info bs = Ok inf /\
  forall qs1 qs2,
    map ca_spec (fst (CachedRead.qrun infl bs inf cache0 qs1)) = map (fun q => spec_answer X (cq_spec q)) qs1
    /\ map ca_spec (fst (CachedRead.qrun infl bs inf (c_reopen (snd (CachedRead.qrun infl bs inf cache0 qs1))) qs2))
       = map (fun q => spec_answer X (cq_spec q)) qs2.
Proof.
  intros Hb. split; [exact (proj1 (reads_emit cmp infl Hinfl L X Hwf))|]. intros qs1 qs2.
  destruct (cached_emit_from Hb qs1 cache0 (CachedReadInv.cache0_ok infl bs inf)) as [E1 Hc1]. split; [exact E1|].
  apply cached_emit_from; [exact Hb|]. apply reopen_ok. exact Hc1.
Qed.
End Emit.

(* ------------------------------------------------------------------ bigBed *)
(* C04's reader returns [entry] records (rest = opaque bytes), C10's [bed] records *)
Definition b2e (b : bed) : entry := {| e_start := b_start b; e_end := b_end b; e_rest := b_rest b |}.
Definition rmap {A B} (f : A -> B) (r : res A) : res B :=
  match r with Ok a => Ok (f a) | Err e => Err e | Panic => Panic | Fuel => Fuel end.

Definition bq_spec (q : bquery) : FormatEmit.query :=
  match q with
  | BQInterval c s e => FormatEmit.QInterval c s e
  | BQZoom c s e lvl => FormatEmit.QZoom c s e lvl
  end.
(* what the caching bigBed reader must return for an answer of the specification *)
Definition spec_banswer (a : FormatEmit.answer) : option banswer :=
  match a with
  | FormatEmit.ABeds r => Some (BAInterval (rmap (map b2e) r))
  | FormatEmit.AZoom r => Some (BAZoom r)
  | _ => None
  end.

(* the two block decoders agree wherever C10's (which also refuses non-ASCII text) succeeds *)
Lemma split_find_nul l :
  split_nul l = match ReadBed_C10.find_nul l with Some p => Some (firstn p l, skipn (S p) l) | None => None end.
Proof.
  induction l as [|b r IH]; [reflexivity|]. cbn [split_nul ReadBed_C10.find_nul].
  destruct b as [|p]; [reflexivity|]. change (N.pos p =? 0) with false. cbv iota. rewrite IH.
  destruct (ReadBed_C10.find_nul r) as [k|]; reflexivity.
Qed.

Lemma parse_entries_of_bed_entries : forall fuel big ex d es,
  ReadBed_C10.bed_entries fuel big ex d = Ok es -> parse_entries fuel big ex d = Ok (map b2e es).
Proof.
  induction fuel as [|f IH]; intros big ex d es H; [discriminate H|].
  cbn [ReadBed_C10.bed_entries parse_entries] in *.
  destruct (length d <? 12)%nat; [injection H as <-; reflexivity|].
  destruct ((dec big (firstn 4 (skipn 4 d)) =? 0) && (dec big (firstn 4 (skipn 8 d)) =? 0)); [discriminate H|].
  destruct (negb (dec big (firstn 4 d) =? ex)); [discriminate H|].
  rewrite split_find_nul. destruct (ReadBed_C10.find_nul (skipn 12 d)) as [pos|].
  - destruct (existsb (fun b => 128 <=? b) (firstn pos (skipn 12 d))); [discriminate H|].
    destruct (ReadBed_C10.bed_entries f big ex (skipn (S pos) (skipn 12 d))) as [more| | |] eqn:E; try discriminate H.
    cbn [rbind] in H. injection H as <-. rewrite (IH _ _ _ _ E). reflexivity.
  - destruct (existsb (fun b => 128 <=? b) (skipn 12 d)); [discriminate H|].
    destruct (ReadBed_C10.bed_entries f big ex (skipn 12 d)) as [more| | |] eqn:E; try discriminate H.
    cbn [rbind] in H. injection H as <-. rewrite (IH _ _ _ _ E). reflexivity.
Qed.

Lemma filter_b2e s e es :
  filter (bkeep s e) (map b2e es) = map b2e (filter (fun x => (s <=? b_end x) && (b_start x <=? e)) es).
Proof.
  induction es as [|x r IH]; [reflexivity|]. cbn [map filter]. unfold bkeep at 1. cbn [b2e e_start e_end].
  destruct ((s <=? b_end x) && (b_start x <=? e)); cbn [map]; rewrite IH; reflexivity.
Qed.

Lemma collect_b2e infl i bs chrom s e : forall blocks l,
  collect_blocks (fun b => ReadBed_C10.block_entries infl i bs b chrom s e) blocks = Ok l ->
  collect_blocks (fun b => BBIReadBed.block_entries infl i bs b chrom s e) blocks = Ok (map b2e l).
Proof.
  induction blocks as [|b r IH]; intros l H; cbn [collect_blocks] in *; [injection H as <-; reflexivity|].
  unfold ReadBed_C10.block_entries at 1 in H. unfold BBIReadBed.block_entries at 1, block_entries_of.
  destruct (block_data infl i bs b) as [d| | |]; cbn [rbind] in *; try discriminate H.
  destruct (ReadBed_C10.bed_entries (S (length d)) (h_big (i_hdr i)) chrom d) as [es| | |] eqn:E; cbn [rbind] in H; try discriminate H.
  rewrite (parse_entries_of_bed_entries _ _ _ _ _ E). cbn [rbind].
  destruct (collect_blocks (fun b0 => ReadBed_C10.block_entries infl i bs b0 chrom s e) r) as [rest| | |]; cbn [rbind] in H; try discriminate H.
  rewrite (IH rest eq_refl). cbn [rbind]. injection H as <-. rewrite filter_b2e, map_app. reflexivity.
Qed.

(* the two interval readers (they also differ in whether the index header or the chromosome name is
   looked at first) agree on every successful query *)
Lemma bb_interval_b2e infl bs i c s e l :
  ReadBed_C10.bb_interval infl bs i c s e = Ok l -> BBIReadBed.bb_interval infl bs i c s e = Ok (map b2e l).
Proof.
  unfold ReadBed_C10.bb_interval, BBIReadBed.bb_interval. intros H.
  destruct (cir_tree_root (h_big (i_hdr i)) bs (h_full_index_off (i_hdr i))) as [root| | |]; cbn [rbind] in H; try discriminate H.
  destruct (chrom_id i c) as [chrom| | |]; cbn [rbind] in *; try discriminate H.
  destruct (search_blocks i bs root chrom s e) as [blocks| | |]; cbn [rbind] in *; try discriminate H.
  apply collect_b2e. exact H.
Qed.

(* the zoom query through the cache = the stateless bigBed zoom query *)
Lemma c_bb_zoom_interval_ok infl bs i c cn s e lvl : CachedReadInv.cache_ok infl bs i c ->
  fst (c_bb_zoom_interval infl bs i c cn s e lvl) = ReadBed_C10.bb_zoom_interval infl bs i cn s e lvl
  /\ CachedReadInv.cache_ok infl bs i (snd (c_bb_zoom_interval infl bs i c cn s e lvl)).
Proof.
  intros Hc. unfold c_bb_zoom_interval, ReadBed_C10.bb_zoom_interval.
  destruct (find (fun z => zh_res z =? lvl) (i_zooms i)) as [zh|]; [|cbn [fst snd]; auto].
  destruct (cir_tree_root (h_big (i_hdr i)) bs (zh_index zh)) as [root|x| |]; cbn [rbind fst snd]; auto.
  destruct (chrom_id i cn) as [chrom|x| |]; cbn [rbind fst snd]; auto.
  destruct (c_search_blocks_spec infl bs i c root chrom s e Hc) as [E1 Hc1].
  destruct (c_search_blocks i bs c root chrom s e) as [rb c1]. cbn [fst snd] in E1, Hc1. rewrite <- E1.
  destruct rb as [blocks|x| |]; cbn [rbind fst snd]; auto.
  apply (c_collect_with_spec infl bs i (fun d => zoom_values_of i d chrom s e) (fun b => zoom_block_values infl i bs b chrom s e));
    [intros b; apply zoom_values_split|exact Hc1].
Qed.

(* the bigBed machine over interval and zoom queries: every answer is the stateless one *)
Lemma bb_qstep_ok infl bs i c q : CachedReadInv.cache_ok infl bs i c ->
  fst (bb_qstep infl bs i c q) = bb_fresh_answer infl bs i q /\ CachedReadInv.cache_ok infl bs i (snd (bb_qstep infl bs i c q)).
Proof.
  intros Hc. destruct q as [cn s e|cn s e lvl]; cbn [bb_qstep bb_fresh_answer].
  - destruct (BedCached.c_bb_interval_ok infl bs i c cn s e Hc) as [E H]. destruct (c_bb_interval infl bs i c cn s e).
    cbn [fst snd] in *. rewrite E. split; [reflexivity|exact H].
  - destruct (c_bb_zoom_interval_ok infl bs i c cn s e lvl Hc) as [E H]. destruct (c_bb_zoom_interval infl bs i c cn s e lvl).
    cbn [fst snd] in *. rewrite E. split; [reflexivity|exact H].
Qed.
Theorem bb_qrun_ok infl bs i : forall qs c, CachedReadInv.cache_ok infl bs i c ->
  fst (bb_qrun infl bs i c qs) = map (bb_fresh_answer infl bs i) qs /\ CachedReadInv.cache_ok infl bs i (snd (bb_qrun infl bs i c qs)).
Proof.
  induction qs as [|q r IH]; intros c Hc; [cbn [bb_qrun map fst snd]; auto|].
  cbn [bb_qrun map]. destruct (bb_qstep_ok infl bs i c q Hc) as [E1 Hc1].
  destruct (bb_qstep infl bs i c q) as [a c1]. cbn [fst snd] in E1, Hc1.
  destruct (IH c1 Hc1) as [E2 Hc2]. destruct (bb_qrun infl bs i c1 r) as [rest c2]. cbn [fst snd] in *.
  rewrite E1, E2. split; [reflexivity|exact Hc2].
Qed.

Section EmitBed.
Variables (cmp infl : list N -> list N).
Hypothesis Hinfl : forall b, infl (cmp b) = b.
Variable L : layout.
Variable X : content.
Hypothesis Hwf : wf_b cmp L X = true.
Notation bs := (emit cmp L X).
Notation inf := (exp_info cmp L X).

Lemma bb_fresh_answer_emit : x_bigwig X = false ->
  forall q, Some (bb_fresh_answer infl bs inf q) = spec_banswer (spec_answer X (bq_spec q)).
Proof.
  intros Hb q. destruct q as [c s e|c s e lvl]; cbn [bb_fresh_answer bq_spec spec_answer]; rewrite ?Hb; cbn [spec_banswer].
  - do 2 f_equal. pose proof (bb_interval_emit cmp infl Hinfl L X Hwf c s e Hb) as H.
    destruct (spec_chrom X c) as [id|x| |] eqn:Ec; cbn [rbind rmap] in *.
    + apply bb_interval_b2e in H. exact H.
    + unfold BBIReadBed.bb_interval. rewrite chrom_id_emit, Ec. reflexivity.
    + unfold BBIReadBed.bb_interval. rewrite chrom_id_emit, Ec. reflexivity.
    + unfold BBIReadBed.bb_interval. rewrite chrom_id_emit, Ec. reflexivity.
  - do 2 f_equal. rewrite (bb_zoom_interval_emit cmp infl Hinfl L X Hwf). reflexivity.
Qed.

Theorem cached_bed_emit_from : x_bigwig X = false ->
  forall qs c, CachedReadInv.cache_ok infl bs inf c ->
    map Some (fst (bb_qrun infl bs inf c qs)) = map (fun q => spec_banswer (spec_answer X (bq_spec q))) qs
    /\ CachedReadInv.cache_ok infl bs inf (snd (bb_qrun infl bs inf c qs)).
Proof.
  intros Hb qs c Hc. destruct (bb_qrun_ok infl bs inf qs c Hc) as [E Hc1]. split; [|exact Hc1].
  rewrite E, map_map. apply map_ext. intros q. apply bb_fresh_answer_emit. exact Hb.
Qed.

(* C04's interval-only history function on the emitted file *)
Lemma c_bb_history_emit : x_bigwig X = false ->
  forall qs c, CachedReadInv.cache_ok infl bs inf c ->
    c_bb_history infl bs inf c qs
    = map (fun q => rmap (map b2e)
                      (do id <- spec_chrom X (fst (fst q));
                       Ok (filter (fun b => (snd (fst q) <=? b_end b) && (b_start b <=? snd q)) (beds_of X id)))) qs.
Proof.
  intros Hb qs c Hc. rewrite (BedCached.c_bb_history_ok infl bs inf qs c Hc). apply map_ext. intros [[cn s] e]. cbn [fst snd].
  pose proof (bb_fresh_answer_emit Hb (BQInterval cn s e)) as H.
  cbn [bb_fresh_answer bq_spec spec_answer] in H. rewrite Hb in H. cbn [spec_banswer] in H. injection H as H. exact H.
Qed.

Theorem cached_reads_emit_bed : x_bigwig X = false ->
  read_info bs = Ok inf /\
  (forall qs1 qs2,
    map Some (fst (bb_qrun infl bs inf cache0 qs1)) = map (fun q => spec_banswer (spec_answer X (bq_spec q))) qs1
    /\ map Some (fst (bb_qrun infl bs inf (c_reopen (snd (bb_qrun infl bs inf cache0 qs1))) qs2))
       = map (fun q => spec_banswer (spec_answer X (bq_spec q))) qs2)
  /\ (forall qs c, BedCached.cache_ok infl bs inf c ->
        c_bb_history infl bs inf c qs
        = map (fun q => rmap (map b2e)
                          (do id <- spec_chrom X (fst (fst q));
                           Ok (filter (fun b => (snd (fst q) <=? b_end b) && (b_start b <=? snd q)) (beds_of X id)))) qs).
Proof.
  intros Hb. split; [exact (proj1 (reads_emit cmp infl Hinfl L X Hwf))|]. split.
  - intros qs1 qs2.
    destruct (cached_bed_emit_from Hb qs1 cache0 (CachedReadInv.cache0_ok infl bs inf)) as [E1 Hc1]. split; [exact E1|].
    apply cached_bed_emit_from; [exact Hb|]. apply reopen_ok. exact Hc1.
  - intros qs c Hc. apply c_bb_history_emit; [exact Hb|exact Hc].
Qed.
End EmitBed.
