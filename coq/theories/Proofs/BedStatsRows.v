(* C17: rows.  One row per line in line order; cutting the BED file at line starts and processing the
   pieces separately (the parallel path) gives the bytes of the serial path. *)
From BT Require Import Base.Util Base.Float Model.RTree Model.BBIFile Model.BigWigWrite Model.BBIRead
  Model.BedStats.
Local Open Scope N_scope.

(* ------------------------------------------------------------------ lines of a concatenation *)
Definition ends_line (c : list N) : Prop := c = [] \/ exists c', c = c' ++ [NL].

Lemma split_lines_cons_nl r : split_lines (NL :: r) = [NL] :: split_lines r.
Proof. cbn [split_lines]. replace (NL =? NL) with true by reflexivity. reflexivity. Qed.

Lemma split_lines_nonempty x r : split_lines (x :: r) <> [].
Proof.
  cbn [split_lines]. destruct (x =? NL); [discriminate|]. destruct (split_lines r); discriminate.
Qed.

Lemma split_lines_app_nl a b : split_lines ((a ++ [NL]) ++ b) = split_lines (a ++ [NL]) ++ split_lines b.
Proof.
  induction a as [|x a IH].
  - cbn [app]. rewrite !split_lines_cons_nl. reflexivity.
  - cbn [app split_lines]. destruct (x =? NL); [cbn [app]; f_equal; exact IH|].
    change ((a ++ [NL]) ++ b) with ((a ++ [NL]) ++ b) in *. rewrite IH.
    destruct (split_lines (a ++ [NL])) as [|p ps] eqn:E.
    + exfalso. destruct a; cbn [app] in E; eapply split_lines_nonempty; exact E.
    + reflexivity.
Qed.

Lemma split_lines_app a b : ends_line a -> split_lines (a ++ b) = split_lines a ++ split_lines b.
Proof. intros [->|[a' ->]]; [reflexivity|apply split_lines_app_nl]. Qed.

Definition cuts_at_lines (chunks : list (list N)) : Prop := Forall ends_line (removelast chunks).

Lemma split_lines_concat chunks : cuts_at_lines chunks ->
  split_lines (concat chunks) = flat_map split_lines chunks.
Proof.
  unfold cuts_at_lines. induction chunks as [|c rest IH]; intros H; [reflexivity|].
  destruct rest as [|c2 rest].
  - cbn [concat flat_map]. rewrite !app_nil_r. reflexivity.
  - change (removelast (c :: c2 :: rest)) with (c :: removelast (c2 :: rest)) in H.
    inversion H as [|? ? Hc Hrest]; subst. cbn [concat flat_map].
    rewrite (split_lines_app c _ Hc). f_equal. apply IH. exact Hrest.
Qed.

Lemma file_lines_concat chunks : cuts_at_lines chunks ->
  file_lines (concat chunks) = flat_map file_lines chunks.
Proof.
  intros H. unfold file_lines. rewrite (split_lines_concat chunks H).
  induction chunks as [|c rest IH]; [reflexivity|]. cbn [flat_map]. rewrite map_app.
  f_equal. apply IH. unfold cuts_at_lines in *. destruct rest as [|c2 rest]; [constructor|].
  change (removelast (c :: c2 :: rest)) with (c :: removelast (c2 :: rest)) in H. inversion H; assumption.
Qed.

(* ------------------------------------------------------------------ run_lines *)
Lemma run_lines_app f a b :
  run_lines f (a ++ b) = do x <- run_lines f a; do y <- run_lines f b; Ok (x ++ y).
Proof.
  induction a as [|l a IH].
  - cbn [app run_lines rbind]. destruct (run_lines f b); reflexivity.
  - cbn [app run_lines]. destruct (f l) as [o| | |]; cbn [rbind]; try reflexivity.
    rewrite IH. destruct (run_lines f a) as [x| | |]; cbn [rbind]; try reflexivity.
    destruct (run_lines f b) as [y| | |]; cbn [rbind]; try reflexivity. now rewrite app_assoc.
Qed.

Lemma run_lines_flat_map f (g : list N -> list (list N)) chunks :
  run_lines (fun c => run_lines f (g c)) chunks = run_lines f (flat_map g chunks).
Proof.
  induction chunks as [|c rest IH]; [reflexivity|].
  cbn [run_lines flat_map]. rewrite run_lines_app, IH. reflexivity.
Qed.

Lemma run_lines_ok_iff f lines out :
  run_lines f lines = Ok out <->
  exists rows, Forall2 (fun l row => f l = Ok row) lines rows /\ out = concat rows.
Proof.
  revert out. induction lines as [|l r IH]; intros out.
  - cbn [run_lines]. split.
    + intros H. injection H as <-. exists []. split; [constructor|reflexivity].
    + intros (rows & Hf & ->). inversion Hf; subst. reflexivity.
  - cbn [run_lines]. split.
    + destruct (f l) as [o| | |] eqn:El; cbn [rbind]; try discriminate.
      destruct (run_lines f r) as [x| | |] eqn:Er; cbn [rbind]; try discriminate.
      intros H. injection H as <-. destruct (proj1 (IH x) eq_refl) as (rows & Hf & ->).
      exists (o :: rows). split; [constructor; assumption|reflexivity].
    + intros (rows & Hf & ->). inversion Hf as [|? row ? rows' Hl Hr]; subst.
      rewrite Hl. cbn [rbind]. rewrite (proj2 (IH (concat rows')) (ex_intro _ rows' (conj Hr eq_refl))).
      reflexivity.
Qed.

Lemma run_lines_weaken (f g : list N -> res (list N)) lines out :
  (forall l o, f l = Ok o -> g l = Ok o) -> run_lines f lines = Ok out -> run_lines g lines = Ok out.
Proof.
  intros Hfg H. apply run_lines_ok_iff in H as (rows & Hf & ->). apply run_lines_ok_iff.
  exists rows. split; [|reflexivity]. induction Hf; constructor; auto.
Qed.

(* ------------------------------------------------------------------ one line *)
Section Rows.
Variable fp : fpmode.
Variable q : name -> N -> N -> res (list value).
Variable m : name_mode.
Variable minmax : bool.

(* name and statistics of one line *)
Definition line_result (l : list N) : res (list N * stats) :=
  do (chrom, en) <- parse_bed l;
  do nm <- name_for_bed_item m chrom en;
  do st <- stats_for_bed_item fp q chrom en;
  Ok (nm, st).

Lemma line_ser_result l : line_ser fp q m minmax l = do r <- line_result l; Ok (fmt_row minmax (fst r) (snd r)).
Proof.
  unfold line_ser, line_result. destruct (parse_bed l) as [[chrom en]| | |]; cbn [rbind]; try reflexivity.
  destruct (name_for_bed_item m chrom en); cbn [rbind]; try reflexivity.
  destruct (stats_for_bed_item fp q chrom en); reflexivity.
Qed.

(* a line the serial loop handles is handled identically by process_chunk *)
Lemma line_ser_par l o : line_ser fp q m minmax l = Ok o -> line_par fp q m minmax l = Ok o.
Proof.
  unfold line_ser, line_par. destruct (parse_bed l) as [[chrom en]| | |]; cbn [rbind]; try discriminate.
  destruct (name_for_bed_item m chrom en) as [nm| | |]; cbn [rbind]; try discriminate.
  unfold stats_for_bed_item.
  destruct (q chrom (be_start en) (be_end en)) as [cl| | |]; cbn [rbind]; try discriminate.
  destruct (be_end en <? be_start en) eqn:E.
  - apply N.ltb_lt in E. unfold stats_of. destruct (existsb inverted cl); [discriminate|].
    destruct (be_end en <? be_start en) eqn:E2; [discriminate|]. apply N.ltb_ge in E2. lia.
  - destruct (stats_of fp (be_start en) (be_end en) cl); cbn [rbind]; intros H; try discriminate. exact H.
Qed.

(* C17_rows_in_order: when every line of the file yields a name and statistics, the tool's output is the
   rows of the lines, one per line, in line order, and the library iterator yields the same
   (name, statistics) pairs in the same order *)
Theorem rows_in_order : forall bed rs,
  Forall2 (fun l r => line_result l = Ok r) (file_lines bed) rs ->
  avg_serial fp q m minmax bed = Ok (concat (map (fun r => fmt_row minmax (fst r) (snd r)) rs)) /\
  lib_iter fp q m (file_lines bed) = Ok (map (fun r => IOk (fst r) (snd r)) rs).
Proof.
  intros bed rs H. unfold avg_serial. split.
  - apply run_lines_ok_iff. exists (map (fun r => fmt_row minmax (fst r) (snd r)) rs). split; [|reflexivity].
    induction H as [|l r ls rs' Hl _ IH]; [constructor|]. cbn [map]. constructor; [|exact IH].
    rewrite line_ser_result, Hl. reflexivity.
  - induction H as [|l r ls rs' Hl _ IH]; [reflexivity|].
    cbn [lib_iter map]. unfold line_result in Hl.
    destruct (parse_bed l) as [[chrom en]| | |]; cbn [rbind] in Hl; try discriminate.
    destruct (name_for_bed_item m chrom en) as [nm| | |]; cbn [rbind] in Hl; try discriminate.
    destruct (stats_for_bed_item fp q chrom en) as [st| | |]; cbn [rbind] in Hl; try discriminate.
    injection Hl as <-. rewrite IH. reflexivity.
Qed.

(* conversely the serial output determines the rows *)
Theorem serial_rows : forall bed out, avg_serial fp q m minmax bed = Ok out ->
  exists rs, Forall2 (fun l r => line_result l = Ok r) (file_lines bed) rs /\
             out = concat (map (fun r => fmt_row minmax (fst r) (snd r)) rs).
Proof.
  intros bed out H. unfold avg_serial in H. apply run_lines_ok_iff in H as (rows & Hf & ->).
  induction Hf as [|l row ls rows' Hl _ IH].
  - exists []. split; [constructor|reflexivity].
  - destruct IH as (rs & Hrs & Hc). rewrite line_ser_result in Hl.
    destruct (line_result l) as [r| | |] eqn:El; cbn [rbind] in Hl; try discriminate.
    injection Hl as <-. exists (r :: rs). split; [constructor; assumption|]. cbn [map concat]. now rewrite Hc.
Qed.

(* the parallel path does not depend on where the file is cut, for every outcome *)
Theorem chunking_irrelevant : forall chunks, cuts_at_lines chunks ->
  avg_parallel fp q m minmax chunks = avg_chunk fp q m minmax (concat chunks).
Proof.
  intros chunks H. unfold avg_parallel, avg_chunk.
  rewrite (run_lines_flat_map (line_par fp q m minmax) file_lines chunks).
  now rewrite (file_lines_concat chunks H).
Qed.

(* C17_chunked_eq_serial *)
Theorem chunked_eq_serial : forall chunks out, cuts_at_lines chunks ->
  avg_serial fp q m minmax (concat chunks) = Ok out -> avg_parallel fp q m minmax chunks = Ok out.
Proof.
  intros chunks out Hc H. rewrite (chunking_irrelevant chunks Hc). unfold avg_chunk.
  unfold avg_serial in H. eapply run_lines_weaken; [|exact H]. exact line_ser_par.
Qed.
End Rows.

(* two thread counts = two chunkings of the same file: same bytes *)
Corollary any_two_chunkings fp q m minmax : forall bed c1 c2 out,
  concat c1 = bed -> concat c2 = bed -> cuts_at_lines c1 -> cuts_at_lines c2 ->
  avg_serial fp q m minmax bed = Ok out ->
  avg_parallel fp q m minmax c1 = Ok out /\ avg_parallel fp q m minmax c2 = Ok out.
Proof.
  intros bed c1 c2 out H1 H2 Hc1 Hc2 H. split; apply chunked_eq_serial; try assumption; congruence.
Qed.

Example chunking_example :
  let c := [[99; 9; 49; 9; 50; NL; 99; 9; 51; 9; 52; NL]; []; [99; 9; 53; 9; 54; NL; 100; 9; 48; 9; 49]] in
  cuts_at_lines c /\ length (file_lines (concat c)) = 4%nat.
Proof.
  split; [|reflexivity]. unfold cuts_at_lines. cbn [removelast]. constructor.
  - right. exists [99; 9; 49; 9; 50; NL; 99; 9; 51; 9; 52]. reflexivity.
  - constructor; [left; reflexivity|constructor].
Qed.
