(* C10: the reader's deque-driven, pointer-chasing R-tree search on ANY node store.
   A node store maps keys to nodes; an inner node lists (recorded span, child key).  Nothing is
   assumed about where nodes sit in the file, in which order, how many children a node has,
   whether the depth is uniform: only that every node the walk reaches can be read at the offset
   its key stands for, that the walk from the root resolves within some depth h, and that every
   recorded span covers the leaf items beneath it.  Then the search returns exactly the leaf items
   (in walk order) that overlap the query.

   The theorem is generic in the key type: keys = offsets gives the statement about a finite map
   offset -> node (C10_search_any_tree); keys = node numbers is what the independent encoder's
   node stores need (Proofs/C10Emit*.v). *)
From BT Require Import Base.Util Base.LE Model.RTree Proofs.RTreeAbs Spec.FormatEmit.
Local Open Scope N_scope.

Definition hits (q qs qe : N) (ls : list leaf_item) : list block :=
  map (fun i => (li_off i, li_size i)) (filter (fun i => overlaps q qs qe (li_span i)) ls).

Lemma hits_app q qs qe a b : hits q qs qe (a ++ b) = hits q qs qe a ++ hits q qs qe b.
Proof. unfold hits. now rewrite filter_app, map_app. Qed.

Lemma ocat_cons_inv {X} (a : option (list X)) r ls : ocat (a :: r) = Some ls ->
  exists la lr, a = Some la /\ ocat r = Some lr /\ ls = la ++ lr.
Proof.
  cbn [ocat]. destruct a as [la|]; [|discriminate]. destruct (ocat r) as [lr|]; [|discriminate].
  intros H. injection H as <-. eauto.
Qed.

Section AnyTree.
Context {K : Type}.
Inductive gnode := GLeaf (items : list leaf_item) | GInner (items : list (span * K)).
Variable get : K -> option gnode.
Variable off : K -> N.

Definition render (g : gnode) : pnode :=
  match g with
  | GLeaf l => PLeaf l
  | GInner its => PInner (map (fun it => (fst it, off (snd it))) its)
  end.

(* leaf items beneath k, in walk order; None: a dangling key or deeper than h *)
Fixpoint gleaves (h : nat) (k : K) : option (list leaf_item) :=
  match h with
  | O => None
  | S h' =>
      match get k with
      | None => None
      | Some (GLeaf l) => Some l
      | Some (GInner its) => ocat (map (fun it => gleaves h' (snd it)) its)
      end
  end.
(* node visits of the walk *)
Fixpoint gsize (h : nat) (k : K) : nat :=
  match h with
  | O => 1
  | S h' =>
      match get k with
      | Some (GInner its) => S (fold_right (fun it a => (gsize h' (snd it) + a)%nat) 0%nat its)
      | _ => 1
      end
  end.
(* every recorded span covers everything beneath it *)
Fixpoint gcov (h : nat) (k : K) : Prop :=
  match h with
  | O => True
  | S h' =>
      match get k with
      | Some (GInner its) =>
          Forall (fun it => gcov h' (snd it) /\
                            forall ls, gleaves h' (snd it) = Some ls ->
                                       Forall (fun l => span_covers (fst it) (li_span l)) ls) its
      | _ => True
      end
  end.

Variables (big : bool) (bs : list N).
Hypothesis Hread : forall k g, get k = Some g -> read_node big bs (off k) = Ok (render g).
Variables (q qs qe : N).

Definition conv (f : nat) (queue : list N) (r : list block) : Prop :=
  forall fuel, (f <= fuel)%nat -> search_loop fuel big bs queue q qs qe = Ok r.
Lemma conv_mono f f' queue r : conv f queue r -> (f <= f')%nat -> conv f' queue r.
Proof. intros H Hle fuel Hf. apply H. lia. Qed.

Lemma hits_uncovered sp ls : Forall (fun l => span_covers sp (li_span l)) ls ->
  overlaps q qs qe sp = false -> hits q qs qe ls = [].
Proof.
  intros Hc Ho. unfold hits. rewrite filter_none; [reflexivity|].
  eapply Forall_impl; [|exact Hc]. intros l Hl. cbv beta in Hl.
  destruct (overlaps q qs qe (li_span l)) eqn:E; [|reflexivity]. apply Hl in E. congruence.
Qed.

Lemma search_any : forall h k ls, gleaves h k = Some ls -> gcov h k ->
  forall f rest r, conv f rest r -> conv (gsize h k + f) (off k :: rest) (hits q qs qe ls ++ r).
Proof.
  induction h as [|h IH]; intros k ls Hl Hc f rest r Hr; [discriminate|].
  cbn [gleaves] in Hl. cbn [gcov] in Hc. cbn [gsize].
  destruct (get k) as [[l|its]|] eqn:G; [| |discriminate].
  - injection Hl as <-. intros fuel Hf. destruct fuel as [|fuel]; [exfalso; lia|].
    cbn [search_loop]. rewrite (Hread k _ G). cbn [render rbind].
    rewrite (Hr fuel) by lia. reflexivity.
  - intros fuel Hf. destruct fuel as [|fuel]; [exfalso; lia|].
    cbn [search_loop]. rewrite (Hread k _ G). cbn [render rbind].
    assert (Hin : conv (fold_right (fun it a => (gsize h (snd it) + a)%nat) 0%nat its + f)
              (map snd (filter (fun i : span * N => overlaps q qs qe (fst i)) (map (fun it => (fst it, off (snd it))) its)) ++ rest)
              (hits q qs qe ls ++ r)).
    { clear G Hf fuel. revert ls Hl Hc. induction its as [|it its IHi]; intros ls Hl Hc.
      - cbn in Hl. injection Hl as <-. cbn. exact Hr.
      - cbn [map] in Hl. apply ocat_cons_inv in Hl as (la & lr & Ha & Hrr & ->).
        inversion Hc as [|? ? [Hca Hcov] Hcr]; subst.
        specialize (IHi lr Hrr Hcr). cbn [map filter fst fold_right].
        rewrite hits_app, <- app_assoc.
        destruct (overlaps q qs qe (fst it)) eqn:Ho.
        + cbn [map snd app]. eapply conv_mono; [apply (IH (snd it) la Ha Hca _ _ _ IHi)|lia].
        + rewrite (hits_uncovered (fst it) la (Hcov la Ha) Ho). cbn [app].
          eapply conv_mono; [exact IHi|lia]. }
    apply Hin. lia.
Qed.

Theorem search_any_root h root ls : gleaves h root = Some ls -> gcov h root ->
  forall fuel, (gsize h root < fuel)%nat ->
    search_bytes fuel big bs (off root) q qs qe = Ok (hits q qs qe ls).
Proof.
  intros Hl Hc fuel Hf. unfold search_bytes.
  assert (Hnil : conv 1 [] []). { intros [|n] Hn; [exfalso; lia|reflexivity]. }
  pose proof (search_any h root ls Hl Hc 1%nat [] [] Hnil fuel) as H.
  rewrite app_nil_r in H. apply H. lia.
Qed.
End AnyTree.
Arguments gnode K : clear implicits.

(* ---------- keys = offsets: a finite map offset -> node ---------- *)
Definition store := list (N * pnode).
Fixpoint st_find (o : N) (st : store) : option pnode :=
  match st with
  | [] => None
  | (o', n) :: r => if o =? o' then Some n else st_find o r
  end.
Definition st_get (st : store) (o : N) : option (gnode N) :=
  match st_find o st with
  | Some (PLeaf l) => Some (GLeaf l)
  | Some (PInner its) => Some (GInner its)
  | None => None
  end.
(* the leaf items reachable from [root] within depth h, the number of node visits, the covering condition *)
Definition st_leaves (st : store) := gleaves (st_get st).
Definition st_size (st : store) := gsize (st_get st).
Definition st_cov (st : store) := gcov (st_get st).

Lemma map_pair_id {X Y} (l : list (X * Y)) : map (fun it => (fst it, snd it)) l = l.
Proof. induction l as [|[a b] l IH]; [reflexivity|]. cbn [map fst snd]. now rewrite IH. Qed.

Theorem search_any_store big bs (st : store) h root ls q qs qe :
  (forall o n, st_find o st = Some n -> read_node big bs o = Ok n) ->
  st_leaves st h root = Some ls -> st_cov st h root ->
  forall fuel, (st_size st h root < fuel)%nat ->
    search_bytes fuel big bs root q qs qe = Ok (hits q qs qe ls).
Proof.
  intros Hst Hl Hc fuel Hf.
  apply (search_any_root (st_get st) (fun o => o) big bs) with (h := h); try assumption.
  intros k g Hg. unfold st_get in Hg. destruct (st_find k st) as [[l|its]|] eqn:E; [| |discriminate].
  - injection Hg as <-. cbn [render]. now apply Hst.
  - injection Hg as <-. cbn [render]. rewrite map_pair_id. now apply Hst.
Qed.

(* a span lying inside the recorded span is covered by it: the usual way the condition is met *)
Lemma inside_span_covers sp s : inside s sp -> span_covers sp s.
Proof. apply inside_covers. Qed.
