(* C17: the name column.  A BED line made of tab-separated fields chrom, start, end, extra...:
   parse_bed recovers the fields and name_for_bed_item returns the requested one. *)
From BT Require Import Base.Util Base.Float Model.RTree Model.BBIFile Model.BigWigWrite Model.BBIRead
  Model.BedStats.
Local Open Scope N_scope.

Fixpoint join (sep : N) (l : list (list N)) : list N :=
  match l with
  | [] => []
  | [x] => x
  | x :: r => x ++ sep :: join sep r
  end.
Definition no_tab (f : list N) : Prop := Forall (fun x => x <> TAB) f.

Lemma join_cons2 sep x y r : join sep (x :: y :: r) = x ++ sep :: join sep (y :: r).
Proof. reflexivity. Qed.

(* ------------------------------------------------------------------ cut / split_all on joined fields *)
Lemma cut_notab f : no_tab f -> cut TAB f = (f, None).
Proof.
  induction 1 as [|x f Hx _ IH]; [reflexivity|]. cbn [cut].
  destruct (x =? TAB) eqn:E; [apply N.eqb_eq in E; contradiction|]. now rewrite IH.
Qed.
Lemma cut_app f r : no_tab f -> cut TAB (f ++ TAB :: r) = (f, Some r).
Proof.
  induction 1 as [|x f Hx _ IH].
  - cbn [app cut]. replace (TAB =? TAB) with true by reflexivity. reflexivity.
  - cbn [app cut]. destruct (x =? TAB) eqn:E; [apply N.eqb_eq in E; contradiction|]. now rewrite IH.
Qed.
Lemma split_all_notab f : no_tab f -> split_all TAB f = [f].
Proof.
  induction 1 as [|x f Hx _ IH]; [reflexivity|]. cbn [split_all].
  destruct (x =? TAB) eqn:E; [apply N.eqb_eq in E; contradiction|]. now rewrite IH.
Qed.
Lemma split_all_app f r : no_tab f -> split_all TAB (f ++ TAB :: r) = f :: split_all TAB r.
Proof.
  induction 1 as [|x f Hx _ IH].
  - cbn [app split_all]. replace (TAB =? TAB) with true by reflexivity. reflexivity.
  - cbn [app split_all]. destruct (x =? TAB) eqn:E; [apply N.eqb_eq in E; contradiction|]. now rewrite IH.
Qed.
Lemma split_all_join fs : fs <> [] -> Forall no_tab fs -> split_all TAB (join TAB fs) = fs.
Proof.
  intros Hne H. induction H as [|x r Hx Hr IH]; [contradiction|].
  destruct r as [|y r'].
  - cbn [join]. apply split_all_notab. exact Hx.
  - rewrite join_cons2. rewrite (split_all_app x _ Hx). f_equal. apply IH. discriminate.
Qed.

(* ------------------------------------------------------------------ decimal text of a number *)
Lemma dec_fuel_app f : forall n acc, dec_fuel f n acc = dec_fuel f n [] ++ acc.
Proof.
  induction f as [|f IH]; intros n acc; [reflexivity|].
  cbn [dec_fuel]. destruct (n <? 10); [reflexivity|].
  rewrite (IH (n / 10) (_ :: acc)), (IH (n / 10) [_]). now rewrite <- app_assoc.
Qed.

Lemma parse_digits_app l1 : forall l2 a,
  parse_digits (l1 ++ l2) a = match parse_digits l1 a with Some a' => parse_digits l2 a' | None => None end.
Proof.
  induction l1 as [|x l1 IH]; intros l2 a; [reflexivity|].
  cbn [app parse_digits]. destruct (digit x); [apply IH|reflexivity].
Qed.

Lemma digit_ok d : d < 10 -> digit (48 + d) = Some d.
Proof.
  intros H. unfold digit.
  replace (48 <=? 48 + d) with true by (symmetry; apply N.leb_le; lia).
  replace (48 + d <=? 57) with true by (symmetry; apply N.leb_le; lia).
  cbn [andb]. f_equal. lia.
Qed.

Lemma dec_fuel_parse f : forall n a, n < 10 ^ N.of_nat f ->
  exists k, parse_digits (dec_fuel f n []) a = Some (a * 10 ^ k + n).
Proof.
  induction f as [|f IH]; intros n a Hn.
  - change (10 ^ N.of_nat 0) with 1 in Hn. exists 0. cbn [dec_fuel parse_digits]. f_equal.
    change (10 ^ 0) with 1. lia.
  - cbn [dec_fuel]. assert (Hm : n mod 10 < 10) by (apply N.mod_lt; lia).
    destruct (n <? 10) eqn:E.
    + apply N.ltb_lt in E. exists 1. cbn [parse_digits]. rewrite N.mod_small by exact E.
      rewrite (digit_ok n E). change (10 ^ 1) with 10. reflexivity.
    + apply N.ltb_ge in E. rewrite dec_fuel_app.
      assert (Hq : n / 10 < 10 ^ N.of_nat f).
      { rewrite Nat2N.inj_succ, N.pow_succ_r' in Hn. apply N.div_lt_upper_bound; lia. }
      destruct (IH (n / 10) a Hq) as (k & Hk). exists (N.succ k).
      rewrite parse_digits_app, Hk. cbn [parse_digits]. rewrite (digit_ok _ Hm). f_equal.
      rewrite N.pow_succ_r'. pose proof (N.div_mod' n 10) as Hd. lia.
Qed.

Lemma size_nat_bound n : n < 2 ^ N.of_nat (N.size_nat n).
Proof.
  destruct n as [|p]; [reflexivity|]. cbn [N.size_nat].
  induction p as [p IH|p IH|].
  - cbn [Pos.size_nat]. rewrite Nat2N.inj_succ, N.pow_succ_r'. change (N.pos p~1) with (2 * N.pos p + 1). lia.
  - cbn [Pos.size_nat]. rewrite Nat2N.inj_succ, N.pow_succ_r'. change (N.pos p~0) with (2 * N.pos p). lia.
  - reflexivity.
Qed.

Lemma dec_fuel_enough n : n < 10 ^ N.of_nat (S (N.size_nat n)).
Proof.
  pose proof (size_nat_bound n) as H.
  assert (H2 : 2 ^ N.of_nat (N.size_nat n) <= 10 ^ N.of_nat (N.size_nat n)) by (apply N.pow_le_mono_l; lia).
  rewrite Nat2N.inj_succ, N.pow_succ_r'. lia.
Qed.

Lemma parse_digits_dec n : parse_digits (dec n) 0 = Some n.
Proof.
  unfold dec. destruct (dec_fuel_parse _ n 0 (dec_fuel_enough n)) as (k & Hk). rewrite Hk. f_equal; try lia.
Qed.

Definition digit_char (c : N) : Prop := 48 <= c /\ c <= 57.
Lemma dec_fuel_digits f : forall n acc, Forall digit_char acc -> Forall digit_char (dec_fuel f n acc).
Proof.
  induction f as [|f IH]; intros n acc H; [exact H|].
  cbn [dec_fuel]. assert (Hm : n mod 10 < 10) by (apply N.mod_lt; lia).
  assert (Hd : Forall digit_char ((48 + n mod 10) :: acc)) by (constructor; [unfold digit_char; generalize dependent (n mod 10); intros; lia|exact H]).
  destruct (n <? 10); [exact Hd|]. apply IH. exact Hd.
Qed.
Lemma dec_digits n : Forall digit_char (dec n).
Proof. apply dec_fuel_digits. constructor. Qed.
Lemma dec_nonempty n : dec n <> [].
Proof.
  unfold dec. cbn [dec_fuel]. destruct (n <? 10); [discriminate|].
  rewrite dec_fuel_app. intros H. apply app_eq_nil in H as [_ H]. discriminate.
Qed.
Lemma dec_no_tab n : no_tab (dec n).
Proof.
  unfold no_tab. eapply Forall_impl; [|apply dec_digits]. cbv beta. unfold digit_char, TAB. intros c H. lia.
Qed.

(* u32::from_str reads back what Display printed *)
Lemma parse_u32_dec n : n < 2 ^ 32 -> parse_u32 (dec n) = Some n.
Proof.
  intros Hn. unfold parse_u32. pose proof (dec_digits n) as Hd. pose proof (dec_nonempty n) as Hne.
  pose proof (parse_digits_dec n) as Hp.
  destruct (dec n) as [|c r]; [contradiction|].
  inversion Hd as [|? ? Hc _]; subst. unfold digit_char in Hc.
  destruct (c =? 43) eqn:E; [apply N.eqb_eq in E; lia|].
  rewrite Hp. destruct (n <? 2 ^ 32) eqn:E2; [reflexivity|]. apply N.ltb_ge in E2. lia.
Qed.

(* ------------------------------------------------------------------ the name column *)
(* C17_name *)
Theorem name_of_fields : forall chrom s e extra,
  no_tab chrom -> Forall no_tab extra -> s < 2 ^ 32 -> e < 2 ^ 32 ->
  let fields := chrom :: dec s :: dec e :: extra in
  let line := join TAB fields in
  let en := {| be_start := s; be_end := e; be_rest := join TAB extra |} in
  trim_end line = line ->
  parse_bed line = Ok (chrom, en) /\
  (forall n f, nth_error fields n = Some f -> name_for_bed_item (NColumn n) chrom en = Ok f) /\
  name_for_bed_item NInterval chrom en = Ok (chrom ++ [58] ++ dec s ++ [45] ++ dec e) /\
  name_for_bed_item NNone chrom en = Ok (match extra with [] => line ++ [TAB] | _ => line end).
Proof.
  intros chrom s e extra Hc Hx Hs He. cbv zeta. intros Htrim.
  split; [|split; [|split]].
  - unfold parse_bed. rewrite Htrim. rewrite !join_cons2.
    rewrite (cut_app chrom _ Hc). rewrite (cut_app (dec s) _ (dec_no_tab s)). rewrite (parse_u32_dec s Hs).
    destruct extra as [|x extra'].
    + cbn [join]. rewrite (cut_notab (dec e) (dec_no_tab e)). rewrite (parse_u32_dec e He). reflexivity.
    + rewrite join_cons2. rewrite (cut_app (dec e) _ (dec_no_tab e)). rewrite (parse_u32_dec e He). reflexivity.
  - intros n f Hn. destruct n as [|[|[|k]]]; cbn [nth_error] in Hn.
    + injection Hn as <-. reflexivity.
    + injection Hn as <-. reflexivity.
    + injection Hn as <-. reflexivity.
    + cbn [name_for_bed_item be_rest]. rewrite split_all_join; [rewrite Hn; reflexivity| |exact Hx].
      intros ->. destruct k; discriminate.
  - reflexivity.
  - cbn [name_for_bed_item be_start be_end be_rest]. f_equal. rewrite !join_cons2.
    destruct extra as [|x extra'].
    + cbn [join app]. repeat (rewrite <- app_assoc; cbn [app]). reflexivity.
    + rewrite join_cons2. cbn [app]. repeat (rewrite <- app_assoc; cbn [app]). reflexivity.
Qed.

Example name_example :
  let chrom := [99; 104; 114; 49] in let extra := [[103; 49]; [120; 32; 121]] in
  no_tab chrom /\ Forall no_tab extra /\
  trim_end (join TAB (chrom :: dec 5 :: dec 120 :: extra)) = join TAB (chrom :: dec 5 :: dec 120 :: extra) /\
  name_for_bed_item (NColumn 3) chrom {| be_start := 5; be_end := 120; be_rest := join TAB extra |} = Ok [103; 49] /\
  dec 120 = [49; 50; 48].
Proof.
  cbv zeta. split; [|split; [|split; [|split]]]; try (vm_compute; reflexivity).
  - repeat constructor; discriminate.
  - repeat constructor; discriminate.
Qed.
