(* C03 on the files the writer models produce: the exact interval answer (via C01's whole-file
   round trip, Proofs/BigWigFileThms.v: header, chromosome tree, data region, index), the per-base
   array, and both through every history of a caching / reopened reader. *)
From BT Require Import Base.Util Base.Sexp Base.LE Base.Float Generated.Consts Model.RTree Model.BBIFile Model.BigWigWrite
  Model.BBIRead Model.CachedRead Model.Entry_C03 Proofs.BigWigQuery Proofs.RTreeCodec Proofs.CachedReadInv Proofs.BigWigValues
  Proofs.BigWigFileRoundTrip Proofs.BigWigFileThms.
Local Open Scope N_scope.

Section Written.
Variables (fp : fpmode) (o : opts) (sizes : list (name * N)) (inp : list item) (bs : list N).
Hypothesis Hw : bw_write fp o sizes inp = Ok bs \/ bw_write_multipass fp o sizes inp = Ok bs.
Hypothesis Ho : opts_ok o.
Hypothesis Hi : input_ok sizes inp.
Hypothesis Hs : Nlen bs < U64.

Theorem written_query : exists i, read_info bs = Ok i /\
  forall infl c vs, In (c, vs) (runs inp) ->
    (forall s e, bw_interval infl bs i c s e = Ok (clip_filter s e vs))
    /\ (forall s e, s <= e -> bw_values infl bs i c s e = Ok (spec_values s e vs)).
Proof.
  pose proof (write_roundtrip_for fp o sizes inp bs Ho Hi Hs Hw) as R.
  destruct R as (i & Hri & Rrest). exists i. split; [exact Hri|]. intros infl c vs Hin.
  assert (R : roundtrip_for sizes inp bs) by (exists i; split; assumption).
  assert (Hq : forall s e, bw_interval infl bs i c s e = Ok (clip_filter s e vs))
    by (intros s e; exact (roundtrip_query sizes inp bs i infl c vs s e R Hri Hin)).
  split; [exact Hq|]. intros s e Hse. unfold bw_values.
  replace (e <? s) with false by (symmetry; apply N.ltb_ge; exact Hse). rewrite Hq. cbn [rbind]. f_equal.
  destruct (write_accepted fp o sizes inp bs Hw c vs Hin) as (len & _ & Hwf & _).
  exact (values_spec len s e vs Hwf Hse).
Qed.

(* ... and the same answers after any history, through a caching reader and through a reader
   reopened from it: the k-th answer of the run is the stateless answer of the k-th query, which for
   an interval / per-base query on a chromosome of the file is the specification *)
Theorem written_history : exists i, read_info bs = Ok i /\
  forall infl,
    (forall qs1 qs2,
        fst (qrun infl bs i cache0 qs1) = map (fresh_answer infl bs i) qs1
        /\ fst (qrun infl bs i (c_reopen (snd (qrun infl bs i cache0 qs1))) qs2) = map (fresh_answer infl bs i) qs2)
    /\ (forall c vs s e, In (c, vs) (runs inp) ->
          fresh_answer infl bs i (QInterval c s e) = AInterval (Ok (clip_filter s e vs))
          /\ (s <= e -> fresh_answer infl bs i (QValues c s e) = AValues (Ok (spec_values s e vs)))).
Proof.
  destruct written_query as (i & Hri & Hq). exists i. split; [exact Hri|]. intros infl. split.
  - intros qs1 qs2. apply history_independent.
  - intros c vs s e Hin. destruct (Hq infl c vs Hin) as [H1 H2]. cbn [fresh_answer]. split.
    + now rewrite H1.
    + intros Hse. now rewrite H2.
Qed.
End Written.

(* the two halves of written_query as separate statements *)
Theorem written_interval fp o sizes inp bs :
  bw_write fp o sizes inp = Ok bs \/ bw_write_multipass fp o sizes inp = Ok bs ->
  opts_ok o -> input_ok sizes inp -> Nlen bs < U64 ->
  exists i, read_info bs = Ok i /\
    forall infl c vs s e, In (c, vs) (runs inp) -> bw_interval infl bs i c s e = Ok (clip_filter s e vs).
Proof.
  intros Hw Ho Hi Hs. destruct (written_query fp o sizes inp bs Hw Ho Hi Hs) as (i & Hri & Hq).
  exists i. split; [exact Hri|]. intros infl c vs s e Hin. apply (Hq infl c vs Hin).
Qed.
Theorem written_values fp o sizes inp bs :
  bw_write fp o sizes inp = Ok bs \/ bw_write_multipass fp o sizes inp = Ok bs ->
  opts_ok o -> input_ok sizes inp -> Nlen bs < U64 ->
  exists i, read_info bs = Ok i /\
    forall infl c vs s e, In (c, vs) (runs inp) -> s <= e -> bw_values infl bs i c s e = Ok (spec_values s e vs).
Proof.
  intros Hw Ho Hi Hs. destruct (written_query fp o sizes inp bs Hw Ho Hi Hs) as (i & Hri & Hq).
  exists i. split; [exact Hri|]. intros infl c vs s e Hin. apply (Hq infl c vs Hin).
Qed.
