(* C18, the consequence, part 2: the line-level file of the indexer model is tied to the byte-level
   file of the view model, and the per-entry readers of the parallel source are shown to deliver
   exactly the runs of the file.
   - [lfile key bytes]: the indexer's file of a byte string (Model/Indexer.v), for ANY classification
     [key] of raw lines; its offsets are byte offsets of line starts ([lfile_offsets]);
   - any index made of line-level entries that begins with the first line cuts the raw lines into
     segments, and the BufReader<FileView> opened at entry i (to the next entry's offset, the last one
     to u64::MAX) delivers exactly segment i ([par_streams_segs], [index_streams]);
   - on a grouped file the index is the run starts and the segments are the maximal runs of lines with
     equal key ([parallel_stream_eq_serial]). *)
From BT Require Import Base.Util Model.FileView Model.Chunker Model.Indexer.
From BT Require Import Proofs.FileViewSim Proofs.ChunkerPartition Proofs.IndexerGrouped Proofs.IndexerViews
  Proofs.SliceStreams.
Local Open Scope N_scope.

(* ------------------------------------------------------------------ what split_lines returns *)
(* every line but the last is newline-free bytes followed by a newline; the last may lack the newline,
   and is not empty then *)
Inductive is_lines : list (list N) -> Prop :=
| il_nil : is_lines []
| il_last l : l <> [] -> ~ In NL l -> is_lines [l]
| il_cons b ls : ~ In NL b -> is_lines ls -> is_lines ((b ++ [NL]) :: ls).

Lemma eqb_NL_false x : x <> NL -> (x =? NL) = false.
Proof. intros H. apply N.eqb_neq. exact H. Qed.

Lemma is_lines_acc : forall p acc, ~ In NL acc -> is_lines (split_lines_acc p acc).
Proof.
  induction p as [|x r IH]; intros acc Hacc; cbn [split_lines_acc].
  - destruct acc as [|a acc']; [constructor|].
    apply il_last.
    + intros E. apply (f_equal (@length N)) in E. rewrite rev_length in E. discriminate.
    + intros Hin. apply in_rev in Hin. auto.
  - destruct (N.eqb_spec x NL) as [->|Hx].
    + cbn [rev]. apply il_cons; [|apply IH; auto].
      intros Hin. apply in_rev in Hin. auto.
    + apply IH. intros [E|Hin]; [congruence | auto].
Qed.

Lemma is_lines_split bytes : is_lines (split_lines bytes).
Proof. apply is_lines_acc. auto. Qed.

Lemma concat_split_acc : forall p acc, concat (split_lines_acc p acc) = rev acc ++ p.
Proof.
  induction p as [|x r IH]; intros acc; cbn [split_lines_acc].
  - destruct acc; [reflexivity|]. cbn [concat]. rewrite !app_nil_r. reflexivity.
  - destruct (x =? NL).
    + cbn [concat rev]. rewrite IH. cbn [rev app]. rewrite <- app_assoc. reflexivity.
    + rewrite IH. cbn [rev]. rewrite <- app_assoc. reflexivity.
Qed.

Lemma concat_split_lines bytes : concat (split_lines bytes) = bytes.
Proof. unfold split_lines. rewrite concat_split_acc. reflexivity. Qed.

Lemma split_acc_line : forall b y acc, ~ In NL b ->
  split_lines_acc (b ++ NL :: y) acc = (rev acc ++ b ++ [NL]) :: split_lines y.
Proof.
  induction b as [|x b IH]; intros y acc Hb; cbn [app split_lines_acc].
  - rewrite N.eqb_refl. reflexivity.
  - rewrite eqb_NL_false by (intros E; apply Hb; left; auto).
    rewrite IH by (intros Hin; apply Hb; right; auto).
    cbn [rev]. rewrite <- app_assoc. reflexivity.
Qed.

Lemma split_acc_last : forall l acc, ~ In NL l -> l <> [] \/ acc <> [] ->
  split_lines_acc l acc = [rev acc ++ l].
Proof.
  induction l as [|x l IH]; intros acc Hl Hne; cbn [split_lines_acc].
  - destruct Hne as [Hne|Hne]; [congruence|]. destruct acc; [congruence|]. rewrite app_nil_r. reflexivity.
  - rewrite eqb_NL_false by (intros E; apply Hl; left; auto).
    rewrite IH; [|intros Hin; apply Hl; right; auto | right; discriminate].
    cbn [rev]. rewrite <- app_assoc. reflexivity.
Qed.

(* reading back the concatenation of such lines gives the lines *)
Lemma split_lines_concat : forall ls, is_lines ls -> split_lines (concat ls) = ls.
Proof.
  induction 1 as [|l Hne Hl|b ls Hb Hls IH].
  - reflexivity.
  - cbn [concat]. rewrite app_nil_r. unfold split_lines. rewrite split_acc_last; auto.
  - cbn [concat]. rewrite <- app_assoc. cbn [app]. unfold split_lines at 1.
    rewrite split_acc_line by exact Hb. cbn [rev app]. rewrite IH. reflexivity.
Qed.

Lemma is_lines_app : forall a b, is_lines (a ++ b) -> is_lines a /\ is_lines b.
Proof.
  induction a as [|l a IH]; intros b H; cbn [app] in H.
  - split; [constructor | exact H].
  - inversion H as [|l' Hne Hl E|b0 ls Hb0 Hls E]; subst.
    + destruct a; [|discriminate]. destruct b; [|discriminate].
      split; [apply il_last; auto | constructor].
    + destruct (IH b Hls) as [Ha Hb]. split; [apply il_cons; auto | exact Hb].
Qed.

Lemma is_lines_nonempty : forall ls, is_lines ls -> Forall (fun l => l <> []) ls.
Proof.
  induction 1 as [|l Hne Hl|b ls Hb Hls IH]; constructor; auto.
  intros E. apply app_eq_nil in E. destruct E; discriminate.
Qed.

(* what precedes a line that is not the first ends with a newline *)
Lemma is_lines_pre_nl : forall p q, is_lines (p ++ q) -> q <> [] ->
  concat p = [] \/ exists pre, concat p = pre ++ [NL].
Proof.
  induction p as [|l p IH]; intros q H Hq; [left; reflexivity|].
  cbn [app] in H. inversion H as [|l' Hne Hl E|b0 ls Hb0 Hls E]; subst.
  - exfalso. destruct p; [|discriminate]. cbn [app] in *. congruence.
  - right. cbn [concat]. destruct (IH q Hls Hq) as [E|(pre & E)]; rewrite E.
    + exists b0. rewrite app_nil_r. reflexivity.
    + exists ((b0 ++ [NL]) ++ pre). rewrite <- !app_assoc. reflexivity.
Qed.

(* ------------------------------------------------------------------ ranges of a concatenation *)
Lemma takeN_app_len : forall X (a b : list X), takeN (a ++ b) (Nlen a) = a.
Proof.
  intros X a b. induction a as [|x a IH].
  - rewrite Nlen_nil. apply takeN_0.
  - cbn [app]. rewrite Nlen_cons, takeN_cons_pos by lia.
    replace (Nlen a + 1 - 1) with (Nlen a) by lia. rewrite IH. reflexivity.
Qed.

Lemma seg_range : forall (pre mid post : list N) hi,
  hi = Nlen pre + Nlen mid \/ (post = [] /\ Nlen pre + Nlen mid <= hi) ->
  range (pre ++ mid ++ post) (Nlen pre) hi = mid.
Proof.
  intros pre mid post hi H. unfold range. rewrite dropN_app_len.
  destruct H as [-> | [-> Hhi]].
  - replace (Nlen pre + Nlen mid - Nlen pre) with (Nlen mid) by lia. apply takeN_app_len.
  - rewrite app_nil_r. apply takeN_all. lia.
Qed.

(* ------------------------------------------------------------------ (1) the two files are one file *)
Notation absl := abs_line.

Lemma lfile_pos key bytes : Forall pos_len (lfile key bytes).
Proof.
  unfold lfile. pose proof (is_lines_nonempty _ (is_lines_split bytes)) as H.
  induction H as [|l ls Hl _ IH]; cbn [map]; constructor; auto.
  unfold pos_len, abs_line. cbn [snd]. destruct l; [congruence|]. rewrite Nlen_cons. lia.
Qed.

Lemma fsize_abs key ls : fsize (map (absl key) ls) = Nlen (concat ls).
Proof.
  induction ls as [|l ls IH]; [reflexivity|].
  cbn [map concat]. rewrite fsize_cons, Nlen_app, IH. reflexivity.
Qed.

Lemma fsize_lfile key bytes : fsize (lfile key bytes) = Nlen bytes.
Proof. unfold lfile. rewrite fsize_abs, concat_split_lines. reflexivity. Qed.

Lemma lfile_nonempty key bytes : bytes <> [] -> lfile key bytes <> [].
Proof.
  intros Hne E. unfold lfile in E. apply map_eq_nil in E.
  apply Hne. rewrite <- (concat_split_lines bytes), E. reflexivity.
Qed.

(* an offset computed on the line-level file is the byte offset of that line's first byte: for the
   line l preceded by the lines p, the entry is (number of bytes of p, key l), that offset is a line
   start of the byte file, and the bytes there are l *)
Lemma lfile_offsets : forall key bytes p l s, split_lines bytes = p ++ l :: s ->
  entries 0 (lfile key bytes) =
    entries 0 (map (absl key) p) ++ (Nlen (concat p), key l)
      :: entries (Nlen (concat p) + Nlen l) (map (absl key) s) /\
  cut_ok bytes (Nlen (concat p)) /\
  range bytes (Nlen (concat p)) (Nlen (concat p) + Nlen l) = l.
Proof.
  intros key bytes p l s E. unfold lfile. rewrite E.
  assert (Hb : bytes = concat p ++ l ++ concat s).
  { rewrite <- (concat_split_lines bytes), E, concat_app. reflexivity. }
  split; [|split].
  - rewrite map_app, entries_app. cbn [map entries]. rewrite fsize_abs, N.add_0_l. reflexivity.
  - pose proof (is_lines_split bytes) as H. rewrite E in H.
    destruct (is_lines_pre_nl p (l :: s) H) as [Ep|(pre & Ep)]; [discriminate | |].
    + left. rewrite Ep. reflexivity.
    + right. exists pre, (l ++ concat s). split.
      * rewrite Hb, Ep, <- app_assoc. reflexivity.
      * rewrite Ep, Nlen_app. reflexivity.
  - rewrite Hb. apply seg_range. left. reflexivity.
Qed.

(* ------------------------------------------------------------------ segments of a line list *)
Lemma pow64_gt : forall n, n < 2 ^ 63 -> n <= u64_max.
Proof. intros n H. unfold u64_max. rewrite pow64N. rewrite pow63N in H. lia. Qed.

(* the reader of entry i delivers segment i, whatever the segmentation *)
Lemma par_streams_segs : forall key (bytes : list N) sz fuel,
  Nlen bytes < 2 ^ 63 -> (forall i k, 1 <= sz i k) -> (length bytes < fuel)%nat ->
  forall segs pre i, bytes = pre ++ concat (concat segs) -> is_lines (concat segs) ->
  par_streams_from i fuel bytes sz (seg_starts key (Nlen pre) segs) = map Ok segs.
Proof.
  intros key bytes sz fuel Hlen Hsz Hfuel segs.
  induction segs as [|g r IH]; intros pre i Hb Hl; [reflexivity|].
  cbn [seg_starts par_streams_from map fst concat] in *.
  destruct (is_lines_app _ _ Hl) as [Hg Hr].
  assert (Hbl : Nlen bytes = Nlen pre + Nlen (concat g) + Nlen (concat (concat r))).
  { rewrite Hb. rewrite concat_app, !Nlen_app. lia. }
  set (hi := match seg_starts key (Nlen pre + Nlen (concat g)) r with
             | n :: _ => fst n | [] => u64_max end).
  assert (Hhi : hi = Nlen pre + Nlen (concat g) \/
                (concat (concat r) = [] /\ Nlen pre + Nlen (concat g) <= hi)).
  { unfold hi. destruct r as [|g' r']; cbn [seg_starts fst].
    - right. split; [reflexivity|]. apply pow64_gt. lia.
    - left. reflexivity. }
  rewrite view_lines_spec; auto; [| destruct Hhi as [->|[_ H]]; lia | lia].
  f_equal.
  - f_equal. rewrite Hb, concat_app. rewrite seg_range by exact Hhi.
    apply split_lines_concat. exact Hg.
  - replace (Nlen pre + Nlen (concat g)) with (Nlen (pre ++ concat g)) by apply Nlen_app.
    apply IH; [|exact Hr]. rewrite Hb, concat_app, app_assoc. reflexivity.
Qed.

(* ------------------------------------------------------------------ any index of line entries *)
Inductive subseq {X} : list X -> list X -> Prop :=
| ss_nil : subseq [] []
| ss_keep x T R : subseq T R -> subseq (x :: T) (x :: R)
| ss_skip x T R : subseq T R -> subseq (x :: T) R.

Lemma Sel_subseq (G : Prop) c T R : Sel G c T R -> subseq T R.
Proof. induction 1; constructor; auto. Qed.

Lemma subseq_trans {X} : forall (A B : list X), subseq A B -> forall C, subseq B C -> subseq A C.
Proof.
  induction 1 as [|x T R H IH|x T R H IH]; intros C HC.
  - exact HC.
  - inversion HC; subst; constructor; auto.
  - constructor; auto.
Qed.

(* a selection of the entries of the lines t: the lines before the first selected one (they stay with
   the segment before), then one segment per selected entry *)
Lemma subseq_segs : forall key t off R, subseq (entries off (map (absl key) t)) R ->
  exists g segs, t = g ++ concat segs /\ Forall (fun s => s <> []) segs /\
                 R = seg_starts key (off + Nlen (concat g)) segs.
Proof.
  intros key t. induction t as [|x r IH]; intros off R H.
  - cbn [map entries] in H. inversion H; subst. exists [], []. repeat split; constructor.
  - cbn [map entries] in H. unfold abs_line at 1 2 in H. cbn [fst snd] in H.
    inversion H as [|e T R' H'|e T R' H']; subst.
    + destruct (IH _ _ H') as (g & segs & -> & Hne & ->).
      exists [], ((x :: g) :: segs). split; [reflexivity|]. split; [constructor; [discriminate|exact Hne]|].
      cbn [seg_starts ghd concat]. rewrite Nlen_nil, N.add_0_r. f_equal. f_equal.
      rewrite Nlen_app. lia.
    + destruct (IH _ _ H') as (g & segs & -> & Hne & ->).
      exists (x :: g), segs. split; [reflexivity|]. split; [exact Hne|].
      f_equal. cbn [concat]. rewrite Nlen_app. lia.
Qed.

(* whatever index_chroms answers for the file of a byte string (grouped or not, any depth limit): the
   entries cut the raw lines into non-empty consecutive segments, entry i is (byte offset of segment i,
   key of its first line), and the reader opened at entry i delivers exactly segment i *)
Lemma index_streams : forall key (bytes : list N) limit ix sz fuel,
  index_chroms limit (lfile key bytes) = Ok (Some ix) ->
  Nlen bytes < 2 ^ 63 -> (forall i k, 1 <= sz i k) -> (length bytes < fuel)%nat ->
  exists segs,
    par_streams fuel bytes sz ix = map Ok segs /\
    concat segs = split_lines bytes /\
    Forall (fun s => s <> []) segs /\
    ix = seg_starts key 0 segs.
Proof.
  intros key bytes limit ix sz fuel H Hlen Hsz Hfuel.
  destruct (index_chroms_ok limit _ _ (lfile_pos key bytes) H) as (l0 & t & ins & Ef & HS & E).
  injection E as ->.
  unfold lfile in Ef. destruct (split_lines bytes) as [|x r] eqn:El; [discriminate|].
  cbn [map] in Ef. injection Ef as <- <-.
  change (fst (absl key x)) with (key x) in *. change (snd (absl key x)) with (Nlen x) in *.
  assert (Hss : subseq (entries (Nlen x) (map (absl key) r)) (dd (key x) ins)).
  { eapply subseq_trans; [eapply Sel_subseq; exact HS|]. eapply Sel_subseq. apply (Sel_dd True). }
  destruct (subseq_segs key r _ _ Hss) as (g & segs & -> & Hne & ER).
  exists ((x :: g) :: segs).
  assert (Eix : @cons entry (0, key x) (dd (key x) ins) = seg_starts key 0 ((x :: g) :: segs)).
  { cbn [seg_starts ghd concat]. rewrite ER. f_equal. f_equal. rewrite Nlen_app. lia. }
  split; [|split; [reflexivity|split; [constructor; [discriminate|exact Hne]|exact Eix]]].
  refine (eq_trans (f_equal (par_streams fuel bytes sz) Eix) _). unfold par_streams.
  change 0 with (Nlen (@nil N)).
  apply par_streams_segs; auto.
  - cbn [app]. rewrite <- (concat_split_lines bytes), El. reflexivity.
  - change (concat ((x :: g) :: segs)) with (x :: g ++ concat segs).
    rewrite <- El. apply is_lines_split.
Qed.

(* ------------------------------------------------------------------ grouped files: segments = runs *)
Lemma groups_cons {X} (k : X -> N) x r :
  groups k (x :: r) = match groups k r with
                      | (y :: g) :: gs => if k x =? k y then (x :: y :: g) :: gs else [x] :: (y :: g) :: gs
                      | _ => [[x]]
                      end.
Proof. reflexivity. Qed.

Lemma groups_nonempty {X} (k : X -> N) : forall l, Forall (fun g => g <> []) (groups k l).
Proof.
  induction l as [|x r IH]; [constructor|]. rewrite groups_cons.
  destruct (groups k r) as [|[|y g] gs].
  - repeat constructor. discriminate.
  - repeat constructor. discriminate.
  - inversion IH as [|? ? _ Hgs]; subst.
    destruct (k x =? k y); repeat (constructor; try discriminate); auto.
Qed.

Lemma groups_concat {X} (k : X -> N) : forall l, concat (groups k l) = l.
Proof.
  induction l as [|x r IH]; [reflexivity|]. rewrite groups_cons.
  pose proof (groups_nonempty k r) as Hne.
  destruct (groups k r) as [|[|y g] gs].
  - cbn [concat] in *. rewrite <- IH. reflexivity.
  - inversion Hne; congruence.
  - destruct (k x =? k y); cbn [concat app] in *; rewrite <- IH; reflexivity.
Qed.

Lemma groups_nil_inv {X} (k : X -> N) l : groups k l = [] -> l = [].
Proof. intros E. rewrite <- (groups_concat k l), E. reflexivity. Qed.

Lemma groups_runs_ok {X} (k : X -> N) : forall l, runs_ok k (groups k l).
Proof.
  induction l as [|x r IH]; [exact I|]. rewrite groups_cons.
  destruct (groups k r) as [|[|y g] gs] eqn:E.
  - cbn [runs_ok ghd]. repeat split; try discriminate. intros z [<-|[]]. reflexivity.
  - cbn [runs_ok] in IH. destruct IH as [IH _]. congruence.
  - destruct (N.eqb_spec (k x) (k y)) as [Exy|Exy].
    + cbn [runs_ok ghd] in *. destruct IH as (_ & Hall & Hnext & Hrest).
      repeat split; try discriminate; auto.
      * intros z [<-|Hz]; [reflexivity|]. rewrite Exy. apply Hall. exact Hz.
      * destruct gs; [exact I|]. rewrite Exy. exact Hnext.
    + change (runs_ok k ([x] :: (y :: g) :: gs)) with
        ([x] <> [] /\ (forall z, In z [x] -> k z = k x) /\ k y <> k x /\ runs_ok k ((y :: g) :: gs)).
      split; [discriminate|]. split; [intros z [<-|[]]; reflexivity|].
      split; [intros E'; apply Exy; symmetry; exact E' | exact IH].
Qed.

(* dedup_by_key over the line-level entries = the starts of the runs of raw lines *)
Lemma dd_groups : forall key ls c off,
  dd c (entries off (map (absl key) ls)) =
  match groups key ls with
  | [] => []
  | g :: gs => if ghd key g =? c then seg_starts key (off + Nlen (concat g)) gs
               else seg_starts key off (g :: gs)
  end.
Proof.
  intros key ls. induction ls as [|x r IH]; intros c off; [reflexivity|].
  cbn [map entries dd]. change (fst (absl key x)) with (key x). change (snd (absl key x)) with (Nlen x). cbn [fst snd].
  rewrite groups_cons. pose proof (groups_nonempty key r) as Hne.
  destruct (N.eqb_spec (key x) c) as [Exc|Exc].
  - (* x continues the run of c *)
    rewrite IH. destruct (groups key r) as [|[|y g] gs].
    + cbn [ghd seg_starts]. rewrite Exc, N.eqb_refl. reflexivity.
    + inversion Hne; congruence.
    + cbn [ghd]. destruct (N.eqb_spec (key y) c) as [Eyc|Eyc].
      * replace (key x =? key y) with true by (symmetry; apply N.eqb_eq; congruence).
        cbn [ghd]. rewrite Exc, N.eqb_refl. f_equal.
        change (concat ((x :: y :: g))) with (x ++ concat (y :: g)). rewrite Nlen_app. lia.
      * replace (key x =? key y) with false by (symmetry; apply N.eqb_neq; congruence).
        cbn [ghd]. rewrite Exc, N.eqb_refl. cbn [concat]. rewrite app_nil_r. reflexivity.
  - (* x starts a run *)
    rewrite IH. destruct (groups key r) as [|[|y g] gs].
    + cbn [ghd seg_starts]. rewrite (proj2 (N.eqb_neq _ _) Exc). reflexivity.
    + inversion Hne; congruence.
    + cbn [ghd]. rewrite (N.eqb_sym (key y) (key x)).
      destruct (N.eqb_spec (key x) (key y)) as [Exy|Exy].
      * cbn [ghd]. rewrite (proj2 (N.eqb_neq _ _) Exc).
        cbn [seg_starts ghd]. f_equal. f_equal.
        change (concat ((x :: y :: g))) with (x ++ concat (y :: g)). rewrite Nlen_app. lia.
      * cbn [ghd]. rewrite (proj2 (N.eqb_neq _ _) Exc).
        cbn [seg_starts ghd concat]. rewrite app_nil_r. reflexivity.
Qed.

Lemma run_starts_groups key bytes :
  run_starts (lfile key bytes) = seg_starts key 0 (groups key (split_lines bytes)).
Proof.
  unfold run_starts, lfile. destruct (split_lines bytes) as [|x r]; [reflexivity|].
  cbn [map entries dedup_chrom]. change (fst (absl key x)) with (key x). change (snd (absl key x)) with (Nlen x). cbn [fst snd].
  rewrite dd_groups, groups_cons. pose proof (groups_nonempty key r) as Hne.
  destruct (groups key r) as [|[|y g] gs].
  - cbn [seg_starts ghd]. reflexivity.
  - inversion Hne; congruence.
  - cbn [ghd]. rewrite (N.eqb_sym (key y) (key x)).
    destruct (key x =? key y); cbn [seg_starts ghd concat].
    + f_equal. f_equal. rewrite !Nlen_app. lia.
    + rewrite app_nil_r. reflexivity.
Qed.

Lemma seg_starts_keys : forall key segs off, map snd (seg_starts key off segs) = map (ghd key) segs.
Proof. induction segs as [|g r IH]; intros off; cbn [seg_starts map snd]; [reflexivity|]. rewrite IH. reflexivity. Qed.

Lemma lfile_wf key bytes : (forall l, In l (split_lines bytes) -> key l <> 0) ->
  Forall wf_line (lfile key bytes).
Proof.
  intros Hk. pose proof (lfile_pos key bytes) as Hp. unfold lfile in *.
  induction (split_lines bytes) as [|l ls IH]; cbn [map] in *; [constructor|].
  inversion Hp as [|? ? Hl Hp']; subst. constructor.
  - split; [apply Hk; left; reflexivity | exact Hl].
  - apply IH; auto. intros z Hz. apply Hk. right. exact Hz.
Qed.

(* (2) a grouped file: the index is the run starts, reader i delivers exactly the lines of run i, the
   runs in index order are the serial line stream *)
Lemma grouped_streams : forall key (bytes : list N) ix sz fuel,
  ix = run_starts (lfile key bytes) ->
  Nlen bytes < 2 ^ 63 -> (forall i k, 1 <= sz i k) -> (length bytes < fuel)%nat ->
  par_streams fuel bytes sz ix = map Ok (groups key (split_lines bytes)) /\
  map snd ix = map (ghd key) (groups key (split_lines bytes)) /\
  runs_ok key (groups key (split_lines bytes)) /\
  concat (groups key (split_lines bytes)) = split_lines bytes.
Proof.
  intros key bytes ix sz fuel -> Hlen Hsz Hfuel.
  rewrite run_starts_groups.
  split; [|split; [apply seg_starts_keys | split; [apply groups_runs_ok | apply groups_concat]]].
  unfold par_streams. change 0 with (Nlen (@nil N)).
  apply par_streams_segs; auto.
  - cbn [app]. rewrite groups_concat, concat_split_lines. reflexivity.
  - rewrite groups_concat. apply is_lines_split.
Qed.

Lemma parallel_stream_eq_serial : forall (key : list N -> N) (bytes : list N) (lim : nat)
    (sz : nat -> nat -> N) (fuel : nat),
  bytes <> [] -> (forall l, In l (split_lines bytes) -> key l <> 0) -> grouped (lfile key bytes) ->
  Nlen bytes * Nlen bytes < 2 ^ N.of_nat lim -> Nlen bytes < 2 ^ 63 ->
  (forall i k, 1 <= sz i k) -> (length bytes < fuel)%nat ->
  exists ix,
    index_chroms (S lim) (lfile key bytes) = Ok (Some ix) /\
    ix = run_starts (lfile key bytes) /\
    par_streams fuel bytes sz ix = map Ok (groups key (split_lines bytes)) /\
    map snd ix = map (ghd key) (groups key (split_lines bytes)) /\
    runs_ok key (groups key (split_lines bytes)) /\
    concat (groups key (split_lines bytes)) = split_lines bytes.
Proof.
  intros key bytes lim sz fuel Hne Hk Hg Hsq Hlen Hsz Hfuel.
  exists (run_starts (lfile key bytes)). split; [|split; [reflexivity|]].
  - apply index_chroms_grouped; auto.
    + apply lfile_nonempty. exact Hne.
    + apply lfile_wf. exact Hk.
    + rewrite fsize_lfile. exact Hsq.
  - apply grouped_streams; auto.
Qed.

Lemma parallel_stream_eq_serial_100 : forall (key : list N -> N) (bytes : list N)
    (sz : nat -> nat -> N) (fuel : nat),
  bytes <> [] -> (forall l, In l (split_lines bytes) -> key l <> 0) -> grouped (lfile key bytes) ->
  Nlen bytes < 2 ^ 49 ->
  (forall i k, 1 <= sz i k) -> (length bytes < fuel)%nat ->
  exists ix,
    index_chroms depth_limit (lfile key bytes) = Ok (Some ix) /\
    ix = run_starts (lfile key bytes) /\
    par_streams fuel bytes sz ix = map Ok (groups key (split_lines bytes)) /\
    map snd ix = map (ghd key) (groups key (split_lines bytes)) /\
    runs_ok key (groups key (split_lines bytes)) /\
    concat (groups key (split_lines bytes)) = split_lines bytes.
Proof.
  intros key bytes sz fuel Hne Hk Hg Hsz49 Hsz Hfuel.
  exists (run_starts (lfile key bytes)). split; [|split; [reflexivity|]].
  - apply index_chroms_grouped_100; auto.
    + apply lfile_nonempty. exact Hne.
    + apply lfile_wf. exact Hk.
    + rewrite fsize_lfile. exact Hsz49.
  - apply grouped_streams; auto.
    assert (2 ^ 49 < 2 ^ 63) by (apply N.pow_lt_mono_r; lia). lia.
Qed.

(* ------------------------------------------------------------------ the line-level reading of the views *)
(* Model/Indexer.v's [view_streams] (lines_between: "the lines starting in the window") is the line-level
   image of what the readers deliver, for every index of line entries that begins with the first line *)
Lemma lines_between_seg : forall (p m s : file) off hi,
  Forall pos_len (p ++ m ++ s) ->
  (hi = Some (off + fsize p + fsize m) \/ (hi = None /\ s = [])) -> m <> [] \/ hi = None ->
  lines_between (p ++ m ++ s) off (off + fsize p) hi = m.
Proof.
  intros p m s off hi Hpos Hhi Hm.
  assert (Hp : starts_before p off (off + fsize p)).
  { clear Hhi Hm. apply Forall_app in Hpos. destruct Hpos as [Hp _]. revert off.
    induction p as [|l p IH]; intros off; cbn [starts_before]; [exact I|].
    inversion Hp as [|? ? Hl Hp']; subst. unfold pos_len in Hl. rewrite fsize_cons.
    split; [lia|]. replace (off + (snd l + fsize p)) with (off + snd l + fsize p) by lia. apply IH. exact Hp'. }
  rewrite lines_between_skip by exact Hp.
  apply Forall_app in Hpos. destruct Hpos as [_ Hms].
  destruct Hhi as [-> | [-> ->]].
  - destruct (lines_between_prefix (m ++ s) (off + fsize p) (off + fsize p) (off + fsize p + fsize m) Hms)
      as (p' & s' & E & Hlb & Hs' & Hb'); [lia|].
    rewrite Hlb.
    (* p' is the prefix of m ++ s of the lines starting before off + |p| + |m|: that is m *)
    clear Hlb Hm Hp. revert p' s' E Hs' Hb' Hms. generalize (off + fsize p) as o.
    clear p off. induction m as [|l m IH]; intros o p' s' E Hs' Hb' Hms.
    + destruct p' as [|l' p'']; [reflexivity|]. cbn [starts_before] in Hb'. rewrite fsize_nil in Hb'. lia.
    + cbn [app] in E, Hms. inversion Hms as [|? ? Hl Hms']; subst. unfold pos_len in Hl.
      destruct p' as [|l' p''].
      * cbn [app] in E. subst s'. rewrite fsize_nil, fsize_cons in Hs'.
        destruct Hs' as [Hs'|Hs']; [discriminate | lia].
      * cbn [app] in E. injection E as <- E. f_equal.
        cbn [starts_before] in Hb'. destruct Hb' as [_ Hb'].
        apply (IH (o + snd l) p'' s' E); auto.
        -- rewrite !fsize_cons in Hs'. destruct Hs' as [Hs'|Hs']; [left; auto | right]. lia.
        -- rewrite fsize_cons in Hb'. replace (o + snd l + fsize m) with (o + (snd l + fsize m)) by lia. exact Hb'.
  - rewrite app_nil_r. apply lines_between_all. lia.
Qed.

Lemma abs_pos key ls : Forall (fun l => l <> []) ls -> Forall pos_len (map (absl key) ls).
Proof.
  induction 1 as [|l ls Hl _ IH]; cbn [map]; constructor; auto.
  unfold pos_len, abs_line. cbn [snd]. destruct l; [congruence|]. rewrite Nlen_cons. lia.
Qed.

Lemma view_streams_segs : forall key segs pre,
  is_lines (pre ++ concat segs) -> Forall (fun s => s <> []) segs ->
  vs_from (map (absl key) (pre ++ concat segs)) 0 (seg_starts key (Nlen (concat pre)) segs)
  = map (map (absl key)) segs.
Proof.
  intros key segs. induction segs as [|g r IH]; intros pre Hl Hne; [reflexivity|].
  inversion Hne as [|? ? Hg Hne']; subst.
  cbn [seg_starts vs_from map].
  assert (Hpos : Forall pos_len (map (absl key) (pre ++ concat (g :: r))))
    by (apply abs_pos, is_lines_nonempty; exact Hl).
  f_equal.
  - cbn [concat] in *. rewrite !map_app in *.
    rewrite <- (fsize_abs key pre).
    replace (fsize (map (absl key) pre)) with (0 + fsize (map (absl key) pre)) by lia.
    apply lines_between_seg; [exact Hpos | |].
    + destruct r as [|g' r']; cbn [seg_starts fst].
      * right. split; reflexivity.
      * left. rewrite !fsize_abs. reflexivity.
    + left. destruct g; [congruence|discriminate].
  - replace (Nlen (concat pre) + Nlen (concat g)) with (Nlen (concat (pre ++ g)))
      by (rewrite concat_app, Nlen_app; reflexivity).
    cbn [concat] in *. rewrite app_assoc in *. apply IH; auto.
Qed.

(* the line-level streams of Model/Indexer.v are the images of the segments the readers deliver *)
Lemma index_view_streams : forall key (bytes : list N) segs,
  concat segs = split_lines bytes -> Forall (fun s => s <> []) segs ->
  view_streams (lfile key bytes) (seg_starts key 0 segs) = map (map (absl key)) segs.
Proof.
  intros key bytes segs E Hne. rewrite view_streams_vs. unfold lfile. rewrite <- E.
  change 0 with (Nlen (concat (@nil (list N)))) at 2.
  change (concat segs) with ([] ++ concat segs).
  apply view_streams_segs; auto. cbn [app]. rewrite E. apply is_lines_split.
Qed.
