(* Call atomicity: along every schedule the call-level machine (whole calls executed at the
   position of their first step; Model/TempBuf.v [cstep]) is in the state of the fine-grained
   machine with the pending second halves completed.  This is what allows the correspondence
   harness to drive the real type call by call from one thread and still cover every
   interleaving of the individual shared-memory accesses.  Holds for every consumer program,
   legal or not. *)
From BT Require Import Base.Util Model.TempBuf Proofs.TempBufThms.

(* facts about where each thread can be, independent of the consumer's program *)
Definition J (s : st) : Prop :=
  (p_mid s = true -> p_dropped s = false /\ exists w rest, p_todo s = PWrite w :: rest) /\
  (taken (c_mid s) = true -> p_dropped s = true) /\
  (closed s <> None -> p_dropped s = true).

Lemma J_init ops prog : J (init ops prog).
Proof. unfold J, init; cbn. repeat split; try discriminate. congruence. Qed.

Lemma J_step_p s s' : J s -> step_p s = Some s' -> J s'.
Proof.
  destruct s as [mb cl ps todo mid dr prog cm ob de pn]. unfold J; cbn.
  intros [J1 [J2 J3]]. destruct dr; [discriminate|].
  assert (Hcm : taken cm = false) by (destruct (taken cm); [specialize (J2 eq_refl); discriminate|reflexivity]).
  assert (Hcl : cl = None) by (destruct cl; [assert (true = false) by (symmetry; apply J3; discriminate); discriminate|reflexivity]).
  subst cl.
  destruct todo as [|[w|] rest].
  - intros E; inversion E; subst; cbn. repeat split; try discriminate; auto.
  - destruct mid.
    + destruct ps; intros E; inversion E; subst; cbn; rewrite Hcm; repeat split; try discriminate; try congruence.
    + destruct ps; try destruct mb; intros E; inversion E; subst; cbn; rewrite Hcm;
        repeat split; try discriminate; try congruence; eauto.
  - intros E; inversion E; subst; cbn. rewrite Hcm. repeat split; try discriminate; congruence.
Qed.

Lemma step_c_producer d0 s s' : step_c d0 s = Some s' ->
  p_mid s' = p_mid s /\ p_todo s' = p_todo s /\ p_dropped s' = p_dropped s /\ p_state s' = p_state s.
Proof.
  destruct s as [mb cl ps todo mid dr prog cm ob de pn]. cbn.
  destruct cm as [|x|x].
  - destruct prog as [|[| | | |] rest]; [discriminate| | | | |].
    + destruct mb; intros E; inversion E; cbn; auto.
    + intros E; inversion E; cbn; auto.
    + destruct cl as [[| |]|]; intros E; inversion E; cbn; auto.
    + destruct cl; intros E; inversion E; cbn; auto.
    + destruct cl; intros E; inversion E; cbn; auto.
  - destruct mb; destruct x; intros E; inversion E; cbn; auto.
  - destruct mb; [|destruct x]; intros E; inversion E; cbn; auto.
Qed.

Lemma J_step_c d0 s s' : J s -> step_c d0 s = Some s' -> J s'.
Proof.
  intros [J1 [J2 J3]] E. destruct (step_c_producer d0 s s' E) as [Hm [Ht [Hd _]]].
  unfold J. rewrite Hm, Ht, Hd. split; [exact J1|].
  destruct s as [mb cl ps todo mid dr prog cm ob de pn]. cbn in *.
  destruct cm as [|x|x].
  - destruct prog as [|[| | | |] rest]; [discriminate| | | | |].
    + destruct mb; inversion E; subst; cbn; split; auto; discriminate.
    + inversion E; subst; cbn; split; auto; discriminate.
    + destruct cl as [[| |]|]; inversion E; subst; cbn; split; auto; discriminate.
    + destruct cl; inversion E; subst; cbn. split; [intros _; apply J3; discriminate|congruence].
    + destruct cl; inversion E; subst; cbn. split; [intros _; apply J3; discriminate|congruence].
  - destruct mb; destruct x; inversion E; subst; cbn; split; auto; discriminate.
  - destruct mb; [|destruct x]; inversion E; subst; cbn; split; auto; discriminate.
Qed.

Lemma J_step_or_stay d0 t s : J s -> J (step_or_stay d0 t s).
Proof.
  intros H. unfold step_or_stay, step. destruct t.
  - destruct (step_p s) eqn:E; [eapply J_step_p; eauto|exact H].
  - destruct (step_c d0 s) eqn:E; [eapply J_step_c; eauto|exact H].
Qed.

Lemma J_run d0 sched : forall s, J s -> J (run d0 sched s).
Proof. induction sched as [|t r IH]; intros s H; cbn; [exact H|]. apply IH. now apply J_step_or_stay. Qed.

(* ---------------------------------------------------------------- step facts *)
Lemma step_p_dropped_none s : p_dropped s = true -> step_p s = None.
Proof. destruct s as [mb cl ps todo mid dr prog cm ob de pn]. cbn. intros ->. reflexivity. Qed.

(* the second half of write() leaves the producer between calls *)
Lemma step_p_second s s' : p_mid s = true -> step_p s = Some s' -> p_mid s' = false.
Proof.
  destruct s as [mb cl ps todo mid dr prog cm ob de pn]. cbn. intros ->. destruct dr; [discriminate|].
  destruct todo as [|[w|] rest]; [| |]; try (intros E; inversion E; reflexivity).
  destruct ps; intros E; inversion E; reflexivity.
Qed.

Lemma step_p_mid_alive s s' : step_p s = Some s' -> p_mid s' = true -> p_dropped s' = false.
Proof.
  destruct s as [mb cl ps todo mid dr prog cm ob de pn]. cbn. destruct dr; [discriminate|].
  destruct todo as [|[w|] rest]; [| |]; try (intros E; inversion E; subst; cbn; congruence).
  destruct mid; destruct ps; try destruct mb; intros E; inversion E; subst; cbn; congruence.
Qed.

(* the second half of await_real_file / expect_closed_write leaves the consumer between calls *)
Lemma step_c_second d0 s s' : taken (c_mid s) = true -> step_c d0 s = Some s' -> c_mid s' = CIdle.
Proof.
  destruct s as [mb cl ps todo mid dr prog cm ob de pn]. cbn. destruct cm as [|x|x]; [discriminate| |]; intros _.
  - destruct mb; destruct x; intros E; inversion E; reflexivity.
  - destruct mb; [|destruct x]; intros E; inversion E; reflexivity.
Qed.

(* The local write of the producer commutes with every first step of the consumer. *)
Lemma diamond d0 s sp : p_mid s = true -> (exists w rest, p_todo s = PWrite w :: rest) -> c_mid s = CIdle ->
  step_p s = Some sp ->
  match step_c d0 s with
  | Some sc => exists s2, step_p sc = Some s2 /\ step_c d0 sp = Some s2
  | None => step_c d0 sp = None
  end.
Proof.
  destruct s as [mb cl ps todo mid dr prog cm ob de pn]. cbn. intros -> [w [rest ->]] ->.
  destruct dr; [discriminate|].
  destruct ps; intros E; inversion E; subst; clear E;
    destruct prog as [|[| | | |] prest]; cbn; try reflexivity;
    try (destruct mb); try (destruct cl as [[| |]|]); cbn; try reflexivity; eexists; split; reflexivity.
Qed.

(* ---------------------------------------------------------------- the simulation *)
Definition abs (d0 : bytes) (s : st) : cst := mkc (complete d0 s) (p_mid s) (taken (c_mid s)).

Lemma taken_idle m : taken m = false -> m = CIdle.
Proof. destruct m; [reflexivity|discriminate|discriminate]. Qed.

Lemma sim_step d0 t s : J s -> cstep_or_stay d0 t (abs d0 s) = abs d0 (step_or_stay d0 t s).
Proof.
  intros HJ. pose proof HJ as [J1 [J2 J3]].
  unfold cstep_or_stay, step_or_stay, abs, cstep, step. destruct t.
  - (* a slot of the producer *)
    destruct (p_mid s) eqn:Hmid.
    + (* second half: the call has already been executed by the call-level machine *)
      destruct (J1 eq_refl) as [Hd _]. destruct (producer_enabled s Hd) as [s2 E2]. rewrite E2.
      pose proof (step_p_second _ _ Hmid E2) as Hm2. destruct (step_p_consumer _ _ E2) as [_ Hc2].
      rewrite Hm2, Hc2. unfold complete, complete_p. rewrite Hmid, E2, Hm2. reflexivity.
    + destruct (taken (c_mid s)) eqn:Htk.
      * (* the consumer is inside its last call, so the producer has dropped: nothing moves *)
        pose proof (J2 eq_refl) as Hd. rewrite (step_p_dropped_none s Hd).
        assert (Hd' : p_dropped (complete d0 s) = true).
        { unfold complete, complete_p, complete_c. rewrite Hmid, Htk.
          destruct (step_c d0 s) eqn:E; [|exact Hd].
          destruct (step_c_producer _ _ _ E) as [_ [_ [-> _]]]. exact Hd. }
        rewrite (step_p_dropped_none _ Hd'). rewrite Hmid, Htk. reflexivity.
      * assert (Hcs : complete d0 s = s) by (unfold complete, complete_p, complete_c; now rewrite Hmid, Htk).
        rewrite Hcs. destruct (step_p s) as [s1|] eqn:E1.
        -- destruct (step_p_consumer _ _ E1) as [_ Hc1].
           destruct (p_mid s1) eqn:Hm1.
           ++ pose proof (step_p_mid_alive _ _ E1 Hm1) as Hd1. destruct (producer_enabled s1 Hd1) as [s2 E2].
              rewrite E2. rewrite Hc1, Htk. unfold complete, complete_p, complete_c. rewrite Hm1, E2.
              destruct (step_p_consumer _ _ E2) as [_ Hc2]. rewrite Hc2, Hc1, Htk. reflexivity.
           ++ rewrite Hc1, Htk. unfold complete, complete_p, complete_c. rewrite Hm1, Hc1, Htk. reflexivity.
        -- rewrite Hmid, Htk, Hcs. reflexivity.
  - (* a slot of the consumer *)
    destruct (taken (c_mid s)) eqn:Htk.
    + (* second half *)
      pose proof (J2 eq_refl) as Hd.
      assert (Hmid : p_mid s = false).
      { destruct (p_mid s) eqn:Hm; [|reflexivity]. destruct (J1 eq_refl) as [Hd' _]. congruence. }
      assert (Hne : c_mid s <> CIdle) by (intros H; rewrite H in Htk; discriminate).
      destruct (consumer_enabled_taken d0 s Hne) as [s2 E2]. rewrite E2.
      pose proof (step_c_second _ _ _ Htk E2) as Hc2. destruct (step_c_producer _ _ _ E2) as [Hm2 _].
      rewrite Hm2, Hc2, Hmid. cbn [taken is_idle negb].
      unfold complete, complete_p, complete_c. rewrite Hmid, Htk, E2, Hm2, Hmid, Hc2. reflexivity.
    + pose proof (taken_idle _ Htk) as Hidle.
      (* the call-level state is the fine state with the producer's pending local write done *)
      assert (Hcs : complete d0 s = complete_p s).
      { unfold complete, complete_c.
        assert (Hc : c_mid (complete_p s) = c_mid s).
        { unfold complete_p. destruct (p_mid s); [|reflexivity]. destruct (step_p s) eqn:E; [|reflexivity].
          now destruct (step_p_consumer _ _ E). }
        now rewrite Hc, Htk. }
      rewrite Hcs.
      (* step_c commutes with complete_p *)
      assert (Hcomm : step_c d0 (complete_p s) =
                      match step_c d0 s with Some sc => Some (complete_p sc) | None => None end).
      { unfold complete_p at 1. destruct (p_mid s) eqn:Hmid.
        - destruct (J1 eq_refl) as [Hd Htodo]. destruct (producer_enabled s Hd) as [sp Ep]. rewrite Ep.
          pose proof (diamond d0 s sp Hmid Htodo Hidle Ep) as Hdm.
          destruct (step_c d0 s) as [sc|] eqn:Ec; [|exact Hdm].
          destruct Hdm as [s2 [Ep2 Ec2]]. rewrite Ec2. unfold complete_p.
          destruct (step_c_producer _ _ _ Ec) as [-> _]. now rewrite Hmid, Ep2.
        - destruct (step_c d0 s) as [sc|] eqn:Ec; [|reflexivity].
          unfold complete_p. destruct (step_c_producer _ _ _ Ec) as [-> _]. now rewrite Hmid. }
      rewrite Hcomm. destruct (step_c d0 s) as [sc|] eqn:Ec.
      * destruct (step_c_producer _ _ _ Ec) as [Hmc _].
        assert (Hcc : c_mid (complete_p sc) = c_mid sc).
        { unfold complete_p. destruct (p_mid sc); [|reflexivity]. destruct (step_p sc) eqn:E; [|reflexivity].
          now destruct (step_p_consumer _ _ E). }
        rewrite Hcc. unfold complete at 1. unfold complete_c. rewrite Hcc.
        destruct (taken (c_mid sc)) eqn:Htc.
        -- assert (Hne : c_mid (complete_p sc) <> CIdle) by (rewrite Hcc; intros H; rewrite H in Htc; discriminate).
           destruct (consumer_enabled_taken d0 _ Hne) as [s2 E2]. rewrite E2. now rewrite Hmc.
        -- now rewrite Hmc.
      * rewrite Htk. rewrite Hcs. reflexivity.
Qed.

Theorem tempbuf_call_atomic : forall d0 ops prog sched,
  crun d0 sched (cinit ops prog) = abs d0 (run d0 sched (init ops prog)).
Proof.
  intros d0 ops prog sched. unfold cinit.
  assert (H0 : mkc (init ops prog) false false = abs d0 (init ops prog)) by reflexivity.
  rewrite H0. generalize (J_init ops prog). generalize (init ops prog).
  induction sched as [|t r IH]; intros s HJ; cbn; [reflexivity|].
  rewrite sim_step by exact HJ. apply IH. now apply J_step_or_stay.
Qed.

(* once both machines are between calls they are in the very same state; in particular the
   observations and the destination agree *)
Lemma complete_idle d0 s : p_mid s = false -> c_mid s = CIdle -> complete d0 s = s.
Proof. intros Hm Hc. unfold complete, complete_p, complete_c. rewrite Hm, Hc. reflexivity. Qed.

Theorem tempbuf_call_atomic_obs : forall d0 ops prog sched,
  let s := run d0 sched (init ops prog) in
  let k := k_st (crun d0 sched (cinit ops prog)) in
  (* answers of is_real_file_ready()/len() never depend on a pending second half *)
  c_obs k = c_obs s /\
  (p_mid s = false -> c_mid s = CIdle -> k = s).
Proof.
  intros d0 ops prog sched s k. unfold k. rewrite tempbuf_call_atomic. cbn [k_st abs]. fold s. split.
  - unfold complete, complete_p, complete_c.
    assert (Hp : forall x, c_obs (if p_mid x then match step_p x with Some s' => s' | None => x end else x) = c_obs x
                           /\ c_mid (if p_mid x then match step_p x with Some s' => s' | None => x end else x) = c_mid x).
    { intros x. destruct (p_mid x); [|auto]. destruct (step_p x) eqn:E; [|auto].
      destruct x as [mb cl ps todo mid dr prog' cm ob de pn]. cbn in E. destruct dr; [discriminate|].
      destruct todo as [|[w|] rest]; [| |]; try (inversion E; subst; cbn; auto; fail).
      destruct mid; destruct ps; try destruct mb; inversion E; subst; cbn; auto. }
    destruct (Hp s) as [Ho Hc]. set (sp := if p_mid s then match step_p s with Some s' => s' | None => s end else s) in *.
    rewrite <- Ho. destruct (taken (c_mid sp)) eqn:Htk; [|reflexivity].
    destruct (step_c d0 sp) eqn:E; [|reflexivity].
    destruct sp as [mb cl ps todo mid dr prog' cm ob de pn]. cbn in *.
    destruct cm as [|x|x]; [discriminate| |].
    + destruct mb; destruct x; inversion E; subst; reflexivity.
    + destruct mb; [|destruct x]; inversion E; subst; reflexivity.
  - intros Hm Hc. now apply complete_idle.
Qed.
